package main

// C13 — messages survive any compression setting; reader checkpoints resume exactly.
//
// Groups (each compared with the Gallina model of coq/theories/Wire on every run):
//   "uv"    : binary.PutUvarint / binary.ReadUvarint on boundary values and malformed inputs
//   "npo2"  : wire's buffer growth function (hook VerifNextPowerOf2)
//   "frame" : wire.WriteContext stream bytes of small message lists (uncompressed, with and
//             without magic) and wire.ReadContext on every truncation of them
//   "ckpt"  : wire.ReadContext driven by Want/Pop/Read schedules over the real sources; reader
//             state after every operation (offset, buffer capacity, save state), popped
//             checkpoints, messages read by a fresh reader resumed from a popped checkpoint.
//             Seek source: the model predicts the emissions; decompressors: the observed
//             emissions are replayed in the model. Half of the cases also call Resume on the
//             reader while it is in use (c13_rewind.go; model: Wire/Rewind.v).
// Oracle-only cases (group ""): every size class up to 4 MiB+1 and beyond (4 MiB+64 KiB .. 16 MiB+1,
// thorough 64 MiB+1), every registered codec, checkpoints popped at every boundary, gob round
// trip, fresh reader, remaining messages; the same with readers that are rewound / restarted
// while in use, whatever save they have in flight (c13_rewind.go).
//
// Caller behaviour is part of the input: the way the caller hands a message struct to
// ReadMessage (a new one per read, ONE struct reused for every read - what every reader of
// wharf does - or a struct that still holds other values) and to WriteMessage (a struct and a
// data buffer per message, or one struct and one buffer refilled for every write and scribbled
// over afterwards - what pwr's diff does with its data ops).

import (
	"bytes"
	"encoding/binary"
	"encoding/gob"
	"fmt"
	"io"
	"strings"
	"time"

	"github.com/itchio/savior"
	"github.com/itchio/savior/brotlisource"
	"github.com/itchio/savior/gzipsource"
	"github.com/itchio/savior/seeksource"

	"github.com/itchio/wharf/pwr"
	"github.com/itchio/wharf/wire"

	"verif/harness/lib"
)

func init() { register("C13", runC13) }

const c13Magic int32 = 0x0fad0fad

// body sizes named by the property (1 is impossible for a protobuf body: the smallest
// non-empty message is tag + value = 2 bytes; 2 and 3 stand in for it)
var c13Small = []int{0, 2, 3, 127, 128, 129, 130, 16383, 16384, 16385}
var c13Mid = []int{32767, 32768, 32769, 65535, 65536, 65537}
var c13Big = []int{1 << 20, 4<<20 + 1}

// "> 4 MiB" is open ended: a full data op plus more than any envelope, the next growth
// steps of the reusable buffer (8 MiB, 16 MiB) and, thorough only, 32 MiB+1 and 64 MiB+1
var c13Huge = []int{4<<20 + 64<<10 + 1, 6 << 20, 8<<20 - 1, 8 << 20, 8<<20 + 1, 16<<20 + 1}
var c13HugeDeep = []int{32<<20 + 1, 64<<20 + 1}

// ---------- how the caller holds its message structs ----------

const (
	c13Fresh = iota // a new struct for every read (what the repo's tests do)
	c13Reuse        // one struct for every read (what every reader of wharf does)
	c13Dirty        // a struct that still holds unrelated values in every field
)

var c13ModeName = []string{"fresh", "reuse", "dirty"}

// modes in the proportion they are drawn: reuse is the common case in wharf
var c13ModeMix = []int{c13Reuse, c13Dirty, c13Fresh, c13Reuse}

type c13Target struct {
	mode int
	m    *wire.Sample
	n    int
}

// next returns the struct the next ReadMessage is given
func (t *c13Target) next() *wire.Sample {
	t.n++
	switch t.mode {
	case c13Reuse:
		if t.m == nil {
			t.m = &wire.Sample{}
		}
		return t.m
	case c13Dirty:
		return &wire.Sample{Data: []byte{0xde, 0xad, byte(t.n)}, Number: int64(-t.n), Eof: t.n%3 != 0}
	}
	return &wire.Sample{}
}

// keep returns what ReadMessage left in m, detached from m (the next read may overwrite it)
func (t *c13Target) keep(m *wire.Sample) *wire.Sample {
	if t.mode != c13Reuse {
		return m
	}
	c := &wire.Sample{Number: m.Number, Eof: m.Eof}
	if m.Data != nil {
		c.Data = append(make([]byte, 0, len(m.Data)), m.Data...)
	}
	return c
}

// codecs: the shared list plus the remaining registered qualities
func c13Codecs(thorough bool) []lib.Compression {
	out := append([]lib.Compression(nil), lib.Compressions...)
	if thorough {
		for _, q := range []int32{-1, 0, 2, 3, 4, 5, 7, 8} {
			out = append(out, lib.Compression{Algo: pwr.CompressionAlgorithm_GZIP, Quality: q})
		}
		for _, q := range []int32{0, 2, 3, 4, 5, 7, 8} {
			out = append(out, lib.Compression{Algo: pwr.CompressionAlgorithm_BROTLI, Quality: q})
		}
	} else {
		out = append(out, lib.Compression{Algo: pwr.CompressionAlgorithm_GZIP, Quality: 0}, lib.Compression{Algo: pwr.CompressionAlgorithm_BROTLI, Quality: 0})
	}
	// the shared list has grown to contain some of these
	seen := map[lib.Compression]bool{}
	uniq := out[:0]
	for _, c := range out {
		if !seen[c] {
			seen[c] = true
			uniq = append(uniq, c)
		}
	}
	return uniq
}

// the search tier (run after a model/implementation disagreement) uses quick-sized cases,
// twice as many, with other seeds
func c13Deep(c *Ctx) bool { return c.Tier == "thorough" }

func c13N(c *Ctx, quick, thorough int) int {
	switch c.Tier {
	case "thorough":
		return thorough
	case "search":
		return 2 * quick
	}
	return quick
}

func c13Cause(err error) error {
	for err != nil {
		c, ok := err.(interface{ Cause() error })
		if !ok {
			break
		}
		err = c.Cause()
	}
	return err
}

// error class of a read: ok | eof | unexpected | format | error
func c13Class(err error) string {
	switch c13Cause(err) {
	case nil:
		return "ok"
	case io.EOF:
		return "eof"
	case io.ErrUnexpectedEOF:
		return "unexpected"
	case wire.ErrFormat:
		return "format"
	}
	return "error"
}

var c13ClassN = map[string]int{"ok": 0, "eof": 1, "unexpected": 2, "overflow": 3, "format": 4, "error": 5, "panic": 6}

// ---------- messages ----------

func uvLen(x uint64) int {
	n := 1
	for x >= 0x80 {
		x >>= 7
		n++
	}
	return n
}

// fill kinds: 0 runs (RLE friendly), 1 random, 2 low entropy
func c13Fill(r *lib.Rng, n, kind int) []byte {
	switch kind {
	case 1:
		return r.Bytes(n)
	case 2:
		b := make([]byte, n)
		for i := range b {
			b[i] = "abcdefgh \n"[r.Intn(10)]
		}
		return b
	}
	b := make([]byte, n)
	for i := 0; i < n; {
		l := r.Range(1, 4000)
		if r.Chance(1, 4) {
			l = r.Range(1, 5)
		}
		v := byte(r.Intn(256))
		for j := 0; j < l && i < n; j++ {
			b[i] = v
			i++
		}
	}
	return b
}

// c13Sample builds a wire.Sample whose marshalled body has exactly `target` bytes
// (target 1 is impossible and yields 2).
func c13Sample(r *lib.Rng, target, kind, idx int) *wire.Sample {
	if target <= 0 {
		return &wire.Sample{}
	}
	if target <= 2 {
		if r.Bool() {
			return &wire.Sample{Eof: true}
		}
		return &wire.Sample{Number: int64(idx%127 + 1)}
	}
	if target == 3 {
		return &wire.Sample{Number: int64(128 + idx%16000)}
	}
	// extras: bytes spent on number / eof
	type extra struct {
		n      int
		number int64
		eof    bool
	}
	extras := []extra{{2, int64(idx%127 + 1), false}, {0, 0, false}, {3, int64(128 + idx%16000), false}, {4, int64(idx%127 + 1), true}, {5, int64(128 + idx%16000), true}}
	for _, e := range extras {
		rest := target - e.n // = 1 + uvLen(d) + d
		for _, l := range []int{1, 2, 3, 4, 5} {
			d := rest - 1 - l
			if d >= 1 && uvLen(uint64(d)) == l {
				return &wire.Sample{Data: c13Fill(r, d, kind), Number: e.number, Eof: e.eof}
			}
		}
	}
	return &wire.Sample{Data: c13Fill(r, target, kind)}
}

// c13Body returns the frame body wire.WriteContext produces for m (protobuf marshalling is
// a trusted external codec; the harness module does not import it directly).
func c13Body(m *wire.Sample) ([]byte, error) {
	var buf bytes.Buffer
	if err := wire.NewWriteContext(&buf).WriteMessage(m); err != nil {
		return nil, err
	}
	l, k := binary.Uvarint(buf.Bytes())
	if k <= 0 || int(l) != buf.Len()-k {
		return nil, fmt.Errorf("frame of %d bytes announces %d", buf.Len(), l)
	}
	return buf.Bytes()[k:], nil
}

// c13Diff words a difference for the replay file
func c13Diff(got, want *wire.Sample) string {
	d := "same data"
	if !bytes.Equal(got.Data, want.Data) {
		d = "data differs"
	}
	return fmt.Sprintf("read {data %d bytes, number %d, eof %v}, written {data %d bytes, number %d, eof %v}, %s",
		len(got.Data), got.Number, got.Eof, len(want.Data), want.Number, want.Eof, d)
}

func c13Equal(a, b *wire.Sample) bool {
	return bytes.Equal(a.Data, b.Data) && a.Number == b.Number && a.Eof == b.Eof
}

// ---------- streams ----------

type c13Stream struct {
	comp   lib.Compression
	msgs   []*wire.Sample
	bodies [][]byte // independent marshalling of every message
	bounds []int64  // bounds[k] = offset in the (decompressed) section after k messages
	raw    []byte   // magic + header + (compressed) section
}

// c13Pen hands messages to WriteMessage. reuse: one struct and one data buffer are refilled
// for every message and overwritten as soon as WriteMessage has returned (the writer must
// have taken what it needs by then; pwr's diff reuses its data-op buffer this way).
type c13Pen struct {
	reuse   bool
	m       *wire.Sample
	scratch []byte
}

func (p *c13Pen) write(w *wire.WriteContext, m *wire.Sample) error {
	if !p.reuse {
		return w.WriteMessage(m)
	}
	if p.m == nil {
		p.m = &wire.Sample{}
	}
	p.scratch = append(p.scratch[:0], m.Data...)
	p.m.Data = nil
	if m.Data != nil {
		p.m.Data = p.scratch
	}
	p.m.Number, p.m.Eof = m.Number, m.Eof
	err := w.WriteMessage(p.m)
	for i := range p.scratch {
		p.scratch[i] ^= 0xa5
	}
	p.m.Number, p.m.Eof = ^p.m.Number, !p.m.Eof
	return err
}

func c13Build(comp lib.Compression, msgs []*wire.Sample, penReuse bool) (*c13Stream, error) {
	st := &c13Stream{comp: comp, msgs: msgs, bounds: []int64{0}}
	pen := &c13Pen{reuse: penReuse}
	for _, m := range msgs {
		b, err := c13Body(m)
		if err != nil {
			return nil, err
		}
		st.bodies = append(st.bodies, b)
		st.bounds = append(st.bounds, st.bounds[len(st.bounds)-1]+int64(uvLen(uint64(len(b)))+len(b)))
	}
	var buf bytes.Buffer
	cls, msg := lib.Guard(func() error {
		rawW := wire.NewWriteContext(&buf)
		if err := rawW.WriteMagic(c13Magic); err != nil {
			return err
		}
		if err := rawW.WriteMessage(&pwr.PatchHeader{Compression: comp.Settings()}); err != nil {
			return err
		}
		w, err := pwr.CompressWire(rawW, comp.Settings())
		if err != nil {
			return err
		}
		for i, m := range msgs {
			if err := pen.write(w, m); err != nil {
				return fmt.Errorf("message %d (body of %d bytes): %v", i, len(st.bodies[i]), err)
			}
		}
		return w.Close()
	})
	if cls != "ok" {
		return st, fmt.Errorf("write %s: %s", cls, msg)
	}
	st.raw = buf.Bytes()
	return st, nil
}

// c13Open does what patcher.New does: magic, header, DecompressWire.
func c13Open(raw []byte) (*wire.ReadContext, error) {
	src := seeksource.FromBytes(raw)
	if _, err := src.Resume(nil); err != nil {
		return nil, err
	}
	rw := wire.NewReadContext(src)
	if err := rw.ExpectMagic(c13Magic); err != nil {
		return nil, err
	}
	hdr := &pwr.PatchHeader{}
	if err := rw.ReadMessage(hdr); err != nil {
		return nil, err
	}
	return pwr.DecompressWire(rw, hdr.Compression)
}

// c13Source rebuilds the source chain of DecompressWire (to measure where a source
// restarts when handed a checkpoint).
func c13Source(raw []byte, comp lib.Compression) (savior.Source, error) {
	src := seeksource.FromBytes(raw)
	if _, err := src.Resume(nil); err != nil {
		return nil, err
	}
	rw := wire.NewReadContext(src)
	if err := rw.ExpectMagic(c13Magic); err != nil {
		return nil, err
	}
	if err := rw.ReadMessage(&pwr.PatchHeader{}); err != nil {
		return nil, err
	}
	off := src.Tell()
	sec, err := src.Section(off, src.Size()-off)
	if err != nil {
		return nil, err
	}
	var fin savior.Source = sec
	switch comp.Algo {
	case pwr.CompressionAlgorithm_GZIP:
		fin = gzipsource.New(sec)
	case pwr.CompressionAlgorithm_BROTLI:
		fin = brotlisource.New(sec)
	}
	if _, err := fin.Resume(nil); err != nil {
		return nil, err
	}
	return fin, nil
}

type c13Saved struct {
	MessageCheckpoint *wire.MessageReaderCheckpoint
}

func c13Gob(ck *wire.MessageReaderCheckpoint) ([]byte, error) {
	var b bytes.Buffer
	if err := gob.NewEncoder(&b).Encode(&c13Saved{MessageCheckpoint: ck}); err != nil {
		return nil, err
	}
	return b.Bytes(), nil
}

func c13Ungob(b []byte) (*wire.MessageReaderCheckpoint, error) {
	s := &c13Saved{}
	if err := gob.NewDecoder(bytes.NewReader(b)).Decode(s); err != nil {
		return nil, err
	}
	return s.MessageCheckpoint, nil
}

// ---------- schedules and traces ----------

type c13Ev struct {
	op     byte // 'W' 'P' 'R', and 'Z' = Resume on this same (used) reader, see c13_rewind.go
	msg    *wire.Sample
	cls    string
	ck     *wire.MessageReaderCheckpoint
	gobbed []byte
	k      int // position (messages before the reader) before this op
	off    int64
	cap    int
	save   int
	scOff  int64
	detail string // text of a failed read, for the replay only
	// 'Z' only: index in the trace of the pop whose checkpoint is handed to Resume (-1: Resume(nil),
	// start over) and the position it stands for. The checkpoint is always decoded afresh from
	// its gob bytes, as the property has it ("after serialization"): a gzip checkpoint *object*
	// can be resumed once only - kompress' flate.Checkpoint.Resume hands the checkpoint's own
	// window slice to the reader it creates, which then writes into it.
	target int
	kTo    int
}

// schedule kinds
var c13Scheds = []string{"all", "even", "third", "random", "once", "wantall-popthird", "popfirst", "none", "want-only-end"}

// c13AtBoundary: does the schedule request a save / pop before the read at boundary k
func c13AtBoundary(r *lib.Rng, sched string, k, n, once int) (w, p bool) {
	switch sched {
	case "all", "popfirst":
		w, p = true, true
	case "even":
		w, p = k%2 == 0, true
	case "third":
		w, p = k%3 == 1, k%3 == 1
	case "random":
		w, p = r.Chance(1, 3), r.Chance(1, 2)
	case "once":
		w, p = k == once, true
	case "wantall-popthird":
		w, p = true, k%3 == 2
	case "want-only-end":
		w, p = k == n, k == n
	}
	return w, p
}

// c13BoundaryOps: the W / P operations of the schedule at boundary k, in its order
func c13BoundaryOps(r *lib.Rng, sched string, k, n, once int) []byte {
	var ops []byte
	w, p := c13AtBoundary(r, sched, k, n, once)
	if sched == "popfirst" {
		if p {
			ops = append(ops, 'P')
		}
		if w {
			ops = append(ops, 'W')
		}
	} else {
		if w {
			ops = append(ops, 'W')
		}
		if p {
			ops = append(ops, 'P')
		}
	}
	return ops
}

func c13Ops(r *lib.Rng, n int, sched string) []byte {
	var ops []byte
	once := r.Intn(n + 1)
	for k := 0; k <= n; k++ {
		ops = append(ops, c13BoundaryOps(r, sched, k, n, once)...)
		ops = append(ops, 'R')
	}
	// one more read after the end (end of stream is sticky), then a last pop
	ops = append(ops, 'R', 'P')
	return ops
}

// c13Run drives a reader through ops; a panic or hang-free error ends the run.
func c13Run(rc *wire.ReadContext, ops []byte, k0 int, mode int) []c13Ev {
	x := &c13Exec{rc: rc, tg: &c13Target{mode: mode}, k: k0}
	for _, op := range ops {
		x.do(op, -1)
		if x.dead {
			break
		}
	}
	return x.evs
}

// c13Exec performs the operations of a schedule on one reader and records, after each of
// them, what came back and the reader's state.
type c13Exec struct {
	rc    *wire.ReadContext
	tg    *c13Target
	k     int // position: messages before the reader
	reads int // ReadMessage calls that returned a message
	evs   []c13Ev
	dead  bool // a panic (or a refused rewind) ended the run
}

// do performs one operation; target is for 'Z' only
func (x *c13Exec) do(op byte, target int) *c13Ev {
	rc := x.rc
	ev := c13Ev{op: op, k: x.k, target: target}
	cls, msg := lib.Guard(func() error {
		switch op {
		case 'W':
			rc.WantSave()
		case 'P':
			ev.ck = rc.PopCheckpoint()
			if ev.ck != nil {
				g, err := c13Gob(ev.ck)
				if err != nil {
					return err
				}
				ev.gobbed = g
			}
		case 'R':
			m := x.tg.next()
			err := rc.ReadMessage(m)
			ev.cls = c13Class(err)
			if err == nil {
				ev.msg = x.tg.keep(m)
				x.k++
				x.reads++
			} else {
				ev.detail = err.Error()
			}
		case 'Z':
			var ck *wire.MessageReaderCheckpoint
			if target >= 0 {
				from := x.evs[target]
				ev.kTo = from.k
				var err error
				if ck, err = c13Ungob(from.gobbed); err != nil {
					return err
				}
			}
			if err := rc.Resume(ck); err != nil {
				return err
			}
			ev.cls = "ok"
			x.k = ev.kTo
		}
		return nil
	})
	if cls != "ok" {
		ev.cls = cls // panic | error (gob, Resume)
		if ev.detail == "" {
			ev.detail = msg
		}
	}
	func() {
		defer func() { recover() }()
		ev.off, ev.cap, ev.save, ev.scOff = rc.VerifOffset(), rc.VerifBufCap(), rc.VerifSaveState(), rc.VerifSourceCheckpointOffset()
	}()
	x.evs = append(x.evs, ev)
	if cls == "panic" || (op == 'Z' && cls != "ok") {
		x.dead = true
	}
	return &x.evs[len(x.evs)-1]
}

// c13ReadTail: a brand-new source and reader over the same bytes (optionally having read
// `pre` messages first, the way patcher.New reads the containers), resumed from the
// serialized checkpoint; reads up to limit messages (-1: until the first failure) and
// reports the class of the terminating read.
func c13ReadTail(raw []byte, gobbed []byte, pre int, limit int, mode int) (msgs []*wire.Sample, cls string, detail string) {
	var rc *wire.ReadContext
	tg := &c13Target{mode: mode}
	cls, detail = lib.Guard(func() error {
		ck, err := c13Ungob(gobbed)
		if err != nil {
			return err
		}
		rc, err = c13Open(raw)
		if err != nil {
			return err
		}
		for i := 0; i < pre; i++ {
			if err := rc.ReadMessage(tg.next()); err != nil {
				return fmt.Errorf("pre-read %d: %v", i, err)
			}
		}
		return rc.Resume(ck)
	})
	if cls != "ok" {
		return nil, "resume-" + cls, detail
	}
	end := "limit"
	cls, detail = lib.Guard(func() error {
		for limit < 0 || len(msgs) < limit {
			m := tg.next()
			if err := rc.ReadMessage(m); err != nil {
				end = c13Class(err)
				detail = err.Error()
				return nil
			}
			msgs = append(msgs, tg.keep(m))
		}
		return nil
	})
	if cls != "ok" {
		return msgs, cls, detail
	}
	return msgs, end, detail
}

// ---------- the oracle on one trace ----------

type c13Stats struct {
	pops, lagged, resumes, fallback0 int
	maxLag                           int64
}

// c13Judge restates the property on a trace of the main run (k0 = 0) and on the resumptions.
// budget: bytes after which the remainder of a resumed stream is only sampled.
func c13Judge(st *c13Stream, evs []c13Ev, r *lib.Rng, fullBudget int64, stats *c13Stats) string {
	n := len(st.msgs)
	k := 0
	wants := 0
	type popped struct {
		k      int
		gobbed []byte
	}
	var cks []popped
	for i, ev := range evs {
		switch ev.op {
		case 'W':
			wants++
		case 'Z':
			what := "Resume(nil)"
			if ev.target >= 0 {
				what = fmt.Sprintf("Resume(the checkpoint this reader popped after %d messages, gob-decoded)", ev.kTo)
			}
			if ev.cls != "ok" {
				return fmt.Sprintf("op %d: %s on the same reader, standing after %d messages: %s: %s", i, what, k, ev.cls, ev.detail)
			}
			k = ev.kTo
		case 'R':
			if ev.cls == "panic" {
				return fmt.Sprintf("op %d: ReadMessage panicked after %d messages", i, k)
			}
			if k < n {
				if ev.cls != "ok" {
					return fmt.Sprintf("message %d of %d (body of %d bytes): ReadMessage failed (%s): %s", k, n, len(st.bodies[k]), ev.cls, ev.detail)
				}
				k++
			} else if ev.cls != "eof" {
				return fmt.Sprintf("after the last message ReadMessage gave %q, want end of stream", ev.cls)
			}
		case 'P':
			if ev.cls == "panic" || ev.cls == "error" {
				return fmt.Sprintf("op %d: PopCheckpoint / gob encoding: %s", i, ev.cls)
			}
			if ev.ck == nil {
				continue
			}
			stats.pops++
			if wants == 0 {
				return fmt.Sprintf("op %d: a second checkpoint was popped without a new WantSave", i)
			}
			wants = 0
			if ev.ck.Offset != st.bounds[k] {
				return fmt.Sprintf("checkpoint popped after %d messages has offset %d, the message boundary is %d", k, ev.ck.Offset, st.bounds[k])
			}
			if ev.ck.SourceCheckpoint == nil {
				return fmt.Sprintf("checkpoint popped after %d messages carries no source checkpoint", k)
			}
			if so := ev.ck.SourceCheckpoint.Offset; so < 0 || so > ev.ck.Offset {
				return fmt.Sprintf("op %d: the checkpoint popped after %d messages (offset %d) carries a source checkpoint for offset %d, outside [0, %d]: no reader can resume from it", i, k, ev.ck.Offset, so, ev.ck.Offset)
			}
			if lag := ev.ck.Offset - ev.ck.SourceCheckpoint.Offset; lag > 0 {
				stats.lagged++
				if lag > stats.maxLag {
					stats.maxLag = lag
				}
			}
			cks = append(cks, popped{k, ev.gobbed})
		}
	}
	// messages are compared after the whole run: a message must not be disturbed by later reads
	k = 0
	for _, ev := range evs {
		if ev.op == 'Z' && ev.cls == "ok" {
			k = ev.kTo
		}
		if ev.op == 'R' && ev.msg != nil {
			if !c13Equal(ev.msg, st.msgs[k]) {
				return fmt.Sprintf("message %d read back differently: %s", k, c13Diff(ev.msg, st.msgs[k]))
			}
			k++
		}
	}
	// every popped checkpoint, serialized, handed to a new reader over the same bytes; the
	// remainder is read to the end while the byte budget of the case lasts, else the next
	// messages only (at least one)
	budgetLeft := fullBudget
	for j, p := range cks {
		rem := st.bounds[n] - st.bounds[p.k]
		share := budgetLeft / int64(len(cks)-j)
		limit := -1
		if rem > share {
			limit = 0
			for q := p.k; q < n && (limit == 0 || st.bounds[q+1]-st.bounds[p.k] <= share); q++ {
				limit++
			}
			if limit >= n-p.k {
				limit = -1
			}
		}
		if limit < 0 {
			budgetLeft -= rem
		} else {
			budgetLeft -= st.bounds[p.k+limit] - st.bounds[p.k]
		}
		if budgetLeft < 0 {
			budgetLeft = 0
		}
		pre := 0
		if r.Chance(1, 3) {
			pre = r.Range(1, 2)
			if pre > n {
				pre = n
			}
		}
		mode := c13ModeMix[r.Intn(len(c13ModeMix))]
		got, end, detail := c13ReadTail(st.raw, p.gobbed, pre, limit, mode)
		detail = "[" + c13ModeName[mode] + " message struct] " + detail
		stats.resumes++
		want := st.msgs[p.k:]
		if limit >= 0 && len(want) > limit {
			want = want[:limit]
			if end != "limit" {
				return fmt.Sprintf("resumed after %d messages (pre-read %d): stopped with %s after %d messages: %s", p.k, pre, end, len(got), detail)
			}
		} else if end != "eof" {
			return fmt.Sprintf("resumed after %d messages (pre-read %d): %d messages then %s, want %d messages then end of stream: %s", p.k, pre, len(got), end, len(want), detail)
		}
		if len(got) != len(want) {
			return fmt.Sprintf("resumed after %d messages (pre-read %d): read %d messages, want %d", p.k, pre, len(got), len(want))
		}
		for i := range want {
			if !c13Equal(got[i], want[i]) {
				return fmt.Sprintf("resumed after %d messages (pre-read %d): message %d after the checkpoint differs: %s %s", p.k, pre, i, c13Diff(got[i], want[i]), detail)
			}
		}
	}
	return ""
}

// c13Chain: crash/resume chains. Each generation reads with saves requested at every
// boundary, "crashes" right after some popped checkpoint, and the next generation (new
// source, new reader) continues from the serialized checkpoint.
func c13Chain(st *c13Stream, r *lib.Rng, stats *c13Stats) (string, int) {
	n := len(st.msgs)
	var rc *wire.ReadContext
	cls, msg := lib.Guard(func() error {
		var err error
		rc, err = c13Open(st.raw)
		return err
	})
	if cls != "ok" {
		return "open: " + cls + " " + msg, 0
	}
	k := 0
	gens := 0
	mode := c13ModeMix[r.Intn(len(c13ModeMix))]
	for steps := 0; steps < 4*n+8; steps++ {
		var crash []byte
		res := ""
		tg := &c13Target{mode: mode} // every generation is a new process
		cls, msg := lib.Guard(func() error {
			for {
				rc.WantSave()
				if ck := rc.PopCheckpoint(); ck != nil {
					stats.pops++
					if ck.Offset != st.bounds[k] {
						res = fmt.Sprintf("generation %d: checkpoint popped after %d messages has offset %d, the message boundary is %d", gens, k, ck.Offset, st.bounds[k])
						return nil
					}
					if r.Chance(1, 2) {
						g, err := c13Gob(ck)
						if err != nil {
							return err
						}
						crash = g
						return nil
					}
				}
				m := tg.next()
				err := rc.ReadMessage(m)
				if k == n {
					if c13Class(err) != "eof" {
						res = fmt.Sprintf("generation %d: after the last message got %q", gens, c13Class(err))
					}
					return nil
				}
				if err != nil {
					res = fmt.Sprintf("generation %d: message %d: %v", gens, k, err)
					return nil
				}
				if !c13Equal(m, st.msgs[k]) {
					res = fmt.Sprintf("generation %d: message %d differs: %s [%s message struct]", gens, k, c13Diff(m, st.msgs[k]), c13ModeName[mode])
					return nil
				}
				k++
			}
		})
		if cls != "ok" {
			return fmt.Sprintf("generation %d: %s %s", gens, cls, msg), gens
		}
		if res != "" {
			return res, gens
		}
		if crash == nil {
			return "", gens
		}
		gens++
		stats.resumes++
		cls, msg = lib.Guard(func() error {
			ck, err := c13Ungob(crash)
			if err != nil {
				return err
			}
			rc, err = c13Open(st.raw)
			if err != nil {
				return err
			}
			return rc.Resume(ck)
		})
		if cls != "ok" {
			return fmt.Sprintf("generation %d: resume after %d messages: %s %s", gens, k, cls, msg), gens
		}
	}
	return "", gens
}

// ---------- sequences ----------

type c13Seq struct {
	name  string
	sizes []int
	kind  int // fill kind
	// fixed: a save is requested at every boundary under every codec of the shared list;
	// modes: the case is run once per way of handing a message struct to ReadMessage;
	// codecs: 0 every codec, 1 uncompressed only (the bulk of the sequence is too heavy for the
	// slow decoders in a quick run), 2 the shared list only
	fixed, modes bool
	codecs       int
}

func c13Seqs(c *Ctx, r *lib.Rng) []c13Seq {
	var out []c13Seq
	maxMsgs := 40
	if c13Deep(c) {
		maxMsgs = 400
	}
	ladder := append(append(append([]int(nil), c13Small...), c13Mid...), c13Big...)
	out = append(out, c13Seq{name: "ladder", sizes: ladder, kind: 1, fixed: true})
	// big then small: the regrown buffer is reused for later, smaller messages
	out = append(out, c13Seq{name: "big-then-small", sizes: []int{32769, 0, 2, 127, 1 << 20, 128, 0, 4<<20 + 1, 3, 16384, 65537, 2, 32768, 0}, kind: 1, fixed: true})
	// empty messages (a 0-byte body: every field at its default) between, after and before
	// non-empty ones, read into every kind of message struct
	out = append(out, c13Seq{name: "empties", sizes: []int{5, 0, 300, 0, 0, 2, 40000, 0, 127, 3, 0}, kind: 1, fixed: true, modes: true})
	// beyond 4 MiB: the whole list uncompressed (thorough: under every codec of the shared list);
	// under every codec of the shared list a random size above 4 MiB,
	// the first growth step above it and small messages after them
	huge := append([]int(nil), c13Huge...)
	if c13Deep(c) {
		huge = append(huge, c13HugeDeep...)
	}
	var hs []int
	for i, h := range huge {
		hs = append(hs, h)
		if i%2 == 1 {
			hs = append(hs, []int{0, 2, 3, 127}[(i/2)%4])
		}
	}
	hs = append(hs, r.Range(4<<20+2, 16<<20), 0)
	hugeCodecs := 1
	if c13Deep(c) {
		hugeCodecs = 2
	}
	out = append(out, c13Seq{name: "huge", sizes: hs, kind: 0, fixed: true, codecs: hugeCodecs})
	out = append(out, c13Seq{name: "huge-codecs", sizes: []int{r.Range(4<<20+2, 6<<20), 0, 8<<20 + 1, 2}, kind: 0, fixed: true, codecs: 2})
	// growth steps of the reusable buffer, up and down
	var steps []int
	top := 18
	if c13Deep(c) {
		top = 21
	}
	for p := 15; p <= top; p++ {
		steps = append(steps, 1<<uint(p)-1, 1<<uint(p), 1<<uint(p)+1)
	}
	for p := top; p >= 15; p-- {
		steps = append(steps, 1<<uint(p)+1, 1<<uint(p))
	}
	out = append(out, c13Seq{name: "growth-steps", sizes: steps, kind: 0, fixed: true})
	// many small messages
	var small []int
	for i := 0; i < maxMsgs; i++ {
		small = append(small, []int{0, 2, 3, 5, 60, 127, 128, 129, 300}[r.Intn(9)])
	}
	out = append(out, c13Seq{name: "many-small", sizes: small, kind: 1, fixed: true})
	// block sized messages of incompressible data: decompressor checkpoints fall everywhere
	var blocks []int
	nb := 24
	if c13Deep(c) {
		nb = 120
	}
	for i := 0; i < nb; i++ {
		blocks = append(blocks, []int{r.Range(1000, 20000), r.Range(20000, 70000), r.Range(100000, 300000), c13Small[r.Intn(len(c13Small))], c13Mid[r.Intn(len(c13Mid))]}[r.Intn(5)])
	}
	out = append(out, c13Seq{name: "blocks-random", sizes: blocks, kind: 1, fixed: true})
	out = append(out, c13Seq{name: "blocks-text", sizes: blocks, kind: 2, fixed: true})
	extra := c13N(c, 2, 10)
	for i := 0; i < extra; i++ {
		var sz []int
		n := r.Range(1, maxMsgs)
		budget := 2 << 20
		if c13Deep(c) {
			budget = 6 << 20
		}
		for j := 0; j < n && budget > 0; j++ {
			var s int
			switch r.Intn(6) {
			case 0:
				s = c13Small[r.Intn(len(c13Small))]
			case 1:
				s = c13Mid[r.Intn(len(c13Mid))]
			case 2:
				s = r.Range(0, 400)
			case 3:
				s = r.Range(30000, 140000)
			case 4:
				s = 1<<uint(r.Range(15, 19)) + r.Range(-1, 1)
			default:
				s = c13Small[r.Intn(4)]
				if r.Chance(1, 12) {
					s = c13Big[r.Intn(2)]
				}
			}
			sz = append(sz, s)
			budget -= s
		}
		out = append(out, c13Seq{name: "mixed", sizes: sz, kind: r.Intn(3)})
	}
	return out
}

func c13Msgs(r *lib.Rng, sq c13Seq) []*wire.Sample {
	var msgs []*wire.Sample
	for i, s := range sq.sizes {
		msgs = append(msgs, c13Sample(r, s, sq.kind, i))
	}
	return msgs
}

func sizesSummary(sz []int) interface{} {
	if len(sz) <= 48 {
		return sz
	}
	return map[string]interface{}{"count": len(sz), "first": sz[:24], "last": sz[len(sz)-8:]}
}

func runC13(c *Ctx) error {
	c13Corpus(c)
	c13RewindCorpus(c)
	if err := c13Uvarint(c); err != nil {
		return err
	}
	if err := c13Frames(c); err != nil {
		return err
	}
	if err := c13Ckpt(c); err != nil {
		return err
	}
	if err := c13Streams(c); err != nil {
		return err
	}
	// (drawn last: the cases above are the same as before this family existed)
	return c13Rewinds(c)
}

// ---------- oracle-only streams: all sizes, all codecs ----------

// c13How: the caller side of a case - which struct ReadMessage is given, whether the writer's
// caller refills one struct and one buffer
type c13How struct {
	read int
	pen  bool
}

func (h c13How) String() string {
	if h.pen {
		return c13ModeName[h.read] + "+pen"
	}
	return c13ModeName[h.read]
}

// c13HowOf: the j-th combination, reuse first
func c13HowOf(j int) c13How {
	if j < 0 {
		j = -j
	}
	return c13How{read: c13ModeMix[j%len(c13ModeMix)], pen: j%2 == 0}
}

func c13StreamCase(c *Ctx, cr *lib.Rng, prefix string, sq c13Seq, msgs []*wire.Sample, comp lib.Compression, sched string, fullBudget int64, chain bool, how c13How) {
	c13StreamCaseRew(c, cr, prefix, sq, msgs, comp, sched, fullBudget, chain, how, nil)
}

// c13StreamCaseRew: eps != nil - the reader is also rewound / restarted (Resume on the same,
// used reader) at the points and in the states eps describes (c13_rewind.go)
func c13StreamCaseRew(c *Ctx, cr *lib.Rng, prefix string, sq c13Seq, msgs []*wire.Sample, comp lib.Compression, sched string, fullBudget int64, chain bool, how c13How, eps []c13Episode) {
	t0 := time.Now()
	st, err := c13Build(comp, msgs, how.pen)
	input := map[string]interface{}{"seq": sq.name, "sizes": sizesSummary(sq.sizes), "fill": sq.kind, "codec": comp.String(), "sched": sched,
		"readInto": c13ModeName[how.read] + " message struct", "writerReusesStructAndBuffer": how.pen}
	class := fmt.Sprintf("%s/%s/%s/%s/%s", prefix, sq.name, comp.String(), sched, how)
	if err != nil {
		c.Out.Emit(&lib.Case{Class: class, Input: input, Oracle: err.Error()})
		return
	}
	input["rawLen"] = len(st.raw)
	input["sectionLen"] = st.bounds[len(msgs)]
	stats := &c13Stats{}
	oracle := ""
	rewinds := 0
	var rc *wire.ReadContext
	cls, msg := lib.Guard(func() error {
		var err error
		rc, err = c13Open(st.raw)
		return err
	})
	if cls != "ok" {
		oracle = "opening the stream: " + cls + " " + msg
	} else {
		var evs []c13Ev
		if eps != nil {
			evs = c13Drive(rc, cr, len(msgs), sched, how.read, eps)
			input["sameReaderResumes"] = c13EpisodesDone(evs)
		} else {
			evs = c13Run(rc, c13Ops(cr, len(msgs), sched), 0, how.read)
		}
		oracle = c13Judge(st, evs, cr, fullBudget, stats)
		rewinds = c13CountOp(evs, 'Z')
	}
	chainGens := 0
	if oracle == "" && chain {
		var o string
		o, chainGens = c13Chain(st, cr, stats)
		if o != "" {
			oracle = "crash/resume chain: " + o
		}
	}
	c.Out.Emit(&lib.Case{Class: class, Nontrivial: stats.resumes > 0 && len(msgs) >= 2,
		Input:  input,
		Obs:    map[string]interface{}{"pops": stats.pops, "lagged": stats.lagged, "maxLag": stats.maxLag, "resumes": stats.resumes, "sameReaderResumes": rewinds, "chainGenerations": chainGens, "ms": time.Since(t0).Milliseconds()},
		Oracle: oracle})
}

// c13Corpus: inputs that failed on the unchanged tree (fixed since, see known_findings.json);
// they run first on every check.
//   - a stream ending in an empty message behind gzip lost that message (io.EOF instead)
//   - a checkpoint popped after the last message behind gzip could not be resumed (io.EOF)
func c13Corpus(c *Ctx) {
	r := lib.NewRng(13)
	for _, q := range []int32{0, 1, 6, 9} {
		comp := lib.Compression{Algo: pwr.CompressionAlgorithm_GZIP, Quality: q}
		for _, sizes := range [][]int{{70000, 0}, {0}, {20000, 2, 131073, 0, 65536}, {100, 32767}} {
			sq := c13Seq{name: "corpus", sizes: sizes}
			c13StreamCase(c, r.Fork(), "corpus", sq, c13Msgs(r.Fork(), sq), comp, "all", 1<<40, true, c13HowOf(int(q)+len(sizes)))
		}
	}
}

func c13Streams(c *Ctx) error {
	r := c.Rng.Fork()
	codecs := c13Codecs(c13Deep(c))
	seqs := c13Seqs(c, r)
	fullBudget := int64(4 << 20)
	if c13Deep(c) {
		fullBudget = 24 << 20
	}
	for si, sq := range seqs {
		mr := r.Fork()
		msgs := c13Msgs(mr, sq)
		for ci, comp := range codecs {
			cr := r.Fork()
			// the extra qualities get a share of the sequences only
			if ci >= len(lib.Compressions) && ((si+ci)%3 != 0 || sq.codecs == 2) {
				continue
			}
			if sq.codecs == 1 && comp.Algo != pwr.CompressionAlgorithm_NONE {
				continue
			}
			sched := c13Scheds[(si+ci+int(c.Seed))%len(c13Scheds)]
			if sq.fixed && ci < len(lib.Compressions) {
				sched = "all" // the fixed sequences: a save requested at every boundary, for every codec
			}
			b := fullBudget
			if comp.Algo == pwr.CompressionAlgorithm_BROTLI {
				b /= 2 // the pure Go brotli decoder is slow
			}
			j := si + ci + int(c.Seed)
			hows := []c13How{c13HowOf(j)}
			if sq.modes {
				hows = []c13How{{c13Reuse, j%2 == 0}, {c13Dirty, j%2 == 1}, {c13Fresh, j%2 == 0}}
			}
			for _, how := range hows {
				c13StreamCase(c, cr, "stream", sq, msgs, comp, sched, b, sched == "all" || cr.Chance(1, 3), how)
			}
		}
	}
	return nil
}

// ---------- group "ckpt": reader state machine against the model ----------

// run-length encoded bytes as a Coq term; pairs go through the typed constructor f2 (tuples
// of literals elaborate much more slowly)
func coqRle(b []byte) string {
	r := lib.ToRle(b)
	s := make([]string, len(r))
	for i, x := range r {
		s[i] = fmt.Sprintf("f2 %d %d", x.V, x.C)
	}
	return "[" + strings.Join(s, ";") + "]"
}

func coqRleBodies(bodies [][]byte) string {
	s := make([]string, len(bodies))
	for i, b := range bodies {
		s[i] = coqRle(b)
	}
	return lib.CoqList(s)
}

func fpOf(b []byte) (int, uint64) {
	var sum uint64
	for _, x := range b {
		sum += uint64(x)
	}
	return len(b), sum
}

func c13Ckpt(c *Ctx) error {
	r := c.Rng.Fork()
	n := c13N(c, 42, 360)
	codecs := c13Codecs(c13Deep(c))
	for i := 0; i < n; i++ {
		c13CkptCase(c, r.Fork(), i, codecs, false)
	}
	return nil
}

// c13CkptCase: one case of group "ckpt". rew: the reader is also resumed while in use
// (c13_rewind.go); the model then replays those Resume calls too (Wire/Rewind.v).
func c13CkptCase(c *Ctx, cr *lib.Rng, i int, codecs []lib.Compression, rew bool) {
	{
		comp := codecs[i%len(codecs)]
		if i%3 == 0 {
			comp = lib.Compressions[0] // seek source: the model predicts the emissions itself
		}
		// sizes: mostly small; some cases cross the 32 KiB buffer and grow it; decompressor cases
		// carry more data so that block boundaries occur
		var sizes []int
		nm := cr.Range(0, 14)
		if rew && nm < 3 {
			nm += 3 // something to go back to
		}
		shape := cr.Intn(4)
		if comp.Algo != pwr.CompressionAlgorithm_NONE && cr.Chance(2, 3) {
			shape = 4
			if nm > 8 {
				nm = 8
			}
		}
		for j := 0; j < nm; j++ {
			switch shape {
			case 0:
				sizes = append(sizes, []int{0, 2, 3, 10, 127, 128, 129, 130, 300}[cr.Intn(9)])
			case 1:
				sizes = append(sizes, []int{0, 2, 127, 128, 16383, 16384, 16385, 200}[cr.Intn(8)])
			case 2:
				sizes = append(sizes, []int{32767, 32768, 32769, 0, 2, 65536, 65537, 100, 40000}[cr.Intn(9)])
			case 3:
				sizes = append(sizes, cr.Range(0, 600))
			default:
				sizes = append(sizes, []int{70000, 40000, 20000, 0, 2, 65536, 3000, 131073}[cr.Intn(7+cr.Intn(2))])
			}
		}
		kind := 0 // RLE friendly bodies keep the case file small
		msgs := c13Msgs(cr, c13Seq{name: "ckpt", sizes: sizes, kind: kind})
		how := c13HowOf(i/2 + int(c.Seed))
		st, err := c13Build(comp, msgs, how.pen)
		sched := c13Scheds[cr.Intn(len(c13Scheds))]
		input := map[string]interface{}{"sizes": sizes, "codec": comp.String(), "sched": sched,
			"readInto": c13ModeName[how.read] + " message struct", "writerReusesStructAndBuffer": how.pen}
		class := fmt.Sprintf("ckpt/%s/%s/shape%d/%s", comp.String(), sched, shape, how)
		if rew {
			class = "ckpt-rewind" + class[4:]
		}
		if err != nil {
			c.Out.Emit(&lib.Case{Class: class, Input: input, Oracle: err.Error()})
			return
		}
		var ops []byte
		var eps []c13Episode
		if rew {
			eps = c13Episodes(cr, len(msgs), cr.Range(1, 3))
		} else {
			ops = c13Ops(cr, len(msgs), sched)
		}
		var rc *wire.ReadContext
		cls, msg := lib.Guard(func() error {
			var err error
			rc, err = c13Open(st.raw)
			return err
		})
		if cls != "ok" {
			c.Out.Emit(&lib.Case{Class: class, Input: input, Oracle: "opening the stream: " + cls + " " + msg})
			return
		}
		cap0 := rc.VerifBufCap()
		var evs []c13Ev
		if rew {
			evs = c13Drive(rc, cr, len(msgs), sched, how.read, eps)
			input["sameReaderResumes"] = c13EpisodesDone(evs)
		} else {
			evs = c13Run(rc, ops, 0, how.read)
		}
		stats := &c13Stats{}
		oracle := c13Judge(st, evs, cr, 1<<40, stats)

		// observed source behaviour: the read during which the save state turned "has source checkpoint"
		// (rows are keyed by the index of the operation: with rewinds the same read happens twice)
		type emission struct {
			op             int
			scOff, restart int64
		}
		var table []emission
		prevSave := 0
		scOffAt := map[int64]int64{} // source checkpoint offset -> measured restart
		for j, ev := range evs {
			// (Resume drops what the reader held: a checkpoint held right after it arrived while
			// the bytes up to the checkpoint's offset were read and discarded)
			if ev.save == 2 && (ev.op == 'R' && prevSave != 2 || ev.op == 'Z' && ev.cls == "ok") {
				table = append(table, emission{j, ev.scOff, ev.scOff})
			}
			prevSave = ev.save
		}
		// resumptions compared with the model: up to 3 popped checkpoints
		var popIdx []int
		for j, ev := range evs {
			if ev.op == 'P' && ev.ck != nil {
				popIdx = append(popIdx, j)
			}
		}
		for len(popIdx) > 3 {
			d := cr.Intn(len(popIdx))
			popIdx = append(popIdx[:d], popIdx[d+1:]...)
		}
		var resumes []string
		resObs := []interface{}{}
		for _, j := range popIdx {
			ev := evs[j]
			// where does a fresh source restart when handed this source checkpoint?
			restart := int64(-1)
			cls, msg := lib.Guard(func() error {
				ck, err := c13Ungob(ev.gobbed)
				if err != nil {
					return err
				}
				src, err := c13Source(st.raw, comp)
				if err != nil {
					return err
				}
				restart, err = src.Resume(ck.SourceCheckpoint)
				return err
			})
			if cls != "ok" && oracle == "" {
				oracle = fmt.Sprintf("source refuses its own checkpoint (popped after %d messages): %s %s", ev.k, cls, msg)
			}
			// (a checkpoint without source checkpoint: the oracle has said so above)
			if sc := ev.ck.SourceCheckpoint; sc != nil {
				if restart > sc.Offset && oracle == "" {
					oracle = fmt.Sprintf("source restarted at %d, after its checkpoint's offset %d", restart, sc.Offset)
				}
				scOffAt[sc.Offset] = restart
			}
			got, end, _ := c13ReadTail(st.raw, ev.gobbed, 0, -1, how.read)
			var fps []string
			for _, m := range got {
				b, _ := c13Body(m)
				l, s := fpOf(b)
				fps = append(fps, fmt.Sprintf("f2 %d %d", l, s))
			}
			endN, ok := c13ClassN[end]
			if !ok {
				endN = 5
			}
			resumes = append(resumes, fmt.Sprintf("rs %d %s %d", j, lib.CoqList(fps), endN))
			resObs = append(resObs, map[string]interface{}{"afterMessages": ev.k, "read": len(got), "end": end, "restart": restart})
		}
		for ti := range table {
			if rs, ok := scOffAt[table[ti].scOff]; ok && rs >= 0 {
				table[ti].restart = rs
			}
		}
		beh := "None"
		if comp.Algo != pwr.CompressionAlgorithm_NONE {
			var rows []string
			for _, e := range table {
				rows = append(rows, fmt.Sprintf("row %d %d %d", e.op, e.scOff, e.restart))
			}
			beh = "(Some " + lib.CoqList(rows) + ")"
		}
		var opsS, evS []string
		evObs := []interface{}{}
		for _, ev := range evs {
			snap := fmt.Sprintf("%d %d %d", ev.off, ev.cap, ev.save)
			switch ev.op {
			case 'Z':
				if ev.target < 0 {
					opsS = append(opsS, "xz_nil")
				} else {
					opsS = append(opsS, fmt.Sprintf("(xz %d)", ev.target))
				}
				evS = append(evS, fmt.Sprintf("ob (ERes %v) %s", ev.cls == "ok", snap))
			case 'W':
				opsS = append(opsS, "XW")
				evS = append(evS, "ob EWant "+snap)
			case 'P':
				opsS = append(opsS, "XP")
				if ev.ck == nil {
					evS = append(evS, "ob (EPop None) "+snap)
				} else {
					if ev.ck.SourceCheckpoint != nil {
						evS = append(evS, fmt.Sprintf("ob (pop_some %d %d) %s", ev.ck.Offset, ev.ck.SourceCheckpoint.Offset, snap))
					} else {
						evS = append(evS, fmt.Sprintf("ob (pop_nosrc %d) %s", ev.ck.Offset, snap))
					}
					so := int64(-1)
					if ev.ck.SourceCheckpoint != nil {
						so = ev.ck.SourceCheckpoint.Offset
					}
					evObs = append(evObs, map[string]interface{}{"popAfter": ev.k, "offset": ev.ck.Offset, "sourceOffset": so})
				}
			case 'R':
				opsS = append(opsS, "XR")
				if ev.msg != nil {
					b, _ := c13Body(ev.msg)
					l, s := fpOf(b)
					evS = append(evS, fmt.Sprintf("ob (rd_msg %d %d) %s", l, s, snap))
				} else {
					evS = append(evS, fmt.Sprintf("ob (rd_err %d) %s", c13ClassN[ev.cls], snap))
				}
			}
		}
		c.Out.Emit(&lib.Case{Group: "ckpt", Class: class,
			Nontrivial: stats.pops > 0 && len(msgs) >= 2,
			Input:      input,
			Obs:        map[string]interface{}{"pops": evObs, "resumes": resObs, "emissions": len(table), "cap0": cap0, "sameReaderResumes": c13CountOp(evs, 'Z')},
			Oracle:     oracle,
			Coq:        fmt.Sprintf("mk_ckpt $ID%%N %d %s %s %s %s %s", cap0, coqRleBodies(st.bodies), lib.CoqList(opsS), beh, lib.CoqList(evS), lib.CoqList(resumes))})
	}
}

// ---------- group "frame": stream bytes and every truncation ----------

func c13Frames(c *Ctx) error {
	r := c.Rng.Fork()
	n := c13N(c, 40, 600)
	for i := 0; i < n; i++ {
		cr := r.Fork()
		withMagic := cr.Bool()
		magic := []int32{c13Magic, 0, -1, 0x7fffffff, -0x80000000, int32(pwr.PatchMagic), int32(cr.U64())}[cr.Intn(7)]
		expect := magic
		if withMagic && cr.Chance(1, 6) {
			expect = magic ^ (1 << uint(cr.Intn(32)))
		}
		nm := cr.Range(0, 5)
		var sizes []int
		for j := 0; j < nm; j++ {
			sizes = append(sizes, []int{0, 2, 3, 5, 20, 126, 127, 128, 129, 130, 131, 200}[cr.Intn(12)])
		}
		if i%10 == 9 {
			sizes = []int{[]int{16383, 16384, 16385, 32768, 32769}[cr.Intn(5)], 0, 2}
		}
		msgs := c13Msgs(cr, c13Seq{name: "frame", sizes: sizes})
		var bodies [][]byte
		for _, m := range msgs {
			b, err := c13Body(m)
			if err != nil {
				return err
			}
			bodies = append(bodies, b)
		}
		var buf bytes.Buffer
		oracle := ""
		how := c13HowOf(i + int(c.Seed))
		pen := &c13Pen{reuse: how.pen}
		cls, msg := lib.Guard(func() error {
			w := wire.NewWriteContext(&buf)
			if withMagic {
				if err := w.WriteMagic(magic); err != nil {
					return err
				}
			}
			for _, m := range msgs {
				if err := pen.write(w, m); err != nil {
					return err
				}
			}
			return w.Close()
		})
		if cls != "ok" {
			oracle = "write: " + cls + " " + msg
		}
		stream := buf.Bytes()
		// truncations: every prefix for short streams, a sample around the frame boundaries otherwise
		var cuts []int
		if len(stream) <= 150 || (c13Deep(c) && len(stream) <= 300) {
			for p := 0; p <= len(stream); p++ {
				cuts = append(cuts, p)
			}
		} else {
			seen := map[int]bool{}
			pos := 0
			if withMagic {
				pos = 4
			}
			add := func(p int) {
				if p >= 0 && p <= len(stream) && !seen[p] {
					seen[p] = true
					cuts = append(cuts, p)
				}
			}
			for _, b := range bodies {
				for d := -1; d <= 3; d++ {
					add(pos + d)
				}
				pos += uvLen(uint64(len(b))) + len(b)
			}
			for d := -2; d <= 0; d++ {
				add(pos + d)
			}
			add(0)
			add(2)
			for j := 0; j < 16; j++ {
				add(cr.Intn(len(stream) + 1))
			}
		}
		var cutS []string
		nTrunc := 0
		for _, p := range cuts {
			src := seeksource.FromBytes(stream[:p])
			var got []*wire.Sample
			end := "ok"
			tg := &c13Target{mode: how.read}
			cls, msg := lib.Guard(func() error {
				if _, err := src.Resume(nil); err != nil {
					return err
				}
				rc := wire.NewReadContext(src)
				if withMagic {
					if err := rc.ExpectMagic(expect); err != nil {
						end = c13Class(err)
						return nil
					}
				}
				for {
					m := tg.next()
					if err := rc.ReadMessage(m); err != nil {
						end = c13Class(err)
						return nil
					}
					got = append(got, tg.keep(m))
					if len(got) > len(msgs)+2 {
						end = "error"
						return nil
					}
				}
			})
			if cls != "ok" {
				end = cls
				_ = msg
			}
			// oracle: a prefix of the written messages, never a wrong one; the whole stream gives all then eof
			if oracle == "" {
				if len(got) > len(msgs) {
					oracle = fmt.Sprintf("cut %d: %d messages read, only %d written", p, len(got), len(msgs))
				}
				for j := 0; oracle == "" && j < len(got); j++ {
					if !c13Equal(got[j], msgs[j]) {
						oracle = fmt.Sprintf("cut %d of %d: message %d read back differently (into a %s message struct)", p, len(stream), j, c13ModeName[how.read])
					}
				}
				if oracle == "" && end == "panic" {
					oracle = fmt.Sprintf("cut %d of %d: panic", p, len(stream))
				}
				if oracle == "" && p == len(stream) && expect == magic && (len(got) != len(msgs) || end != "eof") {
					oracle = fmt.Sprintf("whole stream: %d messages then %s, want %d then eof", len(got), end, len(msgs))
				}
				if oracle == "" && p < len(stream) && expect == magic && len(got) == len(msgs) && len(msgs) > 0 {
					oracle = fmt.Sprintf("cut %d of %d: all messages were read from a truncated stream", p, len(stream))
				}
			}
			if p < len(stream) {
				nTrunc++
			}
			cutS = append(cutS, fmt.Sprintf("cut %d %d %d", p, len(got), c13ClassN[end]))
		}
		mg := "None"
		if withMagic {
			mg = fmt.Sprintf("(Some (%s, %s))", lib.CoqZ(int64(magic)), lib.CoqZ(int64(expect)))
		}
		c.Out.Emit(&lib.Case{Group: "frame", Class: fmt.Sprintf("frame/magic=%v/wrong=%v/n%d", withMagic, expect != magic, len(msgs)),
			Nontrivial: len(msgs) >= 2 && nTrunc > 0,
			Input: map[string]interface{}{"magic": magic, "expect": expect, "withMagic": withMagic, "sizes": sizes,
				"readInto": c13ModeName[how.read] + " message struct", "writerReusesStructAndBuffer": how.pen},
			Obs:    map[string]interface{}{"streamLen": len(stream), "cuts": len(cuts)},
			Oracle: oracle,
			Coq:    fmt.Sprintf("mk_frame $ID%%N %s %s %s %s", mg, coqRleBodies(bodies), coqRle(stream), lib.CoqList(cutS))})
	}
	return nil
}

// ---------- groups "uv" and "npo2" ----------

type byteCounter struct {
	b []byte
	n int
}

func (b *byteCounter) ReadByte() (byte, error) {
	if b.n >= len(b.b) {
		return 0, io.EOF
	}
	x := b.b[b.n]
	b.n++
	return x, nil
}

func c13Uvarint(c *Ctx) error {
	r := c.Rng.Fork()
	vals := []uint64{0, 1, 2, 126, 127, 128, 129, 255, 256, 16383, 16384, 16385, 1<<21 - 1, 1 << 21, 1<<21 + 1, 1<<28 - 1, 1 << 28,
		1<<32 - 1, 1 << 32, 1<<35 - 1, 1 << 35, 1<<42 - 1, 1 << 42, 1<<49 - 1, 1 << 49, 1<<56 - 1, 1 << 56, 1<<63 - 1, 1 << 63, 1<<63 + 1, 1<<64 - 1,
		32767, 32768, 32769, 65536, 1 << 20, 4<<20 + 1}
	n := c13N(c, 120, 2000)
	for i := 0; i < n; i++ {
		vals = append(vals, r.U64()>>uint(r.Intn(64)))
	}
	emit := func(class string, v uint64, enc []byte, in []byte) {
		bc := &byteCounter{b: in}
		got, err := binary.ReadUvarint(bc)
		cls := 0
		switch {
		case err == nil:
		case err == io.EOF:
			cls = 1
		case err == io.ErrUnexpectedEOF:
			cls = 2
		default:
			cls = 3 // overflow
		}
		oracle := ""
		if enc != nil && bytes.HasPrefix(in, enc) && (err != nil || got != v || bc.n != len(enc)) {
			oracle = fmt.Sprintf("ReadUvarint(PutUvarint(%d) ++ tail) = %d, %v (consumed %d)", v, got, err, bc.n)
		}
		if err != nil {
			got = 0 // the partial value is not an observable
		}
		c.Out.Emit(&lib.Case{Group: "uv", Class: class, Nontrivial: len(in) > 1,
			Input:  map[string]interface{}{"value": fmt.Sprint(v), "in": lib.Ints(in)},
			Obs:    map[string]interface{}{"class": cls, "value": fmt.Sprint(got), "consumed": bc.n},
			Oracle: oracle,
			Coq:    fmt.Sprintf("mk_uv $ID%%N 0x%x %s %s %d 0x%x %d", v, lib.CoqBytes(enc), lib.CoqBytes(in), cls, got, bc.n)})
	}
	for _, v := range vals {
		buf := make([]byte, binary.MaxVarintLen64)
		k := binary.PutUvarint(buf, v)
		enc := buf[:k]
		tail := r.Bytes(r.Intn(4))
		emit(fmt.Sprintf("uv/roundtrip/len%d", k), v, enc, append(append([]byte(nil), enc...), tail...))
		if k > 1 && r.Chance(1, 2) {
			emit("uv/truncated", v, enc, enc[:r.Range(0, k-1)])
		}
	}
	// malformed: 10 and 11 byte inputs, over-long encodings, continuation bytes only
	mal := [][]byte{
		{}, {0x80}, {0xff, 0xff},
		{0xff, 0xff, 0xff, 0xff, 0xff, 0xff, 0xff, 0xff, 0xff, 0x01},
		{0xff, 0xff, 0xff, 0xff, 0xff, 0xff, 0xff, 0xff, 0xff, 0x02},
		{0xff, 0xff, 0xff, 0xff, 0xff, 0xff, 0xff, 0xff, 0xff, 0x7f},
		{0x80, 0x80, 0x80, 0x80, 0x80, 0x80, 0x80, 0x80, 0x80, 0x00},
		{0x80, 0x80, 0x80, 0x80, 0x80, 0x80, 0x80, 0x80, 0x80, 0x01, 0x55},
		{0x80, 0x80, 0x80, 0x80, 0x80, 0x80, 0x80, 0x80, 0x80, 0x80, 0x00},
		{0xff, 0xff, 0xff, 0xff, 0xff, 0xff, 0xff, 0xff, 0xff, 0xff, 0x01},
		{0xff, 0xff, 0xff, 0xff, 0xff, 0xff, 0xff, 0xff, 0xff, 0x81, 0x00},
		{0x80, 0x00}, {0x81, 0x80, 0x00}, {0xff, 0x00, 0x07},
	}
	nm := c13N(c, 40, 600)
	for i := 0; i < nm; i++ {
		l := r.Range(0, 12)
		b := make([]byte, l)
		for j := range b {
			b[j] = byte(r.Intn(256)) | 0x80
			if r.Chance(1, 8) {
				b[j] &= 0x7f
			}
		}
		if l > 0 && r.Chance(1, 2) {
			b[l-1] &= 0x7f
			if r.Chance(1, 2) {
				b[l-1] &= 1
			}
		}
		mal = append(mal, b)
	}
	for _, in := range mal {
		emit(fmt.Sprintf("uv/malformed/len%d", len(in)), 0, nil, in)
	}
	// buffer growth function
	npo := []int{0, 1, 2, 3, 4, 5, 7, 8, 9, 32767, 32768, 32769, 65535, 65536, 65537, 1 << 20, 1<<20 + 1, 4<<20 + 1, 1<<31 - 1, 1 << 31, 1<<31 + 1, 1 << 32, 1<<32 + 1, 1<<40 + 12345, 1<<62 - 1, 1 << 62}
	for i := 0; i < c13N(c, 60, 1000); i++ {
		npo = append(npo, int(r.U64()>>uint(r.Range(2, 63))))
	}
	for _, v := range npo {
		got := wire.VerifNextPowerOf2(v)
		oracle := ""
		if got < v || got < 0 {
			oracle = fmt.Sprintf("nextPowerOf2(%d) = %d is smaller than its argument", v, got)
		}
		c.Out.Emit(&lib.Case{Group: "npo2", Class: "npo2", Nontrivial: v > 32768,
			Input: map[string]interface{}{"v": v}, Obs: map[string]interface{}{"npo2": got}, Oracle: oracle,
			Coq: fmt.Sprintf("mk_npo2 $ID%%N 0x%x 0x%x", v, uint64(got))}) // a negative result is shown to the model as its two's complement (never a "-0x1" term)
	}
	return nil
}
