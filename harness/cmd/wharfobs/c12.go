package main

// C12 — a bsdiff series applied to the old file yields the new file.
// Groups: "bsd"  : DiffContext.Do on small inputs; the model runs the scan with its own (naive,
//                  in-Coq) partitioned suffix array + Go's binary search
//         "bsdt" : DiffContext.Do on inputs up to 4 KiB; the model runs the scan with the tabulated
//                  answers of the search (c12_search.go) as its oracle
//         "pat"  : PatchContext.Patch / IndividualPatchContext.Apply (also resumed from a saved
//                  old-offset, also with tiny read-cache geometries) on series produced by the
//                  differ and on hand-made / malformed series
//         "lru"  : lrufile reads and seeks against a plain in-memory reader (c12_lru.go)
//         ""     : MiB-sized inputs, oracle only (thorough)

import (
	"bytes"
	"fmt"
	"io"
	"os"
	"strings"
	"time"

	"github.com/golang/protobuf/proto"
	"github.com/itchio/wharf/bsdiff"

	"verif/harness/lib"
)

func init() {
	if os.Getenv("WHARFOBS_C12_CHILD") == "1" {
		c12ChildMain()
		os.Exit(0)
	}
	register("C12", runC12)
}

// ---------- independent reference: what applying a series means ----------

// c12RefPatch applies the controls to old by the definition of the format: add bytes are added
// to the old bytes at the (absolute) old offset, copy bytes are appended, the offset moves by
// len(add)+seek.  It returns the output and, when the series is not applicable, why.
func c12RefPatch(old []byte, ctrls []c12Ctrl) ([]byte, string) {
	var out []byte
	off := int64(0)
	for i, c := range ctrls {
		if c.Eof {
			if i != len(ctrls)-1 {
				return out, fmt.Sprintf("eof message at position %d of %d", i, len(ctrls))
			}
			return out, ""
		}
		if off < 0 || off > int64(len(old)) {
			return out, fmt.Sprintf("control %d: old offset %d outside [0,%d]", i, off, len(old))
		}
		if off+int64(len(c.Add)) > int64(len(old)) {
			return out, fmt.Sprintf("control %d: add reads old[%d:%d) but old has %d bytes", i, off, off+int64(len(c.Add)), len(old))
		}
		for j, a := range c.Add {
			out = append(out, a+old[off+int64(j)])
		}
		out = append(out, c.Copy...)
		off += int64(len(c.Add)) + c.Seek
	}
	return out, "series does not end with an eof message"
}

func c12Reader(ctrls []c12Ctrl) bsdiff.ReadMessageFunc {
	i := 0
	return func(m proto.Message) error {
		if i >= len(ctrls) {
			return io.EOF
		}
		c := m.(*bsdiff.Control)
		c.Reset()
		c.Add = append([]byte(nil), ctrls[i].Add...)
		c.Copy = append([]byte(nil), ctrls[i].Copy...)
		c.Seek = ctrls[i].Seek
		c.Eof = ctrls[i].Eof
		i++
		return nil
	}
}

// the default read cache is 32 MiB: contexts with the default geometry are re-used across cases
// (as the patcher re-uses one per patch), slot 1 is the context used after a resume
var c12DefaultPC [2]*bsdiff.PatchContext

func c12NewPatchContext(geom [2]int, slot int) (*bsdiff.PatchContext, error) {
	if geom[0] == 0 {
		if c12DefaultPC[slot] == nil {
			c12DefaultPC[slot] = bsdiff.NewPatchContext()
		}
		return c12DefaultPC[slot], nil
	}
	pc := bsdiff.NewPatchContext()
	if geom[0] > 0 {
		if err := pc.VerifSetLRU(int64(geom[0]), geom[1]); err != nil {
			return nil, err
		}
	}
	return pc, nil
}

// c12RealPatch runs PatchContext.Patch
func c12RealPatch(old []byte, ctrls []c12Ctrl, newSize int64, geom [2]int) (string, string, []byte) {
	var out bytes.Buffer
	cls, msg := lib.Guard(func() error {
		pc, err := c12NewPatchContext(geom, 0)
		if err != nil {
			return err
		}
		return pc.Patch(bytes.NewReader(old), &out, newSize, c12Reader(ctrls))
	})
	return cls, msg, out.Bytes()
}

// c12ResumePatch applies the first k controls with one patch context, saves the old offset, and
// applies the remaining ones with a brand-new context created from the saved offset.
func c12ResumePatch(old []byte, ctrls []c12Ctrl, k int, geom [2]int) (cls, msg string, out1, out2 []byte, saved int64) {
	var b1, b2 bytes.Buffer
	cls, msg = lib.Guard(func() error {
		pc1, err := c12NewPatchContext(geom, 0)
		if err != nil {
			return err
		}
		ipc, err := pc1.NewIndividualPatchContext(bytes.NewReader(old), 0, &b1)
		if err != nil {
			return err
		}
		rd := c12Reader(ctrls)
		ctrl := &bsdiff.Control{}
		n := 0
		eof := false
		for n < k {
			if err := rd(ctrl); err != nil {
				return err
			}
			if ctrl.Eof {
				eof = true
				break
			}
			if err := ipc.Apply(ctrl); err != nil {
				return err
			}
			n++
		}
		saved = ipc.OldOffset
		if eof {
			return nil
		}
		pc2, err := c12NewPatchContext(geom, 1)
		if err != nil {
			return err
		}
		ipc2, err := pc2.NewIndividualPatchContext(bytes.NewReader(old), saved, &b2)
		if err != nil {
			return err
		}
		for {
			if err := rd(ctrl); err != nil {
				return err
			}
			if ctrl.Eof {
				return nil
			}
			if err := ipc2.Apply(ctrl); err != nil {
				return err
			}
		}
	})
	return cls, msg, b1.Bytes(), b2.Bytes(), saved
}

// ---------- Coq printers ----------

// Case terms are written for an open Z_scope without scope delimiters, pairs or other
// polymorphic notations (elaborating those dominates the cost of a case file): every number is
// a Z literal, byte strings are lists of Z, records are applications of monomorphic constructors.
func c12Z(n int64) string {
	if n < 0 {
		return fmt.Sprintf("(%d)", n)
	}
	return fmt.Sprintf("%d", n)
}

func c12B(b []byte) string {
	var sb strings.Builder
	sb.WriteByte('[')
	for i, x := range b {
		if i > 0 {
			sb.WriteByte(';')
		}
		fmt.Fprintf(&sb, "%d", x)
	}
	sb.WriteByte(']')
	return sb.String()
}

func c12CtrlCoq(c c12Ctrl) string {
	return fmt.Sprintf("mkc %s %s %s %s", c12B(c.Add), c12B(c.Copy), c12Z(c.Seek), lib.CoqBool(c.Eof))
}

func c12CtrlsCoq(cs []c12Ctrl) string {
	s := make([]string, len(cs))
	for i, c := range cs {
		s[i] = c12CtrlCoq(c)
	}
	return lib.CoqList(s)
}

var c12ClassCode = map[string]int{"ok": 0, "panic": 1, "error": 2, "hang": 3}

type c12CtrlJ struct {
	Add  []int `json:"add"`
	Copy []int `json:"copy"`
	Seek int64 `json:"seek"`
	Eof  bool  `json:"eof,omitempty"`
}

func c12CtrlsJ(cs []c12Ctrl, limit int) interface{} {
	var out []c12CtrlJ
	for i, c := range cs {
		if i >= limit {
			break
		}
		a, cp := c.Add, c.Copy
		if len(a) > 64 {
			a = a[:64]
		}
		if len(cp) > 64 {
			cp = cp[:64]
		}
		out = append(out, c12CtrlJ{lib.Ints(a), lib.Ints(cp), c.Seek, c.Eof})
	}
	return out
}

func c12BytesJ(b []byte) interface{} {
	if len(b) <= 256 {
		return lib.Ints(b)
	}
	return map[string]interface{}{"len": len(b), "digest": lib.Digest(b), "head": lib.Ints(b[:32])}
}

// ---------- generators of (old, new) ----------

func c12Alphabet(r *lib.Rng, n, k int) []byte {
	b := make([]byte, n)
	for i := range b {
		b[i] = byte(r.Intn(k))
	}
	return b
}

func c12Periodic(r *lib.Rng, n int) []byte {
	p := r.Range(1, 7)
	if r.Chance(1, 4) {
		p = r.Range(8, 40)
	}
	unit := c12Alphabet(r, p, []int{2, 3, 4, 256}[r.Intn(4)])
	b := make([]byte, n)
	for i := range b {
		b[i] = unit[i%p]
	}
	// a few defects in the period
	for k := r.Intn(3); k > 0 && n > 0; k-- {
		b[r.Intn(n)] = byte(r.Intn(256))
	}
	return b
}

func c12Content(r *lib.Rng, n int) ([]byte, string) {
	switch r.Intn(5) {
	case 0:
		return r.Bytes(n), "entropy"
	case 1:
		return c12Periodic(r, n), "periodic"
	case 2:
		return c12Alphabet(r, n, 2), "bin"
	case 3:
		return c12Alphabet(r, n, r.Range(3, 5)), "small"
	default:
		// runs of extreme byte values: add bytes wrap around
		b := make([]byte, n)
		vals := []byte{0, 255, 1, 254, 128, 127}
		for i := 0; i < n; {
			v := vals[r.Intn(len(vals))]
			l := r.Range(1, 9)
			for j := 0; j < l && i < n; j++ {
				b[i] = v
				i++
			}
		}
		return b, "extreme"
	}
}

// c12Derive makes a new file out of an old one by the edits bsdiff is meant for
func c12Derive(r *lib.Rng, old []byte, maxLen int) ([]byte, string) {
	nw := append([]byte(nil), old...)
	var tags []string
	for k := r.Range(1, 4); k > 0; k-- {
		switch r.Intn(8) {
		case 0: // point changes (small deltas: add bytes non-zero)
			for j := r.Range(1, 6); j > 0 && len(nw) > 0; j-- {
				nw[r.Intn(len(nw))] += byte(r.Range(1, 3))
			}
			tags = append(tags, "tweak")
		case 1: // insert
			at := r.Intn(len(nw) + 1)
			ins, _ := c12Content(r, r.Range(1, 1+maxLen/8))
			nw = append(nw[:at], append(ins, nw[at:]...)...)
			tags = append(tags, "ins")
		case 2: // delete
			if len(nw) > 0 {
				at := r.Intn(len(nw))
				l := r.Range(1, 1+len(nw)/4)
				if at+l > len(nw) {
					l = len(nw) - at
				}
				nw = append(nw[:at], nw[at+l:]...)
				tags = append(tags, "del")
			}
		case 3: // move a block
			if len(nw) > 3 {
				a := r.Intn(len(nw) - 1)
				l := r.Range(1, 1+(len(nw)-a)/2)
				blk := append([]byte(nil), nw[a:a+l]...)
				rest := append(append([]byte(nil), nw[:a]...), nw[a+l:]...)
				at := r.Intn(len(rest) + 1)
				nw = append(rest[:at], append(blk, rest[at:]...)...)
				tags = append(tags, "move")
			}
		case 4: // duplicate
			nw = append(nw, nw[:r.Intn(len(nw)+1)]...)
			tags = append(tags, "dup")
		case 7: // junk in front and a damaged byte near the start: the backward extension runs down to old[0]
			if len(nw) > 12 {
				nw[r.Range(2, 5)] ^= byte(r.Range(1, 255))
				junk := r.Bytes(r.Range(1, 6))
				nw = append(junk, nw...)
				tags = append(tags, "headdamage")
			}
		case 5: // prefix / suffix
			if len(nw) > 0 {
				if r.Bool() {
					nw = nw[:r.Intn(len(nw)+1)]
				} else {
					nw = nw[r.Intn(len(nw)+1):]
				}
				tags = append(tags, "cut")
			}
		default: // add a constant to a range (long non-zero add strings)
			if len(nw) > 0 {
				a := r.Intn(len(nw))
				l := r.Range(1, len(nw)-a)
				d := byte(r.Range(1, 255))
				for j := a; j < a+l; j++ {
					if r.Chance(3, 4) {
						nw[j] += d
					}
				}
				tags = append(tags, "shift")
			}
		}
	}
	if len(nw) > maxLen {
		nw = nw[:maxLen]
	}
	return nw, strings.Join(tags, "+")
}

// c12Pair returns old, new and a class label; maxLen bounds both lengths
func c12Pair(r *lib.Rng, maxLen int) ([]byte, []byte, string) {
	size := func() int {
		switch r.Intn(6) {
		case 0:
			return r.Range(0, 3)
		case 1:
			return r.Range(0, 17)
		default:
			return r.Range(0, maxLen)
		}
	}
	k := r.Intn(12)
	switch {
	case k == 6:
		// new = junk + old with one byte near the start damaged: the long match starts after the
		// damaged byte and its backward extension runs down to old[0]
		o := r.Bytes(r.Range(16, max(16, min(maxLen-8, 60))))
		n := append([]byte(nil), o...)
		n[r.Range(2, 5)] ^= byte(r.Range(1, 255))
		n = append(r.Bytes(r.Range(1, 6)), n...)
		if r.Chance(1, 3) {
			n = n[:len(n)-r.Intn(6)]
		}
		return o, n, "headdamage/entropy"
	case k == 0: // unrelated
		o, a := c12Content(r, size())
		n, b := c12Content(r, size())
		return o, n, "unrelated/" + a + "/" + b
	case k == 1: // old empty or tiny
		n, b := c12Content(r, size())
		o := c12Alphabet(r, r.Range(0, 2), 3)
		return o, n, fmt.Sprintf("tinyold%d/%s", len(o), b)
	case k == 2: // new empty or tiny
		o, a := c12Content(r, size())
		n := c12Alphabet(r, r.Range(0, 3), 3)
		return o, n, fmt.Sprintf("tinynew%d/%s", len(n), a)
	case k == 3: // identical
		o, a := c12Content(r, size())
		return o, append([]byte(nil), o...), "same/" + a
	case k == 4 || k == 5:
		// old = P Q Z Q' R, new = P Q R with Q' a slightly damaged copy of Q: the forward extension
		// of the match P Q and the backward extension of the match R overlap on Q, and the overlap
		// has to be split between them (lens > 0 in analyzeBlock)
		seg := func(lo, hi int) []byte { return r.Bytes(r.Range(lo, hi)) }
		P, Q, Z, R := seg(0, 12), seg(6, 24), seg(1, 10), seg(10, 20)
		Q2 := append([]byte(nil), Q...)
		exact := r.Chance(1, 3) // two identical copies: the search has equally long answers in two partitions
		if exact {
			// short segments (the pair has to fit 64 bytes); Z longer than R so that the second copy lies in the second half of old
			P, Q, R = seg(0, 4), seg(10, 13), seg(10, 11)
			Z = seg(len(R)+2, len(R)+4)
			Q2 = append([]byte(nil), Q...)
		}
		for j := r.Range(1, 2); j > 0 && !exact; j-- {
			Q2[r.Intn(len(Q2)/2+1)] ^= byte(r.Range(1, 255))
		}
		if r.Chance(1, 3) { // damage the first copy instead
			Q, Q2 = Q2, Q
		}
		var o, n []byte
		for _, x := range [][]byte{P, Q, Z, Q2, R} {
			o = append(o, x...)
		}
		base := Q
		if r.Bool() {
			base = Q2
		}
		if exact {
			// new = W Q V: the copy of Q is found with the same length in both places
			// with 2 partitions new is scanned in 2 blocks: a long W puts Q into the second block as a whole
			R = seg(1, 6)
			P, base = seg(len(Q)+len(R), len(Q)+len(R)+3), Q
		}
		for _, x := range [][]byte{P, base, R} {
			n = append(n, x...)
		}
		if len(o) > maxLen || len(n) > maxLen {
			return o[:min(len(o), maxLen)], n[:min(len(n), maxLen)], "neardup/cut"
		}
		if exact {
			return o, n, "dup2/entropy"
		}
		return o, n, "neardup/entropy"
	default:
		o, a := c12Content(r, size())
		n, t := c12Derive(r, o, maxLen)
		return o, n, "derived/" + a + "/" + t
	}
}

func c12Partitions(r *lib.Rng, oldLen, newLen int, class string) int {
	if (strings.HasPrefix(class, "neardup") || strings.HasPrefix(class, "headdamage")) && r.Chance(2, 3) {
		return r.Intn(2) // one scan block: the overlap structure stays intact
	}
	if strings.HasPrefix(class, "dup2") && r.Chance(2, 3) {
		return 2 // the two copies fall into different partitions of the suffix array
	}
	switch r.Intn(8) {
	case 0:
		return 0
	case 1:
		return 1
	case 2: // around the normalisation threshold partitions >= len(old)-1
		return max(0, min(16, oldLen-2+r.Range(-1, 1)))
	case 3: // around the new length (block size = len(new)/partitions)
		return max(0, min(16, newLen+r.Range(-1, 1)))
	default:
		return r.Range(0, 16)
	}
}

// ---------- the differ cases ----------

type c12Case struct {
	old, nw     []byte
	partitions  int
	concurrency int
	procs       int
	reuse       bool
	class       string
	group       string // bsd | bsdt | ""
	deadline    int    // seconds, 0 = default
}

func c12RunDiffCase(c *Ctx, run *c12Runner, cs *c12Case) error {
	resp, err := run.Do(&c12Req{Old: cs.old, New: cs.nw, Partitions: cs.partitions, Concurrency: cs.concurrency, Procs: cs.procs, Reuse: cs.reuse, DeadlineSec: cs.deadline})
	if err != nil {
		return err
	}
	oracle := ""
	obs := map[string]interface{}{"class": resp.Class, "nctrl": len(resp.Ctrls)}
	nontrivial := false
	if resp.Class != "ok" {
		oracle = fmt.Sprintf("differ %s: %s", resp.Class, resp.Msg)
		if len(oracle) > 400 {
			oracle = oracle[:400]
		}
	} else {
		ctrls := resp.Ctrls
		obs["ctrls"] = c12CtrlsJ(ctrls, 12)
		neof := 0
		adds, copies := 0, 0
		for _, ct := range ctrls {
			if ct.Eof {
				neof++
			}
			adds += len(ct.Add)
			copies += len(ct.Copy)
		}
		nontrivial = len(ctrls) >= 3 && adds > 0 && copies > 0
		switch {
		case len(ctrls) == 0 || !ctrls[len(ctrls)-1].Eof:
			oracle = "the series does not end with an eof message"
		case neof != 1:
			oracle = fmt.Sprintf("%d eof messages in the series", neof)
		default:
			ref, why := c12RefPatch(cs.old, ctrls)
			if why != "" {
				oracle = "series not applicable to old: " + why
			} else if !bytes.Equal(ref, cs.nw) {
				oracle = fmt.Sprintf("applying the series to old gives %d bytes differing from new (%d bytes) at offset %d", len(ref), len(cs.nw), c12FirstDiff(ref, cs.nw))
			}
		}
		if oracle == "" {
			// the real patcher, default cache geometry, then a tiny one, then resumed in the middle
			r := c.Rng.Fork()
			geoms := [][2]int{{0, 0}, {r.Range(1, 8), r.Range(1, 4)}}
			for _, g := range geoms {
				pcls, pmsg, out := c12RealPatch(cs.old, ctrls, int64(len(cs.nw)), g)
				if pcls != "ok" {
					oracle = fmt.Sprintf("patcher (cache %dx%d) %s: %s", g[0], g[1], pcls, pmsg)
				} else if !bytes.Equal(out, cs.nw) {
					oracle = fmt.Sprintf("patcher (cache %dx%d) output differs from new at offset %d", g[0], g[1], c12FirstDiff(out, cs.nw))
				}
				if oracle != "" {
					break
				}
			}
			if oracle == "" && len(ctrls) >= 2 {
				k := r.Range(0, len(ctrls)-1)
				g := [2]int{r.Range(1, 8), r.Range(1, 4)}
				if r.Bool() {
					g = [2]int{0, 0}
				}
				rcls, rmsg, o1, o2, saved := c12ResumePatch(cs.old, ctrls, k, g)
				if rcls != "ok" {
					oracle = fmt.Sprintf("resume after %d controls (saved old offset %d) %s: %s", k, saved, rcls, rmsg)
				} else if !bytes.Equal(append(append([]byte(nil), o1...), o2...), cs.nw) {
					oracle = fmt.Sprintf("resume after %d controls from saved old offset %d: remainder differs (got %d+%d bytes, new has %d)", k, saved, len(o1), len(o2), len(cs.nw))
				}
			}
		}
	}
	input := map[string]interface{}{"old": c12BytesJ(cs.old), "new": c12BytesJ(cs.nw), "partitions": cs.partitions,
		"concurrency": cs.concurrency, "gomaxprocs": cs.procs, "reuseContext": cs.reuse}
	out := &lib.Case{Group: cs.group, Class: cs.class, Nontrivial: nontrivial, Input: input, Obs: obs, Oracle: oracle}
	code := c12ClassCode[resp.Class]
	ctr := "[]"
	if resp.Class == "ok" {
		ctr = c12CtrlsCoq(resp.Ctrls)
	}
	switch cs.group {
	case "bsd":
		out.Coq = fmt.Sprintf("Bsd $ID%%N %d %s %s %d %s", cs.partitions, c12B(cs.old), c12B(cs.nw), code, ctr)
	case "bsdt":
		if resp.Class == "ok" {
			table := c12SearchTable(cs.old, cs.nw, cs.partitions)
			rows := make([]string, len(table))
			for i, row := range table {
				es := make([]string, len(row))
				for j, e := range row {
					es[j] = fmt.Sprintf("%d;%d", e[0], e[1])
				}
				rows[i] = "[" + strings.Join(es, ";") + "]"
			}
			out.Coq = fmt.Sprintf("Bsdt $ID%%N %d %s %s %s %d %s", cs.partitions, c12B(cs.old), c12B(cs.nw), lib.CoqList(rows), code, ctr)
		} else {
			out.Group = ""
		}
	}
	c.Out.Emit(out)
	return nil
}

// c12N: case counts by tier; the search tier (run after a correspondence break) is a wider sample
// of the cheap classes under other seeds, not the MiB-sized ones
func c12N(c *Ctx, quick, thorough, search int) int {
	switch c.Tier {
	case "quick":
		return quick
	case "search":
		return search
	}
	return thorough
}

func c12FirstDiff(a, b []byte) int {
	n := min(len(a), len(b))
	for i := 0; i < n; i++ {
		if a[i] != b[i] {
			return i
		}
	}
	return n
}

func c12Bits(v, n int) []byte {
	b := make([]byte, n)
	for i := range b {
		b[i] = byte((v >> uint(i)) & 1)
	}
	return b
}

func c12DiffCases(c *Ctx, run *c12Runner) error {
	r := c.Rng.Fork()
	// corpus: inputs that failed on the unchanged tree (DESIGN.md section 7, #7 and #8)
	seq := func(n, m int) []byte {
		b := make([]byte, n)
		for i := range b {
			b[i] = byte(i % m)
		}
		return b
	}
	corpus := []*c12Case{
		{old: seq(16, 3), nw: []byte{0, 1, 0}, partitions: 4, class: "corpus/new-shorter-than-partitions", group: "bsd"},
		{old: seq(16, 5), nw: []byte{7}, partitions: 2, class: "corpus/new-shorter-than-partitions", group: "bsd"},
		{old: seq(40, 7), nw: seq(15, 4), partitions: 16, class: "corpus/new-shorter-than-partitions", group: "bsd"},
		{old: nil, nw: []byte{0, 1, 0}, partitions: 0, class: "corpus/old-empty", group: "bsd"},
		{old: nil, nw: seq(9, 2), partitions: 3, class: "corpus/old-empty", group: "bsd"},
		{old: nil, nw: []byte{5}, partitions: 16, class: "corpus/old-empty", group: "bsd"},
	}
	for _, cs := range corpus {
		if err := c12RunDiffCase(c, run, cs); err != nil {
			return err
		}
	}
	// exhaustive low end: all (old,new) over {0,1} with both lengths <= L, partitions 0..6
	L := 4
	if c.Tier == "thorough" {
		L = 5
	}
	if c.Tier == "search" {
		L = -1 // seed-independent: already done by the run that triggered the search
	}
	for ol := 0; ol <= L; ol++ {
		for ov := 0; ov < 1<<uint(ol); ov++ {
			for nl := 0; nl <= L; nl++ {
				for nv := 0; nv < 1<<uint(nl); nv++ {
					for p := 0; p <= 6; p++ {
						// a partition count >= |old|-1 normalises to 1: of those keep 0, 1 and one large value (5 or 6)
						if p >= 2 && p > ol-2 && p != 5+ol/5 {
							continue
						}
						cs := &c12Case{old: c12Bits(ov, ol), nw: c12Bits(nv, nl), partitions: p, class: fmt.Sprintf("exh/o%d/n%d", ol, nl), group: "bsd"}
						if err := c12RunDiffCase(c, run, cs); err != nil {
							return err
						}
					}
				}
			}
		}
	}
	// lengths up to 64 (a few up to 160) over small alphabets / periodic / derived: in-Coq suffix array
	n := c12N(c, 400, 8000, 3000)
	for i := 0; i < n; i++ {
		cr := r.Fork()
		maxLen := 64
		if cr.Chance(1, 10) {
			maxLen = 160
		}
		o, nw, cl := c12Pair(cr, maxLen)
		cs := &c12Case{old: o, nw: nw, partitions: c12Partitions(cr, len(o), len(nw), cl), concurrency: cr.Range(-1, 4), procs: []int{0, 1, 2, 8}[cr.Intn(4)],
			reuse: cr.Chance(1, 3), class: "small/" + c12ClassHead(cl), group: "bsd"}
		if err := c12RunDiffCase(c, run, cs); err != nil {
			return err
		}
	}
	// up to 4 KiB: tabulated search
	n = c12N(c, 32, 600, 150)
	for i := 0; i < n; i++ {
		cr := r.Fork()
		maxLen := []int{300, 1024, 4096}[cr.Intn(3)]
		o, nw, cl := c12Pair(cr, maxLen)
		cs := &c12Case{old: o, nw: nw, partitions: c12Partitions(cr, len(o), len(nw), cl), concurrency: cr.Range(-1, 4), procs: []int{0, 1, 2, 8}[cr.Intn(4)],
			reuse: cr.Chance(1, 3), class: "mid/" + c12ClassHead(cl), group: "bsdt"}
		if err := c12RunDiffCase(c, run, cs); err != nil {
			return err
		}
	}
	// two large inputs in every run (oracle only): more scan blocks than workers (13 blocks of
	// 128 KiB with one partition = 12 workers, so a worker is handed a second block), and an add
	// string longer than the patcher's 32 KiB copy buffer
	{
		cr := r.Fork()
		o, _ := c12BigContent(cr, 2048)
		nw := make([]byte, 0, 13*128*1024+600)
		for len(nw) < 13*128*1024+5 {
			piece, _ := c12Derive(cr, o, 4096)
			nw = append(nw, piece...)
		}
		if err := c12RunDiffCase(c, run, &c12Case{old: o, nw: nw, partitions: cr.Intn(2), procs: []int{0, 2, 8}[cr.Intn(3)], class: "big/more-blocks-than-workers", deadline: 100}); err != nil {
			return err
		}
		o = cr.Bytes(100*1024 + cr.Intn(1000))
		nw = append([]byte(nil), o...)
		for j := 10000; j < 10000+40000+cr.Intn(20000); j++ {
			if cr.Chance(1, 8) { // sparse changes: the region stays one add string with non-zero bytes
				nw[j] += byte(cr.Range(1, 255))
			}
		}
		nw = append(nw[:70000], nw[70000+cr.Intn(500):]...)
		if err := c12RunDiffCase(c, run, &c12Case{old: o, nw: nw, partitions: cr.Range(0, 3), class: "big/add-longer-than-copy-buffer", deadline: 100}); err != nil {
			return err
		}
	}
	// MiB-sized: several scan blocks of 128 KiB, oracle only
	if c.Tier != "quick" {
		n = c12N(c, 0, 48, 4)
		for i := 0; i < n; i++ {
			cr := r.Fork()
			sz := []int{128*1024 - 1, 128 * 1024, 128*1024 + 1, 300 * 1024, 1 << 20, 3<<20 + 12345}[cr.Intn(6)]
			o, a := c12BigContent(cr, sz)
			nw, t := c12Derive(cr, o, 4<<20)
			if cr.Chance(1, 6) {
				nw, _ = c12BigContent(cr, sz/2)
				t = "unrelated"
			}
			cs := &c12Case{old: o, nw: nw, partitions: cr.Range(0, 16), concurrency: cr.Range(-1, 4), procs: []int{0, 1, 2, 8}[cr.Intn(4)],
				reuse: cr.Chance(1, 3), class: "big/" + a + "/" + c12ClassHead(t), group: "", deadline: 900}
			if err := c12RunDiffCase(c, run, cs); err != nil {
				return err
			}
		}
	}
	return nil
}

func c12BigContent(r *lib.Rng, n int) ([]byte, string) {
	switch r.Intn(3) {
	case 0:
		return r.Bytes(n), "entropy"
	case 1:
		// pages drawn from a small pool: long repeats, but no MiB-scale periodicity (the suffix search
		// compares common prefixes byte by byte: minutes on a MiB of one repeated byte)
		pages := make([][]byte, 12)
		for i := range pages {
			pages[i] = r.Bytes(r.Range(512, 4096))
		}
		b := make([]byte, 0, n+4096)
		for len(b) < n {
			b = append(b, pages[r.Intn(len(pages))]...)
		}
		return b[:n], "pages"
	default:
		// text-like: words from a small dictionary
		words := make([][]byte, 40)
		for i := range words {
			words[i] = c12Alphabet(r, r.Range(2, 12), 26)
		}
		b := make([]byte, 0, n)
		for len(b) < n {
			b = append(b, words[r.Intn(len(words))]...)
			b = append(b, ' ')
		}
		return b[:n], "words"
	}
}

func c12ClassHead(s string) string {
	parts := strings.Split(s, "/")
	if len(parts) > 2 {
		parts = parts[:2]
	}
	return strings.Join(parts, "/")
}

// ---------- the patcher cases ----------

func c12PatchCases(c *Ctx, run *c12Runner) error {
	r := c.Rng.Fork()
	n := c12N(c, 250, 5000, 2000)
	for i := 0; i < n; i++ {
		cr := r.Fork()
		var old []byte
		var ctrls []c12Ctrl
		class := ""
		kind := cr.Intn(4)
		if kind == 0 {
			// a series produced by the differ (in-process is fine here: no empty old, partitions normalised)
			o, nw, _ := c12Pair(cr, 48)
			if len(o) == 0 {
				o = []byte{1}
			}
			resp := c12DoInProcess(&c12Req{Old: o, New: nw, Partitions: 0}, nil)
			if resp.Class != "ok" {
				continue
			}
			old, ctrls, class = o, resp.Ctrls, "differ"
		} else {
			// hand-made series: mostly applicable, sometimes out of range / without eof
			old, _ = c12Content(cr, cr.Range(0, 40))
			off := int64(0)
			nc := cr.Range(0, 6)
			bad := kind == 3
			class = "handmade"
			if bad {
				class = "malformed"
			}
			for j := 0; j < nc; j++ {
				room := int64(len(old)) - off
				al := 0
				if room > 0 {
					al = cr.Range(0, int(min(room, 9)))
				}
				if bad && cr.Chance(1, 4) {
					al = cr.Range(0, 12) // may run past the end of old
				}
				ct := c12Ctrl{Add: c12Alphabet(cr, al, 256), Copy: c12Alphabet(cr, cr.Range(0, 5), 256)}
				if cr.Chance(1, 3) {
					ct.Add = make([]byte, al) // zeros: plain copy of old
				}
				end := off + int64(al)
				tgt := int64(cr.Range(0, len(old)))
				if bad && cr.Chance(1, 3) {
					tgt = int64(cr.Range(-3, len(old)+3))
				}
				ct.Seek = tgt - end
				off = tgt
				ctrls = append(ctrls, ct)
			}
			if !(bad && cr.Chance(1, 3)) {
				ctrls = append(ctrls, c12Ctrl{Eof: true})
			}
			if bad && cr.Chance(1, 4) && len(ctrls) > 1 {
				// an eof in the middle: the rest must be ignored
				at := cr.Intn(len(ctrls))
				ctrls = append(ctrls[:at], append([]c12Ctrl{{Eof: true}}, ctrls[at:]...)...)
			}
		}
		ref, why := c12RefPatch(old, ctrls)
		// messages after the first eof are never read
		newSize := int64(len(ref))
		if class == "malformed" && cr.Chance(1, 4) {
			newSize += int64(cr.Range(-1, 1))
		}
		geom := [2]int{0, 0}
		if cr.Chance(2, 3) {
			geom = [2]int{cr.Range(1, 8), cr.Range(1, 4)}
		}
		k := cr.Range(0, len(ctrls))
		pcls, pmsg, out := c12RealPatch(old, ctrls, newSize, geom)
		rcls, rmsg, o1, o2, saved := c12ResumePatch(old, ctrls, k, geom)
		oracle := ""
		applicable := why == "" || strings.HasPrefix(why, "eof message at")
		if applicable && strings.HasPrefix(why, "eof message at") {
			// everything after the first eof is ignored by definition
			why = ""
		}
		switch {
		case pcls == "panic" || rcls == "panic":
			oracle = "patcher panic: " + pmsg + rmsg
		case applicable && newSize == int64(len(ref)):
			if pcls != "ok" {
				oracle = "applicable series rejected: " + pmsg
			} else if !bytes.Equal(out, ref) {
				oracle = fmt.Sprintf("patcher output differs from the definition at offset %d", c12FirstDiff(out, ref))
			} else if rcls != "ok" {
				oracle = fmt.Sprintf("resume after %d controls (saved old offset %d): %s", k, saved, rmsg)
			} else if !bytes.Equal(append(append([]byte(nil), o1...), o2...), ref) {
				oracle = fmt.Sprintf("resume after %d controls from saved old offset %d: remainder differs", k, saved)
			}
		default:
			if pcls == "ok" {
				oracle = "a series that is not applicable (" + why + fmt.Sprintf(", announced size %d, defined output %d bytes) was applied without error", newSize, len(ref))
			}
		}
		outCoq := "[]"
		if pcls == "ok" {
			outCoq = c12B(out)
		}
		r2 := "[]"
		if rcls == "ok" {
			r2 = c12B(o2)
		}
		c.Out.Emit(&lib.Case{Group: "pat", Class: "pat/" + class + fmt.Sprintf("/cache%v", geom[0] > 0), Nontrivial: len(ctrls) >= 3 && pcls == "ok",
			Input:  map[string]interface{}{"old": c12BytesJ(old), "ctrls": c12CtrlsJ(ctrls, 12), "newSize": newSize, "cache": geom, "resumeAfter": k},
			Obs:    map[string]interface{}{"patch": pcls, "resume": rcls, "out": c12BytesJ(out), "savedOffset": saved},
			Oracle: oracle,
			Coq: fmt.Sprintf("Pat $ID%%N %s %s %s %d %d %s %d %s %s", c12B(old), c12CtrlsCoq(ctrls), c12Z(newSize), k,
				c12ClassCode[pcls], outCoq, c12ClassCode[rcls], c12Z(saved), r2)})
	}
	return nil
}

func runC12(c *Ctx) error {
	run := &c12Runner{}
	defer run.Close()
	t0 := time.Now()
	lap := func(what string) {
		if os.Getenv("WHARFOBS_C12_TIMING") != "" {
			fmt.Fprintf(os.Stderr, "C12 %s: %.1fs (child restarts so far: %d)\n", what, time.Since(t0).Seconds(), run.Crashes)
		}
		t0 = time.Now()
	}
	if err := c12DiffCases(c, run); err != nil {
		return err
	}
	lap("differ cases")
	if err := c12PatchCases(c, run); err != nil {
		return err
	}
	lap("patcher cases")
	err := c12LruCases(c)
	lap("lru cases")
	return err
}
