package main

// C19, tree class "linkdests": symbolic links whose destination STRING is the boundary input.
//
// "Every symlink" of the property is about the destination a link carries, and a destination is
// a byte string of 1 .. PATH_MAX-1 (4095) bytes that no code on the way may re-spell: the zip
// extractor reads it from the entry body, the tar writer / reader move it through the 100-byte
// ustar field or a PAX record, the container flavor through tlc.  The other classes only have
// destinations of up to ~240 bytes in two fixed spellings.  This class lays destinations out
//
//   - on length boundaries: 1, 2, around 100 (ustar linkname) / 155 (ustar prefix) / 255, 256
//     (NAME_MAX, one-byte length) / 512 (tar block, small read buffers) / 1024 / 2048 / 4095
//     (PATH_MAX-1, the longest a Linux file system takes), each -1 / +0 / +1, plus random
//     lengths and k*g +-1 for g in 64..2048 - capped at what the scratch file system accepts
//     (c19ProbeLinkMax: xfs stops at 1024, ext4/tmpfs/btrfs at 4095);
//   - in several shapes: deep relative path of components of 1..255 bytes, absolute, leading
//     "../"s, one single component, multi-byte UTF-8 (byte length != rune count);
//   - pairs that agree on their first 100 / 255 / 1024 / 4094 bytes and differ in the last one;
//   - short destinations that a "clean-up" would change: ".", "..", "/", "./x", "a//b", "a/../b",
//     trailing slash, leading / trailing blank, tab, trailing newline, backslashes, glob
//     characters, bytes that are not UTF-8.
//
// All links may dangle: an archiver never follows them.  The link's name spells its
// destination (L01025-deep200: 1025 bytes, components of 200), so a replay is readable without
// the 4 KiB strings; the model sees destinations as equality tokens and needs nothing new.

import (
	"fmt"
	"os"
	"path/filepath"
	"sort"
	"strings"

	"verif/harness/lib"
)

// longest link destination the scratch file system accepts (set by runC19 from a probe)
var c19LinkMax = 4095

func c19ProbeLinkMax(dir string) int {
	try := func(n int) bool {
		p := filepath.Join(dir, "c19-linkprobe")
		os.Remove(p)
		err := os.Symlink(strings.Repeat("p", n), p)
		os.Remove(p)
		return err == nil
	}
	if err := os.MkdirAll(dir, 0o755); err != nil {
		return 255
	}
	if try(4095) {
		return 4095
	}
	lo, hi := 1, 4095 // try(lo) assumed, !try(hi)
	for hi-lo > 1 {
		if m := (lo + hi) / 2; try(m) {
			lo = m
		} else {
			hi = m
		}
	}
	return lo
}

var c19DestLens = []int{1, 2, 99, 100, 101, 155, 156, 254, 255, 256, 257, 511, 512, 513, 1023, 1024, 1025, 2047, 2048, 2049, 4094, 4095}

var c19OddDests = []string{".", "..", "/", "./x", "a//b", "a/../b", "t/dir/", "t/file/.", " lead", "trail ", "tab\there", "nl\n", "back\\slash", "C:\\x\\y",
	"-dash", "~", "*?[a]", "é", "日本/語", "\xff\xfe-not-utf8", "a\x01b"}

// a destination of exactly n bytes; fill makes destinations of different links differ everywhere
func c19MakeDest(shape string, n, comp int, fill byte) string {
	var sb strings.Builder
	part := strings.Repeat(string(rune(fill)), comp)
	switch shape {
	case "abs":
		sb.WriteString("/")
	case "up":
		for i := 0; i < 5 && sb.Len()+3 < n; i++ {
			sb.WriteString("../")
		}
	case "utf8": // 2- and 3-byte runes; cut on a byte count, padded with ASCII
		part = strings.Repeat("é日", comp/5+1)
	case "one":
		part = strings.Repeat(string(rune(fill)), n)
	}
	slash := sb.Len() > 0
	for sb.Len() < n {
		if sb.Len() > 0 && !slash {
			sb.WriteString("/")
		}
		sb.WriteString(part)
		slash = false
	}
	d := sb.String()[:n]
	if shape == "utf8" { // do not end in the middle of a rune
		for len(d) > 0 && d[len(d)-1] >= 0x80 {
			d = d[:len(d)-1]
		}
		d += strings.Repeat(string(rune(fill)), n-len(d))
	}
	if strings.HasSuffix(d, "/") && n > 1 {
		d = d[:n-1] + "z"
	}
	return d
}

func c19GenLinkDests(r *lib.Rng, put func(lib.Entry), thorough bool) {
	put(lib.Entry{Path: "t/file", Kind: "file", Data: r.Bytes(40)})
	put(lib.Entry{Path: "t/dir/inner", Kind: "file", Data: r.Bytes(4)})
	put(lib.Entry{Path: "t/empty", Kind: "dir"})
	lens := map[int]bool{}
	add := func(n int) {
		if n > c19LinkMax {
			n = c19LinkMax - (n-c19LinkMax)%3 // 4095 on a file system that stops at 1024: 1024, 1023, 1022
		}
		if n >= 1 {
			lens[n] = true
		}
	}
	for _, n := range c19DestLens {
		add(n)
	}
	extra := r.Range(5, 8)
	if thorough {
		extra = r.Range(20, 40)
	}
	for i := 0; i < extra; i++ {
		switch r.Intn(3) {
		case 0:
			add(r.Range(1, 4095))
		case 1:
			add(r.Range(1000, 1100)) // dense around 1 KiB
		default:
			g := 64 << r.Intn(6) // 64 .. 2048
			add(g*r.Range(1, 4096/g) + r.Range(-1, 1))
		}
	}
	var ls []int
	for n := range lens {
		ls = append(ls, n)
	}
	sort.Ints(ls)
	shapes := []string{"deep", "abs", "up", "one", "utf8"}
	comps := []int{1, 8, 100, 200, 254, 255}
	dirs := []string{"", "", "t", "t/dir", "links/here"}
	for i, n := range ls {
		shape, comp := shapes[r.Intn(len(shapes))], comps[r.Intn(len(comps))]
		if n >= 1023 && n <= 1025 || n >= 4094 { // the demo shape at the big boundaries of every tree
			shape = []string{"deep", "up"}[r.Intn(2)]
		}
		name := fmt.Sprintf("L%05d-%s%d", n, shape, comp)
		if d := dirs[r.Intn(len(dirs))]; d != "" {
			name = d + "/" + name
		}
		put(lib.Entry{Path: name, Kind: "link", Dest: c19MakeDest(shape, n, comp, byte('a'+i%26))})
	}
	// pairs with a common prefix of p bytes, different in the byte after it
	for _, p := range []int{100, 255, 1024, 4094} {
		if p+1 > c19LinkMax {
			p = c19LinkMax - 1
		}
		pre := c19MakeDest("deep", p, comps[r.Intn(len(comps))], 'q')
		put(lib.Entry{Path: fmt.Sprintf("pair/P%05d-x", p), Kind: "link", Dest: pre + "x"})
		put(lib.Entry{Path: fmt.Sprintf("pair/P%05d-y", p), Kind: "link", Dest: pre + "y"})
	}
	for i, d := range c19OddDests {
		if thorough || r.Chance(2, 3) {
			put(lib.Entry{Path: fmt.Sprintf("odd/o%02d", i), Kind: "link", Dest: d})
		}
	}
}

// lib.DiffBuilds prints both destinations of a differing link in full; for the long ones say
// where they differ instead
func c19DiffBuilds(got, want *lib.Build) string {
	d := lib.DiffBuilds(got, want)
	if d == "" {
		return ""
	}
	var long []string
	g2, w2 := got.Clone(), want.Clone()
	for _, w := range want.Entries {
		g := got.Get(w.Path)
		if w.Kind != "link" || g == nil || g.Kind != "link" || g.Dest == w.Dest || len(w.Dest)+len(g.Dest) <= 160 {
			continue
		}
		at := 0
		for at < len(g.Dest) && at < len(w.Dest) && g.Dest[at] == w.Dest[at] {
			at++
		}
		long = append(long, fmt.Sprintf("link %s: destination has %d bytes after extraction, %d in the source tree (equal up to byte %d)", w.Path, len(g.Dest), len(w.Dest), at))
		g2.Remove(w.Path)
		w2.Remove(w.Path)
	}
	if len(long) == 0 {
		return d
	}
	if len(long) > 4 {
		long = append(long[:4], fmt.Sprintf("... %d more long links", len(long)-4))
	}
	if rest := lib.DiffBuilds(g2, w2); rest != "" {
		long = append(long, rest)
	}
	return strings.Join(long, "; ")
}

// b.Summary() plus the length of every link destination
func c19Summary(b *lib.Build) []map[string]interface{} {
	s := b.Summary()
	for _, m := range s {
		if d, ok := m["dest"].(string); ok {
			m["destLen"] = len(d)
		}
	}
	return s
}

// trees of class "linkdests" through every flavor and worker count, uninterrupted, then
// interrupted and restarted (zip flavors)
func c19LinkDestCases(c *Ctx) error {
	r := c.Rng.Fork()
	n := c.N(6, 40)
	for i := 0; i < n; i++ {
		cr := r.Fork()
		b := c19GenTree(cr, "linkdests", c.Thorough() && i%4 == 0)
		flavor := []string{"zip", "tar", "czip"}[i%3]
		workers := c19Workers[(i/3+i)%len(c19Workers)]
		if c.Thorough() && cr.Chance(1, 4) {
			workers = cr.Range(0, 16)
		}
		if flavor == "tar" {
			workers = 1
		}
		if err := c19OneExtract(c, cr, b, "linkdests", flavor, workers, cr.Chance(1, 2), c19Env{}); err != nil {
			return err
		}
	}
	for i, n := 0, c.N(1, 5); i < n; i++ {
		cr := r.Fork()
		b := c19GenTree(cr, "linkdests", false)
		nonDir := len(b.Entries) - c19BuildCounts(b).Dirs
		var chains [][]int
		for _, k := range c19KillPoints(cr, nonDir, c.N(4, 10)) {
			chains = append(chains, []int{k})
		}
		chains = append(chains, []int{cr.Range(1, nonDir), cr.Range(1, nonDir)})
		mode := "freeze"
		if i%4 == 3 {
			mode = "process"
		}
		if err := c19ResumeConfig(c, cr, b, "linkdests", []string{"zip", "czip"}[i%2], []int{4, 2, -1, 1, 16}[i%5], chains, mode, "", c19Env{}); err != nil {
			return err
		}
	}
	return nil
}
