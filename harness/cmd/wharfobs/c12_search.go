package main

// C12 helper: a naive re-implementation of the partitioned suffix-array search of
// bsdiff/psa.go + bsdiff/math.go (sort the suffixes of every partition with bytes.Compare,
// then the very same binary search).  It is used only to tabulate the answers of the search
// oracle for inputs that are too large for the in-Coq suffix array (group "bsdt"): the model
// then runs the scan loop with that table as its oracle, after checking that every entry is
// within the range the theorems assume.  The suffix array of a string is unique, so the table
// is what a correct sorter + the code's search must answer.

import (
	"bytes"
	"sort"
)

type c12PSA struct {
	p          int
	buf        []byte
	boundaries []int
	I          []int
}

// c12NormPartitions mirrors the normalisation in DiffContext.Do
func c12NormPartitions(partitions, oldLen int) int {
	if partitions == 0 || partitions >= oldLen-1 {
		return 1
	}
	return partitions
}

func c12NewPSA(p int, buf []byte) *c12PSA {
	boundaries := make([]int, p+1)
	boundary := 0
	partitionSize := len(buf) / p
	for i := 0; i < p; i++ {
		boundaries[i] = boundary
		boundary += partitionSize
	}
	boundaries[p] = len(buf)
	I := make([]int, len(buf))
	for i := 0; i < p; i++ {
		st, en := boundaries[i], boundaries[i+1]
		part := buf[st:en]
		idx := I[st:en]
		for j := range idx {
			idx[j] = j
		}
		sort.Slice(idx, func(a, b int) bool { return bytes.Compare(part[idx[a]:], part[idx[b]:]) < 0 })
	}
	return &c12PSA{p: p, buf: buf, boundaries: boundaries, I: I}
}

func c12Matchlen(a, b []byte) int {
	i := 0
	for i < len(a) && i < len(b) && a[i] == b[i] {
		i++
	}
	return i
}

func c12Search(I []int, obuf, nbuf []byte, st, en int) (int, int) {
	for en-st >= 2 {
		x := st + (en-st)/2
		if bytes.Compare(obuf[I[x]:], nbuf) < 0 {
			st = x
		} else {
			en = x
		}
	}
	if en >= len(obuf) {
		return I[st], c12Matchlen(obuf[I[st]:], nbuf)
	}
	x := c12Matchlen(obuf[I[st]:], nbuf)
	y := c12Matchlen(obuf[I[en]:], nbuf)
	if x > y {
		return I[st], x
	}
	return I[en], y
}

func (psa *c12PSA) search(nbuf []byte) (int, int) {
	bpos, bn := 0, 0
	for i := 0; i < psa.p; i++ {
		st, en := psa.boundaries[i], psa.boundaries[i+1]
		if en == st {
			continue
		}
		ppos, pn := c12Search(psa.I[st:en], psa.buf[st:en], nbuf, 0, en-st)
		if pn > bn {
			bn = pn
			bpos = ppos + st
		}
	}
	return bpos, bn
}

// c12BlockGeometry mirrors the block partitioning of Do (after the fix of the zero block size)
func c12BlockGeometry(newLen, partitions int) (blockSize, numBlocks int) {
	blockSize = 128 * 1024
	numBlocks = (newLen + blockSize - 1) / blockSize
	if numBlocks < partitions {
		blockSize = newLen / partitions
		if blockSize == 0 {
			blockSize = 1
		}
		numBlocks = (newLen + blockSize - 1) / blockSize
	}
	return
}

// c12SearchTable tabulates, block by block, the answer of the search for every suffix of the block
func c12SearchTable(old, nw []byte, partitionsSetting int) [][][2]int {
	if len(nw) == 0 {
		return nil
	}
	p := c12NormPartitions(partitionsSetting, len(old))
	psa := c12NewPSA(p, old)
	bs, nb := c12BlockGeometry(len(nw), p)
	var table [][][2]int
	for b := 0; b < nb; b++ {
		lo, hi := b*bs, (b+1)*bs
		if b == nb-1 {
			hi = len(nw)
		}
		blk := nw[lo:hi]
		row := make([][2]int, len(blk))
		for s := range blk {
			pos, n := psa.search(blk[s:])
			row[s] = [2]int{pos, n}
		}
		table = append(table, row)
	}
	return table
}
