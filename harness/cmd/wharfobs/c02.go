package main

// C02 — in-place apply (overlay bowl: stage folder + Commit) equals fresh apply and leaves the
// old build intact until Commit starts.
//
// Per case: a build pair (old, new), a patch (plain, or optimized so that bsdiff series go through
// the overlay writers too), then
//   - a fresh apply (must equal new),
//   - R in-place applies onto a pristine copy of old (Go's map order cannot be forced; every
//     repetition must yield the new build): right before Commit the output directory is read
//     back and must be identical to old (only the separate stage folder may have changed);
//     after Commit the directory must be identical to new (same entries, bytes, link
//     destinations, nothing else).
// Correspondence (group "commit"): the bowl's work lists (Save(): transpositions, overlay files,
// move files), the decoded stage contents and the tree after Commit are handed to the Gallina
// model of Commit (Bowl/OverlayCommit.v), which must produce the same outcome class and tree for
// one of its iteration orders.

import (
	"fmt"
	"os"
	"path"
	"path/filepath"
	"regexp"
	"sort"
	"strconv"
	"strings"
	"sync"
	"time"

	"github.com/itchio/lake/pools/fspool"
	"github.com/itchio/savior/seeksource"
	"github.com/itchio/wharf/pwr/bowl"
	"github.com/itchio/wharf/pwr/overlay"
	"github.com/itchio/wharf/wire"

	"verif/harness/lib"
)

func init() { register("C02", runC02) }

// ---------------------------------------------------------------- observation of one in-place apply

type c02Op struct {
	Skip  int64  // >0 or Fresh==nil: skip op
	Fresh []byte // fresh op
	IsF   bool
}

type c02Lists struct {
	Transpos [][2]string // (new path, old path) in the order Save() reports them
	Overlays []string    // new paths with a pending overlay, Save() order
	OvOps    map[string][]c02Op
	Moves    []string // new paths staged as whole files, Save() order
	MvData   map[string][]byte
	Steps    [][2]string // the bowl calls of the patch phase: ("T", new path, old path) / ("W", new path)
	StepsT   []bool
}

func decodeOverlay(data []byte) ([]c02Op, error) {
	src := seeksource.FromBytes(data)
	if _, err := src.Resume(nil); err != nil {
		return nil, err
	}
	rctx := wire.NewReadContext(src)
	if err := rctx.ExpectMagic(overlay.OverlayMagic); err != nil {
		return nil, err
	}
	var ops []c02Op
	op := &overlay.OverlayOp{}
	for {
		op.Reset()
		if err := rctx.ReadMessage(op); err != nil {
			return nil, err
		}
		switch op.Type {
		case overlay.OverlayOp_HEY_YOU_DID_IT:
			return ops, nil
		case overlay.OverlayOp_SKIP:
			if op.Len != 0 {
				ops = append(ops, c02Op{Skip: op.Len})
			}
		case overlay.OverlayOp_FRESH:
			if len(op.Data) != 0 {
				ops = append(ops, c02Op{Fresh: append([]byte(nil), op.Data...), IsF: true})
			}
		}
	}
}

// recBowl records the calls the patcher makes on the bowl during the patch phase
type recBowl struct {
	bowl.Bowl
	steps []c02Step
}

type c02Step struct {
	Transpose bool
	Source    int64
	Target    int64
}

func (r *recBowl) GetWriter(index int64) (bowl.EntryWriter, error) {
	r.steps = append(r.steps, c02Step{Source: index})
	return r.Bowl.GetWriter(index)
}

func (r *recBowl) Transpose(t bowl.Transposition) error {
	r.steps = append(r.steps, c02Step{Transpose: true, Source: t.SourceIndex, Target: t.TargetIndex})
	return r.Bowl.Transpose(t)
}

// c02Apply is lib.ApplyInPlace plus the observation points of the property: before Commit the
// work lists are read through Save() and the stage files are decoded; beforeCommit runs then.
func c02Apply(patch []byte, dir, stageDir string, lists *c02Lists, beforeCommit func() error) error {
	os.RemoveAll(stageDir)
	if err := os.MkdirAll(stageDir, 0o755); err != nil {
		return err
	}
	p, err := lib.NewPatcher(patch)
	if err != nil {
		return err
	}
	tc, sc := p.GetTargetContainer(), p.GetSourceContainer()
	tp := fspool.New(tc, dir)
	b, err := bowl.NewOverlayBowl(bowl.OverlayBowlParams{SourceContainer: sc, TargetContainer: tc, StageFolder: stageDir, OutputFolder: dir, Consumer: lib.Quiet})
	if err != nil {
		return err
	}
	defer b.Close()
	rb := &recBowl{Bowl: b}
	if err := p.Resume(nil, tp, rb); err != nil {
		return err
	}
	if lists != nil {
		for _, st := range rb.steps {
			if st.Transpose {
				lists.Steps = append(lists.Steps, [2]string{sc.Files[st.Source].Path, tc.Files[st.Target].Path})
			} else {
				lists.Steps = append(lists.Steps, [2]string{sc.Files[st.Source].Path, ""})
			}
			lists.StepsT = append(lists.StepsT, st.Transpose)
		}
		cp, err := b.Save()
		if err != nil {
			return err
		}
		oc, ok := cp.Data.(*bowl.OverlayBowlCheckpoint)
		if !ok {
			return fmt.Errorf("Save() did not return an OverlayBowlCheckpoint")
		}
		lists.OvOps = map[string][]c02Op{}
		lists.MvData = map[string][]byte{}
		for _, t := range oc.Transpositions {
			lists.Transpos = append(lists.Transpos, [2]string{sc.Files[t.SourceIndex].Path, tc.Files[t.TargetIndex].Path})
		}
		for _, i := range oc.OverlayFiles {
			path := sc.Files[i].Path
			lists.Overlays = append(lists.Overlays, path)
			data, err := os.ReadFile(filepath.Join(stageDir, filepath.FromSlash(path)))
			if err != nil {
				return fmt.Errorf("overlay file of %s: %v", path, err)
			}
			ops, err := decodeOverlay(data)
			if err != nil {
				return fmt.Errorf("overlay file of %s: %v", path, err)
			}
			lists.OvOps[path] = ops
		}
		for _, i := range oc.MoveFiles {
			path := sc.Files[i].Path
			lists.Moves = append(lists.Moves, path)
			data, err := os.ReadFile(filepath.Join(stageDir, filepath.FromSlash(path)))
			if err != nil {
				return fmt.Errorf("staged file of %s: %v", path, err)
			}
			lists.MvData[path] = data
		}
	}
	if beforeCommit != nil {
		if err := beforeCommit(); err != nil {
			return err
		}
	}
	return b.Commit()
}

// ---------------------------------------------------------------- generators

// run-structured content: long runs of few values (compact as RLE, and equal stretches longer
// than the overlay writer's 8 KiB threshold do occur between versions)
func c02Content(r *lib.Rng, size int) []byte {
	b := make([]byte, size)
	for i := 0; i < size; {
		n := []int{1, 3, 40, 1000, 8191, 8192, 8193, 12000, 20000}[r.Intn(9)]
		v := byte(r.Intn(6))
		if i > 0 && v == b[i-1] {
			v = (v + 1) % 6
		}
		for j := 0; j < n && i < size; j++ {
			b[i] = v
			i++
		}
	}
	return b
}

var c02Sizes = []int{0, 1, 2, 7, 300, 8191, 8192, 8193, 9000, 16400, 25000, 40000}

func c02Edit(r *lib.Rng, d []byte) ([]byte, string) {
	n := len(d)
	out := append([]byte(nil), d...)
	switch r.Intn(7) {
	case 0: // overwrite a stretch in the middle
		if n > 0 {
			at := r.Intn(n)
			l := r.Range(1, 1+n/3)
			for i := at; i < at+l && i < n; i++ {
				out[i] = 6 + byte(r.Intn(3))
			}
			return out, "overwrite"
		}
		return append(out, 7), "append"
	case 1:
		return append(out, c02Content(r, r.Range(1, 9000))...), "grow"
	case 2:
		if n > 0 {
			return out[:r.Intn(n)], "shrink"
		}
		return append(out, 8), "append"
	case 3:
		at := 0
		if n > 0 {
			at = r.Intn(n)
		}
		ins := c02Content(r, r.Range(1, 300))
		for i := range ins {
			ins[i] += 6
		}
		return append(append(append([]byte(nil), d[:at]...), ins...), d[at:]...), "insert"
	case 4:
		if n > 1 {
			at := r.Intn(n - 1)
			l := r.Range(1, n-at)
			return append(append([]byte(nil), d[:at]...), d[at+l:]...), "delete"
		}
		return append(out, 9), "append"
	case 5:
		return nil, "emptied"
	default: // first and last byte
		if n > 0 {
			out[0] = 9
			out[n-1] = 10
			return out, "ends"
		}
		return append(out, 7), "append"
	}
}

var c02Dirs = []string{"", "a/", "a/b/", "c/", "d/e/"}

// c02GenRel builds a pair from the path-level relations of the property text. Every new file is
// (a) the content of some old file (itself: unchanged; another one: rename / swap / chain /
// fan-out), (b) an edited version of the old file at the same path (patched, possibly while that
// old file is also the source of renames), (c) an edited version of another old file, or
// (d) new content. shape forces one named relation on top of the random ones.
func c02GenRel(r *lib.Rng, shape string, kindSwap, reserved bool) (*lib.Build, *lib.Build, []string) {
	old := &lib.Build{}
	nf := r.Range(3, 6)
	var paths []string
	for i := 0; i < nf; i++ {
		p := fmt.Sprintf("%sf%d", c02Dirs[r.Intn(len(c02Dirs))], i)
		paths = append(paths, p)
		size := c02Sizes[r.Intn(len(c02Sizes))]
		if r.Chance(1, 3) {
			size = r.Range(0, 40000)
		}
		old.Put(lib.Entry{Path: p, Kind: "file", Data: c02Content(r, size)})
	}
	if r.Chance(1, 2) {
		old.Put(lib.Entry{Path: "emptydir", Kind: "dir"})
	}
	if r.Chance(1, 2) {
		old.Put(lib.Entry{Path: "gone/deep/er", Kind: "dir"})
		old.Put(lib.Entry{Path: "gone/deep/g.txt", Kind: "file", Data: c02Content(r, r.Range(0, 300))})
		old.Put(lib.Entry{Path: "gone/h.txt", Kind: "file", Data: c02Content(r, r.Range(1, 300))})
	}
	if r.Chance(1, 2) {
		old.Put(lib.Entry{Path: "link0", Kind: "link", Dest: paths[0]})
	}
	if r.Chance(1, 3) {
		old.Put(lib.Entry{Path: "a/dangling", Kind: "link", Dest: "nowhere"})
	}
	files := old.Files()
	pick := func() lib.Entry { return files[r.Intn(len(files))] }
	nw := &lib.Build{}
	for _, e := range old.Entries {
		if e.Kind != "file" {
			nw.Put(e)
		}
	}
	var rel []string
	// random relation per old path
	for _, f := range files {
		if strings.HasPrefix(f.Path, "gone/") {
			nw.Put(f)
			continue
		}
		switch r.Intn(10) {
		case 0, 1, 2: // unchanged
			nw.Put(f)
		case 3: // patched in place
			d, how := c02Edit(r, f.Data)
			nw.Put(lib.Entry{Path: f.Path, Kind: "file", Data: d})
			rel = append(rel, "patched:"+f.Path+":"+how)
		case 4: // takes the content of another old file
			g := pick()
			nw.Put(lib.Entry{Path: f.Path, Kind: "file", Data: g.Data})
			rel = append(rel, "takes:"+f.Path+"<="+g.Path)
		case 5: // edited version of another old file
			g := pick()
			d, how := c02Edit(r, g.Data)
			nw.Put(lib.Entry{Path: f.Path, Kind: "file", Data: d})
			rel = append(rel, "takes-edited:"+f.Path+"<="+g.Path+":"+how)
		case 6: // removed
			rel = append(rel, "removed:"+f.Path)
		case 7: // renamed away
			np := fmt.Sprintf("%sr%d", c02Dirs[r.Intn(len(c02Dirs))], r.Intn(100))
			nw.Put(lib.Entry{Path: np, Kind: "file", Data: f.Data})
			rel = append(rel, "rename:"+f.Path+"->"+np)
		case 8: // new content at the old path
			nw.Put(lib.Entry{Path: f.Path, Kind: "file", Data: c02Content(r, c02Sizes[r.Intn(len(c02Sizes))])})
			rel = append(rel, "replaced:"+f.Path)
		default: // unchanged and copied elsewhere
			nw.Put(f)
			np := fmt.Sprintf("%sk%d", c02Dirs[r.Intn(len(c02Dirs))], r.Intn(100))
			nw.Put(lib.Entry{Path: np, Kind: "file", Data: f.Data})
			rel = append(rel, "dup:"+f.Path+"->"+np)
		}
	}
	// brand new files
	for k := r.Intn(3); k > 0; k-- {
		np := fmt.Sprintf("%sn%d", append(c02Dirs, "fresh/sub/")[r.Intn(len(c02Dirs)+1)], r.Intn(100))
		if r.Bool() {
			nw.Put(lib.Entry{Path: np, Kind: "file", Data: c02Content(r, c02Sizes[r.Intn(len(c02Sizes))])})
			rel = append(rel, "added:"+np)
		} else {
			g := pick()
			nw.Put(lib.Entry{Path: np, Kind: "file", Data: g.Data})
			rel = append(rel, "copyof:"+np+"<="+g.Path)
		}
	}
	// the named shape, on files 0,1,2 (distinct contents are needed for an unambiguous relation,
	// but the differ is free to pick any equal old file: the work lists are what counts)
	A, B, C := files[0], files[1], files[2]
	put := func(p string, d []byte) { nw.Put(lib.Entry{Path: p, Kind: "file", Data: d}) }
	switch shape {
	case "swap":
		put(A.Path, B.Data)
		put(B.Path, A.Data)
	case "chain":
		nw.Remove(A.Path)
		put(B.Path, A.Data)
		put(C.Path, B.Data)
	case "chain-new":
		nw.Remove(A.Path)
		put(B.Path, A.Data)
		put("c/chainend", B.Data)
	case "cycle3":
		put(A.Path, C.Data)
		put(B.Path, A.Data)
		put(C.Path, B.Data)
	case "fanout-keep":
		put(A.Path, A.Data)
		put("fan1", A.Data)
		put("a/fan2", A.Data)
	case "fanout-drop":
		nw.Remove(A.Path)
		put("fan1", A.Data)
		put("a/b/fan2", A.Data)
		put("zfan3", A.Data)
	case "fanout-onto-source": // copies of A land on B while B moves on
		nw.Remove(A.Path)
		put(B.Path, A.Data)
		put("fan1", A.Data)
		put("moved-b", B.Data)
	case "keep+dup-onto-source": // A stays AND is copied onto B while B moves on (no-op first in A's group)
		put(A.Path, A.Data)
		put(B.Path, A.Data)
		put("moved-b", B.Data)
	case "keep+dup-onto-source-rev": // the same with the kept path after the duplicate's path
		put(B.Path, B.Data)
		put(A.Path, B.Data)
		put("moved-a", A.Data)
	case "keep+dup-onto-chain": // A stays, A -> B, B -> C, C's content moves to a new path
		put(A.Path, A.Data)
		put(B.Path, A.Data)
		put(C.Path, B.Data)
		put("a/moved-c", C.Data)
	case "patched+dup-onto-source": // A is patched in place AND copied onto B while B moves on
		d, _ := c02Edit(r, A.Data)
		put(A.Path, d)
		put(B.Path, A.Data)
		put("moved-b", B.Data)
	case "patched+renamesrc":
		d, _ := c02Edit(r, A.Data)
		put(A.Path, d)
		put("moved-a", A.Data)
	case "patched+fanout":
		d, _ := c02Edit(r, A.Data)
		put(A.Path, d)
		put("moved-a", A.Data)
		put("a/moved-a2", A.Data)
	case "swap+patched": // A takes B's content, B becomes an edited A
		d, _ := c02Edit(r, A.Data)
		put(A.Path, B.Data)
		put(B.Path, d)
	case "swap+patched-self": // B is patched in place and also moves to A
		d, _ := c02Edit(r, B.Data)
		put(A.Path, B.Data)
		put(B.Path, d)
	case "grow-shrink-empty":
		put(A.Path, append(append([]byte(nil), A.Data...), c02Content(r, r.Range(1, 20000))...))
		put(B.Path, B.Data[:len(B.Data)/2])
		put(C.Path, nil)
	case "from-empty":
		old.Put(lib.Entry{Path: A.Path, Kind: "file", Data: nil})
		put(A.Path, c02Content(r, r.Range(1, 20000)))
	}
	if shape != "" {
		rel = append(rel, "shape:"+shape)
	}
	// directories and symlinks
	if r.Chance(1, 2) && old.Get("gone") != nil {
		nw.Remove("gone")
		rel = append(rel, "dir-removed:gone")
	}
	if r.Chance(1, 3) && nw.Get("emptydir") != nil {
		nw.Remove("emptydir")
		rel = append(rel, "dir-removed:emptydir")
	}
	if r.Chance(1, 3) {
		nw.Put(lib.Entry{Path: "fresh/empty/dir", Kind: "dir"})
		rel = append(rel, "dir-added")
	}
	switch r.Intn(5) {
	case 0:
		nw.Put(lib.Entry{Path: "newlink", Kind: "link", Dest: paths[1]})
		rel = append(rel, "link-added")
	case 1:
		if nw.Get("link0") != nil {
			nw.Remove("link0")
			rel = append(rel, "link-removed")
		}
	case 2:
		if nw.Get("link0") != nil {
			dest, how := "somewhere/else", ""
			if r.Bool() { // another text for (nearly) the same destination
				dest, how = c02NearDest(r, paths[0], "a", "link0b")
				how = ":near:" + how
				if dest == "link0b" { // a second link to the same file, in both builds
					old.Put(lib.Entry{Path: "link0b", Kind: "link", Dest: paths[0]})
					nw.Put(lib.Entry{Path: "link0b", Kind: "link", Dest: paths[0]})
				}
			}
			nw.Put(lib.Entry{Path: "link0", Kind: "link", Dest: dest})
			rel = append(rel, "link-retarget"+how)
		}
	}
	if kindSwap {
		rel = append(rel, c02KindSwap(r, old, nw)...)
	}
	if reserved {
		rel = append(rel, c02Reserved(r, old, nw)...)
	}
	if len(rel) == 0 {
		rel = append(rel, "identical")
	}
	return old, nw, rel
}

// c02KindSwap makes one path change its kind between the builds.
func c02KindSwap(r *lib.Rng, old, nw *lib.Build) []string {
	files := old.Files()
	f := files[r.Intn(len(files))]
	switch r.Intn(9) {
	case 0: // file -> link, content renamed
		nw.Remove(f.Path)
		nw.Put(lib.Entry{Path: f.Path, Kind: "link", Dest: "emptydir"})
		nw.Put(lib.Entry{Path: "kept-content", Kind: "file", Data: f.Data})
		return []string{"kindswap:file->link+renamed:" + f.Path}
	case 1: // file -> link, content dropped
		nw.Remove(f.Path)
		nw.Put(lib.Entry{Path: f.Path, Kind: "link", Dest: "nowhere"})
		return []string{"kindswap:file->link:" + f.Path}
	case 2: // file -> dir with the content moved inside
		nw.Remove(f.Path)
		nw.Put(lib.Entry{Path: f.Path + "/inner", Kind: "file", Data: f.Data})
		return []string{"kindswap:file->dir+inside:" + f.Path}
	case 3: // file -> dir, content dropped, something new inside
		nw.Remove(f.Path)
		nw.Put(lib.Entry{Path: f.Path + "/other", Kind: "file", Data: c02Content(r, 50)})
		return []string{"kindswap:file->dir:" + f.Path}
	case 4: // non-empty dir -> file
		old.Put(lib.Entry{Path: "wasdir/x", Kind: "file", Data: c02Content(r, 20)})
		nw.Remove("wasdir")
		nw.Put(lib.Entry{Path: "wasdir", Kind: "file", Data: c02Content(r, 30)})
		return []string{"kindswap:dir->file:wasdir"}
	case 5: // empty dir -> file
		old.Put(lib.Entry{Path: "wasempty", Kind: "dir"})
		nw.Remove("wasempty")
		nw.Put(lib.Entry{Path: "wasempty", Kind: "file", Data: c02Content(r, 30)})
		return []string{"kindswap:emptydir->file:wasempty"}
	case 6: // link -> file (new content, or a copy of a file that stays)
		old.Put(lib.Entry{Path: "waslink", Kind: "link", Dest: files[0].Path})
		nw.Remove("waslink")
		if r.Bool() {
			nw.Put(lib.Entry{Path: "waslink", Kind: "file", Data: c02Content(r, 30)})
			return []string{"kindswap:link->file:waslink"}
		}
		if e := nw.Get(f.Path); e == nil || e.Kind != "file" {
			nw.Put(f)
		} else {
			f = *e
		}
		nw.Put(lib.Entry{Path: "waslink", Kind: "file", Data: f.Data})
		return []string{"kindswap:link->file+copy:waslink"}
	case 7: // dir -> link (to a directory of the new build that has namesakes of what the old directory held, one and two levels down)
		old.Put(lib.Entry{Path: "wasdir2/x", Kind: "file", Data: c02Content(r, 20)})
		nw.Remove("wasdir2")
		if r.Bool() {
			nw.Put(lib.Entry{Path: "wasdir2", Kind: "link", Dest: "a"})
			return []string{"kindswap:dir->link:wasdir2"}
		}
		old.Put(lib.Entry{Path: "wasdir2/sub/y", Kind: "file", Data: c02Content(r, 25)})
		old.Put(lib.Entry{Path: "wasdir2/sub/sub/z", Kind: "file", Data: c02Content(r, 30)})
		nw.Put(lib.Entry{Path: "wasdir2", Kind: "link", Dest: "linked"})
		nw.Put(lib.Entry{Path: "linked/sub", Kind: "dir"})
		for _, p := range []string{"x", "sub/y", "sub/sub/z"} {
			if r.Chance(2, 3) {
				nw.Put(lib.Entry{Path: "linked/" + p, Kind: "file", Data: append(c02Content(r, r.Range(1, 60)), 11)})
			}
		}
		return []string{"kindswap:dir->link+namesakes:wasdir2"}
	default: // link -> dir
		old.Put(lib.Entry{Path: "waslink2", Kind: "link", Dest: "a"})
		nw.Remove("waslink2")
		nw.Put(lib.Entry{Path: "waslink2/y", Kind: "file", Data: c02Content(r, 20)})
		return []string{"kindswap:link->dir:waslink2"}
	}
}

// c02Reserved puts an entry whose name has the form Commit uses for its temporary files: next to
// one of the first three files (the ones the named shapes rename onto each other) or any other
// file, as a regular file, a symlink or a directory, in the old build, the new build or both.
func c02Reserved(r *lib.Rng, old, nw *lib.Build) []string {
	files := old.Files()
	f := files[r.Intn(len(files))]
	if r.Chance(2, 3) {
		f = files[r.Intn(3)]
	}
	name := fmt.Sprintf("%s.butler-rename-%d", f.Path, r.Range(1, 2))
	var e lib.Entry
	switch r.Intn(4) {
	case 0:
		e = lib.Entry{Path: name, Kind: "link", Dest: f.Path}
	case 1:
		e = lib.Entry{Path: name, Kind: "dir"}
	default:
		e = lib.Entry{Path: name, Kind: "file", Data: c02Content(r, 40)}
	}
	where := "both"
	switch r.Intn(4) {
	case 0:
		old.Put(e)
		nw.Put(e)
	case 1:
		old.Put(e)
		where = "old"
	default:
		nw.Put(e)
		where = "new"
	}
	return []string{"reserved-name:" + name + ":" + e.Kind + ":" + where}
}

// c02MapPool: short names; byte order = the containers' order, so kept / duplicated / renamed
// paths come in every relative order, in the root and below directories that may disappear
var c02MapPool = []string{"a", "b", "c", "d", "e", "m/a", "m/b", "m/n/c", "z"}

// c02GenMap draws the path-level relation as a random FUNCTION instead of one relation per old
// path: the new build's file paths are a random subset of the old paths plus up to two fresh
// ones, and each of them independently gets the whole content of a uniformly drawn old file
// (its own: kept; another one: rename / duplicate), an edited version of the old file at its own
// path (patched), an edited version of another old file, new content, or nothing. Every
// combination of the property text is reachable this way, in particular the ones the
// per-old-path generator cannot produce: a file kept AND duplicated onto a path whose old file
// is itself renamed, duplicated or patched; chains and cycles with fan-out; a swap one half of
// which is also kept elsewhere.
func c02GenMap(r *lib.Rng) (*lib.Build, *lib.Build, []string) {
	old, nw := &lib.Build{}, &lib.Build{}
	perm := make([]int, len(c02MapPool))
	for i := range perm {
		perm[i] = i
	}
	for i := len(perm) - 1; i > 0; i-- {
		j := r.Intn(i + 1)
		perm[i], perm[j] = perm[j], perm[i]
	}
	k := r.Range(2, 4)
	var olds []lib.Entry
	for i := 0; i < k; i++ {
		size := r.Range(1, 900)
		switch r.Intn(8) {
		case 0:
			size = []int{8191, 8192, 8193, 16400}[r.Intn(4)]
		case 1:
			size = r.Range(0, 3)
		}
		// the last byte makes the contents pairwise distinct: the relation is unambiguous
		e := lib.Entry{Path: c02MapPool[perm[i]], Kind: "file", Data: append(c02Content(r, size), byte(20+i))}
		olds = append(olds, e)
		old.Put(e)
	}
	var dests []string
	for _, e := range olds {
		if r.Chance(4, 5) {
			dests = append(dests, e.Path)
		}
	}
	for j, nfresh := 0, r.Intn(3); j < nfresh; j++ {
		dests = append(dests, c02MapPool[perm[k+j]])
	}
	var rel []string
	for _, p := range dests {
		own := old.Get(p)
		src := olds[r.Intn(k)]
		switch x := r.Intn(20); {
		case x < 14: // whole content of an old file
			nw.Put(lib.Entry{Path: p, Kind: "file", Data: src.Data})
			switch {
			case src.Path == p:
				rel = append(rel, "kept:"+p)
			case own != nil:
				rel = append(rel, "takes:"+p+"<="+src.Path)
			default:
				rel = append(rel, "copyof:"+p+"<="+src.Path)
			}
		case x < 17: // patched (edited version of the old file at the same path, else of any old file)
			if own != nil {
				src = *own
			}
			d, how := c02Edit(r, src.Data)
			nw.Put(lib.Entry{Path: p, Kind: "file", Data: d})
			if own != nil {
				rel = append(rel, "patched:"+p+":"+how)
			} else {
				rel = append(rel, "takes-edited:"+p+"<="+src.Path+":"+how)
			}
		case x < 18:
			d, how := c02Edit(r, src.Data)
			nw.Put(lib.Entry{Path: p, Kind: "file", Data: d})
			rel = append(rel, "takes-edited:"+p+"<="+src.Path+":"+how)
		case x < 19:
			nw.Put(lib.Entry{Path: p, Kind: "file", Data: append(c02Content(r, r.Range(1, 600)), 40)})
			rel = append(rel, "newcontent:"+p)
		default:
			nw.Put(lib.Entry{Path: p, Kind: "file"})
			rel = append(rel, "empty:"+p)
		}
	}
	for _, e := range olds {
		if nw.Get(e.Path) == nil {
			rel = append(rel, "removed:"+e.Path)
		}
	}
	return old, nw, rel
}

// c02Features names the combinations present in the transposition work list (new path, old path):
// what the generators reached, independent of how the pair was produced.
func c02Features(l *c02Lists) []string {
	groups := map[string][]string{}
	for _, t := range l.Transpos {
		groups[t[1]] = append(groups[t[1]], t[0])
	}
	overlay := map[string]bool{}
	for _, p := range l.Overlays {
		overlay[p] = true
	}
	set := map[string]bool{}
	for k, dests := range groups {
		noop, others, clash := false, 0, false
		noopFirst := dests[0] == k
		for _, d := range dests {
			if d == k {
				noop = true
				continue
			}
			others++
			if _, ok := groups[d]; ok {
				clash = true
			}
		}
		if others == 0 {
			continue
		}
		kind := "rename"
		switch {
		case noop && noopFirst:
			kind = "keep+dup"
		case noop:
			kind = "dup+keep"
		case overlay[k]:
			kind = "patched+rename"
		}
		if others > 1 {
			kind += "+fanout"
		}
		if clash {
			kind += "-onto-source"
		}
		set[kind] = true
	}
	var out []string
	for f := range set {
		out = append(out, f)
	}
	sort.Strings(out)
	return out
}

// ---------------------------------------------------------------- corpus (fixed cases, run first)

type c02Fixed struct {
	name     string
	old, new []lib.Entry
}

func fE(p string, d string) lib.Entry { return lib.Entry{Path: p, Kind: "file", Data: []byte(d)} }
func dE(p string) lib.Entry           { return lib.Entry{Path: p, Kind: "dir"} }
func lE(p, d string) lib.Entry        { return lib.Entry{Path: p, Kind: "link", Dest: d} }

func c02Corpus() []c02Fixed {
	X, Y, Z := strings.Repeat("x", 700), strings.Repeat("y", 900)+"Y", strings.Repeat("z", 500)+"ZZ"
	return []c02Fixed{
		// DESIGN §7 #9: old file x becomes a symlink, its content is renamed to y
		{"known/file->link+renamed", []lib.Entry{fE("x", X), dE("emptydir")}, []lib.Entry{lE("x", "emptydir"), fE("y", X), dE("emptydir")}},
		// DESIGN §7 #10: non-empty dir -> file; file -> dir with the content moved inside
		{"known/dir->file", []lib.Entry{fE("d/inner", X), fE("k", Y)}, []lib.Entry{fE("d", Z), fE("k", Y)}},
		{"known/file->dir+inside", []lib.Entry{fE("x", X), fE("k", Y)}, []lib.Entry{fE("x/inner", X), fE("k", Y)}},
		// link -> file where the file is a copy of a file that stays: copy() opens the link
		{"probe/link->file+copy", []lib.Entry{fE("k", Y), fE("t", Z), lE("l", "t")}, []lib.Entry{fE("k", Y), fE("t", Z), fE("l", Y)}},
		{"probe/link->file+new", []lib.Entry{fE("k", Y), fE("t", Z), lE("l", "t")}, []lib.Entry{fE("k", Y), fE("t", Z), fE("l", X)}},
		// dir -> link while an old entry below it has a namesake below the link's destination
		{"probe/dir->link+ghost-through-link", []lib.Entry{fE("d/f", X), fE("c/f", Y)}, []lib.Entry{lE("d", "c"), fE("c/f", Y)}},
		// the same two or more levels below the link, below a nested link, with a namesake that is kept / an empty directory / a symlink
		{"probe/dir->link+deep-ghost-through-link", []lib.Entry{fE("cur/bin/tool", X), fE("readme", Z)}, []lib.Entry{fE("v2/bin/tool", Y), lE("cur", "v2"), fE("readme", Z)}},
		{"probe/nested-dir->link+deep-ghosts", []lib.Entry{fE("p/cur/bin/deep/x", X), dE("p/cur/bin/emptyd"), lE("p/cur/bin/lnk", "x"), fE("p/cur/tool", Z), fE("p/v2/bin/deep/x", Y)},
			[]lib.Entry{lE("p/cur", "v2"), fE("p/v2/bin/deep/x", Y), dE("p/v2/bin/emptyd"), lE("p/v2/bin/lnk", "deep"), fE("p/v2/tool", Z+"!")}},
		{"probe/dir->link-chain+deep-ghost", []lib.Entry{fE("cur/a/b/c", X), fE("k", Z)}, []lib.Entry{lE("cur", "latest"), lE("latest", "lib/v2"), fE("lib/v2/a/b/c", Y), fE("k", Z)}},
		{"probe/emptydir->file", []lib.Entry{dE("e"), fE("k", Y)}, []lib.Entry{fE("e", Z), fE("k", Y)}},
		// proof-forced hypothesis H_names: the build really contains b.butler-rename-1 while a -> b -> c
		{"names/reserved-chain", []lib.Entry{fE("a", X), fE("b", Y), fE("b.butler-rename-1", Z)}, []lib.Entry{fE("b", X), fE("c", Y), fE("b.butler-rename-1", Z)}},
		{"names/reserved-swap", []lib.Entry{fE("a", X), fE("b", Y), fE("a.butler-rename-2", Z), fE("b.butler-rename-1", Z+"1")}, []lib.Entry{fE("b", X), fE("a", Y), fE("a.butler-rename-2", Z), fE("b.butler-rename-1", Z+"1")}},
		// the temporary name belongs to an entry of the new build only: a symlink / a directory (both on disk before the
		// transpositions run), the destination of another rename; to a rename source of the old build only
		{"names/new-link-at-tempname", []lib.Entry{fE("a", X), fE("b", Y)}, []lib.Entry{fE("b", X), fE("c", Y), lE("b.butler-rename-1", "c")}},
		{"names/new-dir-at-tempname", []lib.Entry{fE("m/a", X), fE("m/b", Y)}, []lib.Entry{fE("m/b", X), fE("m/c", Y), fE("m/b.butler-rename-1/inside", Z)}},
		{"names/rename-dest-at-tempname", []lib.Entry{fE("a", X), fE("b", Y), fE("q", Z)}, []lib.Entry{fE("b", X), fE("c", Y), fE("b.butler-rename-1", Z)}},
		{"names/old-rename-source-at-tempname", []lib.Entry{fE("a", X), fE("b", Y), fE("b.butler-rename-1", Z)}, []lib.Entry{fE("b", X), fE("c", Y), fE("q", Z)}},
		{"names/swap+new-links-at-tempnames", []lib.Entry{fE("a", X), fE("b", Y)}, []lib.Entry{fE("a", Y), fE("b", X), lE("a.butler-rename-1", "a"), lE("a.butler-rename-2", "a"), lE("b.butler-rename-1", "b"), dE("b.butler-rename-2")}},
		// a symlink of both builds whose destination changes as TEXT only (or nearly so): through ".." over another
		// symlink (a different file is meant), "./", a trailing slash, a doubled slash, the case of a letter, a longer
		// name, another link to the same file; and the way back to the plain text
		{"links/retarget-dotdot-through-link", []lib.Entry{fE("lib", X), fE("data/lib", Y), fE("data/deep/x", Z), lE("cur", "data/deep"), lE("link", "lib")},
			[]lib.Entry{fE("lib", X), fE("data/lib", Y), fE("data/deep/x", Z), lE("cur", "data/deep"), lE("link", "cur/../lib")}},
		{"links/retarget-dot-slash+trailing-slash", []lib.Entry{fE("lib", X), fE("d/f", Y), lE("l1", "lib"), lE("l2", "d"), lE("m/l3", "../d/f")},
			[]lib.Entry{fE("lib", X+"!"), fE("d/f", Y), lE("l1", "./lib"), lE("l2", "d/"), lE("m/l3", "..//d/f")}},
		{"links/retarget-to-plain-text", []lib.Entry{fE("lib", X), fE("d/f", Y), lE("l1", "d/../lib"), lE("l2", "d/."), lE("l3", "./nowhere")},
			[]lib.Entry{fE("lib", X), fE("d/f", Y), lE("l1", "lib"), lE("l2", "d"), lE("l3", "nowhere")}},
		{"links/retarget-case+prefix+alias", []lib.Entry{fE("lib", X), fE("k", Y), lE("alias", "lib"), lE("l1", "lib"), lE("l2", "lib"), lE("l3", "lib"), lE("l4", "k")},
			[]lib.Entry{fE("lib", X), fE("k", Y+"."), lE("alias", "lib"), lE("l1", "Lib"), lE("l2", "lib.1"), lE("l3", "alias"), lE("l4", "j")}},
		// regression shapes
		{"shape/swap", []lib.Entry{fE("a", X), fE("b", Y)}, []lib.Entry{fE("a", Y), fE("b", X)}},
		{"shape/chain", []lib.Entry{fE("a", X), fE("b", Y), fE("c", Z)}, []lib.Entry{fE("b", X), fE("c", Y)}},
		{"shape/cycle3", []lib.Entry{fE("a", X), fE("b", Y), fE("c", Z)}, []lib.Entry{fE("a", Z), fE("b", X), fE("c", Y)}},
		{"shape/fanout-onto-source", []lib.Entry{fE("a", X), fE("b", Y)}, []lib.Entry{fE("b", X), fE("n/fan", X), fE("moved", Y)}},
		// a kept AND duplicated onto b while b is renamed (the no-op first / last in a's group), also with a patched
		{"shape/keep+dup-onto-source", []lib.Entry{fE("a", X), fE("b", Y)}, []lib.Entry{fE("a", X), fE("b", X), fE("c", Y)}},
		{"shape/dup+keep-onto-source", []lib.Entry{fE("a", X), fE("b", Y)}, []lib.Entry{fE("a", Y), fE("b", Y), fE("c", X)}},
		{"shape/keep+dup-onto-chain+fanout", []lib.Entry{fE("a", X), fE("b", Y), fE("c", Z)}, []lib.Entry{fE("a", X), fE("b", X), fE("c", Y), fE("d", Z), fE("e", Y)}},
		{"shape/patched+dup-onto-source", []lib.Entry{fE("a", X), fE("b", Y)}, []lib.Entry{fE("a", X+"tail"), fE("b", X), fE("c", Y)}},
		{"shape/patched+renamesrc", []lib.Entry{fE("a", X), fE("b", Y)}, []lib.Entry{fE("a", X[:300]+"!"+X[300:]), fE("moved", X), fE("b", Y)}},
		{"shape/patched+fanout", []lib.Entry{fE("a", X), fE("b", Y)}, []lib.Entry{fE("a", "!"+X), fE("m1", X), fE("q/m2", X), fE("b", Y)}},
		{"shape/swap+patched-self", []lib.Entry{fE("a", X), fE("b", Y)}, []lib.Entry{fE("a", Y), fE("b", Y+"tail")}},
		{"shape/deleted-dirs", []lib.Entry{fE("gone/deep/f", X), dE("gone/deep/er"), fE("gone/g", Y), fE("k", Z), dE("e")}, []lib.Entry{fE("k", Z)}},
		{"shape/links", []lib.Entry{fE("k", Z), lE("l1", "k"), lE("l2", "k"), lE("l3", "nowhere")}, []lib.Entry{fE("k", Z), lE("l2", "elsewhere"), lE("l3", "nowhere"), lE("l4", "k")}},
		{"shape/file->dir-harmless", []lib.Entry{fE("x", X), fE("k", Z)}, []lib.Entry{fE("x/new", Y), fE("k", Z)}},
		{"shape/link->dir", []lib.Entry{lE("x", "k"), fE("k", Z)}, []lib.Entry{fE("x/new", Y), fE("k", Z)}},
	}
}

func buildOf(es []lib.Entry) *lib.Build {
	b := &lib.Build{}
	for _, e := range es {
		b.Put(e)
	}
	return b
}

// ---------------------------------------------------------------- shape predicates (known-finding matchers)

func kindAt(b *lib.Build, p string) string {
	if e := b.Get(p); e != nil {
		return e.Kind
	}
	return ""
}

func properPrefixes(p string) []string {
	parts := strings.Split(p, "/")
	var out []string
	for i := 1; i < len(parts); i++ {
		out = append(out, strings.Join(parts[:i], "/"))
	}
	return out
}

func related(p, q string) bool {
	return p == q || strings.HasPrefix(q, p+"/") || strings.HasPrefix(p, q+"/")
}

var reservedRe = regexp.MustCompile(`\.butler-rename-[0-9]+$`)

type c02Shapes struct {
	// paths whose kind differs between the builds in a way the commit phases do not handle,
	// each with the set of paths the damage may spread to
	srcLost   []string // transposition source K that ensureDirsAndSymlinks removes/replaces (file -> link/dir at K or above K)
	dirToFile []string // new file P where old has a non-empty directory
	linkDest  []string // new file P, old symlink at P, P written by copy() (which follows the link)
	ghostLink []string // old dir D -> new link D: ghosts below D are looked up through the link
	reserved  []string // entry names of the form <x>.butler-rename-<n>
	affected  map[string]bool
}

// c02Classify computes, from the inputs only, which known defect shapes are present.
func c02Classify(old, nw *lib.Build, l *c02Lists) *c02Shapes {
	s := &c02Shapes{affected: map[string]bool{}}
	mark := func(ps ...string) {
		for _, p := range ps {
			s.affected[p] = true
		}
	}
	groups := map[string][]string{}
	for _, t := range l.Transpos {
		groups[t[1]] = append(groups[t[1]], t[0])
	}
	overlay := map[string]bool{}
	for _, p := range l.Overlays {
		overlay[p] = true
	}
	for k, dests := range groups {
		lost := false
		if kk := kindAt(nw, k); kk == "link" || kk == "dir" {
			lost = true
		}
		for _, pre := range properPrefixes(k) {
			if kk := kindAt(nw, pre); kk == "link" || kk == "file" {
				lost = true
			}
		}
		if lost {
			s.srcLost = append(s.srcLost, k)
			mark(k)
			mark(dests...)
		}
	}
	for _, e := range nw.Entries {
		if e.Kind != "file" {
			continue
		}
		if kindAt(old, e.Path) == "dir" {
			nonEmpty := false
			for _, o := range old.Entries {
				if strings.HasPrefix(o.Path, e.Path+"/") {
					nonEmpty = true
				}
			}
			if nonEmpty {
				s.dirToFile = append(s.dirToFile, e.Path)
				mark(e.Path)
			}
		}
	}
	for k, dests := range groups {
		hasNoop := false
		for _, d := range dests {
			if d == k {
				hasNoop = true
			}
		}
		for i, d := range dests {
			if d == k {
				continue
			}
			copied := hasNoop || overlay[k] || i > 0
			if oe := old.Get(d); oe != nil && oe.Kind == "link" && copied {
				s.linkDest = append(s.linkDest, d)
			}
		}
	}
	seenGhostLink := map[string]bool{}
	for _, e := range nw.Entries {
		if e.Kind == "link" && kindAt(old, e.Path) == "dir" {
			for _, o := range old.Entries {
				if strings.HasPrefix(o.Path, e.Path+"/") {
					through := path.Join(path.Dir(e.Path), e.Dest) + strings.TrimPrefix(o.Path, e.Path)
					if nw.Get(through) != nil && !seenGhostLink[e.Path] {
						seenGhostLink[e.Path] = true
						s.ghostLink = append(s.ghostLink, e.Path)
					}
				}
			}
		}
	}
	for _, b := range []*lib.Build{old, nw} {
		for _, e := range b.Entries {
			if reservedRe.MatchString(e.Path) {
				s.reserved = append(s.reserved, e.Path)
			}
		}
	}
	sort.Strings(s.srcLost)
	sort.Strings(s.dirToFile)
	sort.Strings(s.linkDest)
	sort.Strings(s.ghostLink)
	sort.Strings(s.reserved)
	return s
}

// differingPaths lists the paths at which got and want differ.
func differingPaths(got, want *lib.Build) []string {
	var out []string
	seen := map[string]bool{}
	for _, w := range want.Entries {
		seen[w.Path] = true
		g := got.Get(w.Path)
		if g == nil || g.Kind != w.Kind || string(g.Data) != string(w.Data) || g.Dest != w.Dest {
			out = append(out, w.Path)
		}
	}
	for _, g := range got.Entries {
		if !seen[g.Path] {
			out = append(out, g.Path)
		}
	}
	sort.Strings(out)
	return out
}

// c02Finding decides whether a failing in-place apply is one of the known findings (DESIGN §7
// #9, #10): a path that is a regular file in one build and a directory or symlink in the other
// AND takes part in the commit work (lost transposition source / non-empty directory in the way
// of a new file). class is the outcome class of Commit; got is the tree after Commit (nil when
// Commit did not return ok). Every differing path must be related to such a path: any other
// damage stays a violation.
func c02Finding(s *c02Shapes, class string, got, nw *lib.Build) string {
	if len(s.dirToFile) == 0 && len(s.srcLost) == 0 {
		return ""
	}
	switch class {
	case "error":
		return "C02-kindswap-commit-error"
	case "ok":
		diff := differingPaths(got, nw)
		if len(diff) == 0 {
			return ""
		}
		for _, q := range diff {
			ok := false
			for p := range s.affected {
				if related(p, q) {
					ok = true
				}
			}
			if !ok {
				return ""
			}
		}
		return "C02-kindswap-wrong-tree"
	}
	return ""
}

// ---------------------------------------------------------------- Coq printer

type c02Names struct {
	ids map[string]int
}

func (n *c02Names) id(s string) int {
	if v, ok := n.ids[s]; ok {
		return v
	}
	v := len(n.ids) + 1
	n.ids[s] = v
	return v
}

// comp renders one path component; <x>.butler-rename-<n> (canonical decimal) is the model's [R x n]
func (n *c02Names) comp(s string) string {
	if m := reservedRe.FindStringIndex(s); m != nil {
		num := s[m[0]+len(".butler-rename-"):]
		if v, err := strconv.ParseUint(num, 10, 31); err == nil && strconv.FormatUint(v, 10) == num {
			return fmt.Sprintf("R (%s) %d", n.comp(s[:m[0]]), v)
		}
	}
	return fmt.Sprintf("P %d", n.id(s))
}

func (n *c02Names) path(p string) string {
	parts := strings.Split(p, "/")
	out := make([]string, len(parts))
	for i, c := range parts {
		out[i] = n.comp(c)
	}
	return "[" + strings.Join(out, ";") + "]"
}

func rleN(b []byte) string {
	r := lib.ToRle(b)
	s := make([]string, len(r))
	for i, x := range r {
		s[i] = fmt.Sprintf("(%d,%d)", x.V, x.C)
	}
	return "[" + strings.Join(s, ";") + "]"
}

// container in tlc order: dirs, symlinks, files as the patcher's containers list them
func (n *c02Names) tree(b *lib.Build) string {
	var es []string
	for _, e := range b.Entries {
		switch e.Kind {
		case "dir":
			es = append(es, fmt.Sprintf("(%s,RD)", n.path(e.Path)))
		case "link":
			es = append(es, fmt.Sprintf("(%s,RL %d)", n.path(e.Path), n.id("->"+e.Dest)))
		default:
			es = append(es, fmt.Sprintf("(%s,RF %s)", n.path(e.Path), rleN(e.Data)))
		}
	}
	return "[" + strings.Join(es, ";") + "]"
}

func rleSize(bs ...[]byte) int {
	n := 0
	for _, b := range bs {
		n += len(lib.ToRle(b))
	}
	return n
}

// ---------------------------------------------------------------- one case

type c02Result struct {
	class string
	msg   string
	tree  *lib.Build
}

type c02Order struct {
	dirs, links, files    []string // new container
	odirs, olinks, ofiles []string // old container
}

func containerOrder(patch []byte) (*c02Order, error) {
	p, err := lib.NewPatcher(patch)
	if err != nil {
		return nil, err
	}
	o := &c02Order{}
	for _, d := range p.GetSourceContainer().Dirs {
		o.dirs = append(o.dirs, d.Path)
	}
	for _, l := range p.GetSourceContainer().Symlinks {
		o.links = append(o.links, l.Path)
	}
	for _, f := range p.GetSourceContainer().Files {
		o.files = append(o.files, f.Path)
	}
	for _, d := range p.GetTargetContainer().Dirs {
		o.odirs = append(o.odirs, d.Path)
	}
	for _, l := range p.GetTargetContainer().Symlinks {
		o.olinks = append(o.olinks, l.Path)
	}
	for _, f := range p.GetTargetContainer().Files {
		o.ofiles = append(o.ofiles, f.Path)
	}
	return o, nil
}

func pathList(n *c02Names, ps []string) string {
	out := make([]string, len(ps))
	for i, p := range ps {
		out[i] = n.path(p)
	}
	return "[" + strings.Join(out, ";") + "]"
}

func c02CoqCase(old, nw *lib.Build, ord *c02Order, l *c02Lists, res *c02Result) string {
	n := &c02Names{ids: map[string]int{}}
	var tr, ov, mv []string
	for _, t := range l.Transpos {
		tr = append(tr, fmt.Sprintf("(%s,%s)", n.path(t[0]), n.path(t[1])))
	}
	for _, p := range l.Overlays {
		var ops []string
		for _, o := range l.OvOps[p] {
			if o.IsF {
				ops = append(ops, "RFresh "+rleN(o.Fresh))
			} else {
				ops = append(ops, fmt.Sprintf("RSkip %d", o.Skip))
			}
		}
		ov = append(ov, fmt.Sprintf("(%s,[%s])", n.path(p), strings.Join(ops, ";")))
	}
	for _, p := range l.Moves {
		mv = append(mv, fmt.Sprintf("(%s,%s)", n.path(p), rleN(l.MvData[p])))
	}
	var links, olinks []string
	for _, p := range ord.links {
		links = append(links, fmt.Sprintf("(%s,%d)", n.path(p), n.id("->"+nw.Get(p).Dest)))
	}
	for _, p := range ord.olinks {
		olinks = append(olinks, n.path(p))
	}
	cls := map[string]int{"ok": 0, "error": 1, "panic": 2, "hang": 3}[res.class]
	final := "[]"
	if res.class == "ok" {
		final = n.tree(res.tree)
	}
	return fmt.Sprintf("($ID%%N, %s, (%s,[%s],%s), (%s,[%s],%s), [%s], [%s], [%s], (%d%%N, %s))",
		n.tree(old),
		pathList(n, ord.odirs), strings.Join(olinks, ";"), pathList(n, ord.ofiles),
		pathList(n, ord.dirs), strings.Join(links, ";"), pathList(n, ord.files),
		strings.Join(tr, ";"), strings.Join(ov, ";"), strings.Join(mv, ";"), cls, final)
}

// c02ListsCase: the old container's files, the bowl calls, and the work lists Save() reported
func c02ListsCase(ord *c02Order, l *c02Lists) string {
	n := &c02Names{ids: map[string]int{}}
	var steps, tr []string
	for i, st := range l.Steps {
		if l.StepsT[i] {
			steps = append(steps, fmt.Sprintf("LT %s %s", n.path(st[0]), n.path(st[1])))
		} else {
			steps = append(steps, fmt.Sprintf("LW %s", n.path(st[0])))
		}
	}
	for _, t := range l.Transpos {
		tr = append(tr, fmt.Sprintf("(%s,%s)", n.path(t[0]), n.path(t[1])))
	}
	return fmt.Sprintf("($ID%%N, %s, [%s], ([%s], %s, %s))", pathList(n, ord.ofiles), strings.Join(steps, ";"),
		strings.Join(tr, ";"), pathList(n, l.Overlays), pathList(n, l.Moves))
}

type c02Spec struct {
	class    string
	old, nw  *lib.Build
	rel      []string
	optimize bool
	corr     bool
}

func (c *Ctx) c02Reps() int {
	if c.Tier == "quick" {
		return 3
	}
	return 8
}

func runC02Case(c *Ctx, idx int, sp c02Spec) (out []*lib.Case, err error) {
	base := filepath.Join(c.Tmp, fmt.Sprintf("c02-%d", idx))
	defer removeAll(base)
	oldDir, newDir := filepath.Join(base, "old"), filepath.Join(base, "new")
	work, stage, fresh := filepath.Join(base, "work"), filepath.Join(base, "stage"), filepath.Join(base, "fresh")
	if err := sp.old.WriteTo(oldDir); err != nil {
		return nil, err
	}
	if err := sp.nw.WriteTo(newDir); err != nil {
		return nil, err
	}
	input := map[string]interface{}{"old": sp.old.Summary(), "new": sp.nw.Summary(), "relations": sp.rel, "optimized": sp.optimize, "subseed": idx}
	cs := &lib.Case{Class: sp.class, Input: input}
	obs := map[string]interface{}{}
	cs.Obs = obs
	emit := func() { out = append(out, cs) }

	var patch []byte
	optNote := ""
	cls, msg := lib.Guard(func() error {
		dr, err := lib.Diff(oldDir, newDir, lib.Compressions[0], nil)
		if err != nil {
			return err
		}
		patch = dr.Patch
		return nil
	})
	if cls == "ok" && sp.optimize {
		// producing the optimized patch is C07/C12 territory (DESIGN §7 #7, #8 live there): when
		// rediff fails, retry with one partition, then fall back to the plain patch
		plain := patch
		for _, parts := range []int{1 + idx%3, 1} {
			var opt []byte
			c2, m2 := lib.WithDeadline(120*time.Second, func() error {
				var err error
				opt, err = lib.Optimize(plain, oldDir, newDir, lib.OptParams{Partitions: parts, Concurrency: 1 + idx%2, Comp: lib.Compressions[0]})
				return err
			})
			if c2 == "ok" {
				patch = opt
				optNote = fmt.Sprintf("partitions=%d", parts)
				break
			}
			optNote = "rediff failed (" + c2 + ": " + c02FirstLine(m2) + "), plain patch used"
		}
		obs["optimize"] = optNote
	}
	obs["diff"] = cls
	if cls != "ok" {
		// producing the patch is C01 territory; it is not a C02 verdict on commit
		cs.Class += "/nopatch"
		obs["diff_msg"] = c02FirstLine(msg)
		emit()
		return out, nil
	}
	ord, err := containerOrder(patch)
	if err != nil {
		return nil, err
	}

	// fresh apply
	cls, msg = lib.WithDeadline(120*time.Second, func() error {
		_, err := lib.ApplyFresh(patch, oldDir, fresh, nil, nil)
		return err
	})
	obs["fresh"] = cls
	var oracle []string
	if cls != "ok" {
		oracle = append(oracle, "fresh apply "+cls+": "+msg)
	} else {
		got, err := lib.ReadBuild(fresh)
		if err != nil {
			return nil, err
		}
		if d := lib.DiffBuilds(got, sp.nw); d != "" {
			oracle = append(oracle, "fresh apply differs from the new build: "+d)
		}
	}
	removeAll(fresh)

	// in-place applies
	reps := c.c02Reps()
	var lists *c02Lists
	var results []*c02Result
	untouched := ""
	for rep := 0; rep < reps; rep++ {
		removeAll(work)
		removeAll(stage)
		if err := sp.old.WriteTo(work); err != nil {
			return nil, err
		}
		var l *c02Lists
		if rep == 0 {
			l = &c02Lists{}
		}
		before := func() error {
			snap, err := lib.ReadBuild(work)
			if err != nil {
				return err
			}
			if d := lib.DiffBuilds(snap, sp.old); d != "" && untouched == "" {
				untouched = d
			}
			return nil
		}
		var cl, m string
		if rep == 0 {
			cl, m = lib.WithDeadline(120*time.Second, func() error { return c02Apply(patch, work, stage, l, before) })
			lists = l
		} else {
			cl, m = lib.WithDeadline(120*time.Second, func() error { return lib.ApplyInPlace(patch, work, stage, before) })
		}
		res := &c02Result{class: cl, msg: m}
		if cl == "ok" {
			res.tree, err = lib.ReadBuild(work)
			if err != nil {
				return nil, err
			}
		}
		results = append(results, res)
		if cl == "hang" {
			break
		}
		if rep == 0 && lists != nil && lists.OvOps != nil && c02OrderSensitive(lists) {
			// two or more transposition groups: Commit ranges over a Go map of them, and which
			// group comes first cannot be forced, only sampled; small cases are cheap to repeat
			// (quick: 3 -> 9 up to 1 MiB of file data; thorough: 8 -> 16 up to 16 KiB)
			switch size := dataSize(sp.old, sp.nw); {
			case c.Tier == "quick" && size <= 1<<20:
				reps *= 3
			case c.Tier != "quick" && size <= 16<<10:
				reps *= 2
			}
		}
	}
	removeAll(work)
	removeAll(stage)
	if lists == nil || lists.OvOps == nil {
		// the patch phase itself failed on the first run
		cs.Oracle = strings.Join(append(oracle, "in-place patch phase "+results[0].class+": "+results[0].msg), " | ")
		obs["inplace"] = results[0].class
		emit()
		return out, nil
	}
	obs["transpositions"] = lists.Transpos
	obs["overlays"] = lists.Overlays
	obs["moves"] = lists.Moves
	obs["features"] = c02Features(lists)
	obs["repetitions"] = len(results)
	nonNoop := 0
	for _, t := range lists.Transpos {
		if t[0] != t[1] {
			nonNoop++
		}
	}
	for _, e := range sp.nw.Entries {
		// a symlink of both builds with another destination is commit work too (remove + link again)
		if o := sp.old.Get(e.Path); e.Kind == "link" && o != nil && o.Kind == "link" && o.Dest != e.Dest {
			nonNoop++
		}
	}
	cs.Nontrivial = nonNoop+len(lists.Overlays)+len(lists.Moves) > 0
	if untouched != "" {
		oracle = append(oracle, "the old build was modified before Commit: "+untouched)
	}
	shapes := c02Classify(sp.old, sp.nw, lists)
	obs["shapes"] = map[string]interface{}{"srcLost": shapes.srcLost, "dirToFile": shapes.dirToFile, "linkDest": shapes.linkDest, "ghostLink": shapes.ghostLink, "reserved": shapes.reserved}
	// every repetition must equal the new build; findings only when every failing repetition matches
	var classes []string
	finding := ""
	failing := 0
	allMatched := true
	var distinct []*c02Result
	for i, res := range results {
		classes = append(classes, res.class)
		bad := ""
		if res.class != "ok" {
			bad = fmt.Sprintf("in-place apply #%d: Commit %s: %s", i, res.class, c02FirstLine(res.msg))
		} else if d := lib.DiffBuilds(res.tree, sp.nw); d != "" {
			bad = fmt.Sprintf("in-place apply #%d: tree after Commit differs from the new build: %s", i, d)
		}
		if bad != "" {
			if failing == 0 {
				oracle = append(oracle, bad)
			}
			failing++
			f := c02Finding(shapes, res.class, res.tree, sp.nw)
			if f == "" {
				allMatched = false
			} else if finding == "" {
				finding = f
			}
		}
		dup := false
		for _, d := range distinct {
			if d.class == res.class && (res.class != "ok" || lib.DiffBuilds(d.tree, res.tree) == "") {
				dup = true
			}
		}
		if !dup {
			distinct = append(distinct, res)
		}
	}
	obs["commit"] = classes
	obs["distinct_results"] = len(distinct)
	if failing > 1 {
		oracle = append(oracle, fmt.Sprintf("(%d of %d repetitions failed)", failing, len(results)))
	}
	onlyCommitFailures := len(oracle) > 0 && untouched == "" && !strings.HasPrefix(oracle[0], "fresh apply")
	if failing > 0 && allMatched && onlyCommitFailures {
		cs.Finding = finding
	}
	cs.Oracle = strings.Join(oracle, " | ")
	listsCase := &lib.Case{Class: "lists/" + strings.SplitN(sp.class, "/", 2)[0], Group: "lists", Nontrivial: cs.Nontrivial,
		Input: map[string]interface{}{"subseed": idx, "of": sp.class, "steps": lists.Steps},
		Obs:   map[string]interface{}{"transpositions": lists.Transpos, "overlays": lists.Overlays, "moves": lists.Moves},
		Coq:   c02ListsCase(ord, lists)}
	defer func() { out = append(out, listsCase) }()
	// A failing in-place apply of a generated case (a known kind-swap finding) may depend on Go's
	// map order in ways the four orders evaluated by the model do not cover: only the fixed corpus
	// witnesses (at most two groups) are compared with the model when the oracle fails.
	compare := sp.corr && (cs.Oracle == "" || strings.HasPrefix(sp.class, "corpus/"))
	if compare && rleSize(allData(sp.old, sp.nw)...) < 4000 {
		cs.Group = "commit"
		cs.Coq = c02CoqCase(sp.old, sp.nw, ord, lists, distinct[0])
		emit()
		// further distinct results of the same input are separate model cases
		for _, d := range distinct[1:] {
			extra := &lib.Case{Class: sp.class + "/other-result", Group: "commit", Input: input, Obs: map[string]interface{}{"commit": d.class},
				Key: "", Coq: c02CoqCase(sp.old, sp.nw, ord, lists, d)}
			out = append(out, extra)
		}
		return out, nil
	}
	emit()
	return out, nil
}

// c02OrderSensitive: at least two groups of transpositions, one of them doing something
func c02OrderSensitive(l *c02Lists) bool {
	groups := map[string]bool{}
	moving := false
	for _, t := range l.Transpos {
		groups[t[1]] = true
		if t[0] != t[1] {
			moving = true
		}
	}
	return moving && len(groups) >= 2
}

func dataSize(bs ...*lib.Build) int {
	n := 0
	for _, d := range allData(bs...) {
		n += len(d)
	}
	return n
}

func allData(bs ...*lib.Build) [][]byte {
	var out [][]byte
	for _, b := range bs {
		for _, e := range b.Entries {
			if e.Kind == "file" {
				out = append(out, e.Data)
			}
		}
	}
	return out
}

func c02FirstLine(s string) string {
	if i := strings.IndexByte(s, '\n'); i >= 0 {
		s = s[:i]
	}
	if len(s) > 300 {
		s = s[:300]
	}
	return s
}

var c02ShapeNames = []string{"swap", "chain", "chain-new", "cycle3", "fanout-keep", "fanout-drop", "fanout-onto-source",
	"keep+dup-onto-source", "keep+dup-onto-source-rev", "keep+dup-onto-chain", "patched+dup-onto-source", "patched+renamesrc", "patched+fanout", "swap+patched", "swap+patched-self", "grow-shrink-empty", "from-empty", "", ""}

func runC02(c *Ctx) error {
	r := c.Rng.Fork()
	fsr := c.Rng.Fork()
	idx := 0
	var specs []c02Spec
	add := func(sp c02Spec) error { specs = append(specs, sp); return nil }
	// corpus: both patch variants
	for _, f := range c02Corpus() {
		for _, opt := range []bool{false, true} {
			cls := "corpus/" + f.name
			if opt {
				cls += "/opt"
			}
			if err := add(c02Spec{class: cls, old: buildOf(f.old), nw: buildOf(f.new), rel: []string{f.name}, optimize: opt, corr: true}); err != nil {
				return err
			}
			idx++
		}
	}
	// path-level relations, small run-structured contents (model correspondence)
	n := c.N(72, 700)
	for i := 0; i < n; i++ {
		cr := r.Fork()
		shape := c02ShapeNames[i%len(c02ShapeNames)]
		kind := i%4 == 3
		reserved := i%16 == 9
		old, nw, rel := c02GenRel(cr, shape, kind, reserved)
		cls := "rel/" + shape
		if shape == "" {
			cls = "rel/random"
		}
		if kind {
			cls += "+kindswap"
		}
		if reserved {
			cls += "+reserved"
		}
		opt := (i/len(c02ShapeNames))%2 == 1
		if opt {
			cls += "/opt"
		}
		if err := add(c02Spec{class: cls, old: old, nw: nw, rel: rel, optimize: opt, corr: true}); err != nil {
			return err
		}
		idx++
	}
	// the relation drawn as a random function over a few short paths (model correspondence)
	n = c.N(48, 1000)
	for i := 0; i < n; i++ {
		cr := r.Fork()
		old, nw, rel := c02GenMap(cr)
		cls := "map"
		opt := i%4 == 3
		if opt {
			cls += "/opt"
		}
		if err := add(c02Spec{class: cls, old: old, nw: nw, rel: rel, optimize: opt, corr: true}); err != nil {
			return err
		}
		idx++
	}
	// a directory replaced by a symlink whose destination holds namesakes of the old subtree; clashing
	// transpositions next to entries that carry the temporary names (model correspondence)
	n = c.N(24, 400)
	for i := 0; i < n; i++ {
		cr := r.Fork()
		old, nw, rel := c02GenDirToLink(cr)
		cls := "dir->link"
		opt := i%4 == 3
		if opt {
			cls += "/opt"
		}
		if err := add(c02Spec{class: cls, old: old, nw: nw, rel: rel, optimize: opt, corr: true}); err != nil {
			return err
		}
		idx++
	}
	n = c.N(24, 400)
	for i := 0; i < n; i++ {
		cr := r.Fork()
		old, nw, rel := c02GenTmpNames(cr)
		cls := "tmpnames"
		opt := i%4 == 3
		if opt {
			cls += "/opt"
		}
		if err := add(c02Spec{class: cls, old: old, nw: nw, rel: rel, optimize: opt, corr: true}); err != nil {
			return err
		}
		idx++
	}
	// lib.GenPair, small files (model correspondence), with and without kind swaps
	n = c.N(20, 250)
	for i := 0; i < n; i++ {
		cr := r.Fork()
		ks := i%3 == 2
		old, nw, rel := lib.GenPair(cr, lib.PairOpts{MaxFiles: 5, MaxSize: 400, Links: true, KindSwap: ks})
		cls := "genpair-small"
		if ks {
			cls += "+kindswap"
		}
		opt := i%2 == 1
		if opt {
			cls += "/opt"
		}
		if err := add(c02Spec{class: cls, old: old, nw: nw, rel: rel, optimize: opt, corr: true}); err != nil {
			return err
		}
		idx++
	}
	// lib.GenPair at the real block size (oracle only), plain and optimized
	n = c.N(12, 120)
	for i := 0; i < n; i++ {
		cr := r.Fork()
		ks := i%4 == 3
		old, nw, rel := lib.GenPair(cr, lib.PairOpts{MaxFiles: 5, MaxSize: 4 * lib.BS, Links: true, KindSwap: ks})
		cls := "genpair-blocks"
		if ks {
			cls += "+kindswap"
		}
		opt := i%2 == 1
		if opt {
			cls += "/opt"
		}
		if err := add(c02Spec{class: cls, old: old, nw: nw, rel: rel, optimize: opt, corr: false}); err != nil {
			return err
		}
		idx++
	}
	// symlinks kept / added / removed / retargeted, mostly to another text for (nearly) the same destination
	// (model correspondence: the model compares destinations as interned strings, like the code)
	n = c.N(32, 500)
	for i := 0; i < n; i++ {
		cr := r.Fork()
		old, nw, rel := c02GenLinks(cr)
		cls := "links"
		opt := i%4 == 3
		if opt {
			cls += "/opt"
		}
		if err := add(c02Spec{class: cls, old: old, nw: nw, rel: rel, optimize: opt, corr: true}); err != nil {
			return err
		}
		idx++
	}
	// the cases are independent (own directories, own sub-seeds): run them on a few workers and
	// emit in generation order so that a seed reproduces the same file
	results := make([][]*lib.Case, len(specs))
	errs := make([]error, len(specs))
	var wg sync.WaitGroup
	next := make(chan int)
	for wkr := 0; wkr < 4; wkr++ {
		wg.Add(1)
		go func() {
			defer wg.Done()
			for i := range next {
				results[i], errs[i] = runC02Case(c, i, specs[i])
			}
		}()
	}
	for i := range specs {
		next <- i
	}
	close(next)
	wg.Wait()
	for i := range specs {
		if errs[i] != nil {
			return errs[i]
		}
		for _, cs := range results[i] {
			c.Out.Emit(cs)
		}
	}
	// last: the filesystem model itself against the real filesystem
	return runC02FS(c, fsr)
}
