package main

// C12, group "lru": bsdiff/lrufile against a plain in-memory reader, for every cache geometry
// (chunk size 1.., entries 1..) and arbitrary sequences of seeks and reads.  The underlying
// ReadSeeker records every chunk load it serves (a Seek and the Reads that follow it), which the
// model must reproduce.

import (
	"bytes"
	"fmt"
	"io"

	"github.com/itchio/wharf/bsdiff/lrufile"

	"verif/harness/lib"
)

// A load is a Seek followed by the Reads that continue from there: how many Read calls the cache
// needs to fill one chunk (one, or several as io.ReadFull issues when a Read comes back short or
// when it probes for the end of the file) is not an observable of the property.
type c12RecReader struct {
	r      *bytes.Reader
	pos    int64
	loads  []int64 // offset of every load served
	sizes  []int   // bytes asked for by the first Read of the load
	inLoad bool    // a Read has been served since the last Seek
}

func (rr *c12RecReader) Read(p []byte) (int, error) {
	if !rr.inLoad {
		rr.loads = append(rr.loads, rr.pos)
		rr.sizes = append(rr.sizes, len(p))
		rr.inLoad = true
	}
	n, err := rr.r.Read(p)
	rr.pos += int64(n)
	return n, err
}

func (rr *c12RecReader) Seek(off int64, whence int) (int64, error) {
	p, err := rr.r.Seek(off, whence)
	if err == nil {
		rr.pos = p
		rr.inLoad = false
	}
	return p, err
}

type c12LruOp struct {
	Read   bool
	N      int   // read length
	Off    int64 // seek offset
	Whence int
}

type c12LruRes struct {
	Read bool
	Data []byte
	St   int   // 0 nil, 1 io.EOF, 2 other error
	Pos  int64 // value returned by Seek
}

func c12ErrClass(err error) int {
	switch {
	case err == nil:
		return 0
	case err == io.EOF:
		return 1
	default:
		return 2
	}
}

func c12LruOps(r *lib.Rng, size, chunk, entries, nops int) ([]c12LruOp, string) {
	var ops []c12LruOp
	pat := r.Intn(5)
	name := []string{"random", "sequential", "thrash", "bigreads", "boundaries"}[pat]
	for i := 0; i < nops; i++ {
		switch pat {
		case 1: // sequential reads of assorted sizes, occasionally rewinding
			if r.Chance(1, 8) {
				ops = append(ops, c12LruOp{Off: int64(r.Range(0, size)), Whence: 0})
			} else {
				ops = append(ops, c12LruOp{Read: true, N: r.Range(0, chunk+2)})
			}
		case 2: // cycle over entries+1 chunks so that every access evicts
			k := i % (entries + 1)
			off := k * chunk
			if off > size {
				off = size
			}
			ops = append(ops, c12LruOp{Off: int64(off), Whence: 0}, c12LruOp{Read: true, N: r.Range(1, chunk)})
		case 3: // reads spanning more chunks than the cache holds
			if r.Chance(1, 3) {
				ops = append(ops, c12LruOp{Off: int64(r.Range(0, size)), Whence: 0})
			}
			ops = append(ops, c12LruOp{Read: true, N: r.Range(chunk*entries, chunk*(entries+2)+1)})
		case 4: // seeks to chunk boundaries and the end, reads ending exactly on boundaries
			b := r.Range(0, size/chunk+1) * chunk
			if r.Chance(1, 4) {
				b = size
			}
			if b > size {
				b = size
			}
			ops = append(ops, c12LruOp{Off: int64(b + r.Range(-1, 1)), Whence: 0})
			ops = append(ops, c12LruOp{Read: true, N: []int{chunk, chunk - 1, chunk + 1, 2 * chunk, 1, 0}[r.Intn(6)]})
		default:
			if r.Chance(2, 5) {
				wh := r.Intn(3)
				if r.Chance(1, 12) {
					wh = 3 + r.Intn(2) // invalid whence
				}
				var off int
				switch wh {
				case 0:
					off = r.Range(-2, size+2)
				case 1:
					off = r.Range(-size/2-1, size/2+1)
				default:
					off = r.Range(-size-2, 2)
				}
				ops = append(ops, c12LruOp{Off: int64(off), Whence: wh})
			} else {
				ops = append(ops, c12LruOp{Read: true, N: r.Range(0, 3*chunk+2)})
			}
		}
	}
	return ops, name
}

func c12LruCases(c *Ctx) error {
	r := c.Rng.Fork()
	n := c12N(c, 300, 8000, 3000)
	// caches are kept and Reset between cases, so that storage holds stale data of earlier files
	pool := map[[2]int]lrufile.File{}
	for i := 0; i < n; i++ {
		cr := r.Fork()
		chunk, entries := cr.Range(1, 8), cr.Range(1, 4)
		maxSize := 40
		if c.Thorough() && cr.Chance(1, 4) {
			chunk, entries, maxSize = cr.Range(1, 64), cr.Range(1, 8), 600
		}
		size := cr.Range(0, maxSize)
		if cr.Chance(1, 3) { // sizes on and around chunk multiples
			size = max(0, chunk*cr.Range(0, entries+3)+cr.Range(-1, 1))
		}
		file := cr.Bytes(size)
		if cr.Chance(1, 3) {
			for j := range file {
				file[j] = byte(j + 1)
			}
		}
		ops, pat := c12LruOps(cr, size, chunk, entries, cr.Range(1, 30))
		key := [2]int{chunk, entries}
		lf := pool[key]
		fresh := lf == nil || cr.Chance(1, 3)
		var results []c12LruRes
		rec := &c12RecReader{r: bytes.NewReader(file)}
		cls, msg := lib.Guard(func() error {
			if fresh {
				var err error
				lf, err = lrufile.New(int64(chunk), entries)
				if err != nil {
					return err
				}
				pool[key] = lf
			}
			if err := lf.Reset(rec); err != nil {
				return err
			}
			for _, op := range ops {
				if op.Read {
					buf := make([]byte, op.N)
					for j := range buf {
						buf[j] = 0xEE
					}
					k, err := lf.Read(buf)
					if k < 0 || k > len(buf) {
						return fmt.Errorf("Read returned n=%d for a buffer of %d", k, len(buf))
					}
					results = append(results, c12LruRes{Read: true, Data: append([]byte(nil), buf[:k]...), St: c12ErrClass(err)})
				} else {
					p, err := lf.Seek(op.Off, op.Whence)
					results = append(results, c12LruRes{Pos: p, St: c12ErrClass(err)})
				}
			}
			return nil
		})
		if cls == "panic" {
			delete(pool, key)
		}
		// oracle: a plain in-memory reader
		oracle := ""
		if cls != "ok" {
			oracle = "lrufile " + cls + ": " + msg
		}
		po := int64(0)
		for j := 0; oracle == "" && j < len(results); j++ {
			op, res := ops[j], results[j]
			if op.Read {
				end := min(po+int64(op.N), int64(size))
				want := file[po:end]
				switch {
				case res.St == 2:
					oracle = fmt.Sprintf("op %d: read of %d at %d failed with an internal error", j, op.N, po)
				case !bytes.Equal(res.Data, want):
					oracle = fmt.Sprintf("op %d: read of %d at %d returned %v, the file has %v", j, op.N, po, res.Data, want)
				case len(want) < op.N && res.St != 1:
					oracle = fmt.Sprintf("op %d: short read (%d of %d) at %d without io.EOF", j, len(want), op.N, po)
				case res.St == 1 && po+int64(len(want)) != int64(size):
					oracle = fmt.Sprintf("op %d: io.EOF at %d but the file has %d bytes", j, po+int64(len(want)), size)
				case res.St == 1 && len(want) == op.N && op.N == 0:
					oracle = fmt.Sprintf("op %d: io.EOF for an empty read", j)
				}
				po += int64(len(want))
			} else {
				var tgt int64
				valid := true
				switch op.Whence {
				case io.SeekStart:
					tgt = op.Off
				case io.SeekCurrent:
					tgt = po + op.Off
				case io.SeekEnd:
					tgt = int64(size) + op.Off
				default:
					valid = false
				}
				if valid && tgt >= 0 && tgt <= int64(size) {
					if res.St != 0 || res.Pos != tgt {
						oracle = fmt.Sprintf("op %d: seek(%d,%d) from %d returned (%d, err class %d), want %d", j, op.Off, op.Whence, po, res.Pos, res.St, tgt)
					}
					po = tgt
				} else {
					if res.St == 0 {
						oracle = fmt.Sprintf("op %d: invalid seek(%d,%d) from %d in a file of %d accepted", j, op.Off, op.Whence, po, size)
					} else if res.Pos < 0 || res.Pos > int64(size) {
						oracle = fmt.Sprintf("op %d: failed seek reports position %d", j, res.Pos)
					}
					po = res.Pos // the reported position is where reading continues
				}
			}
		}
		if oracle == "" {
			// the cache only ever asks the underlying file for whole chunks at chunk boundaries
			for j, l := range rec.loads {
				if l%int64(chunk) != 0 || rec.sizes[j] != chunk {
					oracle = fmt.Sprintf("underlying read %d: %d bytes at %d is not a chunk (size %d)", j, rec.sizes[j], l, chunk)
					break
				}
			}
		}
		opsC := make([]string, len(ops))
		opsJ := make([]string, len(ops))
		for j, op := range ops {
			if op.Read {
				opsC[j] = fmt.Sprintf("ORead %d", op.N)
				opsJ[j] = fmt.Sprintf("read %d", op.N)
			} else {
				opsC[j] = fmt.Sprintf("OSeek %s %d", c12Z(op.Off), op.Whence)
				opsJ[j] = fmt.Sprintf("seek %d,%d", op.Off, op.Whence)
			}
		}
		resC := make([]string, len(results))
		resJ := make([]string, len(results))
		for j, res := range results {
			if res.Read {
				resC[j] = fmt.Sprintf("ZRead %s %d", c12B(res.Data), res.St)
				resJ[j] = fmt.Sprintf("%v/%d", res.Data, res.St)
			} else {
				resC[j] = fmt.Sprintf("ZSeek %s %d", c12Z(res.Pos), res.St)
				resJ[j] = fmt.Sprintf("@%d/%d", res.Pos, res.St)
			}
		}
		loadsC := make([]string, len(rec.loads))
		for j, l := range rec.loads {
			loadsC[j] = c12Z(l)
		}
		evict := len(rec.loads) > entries
		c.Out.Emit(&lib.Case{Group: "lru", Class: fmt.Sprintf("lru/%s/evict=%v", pat, evict), Nontrivial: evict && len(ops) >= 3,
			Input:  map[string]interface{}{"chunk": chunk, "entries": entries, "file": c12BytesJ(file), "ops": opsJ, "freshCache": fresh},
			Obs:    map[string]interface{}{"class": cls, "results": resJ, "loads": rec.loads},
			Oracle: oracle,
			Coq: fmt.Sprintf("Lru $ID%%N %d %d %s %s %d %s %s", chunk, entries, c12B(file), lib.CoqList(opsC),
				c12ClassCode[cls], lib.CoqList(resC), lib.CoqList(loadsC))})
	}
	return nil
}
