package main

// C18 — writing through a validating pool checks every block regardless of write sizes.
// Groups: "drip"  : drip.Writer alone at small buffer sizes with a closure failing at block k
//         "vperr" : pwr.ValidatingPool in error mode (real 64 KiB blocks)
//         "vpwnd" : pwr.ValidatingPool in wound mode, optionally through pwr.AggregateWounds

import (
	"bytes"
	"context"
	"fmt"
	"strings"

	"github.com/itchio/headway/state"
	"github.com/itchio/wharf/pwr"
	"github.com/itchio/wharf/pwr/drip"

	"verif/harness/lib"
)

func init() { register("C18", runC18) }

const bs64 = 65536

// structured content: every block has distinct first/fill/last bytes so that a shifted or
// truncated block can never compare equal by accident, and the RLE stays short.
func structuredContent(r *lib.Rng, size int) []byte {
	b := make([]byte, size)
	for off := 0; off < size; off += bs64 {
		end := off + bs64
		if end > size {
			end = size
		}
		a, f, c := byte(r.Intn(256)), byte(r.Intn(256)), byte(r.Intn(256))
		for c == f {
			c++
		}
		for a == f {
			a++
		}
		for i := off; i < end; i++ {
			b[i] = f
		}
		b[off] = a
		b[end-1] = c
	}
	return b
}

var c18Sizes = []int{0, 1, 2, bs64 - 1, bs64, bs64 + 1, 2*bs64 - 1, 2 * bs64, 2*bs64 + 1, 3*bs64 + 5, 100, 16384, 3 * bs64}

// slicing returns the sizes of the Write calls for n bytes
func slicing(r *lib.Rng, n int) ([]int, string) {
	kind := r.Intn(9)
	var out []int
	name := ""
	fixed := func(c int) {
		for rem := n; rem > 0; rem -= c {
			if rem < c {
				out = append(out, rem)
				break
			}
			out = append(out, c)
		}
	}
	switch kind {
	case 0:
		name = "one"
		if n > 0 {
			out = []int{n}
		}
	case 1:
		name = "bs-1"
		fixed(bs64 - 1)
	case 2:
		name = "bs"
		fixed(bs64)
	case 3:
		name = "bs+1"
		fixed(bs64 + 1)
	case 4:
		name = "32k"
		fixed(32768)
	case 5:
		name = "2bs+3"
		fixed(2*bs64 + 3)
	case 6:
		name = "16k-1"
		fixed(16383)
	case 7:
		// land exactly on / one off every block boundary, with 1-byte writes around it
		name = "boundary"
		pos := 0
		for pos < n {
			next := (pos/bs64 + 1) * bs64
			d := []int{next - pos - 1, 1, 1}[r.Intn(3)]
			if r.Chance(1, 3) {
				d = next - pos + r.Range(0, 1)
			}
			if d <= 0 {
				d = 1
			}
			if pos+d > n {
				d = n - pos
			}
			out = append(out, d)
			pos += d
		}
	default:
		name = "random"
		pos := 0
		for pos < n {
			d := []int{1, 2, 100, 4096, 32768, 65535, 65536, 65537, 140000}[r.Intn(9)]
			if r.Chance(1, 2) {
				d = r.Range(1, 70000)
			}
			if pos+d > n {
				d = n - pos
			}
			out = append(out, d)
			pos += d
		}
	}
	if len(out) > 60 { // keep the model evaluation cheap
		out = nil
		fixedN := (n + 59) / 60
		for rem := n; rem > 0; rem -= fixedN {
			if rem < fixedN {
				out = append(out, rem)
				break
			}
			out = append(out, fixedN)
		}
		name += "/coarsened"
	}
	// occasionally add empty writes
	if r.Chance(1, 6) {
		at := r.Intn(len(out) + 1)
		out = append(out[:at], append([]int{0}, out[at:]...)...)
		name += "+empty"
	}
	return out, name
}

// weakDamageSomewhere applies a weak-hash-related damage (c18_weak.go) to one block of w
func weakDamageSomewhere(r *lib.Rng, w []byte, kind string) (string, []c18Edit, bool) {
	if len(w) == 0 {
		return "", nil, false
	}
	nb := (len(w) + bs64 - 1) / bs64
	j := r.Intn(nb)
	if r.Chance(1, 3) {
		j = nb - 1 // the (possibly short) last block
	}
	lo, hi := j*bs64, min((j+1)*bs64, len(w))
	for _, k := range []string{kind, "121"} {
		if tag, edits, ok := weakDamage(r, w, lo, hi, k); ok {
			return tag, edits, true
		}
	}
	return "", nil, false
}

// damage derives the written content from the signed one; weakBias raises the share of damages
// that keep the weak hash of the damaged block
func damageContent(r *lib.Rng, signed []byte, weakBias bool) ([]byte, string, []c18Edit) {
	w := append([]byte(nil), signed...)
	var tags []string
	var edits []c18Edit
	k := r.Intn(10)
	if weakBias && r.Chance(1, 2) {
		k = 8 + r.Intn(2)
	}
	flip := func() {
		if len(w) == 0 {
			return
		}
		nb := (len(w) + bs64 - 1) / bs64
		j := r.Intn(nb)
		lo, hi := j*bs64, (j+1)*bs64
		if hi > len(w) {
			hi = len(w)
		}
		p := []int{lo, hi - 1, lo + (hi-lo)/2}[r.Intn(3)]
		w[p] ^= byte(1 << uint(r.Intn(8)))
		tags = append(tags, fmt.Sprintf("flip@%d", p))
	}
	switch k {
	case 0:
		tags = append(tags, "same")
	case 1:
		flip()
	case 2:
		flip()
		flip()
		flip()
	case 3: // truncate
		if len(w) > 0 {
			cands := []int{0, 1, len(w) - 1, (len(w) / bs64) * bs64, (len(w)/bs64)*bs64 - 1, (len(w)/bs64)*bs64 + 1, r.Intn(len(w))}
			n := cands[r.Intn(len(cands))]
			if n < 0 {
				n = 0
			}
			if n > len(w) {
				n = len(w)
			}
			w = w[:n]
			tags = append(tags, fmt.Sprintf("trunc%d", n))
		}
	case 4, 5: // extend
		ext := []int{1, 5, bs64 - len(w)%bs64, bs64 - len(w)%bs64 - 1, bs64 - len(w)%bs64 + 1, bs64, 2*bs64 + 7}[r.Intn(7)]
		if ext <= 0 {
			ext = 1
		}
		v := byte(r.Intn(256))
		for i := 0; i < ext; i++ {
			w = append(w, v)
		}
		tags = append(tags, fmt.Sprintf("ext%d", ext))
		if k == 5 {
			flip()
		}
	case 6: // truncate at block boundary and flip
		n := (len(w) / bs64) * bs64
		w = w[:n]
		tags = append(tags, fmt.Sprintf("truncb%d", n))
		flip()
	case 7: // replace everything
		n := c18Sizes[r.Intn(len(c18Sizes))]
		w = structuredContent(r, n)
		tags = append(tags, "replace")
	case 8, 9: // a block that differs from the signed one but keeps (part of) its weak hash
		tag, ed, ok := weakDamageSomewhere(r, w, c18WeakKinds[r.Intn(len(c18WeakKinds))])
		if !ok { // block too small (< 3 bytes) or bytes at their bounds
			flip()
			break
		}
		tags, edits = append(tags, tag), ed
		switch {
		case k == 9 && r.Chance(1, 2):
			flip() // an ordinary damage as well, possibly in the same block
		case k == 9: // a second weak-hash-preserving block
			if tag2, ed2, ok2 := weakDamageSomewhere(r, w, c18WeakKinds[r.Intn(4)]); ok2 {
				tags, edits = append(tags, tag2), append(edits, ed2...)
			}
		}
	}
	return w, strings.Join(tags, ","), edits
}

func coqWrites(sizes []int) string {
	s := make([]string, len(sizes))
	for i, x := range sizes {
		s[i] = fmt.Sprint(x)
	}
	return "([" + strings.Join(s, ";") + "]%N)"
}

func woundCoq(w *pwr.Wound) string {
	k := map[pwr.WoundKind]string{pwr.WoundKind_FILE: "WFile", pwr.WoundKind_SYMLINK: "WSymlink", pwr.WoundKind_DIR: "WDir", pwr.WoundKind_CLOSED_FILE: "WClosed"}[w.Kind]
	return fmt.Sprintf("mkwound %s %s %s %s", k, lib.CoqZ(w.Index), lib.CoqZ(w.Start), lib.CoqZ(w.End))
}

type woundJ struct {
	Kind  string `json:"kind"`
	Index int64  `json:"index"`
	Start int64  `json:"start"`
	End   int64  `json:"end"`
}

func woundsJ(ws []*pwr.Wound) []woundJ {
	var out []woundJ
	for _, w := range ws {
		out = append(out, woundJ{w.Kind.String(), w.Index, w.Start, w.End})
	}
	return out
}

func blocksOf(b []byte, bs int) [][]byte {
	var out [][]byte
	for off := 0; off < len(b); off += bs {
		end := off + bs
		if end > len(b) {
			end = len(b)
		}
		out = append(out, b[off:end])
	}
	return out
}

func runC18(c *Ctx) error {
	if err := c18Drip(c); err != nil {
		return err
	}
	return c18VPool(c)
}

// ---- drip.Writer alone ----

type sinkRec struct{ blocks [][]byte }

func (s *sinkRec) Write(b []byte) (int, error) {
	s.blocks = append(s.blocks, append([]byte(nil), b...))
	return len(b), nil
}

func c18Drip(c *Ctx) error {
	r := c.Rng.Fork()
	n := c.N(150, 1500)
	for i := 0; i < n; i++ {
		bs := r.Range(1, 6)
		total := r.Range(0, 4*bs+2)
		data := make([]byte, total)
		for j := range data {
			data[j] = byte(r.Intn(3))
		}
		// slicing: arbitrary composition
		var sizes []int
		for rem := total; rem > 0; {
			d := r.Range(0, rem)
			if r.Chance(2, 3) {
				d = r.Range(1, min(rem, bs+1))
			}
			sizes = append(sizes, d)
			rem -= d
		}
		failAt := -1
		if r.Chance(1, 2) {
			failAt = r.Intn(total/bs + 2)
		}
		sink := &sinkRec{}
		idx := 0
		dw := &drip.Writer{Buffer: make([]byte, bs), Writer: sink, Validate: func(b []byte) error {
			me := idx
			idx++
			if me == failAt {
				return fmt.Errorf("validate: block %d rejected", me)
			}
			return nil
		}}
		okWrites := 0
		outcome := "Done"
		pos := 0
		var writes [][]byte
		for _, sz := range sizes {
			writes = append(writes, data[pos:pos+sz])
			pos += sz
		}
		for _, w := range writes {
			nw, err := dw.Write(w)
			if err != nil {
				outcome = "Failed"
				break
			}
			if nw != len(w) {
				outcome = "Short"
				break
			}
			okWrites++
		}
		if outcome == "Done" {
			if err := dw.Close(); err != nil {
				outcome = "Failed"
			}
		}
		// oracle: blocks of the data up to the failing block, failure iff failAt < #blocks
		exp := blocksOf(data, bs)
		oracle := ""
		wantFail := failAt >= 0 && failAt < len(exp)
		wantSink := exp
		if wantFail {
			wantSink = exp[:failAt]
		}
		if (outcome == "Failed") != wantFail {
			oracle = fmt.Sprintf("outcome %s but block %d of %d rejected", outcome, failAt, len(exp))
		} else if len(sink.blocks) != len(wantSink) {
			oracle = fmt.Sprintf("inner writer got %d blocks, want %d", len(sink.blocks), len(wantSink))
		} else {
			for j := range wantSink {
				if !bytes.Equal(wantSink[j], sink.blocks[j]) {
					oracle = fmt.Sprintf("block %d relayed as %v want %v", j, sink.blocks[j], wantSink[j])
					break
				}
			}
		}
		if oracle == "" && wantFail {
			// the failing call is the one that completes block failAt
			endOff := (failAt + 1) * bs
			wantOk := 0
			if endOff > total { // short last block: fails at Close
				wantOk = len(writes)
			} else {
				acc := 0
				for _, sz := range sizes {
					if acc+sz >= endOff {
						break
					}
					acc += sz
					wantOk++
				}
			}
			if okWrites != wantOk {
				oracle = fmt.Sprintf("%d Write calls succeeded, want %d", okWrites, wantOk)
			}
		}
		ws := make([]string, len(writes))
		for j, w := range writes {
			ws[j] = lib.CoqBytes(w)
		}
		sk := make([]string, len(sink.blocks))
		for j, b := range sink.blocks {
			sk[j] = lib.CoqBytes(b)
		}
		fa := "None"
		if failAt >= 0 {
			fa = fmt.Sprintf("(Some %d%%nat)", failAt)
		}
		c.Out.Emit(&lib.Case{Group: "drip", Class: fmt.Sprintf("drip/bs%d/fail=%v", bs, failAt >= 0),
			Nontrivial: len(sizes) >= 2 && total > bs,
			Input:      map[string]interface{}{"bs": bs, "data": lib.Ints(data), "writes": sizes, "failAt": failAt},
			Obs:        map[string]interface{}{"outcome": outcome, "okWrites": okWrites, "sink": lib.IntsL(sink.blocks)},
			Oracle:     oracle,
			Coq: fmt.Sprintf("($ID%%N, %d%%nat, %s, %s, (%s, %d%%nat, %s))", bs, fa, lib.CoqList(ws),
				map[string]string{"Done": "Done", "Failed": "Failed", "Short": "OutOfFuel"}[outcome], okWrites, lib.CoqList(sk))})
	}
	return nil
}

// ---- ValidatingPool ----

// c18Spec is one validating-pool case
type c18Spec struct {
	signed, written, other []byte
	content, dmg, slname   string
	edits                  []c18Edit
	sizes                  []int
	mode                   int  // 0 error, 1 wound raw, 2 wound + aggregate
	route                  int  // how the bytes reach the pool's writer (c18_bowl.go); 0 = the writer itself
	closeAfterFail         bool // error mode, routes writer/entry: the caller closes the writer after a failed Write
	maxSize, fileIndex     int64
	model                  bool // false: oracle only (content too irregular for a run-length encoded Coq term)
	prefix                 string
}

func c18VPool(c *Ctx) error {
	// fixed corpus first: inputs that a previously missed faulty variant needed (weak-hash-preserving
	// damages), in every mode; their content does not depend on the seed
	for _, s := range c18Corpus() {
		if err := c18RunVP(c, s); err != nil {
			return err
		}
	}
	r := c.Rng.Fork()
	n := c.N(70, 700)
	for i := 0; i < n; i++ {
		size := c18Sizes[r.Intn(len(c18Sizes))]
		if r.Chance(1, 4) {
			size = r.Range(0, 3*bs64)
		}
		s := &c18Spec{model: true, prefix: "vp", content: "structured"}
		if r.Chance(1, 3) {
			s.content = "randomish"
			s.signed = randomishContent(r, size)
		} else {
			s.signed = structuredContent(r, size)
		}
		s.written, s.dmg, s.edits = damageContent(r, s.signed, false)
		s.sizes, s.slname = slicing(r, len(s.written))
		s.mode = r.Intn(3)
		s.maxSize = int64([]int{bs64, 2 * bs64, 3*bs64 - 1, 4 << 20}[r.Intn(4)])
		s.other = structuredContent(r, []int{0, 10, bs64 + 3}[r.Intn(3)])
		s.fileIndex = int64(r.Intn(2))
		if err := c18RunVP(c, s); err != nil {
			return err
		}
	}
	// oracle only: fully random content (64 Ki runs per block would make the Coq term far too big),
	// half of the damages weak-hash related
	ro := c.Rng.Fork()
	for i, n := 0, c.N(60, 600); i < n; i++ {
		size := c18Sizes[ro.Intn(len(c18Sizes))]
		if ro.Chance(1, 3) {
			size = ro.Range(0, 3*bs64)
		}
		s := &c18Spec{model: false, prefix: "vp-rand", content: "random"}
		s.signed = ro.Bytes(size)
		s.written, s.dmg, s.edits = damageContent(ro, s.signed, true)
		s.sizes, s.slname = slicing(ro, len(s.written))
		s.mode = ro.Intn(3)
		s.maxSize = int64([]int{bs64, 2 * bs64, 3*bs64 - 1, 4 << 20}[ro.Intn(4)])
		s.other = ro.Bytes([]int{0, 10, bs64 + 3}[ro.Intn(3)])
		s.fileIndex = int64(ro.Intn(2))
		if err := c18RunVP(c, s); err != nil {
			return err
		}
	}
	// through the pool bowl (entry writer / transposition): fixed cases, then a random stream; placed
	// last so that the streams above stay what they were for a given seed
	for _, s := range c18BowlCorpus() {
		if err := c18RunVP(c, s); err != nil {
			return err
		}
	}
	return c18BowlStream(c)
}

// c18Corpus: weak-hash-preserving damages at fixed places in every mode, then fixed boundary cases
func c18Corpus() []*c18Spec {
	r := lib.NewRng(0xC18)
	type scen struct {
		size   int
		rnd    bool
		block  int // damaged block, -1 = last
		kind   string
		flip0  bool // plus an ordinary flip in block 0
		slices int
	}
	scens := []scen{
		{3*bs64 + 1234, false, 1, "121", false, 32768},
		{3*bs64 + 1234, true, -1, "121", true, 1 << 20},
		{2 * bs64, false, 1, "wrap", false, bs64 + 1},
		{bs64 - 1, true, 0, "2swap", false, 5000},
		{2*bs64 + 100, true, -1, "solve", false, bs64},
		{bs64, false, 0, "solve", false, 16383},
	}
	var out []*c18Spec
	for mode := 0; mode < 3; mode++ {
		for _, sc := range scens {
			s := &c18Spec{model: true, prefix: "vp-corpus", content: "structured", mode: mode, maxSize: 2 * bs64, slname: fmt.Sprint("fixed", sc.slices)}
			if sc.rnd {
				s.content = "randomish"
				s.signed = randomishContent(r, sc.size)
			} else {
				s.signed = structuredContent(r, sc.size)
			}
			// keep the fill bytes away from 0/255 so that the edit is always possible
			for i := range s.signed {
				if s.signed[i] < 3 || s.signed[i] > 252 {
					s.signed[i] = 100 + s.signed[i]%7
				}
			}
			s.written = append([]byte(nil), s.signed...)
			nb := (sc.size + bs64 - 1) / bs64
			j := sc.block
			if j < 0 {
				j = nb - 1
			}
			var tags []string
			if sc.flip0 {
				s.written[3] ^= 1
				tags = append(tags, "flip@3")
			}
			tag, ed, ok := weakDamage(r, s.written, j*bs64, min((j+1)*bs64, sc.size), sc.kind)
			if !ok {
				tag, ed, ok = weakDamage(r, s.written, j*bs64, min((j+1)*bs64, sc.size), "121")
			}
			if !ok {
				continue
			}
			s.dmg, s.edits = strings.Join(append([]string{tag}, tags...), ","), ed
			for rem := sc.size; rem > 0; rem -= sc.slices {
				s.sizes = append(s.sizes, min(rem, sc.slices))
			}
			s.other = structuredContent(r, 10)
			s.fileIndex = int64(mode % 2)
			out = append(out, s)
		}
	}
	// boundary classes of the quantifier text that the random stream reaches only now and then:
	// a file that is empty in the signature but written to, extra bytes inside / up to the end of the
	// last signed block, a differing block that is not the first whole block of a single large write
	type bscen struct {
		signed int
		ext    int // bytes appended
		flipAt int // -1: none
		slices int
		modes  []int
	}
	for _, sc := range []bscen{
		{0, 1, -1, 1 << 20, []int{0, 1, 2}},
		{0, bs64 + 1, -1, 32768, []int{0, 1}},
		{100, 5, -1, 1 << 20, []int{0, 1, 2}},
		{bs64 + 5, bs64 - 5, -1, bs64, []int{0, 1}},
		{3 * bs64, 0, 2*bs64 + 7, 1 << 20, []int{0, 1}},
		{3*bs64 + 9, 0, bs64, 1 << 20, []int{0, 2}},
	} {
		for _, mode := range sc.modes {
			s := &c18Spec{model: true, prefix: "vp-corpus", content: "structured", mode: mode, maxSize: 2 * bs64, slname: fmt.Sprint("fixed", sc.slices)}
			s.signed = structuredContent(r, sc.signed)
			s.written = append([]byte(nil), s.signed...)
			var tags []string
			if sc.ext > 0 {
				for i := 0; i < sc.ext; i++ {
					s.written = append(s.written, 0x5a)
				}
				tags = append(tags, fmt.Sprintf("ext%d", sc.ext))
			}
			if sc.flipAt >= 0 {
				s.written[sc.flipAt] ^= 0x10
				tags = append(tags, fmt.Sprintf("flip@%d", sc.flipAt))
			}
			s.dmg = strings.Join(tags, ",")
			for rem := len(s.written); rem > 0; rem -= sc.slices {
				s.sizes = append(s.sizes, min(rem, sc.slices))
			}
			s.other = structuredContent(r, 10)
			s.fileIndex = int64(mode % 2)
			out = append(out, s)
		}
	}
	return out
}

func c18RunVP(c *Ctx, s *c18Spec) error {
	signed, written, other, sizes, mode, maxSize, fileIndex, dmg, slname := s.signed, s.written, s.other, s.sizes, s.mode, s.maxSize, s.fileIndex, s.dmg, s.slname
	// signature over a two-file container so that the file index matters
	files := [][]byte{other, signed}
	if fileIndex == 0 {
		files = [][]byte{signed, other}
	}
	src := lib.NewMemPool(files)
	hashes, err := pwr.ComputeSignature(context.Background(), src.Container, src, &state.Consumer{})
	if err != nil {
		return err
	}
	sig := &pwr.SignatureInfo{Container: src.Container, Hashes: hashes}
	inner := lib.NewMemPool(files)
	vp := &pwr.ValidatingPool{Pool: inner, Container: src.Container, Signature: sig}
	var got, raw []*pwr.Wound // raw: mode 2 only, what the validator handed to the aggregator
	var done chan bool
	if mode >= 1 {
		vp.Wounds = make(chan *pwr.Wound)
		done = make(chan bool)
		go func() {
			for w := range vp.Wounds {
				got = append(got, w)
			}
			done <- true
		}()
		if mode == 2 {
			// the markers are also recorded as they enter the aggregator (copies: it edits them in place)
			vp.WoundsFilter = func(ws chan *pwr.Wound) chan *pwr.Wound {
				agg := pwr.AggregateWounds(ws, maxSize)
				in := make(chan *pwr.Wound)
				go func() {
					for w := range in {
						raw = append(raw, &pwr.Wound{Kind: w.Kind, Index: w.Index, Start: w.Start, End: w.End})
						agg <- w
					}
					close(agg)
				}()
				return in
			}
		}
	}
	// the bytes reach the pool's writer directly or through the pool bowl (c18_bowl.go); `sizes` becomes
	// the Write calls as issued on that route
	outcome, okWrites, sizes, err := c18Deliver(vp, s.route, fileIndex, written, other, sizes, mode >= 1, s.closeAfterFail)
	if err != nil {
		return err
	}
	if mode >= 1 {
		close(vp.Wounds)
		<-done
	}

	sb := blocksOf(signed, bs64)
	wb := blocksOf(written, bs64)
	oracle := ""
	class := c18Class(s)
	input := map[string]interface{}{"route": c18RouteNames[s.route], "signedSize": len(signed), "writtenSize": len(written), "content": s.content, "damage": dmg, "slicing": slname, "writes": sizes, "mode": mode, "fileIndex": fileIndex, "maxSize": maxSize}
	if s.closeAfterFail && mode == 0 {
		input["closeAfterFail"] = true
	}
	if len(s.edits) > 0 {
		input["edits"] = s.edits // bytes changed by a weak-hash related damage: offset in the file, signed value, written value
	}
	// oracle-only cases carry no Coq term: the pipeline then skips the model comparison
	emit := func(cs *lib.Case) {
		if !s.model {
			cs.Group, cs.Coq = "", ""
			cs.Key = lib.Digest(append(append([]byte(fmt.Sprint(input)), signed...), written...))
		}
		c.Out.Emit(cs)
	}
	if mode == 0 {
		bad := -1
		for j := range wb {
			if j >= len(sb) || !bytes.Equal(sb[j], wb[j]) {
				bad = j
				break
			}
		}
		innerBytes := inner.WrittenBytes(fileIndex)
		if bad < 0 {
			if outcome != "Done" {
				oracle = "data equal to the signed content (or a block-aligned prefix) was rejected"
			} else if !bytes.Equal(innerBytes, written) {
				oracle = "inner pool did not receive the written bytes unchanged"
			}
		} else {
			if outcome != "Failed" {
				oracle = fmt.Sprintf("block %d differs from the signed block but no call failed", bad)
			} else if !bytes.Equal(innerBytes, written[:bad*bs64]) {
				oracle = fmt.Sprintf("inner pool received %d bytes, want exactly the %d bytes before block %d", len(innerBytes), bad*bs64, bad)
			} else {
				endOff := (bad + 1) * bs64
				wantOk := 0
				if endOff > len(written) {
					wantOk = len(sizes)
				} else {
					acc := 0
					for _, sz := range sizes {
						if acc+sz >= endOff {
							break
						}
						acc += sz
						wantOk++
					}
				}
				if okWrites != wantOk {
					oracle = fmt.Sprintf("%d Write calls succeeded before the failure, want %d", okWrites, wantOk)
				}
			}
		}
		cs := &lib.Case{Group: "vperr", Class: class, Nontrivial: len(sizes) >= 2 && len(written) > bs64,
			Input: input, Obs: map[string]interface{}{"outcome": outcome, "okWrites": okWrites, "innerBytes": len(innerBytes)}, Oracle: oracle}
		if oracle != "" && c18MatchCloseAfterReject(s, outcome, bad, innerBytes) {
			// known finding; the model describes a writer that is left alone after a failed Write, so the
			// case is judged by the oracle only
			cs.Finding = c18FindingCloseAfterReject
			s.model = false
		}
		if s.model {
			var sk []string
			for _, b := range inner.Written[fileIndex] {
				sk = append(sk, lib.ToRle(b).Coq())
			}
			cs.Coq = fmt.Sprintf("($ID%%N, %s, %s, %s, (%s, %d%%nat, %s))", lib.ToRle(signed).Coq(), lib.ToRle(written).Coq(), coqWrites(sizes),
				map[string]string{"Done": "Done", "Failed": "Failed", "Short": "OutOfFuel"}[outcome], okWrites, lib.CoqList(sk))
		}
		emit(cs)
		return nil
	}
	// wound mode oracle
	if outcome != "Done" {
		oracle = "wound mode must not fail a write: " + outcome
	}
	// expected raw markers
	type mark struct {
		file       bool
		start, end int64
	}
	var exp []mark
	for j := range wb {
		st := int64(j) * bs64
		if j < len(sb) {
			en := st + int64(len(sb[j]))
			exp = append(exp, mark{!bytes.Equal(sb[j], wb[j]), st, en})
		} else {
			exp = append(exp, mark{true, st, -1}) // beyond the signed blocks: a wound, extent unspecified
		}
	}
	checkRaw := func(got []*pwr.Wound) string {
		if len(got) != len(exp) {
			return fmt.Sprintf("%d markers for %d written blocks", len(got), len(exp))
		}
		for j := 0; j < len(exp); j++ {
			g := got[j]
			if g.Index != fileIndex {
				return fmt.Sprintf("marker %d names file %d, want %d", j, g.Index, fileIndex)
			} else if (g.Kind == pwr.WoundKind_FILE) != exp[j].file || (g.Kind != pwr.WoundKind_FILE && g.Kind != pwr.WoundKind_CLOSED_FILE) {
				return fmt.Sprintf("block %d: kind %s but differs=%v", j, g.Kind, exp[j].file)
			} else if g.Start != exp[j].start || (exp[j].end >= 0 && g.End != exp[j].end) {
				return fmt.Sprintf("block %d: marker [%d,%d) want [%d,%d)", j, g.Start, g.End, exp[j].start, exp[j].end)
			}
		}
		return ""
	}
	if oracle == "" {
		if mode == 1 {
			oracle = checkRaw(got)
		} else if e := checkRaw(raw); e != "" {
			oracle = "before aggregation: " + e
		} else {
			// aggregated: order by offset, healthy markers untouched, union of FILE ranges below the signed length preserved
			cover := func(ms []mark) []bool {
				cv := make([]bool, len(sb))
				for _, m := range ms {
					if m.file && m.end >= 0 {
						for b := m.start / bs64; b*bs64 < m.end && int(b) < len(cv); b++ {
							cv[b] = true
						}
					}
				}
				return cv
			}
			var gm []mark
			last := int64(-1)
			nClosed, nClosedExp := 0, 0
			for _, g := range got {
				if g.Index != fileIndex {
					oracle = "marker for another file"
				}
				if g.Start < last {
					oracle = fmt.Sprintf("markers out of offset order at %d", g.Start)
				}
				last = g.Start
				if g.Kind == pwr.WoundKind_CLOSED_FILE {
					nClosed++
				} else if g.Kind == pwr.WoundKind_FILE {
					gm = append(gm, mark{true, g.Start, g.End})
				} else {
					oracle = "unexpected kind " + g.Kind.String()
				}
			}
			for _, e := range exp {
				if !e.file {
					nClosedExp++
				}
			}
			if oracle == "" && nClosed != nClosedExp {
				oracle = fmt.Sprintf("%d healthy markers, want %d", nClosed, nClosedExp)
			}
			if oracle == "" {
				a, b := cover(gm), cover(exp)
				for j := range a {
					if a[j] != b[j] {
						oracle = fmt.Sprintf("after aggregation block %d wounded=%v, want %v", j, a[j], b[j])
						break
					}
				}
			}
			// wounds beyond the signed blocks must survive too: each one handed to the aggregator lies
			// inside an aggregated wound.  (Their extent is whatever the validator chose - for a signed
			// size that is an exact block multiple it is empty, and an empty wound right after a wounded
			// last signed block is legitimately absorbed by that wound.)
			for j := len(sb); oracle == "" && j < len(raw); j++ {
				found := false
				for _, m := range gm {
					if m.start <= raw[j].Start && raw[j].End <= m.end {
						found = true
					}
				}
				if !found {
					oracle = fmt.Sprintf("wound [%d,%d) of block %d beyond the signed count is in no aggregated wound", raw[j].Start, raw[j].End, j)
				}
			}
		}
	}
	var gs []string
	for _, g := range got {
		gs = append(gs, woundCoq(g))
	}
	agg := "None"
	if mode == 2 {
		agg = "(Some " + lib.CoqZ(maxSize) + ")"
	}
	cs := &lib.Case{Group: "vpwnd", Class: class, Nontrivial: len(sizes) >= 2 && len(written) > bs64,
		Input: input, Obs: map[string]interface{}{"outcome": outcome, "wounds": woundsJ(got)}, Oracle: oracle}
	if mode == 2 {
		cs.Obs.(map[string]interface{})["beforeAggregation"] = woundsJ(raw)
	}
	if s.model {
		cs.Coq = fmt.Sprintf("($ID%%N, %s, %s, %s, %s, %s, %s)", lib.CoqZ(fileIndex), lib.ToRle(signed).Coq(), lib.ToRle(written).Coq(), coqWrites(sizes), agg, lib.CoqList(gs))
	}
	emit(cs)
	return nil
}
