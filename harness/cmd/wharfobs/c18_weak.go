package main

// C18 — damages that change a block while keeping (part of) its WEAK hash.
//
// The signature stores per block a weak hash (wsync's beta-hash: a = sum of the bytes, b = sum of
// (len-i)*byte[i], both mod 65536) and a strong hash (MD5).  The property speaks of blocks that
// DIFFER, so a written block whose weak hash happens to equal the signed one while its bytes do
// not must be rejected / wounded exactly like any other differing block.  Ordinary damages
// (flips, truncations, extensions) always change the weak hash, hence never reach the strong-hash
// comparison; the generators below do.  The oracle is untouched: it compares bytes.

import (
	"bytes"
	"fmt"

	"verif/harness/lib"
)

// c18Weak restates wsync's beta-hash (the two 16-bit sums).  It is used only to CHECK that a
// generated damage has the intended effect on the weak hash and to label the case; the verdict
// never depends on it.
func c18Weak(block []byte) (a, b uint32) {
	n := uint32(len(block))
	for i, v := range block {
		a += uint32(v)
		b += (n - uint32(i)) * uint32(v)
	}
	return a & 0xffff, b & 0xffff
}

// weakRelation classifies how the weak hash of nw relates to that of old (same length)
func weakRelation(old, nw []byte) string {
	if bytes.Equal(old, nw) {
		return "equal"
	}
	a0, b0 := c18Weak(old)
	a1, b1 := c18Weak(nw)
	switch {
	case a0 == a1 && b0 == b1:
		return "weaksame"
	case a0 == a1:
		return "asame"
	case b0 == b1:
		return "bsame"
	}
	return "weakdiff"
}

type c18Edit struct {
	Pos int `json:"pos"`
	Old int `json:"old"`
	New int `json:"new"`
}

// blockEditor applies signed deltas to bytes of one block, refusing what leaves 0..255
type blockEditor struct {
	blk     []byte // the block, edited in place
	touched map[int]bool
}

func (e *blockEditor) can(p, d int) bool {
	if p < 0 || p >= len(e.blk) {
		return false
	}
	v := int(e.blk[p]) + d
	return v >= 0 && v <= 255
}

func (e *blockEditor) add(p, d int) {
	e.blk[p] = byte(int(e.blk[p]) + d)
	e.touched[p] = true
}

// all applies every (pos, delta) or none
func (e *blockEditor) all(pd ...int) bool {
	// positions must be pairwise distinct, else the bound check of one is invalidated by another
	for i := 0; i < len(pd); i += 2 {
		for j := i + 2; j < len(pd); j += 2 {
			if pd[i] == pd[j] {
				return false
			}
		}
		if !e.can(pd[i], pd[i+1]) {
			return false
		}
	}
	for i := 0; i < len(pd); i += 2 {
		e.add(pd[i], pd[i+1])
	}
	return true
}

// c18WeakKinds lists the families of weak-hash-related damages
//
//	121    +d,-2d,+d on three neighbouring bytes                         (both sums kept)
//	2swap  +d at i, -d at i+k, -d at j, +d at j+k                       (both sums kept)
//	wrap   +d at i, -d at i+65536/d: b moves by exactly 65536            (kept only modulo 65536)
//	solve  an arbitrary small damage, then compensating edits elsewhere  (both sums kept)
//	aonly  two different bytes exchanged                                 (byte sum kept, weighted sum not)
//	bonly  a change whose weighted sum is 0 mod 65536 but whose byte sum is not
var c18WeakKinds = []string{"121", "2swap", "wrap", "solve", "aonly", "bonly"}

// weakDamage edits w[lo:hi] (one block of the written data) in place according to kind and
// returns the tag, the edits, and whether the intended relation of weak hashes was achieved.
// On failure w is left unchanged.
func weakDamage(r *lib.Rng, w []byte, lo, hi int, kind string) (string, []c18Edit, bool) {
	n := hi - lo
	if n < 3 {
		return "", nil, false
	}
	old := append([]byte(nil), w[lo:hi]...)
	want := "weaksame"
	for attempt := 0; attempt < 40; attempt++ {
		e := &blockEditor{blk: append([]byte(nil), old...), touched: map[int]bool{}}
		ok := false
		sgn := 1 - 2*r.Intn(2)
		switch kind {
		case "121":
			d := sgn * []int{1, 1, 2, 3, 17, 60, 127}[r.Intn(7)]
			i := []int{0, n - 3, r.Intn(n - 2), r.Intn(n - 2)}[r.Intn(4)]
			ok = e.all(i, d, i+1, -2*d, i+2, d)
		case "2swap":
			if n < 4 {
				break
			}
			d := sgn * r.Range(1, 40)
			k := r.Range(1, (n-2)/2)
			if r.Chance(1, 2) {
				k = r.Range(1, min(8, (n-2)/2))
			}
			i, j := r.Intn(n-k), r.Intn(n-k)
			ok = e.all(i, d, i+k, -d, j, -d, j+k, d)
		case "wrap":
			d := []int{2, 4, 8, 16, 32, 64, 128}[r.Intn(7)]
			k := 65536 / d
			if k >= n {
				d, k = 128, 512
			}
			if k >= n {
				break
			}
			i := r.Intn(n - k)
			ok = e.all(i, sgn*d, i+k, -sgn*d)
		case "solve":
			ok = weakSolve(r, e, old)
		case "aonly":
			want = "asame"
			i, j := r.Intn(n), r.Intn(n)
			if r.Chance(1, 2) { // first and last byte differ from the fill in structured content
				i = []int{0, n - 1}[r.Intn(2)]
			}
			if i != j && e.blk[i] != e.blk[j] {
				di := int(e.blk[j]) - int(e.blk[i])
				ok = e.all(i, di, j, -di)
			}
		case "bonly":
			want = "bsame"
			if n == bs64 && r.Chance(1, 2) {
				// the first byte of a full block has weight 65536 = 0 mod 65536
				d := sgn * r.Range(1, 100)
				ok = e.all(0, d)
			} else {
				// +x at weight wi, +y at weight wj with x*wi + y*wj = 0 mod 65536 and x+y != 0:
				// +2 at i, -1 at j where wj = 2*wi, i.e. (n-j) = 2*(n-i)
				i := r.Range(n/2+1, n-1)
				j := n - 2*(n-i)
				if j >= 0 {
					ok = e.all(i, 2*sgn, j, -sgn)
				}
			}
		}
		if !ok || weakRelation(old, e.blk) != want {
			continue
		}
		var edits []c18Edit
		for p := range e.blk {
			if e.blk[p] != old[p] {
				edits = append(edits, c18Edit{lo + p, int(old[p]), int(e.blk[p])})
			}
		}
		copy(w[lo:hi], e.blk)
		return fmt.Sprintf("%s:%s@%d+%d", want, kind, edits[0].Pos, len(edits)), edits, true
	}
	return "", nil, false
}

// weakSolve makes an arbitrary small damage and then repairs both sums with edits elsewhere.
func weakSolve(r *lib.Rng, e *blockEditor, old []byte) bool {
	n := len(old)
	// 1. arbitrary damage: a few bytes overwritten (single bytes or a short run)
	nd := r.Range(1, 4)
	for x := 0; x < nd; x++ {
		p := r.Intn(n)
		run := 1
		if r.Chance(1, 3) {
			run = r.Range(2, 6)
		}
		v := byte(r.Intn(256))
		for q := p; q < p+run && q < n; q++ {
			e.blk[q] = v
			e.touched[q] = true
		}
	}
	free := func(d int) int { // an untouched position that accepts delta d
		for t := 0; t < 60; t++ {
			p := r.Intn(n)
			if !e.touched[p] && e.can(p, d) {
				return p
			}
		}
		return -1
	}
	// 2. byte sum: bring it back with single-byte corrections
	a0, _ := c18Weak(old)
	for it := 0; ; it++ {
		a1, _ := c18Weak(e.blk)
		da := int(int16(uint16(a1 - a0))) // signed difference mod 65536
		if da == 0 {
			break
		}
		if it > 40 {
			return false
		}
		step := -da
		if step > 120 {
			step = 120
		}
		if step < -120 {
			step = -120
		}
		p := free(step)
		if p < 0 {
			return false
		}
		e.add(p, step)
	}
	// 3. weighted sum: +d at i, -d at i+k moves it by d*k and keeps the byte sum
	_, b0 := c18Weak(old)
	for it := 0; ; it++ {
		_, b1 := c18Weak(e.blk)
		t := int(uint16(b0 - b1)) // amount to add, 0..65535
		if t == 0 {
			return true
		}
		if it > 60 {
			return false
		}
		if 65536-t < t || (65536-t <= n-1 && r.Chance(1, 2)) {
			t -= 65536 // the same amount modulo 65536, reached downwards
		}
		sg := 1
		if t < 0 {
			sg, t = -1, -t
		}
		k := min(t, n-1)
		d := min(t/k, 100)
		done := false
		for try := 0; try < 60 && !done; try++ {
			i := r.Intn(n - k)
			if e.touched[i] || e.touched[i+k] {
				continue
			}
			done = e.all(i, sg*d, i+k, -sg*d)
		}
		if !done {
			return false
		}
	}
}

// randomishContent: like structuredContent but with stretches of truly random bytes, still cheap
// to run-length encode: used so that weak-hash-preserving edits also land on non-uniform bytes.
func randomishContent(r *lib.Rng, size int) []byte {
	b := structuredContent(r, size)
	for off := 0; off < size; off += bs64 {
		end := min(off+bs64, size)
		for x := r.Intn(3); x > 0; x-- {
			ln := r.Range(1, 40)
			p := off + r.Intn(end-off)
			copy(b[p:min(p+ln, end)], r.Bytes(ln))
		}
	}
	return b
}
