module verif/harness

go 1.24.0

require (
	github.com/golang/protobuf v1.5.4
	github.com/itchio/headway v0.0.0-20251229214354-da882c8b5dd4
	github.com/itchio/lake v0.0.0-20200305150023-cc4284ec2b2a
	github.com/itchio/savior v0.0.0-20200618124148-6034e878d75b
	github.com/itchio/wharf v0.0.0
)

require (
	github.com/certifi/gocertifi v0.0.0-20210507211836-431795d63e8d // indirect
	github.com/cespare/xxhash/v2 v2.3.0 // indirect
	github.com/detailyang/go-fallocate v0.0.0-20180908115635-432fa640bd2e // indirect
	github.com/efarrer/iothrottler v0.0.3 // indirect
	github.com/getlantern/context v0.0.0-20220418194847-3d5e7a086201 // indirect
	github.com/getlantern/errors v1.0.4 // indirect
	github.com/getlantern/golog v0.0.0-20230503153817-8e72de7e0a65 // indirect
	github.com/getlantern/hex v0.0.0-20220104173244-ad7e4b9194dc // indirect
	github.com/getlantern/hidden v0.0.0-20220104173330-f221c5a24770 // indirect
	github.com/getlantern/idletiming v0.0.0-20231030193830-6767b09f86db // indirect
	github.com/getlantern/mtime v0.0.0-20200417132445-23682092d1f7 // indirect
	github.com/getlantern/netx v0.0.0-20251021221514-279deb2cfd40 // indirect
	github.com/getlantern/ops v0.0.0-20231025133620-f368ab734534 // indirect
	github.com/go-logr/logr v1.4.3 // indirect
	github.com/go-logr/stdr v1.2.2 // indirect
	github.com/go-ozzo/ozzo-validation v3.6.0+incompatible // indirect
	github.com/go-stack/stack v1.8.1 // indirect
	github.com/gogs/chardet v0.0.0-20211120154057-b7413eaefb8f // indirect
	github.com/hashicorp/golang-lru v1.0.2 // indirect
	github.com/itchio/arkive v0.0.0-20200618123031-1a30392a8cfe // indirect
	github.com/itchio/dskompress v0.0.0-20190702113811-5e6f499be697 // indirect
	github.com/itchio/go-brotli v0.0.0-20190702114328-3f28d645a45c // indirect
	github.com/itchio/httpkit v0.0.0-20251231162950-9fb57e6ac916 // indirect
	github.com/itchio/kompress v0.0.0-20200301155538-5c2eecce9e51 // indirect
	github.com/itchio/ox v0.0.0-20200826161350-12c6ca18d236 // indirect
	github.com/itchio/screw v0.0.0-20200301160148-75fc2d65fb38 // indirect
	github.com/jgallagher/gosaca v0.0.0-20130226042358-754749770f08 // indirect
	github.com/klauspost/compress v1.18.3 // indirect
	github.com/mitchellh/copystructure v1.2.0 // indirect
	github.com/mitchellh/reflectwalk v1.0.2 // indirect
	github.com/oxtoacart/bpool v0.0.0-20190530202638-03653db5a59c // indirect
	github.com/pkg/errors v0.9.1 // indirect
	go.opentelemetry.io/auto/sdk v1.2.1 // indirect
	go.opentelemetry.io/otel v1.39.0 // indirect
	go.opentelemetry.io/otel/metric v1.39.0 // indirect
	go.opentelemetry.io/otel/trace v1.39.0 // indirect
	go.uber.org/multierr v1.11.0 // indirect
	go.uber.org/zap v1.27.1 // indirect
	golang.org/x/net v0.49.0 // indirect
	golang.org/x/text v0.33.0 // indirect
	google.golang.org/protobuf v1.36.11 // indirect
)

replace github.com/itchio/wharf => ../../repo
