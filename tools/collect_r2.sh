#!/bin/sh
# usage: OFF=3|6 tools/collect_r2.sh Cxx ... : copy round-2 seeded changes /tmp/seed/Cxx/out/{1,2,3} to seeded/Cxx-{4,5,6}
OFF=${OFF:-3}
for p in "$@"; do
  [ -d /tmp/seed/$p/out/3 ] || { echo "$p not ready"; continue; }
  for i in 1 2 3; do d=/verif/seeded/$p-$((i+OFF)); mkdir -p $d; cp /tmp/seed/$p/out/$i/patch.diff /tmp/seed/$p/out/$i/demo_test.go /tmp/seed/$p/out/$i/meta.json $d/; done
  git -C /repo worktree remove --force /tmp/seed/$p; git -C /repo branch -D seed-$p -q; rm -f /tmp/seed/$p.task.md /tmp/seed/$p.property.txt
  echo "$p collected"
done
