#!/bin/sh
# usage: tools/goal.sh <file.v> <line>   : show the proof state after <line> lines of the file
f=$1; n=$2
tmp=$(mktemp /tmp/goalXXXXXX.v)
head -n "$n" "$f" > "$tmp"
echo "Show." >> "$tmp"
cd "$(dirname "$0")/../coq" && timeout 300 coqtop -Q theories Wharf -batch -l "$tmp" 2>&1 | tail -${3:-40}
rm -f "$tmp"
