#!/bin/sh
# usage: tools/mkagent.sh <name> : isolated sandbox /tmp/ag/<name>/{verif,repo} on branches ag-<name>
# The compiled Coq files of /verif/coq are copied over (sources dated before objects) so that the
# sandbox's first `make` only rebuilds what the agent changes.
set -e
n=$1
mkdir -p /tmp/ag/$n
git -C /verif worktree add -q /tmp/ag/$n/verif -b ag-$n
git -C /repo worktree add -q /tmp/ag/$n/repo -b ag-$n
if [ -z "$(git -C /verif status --porcelain coq | head -1)" ] && [ -f /verif/coq/Makefile ]; then
  cd /verif/coq
  find . \( -name '*.vo' -o -name '*.vos' -o -name '*.vok' -o -name '*.glob' -o -name '.*.aux' -o -name 'Makefile*' -o -name '.Makefile.d' -o -name '_CoqProject' \) | tar cf - -T - | tar xf - -C /tmp/ag/$n/verif/coq
  cd /tmp/ag/$n/verif/coq
  find theories -name '*.v' | xargs touch -d '2020-01-01'
  touch -d '2020-01-02' _CoqProject Makefile Makefile.conf
  touch -d '2020-01-03' .Makefile.d
  find theories \( -name '*.vo' -o -name '*.vos' -o -name '*.vok' -o -name '*.glob' -o -name '.*.aux' \) | xargs touch -d '2020-01-04'
fi
echo /tmp/ag/$n
