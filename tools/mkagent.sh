#!/bin/sh
# usage: tools/mkagent.sh <name> : isolated sandbox /tmp/ag/<name>/{verif,repo} on branches ag-<name>
set -e
n=$1
mkdir -p /tmp/ag/$n
git -C /verif worktree add -q /tmp/ag/$n/verif -b ag-$n
git -C /repo worktree add -q /tmp/ag/$n/repo -b ag-$n
echo /tmp/ag/$n
