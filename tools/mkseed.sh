#!/bin/sh
# usage: tools/mkseed.sh Cxx : scratch worktree /tmp/seed/Cxx of /repo + property text file (nothing from /verif but the property text)
p=$1
mkdir -p /tmp/seed
git -C /repo worktree add -q /tmp/seed/$p -b seed-$p
python3 - "$p" <<'PY'
import json,sys
pid=sys.argv[1]
for l in open('/verif/properties.jsonl'):
    p=json.loads(l)
    if p['id']==pid:
        open('/tmp/seed/%s.property.txt'%pid,'w').write("Property %s: %s\n\nStatement: %s\n\nQuantified over: %s\n\nCode anchors: %s\n"%(p['id'],p['title'],p['statement'],p['quantifier']['text'],", ".join(p['anchors']['files'])))
PY
echo /tmp/seed/$p
