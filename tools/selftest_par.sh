#!/bin/sh
# usage: tools/selftest_par.sh K id...   run tools/selftest.py over the ids in K private sandboxes
# (/tmp/ag/st<i>/{verif,repo}: worktrees of /verif and /repo, so /repo itself is never touched),
# merge the results into seeded/STATUS.json + STATUS.md, remove the sandboxes.
K=$1; shift
cd /verif || exit 1
export GOFLAGS=-mod=mod GOPROXY=off
i=0
for id in "$@"; do eval "L$((i % K))=\"\$L$((i % K)) $id\""; i=$((i+1)); done
j=0
while [ $j -lt $K ]; do
  tools/mkagent.sh st$j >/dev/null || exit 1
  eval "ids=\$L$j"
  ( cd /tmp/ag/st$j/verif && python3 tools/selftest.py $ids > /tmp/ag/st$j.log 2>&1 ) &
  j=$((j+1))
done
wait
python3 - "$K" <<'EOF'
import json, sys, os, re
K = int(sys.argv[1])
st = json.load(open('/verif/seeded/STATUS.json'))
for j in range(K):
    log = open('/tmp/ag/st%d.log' % j).read()
    ran = re.findall(r'^(C\d\d-\d+)\s+applied', log, re.M)
    s2 = json.load(open('/tmp/ag/st%d/verif/seeded/STATUS.json' % j))
    for k in ran:
        st[k] = s2[k]
    sys.stdout.write(log)
json.dump(st, open('/verif/seeded/STATUS.json', 'w'), indent=1, sort_keys=True)
EOF
j=0
while [ $j -lt $K ]; do
  git -C /repo worktree remove --force /tmp/ag/st$j/repo; git worktree remove --force /tmp/ag/st$j/verif
  git branch -D ag-st$j -q; git -C /repo branch -D ag-st$j -q; rm -rf /tmp/ag/st$j /tmp/ag/st$j.log
  j=$((j+1))
done
# rewrite STATUS.md from the merged STATUS.json (selftest.py with an id that does not exist only rewrites the files)
python3 tools/selftest.py __none__ >/dev/null 2>&1
tail -1 seeded/STATUS.md
