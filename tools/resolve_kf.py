#!/usr/bin/env python3
"""Resolve a merge conflict in known_findings.json by taking the union of both sides, and
rewrite commit ids of `fixed:` lines from an agent branch to the cherry-picked ids on /repo main.
usage: tools/resolve_kf.py <agent-name>"""
import json, re, subprocess, sys
name = sys.argv[1]
def show(stage):
    return json.loads(subprocess.run(["git", "-C", "/verif", "show", ":%d:known_findings.json" % stage], capture_output=True, text=True).stdout)
ours, theirs = show(2), show(3)
# old -> new commit ids by subject
def log(rng):
    out = subprocess.run(["git", "-C", "/repo", "log", "--format=%h\t%s", rng], capture_output=True, text=True).stdout
    return [l.split("\t", 1) for l in out.splitlines() if "\t" in l]
new_by_subj = {s: h for h, s in log("main")}
old = {h: s for h, s in log("main..ag-" + name)}
def fix(line):
    for h, s in old.items():
        if h in line and s in new_by_subj:
            line = line.replace(h, new_by_subj[s])
    return line
res = {"findings": list(ours.get("findings", [])), "fixed": list(ours.get("fixed", []))}
ids = {f["id"] for f in res["findings"]}
for f in theirs.get("findings", []):
    if f["id"] not in ids:
        res["findings"].append(f)
for l in theirs.get("fixed", []):
    l = fix(l)
    if l not in res["fixed"]:
        res["fixed"].append(l)
json.dump(res, open("/verif/known_findings.json", "w"), indent=1)
print(json.dumps(res, indent=1))
