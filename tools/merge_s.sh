#!/bin/sh
# merge a strengthening branch ag-<name>: evidence conflicts resolved by taking theirs
n=$1
cd /verif || exit 1
git -C /repo log --format='%h %s' main..ag-$n | head
for c in $(git -C /repo rev-list --reverse main..ag-$n); do git -C /repo cherry-pick $c >/dev/null 2>&1 || { echo "CHERRY-PICK CONFLICT $c"; exit 1; }; done
git add -A; git commit -qm "wip before merging ag-$n" 2>/dev/null
git merge --no-edit ag-$n >/dev/null 2>&1 || git diff --name-only --diff-filter=U | grep -q . || { echo "MERGE FAILED (branch kept)"; exit 1; }
for f in $(git diff --name-only --diff-filter=U); do
  case $f in evidence/*|seeded/STATUS.*) git checkout --theirs -- "$f" 2>/dev/null || git checkout --ours -- "$f"; git add "$f";; *) echo "CONFLICT: $f";; esac
done
git diff --name-only --diff-filter=U | grep -q . && { echo "unresolved conflicts"; exit 1; }
git commit -qm "merge ag-$n" 2>/dev/null
git -C /repo worktree remove --force /tmp/ag/$n/repo; git worktree remove --force /tmp/ag/$n/verif; git branch -D ag-$n -q; git -C /repo branch -D ag-$n -q; rm -rf /tmp/ag/$n
git log --oneline | head -1
