#!/usr/bin/env python3
"""Regenerate MANIFEST.json from tools/claims.json (text per property) and what is actually present."""
import json, os, subprocess
V = os.path.dirname(os.path.dirname(os.path.abspath(__file__)))
claims = json.load(open(os.path.join(V, "tools", "claims.json")))
props = [json.loads(l)["id"] for l in open(os.path.join(V, "properties.jsonl"))]
checks, na = [], []
for pid in props:
    c = claims.get(pid, {})
    present = os.path.exists(os.path.join(V, "checks", "props", pid + ".json")) and os.path.exists(os.path.join(V, "coq", "theories", "Properties", pid + ".v"))
    if present and c.get("text"):
        checks.append({"property_id": pid, "quick_cmd": "./check %s --tier quick" % pid, "thorough_cmd": "./check %s --tier thorough" % pid,
                       "evidence_file": "/verif/evidence/%s.json" % pid, "replay_cmd_template": "./check %s --replay {path}" % pid,
                       "engine": "coq-model+correspondence",
                       "level_claimed": {"category": "proof", "text": c["text"], "design_ref": c.get("ref", "DESIGN.md section 6 " + pid)},
                       "level_note": c["note"], "technique": c.get("technique", "Rocq/Coq proof over hand-written Gallina model + differential correspondence (vm_compute) + independent oracle")})
    else:
        na.append({"property_id": pid, "reason": c.get("na", "check under construction in this round (model + harness not yet merged); the technique applies, see DESIGN.md section 6")})
hooks = json.load(open(os.path.join(V, "tools", "hooks.json")))
m = {"version": 1, "setup_cmd": "./setup.sh", "hooks": hooks,
     "engines": [{"name": "coq-model+correspondence", "path": "/verif/check", "serves_properties": [c["property_id"] for c in checks],
                  "kind_free_text": "Coq 8.16.1 theorems over hand-written Gallina models; a Go harness built against /repo's working tree runs the implementation and an independent oracle on generated cases, the model is evaluated on the same cases by vm_compute"}],
     "checks": checks, "notes": "See DESIGN.md and FRAMEWORK.md.", "not_applicable": na}
json.dump(m, open(os.path.join(V, "MANIFEST.json"), "w"), indent=1)
print("claimed:", [c["property_id"] for c in checks]); print("not claimed:", [n["property_id"] for n in na])
