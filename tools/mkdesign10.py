#!/usr/bin/env python3
"""Regenerate the table of DESIGN.md §10 (between the markers <!-- seeded-table:begin/end -->) from
seeded/*/meta.json, seeded/FIRSTRUN.json (detection before any strengthening) and seeded/STATUS.json
(last tools/selftest.py result)."""
import json, os, re
V = os.path.dirname(os.path.dirname(os.path.abspath(__file__)))
S = os.path.join(V, "seeded")
first = json.load(open(os.path.join(S, "FIRSTRUN.json")))
st = json.load(open(os.path.join(S, "STATUS.json")))
ids = sorted(d for d in os.listdir(S) if re.fullmatch(r"C\d\d-\d+", d))
rows = []
cnt = {}
for sid in ids:
    m = json.load(open(os.path.join(S, sid, "meta.json")))
    needs = re.sub(r"\s+", " ", str(m.get("needs", ""))).replace("|", "/")
    if len(needs) > 170:
        needs = needs[:167] + "…"
    rnd = (int(sid.split("-")[1]) - 1) // 3 + 1
    f = first.get(sid, "?")
    r = st.get(sid, {})
    now = "MISSED"
    if r.get("caught"):
        how = "correspondence" if "no-failing-input-found" in r.get("line", "") else "failing input"
        now = "caught by " + ",".join(r["by"]) + " (" + how + ")"
    elif not r:
        now = "not run"
    c = cnt.setdefault(rnd, [0, 0, 0])
    c[0] += 1; c[1] += f == "caught"; c[2] += bool(r.get("caught"))
    rows.append("| %s | %d | %s | %s | %s |" % (sid, rnd, needs, f, now))
out = ["| id | round | what it needs to manifest | first run | now |", "|---|---|---|---|---|"] + rows + [""]
for rnd in sorted(cnt):
    out.append("Round %d: %d changes, %d caught on the first run, %d caught now.  " % (rnd, *cnt[rnd]))
tot = [sum(c[i] for c in cnt.values()) for i in range(3)]
out.append("All rounds: %d changes, %d caught on the first run, %d caught now." % tuple(tot))
p = os.path.join(V, "DESIGN.md")
t = open(p).read()
b, e = "<!-- seeded-table:begin -->", "<!-- seeded-table:end -->"
i, j = t.index(b) + len(b), t.index(e)
open(p, "w").write(t[:i] + "\n" + "\n".join(out) + "\n" + t[j:])
print("\n".join(out[-len(cnt) - 1:]))
