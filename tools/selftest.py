#!/usr/bin/env python3
"""Apply each seeded change under /verif/seeded/<id>/ to /repo (git apply), run the check of the
property it breaks, expect a VIOLATION, undo the change (git checkout).  Never commits anything
to /repo.  usage: tools/selftest.py [seeded-id ...] [--tier quick|thorough]"""
import json, os, subprocess, sys, time
V = os.path.dirname(os.path.dirname(os.path.abspath(__file__)))
REPO = os.path.normpath(os.path.join(V, "..", "repo"))
args = [a for a in sys.argv[1:] if not a.startswith("--")]
tier = "quick"
if "--tier" in sys.argv:
    tier = sys.argv[sys.argv.index("--tier") + 1]
ids = args or sorted(os.listdir(os.path.join(V, "seeded")))
if subprocess.run(["git", "-C", REPO, "status", "--porcelain", "--untracked-files=no"], capture_output=True, text=True).stdout.strip():
    sys.exit("repo working tree is not clean; refusing")
results = []
for sid in ids:
    d = os.path.join(V, "seeded", sid)
    if not os.path.exists(os.path.join(d, "patch.diff")):
        continue
    meta = json.load(open(os.path.join(d, "meta.json")))
    props = meta.get("checks") or [meta["property"]]
    t0 = time.time()
    ok = subprocess.run(["git", "-C", REPO, "apply", os.path.join(d, "patch.diff")]).returncode == 0
    caught = []
    try:
        if ok:
            for pid in props:
                p = subprocess.run([os.path.join(V, "check"), pid, "--tier", tier], capture_output=True, text=True, cwd=V)
                lines = [l for l in p.stdout.splitlines() if l.startswith("VIOLATION")]
                if lines:
                    caught.append((pid, lines[0]))
    finally:
        subprocess.run(["git", "-C", REPO, "checkout", "--", "."])
    results.append((sid, ok, caught, time.time() - t0))
    print("%-28s %s %s (%.0fs)" % (sid, "applied" if ok else "PATCH-FAILED", "CAUGHT " + "; ".join("%s: %s" % c for c in caught) if caught else "MISSED", time.time() - t0), flush=True)
# persist: seeded/STATUS.json (id -> last result) and a readable seeded/STATUS.md
stp = os.path.join(V, "seeded", "STATUS.json")
st = json.load(open(stp)) if os.path.exists(stp) else {}
for sid, ok, caught, dt in results:
    st[sid] = {"applied": ok, "caught": bool(caught), "by": [c[0] for c in caught],
               "line": caught[0][1] if caught else "", "tier": tier, "wall_s": round(dt)}
json.dump(st, open(stp, "w"), indent=1, sort_keys=True)
with open(os.path.join(V, "seeded", "STATUS.md"), "w") as f:
    f.write("# Seeded changes: last result of tools/selftest.py per change\n\n| id | property | needs | last run |\n|---|---|---|---|\n")
    for sid in sorted(st):
        mp = os.path.join(V, "seeded", sid, "meta.json")
        m = json.load(open(mp)) if os.path.exists(mp) else {}
        r = st[sid]
        verdict = ("caught by " + ",".join(r["by"]) + (" (correspondence only)" if "no-failing-input-found" in r["line"] else "")) if r["caught"] else "MISSED"
        f.write("| %s | %s | %s | %s |\n" % (sid, m.get("property", ""), str(m.get("needs", "")).replace("|", "/").replace("\n", " ")[:260], verdict))
    n = len(st); c = len([1 for v in st.values() if v["caught"]])
    f.write("\ncaught %d of %d\n" % (c, n))
missed = [r[0] for r in results if r[1] and not r[2]]
print("caught %d / %d; missed: %s" % (len([r for r in results if r[2]]), len(results), missed))
