#!/usr/bin/env python3
"""Apply each seeded change under /verif/seeded/<id>/ to /repo (git apply), run the check of the
property it breaks, expect a VIOLATION, undo the change (git checkout).  Never commits anything
to /repo.  usage: tools/selftest.py [seeded-id ...] [--tier quick|thorough]"""
import json, os, subprocess, sys, time
V = os.path.dirname(os.path.dirname(os.path.abspath(__file__)))
REPO = os.path.normpath(os.path.join(V, "..", "repo"))
args = [a for a in sys.argv[1:] if not a.startswith("--")]
tier = "quick"
if "--tier" in sys.argv:
    tier = sys.argv[sys.argv.index("--tier") + 1]
ids = args or sorted(os.listdir(os.path.join(V, "seeded")))
if subprocess.run(["git", "-C", REPO, "status", "--porcelain", "--untracked-files=no"], capture_output=True, text=True).stdout.strip():
    sys.exit("repo working tree is not clean; refusing")
results = []
for sid in ids:
    d = os.path.join(V, "seeded", sid)
    if not os.path.exists(os.path.join(d, "patch.diff")):
        continue
    meta = json.load(open(os.path.join(d, "meta.json")))
    props = meta.get("checks") or [meta["property"]]
    t0 = time.time()
    ok = subprocess.run(["git", "-C", REPO, "apply", os.path.join(d, "patch.diff")]).returncode == 0
    caught = []
    try:
        if ok:
            for pid in props:
                p = subprocess.run([os.path.join(V, "check"), pid, "--tier", tier], capture_output=True, text=True, cwd=V)
                lines = [l for l in p.stdout.splitlines() if l.startswith("VIOLATION")]
                if lines:
                    caught.append((pid, lines[0]))
    finally:
        subprocess.run(["git", "-C", REPO, "checkout", "--", "."])
    results.append((sid, ok, caught, time.time() - t0))
    print("%-28s %s %s (%.0fs)" % (sid, "applied" if ok else "PATCH-FAILED", "CAUGHT " + "; ".join("%s: %s" % c for c in caught) if caught else "MISSED", time.time() - t0), flush=True)
missed = [r[0] for r in results if r[1] and not r[2]]
print("caught %d / %d; missed: %s" % (len([r for r in results if r[2]]), len(results), missed))
