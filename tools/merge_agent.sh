#!/bin/sh
# usage: tools/merge_agent.sh <name> : merge branch ag-<name> of /verif and cherry-pick its repo commits
n=$1
cd /verif || exit 1
echo "--- repo commits of ag-$n:"
git -C /repo log --reverse --format='%h %s' main..ag-$n
for c in $(git -C /repo rev-list --reverse main..ag-$n); do
  git -C /repo cherry-pick $c >/dev/null 2>&1 || { echo "CHERRY-PICK CONFLICT at $c"; git -C /repo status --short | head; exit 1; }
done
echo "--- merging verif ag-$n"
git merge --no-edit ag-$n 2>&1 | tail -5
