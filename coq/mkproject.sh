#!/bin/sh
# regenerate _CoqProject from the files present (Properties and Exec included), then the Makefile
cd "$(dirname "$0")"
{ echo "-Q theories Wharf"; find theories -name '*.v' | LC_ALL=C sort; } > _CoqProject.new
if ! cmp -s _CoqProject.new _CoqProject 2>/dev/null || [ ! -f Makefile ]; then
  mv _CoqProject.new _CoqProject
  coq_makefile -f _CoqProject -o Makefile >/dev/null
else
  rm -f _CoqProject.new
fi
