(** Model of pwr/bowl/bowl_overlay.go (overlay bowl): the patch phase (bookkeeping + writes
    into the stage only) and [Commit] = ensureDirsAndSymlinks, applyTranspositions, applyMoves,
    applyOverlays, deleteGhosts as operations of the private filesystem model [FSmini].

    Terminology follows the Go code: *target* = old build (the directory being patched),
    *source* = new build.  A transposition (P, K) says: new file P is old file K, whole.

    Go map iterations are explicit arguments: [order1] (clash detection loop) and [order2]
    (execution loop) enumerate the keys of the transposition map; [gorder] is the order in
    which ghosts are visited ([sort.Sort] by decreasing string length: only "a path is visited
    before its proper prefixes" is guaranteed, see [ghost_order_ok] in the proofs).

    The model follows the repaired code (fix: commits of the repo worktree):
      - [copy] replaces a symlink found at its destination instead of writing through it,
      - ghosts below a symlink of the new build are skipped,
      - temporary names skip numbers whose name is taken by an entry of either build.
    Not modelled: case-insensitive fixing, permissions, the [debugBrokenRename] switch, the dead
    [alreadyDone] test (a map iteration never repeats a key).
    Definitions only; lemmas live in [Bowl/OverlayCommitProofs.v]. *)
From Wharf Require Import Base.Prelude Bowl.FSmini.
Local Open Scope N_scope.

(** a container as the patch carries it (tlc): directories, symlinks, files, in index order *)
Record container := mkC { c_dirs : list path; c_links : list (path * N); c_files : list path }.

Definition c_paths (c : container) : list path := c_dirs c ++ c_files c ++ map fst (c_links c).

Definition mem (p : path) (l : list path) : bool := existsb (path_eqb p) l.

(** what the patch phase leaves behind *)
Inductive ovop := Skip (n : N) | Fresh (d : list N).
Inductive stagefile := SOverlay (ops : list ovop) | SWhole (c : list N).

Record work := mkW {
  w_trans : list (path * path);   (* (new path, old path), in the order Transpose recorded them *)
  w_over  : list path;            (* new paths with a pending overlay *)
  w_moves : list path             (* new paths staged as whole files *)
}.

Definition stage := list (path * stagefile).

Fixpoint stage_get (s : stage) (p : path) : option stagefile :=
  match s with
  | [] => None
  | (q, f) :: r => if path_eqb q p then Some f else stage_get r p
  end.

(* ------------------------------------------------------------------ ensureDirsAndSymlinks *)

Definition process_dir (t : fs) (d : path) : res fs :=
  match lstat t d with
  | Ok Dir => Ok t
  | Ok _ => do t1 <- remove_all t d ;; mkdir_all t1 d
  | Err _ => mkdir_all t d
  | Unmodelled => Unmodelled
  end.

Definition process_symlink (t : fs) (l : path * N) : res fs :=
  let '(p, d) := l in
  do t1 <- match lstat t p with
        | Ok (Link _) => Ok t
        | Ok _ => remove_all t p
        | Err _ => Ok t
        | Unmodelled => Unmodelled
        end ;;
  match readlink t1 p with
  | Err ENOENT => symlink t1 d p
  | Err e => Err e
  | Unmodelled => Unmodelled
  | Ok d' => if N.eqb d' d then Ok t1 else do t2 <- remove t1 p ;; symlink t2 d p
  end.

Fixpoint fold_res {A} (f : fs -> A -> res fs) (l : list A) (t : fs) : res fs :=
  match l with
  | [] => Ok t
  | a :: r => do t1 <- f t a ;; fold_res f r t1
  end.

Definition ensure_dirs_and_symlinks (nc : container) (t : fs) : res fs :=
  do t1 <- fold_res process_dir (c_dirs nc) t ;;
  fold_res process_symlink (c_links nc) t1.

(* ------------------------------------------------------------------ copy / move *)

(** [overlayBowl.copy]: optional MkdirAll of the parent, read the source, (fix) unlink a symlink
    at the destination, create/truncate the destination and write.  (Reading a directory fails
    in Go only after the destination was created; Commit aborts either way.) *)
Definition copy (t : fs) (src dst : path) (mkdir : bool) : res fs :=
  do t1 <- (if mkdir then mkdir_all t (parent dst) else Ok t) ;;
  do c <- read_file t1 src ;;
  do t2 <- match lstat t1 dst with
        | Ok (Link _) => remove t1 dst
        | Unmodelled => Unmodelled
        | _ => Ok t1
        end ;;
  create_trunc t2 dst c.

(** [overlayBowl.move]: Remove(dst) (a missing dst is fine), MkdirAll(parent), Rename, and on
    any rename error copy + Remove(src) *)
Definition move (t : fs) (src dst : path) : res fs :=
  do t1 <- match remove t dst with
        | Ok t1 => Ok t1
        | Err ENOENT => Ok t
        | Err e => Err e
        | Unmodelled => Unmodelled
        end ;;
  do t2 <- mkdir_all t1 (parent dst) ;;
  match rename t2 src dst with
  | Ok t3 => Ok t3
  | Unmodelled => Unmodelled
  | Err _ => do t3 <- copy t2 src dst false ;; remove t3 src
  end.

(* ------------------------------------------------------------------ applyTranspositions *)

(** groups: old path -> new paths, keys in first-occurrence order, members in list order *)
Definition groups := list (path * list path).

Fixpoint group_add (g : groups) (k p : path) : groups :=
  match g with
  | [] => [(k, [p])]
  | (k', ps) :: r => if path_eqb k' k then (k', ps ++ [p]) :: r else (k', ps) :: group_add r k p
  end.

Definition group_by (tr : list (path * path)) : groups :=
  fold_left (fun g e => group_add g (snd e) (fst e)) tr [].

Fixpoint group_get (g : groups) (k : path) : option (list path) :=
  match g with
  | [] => None
  | (k', ps) :: r => if path_eqb k' k then Some ps else group_get r k
  end.

Definition keys (g : groups) : list path := map fst g.

(** the path with ".butler-rename-<n>" appended to its last component *)
Fixpoint tmp_path (p : path) (n : N) : path :=
  match p with
  | [] => []
  | [c] => [R c n]
  | c :: r => c :: tmp_path r n
  end.

(** (fix) first number above [seed] whose temporary name is not taken by either build *)
Fixpoint pick_seed (taken : list path) (p : path) (seed : N) (fuel : nat) : N :=
  match fuel with
  | O => seed + 1
  | S f => if mem (tmp_path p (seed + 1)) taken then pick_seed taken p (seed + 1) f else seed + 1
  end.

(** clash detection for one group: destinations that are keys themselves get a temporary name
    and a cleanup rename.  State: (seed, cleanups so far). *)
Fixpoint rename_group (taken ks : list path) (k : path) (dests : list path) (seed : N) (cl : list (path * path))
  : list path * N * list (path * path) :=
  match dests with
  | [] => ([], seed, cl)
  | p :: r =>
      if path_eqb k p then
        let '(r', s', cl') := rename_group taken ks k r seed cl in (p :: r', s', cl')
      else if mem p ks then
        let n := pick_seed taken p seed (S (length taken)) in
        let safe := tmp_path p n in
        let '(r', s', cl') := rename_group taken ks k r n (cl ++ [(safe, p)]) in (safe :: r', s', cl')
      else
        let '(r', s', cl') := rename_group taken ks k r seed cl in (p :: r', s', cl')
  end.

(** first map iteration, in [order1] *)
Fixpoint rename_clashes (taken : list path) (g : groups) (order1 : list path) (seed : N) (cl : list (path * path))
  : groups * list (path * path) :=
  match order1 with
  | [] => ([], cl)
  | k :: r =>
      match group_get g k with
      | None => rename_clashes taken g r seed cl
      | Some dests =>
          let '(dests', s', cl') := rename_group taken (keys g) k dests seed cl in
          let '(g', cl'') := rename_clashes taken g r s' cl' in
          ((k, dests') :: g', cl'')
      end
  end.

Definition copy_or_move (behavior_copy : bool) (t : fs) (src dst : path) : res fs :=
  if behavior_copy then copy t src dst false else move t src dst.

(** applyMultipleTranspositions *)
Fixpoint copy_all (t : fs) (k : path) (ds : list path) : res fs :=
  match ds with
  | [] => Ok t
  | d :: r => do t1 <- copy t k d true ;; copy_all t1 k r
  end.

Fixpoint remove_first (k : path) (ds : list path) : list path :=
  match ds with
  | [] => []
  | d :: r => if path_eqb k d then r else d :: remove_first k r
  end.

Definition apply_multiple (behavior_copy : bool) (t : fs) (k : path) (ds : list path) : res fs :=
  if mem k ds then copy_all t k (remove_first k ds)
  else match ds with
       | [] => Ok t
       | first :: others => do t1 <- copy_all t k others ;; copy_or_move behavior_copy t1 k first
       end.

Definition apply_group (over : list path) (t : fs) (e : path * list path) : res fs :=
  let '(k, ds) := e in
  let behavior_copy := mem k over in
  match ds with
  | [d] => if path_eqb k d then Ok t else copy_or_move behavior_copy t k d
  | _ => apply_multiple behavior_copy t k ds
  end.

(** second map iteration, in [order2], over the renamed groups *)
Fixpoint apply_groups (over : list path) (g' : groups) (order2 : list path) (t : fs) : res fs :=
  match order2 with
  | [] => Ok t
  | k :: r =>
      match group_get g' k with
      | None => apply_groups over g' r t
      | Some ds => do t1 <- apply_group over t (k, ds) ;; apply_groups over g' r t1
      end
  end.

Definition cleanup_renames (cl : list (path * path)) (t : fs) : res fs :=
  fold_res (fun t e => move t (fst e) (snd e)) cl t.

Definition apply_transpositions (oc nc : container) (w : work) (order1 order2 : list path) (t : fs) : res fs :=
  let g := group_by (w_trans w) in
  let taken := c_paths oc ++ c_paths nc in
  let '(g', cl) := rename_clashes taken g order1 0 [] in
  do t1 <- apply_groups (w_over w) g' order2 t ;;
  cleanup_renames cl t1.

(* ------------------------------------------------------------------ applyMoves *)

(** move(stage/p, output/p): the staged file is renamed across the two folders *)
Definition move_from_stage (st : stage) (t : fs) (p : path) : res fs :=
  do t1 <- match remove t p with
        | Ok t1 => Ok t1
        | Err ENOENT => Ok t
        | Err e => Err e
        | Unmodelled => Unmodelled
        end ;;
  do t2 <- mkdir_all t1 (parent p) ;;
  match stage_get st p with
  | Some (SWhole c) =>
      do _ <- parent_ok t2 p ;;
      match lookup t2 p with
      | Some Dir => Err EISDIR
      | _ => Ok (set t2 p (File c))
      end
  | Some (SOverlay _) => Err EINVAL      (* never produced by the patch phase for a move file *)
  | None => Err ENOENT
  end.

Definition apply_moves (w : work) (st : stage) (t : fs) : res fs :=
  fold_res (move_from_stage st) (w_moves w) t.

(* ------------------------------------------------------------------ applyOverlays *)

(** [OverlayPatchContext.Patch] on a write-seeker positioned at 0, then Truncate(position): the
    writes are sequential, so the result is assembled front to back; skipping past the end of
    the existing content leaves a hole of zeros. *)
Fixpoint take_pad (n : nat) (l : list N) : list N :=
  match n with
  | O => []
  | S n' => match l with [] => 0 :: take_pad n' [] | x :: r => x :: take_pad n' r end
  end.

Fixpoint apply_ops (ops : list ovop) (cur : list N) : list N :=
  match ops with
  | [] => []
  | Skip n :: r => take_pad (N.to_nat n) cur ++ apply_ops r (skipn (N.to_nat n) cur)
  | Fresh d :: r => d ++ apply_ops r (skipn (length d) cur)
  end.

Definition apply_overlay (st : stage) (t : fs) (p : path) : res fs :=
  match stage_get st p with
  | Some (SOverlay ops) =>
      do cur <- open_existing t p ;;
      Ok (set t p (File (apply_ops ops cur)))
  | Some (SWhole _) => Err EINVAL        (* not an overlay file: ExpectMagic fails *)
  | None => Err ENOENT
  end.

Definition apply_overlays (w : work) (st : stage) (t : fs) : res fs :=
  fold_res (apply_overlay st) (w_over w) t.

(* ------------------------------------------------------------------ deleteGhosts *)

Inductive gkind := GFile | GLink | GDir.
Definition ghost := (gkind * path)%type.

Definition detect_ghosts (nc oc : container) : list ghost :=
  let present := c_paths nc in
  map (fun p => (GFile, p)) (filter (fun p => negb (mem p present)) (c_files oc)) ++
  map (fun l => (GLink, fst l)) (filter (fun l => negb (mem (fst l) present)) (c_links oc)) ++
  map (fun p => (GDir, p)) (filter (fun p => negb (mem p present)) (c_dirs oc)).

(** (fix) a proper ancestor of [p] is a symlink of the new build *)
Definition under_new_link (nc : container) (p : path) : bool :=
  existsb (fun l => is_proper_prefix (fst l) p) (c_links nc).

Definition delete_ghost (nc : container) (t : fs) (g : ghost) : res fs :=
  let '(k, p) := g in
  if under_new_link nc p then Ok t
  else match lstat t p with
       | Unmodelled => Unmodelled
       | Err _ => Ok t
       | Ok _ =>
           match remove t p with
           | Ok t1 => Ok t1
           | Err ENOENT => Ok t
           | Unmodelled => Unmodelled
           | Err e => match k with GDir => Ok t | _ => Err e end
           end
       end.

Definition delete_ghosts (nc : container) (gorder : list ghost) (t : fs) : res fs :=
  fold_res (delete_ghost nc) gorder t.

(* ------------------------------------------------------------------ Commit *)

Definition commit (oc nc : container) (w : work) (st : stage) (order1 order2 : list path) (gorder : list ghost) (t : fs) : res fs :=
  do t1 <- ensure_dirs_and_symlinks nc t ;;
  do t2 <- apply_transpositions oc nc w order1 order2 t1 ;;
  do t3 <- apply_moves w st t2 ;;
  do t4 <- apply_overlays w st t3 ;;
  delete_ghosts nc gorder t4.

(* ------------------------------------------------------------------ patch phase *)

(** The patcher visits the new files in index order and, for each, either calls
    [Transpose] (the first op is a whole-file block range of equal size) or [GetWriter] and
    writes the new content; what it writes is computed from the old build, which it only
    reads.  [mk_overlay old new] stands for the overlay writer (property C14). *)
Inductive pstep :=
  | PTranspose (p k : path)                    (* new path, old path *)
  | PWrite (p : path) (content : fs -> list N) (* new path, content as a function of the old tree *).

Record world := mkWorld { out : fs; stg : stage; wk : work }.

Definition transpose (tr : list (path * path)) (p k : path) : list (path * path) :=
  if mem p (map fst tr)
  then map (fun e => if path_eqb (fst e) p then (p, k) else e) tr
  else tr ++ [(p, k)].

Definition mark (l : list path) (p : path) : list path := if mem p l then l else l ++ [p].

Definition stage_put (s : stage) (p : path) (f : stagefile) : stage :=
  (p, f) :: filter (fun e => negb (path_eqb (fst e) p)) s.

Section Patch.
  Variable mk_overlay : list N -> list N -> list ovop.

  Definition patch_step (oc : container) (wd : world) (s : pstep) : world :=
    match s with
    | PTranspose p k =>
        mkWorld (out wd) (stg wd) (mkW (transpose (w_trans (wk wd)) p k) (w_over (wk wd)) (w_moves (wk wd)))
    | PWrite p content =>
        let data := content (out wd) in
        if mem p (c_files oc)
        then (* targetFilesByPath has it: overlay writer against the old file at the same path *)
          let cur := match lookup (out wd) p with Some (File c) => c | _ => [] end in
          mkWorld (out wd) (stage_put (stg wd) p (SOverlay (mk_overlay cur data)))
                  (mkW (w_trans (wk wd)) (mark (w_over (wk wd)) p) (w_moves (wk wd)))
        else
          mkWorld (out wd) (stage_put (stg wd) p (SWhole data))
                  (mkW (w_trans (wk wd)) (w_over (wk wd)) (mark (w_moves (wk wd)) p))
    end.

  Definition patch_phase (oc : container) (steps : list pstep) (wd : world) : world :=
    fold_left (patch_step oc) steps wd.
End Patch.
