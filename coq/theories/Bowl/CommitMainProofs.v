(** Commit phases 3-5 (applyMoves, applyOverlays, deleteGhosts) and the main theorem: for a sound
    patch-phase result, well-formed builds and the kind hypothesis, [commit] succeeds for every
    order of its map iterations and every admissible ghost order, and the resulting tree is the
    new build's tree. *)
From Coq Require Import Permutation.
From Wharf Require Import Base.Prelude Bowl.FSmini Bowl.FSminiProofs Bowl.OverlayCommit Bowl.CommitSpec
  Bowl.CommitBuildProofs Bowl.CommitPhase1Proofs Bowl.CommitOpsProofs Bowl.CommitRenameProofs Bowl.CommitTransProofs.
Local Open Scope N_scope.

Lemma node_eq_dir : forall n : node, {n = Dir} + {n <> Dir}.
Proof. intros n. destruct n; [right; discriminate | now left | right; discriminate]. Qed.

Section Main.
  Variables (ob nb : build) (w : work) (st : stage).
  Hypothesis Wo : wf_build ob.
  Hypothesis Wn : wf_build nb.
  Hypothesis PS : patch_sound ob nb w st.
  Hypothesis HK : H_kinds ob nb w.

  Local Notation tr := (w_trans w).
  Local Notation ks := (keys (group_by (w_trans w))).
  Local Notation old := (lookup (tree_of ob)).
  Local Notation new := (lookup (tree_of nb)).
  Local Notation s2 := (state2 ob nb w).

  (* ---------------------------------------------------------------- phase 2, packaged *)

  Lemma phase2_ok : forall order1 order2 t1,
    Permutation order1 ks -> Permutation order2 ks ->
    (forall q, lookup t1 q = state1 ob nb q) ->
    exists t2, apply_transpositions (cont ob) (cont nb) w order1 order2 t1 = Ok t2 /\ forall q, lookup t2 q = s2 q.
  Proof.
    intros order1 order2 t1 P1 P2 Inv. unfold apply_transpositions.
    destruct (rename_clashes (c_paths (cont ob) ++ c_paths (cont nb)) (group_by tr) order1 0 []) as [g' clf] eqn:RC.
    apply (phase2_with_groups ob nb w st Wo Wn PS HK order1 order2 P1 P2 g' clf RC t1 Inv).
  Qed.

  (* ---------------------------------------------------------------- facts about state2 *)

  Lemma in_files_bpaths : forall b p, In p (map fst (b_files b)) -> In p (bpaths b).
  Proof. intros b p H. rewrite bpaths_split. apply in_or_app. right. apply in_or_app. now left. Qed.

  Lemma newfile_not_dir_link : forall p, In p (map fst (b_files nb)) -> ~ In p (b_dirs nb) /\ ~ In p (map fst (b_links nb)).
  Proof. intros p H. split; intros H2; [now apply (dir_not_file nb Wn p) | now apply (file_not_link nb Wn p)]. Qed.

  Lemma newfile_state1 : forall p, In p (map fst (b_files nb)) -> state1 ob nb p = old p.
  Proof.
    intros p H. destruct (newfile_not_dir_link p H) as [Hd Hl]. rewrite (state1_other ob nb p Hd Hl).
    rewrite (not_under_link_if_dirs nb Wn p); [reflexivity|].
    intros a A. right. apply (tree_dir nb Wn). apply (wf_closed nb Wn p a (in_files_bpaths nb p H) A).
  Qed.

  Lemma trans_src_newfile : forall q k, trans_src tr q = Some k -> In q (map fst tr).
  Proof. intros q k H. apply trans_src_some in H as [H _]. apply in_map_iff. now exists (q, k). Qed.

  Lemma fst_tr_newfile : forall q, In q (map fst tr) -> In q (map fst (b_files nb)).
  Proof. intros q H. apply (proj2 (ps_cover ob nb w st PS q)). now left. Qed.

  Lemma over_newfile : forall q, In q (w_over w) -> In q (map fst (b_files nb)).
  Proof. intros q H. apply (proj2 (ps_cover ob nb w st PS q)). right. now left. Qed.

  Lemma moves_newfile : forall q, In q (w_moves w) -> In q (map fst (b_files nb)).
  Proof. intros q H. apply (proj2 (ps_cover ob nb w st PS q)). right. now right. Qed.

  Lemma s2_newdir : forall a, In a (b_dirs nb) -> s2 a = Some Dir.
  Proof.
    intros a Ha. unfold state2.
    destruct (trans_src tr a) as [k|] eqn:E.
    - exfalso. apply (dir_not_file nb Wn a Ha). apply fst_tr_newfile. now apply (trans_src_newfile a k).
    - assert (Hk : mem a ks = false) by (apply mem_false; now apply (newdir_not_key ob nb w Wn HK)).
      rewrite Hk. cbn [andb]. now apply state1_dir.
  Qed.

  Lemma newfile_dirs_above : forall t p, (forall a, In a (b_dirs nb) -> lookup t a = Some Dir) ->
    In p (map fst (b_files nb)) -> dirs_above t p.
  Proof.
    intros t p H Hp. apply dirs_above_iff. intros a A. apply H. apply (wf_closed nb Wn p a (in_files_bpaths nb p Hp) A).
  Qed.

  (* ---------------------------------------------------------------- phase 3: staged moves *)

  Definition state3 (done : list path) (q : path) : option node := if mem q done then new q else s2 q.

  Lemma move_facts : forall p, In p (w_moves w) ->
    exists c, stage_get st p = Some (SWhole c) /\ new p = Some (File c) /\ ~ In p (map fst (b_files ob)) /\
              (s2 p = None \/ exists d, s2 p = Some (Link d)).
  Proof.
    intros p H. destruct (ps_moves ob nb w st PS p H) as [Hno [c [Hs Hc]]]. exists c.
    split; [assumption|]. split; [now apply (tree_file nb Wn)|]. split; [assumption|].
    pose proof (moves_newfile p H) as Hf.
    unfold state2. destruct (trans_src tr p) as [k|] eqn:E.
    - exfalso. apply trans_src_newfile in E. destruct (ps_disj_to ob nb w st PS p E) as [_ Hm]. contradiction.
    - assert (Hk : mem p ks = false).
      { apply mem_false. intros Hk. apply Hno. pose proof (key_old ob nb w st Wo PS p Hk) as Ho. apply tree_file_inv in Ho.
        apply in_map_iff. now exists (p, ocont ob p). }
      rewrite Hk. cbn [andb]. rewrite (newfile_state1 p Hf).
      destruct (old p) as [[c'| |d]|] eqn:Eo.
      + exfalso. apply Hno. apply tree_file_inv in Eo. apply in_map_iff. now exists (p, c').
      + exfalso. now apply (hk_dir_to_file ob nb w HK p Hf).
      + right. now exists d.
      + now left.
  Qed.

  Lemma phase3_step : forall done p t,
    In p (w_moves w) -> incl done (w_moves w) ->
    (forall q, lookup t q = state3 done q) ->
    exists t', move_from_stage st t p = Ok t' /\ forall q, lookup t' q = state3 (done ++ [p]) q.
  Proof.
    intros done p t Hp Hdone Inv.
    destruct (move_facts p Hp) as [c [Hs [Hn [Hno Hs2]]]].
    pose proof (moves_newfile p Hp) as Hf.
    assert (Hdirs : forall a, In a (b_dirs nb) -> lookup t a = Some Dir).
    { intros a Ha. rewrite Inv. unfold state3. destruct (mem a done) eqn:E; [|now apply s2_newdir].
      apply mem_In in E. exfalso. apply (dir_not_file nb Wn a Ha). apply moves_newfile. now apply Hdone. }
    assert (Dp : dirs_above t p) by (now apply newfile_dirs_above).
    assert (Lp : lookup t p = None \/ exists n, lookup t p = Some n /\ n <> Dir).
    { rewrite Inv. unfold state3. destruct (mem p done).
      - right. rewrite Hn. eexists. split; [reflexivity | discriminate].
      - destruct Hs2 as [->|[d ->]]; [now left | right; eexists; split; [reflexivity | discriminate]]. }
    unfold move_from_stage.
    assert (H1 : exists t1, match remove t p with Ok t1 => Ok t1 | Err ENOENT => Ok t | Err e => Err e | Unmodelled => Unmodelled end = Ok t1 /\
                   forall q, lookup t1 q = if path_eqb p q then None else lookup t q).
    { destruct Lp as [Lp|[n [Lp Hnd]]].
      - rewrite (remove_missing t p Dp Lp). exists t. split; [reflexivity|]. intros q.
        destruct (path_eqb p q) eqn:E; [apply path_eqb_eq in E; now subst | reflexivity].
      - rewrite (remove_nondir t p n Dp Lp Hnd). eexists. split; [reflexivity|]. intros q. apply lookup_unset. }
    destruct H1 as [t1 [-> L1]]. cbn [bind].
    assert (Dp1 : dirs_above t1 p).
    { apply (dirs_above_change t); [|assumption]. intros a A. rewrite L1.
      pose proof (above_neq a p A) as Hne. apply not_eq_sym, path_eqb_neq in Hne. now rewrite Hne. }
    rewrite (mkdir_parent_noop t1 p Dp1). cbn [bind]. rewrite Hs, (parent_ok_ok t1 p Dp1). cbn [bind].
    rewrite L1, path_eqb_refl. eexists. split; [reflexivity|].
    intros q. rewrite lookup_set, L1. unfold state3. rewrite mem_app, mem_cons, mem_nil, orb_false_r, (path_eqb_sym q p).
    destruct (path_eqb p q) eqn:E.
    - apply path_eqb_eq in E. subst q. now rewrite orb_true_r.
    - rewrite orb_false_r, Inv. reflexivity.
  Qed.

  Lemma phase3 : forall rest done t,
    incl done (w_moves w) -> incl rest (w_moves w) ->
    (forall q, lookup t q = state3 done q) ->
    exists t', fold_res (move_from_stage st) rest t = Ok t' /\ forall q, lookup t' q = state3 (done ++ rest) q.
  Proof.
    induction rest as [|p rest IH]; intros done t Hd Hr Inv; cbn [fold_res].
    - exists t. split; [reflexivity|]. now rewrite app_nil_r.
    - destruct (phase3_step done p t (Hr p (or_introl eq_refl)) Hd Inv) as [t1 [-> Inv1]]. cbn [bind].
      destruct (IH (done ++ [p]) t1) as [t' [H' Inv']].
      + intros x Hx. apply in_app_or in Hx as [Hx|[<-|[]]]; [now apply Hd | apply Hr; now left].
      + intros x Hx. apply Hr. now right.
      + assumption.
      + exists t'. split; [assumption|]. intros q. rewrite Inv'. now rewrite <- app_assoc.
  Qed.

  (* ---------------------------------------------------------------- phase 4: overlays *)

  Definition state4 (done : list path) (q : path) : option node := if mem q done then new q else state3 (w_moves w) q.

  Lemma phase4_step : forall done p t,
    In p (w_over w) -> incl done (w_over w) -> ~ In p done ->
    (forall q, lookup t q = state4 done q) ->
    exists t', apply_overlay st t p = Ok t' /\ forall q, lookup t' q = state4 (done ++ [p]) q.
  Proof.
    intros done p t Hp Hdone Hnin Inv.
    destruct (ps_over ob nb w st PS p Hp) as [ops [c [cn [Hs [Ho [Hn Ha]]]]]].
    pose proof (over_newfile p Hp) as Hf.
    assert (Hdirs : forall a, In a (b_dirs nb) -> lookup t a = Some Dir).
    { intros a Ha'. rewrite Inv. unfold state4, state3.
      destruct (mem a done) eqn:E.
      { apply mem_In in E. exfalso. apply (dir_not_file nb Wn a Ha'). apply over_newfile. now apply Hdone. }
      destruct (mem a (w_moves w)) eqn:E2; [|now apply s2_newdir].
      apply mem_In in E2. exfalso. apply (dir_not_file nb Wn a Ha'). now apply moves_newfile. }
    assert (Dp : dirs_above t p) by (now apply newfile_dirs_above).
    assert (Hnt : ~ In p (map fst tr)).
    { intros H. destruct (ps_disj_to ob nb w st PS p H) as [H1 _]. contradiction. }
    assert (Lp : lookup t p = Some (File c)).
    { rewrite Inv. unfold state4, state3. apply mem_false in Hnin. rewrite Hnin.
      assert (Hm : mem p (w_moves w) = false) by (apply mem_false; now apply (ps_disj_om ob nb w st PS p Hp)).
      rewrite Hm. unfold state2. destruct (trans_src tr p) as [k|] eqn:E.
      + exfalso. apply Hnt. now apply (trans_src_newfile p k).
      + unfold movedb. apply mem_In in Hp. rewrite Hp. cbn [negb]. rewrite !andb_false_r.
        rewrite (newfile_state1 p Hf). now apply (tree_file ob Wo). }
    unfold apply_overlay. rewrite Hs. unfold open_existing.
    rewrite (read_file_ok t p c Dp Lp). cbn [bind]. eexists. split; [reflexivity|].
    intros q. rewrite lookup_set. unfold state4. rewrite mem_app, mem_cons, mem_nil, orb_false_r, (path_eqb_sym q p).
    destruct (path_eqb p q) eqn:E.
    - apply path_eqb_eq in E. subst q. rewrite orb_true_r, Ha. symmetry. now apply (tree_file nb Wn).
    - rewrite orb_false_r, Inv. reflexivity.
  Qed.

  Lemma phase4 : forall rest done t,
    incl done (w_over w) -> incl rest (w_over w) -> NoDup (done ++ rest) ->
    (forall q, lookup t q = state4 done q) ->
    exists t', fold_res (apply_overlay st) rest t = Ok t' /\ forall q, lookup t' q = state4 (done ++ rest) q.
  Proof.
    induction rest as [|p rest IH]; intros done t Hd Hr Hnd Inv; cbn [fold_res].
    - exists t. split; [reflexivity|]. now rewrite app_nil_r.
    - assert (Hnin : ~ In p done).
      { apply NoDup_remove_2 in Hnd. intros H. apply Hnd. apply in_or_app. now left. }
      destruct (phase4_step done p t (Hr p (or_introl eq_refl)) Hd Hnin Inv) as [t1 [-> Inv1]]. cbn [bind].
      destruct (IH (done ++ [p]) t1) as [t' [H' Inv']].
      + intros x Hx. apply in_app_or in Hx as [Hx|[<-|[]]]; [now apply Hd | apply Hr; now left].
      + intros x Hx. apply Hr. now right.
      + now rewrite <- app_assoc.
      + assumption.
      + exists t'. split; [assumption|]. intros q. rewrite Inv'. now rewrite <- app_assoc.
  Qed.

  (* ---------------------------------------------------------------- the tree before ghost deletion *)

  Definition state4f : path -> option node := state4 (w_over w).

  Lemma state4f_new : forall q n, new q = Some n -> state4f q = Some n.
  Proof.
    intros q n Hq. unfold state4f, state4, state3.
    destruct (mem q (w_over w)) eqn:Eo; [assumption|].
    destruct (mem q (w_moves w)) eqn:Em; [assumption|].
    apply mem_false in Eo, Em.
    destruct (tree_some_inv nb q n Hq) as [[-> Hd] | [[d [-> Hl]] | [c [-> Hc]]]].
    - now apply s2_newdir.
    - (* symlink of the new build *)
      unfold state2. destruct (trans_src tr q) as [k|] eqn:E.
      + exfalso. apply trans_src_newfile, fst_tr_newfile in E. apply (file_not_link nb Wn q E). apply in_map_iff. now exists (q, d).
      + assert (Hk : mem q ks = false).
        { apply mem_false. intros Hk. destruct (key_kind ob nb w HK q Hk) as [[E1|[c E1]] _]; rewrite Hq in E1; discriminate. }
        rewrite Hk. cbn [andb]. now apply (state1_link ob nb Wn).
    - (* regular file: it is a transposition *)
      assert (Hf : In q (map fst (b_files nb))) by (apply in_map_iff; now exists (q, c)).
      destruct (proj1 (ps_cover ob nb w st PS q) Hf) as [Ht|[Ht|Ht]]; [|contradiction|contradiction].
      apply in_map_iff in Ht as [[q' k] [E Ht]]. cbn in E. subst q'.
      pose proof (trans_content ob nb w st Wo Wn PS q k Ht) as Hc'. rewrite Hq in Hc'. unfold state2.
      destruct (path_eq_dec q k) as [->|Hne].
      + destruct (trans_src tr k) as [k'|] eqn:E.
        * exfalso. apply trans_src_some in E as [E1 E2]. apply E2.
          apply (nodup_fst_functional _ _ tr k k k' (ps_trans_nodup ob nb w st PS) Ht E1).
        * assert (Hk : In k ks) by (apply group_by_keys; now exists k).
          unfold movedb. assert (Hm : mem k (dests_of tr k) = true) by (apply mem_In; now apply dests_of_In).
          rewrite Hm. cbn [negb andb]. rewrite andb_false_r. rewrite (key_state1 ob nb w st Wo Wn PS HK k Hk). now rewrite Hc'.
      + rewrite (trans_src_intro ob nb w st PS q k Ht Hne). now rewrite Hc'.
  Qed.

  Lemma state4f_nonew : forall q, new q = None ->
    state4f q = if under_new_link (cont nb) q || (mem q ks && movedb w q) then None else old q.
  Proof.
    intros q Hq. unfold state4f, state4, state3.
    assert (Hnf : ~ In q (map fst (b_files nb))).
    { intros H. apply in_map_iff in H as [[q' c] [E H]]. cbn in E. subst q'. rewrite (tree_file nb Wn q c H) in Hq. discriminate. }
    assert (Eo : mem q (w_over w) = false) by (apply mem_false; intros H; apply Hnf; now apply over_newfile).
    assert (Em : mem q (w_moves w) = false) by (apply mem_false; intros H; apply Hnf; now apply moves_newfile).
    rewrite Eo, Em. unfold state2.
    destruct (trans_src tr q) as [k|] eqn:E; [exfalso; apply Hnf; apply fst_tr_newfile; now apply (trans_src_newfile q k)|].
    rewrite state1_other.
    - destruct (mem q ks && movedb w q); [now rewrite orb_true_r | now rewrite orb_false_r].
    - intros Hd. rewrite (tree_dir nb Wn q Hd) in Hq. discriminate.
    - intros Hl. apply in_map_iff in Hl as [[q' d] [E' Hl]]. cbn in E'. subst q'. rewrite (tree_link nb Wn q d Hl) in Hq. discriminate.
  Qed.

  (* ---------------------------------------------------------------- phase 5: ghosts *)

  Local Notation ghosts := (detect_ghosts (cont nb) (cont ob)).

  Lemma tree_in_some : forall b p, wf_build b -> In p (bpaths b) -> exists n, lookup (tree_of b) p = Some n.
  Proof.
    intros b p W H. rewrite bpaths_split in H. apply in_app_or in H as [H|H].
    - exists Dir. now apply tree_dir.
    - apply in_app_or in H as [H|H]; apply in_map_iff in H as [[q x] [E H]]; cbn in E; subst q.
      + exists (File x). now apply tree_file.
      + exists (Link x). now apply tree_link.
  Qed.

  Lemma ghost_in : forall k p, In (k, p) ghosts -> In p (bpaths ob) /\ ~ In p (bpaths nb).
  Proof.
    intros k p H. unfold detect_ghosts in H. cbn [cont c_dirs c_files c_links] in H.
    change (c_paths (cont nb)) with (bpaths nb) in H.
    rewrite bpaths_split.
    apply in_app_or in H as [H|H]; [|apply in_app_or in H as [H|H]]; apply in_map_iff in H as [x [E H]];
      apply filter_In in H as [H1 H2]; apply negb_true_iff, mem_false in H2; injection E as _ E.
    - subst x. split; [|assumption]. apply in_or_app. right. apply in_or_app. now left.
    - split; [|now rewrite <- E]. apply in_or_app. right. apply in_or_app. right. rewrite <- E. now apply in_map.
    - subst x. split; [|assumption]. apply in_or_app. now left.
  Qed.

  Lemma ghost_exists : forall p, In p (bpaths ob) -> ~ In p (bpaths nb) -> exists k, In (k, p) ghosts.
  Proof.
    intros p Ho Hn. unfold detect_ghosts. cbn [cont c_dirs c_files c_links].
    change (c_paths (cont nb)) with (bpaths nb).
    apply mem_false in Hn. rewrite bpaths_split in Ho. apply in_app_or in Ho as [Ho|Ho]; [|apply in_app_or in Ho as [Ho|Ho]].
    - exists GDir. apply in_or_app. right. apply in_or_app. right. apply in_map_iff. exists p. split; [reflexivity|].
      apply filter_In. split; [assumption | now rewrite Hn].
    - exists GFile. apply in_or_app. left. apply in_map_iff. exists p. split; [reflexivity|].
      apply filter_In. split; [assumption | now rewrite Hn].
    - exists GLink. apply in_or_app. right. apply in_or_app. left. apply in_map_iff in Ho as [[q d] [E Ho]]. cbn in E. subst q.
      apply in_map_iff. exists (p, d). split; [reflexivity|]. apply filter_In. split; [assumption | cbn [fst]; now rewrite Hn].
  Qed.

  Definition state5 (gd : list ghost) (q : path) : option node := if mem q (map snd gd) then None else state4f q.

  Lemma state5_snoc_removed : forall gd k p t',
    (forall q, lookup t' q = if path_eqb p q then None else state5 gd q) ->
    forall q, lookup t' q = state5 (gd ++ [(k, p)]) q.
  Proof.
    intros gd k p t' H q. rewrite H. unfold state5. rewrite map_app, mem_app. cbn [map snd]. rewrite mem_cons, mem_nil, orb_false_r, (path_eqb_sym q p).
    destruct (path_eqb p q); [now rewrite orb_true_r | now rewrite orb_false_r].
  Qed.

  Lemma state5_snoc_gone : forall gd k p t,
    (forall q, lookup t q = state5 gd q) -> state5 gd p = None ->
    forall q, lookup t q = state5 (gd ++ [(k, p)]) q.
  Proof.
    intros gd k p t H Hp. apply state5_snoc_removed. intros q. destruct (path_eqb p q) eqn:E; [|apply H].
    apply path_eqb_eq in E. subst q. now rewrite H.
  Qed.

  Lemma under_link_down : forall a p, above a p -> under_new_link (cont nb) a = true -> under_new_link (cont nb) p = true.
  Proof.
    intros a p [r [-> [Ha Hr]]] H. unfold under_new_link in *. apply existsb_exists in H as [l [Hl Hp]].
    apply existsb_exists. exists l. split; [assumption|]. apply is_proper_prefix_spec in Hp as [r' [-> Hr']].
    apply is_proper_prefix_spec. exists (r' ++ r). split; [now rewrite app_assoc | destruct r'; [contradiction | discriminate]].
  Qed.

  Lemma phase5_step : forall go gd k p rest t,
    ghost_order_ok nb ob go -> go = gd ++ (k, p) :: rest ->
    (forall q, lookup t q = state5 gd q) ->
    exists t', delete_ghost (cont nb) t (k, p) = Ok t' /\ forall q, lookup t' q = state5 (gd ++ [(k, p)]) q.
  Proof.
    intros go gd k p rest t [Hperm Hord] E Inv.
    assert (Hg : In (k, p) ghosts).
    { apply (Permutation_in _ Hperm). rewrite E. apply in_or_app. right. now left. }
    destruct (ghost_in k p Hg) as [Hpo Hpn].
    destruct (tree_in_some ob p Wo Hpo) as [n Hn].
    assert (Hnew : new p = None) by (now apply tree_none).
    assert (Hpne : p <> []) by (now apply (wf_nonempty ob Wo)).
    unfold delete_ghost. destruct (under_new_link (cont nb) p) eqn:Eu.
    { exists t. split; [reflexivity|]. apply state5_snoc_gone; [assumption|].
      unfold state5. destruct (mem p (map snd gd)); [reflexivity|]. now rewrite (state4f_nonew p Hnew), Eu. }
    (* everything above p is still a directory *)
    assert (Dp : dirs_above t p).
    { apply dirs_above_iff. intros a A. rewrite Inv. unfold state5.
      assert (Hna : mem a (map snd gd) = false).
      { apply mem_false. intros Hin. apply in_map_iff in Hin as [[ka a'] [Ea Hin]]. cbn in Ea. subst a'.
        apply in_split in Hin as [l1 [l2 ->]].
        assert (Ego : go = l1 ++ (ka, a) :: l2 ++ (k, p) :: rest) by (rewrite E, <- app_assoc; reflexivity).
        pose proof (Hord l1 (ka, a) l2 (k, p) rest Ego) as Hf. cbn [snd] in Hf.
        rewrite (above_proper_prefix a p A) in Hf. discriminate. }
      rewrite Hna.
      assert (Hoa : old a = Some Dir) by (apply (tree_above_dir ob p a n Wo Hn A)).
      destruct (new a) as [[c| |d]|] eqn:Ena.
      - exfalso. apply (hk_dir_to_file ob nb w HK a); [|assumption]. apply tree_file_inv in Ena. apply in_map_iff. now exists (a, c).
      - now apply state4f_new.
      - exfalso. assert (Hu : under_new_link (cont nb) p = true).
        { unfold under_new_link. apply existsb_exists. exists (a, d). split; [now apply tree_link_inv | now apply above_proper_prefix]. }
        congruence.
      - rewrite (state4f_nonew a Ena).
        assert (Hua : under_new_link (cont nb) a = false).
        { destruct (under_new_link (cont nb) a) eqn:Eua; [|reflexivity]. rewrite (under_link_down a p A Eua) in Eu. discriminate. }
        assert (Hka : mem a ks = false).
        { apply mem_false. intros Hk. rewrite (key_old ob nb w st Wo PS a Hk) in Hoa. discriminate. }
        now rewrite Hua, Hka. }
    rewrite (lstat_ok t p Dp).
    destruct (lookup t p) as [m|] eqn:Lp.
    2:{ exists t. split; [reflexivity|]. apply state5_snoc_gone; [assumption|]. now rewrite <- Inv. }
    (* p is still there: it is what the old build had *)
    assert (Hm : mem p (map snd gd) = false /\ m = n).
    { rewrite Inv in Lp. unfold state5 in Lp. destruct (mem p (map snd gd)); [discriminate|]. split; [reflexivity|].
      rewrite (state4f_nonew p Hnew) in Lp. destruct (under_new_link (cont nb) p || (mem p ks && movedb w p)); [discriminate|].
      rewrite Hn in Lp. now injection Lp. }
    destruct Hm as [Hmp ->].
    assert (Hrm : remove t p = Ok (unset t p)).
    { destruct (node_eq_dir n) as [->|Hnd].
      - apply (remove_empty_dir t p Dp Lp). intros q Hq.
        rewrite Inv. unfold state5. destruct (mem q (map snd gd)) eqn:Emq; [reflexivity|].
        pose proof (proper_prefix_above p q Hpne Hq) as A.
        assert (Hnq : new q = None).
        { destruct (new q) as [m|] eqn:Enq; [|reflexivity].
          rewrite (tree_above_dir nb q p m Wn Enq A) in Hnew. discriminate. }
        rewrite (state4f_nonew q Hnq).
        destruct (under_new_link (cont nb) q || (mem q ks && movedb w q)); [reflexivity|].
        destruct (old q) as [m|] eqn:Eoq; [|reflexivity]. exfalso.
        assert (Hqo : In q (bpaths ob)) by (now apply (tree_some_in ob q m)).
        assert (Hqn : ~ In q (bpaths nb)).
        { intros Hin. destruct (tree_in_some nb q Wn Hin) as [m' Hm']. rewrite Hm' in Hnq. discriminate. }
        destruct (ghost_exists q Hqo Hqn) as [kq Hgq].
        apply (Permutation_in _ (Permutation_sym Hperm)) in Hgq. rewrite E in Hgq.
        apply in_app_or in Hgq as [Hgq|[Hgq|Hgq]].
        + apply mem_false in Emq. apply Emq. apply in_map_iff. now exists (kq, q).
        + injection Hgq as _ Epq. subst q. apply is_proper_prefix_spec in Hq as [r [Er Hr]].
          rewrite <- (app_nil_r p) in Er at 1. apply app_inv_head in Er. now subst r.
        + apply in_split in Hgq as [l2 [l3 ->]].
          pose proof (Hord gd (k, p) l2 (kq, q) l3 E) as Hf. cbn [snd] in Hf. congruence.
      - apply (remove_nondir t p n Dp Lp Hnd). }
    rewrite Hrm. eexists. split; [reflexivity|]. apply state5_snoc_removed. intros q. rewrite lookup_unset.
    destruct (path_eqb p q); [reflexivity | apply Inv].
  Qed.

  Lemma phase5 : forall go rest gd t,
    ghost_order_ok nb ob go -> go = gd ++ rest ->
    (forall q, lookup t q = state5 gd q) ->
    exists t', fold_res (delete_ghost (cont nb)) rest t = Ok t' /\ forall q, lookup t' q = state5 go q.
  Proof.
    intros go. induction rest as [|[k p] rest IH]; intros gd t Hok E Inv; cbn [fold_res].
    - exists t. split; [reflexivity|]. rewrite E, app_nil_r. assumption.
    - destruct (phase5_step go gd k p rest t Hok E Inv) as [t1 [-> Inv1]]. cbn [bind].
      apply (IH (gd ++ [(k, p)]) t1 Hok); [now rewrite <- app_assoc | assumption].
  Qed.

  Lemma state5_final : forall go, ghost_order_ok nb ob go -> forall q, state5 go q = new q.
  Proof.
    intros go [Hperm _] q. unfold state5.
    destruct (new q) as [n|] eqn:Enq.
    - assert (Hm : mem q (map snd go) = false).
      { apply mem_false. intros Hin. apply in_map_iff in Hin as [[k q'] [E Hin]]. cbn in E. subst q'.
        apply (Permutation_in _ Hperm) in Hin. destruct (ghost_in k q Hin) as [_ Hn]. apply Hn. now apply (tree_some_in nb q n). }
      rewrite Hm. now apply state4f_new.
    - destruct (mem q (map snd go)) eqn:Em; [reflexivity|]. rewrite (state4f_nonew q Enq).
      destruct (under_new_link (cont nb) q || (mem q ks && movedb w q)); [reflexivity|].
      destruct (old q) as [m|] eqn:Eoq; [|reflexivity]. exfalso.
      assert (Hqo : In q (bpaths ob)) by (now apply (tree_some_in ob q m)).
      assert (Hqn : ~ In q (bpaths nb)).
      { intros Hin. destruct (tree_in_some nb q Wn Hin) as [m' Hm']. rewrite Hm' in Enq. discriminate. }
      destruct (ghost_exists q Hqo Hqn) as [kq Hgq]. apply (Permutation_in _ (Permutation_sym Hperm)) in Hgq.
      apply mem_false in Em. apply Em. apply in_map_iff. now exists (kq, q).
  Qed.

  (* ---------------------------------------------------------------- Commit *)

  Theorem commit_equals_new_lemma : forall order1 order2 go,
    Permutation order1 (trans_keys w) -> Permutation order2 (trans_keys w) -> ghost_order_ok nb ob go ->
    exists t', commit (cont ob) (cont nb) w st order1 order2 go (tree_of ob) = Ok t' /\
               forall p, lookup t' p = lookup (tree_of nb) p.
  Proof.
    intros order1 order2 go P1 P2 Hgo. unfold commit.
    destruct (phase1_ok ob nb Wo Wn) as [t1 [-> Inv1]]. cbn [bind].
    destruct (phase2_ok order1 order2 t1 P1 P2 Inv1) as [t2 [-> Inv2]]. cbn [bind].
    unfold apply_moves.
    destruct (phase3 (w_moves w) [] t2) as [t3 [-> Inv3]]; [intros x [] | apply incl_refl | intros q; now rewrite Inv2 |].
    cbn [bind app] in *. unfold apply_overlays.
    destruct (phase4 (w_over w) [] t3) as [t4 [-> Inv4]];
      [intros x [] | apply incl_refl | apply (ps_over_nodup ob nb w st PS) | intros q; now rewrite Inv3 |].
    cbn [bind app] in *. unfold delete_ghosts.
    destruct (phase5 go go [] t4 Hgo eq_refl) as [t5 [-> Inv5]]; [intros q; now rewrite Inv4|].
    exists t5. split; [reflexivity|]. intros p. rewrite Inv5. now apply state5_final.
  Qed.
End Main.
