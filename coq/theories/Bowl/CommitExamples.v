(** Ghost orders produced by sorting, a concrete instance of the hypotheses of the commit
    theorem (non-vacuity), and the three kind-swap witnesses on which the faithful model does
    not produce the new build (DESIGN section 7, #9 and #10). *)
From Coq Require Import Permutation Sorting.Sorted.
From Wharf Require Import Base.Prelude Bowl.FSmini Bowl.FSminiProofs Bowl.OverlayCommit Bowl.CommitSpec
  Bowl.CommitBuildProofs Bowl.CommitMainProofs.
Local Open Scope N_scope.

(* ------------------------------------------------------------------ ghost orders *)

(** Any list of all ghosts that is sorted by decreasing [len], for a measure that grows strictly
    from a path to its extensions (string length in Go, depth in the executable model), is an
    admissible ghost order. *)
Lemma sorted_later_le : forall (len : path -> nat) (l1 : list ghost) g1 l2 g2 l3,
  StronglySorted (fun g1 g2 => (len (snd g2) <= len (snd g1))%nat) (l1 ++ g1 :: l2 ++ g2 :: l3) ->
  (len (snd g2) <= len (snd g1))%nat.
Proof.
  intros len. induction l1 as [|x l1 IH]; intros g1 l2 g2 l3 Hs; cbn [app] in Hs.
  - apply StronglySorted_inv in Hs as [_ Hall].
    apply (proj1 (Forall_forall _ _) Hall). apply in_or_app. right. now left.
  - apply StronglySorted_inv in Hs as [Hs _]. now apply (IH g1 l2 g2 l3).
Qed.

Lemma sorted_ghost_order : forall (len : path -> nat) (nb ob : build) (go : list ghost),
  (forall a b, is_proper_prefix a b = true -> (len a < len b)%nat) ->
  Permutation go (detect_ghosts (cont nb) (cont ob)) ->
  StronglySorted (fun g1 g2 => (len (snd g2) <= len (snd g1))%nat) go ->
  ghost_order_ok nb ob go.
Proof.
  intros len nb ob go Hlen Hperm Hs. split; [assumption|].
  intros l1 g1 l2 g2 l3 E. subst go. pose proof (sorted_later_le len l1 g1 l2 g2 l3 Hs) as Hle.
  destruct (is_proper_prefix (snd g1) (snd g2)) eqn:Ep; [|reflexivity].
  apply Hlen in Ep. lia.
Qed.

(* ------------------------------------------------------------------ small instances *)

Lemma above_1 : forall q (a : comp), above q [a] -> False.
Proof. intros q a [r [E [Hq Hr]]]. destruct q as [|x [|y q]]; [contradiction | destruct r; [contradiction | discriminate] | discriminate]. Qed.

Lemma above_2 : forall q (a b : comp), above q [a; b] -> q = [a].
Proof.
  intros q a b [r [E [Hq Hr]]]. destruct q as [|x [|y [|z q]]]; [contradiction | now injection E as -> _ | | discriminate].
  destruct r; [contradiction | discriminate].
Qed.

Lemma short_list_split : forall (A : Type) (l1 l2 l3 : list A) g1 g2 (go : list A),
  (length go < 2)%nat -> go = l1 ++ g1 :: l2 ++ g2 :: l3 -> False.
Proof.
  intros A l1 l2 l3 g1 g2 go H E. subst go. rewrite app_length in H. cbn [length] in H. rewrite app_length in H. cbn [length] in H. lia.
Qed.

(** the chain a -> b -> c: b is a destination and a source, so it is parked under a temporary
    name; a is a ghost *)
Module Chain.
  Definition ob := mkB [] [] [([P 1], [1; 2]); ([P 2], [3])].
  Definition nb := mkB [] [] [([P 2], [1; 2]); ([P 3], [3])].
  Definition w := mkW [([P 2], [P 1]); ([P 3], [P 2])] [] [].
  Definition st : stage := [].
  Definition order := [[P 1]; [P 2]].
  Definition go : list ghost := [(GFile, [P 1])].

  Lemma wf_ob : wf_build ob.
  Proof.
    constructor.
    - repeat constructor; cbn; intuition congruence.
    - intros p H. cbn in H. intuition (subst; discriminate).
    - intros p q H A. cbn in H. destruct H as [<-|[<-|[]]]; now apply above_1 in A.
    - intros ds1 d ds2 q E. destruct ds1; discriminate.
  Qed.

  Lemma wf_nb : wf_build nb.
  Proof.
    constructor.
    - repeat constructor; cbn; intuition congruence.
    - intros p H. cbn in H. intuition (subst; discriminate).
    - intros p q H A. cbn in H. destruct H as [<-|[<-|[]]]; now apply above_1 in A.
    - intros ds1 d ds2 q E. destruct ds1; discriminate.
  Qed.

  Lemma sound : patch_sound ob nb w st.
  Proof.
    constructor; cbn.
    - repeat constructor; cbn; intuition congruence.
    - constructor.
    - constructor.
    - intros p. intuition.
    - intros p _. intuition.
    - intros p [].
    - intros p k [E|[E|[]]]; injection E as <- <-; eexists; split; [| |  | ]; cbn; eauto.
    - intros p [].
    - intros p [].
  Qed.

  Lemma kinds : H_kinds ob nb w.
  Proof.
    constructor.
    - intros p k H. cbn in H. destruct H as [E|[E|[]]]; injection E as <- <-; split.
      + left. reflexivity.
      + intros q A. now apply above_1 in A.
      + right. eexists. reflexivity.
      + intros q A. now apply above_1 in A.
    - intros p H. cbn in H. destruct H as [<-|[<-|[]]]; vm_compute; discriminate.
  Qed.

  Lemma orders : Permutation order (trans_keys w) /\ ghost_order_ok nb ob go.
  Proof.
    split; [apply Permutation_refl|]. split; [apply Permutation_refl|].
    intros l1 g1 l2 g2 l3 E. exfalso. apply (short_list_split _ l1 l2 l3 g1 g2 go); [cbn; lia | assumption].
  Qed.

  Lemma result :
    commit (cont ob) (cont nb) w st order (rev order) go (tree_of ob) = Ok [([P 2], File [1; 2]); ([P 3], File [3])].
  Proof. vm_compute. reflexivity. Qed.
End Chain.

(** old file x becomes a symlink while its content is renamed to y: Commit succeeds, y is the
    symlink, x is gone *)
Module FileToLink.
  Definition ob := mkB [[P 3]] [] [([P 1], [7; 7])].
  Definition nb := mkB [[P 3]] [([P 1], 9)] [([P 2], [7; 7])].
  Definition w := mkW [([P 2], [P 1])] [] [].
  Definition st : stage := [].
  Definition order := [[P 1]].
  Definition go : list ghost := [].

  Lemma wf_ob : wf_build ob.
  Proof.
    constructor.
    - repeat constructor; cbn; intuition congruence.
    - intros p H. cbn in H. intuition (subst; discriminate).
    - intros p q H A. cbn in H. destruct H as [<-|[<-|[]]]; now apply above_1 in A.
    - intros ds1 d ds2 q E A. destruct ds1 as [|x ds1]; [injection E as <- _; now apply above_1 in A | destruct ds1; discriminate].
  Qed.

  Lemma wf_nb : wf_build nb.
  Proof.
    constructor.
    - repeat constructor; cbn; intuition congruence.
    - intros p H. cbn in H. intuition (subst; discriminate).
    - intros p q H A. cbn in H. destruct H as [<-|[<-|[<-|[]]]]; now apply above_1 in A.
    - intros ds1 d ds2 q E A. destruct ds1 as [|x ds1]; [injection E as <- _; now apply above_1 in A | destruct ds1; discriminate].
  Qed.

  Lemma sound : patch_sound ob nb w st.
  Proof.
    constructor; cbn.
    - repeat constructor; cbn; intuition congruence.
    - constructor.
    - constructor.
    - intros p. intuition.
    - intros p _. intuition.
    - intros p [].
    - intros p k [E|[]]; injection E as <- <-; eexists; split; cbn; eauto.
    - intros p [].
    - intros p [].
  Qed.

  Lemma orders : Permutation order (trans_keys w) /\ ghost_order_ok nb ob go.
  Proof.
    split; [apply Permutation_refl|]. split; [apply Permutation_refl|].
    intros l1 g1 l2 g2 l3 E. exfalso. apply (short_list_split _ l1 l2 l3 g1 g2 go); [cbn; lia | assumption].
  Qed.

  Lemma result :
    commit (cont ob) (cont nb) w st order order go (tree_of ob) = Ok [([P 2], Link 9); ([P 3], Dir)].
  Proof. vm_compute. reflexivity. Qed.

  Lemma wrong : lookup [([P 2], Link 9); ([P 3], Dir)] [P 2] <> lookup (tree_of nb) [P 2].
  Proof. vm_compute. discriminate. Qed.
End FileToLink.

(** a non-empty directory of the old build where the new build has a regular file: error *)
Module DirToFile.
  Definition ob := mkB [[P 1]] [] [([P 1; P 2], [5]); ([P 3], [6])].
  Definition nb := mkB [] [] [([P 1], [8]); ([P 3], [6])].
  Definition w := mkW [([P 3], [P 3])] [] [[P 1]].
  Definition st : stage := [([P 1], SWhole [8])].
  Definition order := [[P 3]].
  Definition go : list ghost := [(GFile, [P 1; P 2])].

  Lemma wf_ob : wf_build ob.
  Proof.
    constructor.
    - repeat constructor; cbn; intuition congruence.
    - intros p H. cbn in H. intuition (subst; discriminate).
    - intros p q H A. cbn in H. destruct H as [<-|[<-|[<-|[]]]]; [now apply above_1 in A | apply above_2 in A; subst; now left | now apply above_1 in A].
    - intros ds1 d ds2 q E A. destruct ds1 as [|x ds1]; [injection E as <- _; now apply above_1 in A | destruct ds1; discriminate].
  Qed.

  Lemma wf_nb : wf_build nb.
  Proof.
    constructor.
    - repeat constructor; cbn; intuition congruence.
    - intros p H. cbn in H. intuition (subst; discriminate).
    - intros p q H A. cbn in H. destruct H as [<-|[<-|[]]]; now apply above_1 in A.
    - intros ds1 d ds2 q E. destruct ds1; discriminate.
  Qed.

  Lemma sound : patch_sound ob nb w st.
  Proof.
    constructor; cbn.
    - repeat constructor; cbn; intuition congruence.
    - constructor.
    - repeat constructor; cbn; intuition congruence.
    - intros p. intuition.
    - intros p [<-|[]]. split; [intros [] | intros [E|[]]; discriminate].
    - intros p [].
    - intros p k [E|[]]; injection E as <- <-; eexists; split; cbn; eauto.
    - intros p [].
    - intros p [<-|[]]. split; [intros [E|[E|[]]]; discriminate | eexists; split; [reflexivity | cbn; eauto]].
  Qed.

  Lemma orders : Permutation order (trans_keys w) /\ ghost_order_ok nb ob go.
  Proof.
    split; [apply Permutation_refl|]. split; [apply Permutation_refl|].
    intros l1 g1 l2 g2 l3 E. exfalso. apply (short_list_split _ l1 l2 l3 g1 g2 go); [cbn; lia | assumption].
  Qed.

  Lemma result : commit (cont ob) (cont nb) w st order order go (tree_of ob) = Err ENOTEMPTY.
  Proof. vm_compute. reflexivity. Qed.
End DirToFile.

(** a file of the old build becomes a directory and its content moves inside: error *)
Module FileToDir.
  Definition ob := mkB [] [] [([P 1], [5; 5]); ([P 3], [6])].
  Definition nb := mkB [[P 1]] [] [([P 1; P 2], [5; 5]); ([P 3], [6])].
  Definition w := mkW [([P 1; P 2], [P 1]); ([P 3], [P 3])] [] [].
  Definition st : stage := [].
  Definition order := [[P 1]; [P 3]].
  Definition go : list ghost := [].

  Lemma wf_ob : wf_build ob.
  Proof.
    constructor.
    - repeat constructor; cbn; intuition congruence.
    - intros p H. cbn in H. intuition (subst; discriminate).
    - intros p q H A. cbn in H. destruct H as [<-|[<-|[]]]; now apply above_1 in A.
    - intros ds1 d ds2 q E. destruct ds1; discriminate.
  Qed.

  Lemma wf_nb : wf_build nb.
  Proof.
    constructor.
    - repeat constructor; cbn; intuition congruence.
    - intros p H. cbn in H. intuition (subst; discriminate).
    - intros p q H A. cbn in H. destruct H as [<-|[<-|[<-|[]]]]; [now apply above_1 in A | apply above_2 in A; subst; now left | now apply above_1 in A].
    - intros ds1 d ds2 q E A. destruct ds1 as [|x ds1]; [injection E as <- _; now apply above_1 in A | destruct ds1; discriminate].
  Qed.

  Lemma sound : patch_sound ob nb w st.
  Proof.
    constructor; cbn.
    - repeat constructor; cbn; intuition congruence.
    - constructor.
    - constructor.
    - intros p. intuition.
    - intros p _. intuition.
    - intros p [].
    - intros p k [E|[E|[]]]; injection E as <- <-; eexists; split; cbn; eauto.
    - intros p [].
    - intros p [].
  Qed.

  Lemma orders : Permutation order (trans_keys w) /\ ghost_order_ok nb ob go.
  Proof.
    split; [apply Permutation_refl|]. split; [apply Permutation_refl|].
    intros l1 g1 l2 g2 l3 E. exfalso. apply (short_list_split _ l1 l2 l3 g1 g2 go); [cbn; lia | assumption].
  Qed.

  Lemma result : commit (cont ob) (cont nb) w st order order go (tree_of ob) = Err EISDIR.
  Proof. vm_compute. reflexivity. Qed.
End FileToDir.

(** packaged: inputs satisfying every hypothesis of the commit theorem except H_kinds on which
    Commit does not produce the new build *)
Definition commit_fails (ob nb : build) (w : work) (st : stage) (o1 o2 : list path) (go : list ghost) : Prop :=
  wf_build ob /\ wf_build nb /\ patch_sound ob nb w st /\
  Permutation o1 (trans_keys w) /\ Permutation o2 (trans_keys w) /\ ghost_order_ok nb ob go /\
  ~ exists t', commit (cont ob) (cont nb) w st o1 o2 go (tree_of ob) = Ok t' /\ forall p, lookup t' p = lookup (tree_of nb) p.

Lemma file_to_link_fails : commit_fails FileToLink.ob FileToLink.nb FileToLink.w FileToLink.st FileToLink.order FileToLink.order FileToLink.go.
Proof.
  split; [apply FileToLink.wf_ob|]. split; [apply FileToLink.wf_nb|]. split; [apply FileToLink.sound|].
  split; [apply FileToLink.orders|]. split; [apply FileToLink.orders|]. split; [apply FileToLink.orders|].
  intros [t' [E Hx]]. rewrite FileToLink.result in E. injection E as <-. apply FileToLink.wrong. apply Hx.
Qed.

Lemma dir_to_file_fails : commit_fails DirToFile.ob DirToFile.nb DirToFile.w DirToFile.st DirToFile.order DirToFile.order DirToFile.go.
Proof.
  split; [apply DirToFile.wf_ob|]. split; [apply DirToFile.wf_nb|]. split; [apply DirToFile.sound|].
  split; [apply DirToFile.orders|]. split; [apply DirToFile.orders|]. split; [apply DirToFile.orders|].
  intros [t' [E Hx]]. rewrite DirToFile.result in E. discriminate.
Qed.

Lemma file_to_dir_fails : commit_fails FileToDir.ob FileToDir.nb FileToDir.w FileToDir.st FileToDir.order FileToDir.order FileToDir.go.
Proof.
  split; [apply FileToDir.wf_ob|]. split; [apply FileToDir.wf_nb|]. split; [apply FileToDir.sound|].
  split; [apply FileToDir.orders|]. split; [apply FileToDir.orders|]. split; [apply FileToDir.orders|].
  intros [t' [E Hx]]. rewrite FileToDir.result in E. discriminate.
Qed.
