(** The patch phase produces a sound result: if the bowl calls describe the new build (every new
    file exactly once: either a transposition of an equal old file or a write of its content),
    and the overlay writer is correct (property C14, here a hypothesis on [mk_overlay]), then the
    work lists and the stage satisfy [patch_sound], and the output tree is untouched. *)
From Coq Require Import Permutation.
From Wharf Require Import Base.Prelude Bowl.FSmini Bowl.FSminiProofs Bowl.OverlayCommit Bowl.OverlayCommitProofs
  Bowl.CommitSpec Bowl.CommitBuildProofs Bowl.CommitMainProofs.
Local Open Scope N_scope.

Definition step_path (s : pstep) : path := match s with PTranspose p _ => p | PWrite p _ => p end.

(** the bowl calls describe the new build in terms of the old one *)
Record steps_describe (ob nb : build) (steps : list pstep) : Prop := {
  sd_nodup : NoDup (map step_path steps);
  sd_cover : forall p, In p (map fst (b_files nb)) <-> In p (map step_path steps);
  sd_trans : forall p k, In (PTranspose p k) steps -> exists c, In (p, c) (b_files nb) /\ In (k, c) (b_files ob);
  sd_write : forall p f, In (PWrite p f) steps -> In (p, f (tree_of ob)) (b_files nb)
}.

Lemma stage_get_put : forall s p f q, stage_get (stage_put s p f) q = if path_eqb p q then Some f else stage_get s q.
Proof.
  intros s p f q. unfold stage_put. cbn [stage_get]. destruct (path_eqb p q) eqn:E; [reflexivity|].
  induction s as [|[k x] s IH]; cbn [filter stage_get fst]; [reflexivity|].
  destruct (path_eqb k p) eqn:E1; cbn [negb].
  - apply path_eqb_eq in E1. subst k. rewrite E. apply IH.
  - cbn [stage_get]. destruct (path_eqb k q); [reflexivity | apply IH].
Qed.

Section PatchPhase.
  Variable mk : list N -> list N -> list ovop.
  Hypothesis mk_ok : forall cur new, apply_ops (mk cur new) cur = new.
  Variables ob nb : build.
  Hypothesis Wo : wf_build ob.
  Hypothesis Wn : wf_build nb.

  Local Notation told := (tree_of ob).
  Local Notation ofiles := (map fst (b_files ob)).

  (** invariant of the fold over the bowl calls *)
  Record pinv (done : list pstep) (wd : world) : Prop := {
    pi_out : out wd = told;
    pi_trans : forall p k, In (p, k) (w_trans (wk wd)) <-> In (PTranspose p k) done;
    pi_trans_nodup : NoDup (map fst (w_trans (wk wd)));
    pi_over : forall p, In p (w_over (wk wd)) <-> (exists f, In (PWrite p f) done) /\ In p ofiles;
    pi_over_nodup : NoDup (w_over (wk wd));
    pi_moves : forall p, In p (w_moves (wk wd)) <-> (exists f, In (PWrite p f) done) /\ ~ In p ofiles;
    pi_moves_nodup : NoDup (w_moves (wk wd));
    pi_stage : forall p f, In (PWrite p f) done ->
      stage_get (stg wd) p = Some (if mem p ofiles
                                   then SOverlay (mk (match lookup told p with Some (File c) => c | _ => [] end) (f told))
                                   else SWhole (f told))
  }.

  Lemma in_snoc : forall (A : Type) (l : list A) x y, In y (l ++ [x]) <-> In y l \/ y = x.
  Proof. intros A l x y. rewrite in_app_iff. cbn. intuition. Qed.

  Lemma nodup_snoc : forall (A : Type) (l : list A) x, NoDup l -> ~ In x l -> NoDup (l ++ [x]).
  Proof.
    intros A l x Hn Hx. apply NoDup_app_intro; [assumption | repeat constructor; intros [] |].
    intros y Hy [<-|[]]. contradiction.
  Qed.

  Lemma pinv_step : forall done s wd,
    pinv done wd -> ~ In (step_path s) (map step_path done) -> pinv (done ++ [s]) (patch_step mk (cont ob) wd s).
  Proof.
    intros done s wd I Hfresh.
    assert (Hnot : forall s', In s' done -> step_path s' <> step_path s).
    { intros s' Hs' E. apply Hfresh. rewrite <- E. now apply in_map. }
    destruct s as [p k | p content]; cbn [patch_step step_path] in *.
    - (* Transpose: the path was not transposed before, so it is appended *)
      assert (Hm : mem p (map fst (w_trans (wk wd))) = false).
      { apply mem_false. intros H. apply in_map_iff in H as [[p' k'] [E H]]. cbn in E. subst p'.
        apply (pi_trans done wd I) in H. now apply (Hnot _ H). }
      unfold transpose. rewrite Hm. constructor; cbn [out stg wk w_trans w_over w_moves].
      + apply (pi_out done wd I).
      + intros p' k'. rewrite in_snoc, in_snoc, (pi_trans done wd I p' k'). split; (intros [H|H]; [now left | right; congruence]).
      + rewrite map_app. cbn [map fst]. apply nodup_snoc; [apply (pi_trans_nodup done wd I) | now apply mem_false].
      + intros p'. rewrite (pi_over done wd I p'). split; intros [[f H] H2]; (split; [|assumption]); exists f.
        * apply in_or_app. now left.
        * apply in_app_or in H as [H|[H|[]]]; [assumption | discriminate].
      + apply (pi_over_nodup done wd I).
      + intros p'. rewrite (pi_moves done wd I p'). split; intros [[f H] H2]; (split; [|assumption]); exists f.
        * apply in_or_app. now left.
        * apply in_app_or in H as [H|[H|[]]]; [assumption | discriminate].
      + apply (pi_moves_nodup done wd I).
      + intros p' f H. apply in_app_or in H as [H|[H|[]]]; [now apply (pi_stage done wd I) | discriminate].
    - (* GetWriter + writes *)
      assert (Hno : ~ In p (w_over (wk wd))).
      { intros H. apply (pi_over done wd I) in H as [[f H] _]. now apply (Hnot _ H). }
      assert (Hnm : ~ In p (w_moves (wk wd))).
      { intros H. apply (pi_moves done wd I) in H as [[f H] _]. now apply (Hnot _ H). }
      assert (Hstage : forall s0 x p' f, In (PWrite p' f) done -> stage_get (stage_put s0 p x) p' = stage_get s0 p').
      { intros s0 x p' f H. rewrite stage_get_put. pose proof (Hnot _ H) as Hne. cbn in Hne.
        apply not_eq_sym, path_eqb_neq in Hne. now rewrite Hne. }
      change (c_files (cont ob)) with ofiles.
      destruct (mem p ofiles) eqn:Em; constructor; cbn [out stg wk w_trans w_over w_moves]; try apply I.
      + intros p' k'. rewrite (pi_trans done wd I p' k'), in_snoc. split; [now left | intros [H|H]; [assumption | discriminate]].
      + intros p'. unfold mark. apply mem_false in Hno. rewrite Hno. rewrite in_snoc, (pi_over done wd I p'). split.
        * intros [[[f H] H2]| ->].
          -- split; [exists f; apply in_or_app; now left | assumption].
          -- split; [exists content; apply in_or_app; right; now left | now apply mem_In].
        * intros [[f H] H2]. apply in_app_or in H as [H|[H|[]]]; [left; split; [now exists f | assumption] | right; congruence].
      + unfold mark. pose proof Hno as Hno'. apply mem_false in Hno'. rewrite Hno'. apply nodup_snoc; [apply I | assumption].
      + intros p'. rewrite (pi_moves done wd I p'). split; intros [[f H] H2]; (split; [|assumption]).
        * exists f. apply in_or_app. now left.
        * apply in_app_or in H as [H|[H|[]]]; [now exists f|]. injection H as -> _. exfalso. apply H2. now apply mem_In.
      + intros p' f H. apply in_app_or in H as [H|[H|[]]].
        * rewrite (Hstage _ _ p' f H). now apply (pi_stage done wd I).
        * injection H as -> ->. rewrite stage_get_put, path_eqb_refl, Em, (pi_out done wd I). reflexivity.
      + intros p' k'. rewrite (pi_trans done wd I p' k'), in_snoc. split; [now left | intros [H|H]; [assumption | discriminate]].
      + intros p'. rewrite (pi_over done wd I p'). split; intros [[f H] H2]; (split; [|assumption]).
        * exists f. apply in_or_app. now left.
        * apply in_app_or in H as [H|[H|[]]]; [now exists f|]. injection H as -> _. exfalso. apply mem_false in Em. contradiction.
      + intros p'. unfold mark. apply mem_false in Hnm. rewrite Hnm. rewrite in_snoc, (pi_moves done wd I p'). split.
        * intros [[[f H] H2]| ->].
          -- split; [exists f; apply in_or_app; now left | assumption].
          -- split; [exists content; apply in_or_app; right; now left | now apply mem_false].
        * intros [[f H] H2]. apply in_app_or in H as [H|[H|[]]]; [left; split; [now exists f | assumption] | right; congruence].
      + unfold mark. pose proof Hnm as Hnm'. apply mem_false in Hnm'. rewrite Hnm'. apply nodup_snoc; [apply I | assumption].
      + intros p' f H. apply in_app_or in H as [H|[H|[]]].
        * rewrite (Hstage _ _ p' f H). now apply (pi_stage done wd I).
        * injection H as -> ->. rewrite stage_get_put, path_eqb_refl, Em, (pi_out done wd I). reflexivity.
  Qed.

  Lemma pinv_fold : forall rest done wd,
    pinv done wd -> NoDup (map step_path (done ++ rest)) -> pinv (done ++ rest) (patch_phase mk (cont ob) rest wd).
  Proof.
    induction rest as [|s rest IH]; intros done wd I Hn; cbn [patch_phase fold_left].
    - now rewrite app_nil_r.
    - replace (done ++ s :: rest) with ((done ++ [s]) ++ rest) in * by (now rewrite <- app_assoc).
      apply IH; [|assumption]. apply pinv_step; [assumption|].
      rewrite !map_app in Hn. apply NoDup_app_remove_r in Hn. cbn [map] in Hn.
      intros H. apply (NoDup_app_disj _ _ _ (step_path s) Hn H). now left.
  Qed.

  Definition world0 : world := mkWorld told [] (mkW [] [] []).

  Lemma pinv0 : pinv [] world0.
  Proof.
    constructor; cbn.
    - reflexivity.
    - intros p k. split; intros [].
    - constructor.
    - intros p. split; [intros [] | intros [[f []] _]].
    - constructor.
    - intros p. split; [intros [] | intros [[f []] _]].
    - constructor.
    - intros p f [].
  Qed.

  Theorem patch_phase_sound_lemma : forall steps,
    steps_describe ob nb steps ->
    let wd := patch_phase mk (cont ob) steps world0 in
    out wd = told /\ patch_sound ob nb (wk wd) (stg wd).
  Proof.
    intros steps SD wd.
    pose proof (pinv_fold steps [] world0 pinv0 (sd_nodup ob nb steps SD)) as I. cbn [app] in I. fold wd in I.
    split; [apply (pi_out steps wd I)|].
    assert (Hstep : forall p, In p (map step_path steps) <->
              (exists k, In (PTranspose p k) steps) \/ (exists f, In (PWrite p f) steps)).
    { intros p. rewrite in_map_iff. split.
      - intros [[p' k|p' f] [E H]]; cbn in E; subst p'; [left; now exists k | right; now exists f].
      - intros [[k H]|[f H]]; [exists (PTranspose p k) | exists (PWrite p f)]; now split. }
    assert (Hexcl : forall p k f, In (PTranspose p k) steps -> In (PWrite p f) steps -> False).
    { intros p k f H1 H2. pose proof (sd_nodup ob nb steps SD) as Hn.
      apply in_split in H1 as [l1 [l2 ->]]. rewrite map_app in Hn. cbn [map step_path] in Hn. apply NoDup_remove_2 in Hn.
      apply Hn. apply in_app_or in H2 as [H2|[H2|H2]]; [|discriminate|];
        apply in_or_app; [left|right]; apply in_map_iff; exists (PWrite p f); now split. }
    constructor.
    - apply (pi_trans_nodup steps wd I).
    - apply (pi_over_nodup steps wd I).
    - apply (pi_moves_nodup steps wd I).
    - intros p. rewrite (sd_cover ob nb steps SD p), Hstep. split.
      + intros [[k H]|[f H]].
        * left. apply in_map_iff. exists (p, k). split; [reflexivity | now apply (pi_trans steps wd I)].
        * right. destruct (in_dec path_eq_dec p ofiles) as [Hi|Hi].
          -- left. apply (pi_over steps wd I). split; [now exists f | assumption].
          -- right. apply (pi_moves steps wd I). split; [now exists f | assumption].
      + intros [H|[H|H]].
        * apply in_map_iff in H as [[p' k] [E H]]. cbn in E. subst p'. left. exists k. now apply (pi_trans steps wd I).
        * apply (pi_over steps wd I) in H as [H _]. now right.
        * apply (pi_moves steps wd I) in H as [H _]. now right.
    - intros p H. apply in_map_iff in H as [[p' k] [E H]]. cbn in E. subst p'. apply (pi_trans steps wd I) in H. split; intros H2.
      + apply (pi_over steps wd I) in H2 as [[f H2] _]. now apply (Hexcl p k f).
      + apply (pi_moves steps wd I) in H2 as [[f H2] _]. now apply (Hexcl p k f).
    - intros p H H2. apply (pi_over steps wd I) in H as [_ H]. apply (pi_moves steps wd I) in H2 as [_ H2]. contradiction.
    - intros p k H. apply (pi_trans steps wd I) in H. now apply (sd_trans ob nb steps SD).
    - intros p H. apply (pi_over steps wd I) in H as [[f H] Hof].
      apply in_map_iff in Hof as [[p' c] [E Hof]]. cbn in E. subst p'.
      assert (Hm : mem p ofiles = true) by (apply mem_In; apply in_map_iff; now exists (p, c)).
      exists (mk c (f told)), c, (f told). split.
      + rewrite (pi_stage steps wd I p f H), Hm. now rewrite (tree_file ob Wo p c Hof).
      + split; [assumption|]. split; [now apply (sd_write ob nb steps SD) | apply mk_ok].
    - intros p H. apply (pi_moves steps wd I) in H as [[f H] Hof]. split; [assumption|].
      exists (f told). split; [|now apply (sd_write ob nb steps SD)].
      rewrite (pi_stage steps wd I p f H). apply mem_false in Hof. now rewrite Hof.
  Qed.
End PatchPhase.

(** end to end: patch phase, then Commit *)
Theorem inplace_apply_lemma :
  forall (mk : list N -> list N -> list ovop), (forall cur new, apply_ops (mk cur new) cur = new) ->
  forall (ob nb : build) (steps : list pstep),
    wf_build ob -> wf_build nb -> steps_describe ob nb steps ->
    let wd := patch_phase mk (cont ob) steps (world0 ob) in
    H_kinds ob nb (wk wd) ->
  forall (order1 order2 : list path) (go : list ghost),
    Permutation order1 (trans_keys (wk wd)) -> Permutation order2 (trans_keys (wk wd)) -> ghost_order_ok nb ob go ->
    out wd = tree_of ob /\
    exists t', commit (cont ob) (cont nb) (wk wd) (stg wd) order1 order2 go (out wd) = Ok t' /\
               forall p, lookup t' p = lookup (tree_of nb) p.
Proof.
  intros mk Hmk ob nb steps Wo Wn SD wd HK order1 order2 go P1 P2 Hgo.
  destruct (patch_phase_sound_lemma mk Hmk ob nb Wo steps SD) as [Hout PS]. fold wd in Hout, PS.
  split; [assumption|]. rewrite Hout.
  apply (commit_equals_new_lemma ob nb (wk wd) (stg wd) Wo Wn PS HK order1 order2 go P1 P2 Hgo).
Qed.
