(** Model of the output side of a fresh apply: the output directory as a tree, tlc's
    [Container.Prepare] (repo dependency lake/tlc/prepare.go, called by
    pwr/bowl/bowl_fresh.go:NewFreshBowl), the fresh bowl's entry writer
    (freshEntryWriter: MkdirAll parent, OpenFile(O_CREATE|O_WRONLY) - no truncation -, writes
    at the running offset) and [Transpose] (fspool.GetWriter: MkdirAll parent, remove a
    directory / symlink in the way, O_TRUNC, copy of the whole old file).

    Not modelled: permissions / modes, symlinks in the middle of a path (a [Link] met where a
    directory or a file is expected is an [Err]; never reached from a well-formed container),
    case-insensitive file systems.  Definitions only; lemmas in Bowl/FreshProofs.v. *)
From Wharf Require Import Base.Prelude.

(** three-valued result of every model function that mirrors a Go function which can fail:
    [Err] = an error is returned, [Panic] = Go would panic at this site *)
Inductive res (A : Type) := Ok (a : A) | Err | Panic.
Arguments Ok {A} a. Arguments Err {A}. Arguments Panic {A}.
Definition bind {A B} (r : res A) (f : A -> res B) : res B :=
  match r with Ok a => f a | Err => Err | Panic => Panic end.

(** paths are lists of segments (segment names are opaque numbers); [[]] is the root *)
Definition path := list N.
Definition path_eqb (a b : path) : bool := list_eqb N.eqb a b.

Inductive node := File (data : list byte) | Dir | Link (dest : list byte).

(** a directory tree: association list, the first binding of a path wins *)
Definition tree := list (path * node).

Fixpoint tlookup (t : tree) (p : path) : option node :=
  match t with
  | [] => None
  | (q, n) :: r => if path_eqb q p then Some n else tlookup r p
  end.
Definition tset (t : tree) (p : path) (n : node) : tree := (p, n) :: t.

Fixpoint is_prefix (p q : path) : bool :=      (* p is a prefix of q (or equal) *)
  match p, q with
  | [], _ => true
  | x :: p', y :: q' => N.eqb x y && is_prefix p' q'
  | _ :: _, [] => false
  end.
(** os.Remove / os.RemoveAll of [p]: [p] and everything below disappears *)
Definition tremove_all (t : tree) (p : path) : tree :=
  filter (fun e => negb (is_prefix p (fst e))) t.

Definition parent (p : path) : path := removelast p.

(** is [p] an existing directory (the root always is) *)
Definition is_dir (t : tree) (p : path) : bool :=
  match p with
  | [] => true
  | _ => match tlookup t p with Some Dir => true | _ => false end
  end.

(** os.MkdirAll: every prefix of [p] becomes a directory unless it already is one; a non-directory
    in the way is an error.  [done] = prefix already walked. *)
Fixpoint mkdir_all_from (t : tree) (done rest : path) : res tree :=
  match rest with
  | [] => Ok t
  | s :: rest' =>
    let cur := done ++ [s] in
    match tlookup t cur with
    | Some Dir => mkdir_all_from t cur rest'
    | Some _ => Err
    | None => mkdir_all_from (tset t cur Dir) cur rest'
    end
  end.
Definition mkdir_all (t : tree) (p : path) : res tree := mkdir_all_from t [] p.

Definition zeros (n : nat) : list byte := repeat 0%N n.

(** os.Truncate(path, size) on an existing regular file *)
Definition resize (d : list byte) (size : nat) : list byte :=
  firstn size d ++ zeros (size - length d).

(** a container: the (path, size) of every file, the directories, the (path, destination) of
    every symlink - in the order of the tlc.Container message *)
Record container := mkC { c_files : list (path * Z); c_dirs : list path; c_links : list (path * list byte) }.

(** prepareDir: MkdirAll + Chmod *)
Definition prepare_dir (t : tree) (d : path) : res tree := mkdir_all t d.

(** prepareFile: OpenFile(O_CREATE) (the parent must exist), Truncate to the declared size *)
Definition prepare_file (t : tree) (f : path * Z) : res tree :=
  let '(p, size) := f in
  if negb (is_dir t (parent p)) then Err
  else if (size <? 0)%Z then Err
  else match p with
       | [] => Err
       | _ => match tlookup t p with
              | None => Ok (tset t p (File (zeros (Z.to_nat size))))
              | Some (File d) => Ok (tset t p (File (resize d (Z.to_nat size))))
              | Some _ => Err
              end
       end.

(** prepareSymlink: RemoveAll + Symlink (the parent must exist) *)
Definition prepare_link (t : tree) (l : path * list byte) : res tree :=
  let '(p, dest) := l in
  match p with
  | [] => Err
  | _ => let t' := tremove_all t p in
         if negb (is_dir t' (parent p)) then Err else Ok (tset t' p (Link dest))
  end.

Fixpoint fold_res {A B} (f : A -> B -> res A) (a : A) (l : list B) : res A :=
  match l with
  | [] => Ok a
  | x :: r => bind (f a x) (fun a' => fold_res f a' r)
  end.

(** Container.Prepare(basePath): MkdirAll(basePath), then dirs, files, symlinks in that order *)
Definition prepare (c : container) (t : tree) : res tree :=
  bind (fold_res prepare_dir t (c_dirs c)) (fun t1 =>
  bind (fold_res prepare_file t1 (c_files c)) (fun t2 =>
  fold_res prepare_link t2 (c_links c))).

(** freshEntryWriter.Resume(nil): MkdirAll(dir), OpenFile(path, O_CREATE|O_WRONLY) *)
Definition entry_open (t : tree) (p : path) : res tree :=
  match p with
  | [] => Err
  | _ => bind (mkdir_all t (parent p)) (fun t1 =>
         match tlookup t1 p with
         | None => Ok (tset t1 p (File []))
         | Some (File _) => Ok t1
         | Some _ => Err
         end)
  end.

(** write(2) at offset [off] of a file holding [d] *)
Definition pwrite (d : list byte) (off : nat) (data : list byte) : list byte :=
  firstn off d ++ zeros (off - length d) ++ data ++ skipn (off + length data) d.

(** freshEntryWriter.Write at the writer's offset *)
Definition entry_write (t : tree) (p : path) (off : nat) (data : list byte) : res tree :=
  match tlookup t p with
  | Some (File d) => Ok (tset t p (File (pwrite d off data)))
  | _ => Err
  end.

(** fspool.GetWriter + io.Copy of the whole old file + Close (freshBowl.Transpose after the
    old file has been opened) *)
Definition transpose_write (t : tree) (p : path) (data : list byte) : res tree :=
  match p with
  | [] => Err
  | _ => bind (mkdir_all t (parent p)) (fun t1 =>
         let t2 := match tlookup t1 p with
                   | Some Dir | Some (Link _) => tremove_all t1 p
                   | _ => t1
                   end in
         Ok (tset t2 p (File data)))
  end.

(** all nonempty prefixes of [done ++ rest] that extend [done] (the last one is the path itself) *)
Fixpoint prefixes_from (done rest : path) : list path :=
  match rest with
  | [] => []
  | s :: rest' => (done ++ [s]) :: prefixes_from (done ++ [s]) rest'
  end.
Definition ne_prefixes (p : path) : list path := prefixes_from [] p.
(** proper non-empty prefixes of a path *)
Definition proper_prefixes (p : path) : list path := ne_prefixes (parent p).

(** a well-formed container (what a walk of a directory produces): no path twice, no entry at
    the root, every proper prefix of an entry is one of the directories, sizes not negative *)
Definition c_paths (c : container) : list path := c_dirs c ++ map fst (c_files c) ++ map fst (c_links c).
Definition wf_container (c : container) : Prop :=
  NoDup (c_paths c) /\ ~ In [] (c_paths c) /\
  (forall p q, In p (c_paths c) -> In q (proper_prefixes p) -> In q (c_dirs c)) /\
  (forall f, In f (c_files c) -> (0 <= snd f)%Z).

Fixpoint nodup_paths (l : list path) : bool :=
  match l with
  | [] => true
  | p :: r => negb (existsb (path_eqb p) r) && nodup_paths r
  end.
(** boolean version for the executable side *)
Definition wf_containerb (c : container) : bool :=
  nodup_paths (c_paths c) && negb (existsb (path_eqb []) (c_paths c)) &&
  forallb (fun p => forallb (fun q => existsb (path_eqb q) (c_dirs c)) (proper_prefixes p)) (c_paths c) &&
  forallb (fun f => (0 <=? snd f)%Z) (c_files c).

(** what Prepare lays out for a container: directories, zero-filled files of the declared
    sizes, symlinks *)
Definition ctree (c : container) : tree :=
  map (fun d => (d, Dir)) (c_dirs c) ++
  map (fun f => (fst f, File (zeros (Z.to_nat (snd f))))) (c_files c) ++
  map (fun l => (fst l, Link (snd l))) (c_links c).

(** ---- builds: what the properties quantify over ---- *)
Definition build := list (path * node).

Definition files_of (b : build) : list (path * list byte) :=
  flat_map (fun e => match snd e with File d => [(fst e, d)] | _ => [] end) b.
Definition dirs_of (b : build) : list path :=
  flat_map (fun e => match snd e with Dir => [fst e] | _ => [] end) b.
Definition links_of (b : build) : list (path * list byte) :=
  flat_map (fun e => match snd e with Link d => [(fst e, d)] | _ => [] end) b.

(** the container a walk of the build produces (sizes = actual lengths) and the file contents
    in container order (what a pool over that directory serves) *)
Definition container_of (b : build) : container :=
  mkC (map (fun f => (fst f, Z.of_nat (length (snd f)))) (files_of b)) (dirs_of b) (links_of b).
Definition contents_of (b : build) : list (list byte) := map snd (files_of b).

(** a well-formed build: no path twice, no entry at the root, every proper prefix of an entry
    is a directory entry *)
Definition wf_build (b : build) : Prop :=
  NoDup (map fst b) /\ ~ In [] (map fst b) /\
  forall p n q, In (p, n) b -> In q (proper_prefixes p) -> In (q, Dir) b.

(** boolean version for the executable side *)
Definition wf_buildb (b : build) : bool :=
  nodup_paths (map fst b) && negb (existsb (path_eqb []) (map fst b)) &&
  forallb (fun e => forallb (fun q => match tlookup b q with Some Dir => true | _ => false end)
                            (proper_prefixes (fst e))) b.
