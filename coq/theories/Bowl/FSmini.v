(** A small private filesystem model: exactly what [overlayBowl.Commit] uses.

    A tree is an association list path -> node, read through [lookup] only.  Operations return
    [Ok t | Err errno | Unmodelled]; the errno classes are those the Go code distinguishes
    ([os.IsNotExist] = ENOENT).  [Unmodelled] is returned wherever Linux would follow a symbolic
    link (an intermediate path component that is a link, or open(2) on a link): link
    destinations are opaque here, so the model declines instead of guessing; the theorems show
    that this outcome is unreachable under their hypotheses and the correspondence skips such
    cases.  Model code only; lemmas live in [Bowl/FSminiProofs.v]. *)
From Wharf Require Import Base.Prelude.
Local Open Scope N_scope.

(** Entry names.  [R c k] is the name [c ++ ".butler-rename-" ++ decimal k], every other name is
    a [P id]; so the temporary names of the commit phase are injective in (c, k) by
    construction (the harness maps real names to this type by parsing that suffix). *)
Inductive comp := P (id : N) | R (c : comp) (k : N).

Fixpoint comp_eqb (a b : comp) : bool :=
  match a, b with
  | P x, P y => N.eqb x y
  | R c k, R d l => comp_eqb c d && N.eqb k l
  | _, _ => false
  end.

Definition path := list comp.

Definition path_eqb (a b : path) : bool := list_eqb comp_eqb a b.

(** [is_prefix p q] : p is a (not necessarily proper) prefix of q *)
Fixpoint is_prefix (p q : path) : bool :=
  match p, q with
  | [], _ => true
  | a :: p', b :: q' => comp_eqb a b && is_prefix p' q'
  | _ :: _, [] => false
  end.

Definition is_proper_prefix (p q : path) : bool := is_prefix p q && negb (path_eqb p q).

Definition parent (p : path) : path := removelast p.

Inductive node := File (c : list N) | Dir | Link (dest : N).

Definition fs := list (path * node).

Fixpoint lookup (t : fs) (p : path) : option node :=
  match t with
  | [] => None
  | (q, n) :: r => if path_eqb q p then Some n else lookup r p
  end.

Definition unset (t : fs) (p : path) : fs := filter (fun e => negb (path_eqb (fst e) p)) t.
Definition set (t : fs) (p : path) (n : node) : fs := (p, n) :: unset t p.
Definition unset_tree (t : fs) (p : path) : fs := filter (fun e => negb (is_prefix p (fst e))) t.
Definition has_child (t : fs) (p : path) : bool := existsb (fun e => is_proper_prefix p (fst e)) t.

Inductive errno := ENOENT | ENOTDIR | EISDIR | ENOTEMPTY | EEXIST | EINVAL.

Inductive res (A : Type) := Ok (a : A) | Err (e : errno) | Unmodelled.
Arguments Ok {A} a.
Arguments Err {A} e.
Arguments Unmodelled {A}.

Definition bind {A B} (r : res A) (f : A -> res B) : res B :=
  match r with Ok a => f a | Err e => Err e | Unmodelled => Unmodelled end.
Notation "'do' x <- r ;; k" := (bind r (fun x => k)) (at level 200, x name, r at level 100, k at level 200).

(** every proper non-empty prefix of [pre ++ rest] beyond [pre] must be a directory
    ([pre] = components already checked) *)
Fixpoint resolve_dirs (t : fs) (pre rest : path) : res unit :=
  match rest with
  | [] => Ok tt
  | [_] => Ok tt
  | c :: rest' =>
      let q := pre ++ [c] in
      match lookup t q with
      | None => Err ENOENT
      | Some (File _) => Err ENOTDIR
      | Some (Link _) => Unmodelled
      | Some Dir => resolve_dirs t q rest'
      end
  end.

Definition parent_ok (t : fs) (p : path) : res unit := resolve_dirs t [] p.

(** lstat(2): the node at [p], not following a final link *)
Definition lstat (t : fs) (p : path) : res node :=
  do _ <- parent_ok t p ;;
  match lookup t p with
  | None => Err ENOENT
  | Some n => Ok n
  end.

Definition readlink (t : fs) (p : path) : res N :=
  do n <- lstat t p ;;
  match n with Link d => Ok d | _ => Err EINVAL end.

(** os.Remove: unlink, or rmdir of an empty directory *)
Definition remove (t : fs) (p : path) : res fs :=
  do n <- lstat t p ;;
  match n with
  | Dir => if has_child t p then Err ENOTEMPTY else Ok (unset t p)
  | _ => Ok (unset t p)
  end.

(** os.RemoveAll: the whole subtree; nil when the path does not exist *)
Definition remove_all (t : fs) (p : path) : res fs :=
  match lstat t p with
  | Ok _ => Ok (unset_tree t p)
  | Err ENOENT => Ok t
  | Err e => Err e
  | Unmodelled => Unmodelled
  end.

(** os.MkdirAll: creates every missing prefix (and [pre ++ rest] itself) *)
Fixpoint mkdir_from (t : fs) (pre rest : path) : res fs :=
  match rest with
  | [] => Ok t
  | c :: rest' =>
      let q := pre ++ [c] in
      match lookup t q with
      | None => mkdir_from (set t q Dir) q rest'
      | Some Dir => mkdir_from t q rest'
      | Some (File _) => Err ENOTDIR
      | Some (Link _) => Unmodelled
      end
  end.

Definition mkdir_all (t : fs) (p : path) : res fs := mkdir_from t [] p.

Definition symlink (t : fs) (dest : N) (p : path) : res fs :=
  do _ <- parent_ok t p ;;
  match lookup t p with
  | Some _ => Err EEXIST
  | None => Ok (set t p (Link dest))
  end.

(** moving a directory with everything below it *)
Definition move_subtree (t : fs) (src dst : path) : fs :=
  let sub := filter (fun e => is_prefix src (fst e)) t in
  let rest := filter (fun e => negb (is_prefix src (fst e)) && negb (is_prefix dst (fst e))) t in
  map (fun e => (dst ++ skipn (length src) (fst e), snd e)) sub ++ rest.

(** Go's os.Rename: an existing directory as the new name is refused up front (after reporting a
    bad old name); otherwise rename(2) *)
Definition rename (t : fs) (src dst : path) : res fs :=
  match lstat t dst with
  | Ok Dir => do _ <- lstat t src ;; Err EEXIST
  | Unmodelled => Unmodelled
  | _ =>
      do n <- lstat t src ;;
      do _ <- parent_ok t dst ;;
      match n with
      | Dir =>
          if is_prefix src dst then Err EINVAL
          else match lookup t dst with
               | Some _ => Err ENOTDIR
               | None => Ok (move_subtree t src dst)
               end
      | _ => if path_eqb src dst then Ok t else Ok (set (unset t src) dst n)
      end
  end.

(** open(O_RDONLY) + read everything (follows a final link: unmodelled) *)
Definition read_file (t : fs) (p : path) : res (list N) :=
  do n <- lstat t p ;;
  match n with
  | File c => Ok c
  | Dir => Err EISDIR
  | Link _ => Unmodelled
  end.

(** open(O_CREATE|O_WRONLY|O_TRUNC) + write everything *)
Definition create_trunc (t : fs) (p : path) (c : list N) : res fs :=
  do _ <- parent_ok t p ;;
  match lookup t p with
  | Some Dir => Err EISDIR
  | Some (Link _) => Unmodelled
  | _ => Ok (set t p (File c))
  end.

(** open(O_WRONLY) of an existing file: its current content *)
Definition open_existing (t : fs) (p : path) : res (list N) := read_file t p.

(** equality of trees as finite maps (used by the executable comparison only) *)
Definition node_eqb (a b : node) : bool :=
  match a, b with
  | File x, File y => nlist_eqb x y
  | Dir, Dir => true
  | Link x, Link y => N.eqb x y
  | _, _ => false
  end.

Definition onode_eqb (a b : option node) : bool :=
  match a, b with
  | Some x, Some y => node_eqb x y
  | None, None => true
  | _, _ => false
  end.

Definition fs_eqb (a b : fs) : bool :=
  forallb (fun e => onode_eqb (lookup a (fst e)) (lookup b (fst e))) (a ++ b).
