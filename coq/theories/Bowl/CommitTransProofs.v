(** Commit phase 2, applyTranspositions, for arbitrary orders of its two map iterations:
    started on the tree left by phase 1 it succeeds and leaves [state2]: every non-noop
    destination holds the old content of its source, every source that is neither kept (noop)
    nor patched in place is gone, no temporary name survives, everything else is untouched. *)
From Coq Require Import Permutation.
From Wharf Require Import Base.Prelude Bowl.FSmini Bowl.FSminiProofs Bowl.OverlayCommit Bowl.CommitSpec
  Bowl.CommitBuildProofs Bowl.CommitPhase1Proofs Bowl.CommitOpsProofs Bowl.CommitRenameProofs.
Local Open Scope N_scope.

(* ------------------------------------------------------------------ list helpers *)

Lemma nodup_fst_functional : forall (A B : Type) (l : list (A * B)) a b b',
  NoDup (map fst l) -> In (a, b) l -> In (a, b') l -> b = b'.
Proof.
  intros A B. induction l as [|[x y] l IH]; intros a b b' H H1 H2; [destruct H1|].
  cbn [map fst] in H. inversion H as [|? ? Hn Hd]; subst.
  destruct H1 as [E1|H1]; destruct H2 as [E2|H2].
  - congruence.
  - injection E1 as -> ->. exfalso. apply Hn. apply in_map_iff. now exists (a, b').
  - injection E2 as -> ->. exfalso. apply Hn. apply in_map_iff. now exists (a, b).
  - now apply (IH a b b').
Qed.

Lemma nodup_snd_functional_gen : forall (A B : Type) (l : list (A * B)) a a' b,
  NoDup (map snd l) -> In (a, b) l -> In (a', b) l -> a = a'.
Proof.
  intros A B. induction l as [|[x y] l IH]; intros a a' b H H1 H2; [destruct H1|].
  cbn [map snd] in H. inversion H as [|? ? Hn Hd]; subst.
  destruct H1 as [E1|H1]; destruct H2 as [E2|H2].
  - congruence.
  - injection E1 as -> ->. exfalso. apply Hn. apply in_map_iff. now exists (a', b).
  - injection E2 as -> ->. exfalso. apply Hn. apply in_map_iff. now exists (a, b).
  - now apply (IH a a' b).
Qed.

Lemma in_combine_exists_r : forall (A B : Type) (l : list A) (l' : list B) x,
  length l = length l' -> In x l -> exists y, In (x, y) (combine l l').
Proof.
  intros A B. induction l as [|a l IH]; intros l' x Hlen Hin; [destruct Hin|].
  destruct l' as [|b l']; [discriminate|]. cbn [combine]. destruct Hin as [->|Hin].
  - exists b. now left.
  - injection Hlen as Hlen. destruct (IH l' x Hlen Hin) as [y Hy]. exists y. now right.
Qed.

Lemma in_combine_exists_l : forall (A B : Type) (l : list A) (l' : list B) y,
  length l = length l' -> In y l' -> exists x, In (x, y) (combine l l').
Proof.
  intros A B. induction l as [|a l IH]; intros l' y Hlen Hin; destruct l' as [|b l']; try discriminate; [destruct Hin|].
  cbn [combine]. destruct Hin as [->|Hin].
  - exists a. now left.
  - injection Hlen as Hlen. destruct (IH l' y Hlen Hin) as [x Hx]. exists x. now right.
Qed.

Lemma map_fst_combine : forall (A B : Type) (l : list A) (l' : list B), length l = length l' -> map fst (combine l l') = l.
Proof.
  intros A B. induction l as [|a l IH]; intros l' H; destruct l' as [|b l']; try discriminate; [reflexivity|].
  cbn. injection H as H. now rewrite IH.
Qed.

Lemma map_snd_combine : forall (A B : Type) (l : list A) (l' : list B), length l = length l' -> map snd (combine l l') = l'.
Proof.
  intros A B. induction l as [|a l IH]; intros l' H; destruct l' as [|b l']; try discriminate; [reflexivity|].
  cbn. injection H as H. now rewrite IH.
Qed.

Lemma nodup_fst_of_snd : forall (A B : Type) (l : list (A * B)),
  NoDup (map snd l) -> (forall e1 e2, In e1 l -> In e2 l -> fst e1 = fst e2 -> snd e1 = snd e2) -> NoDup (map fst l).
Proof.
  intros A B. induction l as [|e l IH]; intros Hn Hf; [constructor|].
  cbn [map] in *. inversion Hn as [|? ? Hne Hnd]; subst. constructor.
  - intros Hin. apply in_map_iff in Hin as [e2 [E He2]]. apply Hne. apply in_map_iff. exists e2. split; [|assumption].
    symmetry. apply Hf; [now left | now right | now symmetry].
  - apply IH; [assumption|]. intros e1 e2 H1 H2. apply Hf; now right.
Qed.

(** the key of the group in which [q] is a destination other than the key itself *)
Fixpoint src_of (g' : groups) (q : path) : option path :=
  match g' with
  | [] => None
  | (k, ds') :: r => if mem q ds' && negb (path_eqb q k) then Some k else src_of r q
  end.

Lemma src_of_some : forall g' q k, NoDup (keys g') -> src_of g' q = Some k ->
  exists ds', group_get g' k = Some ds' /\ In q ds' /\ q <> k.
Proof.
  induction g' as [|[k0 ds0] g' IH]; intros q k Hnd H; cbn [src_of] in H; [discriminate|].
  cbn [keys map fst] in Hnd. inversion Hnd as [|? ? Hn Hd]; subst.
  destruct (mem q ds0 && negb (path_eqb q k0)) eqn:E.
  - injection H as <-. apply andb_true_iff in E as [E1 E2]. exists ds0. cbn [group_get]. rewrite path_eqb_refl.
    split; [reflexivity|]. split; [now apply mem_In | apply negb_true_iff in E2; now apply path_eqb_neq].
  - destruct (IH q k Hd H) as [ds' [G [Hin Hne]]]. exists ds'. cbn [group_get].
    destruct (path_eqb k0 k) eqn:Ek; [|now repeat split].
    apply path_eqb_eq in Ek. subst k0. exfalso. apply Hn. apply group_get_keys. now exists ds'.
Qed.

Lemma src_of_none : forall g' q, src_of g' q = None ->
  forall k ds', group_get g' k = Some ds' -> In q ds' -> q = k.
Proof.
  induction g' as [|[k0 ds0] g' IH]; intros q H k ds' G Hin; cbn [group_get] in G; [discriminate|].
  cbn [src_of] in H. destruct (mem q ds0 && negb (path_eqb q k0)) eqn:E; [discriminate|].
  destruct (path_eqb k0 k) eqn:Ek.
  - apply path_eqb_eq in Ek. subst k0. injection G as <-. apply mem_In in Hin. rewrite Hin in E. cbn in E.
    apply negb_false_iff in E. now apply path_eqb_eq.
  - now apply (IH q H k ds').
Qed.

Fixpoint cl_dst (cd : list (path * path)) (q : path) : option path :=
  match cd with
  | [] => None
  | (T, D) :: r => if path_eqb D q then Some T else cl_dst r q
  end.

Lemma cl_dst_some : forall cd q T, cl_dst cd q = Some T -> In (T, q) cd.
Proof.
  induction cd as [|[T0 P0] cd IH]; intros q T H; cbn [cl_dst] in H; [discriminate|].
  destruct (path_eqb P0 q) eqn:E.
  - apply path_eqb_eq in E. injection H as ->. subst. now left.
  - right. now apply IH.
Qed.

Lemma cl_dst_none : forall cd q, cl_dst cd q = None -> ~ In q (map snd cd).
Proof.
  induction cd as [|[T0 P0] cd IH]; intros q H; cbn [cl_dst] in H; [intros []|].
  destruct (path_eqb P0 q) eqn:E; [discriminate|]. cbn [map snd]. intros [H1|H1].
  - subst. rewrite path_eqb_refl in E. discriminate.
  - now apply (IH q H).
Qed.

Lemma cl_dst_notin : forall cd q, ~ In q (map snd cd) -> cl_dst cd q = None.
Proof.
  intros cd q H. destruct (cl_dst cd q) as [T|] eqn:E; [|reflexivity].
  apply cl_dst_some in E. exfalso. apply H. apply in_map_iff. now exists (T, q).
Qed.

Lemma cl_dst_app : forall a b q, cl_dst (a ++ b) q = match cl_dst a q with Some T => Some T | None => cl_dst b q end.
Proof.
  induction a as [|[T P] a IH]; intros b q; cbn [app cl_dst]; [reflexivity|].
  destruct (path_eqb P q); [reflexivity | apply IH].
Qed.

Fixpoint trans_src (l : list (path * path)) (q : path) : option path :=
  match l with
  | [] => None
  | (p, k) :: r => if path_eqb p q && negb (path_eqb p k) then Some k else trans_src r q
  end.

Lemma trans_src_some : forall l q k, trans_src l q = Some k -> In (q, k) l /\ q <> k.
Proof.
  induction l as [|[p k0] l IH]; intros q k H; cbn [trans_src] in H; [discriminate|].
  destruct (path_eqb p q && negb (path_eqb p k0)) eqn:E.
  - injection H as <-. apply andb_true_iff in E as [E1 E2]. apply path_eqb_eq in E1. subst p.
    apply negb_true_iff, path_eqb_neq in E2. split; [now left | assumption].
  - destruct (IH q k H) as [H1 H2]. split; [now right | assumption].
Qed.

Lemma trans_src_none : forall l q k, trans_src l q = None -> In (q, k) l -> q = k.
Proof.
  induction l as [|[p k0] l IH]; intros q k H Hin; [destruct Hin|]. cbn [trans_src] in H.
  destruct (path_eqb p q && negb (path_eqb p k0)) eqn:E; [discriminate|].
  destruct Hin as [E1|Hin]; [|now apply (IH q k)].
  injection E1 as -> ->. rewrite path_eqb_refl in E. cbn in E. apply negb_false_iff in E. now apply path_eqb_eq.
Qed.

Lemma mem_perm : forall q l l', Permutation l l' -> mem q l = mem q l'.
Proof.
  intros q l l' H. destruct (mem q l') eqn:E.
  - apply mem_In. apply mem_In in E. apply (Permutation_in q (Permutation_sym H) E).
  - apply mem_false. apply mem_false in E. intros Hin. apply E. apply (Permutation_in q H Hin).
Qed.

Section Trans.
  Variables (ob nb : build) (w : work) (st : stage).
  Hypothesis Wo : wf_build ob.
  Hypothesis Wn : wf_build nb.
  Hypothesis PS : patch_sound ob nb w st.
  Hypothesis HK : H_kinds ob nb w.

  Local Notation tr := (w_trans w).
  Local Notation g := (group_by (w_trans w)).
  Local Notation ks := (keys (group_by (w_trans w))).
  Local Notation taken := (c_paths (cont ob) ++ c_paths (cont nb)).
  Local Notation s1 := (state1 ob nb).
  Local Notation old := (lookup (tree_of ob)).
  Local Notation new := (lookup (tree_of nb)).

  Definition ocont (k : path) : list N := match lookup (tree_of ob) k with Some (File c) => c | _ => [] end.

  (* ---------------------------------------------------------------- sources and destinations *)

  Lemma trans_new_file : forall p k, In (p, k) tr -> In p (map fst (b_files nb)).
  Proof. intros p k H. destruct (ps_trans ob nb w st PS p k H) as [c [H1 _]]. apply in_map_iff. now exists (p, c). Qed.

  Lemma trans_old_file : forall p k, In (p, k) tr -> old k = Some (File (ocont k)).
  Proof.
    intros p k H. destruct (ps_trans ob nb w st PS p k H) as [c [_ H2]]. unfold ocont.
    now rewrite (tree_file ob Wo k c H2).
  Qed.

  Lemma trans_content : forall p k, In (p, k) tr -> new p = Some (File (ocont k)).
  Proof.
    intros p k H. destruct (ps_trans ob nb w st PS p k H) as [c [H1 H2]]. unfold ocont.
    now rewrite (tree_file ob Wo k c H2), (tree_file nb Wn p c H1).
  Qed.

  Lemma key_has_trans : forall k, In k ks -> exists p, In (p, k) tr.
  Proof. intros k H. now apply group_by_keys. Qed.

  Lemma newfile_taken : forall p, In p (map fst (b_files nb)) -> In p taken.
  Proof. intros p H. apply in_or_app. right. unfold c_paths. cbn [cont c_dirs c_files c_links]. apply in_or_app. right. apply in_or_app. now left. Qed.

  Lemma oldfile_taken : forall p, In p (map fst (b_files ob)) -> In p taken.
  Proof. intros p H. apply in_or_app. left. unfold c_paths. cbn [cont c_dirs c_files c_links]. apply in_or_app. right. apply in_or_app. now left. Qed.

  Lemma taken_cases : forall p, In p taken -> In p (bpaths ob) \/ In p (bpaths nb).
  Proof. intros p H. apply in_app_or in H. exact H. Qed.

  Lemma not_taken_none : forall p, ~ In p taken -> old p = None /\ new p = None /\ s1 p = None.
  Proof.
    intros p H.
    assert (Ho : ~ In p (bpaths ob)) by (intros Hin; apply H; apply in_or_app; now left).
    assert (Hn : ~ In p (bpaths nb)) by (intros Hin; apply H; apply in_or_app; now right).
    split; [now apply tree_none|]. split; [now apply tree_none|].
    rewrite state1_other.
    - destruct (under_new_link (cont nb) p); [reflexivity | now apply tree_none].
    - intros Hd. apply Hn. rewrite bpaths_split. apply in_or_app. now left.
    - intros Hl. apply Hn. rewrite bpaths_split. apply in_or_app. right. apply in_or_app. now right.
  Qed.

  Lemma key_old : forall k, In k ks -> old k = Some (File (ocont k)).
  Proof. intros k H. destruct (key_has_trans k H) as [p Hp]. now apply (trans_old_file p k). Qed.

  Lemma key_taken : forall k, In k ks -> In k taken.
  Proof.
    intros k H. apply oldfile_taken. pose proof (key_old k H) as Ho. apply tree_file_inv in Ho.
    apply in_map_iff. now exists (k, ocont k).
  Qed.

  Lemma key_kind : forall k, In k ks -> new_kind_ok_for_source nb k.
  Proof. intros k H. destruct (key_has_trans k H) as [p Hp]. now apply (hk_source ob nb w HK p k). Qed.

  Lemma not_under_link_if_dirs : forall p, (forall a, above a p -> new a = None \/ new a = Some Dir) -> under_new_link (cont nb) p = false.
  Proof.
    intros p H. unfold under_new_link. cbn [cont c_links]. destruct (existsb _ (b_links nb)) eqn:E; [|reflexivity].
    apply existsb_exists in E as [[l d] [Hin Hp]]. cbn [fst] in Hp.
    assert (Hl : l <> []) by (apply (wf_nonempty nb Wn); now apply (link_in_bpaths nb l d)).
    destruct (H l (proper_prefix_above l p Hl Hp)) as [E|E]; rewrite (tree_link nb Wn l d Hin) in E; discriminate.
  Qed.

  Lemma key_state1 : forall k, In k ks -> s1 k = Some (File (ocont k)).
  Proof.
    intros k H. destruct (key_kind k H) as [Hk Ha]. rewrite state1_other.
    - rewrite (not_under_link_if_dirs k Ha). now apply key_old.
    - intros Hd. apply (tree_dir nb Wn) in Hd. destruct Hk as [E|[c E]]; rewrite Hd in E; discriminate.
    - intros Hl. apply in_map_iff in Hl as [[l d] [E Hl]]. cbn in E. subst l.
      rewrite (tree_link nb Wn k d Hl) in Hk. destruct Hk as [E|[c E]]; discriminate.
  Qed.

  Lemma key_above : forall k a, In k ks -> above a k -> s1 a = Some Dir /\ old a = Some Dir.
  Proof.
    intros k a Hk A. destruct (key_kind k Hk) as [_ Ha].
    assert (Ho : old a = Some Dir) by (apply (tree_above_dir ob k a (File (ocont k)) Wo (key_old k Hk) A)).
    split; [|assumption].
    destruct (Ha a A) as [En|En].
    - rewrite state1_other.
      + rewrite not_under_link_if_dirs; [assumption|]. intros a' A'. apply Ha.
        destruct A as [r [-> [Ha1 Hr]]]. destruct A' as [r' [-> [Ha' Hr']]]. exists (r' ++ r). rewrite app_assoc.
        split; [reflexivity|]. split; [assumption | destruct r'; [contradiction | discriminate]].
      + intros Hd. rewrite (tree_dir nb Wn a Hd) in En. discriminate.
      + intros Hl. apply in_map_iff in Hl as [[l d] [E Hl]]. cbn in E. subst l. rewrite (tree_link nb Wn a d Hl) in En. discriminate.
    - apply state1_dir. now apply tree_dir_inv.
  Qed.

  Lemma newfile_above : forall p a, In p (map fst (b_files nb)) -> above a p -> In a (b_dirs nb) /\ s1 a = Some Dir.
  Proof.
    intros p a Hp A.
    assert (Hd : In a (b_dirs nb)).
    { apply (wf_closed nb Wn p a); [|assumption]. rewrite bpaths_split. apply in_or_app. right. apply in_or_app. now left. }
    split; [assumption | now apply state1_dir].
  Qed.

  Lemma newdir_not_key : forall a, In a (b_dirs nb) -> ~ In a ks.
  Proof.
    intros a Hd Hk. destruct (key_kind a Hk) as [[E|[c E]] _]; rewrite (tree_dir nb Wn a Hd) in E; discriminate.
  Qed.

  Lemma newfile_state1_not_dir : forall p, In p (map fst (b_files nb)) -> s1 p <> Some Dir.
  Proof.
    intros p Hp. rewrite state1_other.
    - destruct (under_new_link (cont nb) p); [discriminate | now apply (hk_dir_to_file ob nb w HK)].
    - intros Hd. now apply (dir_not_file nb Wn p).
    - intros Hl. now apply (file_not_link nb Wn p).
  Qed.

  (* ---------------------------------------------------------------- the groups *)

  Lemma g_disj : forall k1 k2 ds1 ds2 p, group_get g k1 = Some ds1 -> group_get g k2 = Some ds2 -> In p ds1 -> In p ds2 -> k1 = k2.
  Proof.
    intros k1 k2 ds1 ds2 p G1 G2 H1 H2. apply group_by_get_some in G1 as [-> _]. apply group_by_get_some in G2 as [-> _].
    apply dests_of_In in H1, H2. apply (nodup_fst_functional _ _ tr p k1 k2 (ps_trans_nodup ob nb w st PS) H1 H2).
  Qed.

  Lemma g_nodup : forall k ds, group_get g k = Some ds -> NoDup ds.
  Proof. intros k ds G. apply group_by_get_some in G as [-> _]. apply dests_of_nodup. apply (ps_trans_nodup ob nb w st PS). Qed.

  Lemma g_newfile : forall k ds p, group_get g k = Some ds -> In p ds -> In p (map fst (b_files nb)).
  Proof. intros k ds p G H. apply group_by_get_some in G as [-> _]. apply dests_of_In in H. now apply (trans_new_file p k). Qed.

  Lemma g_nonempty : forall k ds p, group_get g k = Some ds -> In p ds -> p <> [].
  Proof.
    intros k ds p G H. apply (wf_nonempty nb Wn). pose proof (g_newfile k ds p G H) as Hf.
    rewrite bpaths_split. apply in_or_app. right. apply in_or_app. now left.
  Qed.

  (** two renamings of one name have the same origin *)
  Lemma ren1_shape : forall k cl d p, ren1 taken ks k cl (d, p) -> d = p \/ (exists n, d = tmp_path p n /\ ~ In d taken).
  Proof.
    intros k cl d p R. unfold ren1 in R. destruct (path_eqb k p); [now left|].
    destruct (mem p ks); [|now left]. destruct R as [[n [E Hn]] _]. right. now exists n.
  Qed.

  Lemma ren1_origin : forall k1 k2 cl1 cl2 d p1 p2,
    ren1 taken ks k1 cl1 (d, p1) -> ren1 taken ks k2 cl2 (d, p2) ->
    In p1 taken -> In p2 taken -> p1 <> [] -> p2 <> [] -> p1 = p2.
  Proof.
    intros k1 k2 cl1 cl2 d p1 p2 R1 R2 T1 T2 N1 N2.
    destruct (ren1_shape _ _ _ _ R1) as [E1|[n1 [E1 F1]]]; destruct (ren1_shape _ _ _ _ R2) as [E2|[n2 [E2 F2]]].
    - congruence.
    - rewrite E1 in F2. contradiction.
    - rewrite E2 in F1. contradiction.
    - rewrite E1 in E2. now apply tmp_path_inj in E2 as [E _].
  Qed.

  (* ---------------------------------------------------------------- the renamed groups *)

  Variables order1 order2 : list path.
  Hypothesis P1 : Permutation order1 ks.
  Hypothesis P2 : Permutation order2 ks.
  Variables (g' : groups) (clf : list (path * path)).
  Hypothesis RC : rename_clashes taken g order1 0 [] = (g', clf).

  Lemma ks_nodup : NoDup ks.
  Proof. apply group_by_keys_nodup. Qed.

  Lemma order1_nodup : NoDup order1.
  Proof. apply (Permutation_NoDup (Permutation_sym P1) ks_nodup). Qed.

  Lemma order2_nodup : NoDup order2.
  Proof. apply (Permutation_NoDup (Permutation_sym P2) ks_nodup). Qed.

  Lemma rc_facts :
    keys g' = order1 /\
    (forall k, In k ks -> exists ds ds', group_get g k = Some ds /\ group_get g' k = Some ds' /\
                                length ds' = length ds /\ Forall (ren1 taken ks k clf) (combine ds' ds)) /\
    (forall e, In e clf -> exists k ds ds', In k ks /\ group_get g k = Some ds /\ group_get g' k = Some ds' /\
                                In e (combine ds' ds) /\ snd e <> k /\ In (snd e) ks) /\
    NoDup (map snd clf).
  Proof.
    destruct (rename_clashes_spec taken ks g eq_refl g_disj g_nodup g_nonempty order1 0 [] g' clf RC order1_nodup)
      as [Hk [added [E [H1 [H2 H3]]]]].
    { intros k Hk. apply (Permutation_in k P1 Hk). }
    cbn [app] in E. subst added. split; [assumption|]. split; [|split; [|assumption]].
    - intros k Hk'. apply H1. apply (Permutation_in k (Permutation_sym P1) Hk').
    - intros e He. destruct (H2 e He) as [k [ds [ds' [G0 G]]]]. exists k, ds, ds'. split; [|assumption].
      apply (Permutation_in k P1 G0).
  Qed.

  Lemma g'_keys_nodup : NoDup (keys g').
  Proof. destruct rc_facts as [-> _]. apply order1_nodup. Qed.

  Lemma g'_key : forall k ds', group_get g' k = Some ds' -> In k ks.
  Proof.
    intros k ds' G. assert (H : In k (keys g')) by (apply group_get_keys; now exists ds').
    destruct rc_facts as [E _]. rewrite E in H. apply (Permutation_in k P1 H).
  Qed.

  Lemma g'_get : forall k, In k ks -> exists ds ds', group_get g k = Some ds /\ group_get g' k = Some ds' /\
                                length ds' = length ds /\ Forall (ren1 taken ks k clf) (combine ds' ds).
  Proof. destruct rc_facts as [_ [H _]]. exact H. Qed.

  Lemma dest_origin : forall k ds' d, group_get g' k = Some ds' -> In d ds' ->
    exists p, In (p, k) tr /\ ren1 taken ks k clf (d, p).
  Proof.
    intros k ds' d G Hd. destruct (g'_get k (g'_key k ds' G)) as [ds [ds2 [G1 [G2 [Hlen Hf]]]]].
    rewrite G in G2. injection G2 as <-.
    destruct (in_combine_exists_r _ _ ds' ds d Hlen Hd) as [p Hp]. exists p. split.
    - apply in_combine_r in Hp. apply group_by_get_some in G1 as [-> _]. now apply dests_of_In.
    - apply (proj1 (Forall_forall _ _) Hf _ Hp).
  Qed.

  Lemma dest_cases : forall k ds' d, group_get g' k = Some ds' -> In d ds' -> d <> k ->
    exists p, In (p, k) tr /\ p <> k /\
      ((d = p /\ ~ In p ks) \/ (exists n, d = tmp_path p n /\ ~ In d taken /\ In p ks /\ In (d, p) clf)).
  Proof.
    intros k ds' d G Hd Hne. destruct (dest_origin k ds' d G Hd) as [p [Hp R]]. exists p. split; [assumption|].
    unfold ren1 in R. destruct (path_eqb k p) eqn:E.
    - apply path_eqb_eq in E. subst. contradiction.
    - apply path_eqb_neq in E. split; [congruence|]. destruct (mem p ks) eqn:Em.
      + destruct R as [[n [E1 E2]] E3]. right. exists n. repeat split; try assumption. now apply mem_In.
      + left. split; [assumption | now apply mem_false].
  Qed.

  Lemma dest_not_key : forall k ds' d, group_get g' k = Some ds' -> In d ds' -> d <> k -> ~ In d ks.
  Proof.
    intros k ds' d G Hd Hne Hk. destruct (dest_cases k ds' d G Hd Hne) as [p [_ [_ [[-> H]|[n [_ [H _]]]]]]].
    - contradiction.
    - apply H. now apply key_taken.
  Qed.

  Lemma dest_above : forall k ds' d a, group_get g' k = Some ds' -> In d ds' -> d <> k -> above a d -> In a (b_dirs nb).
  Proof.
    intros k ds' d a G Hd Hne A. destruct (dest_cases k ds' d G Hd Hne) as [p [Hp [_ [[-> H]|[n [-> _]]]]]].
    - apply (newfile_above p a (trans_new_file p k Hp) A).
    - pose proof (trans_new_file p k Hp) as Hf. apply (newfile_above p a Hf).
      apply (above_tmp_path a p n); [|assumption]. apply (wf_nonempty nb Wn). rewrite bpaths_split. apply in_or_app. right. apply in_or_app. now left.
  Qed.

  Lemma dest_state1 : forall k ds' d, group_get g' k = Some ds' -> In d ds' -> d <> k -> s1 d <> Some Dir.
  Proof.
    intros k ds' d G Hd Hne. destruct (dest_cases k ds' d G Hd Hne) as [p [Hp [_ [[-> H]|[n [_ [H _]]]]]]].
    - apply newfile_state1_not_dir. apply (trans_new_file p k Hp).
    - destruct (not_taken_none d H) as [_ [_ ->]]. discriminate.
  Qed.

  Lemma trans_taken : forall p k, In (p, k) tr -> In p taken /\ p <> [].
  Proof.
    intros p k H. pose proof (trans_new_file p k H) as Hf. split; [now apply newfile_taken|].
    apply (wf_nonempty nb Wn). rewrite bpaths_split. apply in_or_app. right. apply in_or_app. now left.
  Qed.

  Lemma dests_distinct : forall k1 k2 ds1 ds2 d,
    group_get g' k1 = Some ds1 -> group_get g' k2 = Some ds2 -> In d ds1 -> In d ds2 -> d <> k1 -> d <> k2 -> k1 = k2.
  Proof.
    intros k1 k2 ds1 ds2 d G1 G2 H1 H2 N1 N2.
    destruct (dest_origin k1 ds1 d G1 H1) as [p1 [T1 R1]]. destruct (dest_origin k2 ds2 d G2 H2) as [p2 [T2 R2]].
    destruct (trans_taken p1 k1 T1) as [A1 B1]. destruct (trans_taken p2 k2 T2) as [A2 B2].
    pose proof (ren1_origin k1 k2 clf clf d p1 p2 R1 R2 A1 A2 B1 B2) as E. subst p2.
    apply (nodup_fst_functional _ _ tr p1 k1 k2 (ps_trans_nodup ob nb w st PS) T1 T2).
  Qed.

  Lemma g'_nodup : forall k ds', group_get g' k = Some ds' -> NoDup ds'.
  Proof.
    intros k ds' G. destruct (g'_get k (g'_key k ds' G)) as [ds [ds2 [G1 [G2 [Hlen Hf]]]]].
    rewrite G in G2. injection G2 as <-.
    rewrite <- (map_fst_combine _ _ ds' ds Hlen). apply nodup_fst_of_snd.
    - rewrite (map_snd_combine _ _ ds' ds Hlen). now apply (g_nodup k).
    - intros [d1 p1] [d2 p2] H1 H2 E. cbn [fst snd] in *. subst d2.
      pose proof (proj1 (Forall_forall _ _) Hf _ H1) as R1. pose proof (proj1 (Forall_forall _ _) Hf _ H2) as R2.
      apply in_combine_r in H1, H2. apply group_by_get_some in G1 as [-> _]. apply dests_of_In in H1, H2.
      destruct (trans_taken p1 k H1) as [A1 B1]. destruct (trans_taken p2 k H2) as [A2 B2].
      apply (ren1_origin k k clf clf d1 p1 p2 R1 R2 A1 A2 B1 B2).
  Qed.

  Lemma g'_noop : forall k ds ds', group_get g k = Some ds -> group_get g' k = Some ds' -> mem k ds' = mem k ds.
  Proof.
    intros k ds ds' G1 G. destruct (g'_get k (g'_key k ds' G)) as [ds1 [ds2 [G1' [G2 [Hlen Hf]]]]].
    rewrite G in G2. injection G2 as <-. rewrite G1 in G1'. injection G1' as <-.
    destruct (mem k ds) eqn:E.
    - apply mem_In in E. apply mem_In. destruct (in_combine_exists_l _ _ ds' ds k Hlen E) as [d Hd].
      pose proof (proj1 (Forall_forall _ _) Hf _ Hd) as R. unfold ren1 in R. rewrite path_eqb_refl in R. subst d.
      now apply in_combine_l in Hd.
    - apply mem_false in E. apply mem_false. intros Hin. apply E.
      destruct (in_combine_exists_r _ _ ds' ds k Hlen Hin) as [p Hp].
      pose proof (proj1 (Forall_forall _ _) Hf _ Hp) as R. apply in_combine_r in Hp.
      destruct (ren1_shape _ _ _ _ R) as [->|[n [_ F]]]; [assumption|].
      exfalso. apply F. apply key_taken. now apply (g'_key k ds').
  Qed.

  Lemma g'_nonnil : forall k ds', group_get g' k = Some ds' -> ds' <> [].
  Proof.
    intros k ds' G. destruct (g'_get k (g'_key k ds' G)) as [ds [ds2 [G1 [G2 [Hlen _]]]]].
    rewrite G in G2. injection G2 as <-. apply group_by_get_some in G1 as [_ Hne].
    intros ->. destruct ds; [contradiction | discriminate].
  Qed.

  Lemma src_of_intro : forall k ds' d, group_get g' k = Some ds' -> In d ds' -> d <> k -> src_of g' d = Some k.
  Proof.
    intros k ds' d G Hd Hne. destruct (src_of g' d) as [k0|] eqn:E.
    - destruct (src_of_some g' d k0 g'_keys_nodup E) as [ds0 [G0 [H0 N0]]].
      now rewrite (dests_distinct k0 k ds0 ds' d G0 G H0 Hd N0 Hne).
    - exfalso. apply Hne. apply (src_of_none g' d E k ds' G Hd).
  Qed.

  Lemma src_of_elim : forall d k, src_of g' d = Some k -> exists ds', group_get g' k = Some ds' /\ In d ds' /\ d <> k.
  Proof. intros d k H. apply (src_of_some g' d k g'_keys_nodup H). Qed.

  Lemma src_of_key : forall k, In k ks -> src_of g' k = None.
  Proof.
    intros k Hk. destruct (src_of g' k) as [k0|] eqn:E; [|reflexivity].
    destruct (src_of_elim k k0 E) as [ds' [G [Hd Hne]]]. exfalso. now apply (dest_not_key k0 ds' k G Hd Hne).
  Qed.

  Lemma src_of_taken_nonfile : forall a, In a taken -> ~ In a (map fst (b_files nb)) -> src_of g' a = None.
  Proof.
    intros a Ht Hf. destruct (src_of g' a) as [k0|] eqn:E; [|reflexivity].
    destruct (src_of_elim a k0 E) as [ds' [G [Hd Hne]]].
    destruct (dest_cases k0 ds' a G Hd Hne) as [p [Hp [_ [[-> H]|[n [_ [H _]]]]]]].
    - exfalso. apply Hf. apply (trans_new_file p k0 Hp).
    - contradiction.
  Qed.

  (* ---------------------------------------------------------------- the execution loop *)

  Definition movedb (k : path) : bool := negb (mem k (dests_of tr k)) && negb (mem k (w_over w)).

  (** the tree after the groups in [done] were executed *)
  Definition stateB (done : list path) (q : path) : option node :=
    match src_of g' q with
    | Some k => if mem k done then Some (File (ocont k)) else state1 ob nb q
    | None => if mem q done && movedb q then None else state1 ob nb q
    end.

  Lemma dir_taken : forall a, In a (b_dirs nb) -> In a taken /\ ~ In a (map fst (b_files nb)).
  Proof.
    intros a Ha. split.
    - apply in_or_app. right. unfold c_paths. cbn [cont c_dirs]. apply in_or_app. now left.
    - intros Hf. now apply (dir_not_file nb Wn a).
  Qed.

  Lemma stateB_newdir : forall done a, (forall k, In k done -> In k ks) -> In a (b_dirs nb) -> stateB done a = Some Dir.
  Proof.
    intros done a Hdone Ha. unfold stateB. destruct (dir_taken a Ha) as [Ht Hf].
    rewrite (src_of_taken_nonfile a Ht Hf).
    destruct (mem a done) eqn:E.
    - apply mem_In in E. exfalso. apply (newdir_not_key a Ha). now apply Hdone.
    - cbn [andb]. now apply state1_dir.
  Qed.

  Lemma stateB_key_above : forall done k a, (forall k, In k done -> In k ks) -> In k ks -> above a k -> stateB done a = Some Dir.
  Proof.
    intros done k a Hdone Hk A. destruct (key_above k a Hk A) as [Hs Ho]. unfold stateB.
    assert (Ht : In a taken) by (apply in_or_app; left; now apply (tree_some_in ob a Dir)).
    assert (Hf : ~ In a (map fst (b_files nb))) by (intros Hf; now apply (hk_dir_to_file ob nb w HK a Hf)).
    rewrite (src_of_taken_nonfile a Ht Hf).
    destruct (mem a done) eqn:E; [|assumption].
    apply mem_In in E. apply Hdone in E. rewrite (key_old a E) in Ho. discriminate.
  Qed.

  Lemma stateB_key : forall done k, In k ks -> ~ In k done -> stateB done k = Some (File (ocont k)).
  Proof.
    intros done k Hk Hn. unfold stateB. rewrite (src_of_key k Hk). apply mem_false in Hn. rewrite Hn. cbn [andb].
    now apply key_state1.
  Qed.

  Lemma phaseB_step : forall done k t,
    (forall k, In k done -> In k ks) -> In k ks -> ~ In k done ->
    (forall q, lookup t q = stateB done q) ->
    exists ds' t', group_get g' k = Some ds' /\ apply_group (w_over w) t (k, ds') = Ok t' /\
                   forall q, lookup t' q = stateB (done ++ [k]) q.
  Proof.
    intros done k t Hdone Hk Hnk Inv.
    destruct (g'_get k Hk) as [ds [ds' [G1 [G [Hlen _]]]]]. exists ds'.
    assert (Dk : dirs_above t k).
    { apply dirs_above_iff. intros a A. rewrite Inv. now apply (stateB_key_above done k a). }
    assert (Lk : lookup t k = Some (File (ocont k))) by (rewrite Inv; now apply stateB_key).
    assert (Hok : dests_ok t k ds').
    { intros d Hd Hne. split.
      - apply dirs_above_iff. intros a A. rewrite Inv. apply stateB_newdir; [assumption|]. now apply (dest_above k ds' d a).
      - rewrite Inv. unfold stateB. rewrite (src_of_intro k ds' d G Hd Hne). apply mem_false in Hnk. rewrite Hnk.
        now apply (dest_state1 k ds' d). }
    destruct (apply_group_spec (w_over w) t k ds' (ocont k) Dk Lk (g'_nonnil k ds' G) (g'_nodup k ds' G) Hok) as [t' [Ht' L']].
    exists t'. split; [assumption|]. split; [assumption|].
    intros q. rewrite L'. unfold stateB.
    destruct (mem q ds' && negb (path_eqb q k)) eqn:E1.
    - apply andb_true_iff in E1 as [E1 E2]. apply mem_In in E1. apply negb_true_iff, path_eqb_neq in E2.
      rewrite (src_of_intro k ds' q G E1 E2), mem_app, mem_cons, path_eqb_refl. cbn [orb]. now rewrite orb_true_r.
    - rewrite Inv. unfold stateB.
      destruct (src_of g' q) as [k0|] eqn:Es.
      + (* q is a destination of another group *)
        destruct (src_of_elim q k0 Es) as [ds0 [G0 [Hq0 Hn0]]].
        assert (Hqk : path_eqb q k = false).
        { apply path_eqb_neq. intros ->. apply (dest_not_key k0 ds0 k G0 Hq0 Hn0 Hk). }
        rewrite Hqk. cbn [andb]. rewrite mem_app, mem_cons, mem_nil, orb_false_r.
        destruct (path_eqb k0 k) eqn:E0; [|now rewrite orb_false_r].
        apply path_eqb_eq in E0. subst k0. rewrite G in G0. injection G0 as <-.
        apply mem_In in Hq0. rewrite Hq0 in E1. cbn in E1. apply negb_false_iff in E1. congruence.
      + rewrite mem_app, mem_cons, mem_nil, orb_false_r.
        destruct (path_eqb q k) eqn:Eqk.
        * apply path_eqb_eq in Eqk. subst q. apply mem_false in Hnk. rewrite Hnk. cbn [orb andb].
          unfold movedb. rewrite (g'_noop k ds ds' G1 G). apply group_by_get_some in G1 as [<- _].
          destruct (negb (mem k ds) && negb (mem k (w_over w))); reflexivity.
        * cbn [andb]. now rewrite orb_false_r.
  Qed.

  Lemma phaseB : forall rest done t,
    (forall k, In k done -> In k ks) -> (forall k, In k rest -> In k ks) -> NoDup (done ++ rest) ->
    (forall q, lookup t q = stateB done q) ->
    exists t', apply_groups (w_over w) g' rest t = Ok t' /\ forall q, lookup t' q = stateB (done ++ rest) q.
  Proof.
    induction rest as [|k rest IH]; intros done t Hdone Hrest Hnd Inv; cbn [apply_groups].
    - exists t. split; [reflexivity|]. now rewrite app_nil_r.
    - assert (Hk : In k ks) by (apply Hrest; now left).
      assert (Hnk : ~ In k done).
      { apply NoDup_remove_2 in Hnd. intros H. apply Hnd. apply in_or_app. now left. }
      destruct (phaseB_step done k t Hdone Hk Hnk Inv) as [ds' [t1 [G [H1 Inv1]]]]. rewrite G, H1. cbn [bind].
      destruct (IH (done ++ [k]) t1) as [t' [H' Inv']].
      + intros k' Hk'. apply in_app_or in Hk' as [Hk'|[<-|[]]]; [now apply Hdone | assumption].
      + intros k' Hk'. apply Hrest. now right.
      + now rewrite <- app_assoc.
      + assumption.
      + exists t'. split; [assumption|]. intros q. rewrite Inv'. now rewrite <- app_assoc.
  Qed.

  (* ---------------------------------------------------------------- the cleanup renames *)

  Lemma cl_entry : forall T P, In (T, P) clf ->
    exists k ds', group_get g' k = Some ds' /\ In T ds' /\ In (P, k) tr /\ P <> k /\ In P ks /\
                  (exists n, T = tmp_path P n) /\ ~ In T taken.
  Proof.
    intros T P H. destruct rc_facts as [_ [_ [H3 _]]].
    destruct (H3 (T, P) H) as [k [ds [ds' [Hk [G1 [G [Hc [Hne Hpk]]]]]]]]. cbn [snd] in *.
    destruct (g'_get k Hk) as [ds1 [ds2 [G1' [G2 [Hlen Hf]]]]]. rewrite G in G2. injection G2 as <-.
    rewrite G1 in G1'. injection G1' as <-.
    pose proof (proj1 (Forall_forall _ _) Hf _ Hc) as R. unfold ren1 in R.
    apply not_eq_sym, path_eqb_neq in Hne. rewrite Hne in R. apply mem_In in Hpk. rewrite Hpk in R.
    destruct R as [[n [E F]] _]. exists k, ds'. split; [assumption|]. split; [now apply in_combine_l in Hc|].
    split. { apply in_combine_r in Hc. apply group_by_get_some in G1 as [-> _]. now apply dests_of_In. }
    split; [apply path_eqb_neq in Hne; congruence|]. split; [now apply mem_In|]. split; [now exists n | assumption].
  Qed.

  Lemma clf_snd_nodup : NoDup (map snd clf).
  Proof. destruct rc_facts as [_ [_ [_ H]]]. exact H. Qed.

  Lemma clf_fst_nodup : NoDup (map fst clf).
  Proof.
    apply nodup_fst_of_snd; [apply clf_snd_nodup|].
    intros [T1 D1] [T2 D2] H1 H2 E. cbn [fst snd] in *. subst T2.
    destruct (cl_entry T1 D1 H1) as [k1 [_ [_ [_ [Hp1 [_ [_ [[n1 E1] _]]]]]]]].
    destruct (cl_entry T1 D2 H2) as [k2 [_ [_ [_ [Hp2 [_ [_ [[n2 E2] _]]]]]]]].
    rewrite E1 in E2. apply tmp_path_inj in E2 as [E _]; [assumption | |].
    - apply (proj2 (trans_taken D1 k1 Hp1)).
    - apply (proj2 (trans_taken D2 k2 Hp2)).
  Qed.

  Lemma nodup_snd_functional : forall T1 T2 D, In (T1, D) clf -> In (T2, D) clf -> T1 = T2.
  Proof. intros T1 T2 D H1 H2. apply (nodup_snd_functional_gen _ _ clf T1 T2 D clf_snd_nodup H1 H2). Qed.

  Definition stateC (cd : list (path * path)) (q : path) : option node :=
    match cl_dst cd q with
    | Some T => stateB order2 T
    | None => if mem q (map fst cd) then None else stateB order2 q
    end.

  Lemma order2_ks : forall k, In k order2 -> In k ks.
  Proof. intros k H. apply (Permutation_in k P2 H). Qed.

  Lemma stateBf_tmp : forall T P, In (T, P) clf -> exists k, In (P, k) tr /\ stateB order2 T = Some (File (ocont k)).
  Proof.
    intros T P H. destruct (cl_entry T P H) as [k [ds' [G [HT [Hp [_ [_ [_ F]]]]]]]]. exists k. split; [assumption|].
    unfold stateB. assert (Hk : In k ks) by (now apply (g'_key k ds')).
    rewrite (src_of_intro k ds' T G HT).
    - assert (E : mem k order2 = true) by (apply mem_In; apply (Permutation_in k (Permutation_sym P2) Hk)). now rewrite E.
    - intros ->. apply F. now apply key_taken.
  Qed.

  Lemma stateC_newdir : forall cd a, incl cd clf -> In a (b_dirs nb) -> stateC cd a = Some Dir.
  Proof.
    intros cd a Hi Ha. unfold stateC. destruct (dir_taken a Ha) as [Ht Hf].
    rewrite cl_dst_notin.
    - destruct (mem a (map fst cd)) eqn:E.
      + apply mem_In in E. apply in_map_iff in E as [[T P] [E Hin]]. cbn in E. subst T.
        destruct (cl_entry a P (Hi _ Hin)) as [_ [_ [_ [_ [_ [_ [_ [_ F]]]]]]]]. contradiction.
      + apply stateB_newdir; [apply order2_ks | assumption].
    - intros Hin. apply in_map_iff in Hin as [[T P] [E Hin]]. cbn in E. subst P.
      destruct (cl_entry T a (Hi _ Hin)) as [_ [_ [_ [_ [_ [_ [Hk _]]]]]]]. now apply (newdir_not_key a Ha).
  Qed.

  Lemma phaseC_step : forall cd T P rest t,
    clf = cd ++ (T, P) :: rest ->
    (forall q, lookup t q = stateC cd q) ->
    exists t', move t T P = Ok t' /\ forall q, lookup t' q = stateC (cd ++ [(T, P)]) q.
  Proof.
    intros cd T P rest t E Inv.
    assert (Hin : In (T, P) clf) by (rewrite E; apply in_or_app; right; now left).
    assert (Hi : incl cd clf) by (intros x Hx; rewrite E; apply in_or_app; now left).
    destruct (cl_entry T P Hin) as [k [ds' [G [HT [Hp [Hpk [HPks [[n En] F]]]]]]]].
    destruct (trans_taken P k Hp) as [HPt HPne].
    assert (HPf : In P (map fst (b_files nb))) by (apply (trans_new_file P k Hp)).
    assert (HTP : T <> P) by (intros ->; contradiction).
    (* nothing processed so far touches T or P *)
    assert (HnT : ~ In T (map fst cd)).
    { pose proof clf_fst_nodup as Hn. rewrite E, map_app in Hn. cbn [map fst] in Hn. apply NoDup_remove_2 in Hn.
      intros H. apply Hn. apply in_or_app. now left. }
    assert (HnP : ~ In P (map snd cd)).
    { pose proof clf_snd_nodup as Hn. rewrite E, map_app in Hn. cbn [map snd] in Hn. apply NoDup_remove_2 in Hn.
      intros H. apply Hn. apply in_or_app. now left. }
    assert (HsT : ~ In T (map snd cd)).
    { intros H. apply in_map_iff in H as [[T' P'] [Ee H]]. cbn in Ee. subst P'.
      destruct (cl_entry T' T (Hi _ H)) as [_ [_ [_ [_ [_ [_ [Hk _]]]]]]]. apply F. now apply key_taken. }
    assert (HfP : ~ In P (map fst cd)).
    { intros H. apply in_map_iff in H as [[T' P'] [Ee H]]. cbn in Ee. subst T'.
      destruct (cl_entry P P' (Hi _ H)) as [_ [_ [_ [_ [_ [_ [_ [_ F']]]]]]]]. contradiction. }
    destruct (stateBf_tmp T P Hin) as [k' [Hp' HBT]].
    assert (Ekk : k' = k) by (apply (nodup_fst_functional _ _ tr P k' k (ps_trans_nodup ob nb w st PS) Hp' Hp)). subst k'.
    assert (LT : lookup t T = Some (File (ocont k))).
    { rewrite Inv. unfold stateC. rewrite (cl_dst_notin cd T HsT). apply mem_false in HnT. now rewrite HnT. }
    assert (Dabove : forall x, (forall a, above a x -> above a P) -> dirs_above t x).
    { intros x Hx. apply dirs_above_iff. intros a A. rewrite Inv. apply stateC_newdir; [assumption|].
      apply (newfile_above P a HPf (Hx a A)). }
    assert (DT : dirs_above t T).
    { apply Dabove. intros a A. rewrite En in A. now apply (above_tmp_path a P n HPne). }
    assert (DP : dirs_above t P) by (apply Dabove; auto).
    assert (LP : lookup t P <> Some Dir).
    { rewrite Inv. unfold stateC. rewrite (cl_dst_notin cd P HnP). apply mem_false in HfP. rewrite HfP.
      unfold stateB. rewrite (src_of_key P HPks).
      destruct (mem P order2 && movedb P); [discriminate|]. rewrite (key_state1 P HPks). discriminate. }
    destruct (move_spec t T P (ocont k) DT LT DP LP HTP) as [t' [-> L']]. exists t'. split; [reflexivity|].
    intros q. rewrite L'. unfold stateC. rewrite cl_dst_app, map_app, mem_app. cbn [cl_dst map fst]. rewrite mem_cons, mem_nil, orb_false_r.
    destruct (path_eqb P q) eqn:E1.
    - apply path_eqb_eq in E1. subst q. rewrite (cl_dst_notin cd P HnP). symmetry. exact HBT.
    - destruct (path_eqb T q) eqn:E2.
      + apply path_eqb_eq in E2. subst q. rewrite (cl_dst_notin cd T HsT), path_eqb_refl. now rewrite orb_true_r.
      + rewrite Inv. unfold stateC. rewrite (path_eqb_sym q T), E2, orb_false_r. destruct (cl_dst cd q); reflexivity.
  Qed.

  Lemma phaseC : forall rest cd t,
    clf = cd ++ rest ->
    (forall q, lookup t q = stateC cd q) ->
    exists t', fold_res (fun t e => move t (fst e) (snd e)) rest t = Ok t' /\ forall q, lookup t' q = stateC clf q.
  Proof.
    induction rest as [|[T P] rest IH]; intros cd t E Inv; cbn [fold_res].
    - exists t. split; [reflexivity|]. rewrite E, app_nil_r. assumption.
    - cbn [fst snd]. destruct (phaseC_step cd T P rest t E Inv) as [t1 [-> Inv1]]. cbn [bind].
      apply (IH (cd ++ [(T, P)]) t1); [now rewrite <- app_assoc | assumption].
  Qed.

  (* ---------------------------------------------------------------- the result *)

  (** the tree after phase 2 (independent of the iteration orders) *)
  Definition state2 (q : path) : option node :=
    match trans_src tr q with
    | Some k => Some (File (ocont k))
    | None => if mem q ks && movedb q then None else state1 ob nb q
    end.

  Lemma trans_src_intro : forall q k, In (q, k) tr -> q <> k -> trans_src tr q = Some k.
  Proof.
    intros q k H Hne. destruct (trans_src tr q) as [k0|] eqn:E.
    - apply trans_src_some in E as [H0 _]. f_equal. apply (nodup_fst_functional _ _ tr q k0 k (ps_trans_nodup ob nb w st PS) H0 H).
    - exfalso. apply Hne. apply (trans_src_none tr q k E H).
  Qed.

  Lemma stateC_final : forall q, stateC clf q = state2 q.
  Proof.
    intros q. unfold state2. destruct (trans_src tr q) as [k|] eqn:Et.
    - apply trans_src_some in Et as [Hqk Hne].
      assert (Hk : In k ks) by (apply group_by_keys; now exists q).
      destruct (g'_get k Hk) as [ds [ds' [G1 [G [Hlen Hf]]]]].
      assert (Hq : In q ds) by (apply group_by_get_some in G1 as [-> _]; now apply dests_of_In).
      destruct (in_combine_exists_l _ _ ds' ds q Hlen Hq) as [d Hd].
      pose proof (proj1 (Forall_forall _ _) Hf _ Hd) as R. unfold ren1 in R.
      apply not_eq_sym, path_eqb_neq in Hne. rewrite Hne in R. apply path_eqb_neq in Hne.
      assert (Hdin : In d ds') by (now apply in_combine_l in Hd).
      assert (Ek : mem k order2 = true) by (apply mem_In; apply (Permutation_in k (Permutation_sym P2) Hk)).
      destruct (mem q ks) eqn:Em.
      + destruct R as [[n [En F]] Hc]. unfold stateC.
        destruct (cl_dst clf q) as [T|] eqn:Ec.
        * apply cl_dst_some in Ec. rewrite (nodup_snd_functional T d q Ec Hc).
          unfold stateB. rewrite (src_of_intro k ds' d G Hdin); [now rewrite Ek|].
          intros ->. apply F. now apply key_taken.
        * exfalso. apply (cl_dst_none clf q Ec). apply in_map_iff. now exists (d, q).
      + subst d. unfold stateC. rewrite cl_dst_notin.
        * assert (Hnf : mem q (map fst clf) = false).
          { apply mem_false. intros H. apply in_map_iff in H as [[T P] [E H]]. cbn in E. subst T.
            destruct (cl_entry q P H) as [_ [_ [_ [_ [_ [_ [_ [_ F]]]]]]]]. apply F. apply (proj1 (trans_taken q k Hqk)). }
          rewrite Hnf. unfold stateB. rewrite (src_of_intro k ds' q G Hdin); [now rewrite Ek | congruence].
        * intros H. apply in_map_iff in H as [[T P] [E H]]. cbn in E. subst P.
          destruct (cl_entry T q H) as [_ [_ [_ [_ [_ [_ [Hks _]]]]]]]. apply mem_In in Hks. congruence.
    - unfold stateC. rewrite cl_dst_notin.
      + destruct (mem q (map fst clf)) eqn:Ef.
        * apply mem_In in Ef. apply in_map_iff in Ef as [[T P] [E H]]. cbn in E. subst T.
          destruct (cl_entry q P H) as [_ [_ [_ [_ [_ [_ [_ [_ F]]]]]]]].
          assert (Hnk : mem q ks = false) by (apply mem_false; intros Hk; apply F; now apply key_taken).
          rewrite Hnk. cbn [andb]. now destruct (not_taken_none q F) as [_ [_ ->]].
        * unfold stateB. destruct (src_of g' q) as [k0|] eqn:Es.
          -- exfalso. destruct (src_of_elim q k0 Es) as [ds0 [G0 [Hq0 Hn0]]].
             destruct (dest_cases k0 ds0 q G0 Hq0 Hn0) as [p [Hp [Hpk [[-> _]|[n [_ [_ [_ Hc]]]]]]]].
             ++ apply Hpk. apply (trans_src_none tr p k0 Et Hp).
             ++ apply mem_false in Ef. apply Ef. apply in_map_iff. now exists (q, p).
          -- now rewrite (mem_perm q order2 ks P2).
      + intros H. apply in_map_iff in H as [[T P] [E H]]. cbn in E. subst P.
        destruct (cl_entry T q H) as [k [_ [_ [_ [Hp [Hne _]]]]]]. apply Hne. apply (trans_src_none tr q k Et Hp).
  Qed.

  Lemma phase2_with_groups : forall t1,
    (forall q, lookup t1 q = state1 ob nb q) ->
    exists t2, (do t <- apply_groups (w_over w) g' order2 t1 ;; cleanup_renames clf t) = Ok t2 /\ forall q, lookup t2 q = state2 q.
  Proof.
    intros t1 Inv.
    destruct (phaseB order2 [] t1) as [tb [Hb Invb]].
    - intros k [].
    - apply order2_ks.
    - apply order2_nodup.
    - intros q. rewrite Inv. unfold stateB. destruct (src_of g' q); reflexivity.
    - rewrite Hb. cbn [bind app] in *. unfold cleanup_renames.
      destruct (phaseC clf [] tb eq_refl) as [tc [Hc Invc]].
      + intros q. rewrite Invb. unfold stateC. cbn [cl_dst map mem existsb]. reflexivity.
      + exists tc. split; [assumption|]. intros q. rewrite Invc. apply stateC_final.
  Qed.
End Trans.
