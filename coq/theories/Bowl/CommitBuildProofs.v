(** Lemmas about builds and their trees ([Bowl/CommitSpec.v]). *)
From Coq Require Import Permutation.
From Wharf Require Import Base.Prelude Bowl.FSmini Bowl.FSminiProofs Bowl.OverlayCommit Bowl.CommitSpec.
Local Open Scope N_scope.

Lemma mem_In : forall p l, mem p l = true <-> In p l.
Proof.
  intros p l. unfold mem. rewrite existsb_exists. split.
  - intros [x [H E]]. apply path_eqb_eq in E. now subst.
  - intros H. exists p. split; [assumption | apply path_eqb_refl].
Qed.

Lemma mem_false : forall p l, mem p l = false <-> ~ In p l.
Proof. intros p l. rewrite <- mem_In. destruct (mem p l); split; congruence. Qed.

Lemma mem_cons : forall p d l, mem p (d :: l) = path_eqb p d || mem p l.
Proof. reflexivity. Qed.

Lemma mem_nil : forall p, mem p [] = false.
Proof. reflexivity. Qed.

Lemma mem_app : forall p a b, mem p (a ++ b) = mem p a || mem p b.
Proof. intros. unfold mem. apply existsb_app. Qed.

Lemma lookup_app : forall a b p, lookup (a ++ b) p = match lookup a p with Some n => Some n | None => lookup b p end.
Proof.
  induction a as [|[k n] a IH]; intros b p; cbn [app lookup]; [reflexivity|].
  destruct (path_eqb k p); [reflexivity | apply IH].
Qed.

Section MapLookup.
  Context {A : Type} (f : A -> path) (g : A -> node).

  Lemma lookup_map_none : forall l p, ~ In p (map f l) -> lookup (map (fun x => (f x, g x)) l) p = None.
  Proof.
    induction l as [|x l IH]; intros p H; cbn [map lookup]; [reflexivity|].
    destruct (path_eqb (f x) p) eqn:E.
    - apply path_eqb_eq in E. exfalso. apply H. now left.
    - apply IH. intros H2. apply H. now right.
  Qed.

  Lemma lookup_map_in : forall l x, NoDup (map f l) -> In x l -> lookup (map (fun x => (f x, g x)) l) (f x) = Some (g x).
  Proof.
    induction l as [|y l IH]; intros x Hnd Hin; [destruct Hin|]. cbn [map lookup].
    cbn [map] in Hnd. inversion Hnd as [|? ? Hny Hnd']; subst.
    destruct Hin as [->|Hin]; [now rewrite path_eqb_refl|].
    destruct (path_eqb (f y) (f x)) eqn:E.
    - apply path_eqb_eq in E. exfalso. apply Hny. rewrite E. now apply in_map.
    - now apply IH.
  Qed.

  Lemma lookup_map_some : forall l p n, lookup (map (fun x => (f x, g x)) l) p = Some n -> exists x, In x l /\ f x = p /\ g x = n.
  Proof.
    intros l p n H. apply lookup_In in H. apply in_map_iff in H as [x [E Hin]]. injection E as <- <-. now exists x.
  Qed.
End MapLookup.

Lemma NoDup_app_remove_r : forall (A : Type) (l1 l2 : list A), NoDup (l1 ++ l2) -> NoDup l1.
Proof.
  intros A l1. induction l1 as [|a l1 IH]; intros l2 H; [constructor|].
  cbn in H. inversion H as [|? ? Hn Hd]; subst. constructor.
  - intros Hin. apply Hn. apply in_or_app. now left.
  - now apply (IH l2).
Qed.

Lemma NoDup_app_remove_l : forall (A : Type) (l1 l2 : list A), NoDup (l1 ++ l2) -> NoDup l2.
Proof.
  intros A l1. induction l1 as [|a l1 IH]; intros l2 H; [assumption|].
  cbn in H. inversion H; subst. now apply IH.
Qed.

Lemma NoDup_app_disj : forall (A : Type) (l1 l2 : list A) x, NoDup (l1 ++ l2) -> In x l1 -> In x l2 -> False.
Proof.
  intros A l1. induction l1 as [|a l1 IH]; intros l2 x H H1 H2; [destruct H1|].
  cbn in H. inversion H as [|? ? Hn Hd]; subst. destruct H1 as [->|H1].
  - apply Hn. apply in_or_app. now right.
  - now apply (IH l2 x).
Qed.

Lemma NoDup_app_intro : forall (A : Type) (l1 l2 : list A),
  NoDup l1 -> NoDup l2 -> (forall x, In x l1 -> In x l2 -> False) -> NoDup (l1 ++ l2).
Proof.
  intros A l1. induction l1 as [|a l1 IH]; intros l2 H1 H2 Hd; [assumption|].
  inversion H1 as [|? ? Hn Hd1]; subst. cbn. constructor.
  - intros Hin. apply in_app_or in Hin as [Hin|Hin]; [contradiction | apply (Hd a); [now left | assumption]].
  - apply IH; [assumption | assumption | intros x Hx1 Hx2; apply (Hd x); [now right | assumption]].
Qed.

Section Build.
  Variable b : build.
  Hypothesis W : wf_build b.

  Lemma bpaths_split : bpaths b = b_dirs b ++ map fst (b_files b) ++ map fst (b_links b).
  Proof. reflexivity. Qed.

  Lemma nodup_dirs : NoDup (b_dirs b).
  Proof. pose proof (wf_nodup b W) as H. rewrite bpaths_split in H. now apply NoDup_app_remove_r in H. Qed.

  Lemma nodup_files : NoDup (map fst (b_files b)).
  Proof.
    pose proof (wf_nodup b W) as H. rewrite bpaths_split in H. apply NoDup_app_remove_l in H. now apply NoDup_app_remove_r in H.
  Qed.

  Lemma nodup_links : NoDup (map fst (b_links b)).
  Proof.
    pose proof (wf_nodup b W) as H. rewrite bpaths_split in H. apply NoDup_app_remove_l in H. now apply NoDup_app_remove_l in H.
  Qed.

  Lemma dir_not_file : forall p, In p (b_dirs b) -> In p (map fst (b_files b)) -> False.
  Proof.
    intros p H1 H2. pose proof (wf_nodup b W) as H. rewrite bpaths_split in H.
    apply (NoDup_app_disj _ _ _ p H H1). apply in_or_app. now left.
  Qed.

  Lemma dir_not_link : forall p, In p (b_dirs b) -> In p (map fst (b_links b)) -> False.
  Proof.
    intros p H1 H2. pose proof (wf_nodup b W) as H. rewrite bpaths_split in H.
    apply (NoDup_app_disj _ _ _ p H H1). apply in_or_app. now right.
  Qed.

  Lemma file_not_link : forall p, In p (map fst (b_files b)) -> In p (map fst (b_links b)) -> False.
  Proof.
    intros p H1 H2. pose proof (wf_nodup b W) as H. rewrite bpaths_split in H. apply NoDup_app_remove_l in H.
    apply (NoDup_app_disj _ _ _ p H H1 H2).
  Qed.

  Lemma tree_dir : forall p, In p (b_dirs b) -> lookup (tree_of b) p = Some Dir.
  Proof.
    intros p H. unfold tree_of. rewrite lookup_app.
    rewrite (lookup_map_in (fun d => d) (fun _ => Dir) (b_dirs b) p); [reflexivity | rewrite map_id; apply nodup_dirs | assumption].
  Qed.

  Lemma tree_link : forall p d, In (p, d) (b_links b) -> lookup (tree_of b) p = Some (Link d).
  Proof.
    intros p d H. unfold tree_of. rewrite lookup_app.
    rewrite (lookup_map_none (fun d => d) (fun _ => Dir)).
    2:{ rewrite map_id. intros H2. apply (dir_not_link p H2). apply in_map_iff. now exists (p, d). }
    rewrite lookup_app.
    pose proof (lookup_map_in fst (fun l => Link (snd l)) (b_links b) (p, d) nodup_links H) as E. cbn [fst snd] in E. now rewrite E.
  Qed.

  Lemma tree_file : forall p c, In (p, c) (b_files b) -> lookup (tree_of b) p = Some (File c).
  Proof.
    intros p c H. assert (Hf : In p (map fst (b_files b))) by (apply in_map_iff; now exists (p, c)).
    unfold tree_of. rewrite lookup_app.
    rewrite (lookup_map_none (fun d => d) (fun _ => Dir)).
    2:{ rewrite map_id. intros H2. apply (dir_not_file p H2 Hf). }
    rewrite lookup_app.
    rewrite (lookup_map_none fst (fun l => Link (snd l))).
    2:{ intros H2. apply (file_not_link p Hf H2). }
    pose proof (lookup_map_in fst (fun f => File (snd f)) (b_files b) (p, c) nodup_files H) as E. cbn [fst snd] in E. now rewrite E.
  Qed.

  Lemma tree_none : forall p, ~ In p (bpaths b) -> lookup (tree_of b) p = None.
  Proof.
    intros p H. rewrite bpaths_split in H. unfold tree_of. rewrite !lookup_app.
    rewrite (lookup_map_none (fun d => d) (fun _ => Dir)).
    2:{ rewrite map_id. intros H2. apply H. apply in_or_app. now left. }
    rewrite (lookup_map_none fst (fun l => Link (snd l))).
    2:{ intros H2. apply H. apply in_or_app. right. apply in_or_app. now right. }
    apply lookup_map_none. intros H2. apply H. apply in_or_app. right. apply in_or_app. now left.
  Qed.
End Build.

(** inversions (no well-formedness needed) *)
Lemma tree_some_inv : forall b p n, lookup (tree_of b) p = Some n ->
  (n = Dir /\ In p (b_dirs b)) \/ (exists d, n = Link d /\ In (p, d) (b_links b)) \/ (exists c, n = File c /\ In (p, c) (b_files b)).
Proof.
  intros b p n H. unfold tree_of in H. rewrite !lookup_app in H.
  destruct (lookup (map (fun d => (d, Dir)) (b_dirs b)) p) eqn:E1.
  - injection H as ->. apply (lookup_map_some (fun d => d) (fun _ => Dir)) in E1 as [x [Hin [<- <-]]]. now left.
  - destruct (lookup (map (fun l => (fst l, Link (snd l))) (b_links b)) p) eqn:E2.
    + injection H as ->. apply (lookup_map_some fst (fun l => Link (snd l))) in E2 as [[q d] [Hin [<- <-]]]. right. left. now exists d.
    + apply (lookup_map_some fst (fun f => File (snd f))) in H as [[q c] [Hin [<- <-]]]. right. right. now exists c.
Qed.

Lemma tree_some_in : forall b p n, lookup (tree_of b) p = Some n -> In p (bpaths b).
Proof.
  intros b p n H. rewrite bpaths_split. apply tree_some_inv in H as [[_ H] | [[d [_ H]] | [c [_ H]]]].
  - apply in_or_app. now left.
  - apply in_or_app. right. apply in_or_app. right. apply in_map_iff. now exists (p, d).
  - apply in_or_app. right. apply in_or_app. left. apply in_map_iff. now exists (p, c).
Qed.

Lemma tree_dir_inv : forall b p, lookup (tree_of b) p = Some Dir -> In p (b_dirs b).
Proof. intros b p H. apply tree_some_inv in H as [[_ H] | [[d [E _]] | [c [E _]]]]; [assumption | discriminate | discriminate]. Qed.

Lemma tree_file_inv : forall b p c, lookup (tree_of b) p = Some (File c) -> In (p, c) (b_files b).
Proof.
  intros b p c H. apply tree_some_inv in H as [[E _] | [[d [E _]] | [c' [E H]]]]; [discriminate | discriminate |].
  injection E as ->. assumption.
Qed.

Lemma tree_link_inv : forall b p d, lookup (tree_of b) p = Some (Link d) -> In (p, d) (b_links b).
Proof.
  intros b p d H. apply tree_some_inv in H as [[E _] | [[d' [E H]] | [c' [E _]]]]; [discriminate | | discriminate].
  injection E as ->. assumption.
Qed.

(** everything above an entry of a well-formed build is a directory of it *)
Lemma tree_above_dir : forall b p q n, wf_build b -> lookup (tree_of b) p = Some n -> above q p -> lookup (tree_of b) q = Some Dir.
Proof.
  intros b p q n W H A. apply tree_dir; [assumption|]. apply (wf_closed b W p q); [now apply tree_some_in in H | assumption].
Qed.

(** hence nothing exists below a non-directory *)
Lemma tree_below_nondir : forall b p q, wf_build b -> lookup (tree_of b) q <> Some Dir -> above q p -> lookup (tree_of b) p = None.
Proof.
  intros b p q W H A. destruct (lookup (tree_of b) p) eqn:E; [|reflexivity].
  exfalso. apply H. now apply (tree_above_dir b p q n).
Qed.

Lemma tree_nonempty : forall b n, wf_build b -> lookup (tree_of b) [] = Some n -> False.
Proof. intros b n W H. apply tree_some_in in H. now apply (wf_nonempty b W [] H). Qed.

Lemma above_proper_prefix : forall q p, above q p -> is_proper_prefix q p = true.
Proof. intros q p [r [-> [_ Hr]]]. apply is_proper_prefix_spec. now exists r. Qed.

Lemma proper_prefix_above : forall q p, q <> [] -> is_proper_prefix q p = true -> above q p.
Proof. intros q p Hq H. apply is_proper_prefix_spec in H as [r [-> Hr]]. now exists r. Qed.

Lemma dirs_above_iff : forall t p, dirs_above t p <-> (forall q, above q p -> lookup t q = Some Dir).
Proof.
  intros t p. split.
  - intros H q [r [-> [Hq Hr]]]. now apply (H q r).
  - intros H q r -> Hq Hr. apply H. now exists r.
Qed.

Lemma above_not_prefix_back : forall q d, above q d -> is_prefix d q = false.
Proof.
  intros q d [r [-> [Hq Hr]]]. destruct (is_prefix (q ++ r) q) eqn:E; [|reflexivity].
  apply is_prefix_spec in E as [r' E]. rewrite <- app_assoc in E. rewrite <- (app_nil_r q) in E at 1.
  apply app_inv_head in E. destruct r; [contradiction | discriminate].
Qed.

Lemma above_neq : forall q d, above q d -> q <> d.
Proof.
  intros q d A E. subst. apply above_not_prefix_back in A. now rewrite is_prefix_refl in A.
Qed.

Lemma prefix_cases : forall l p, is_prefix l p = true -> l = p \/ is_proper_prefix l p = true.
Proof.
  intros l p H. unfold is_proper_prefix. rewrite H. destruct (path_eqb l p) eqn:E; [left; now apply path_eqb_eq | now right].
Qed.

