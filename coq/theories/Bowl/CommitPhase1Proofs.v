(** Commit phase 1, ensureDirsAndSymlinks: started on the old build's tree it succeeds and
    leaves exactly: the new build's directories and symlinks, nothing below a new symlink, and
    the old build everywhere else. *)
From Coq Require Import Permutation.
From Wharf Require Import Base.Prelude Bowl.FSmini Bowl.FSminiProofs Bowl.OverlayCommit Bowl.CommitSpec Bowl.CommitBuildProofs.
Local Open Scope N_scope.

Fixpoint assoc_link (ls : list (path * N)) (p : path) : option N :=
  match ls with
  | [] => None
  | (q, d) :: r => if path_eqb q p then Some d else assoc_link r p
  end.

Definition under_links (ls : list (path * N)) (p : path) : bool :=
  existsb (fun l => is_proper_prefix (fst l) p) ls.

Lemma assoc_link_app : forall a b p, assoc_link (a ++ b) p = match assoc_link a p with Some d => Some d | None => assoc_link b p end.
Proof.
  induction a as [|[q d] a IH]; intros b p; cbn [app assoc_link]; [reflexivity|].
  destruct (path_eqb q p); [reflexivity | apply IH].
Qed.

Lemma assoc_link_none : forall ls p, ~ In p (map fst ls) -> assoc_link ls p = None.
Proof.
  induction ls as [|[q d] ls IH]; intros p H; cbn [assoc_link]; [reflexivity|].
  destruct (path_eqb q p) eqn:E.
  - apply path_eqb_eq in E. exfalso. apply H. left. assumption.
  - apply IH. intros H2. apply H. now right.
Qed.

Lemma assoc_link_some : forall ls p d, assoc_link ls p = Some d -> In (p, d) ls.
Proof.
  induction ls as [|[q e] ls IH]; intros p d H; cbn [assoc_link] in H; [discriminate|].
  destruct (path_eqb q p) eqn:E.
  - apply path_eqb_eq in E. injection H as ->. subst. now left.
  - right. now apply IH.
Qed.

Lemma assoc_link_in : forall ls p d, NoDup (map fst ls) -> In (p, d) ls -> assoc_link ls p = Some d.
Proof.
  induction ls as [|[q e] ls IH]; intros p d Hnd Hin; [destruct Hin|]. cbn [assoc_link].
  cbn [map fst] in Hnd. inversion Hnd as [|? ? Hn Hd]; subst.
  destruct Hin as [E|Hin]; [injection E as -> ->; now rewrite path_eqb_refl|].
  destruct (path_eqb q p) eqn:E.
  - apply path_eqb_eq in E. subst q. exfalso. apply Hn. apply in_map_iff. now exists (p, d).
  - now apply IH.
Qed.

Lemma under_links_app : forall a b p, under_links (a ++ b) p = under_links a p || under_links b p.
Proof. intros. unfold under_links. apply existsb_app. Qed.

Section Phase1.
  Variables ob nb : build.
  Hypothesis Wo : wf_build ob.
  Hypothesis Wn : wf_build nb.


  (* ---------------------------------------------------------------- directories *)

  Definition after_dirs (ds : list path) (p : path) : option node :=
    if mem p ds then Some Dir else lookup (tree_of ob) p.

  Lemma mem_snoc : forall p ds d, mem p (ds ++ [d]) = mem p ds || path_eqb p d.
  Proof. intros. rewrite mem_app. cbn. now rewrite orb_false_r. Qed.

  Lemma dirs_split_facts : forall ds1 d ds2, b_dirs nb = ds1 ++ d :: ds2 ->
    ~ In d ds1 /\ d <> [] /\ (forall q, above q d -> In q ds1) /\ (forall p, above d p -> ~ In p ds1).
  Proof.
    intros ds1 d ds2 E. pose proof (nodup_dirs nb Wn) as Hnd. rewrite E in Hnd.
    assert (Hnot : ~ In d ds1).
    { apply NoDup_remove_2 in Hnd. intros H. apply Hnd. apply in_or_app. now left. }
    split; [assumption|]. split.
    { apply (wf_nonempty nb Wn). rewrite bpaths_split. apply in_or_app. left. rewrite E. apply in_or_app. right. now left. }
    split.
    { intros q A. apply (wf_parent_first nb Wn ds1 d ds2 q E A). }
    intros p A Hin. apply in_split in Hin as [a [b' Es]]. subst ds1.
    rewrite <- app_assoc in E. cbn [app] in E.
    pose proof (wf_parent_first nb Wn a p (b' ++ d :: ds2) d E A) as Hd.
    apply Hnot. apply in_or_app. now left.
  Qed.

  Lemma process_dir_step : forall ds1 d ds2 t,
    b_dirs nb = ds1 ++ d :: ds2 ->
    (forall p, lookup t p = after_dirs ds1 p) ->
    exists t', process_dir t d = Ok t' /\ forall p, lookup t' p = after_dirs (ds1 ++ [d]) p.
  Proof.
    intros ds1 d ds2 t E Inv.
    destruct (dirs_split_facts ds1 d ds2 E) as [Hnot [Hne [Habove Hbelow]]].
    assert (Hda : dirs_above t d).
    { apply dirs_above_iff. intros q A. rewrite Inv. unfold after_dirs.
      apply Habove in A. apply mem_In in A. now rewrite A. }
    assert (Hld : lookup t d = lookup (tree_of ob) d).
    { rewrite Inv. unfold after_dirs. apply mem_false in Hnot. now rewrite Hnot. }
    (* the two shapes of the result *)
    assert (Hflat : forall t', (forall p, lookup t' p = if path_eqb d p then Some Dir else lookup t p) ->
                               (lookup (tree_of ob) d = None \/ lookup (tree_of ob) d = Some Dir) ->
                               forall p, lookup t' p = after_dirs (ds1 ++ [d]) p).
    { intros t' Ht' Ho p. rewrite Ht'. unfold after_dirs. rewrite mem_snoc, (path_eqb_sym p d).
      destruct (path_eqb d p) eqn:Edp.
      - now rewrite orb_true_r.
      - rewrite orb_false_r. apply Inv. }
    assert (Htree : forall t', (forall p, lookup t' p = if path_eqb d p then Some Dir else if is_prefix d p then None else lookup t p) ->
                               lookup (tree_of ob) d <> Some Dir ->
                               forall p, lookup t' p = after_dirs (ds1 ++ [d]) p).
    { intros t' Ht' Ho p. rewrite Ht'. unfold after_dirs. rewrite mem_snoc, (path_eqb_sym p d).
      destruct (path_eqb d p) eqn:Edp; [now rewrite orb_true_r|]. rewrite orb_false_r.
      destruct (is_prefix d p) eqn:Epre; [|apply Inv].
      apply prefix_cases in Epre as [->|Epre]; [rewrite path_eqb_refl in Edp; discriminate|].
      apply (proper_prefix_above d p Hne) in Epre.
      pose proof (Hbelow p Epre) as Hp. apply mem_false in Hp. rewrite Hp.
      symmetry. apply (tree_below_nondir ob p d Wo Ho Epre). }
    unfold process_dir. rewrite (lstat_ok t d Hda), Hld.
    assert (Hreplace : forall n, lookup (tree_of ob) d = Some n -> n <> Dir ->
              exists t', (do t1 <- remove_all t d ;; mkdir_all t1 d) = Ok t' /\ forall p, lookup t' p = after_dirs (ds1 ++ [d]) p).
    { intros n Hn Hnd. rewrite (remove_all_present t d n Hda); [|now rewrite Hld]. cbn [bind].
      assert (Hda' : dirs_above (unset_tree t d) d).
      { apply dirs_above_iff. intros q A. rewrite lookup_unset_tree, (above_not_prefix_back q d A).
        apply dirs_above_iff with (q := q) in Hda; assumption. }
      rewrite (mkdir_all_last _ d Hda' Hne); [|now rewrite lookup_unset_tree, is_prefix_refl].
      eexists. split; [reflexivity|]. apply Htree.
      - intros p. rewrite lookup_set, lookup_unset_tree. reflexivity.
      - rewrite Hn. intros H. injection H as ->. contradiction. }
    destruct (lookup (tree_of ob) d) as [[c| |dst]|] eqn:Eo.
    - apply (Hreplace (File c)); [reflexivity | discriminate].
    - exists t. split; [reflexivity|]. apply Hflat; [|now right].
      intros p. destruct (path_eqb d p) eqn:Edp; [|reflexivity]. apply path_eqb_eq in Edp. subst p. now rewrite Hld.
    - apply (Hreplace (Link dst)); [reflexivity | discriminate].
    - rewrite (mkdir_all_last t d Hda Hne); [|now rewrite Hld].
      eexists. split; [reflexivity|]. apply Hflat; [|now left]. intros p. apply lookup_set.
  Qed.

  Lemma process_dirs : forall ds2 ds1 t,
    b_dirs nb = ds1 ++ ds2 ->
    (forall p, lookup t p = after_dirs ds1 p) ->
    exists t', fold_res process_dir ds2 t = Ok t' /\ forall p, lookup t' p = after_dirs (ds1 ++ ds2) p.
  Proof.
    induction ds2 as [|d ds2 IH]; intros ds1 t E Inv; cbn [fold_res].
    - exists t. split; [reflexivity|]. now rewrite app_nil_r.
    - destruct (process_dir_step ds1 d ds2 t E Inv) as [t1 [H1 Inv1]]. rewrite H1. cbn [bind].
      destruct (IH (ds1 ++ [d]) t1) as [t' [H' Inv']]; [now rewrite <- app_assoc | assumption |].
      exists t'. split; [assumption|]. intros p. rewrite Inv'. now rewrite <- app_assoc.
  Qed.

  (* ---------------------------------------------------------------- symlinks *)

  Definition after_links (ls : list (path * N)) (p : path) : option node :=
    if mem p (b_dirs nb) then Some Dir
    else match assoc_link ls p with
         | Some d => Some (Link d)
         | None => if under_links ls p then None else lookup (tree_of ob) p
         end.

  Lemma link_in_bpaths : forall l d, In (l, d) (b_links nb) -> In l (bpaths nb).
  Proof.
    intros l d H. rewrite bpaths_split. apply in_or_app. right. apply in_or_app. right. apply in_map_iff. now exists (l, d).
  Qed.

  Lemma not_dir_below_link : forall l d p, In (l, d) (b_links nb) -> above l p -> ~ In p (bpaths nb).
  Proof.
    intros l d p Hl A Hp. apply (dir_not_link nb Wn l).
    - apply (wf_closed nb Wn p l Hp A).
    - apply in_map_iff. now exists (l, d).
  Qed.

  Lemma process_symlink_step : forall ls1 l d ls2 t,
    b_links nb = ls1 ++ (l, d) :: ls2 ->
    (forall p, lookup t p = after_links ls1 p) ->
    exists t', process_symlink t (l, d) = Ok t' /\ forall p, lookup t' p = after_links (ls1 ++ [(l, d)]) p.
  Proof.
    intros ls1 l d ls2 t E Inv.
    assert (Hin : In (l, d) (b_links nb)) by (rewrite E; apply in_or_app; right; now left).
    assert (Hne : l <> []) by (apply (wf_nonempty nb Wn); now apply (link_in_bpaths l d)).
    assert (Hnd : ~ In l (b_dirs nb)).
    { intros H. apply (dir_not_link nb Wn l H). apply in_map_iff. now exists (l, d). }
    assert (Hassoc : assoc_link ls1 l = None).
    { apply assoc_link_none. pose proof (nodup_links nb Wn) as N. rewrite E, map_app in N. cbn [map fst] in N.
      apply NoDup_remove_2 in N. intros H. apply N. apply in_or_app. now left. }
    assert (Hunder : under_links ls1 l = false).
    { unfold under_links. destruct (existsb _ ls1) eqn:Ex; [|reflexivity].
      apply existsb_exists in Ex as [[l' d'] [Hl' Hp]]. cbn [fst] in Hp.
      assert (Hin' : In (l', d') (b_links nb)) by (rewrite E; apply in_or_app; now left).
      assert (Hne' : l' <> []) by (apply (wf_nonempty nb Wn); now apply (link_in_bpaths l' d')).
      exfalso. apply (not_dir_below_link l' d' l Hin' (proper_prefix_above l' l Hne' Hp)). now apply (link_in_bpaths l d). }
    assert (Hda : dirs_above t l).
    { apply dirs_above_iff. intros q A. rewrite Inv. unfold after_links.
      assert (Hq : In q (b_dirs nb)) by (apply (wf_closed nb Wn l q); [now apply (link_in_bpaths l d) | assumption]).
      apply mem_In in Hq. now rewrite Hq. }
    assert (Hll : lookup t l = lookup (tree_of ob) l).
    { rewrite Inv. unfold after_links. apply mem_false in Hnd. now rewrite Hnd, Hassoc, Hunder. }
    (* shape of the next invariant away from l *)
    assert (Hnext : forall p, path_eqb l p = false ->
              after_links (ls1 ++ [(l, d)]) p = if is_prefix l p then None else after_links ls1 p).
    { intros p Elp. unfold after_links. rewrite assoc_link_app, under_links_app. cbn [assoc_link under_links existsb fst].
      rewrite Elp, orb_false_r.
      destruct (is_prefix l p) eqn:Epre.
      - apply prefix_cases in Epre as [->|Epre]; [rewrite path_eqb_refl in Elp; discriminate|].
        pose proof (not_dir_below_link l d p Hin (proper_prefix_above l p Hne Epre)) as Hp.
        assert (Hpd : mem p (b_dirs nb) = false).
        { apply mem_false. intros H. apply Hp. rewrite bpaths_split. apply in_or_app. now left. }
        rewrite Hpd, Epre, orb_true_r.
        destruct (assoc_link ls1 p) as [d'|] eqn:Ea; [|reflexivity].
        exfalso. apply Hp. apply assoc_link_some in Ea. apply (link_in_bpaths p d'). rewrite E. apply in_or_app. now left.
      - assert (Epp : is_proper_prefix l p = false) by (unfold is_proper_prefix; now rewrite Epre).
        rewrite Epp, orb_false_r. destruct (assoc_link ls1 p); reflexivity. }
    assert (Hatl : after_links (ls1 ++ [(l, d)]) l = Some (Link d)).
    { unfold after_links. apply mem_false in Hnd. rewrite Hnd, assoc_link_app, Hassoc. cbn [assoc_link]. now rewrite path_eqb_refl. }
    (* result with the subtree below l cleared *)
    assert (Htree : forall t', (forall p, lookup t' p = if path_eqb l p then Some (Link d) else if is_prefix l p then None else lookup t p) ->
                               forall p, lookup t' p = after_links (ls1 ++ [(l, d)]) p).
    { intros t' Ht' p. rewrite Ht'. destruct (path_eqb l p) eqn:Elp.
      - apply path_eqb_eq in Elp. subst p. now rewrite Hatl.
      - rewrite (Hnext p Elp). destruct (is_prefix l p); [reflexivity | apply Inv]. }
    (* result when nothing can be below l *)
    assert (Hflat : forall t', (forall p, lookup t' p = if path_eqb l p then Some (Link d) else lookup t p) ->
                               lookup (tree_of ob) l <> Some Dir ->
                               forall p, lookup t' p = after_links (ls1 ++ [(l, d)]) p).
    { intros t' Ht' Ho p. rewrite Ht'. destruct (path_eqb l p) eqn:Elp.
      - apply path_eqb_eq in Elp. subst p. now rewrite Hatl.
      - rewrite (Hnext p Elp). destruct (is_prefix l p) eqn:Epre; [|apply Inv].
        apply prefix_cases in Epre as [->|Epre]; [rewrite path_eqb_refl in Elp; discriminate|].
        apply (proper_prefix_above l p Hne) in Epre.
        rewrite Inv. unfold after_links.
        pose proof (not_dir_below_link l d p Hin Epre) as Hp.
        assert (Hpd : mem p (b_dirs nb) = false).
        { apply mem_false. intros H. apply Hp. rewrite bpaths_split. apply in_or_app. now left. }
        rewrite Hpd.
        destruct (assoc_link ls1 p) as [d'|] eqn:Ea.
        { exfalso. apply Hp. apply assoc_link_some in Ea. apply (link_in_bpaths p d'). rewrite E. apply in_or_app. now left. }
        destruct (under_links ls1 p); [reflexivity|]. apply (tree_below_nondir ob p l Wo Ho Epre). }
    assert (Hclear : forall n, lookup (tree_of ob) l = Some n -> (forall d', n <> Link d') ->
              exists t', process_symlink t (l, d) = Ok t' /\ forall p, lookup t' p = after_links (ls1 ++ [(l, d)]) p).
    { intros n Hn Hnl. unfold process_symlink. rewrite (lstat_ok t l Hda), Hll, Hn.
      assert (Hra : remove_all t l = Ok (unset_tree t l)) by (apply (remove_all_present t l n Hda); now rewrite Hll).
      assert (Hda' : dirs_above (unset_tree t l) l).
      { apply dirs_above_iff. intros q A. rewrite lookup_unset_tree, (above_not_prefix_back q l A).
        apply dirs_above_iff with (q := q) in Hda; assumption. }
      assert (Hl0 : lookup (unset_tree t l) l = None) by (now rewrite lookup_unset_tree, is_prefix_refl).
      assert (Hgoal : (do t1 <- remove_all t l ;;
                       match readlink t1 l with
                       | Err ENOENT => symlink t1 d l
                       | Err e => Err e
                       | Unmodelled => Unmodelled
                       | Ok d' => if N.eqb d' d then Ok t1 else do t2 <- remove t1 l ;; symlink t2 d l
                       end) = Ok (set (unset_tree t l) l (Link d))).
      { rewrite Hra. cbn [bind]. rewrite (readlink_ok _ l Hda'), Hl0. apply (symlink_ok _ d l Hda' Hl0). }
      exists (set (unset_tree t l) l (Link d)). split.
      - destruct n as [c| |d']; [exact Hgoal | exact Hgoal | exfalso; now apply (Hnl d')].
      - apply Htree. intros p. now rewrite lookup_set, lookup_unset_tree. }
    destruct (lookup (tree_of ob) l) as [[c| |d']|] eqn:Eo.
    - apply (Hclear (File c)); [reflexivity | discriminate].
    - apply (Hclear Dir); [reflexivity | discriminate].
    - unfold process_symlink. rewrite (lstat_ok t l Hda), Hll. cbn [bind].
      rewrite (readlink_ok t l Hda), Hll.
      destruct (N.eqb d' d) eqn:Edd.
      + apply N.eqb_eq in Edd. subst d'. exists t. split; [reflexivity|].
        apply Hflat; [|discriminate]. intros p. destruct (path_eqb l p) eqn:Elp; [|reflexivity].
        apply path_eqb_eq in Elp. subst p. now rewrite Hll.
      + rewrite (remove_nondir t l (Link d') Hda); [|now rewrite Hll|discriminate]. cbn [bind].
        assert (Hda' : dirs_above (unset t l) l).
        { apply dirs_above_iff. intros q A. rewrite lookup_unset.
          pose proof (above_neq q l A) as Hq. apply not_eq_sym in Hq. apply path_eqb_neq in Hq. rewrite Hq.
          apply dirs_above_iff with (q := q) in Hda; assumption. }
        rewrite (symlink_ok _ d l Hda'); [|now rewrite lookup_unset, path_eqb_refl].
        eexists. split; [reflexivity|]. apply Hflat; [|discriminate].
        intros p. rewrite lookup_set, lookup_unset. destruct (path_eqb l p); reflexivity.
    - unfold process_symlink. rewrite (lstat_ok t l Hda), Hll. cbn [bind].
      rewrite (readlink_ok t l Hda), Hll.
      rewrite (symlink_ok t d l Hda); [|now rewrite Hll].
      eexists. split; [reflexivity|]. apply Hflat; [|discriminate]. intros p. apply lookup_set.
  Qed.

  Lemma process_symlinks : forall ls2 ls1 t,
    b_links nb = ls1 ++ ls2 ->
    (forall p, lookup t p = after_links ls1 p) ->
    exists t', fold_res process_symlink ls2 t = Ok t' /\ forall p, lookup t' p = after_links (ls1 ++ ls2) p.
  Proof.
    induction ls2 as [|[l d] ls2 IH]; intros ls1 t E Inv; cbn [fold_res].
    - exists t. split; [reflexivity|]. now rewrite app_nil_r.
    - destruct (process_symlink_step ls1 l d ls2 t E Inv) as [t1 [H1 Inv1]]. rewrite H1. cbn [bind].
      destruct (IH (ls1 ++ [(l, d)]) t1) as [t' [H' Inv']]; [now rewrite <- app_assoc | assumption |].
      exists t'. split; [assumption|]. intros p. rewrite Inv'. now rewrite <- app_assoc.
  Qed.

  (* ---------------------------------------------------------------- the phase *)

  (** the tree after phase 1 *)
  Definition state1 (p : path) : option node := after_links (b_links nb) p.

  Theorem phase1_ok :
    exists t1, ensure_dirs_and_symlinks (cont nb) (tree_of ob) = Ok t1 /\ forall p, lookup t1 p = state1 p.
  Proof.
    unfold ensure_dirs_and_symlinks. cbn [cont c_dirs c_links].
    destruct (process_dirs (b_dirs nb) [] (tree_of ob)) as [ta [Ha Inva]]; [reflexivity | intros p; reflexivity |].
    rewrite Ha. cbn [bind].
    destruct (process_symlinks (b_links nb) [] ta) as [tb [Hb Invb]]; [reflexivity | |].
    - intros p. rewrite Inva. cbn [app]. unfold after_dirs, after_links. cbn [assoc_link under_links existsb]. reflexivity.
    - exists tb. split; [assumption|]. intros p. rewrite Invb. reflexivity.
  Qed.

  (** reading [state1] *)
  Lemma state1_dir : forall p, In p (b_dirs nb) -> state1 p = Some Dir.
  Proof. intros p H. unfold state1, after_links. apply mem_In in H. now rewrite H. Qed.

  Lemma state1_link : forall p d, In (p, d) (b_links nb) -> state1 p = Some (Link d).
  Proof.
    intros p d H. unfold state1, after_links.
    assert (Hnd : mem p (b_dirs nb) = false).
    { apply mem_false. intros Hd. apply (dir_not_link nb Wn p Hd). apply in_map_iff. now exists (p, d). }
    rewrite Hnd. now rewrite (assoc_link_in (b_links nb) p d (nodup_links nb Wn) H).
  Qed.

  Lemma state1_other : forall p, ~ In p (b_dirs nb) -> ~ In p (map fst (b_links nb)) ->
    state1 p = if under_new_link (cont nb) p then None else lookup (tree_of ob) p.
  Proof.
    intros p Hd Hl. unfold state1, after_links. apply mem_false in Hd. rewrite Hd.
    now rewrite (assoc_link_none (b_links nb) p Hl).
  Qed.
End Phase1.
