(** Lemmas about the overlay-bowl model ([Bowl/OverlayCommit.v]). *)
From Wharf Require Import Base.Prelude Bowl.FSmini Bowl.OverlayCommit.
Local Open Scope N_scope.

(** The patch phase never writes to the output folder: whatever the steps, whatever the
    overlay writer, the tree holding the old build is the one it started from. *)
Lemma patch_step_out : forall mk oc wd s, out (patch_step mk oc wd s) = out wd.
Proof.
  intros mk oc wd s. destruct s as [p k | p content]; cbn [patch_step].
  - reflexivity.
  - destruct (mem p (c_files oc)); reflexivity.
Qed.

Lemma patch_phase_out : forall mk oc steps wd, out (patch_phase mk oc steps wd) = out wd.
Proof.
  intros mk oc steps. unfold patch_phase.
  induction steps as [|s r IH]; intros wd; cbn [fold_left].
  - reflexivity.
  - rewrite IH. apply patch_step_out.
Qed.
