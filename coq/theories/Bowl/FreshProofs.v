(** Lemmas about the output-tree model: lookups after [tset] / [tremove_all] / [mkdir_all],
    and the specification of [prepare] on a well-formed container. *)
From Wharf Require Import Base.Prelude Bowl.Fresh.

(* ------------------------------------------------------------------ paths *)

Lemma list_eqb_N_eq (a b : list N) : list_eqb N.eqb a b = true <-> a = b.
Proof.
  revert b. induction a as [|x a IH]; intros [|y b]; cbn [list_eqb]; split; intros H; try reflexivity; try discriminate.
  - apply andb_prop in H. destruct H as [H1 H2]. apply N.eqb_eq in H1. apply IH in H2. subst. reflexivity.
  - injection H as -> ->. rewrite N.eqb_refl. cbn. apply IH. reflexivity.
Qed.

Lemma path_eqb_eq a b : path_eqb a b = true <-> a = b.
Proof. apply list_eqb_N_eq. Qed.
Lemma path_eqb_refl a : path_eqb a a = true.
Proof. apply path_eqb_eq. reflexivity. Qed.
Lemma path_eqb_neq a b : a <> b -> path_eqb a b = false.
Proof. intros H. destruct (path_eqb a b) eqn:E; [apply path_eqb_eq in E; contradiction|reflexivity]. Qed.
Lemma path_eqb_sym a b : path_eqb a b = path_eqb b a.
Proof.
  destruct (path_eqb a b) eqn:E.
  - apply path_eqb_eq in E. subst. symmetry. apply path_eqb_refl.
  - destruct (path_eqb b a) eqn:E'; [|reflexivity]. apply path_eqb_eq in E'. subst. rewrite path_eqb_refl in E. discriminate.
Qed.
Lemma path_eq_dec (a b : path) : {a = b} + {a <> b}.
Proof. destruct (path_eqb a b) eqn:E; [left; apply path_eqb_eq; assumption|right; intros ->; rewrite path_eqb_refl in E; discriminate]. Qed.

Lemma nlist_eqb_eq (a b : list N) : nlist_eqb a b = true <-> a = b.
Proof. apply list_eqb_N_eq. Qed.

(* ------------------------------------------------------------------ lookups *)

Lemma tlookup_tset t p n q : tlookup (tset t p n) q = if path_eqb p q then Some n else tlookup t q.
Proof. reflexivity. Qed.
Lemma tlookup_tset_same t p n : tlookup (tset t p n) p = Some n.
Proof. rewrite tlookup_tset, path_eqb_refl. reflexivity. Qed.
Lemma tlookup_tset_other t p n q : p <> q -> tlookup (tset t p n) q = tlookup t q.
Proof. intros H. rewrite tlookup_tset, path_eqb_neq by assumption. reflexivity. Qed.

Lemma tlookup_app a b q :
  tlookup (a ++ b) q = match tlookup a q with Some x => Some x | None => tlookup b q end.
Proof.
  induction a as [|[p n] a IH]; cbn [tlookup app]; [reflexivity|].
  destruct (path_eqb p q); [reflexivity|apply IH].
Qed.

Lemma tlookup_none t q : tlookup t q = None <-> ~ In q (map fst t).
Proof.
  induction t as [|[p n] t IH]; cbn [tlookup map fst In]; [tauto|].
  destruct (path_eqb p q) eqn:E.
  - apply path_eqb_eq in E. subst. split; [discriminate|intros H; exfalso; apply H; left; reflexivity].
  - rewrite IH. split; [intros H [->|H']; [rewrite path_eqb_refl in E; discriminate|contradiction]|tauto].
Qed.

Lemma tlookup_in t q n : tlookup t q = Some n -> In (q, n) t.
Proof.
  induction t as [|[p m] t IH]; cbn [tlookup]; [discriminate|].
  destruct (path_eqb p q) eqn:E.
  - apply path_eqb_eq in E. subst. intros [= ->]. left. reflexivity.
  - intros H. right. apply IH. assumption.
Qed.

Lemma tlookup_nodup t q n : NoDup (map fst t) -> In (q, n) t -> tlookup t q = Some n.
Proof.
  induction t as [|[p m] t IH]; cbn [map fst tlookup]; intros ND HI; [destruct HI|].
  inversion ND as [|? ? Hnot ND']; subst.
  destruct HI as [[= -> ->]|HI].
  - rewrite path_eqb_refl. reflexivity.
  - destruct (path_eqb p q) eqn:E.
    + apply path_eqb_eq in E. subst. exfalso. apply Hnot. apply (in_map fst) in HI. exact HI.
    + apply IH; assumption.
Qed.

(* ------------------------------------------------------------------ prefixes *)

Lemma is_prefix_app p r : is_prefix p (p ++ r) = true.
Proof. induction p as [|x p IH]; cbn [is_prefix app]; [reflexivity|]. rewrite N.eqb_refl. exact IH. Qed.

Lemma is_prefix_spec p q : is_prefix p q = true <-> exists r, q = p ++ r.
Proof.
  revert q. induction p as [|x p IH]; intros q; cbn [is_prefix].
  - split; [intros _; exists q; reflexivity|reflexivity].
  - destruct q as [|y q].
    + split; [discriminate|intros [r H]; discriminate].
    + split.
      * intros H. apply andb_prop in H. destruct H as [H1 H2]. apply N.eqb_eq in H1. apply IH in H2.
        destruct H2 as [r ->]. subst. exists r. reflexivity.
      * intros [r H]. injection H as -> ->. rewrite N.eqb_refl. cbn. apply IH. exists r. reflexivity.
Qed.

Lemma tlookup_tremove_all t p q :
  tlookup (tremove_all t p) q = if is_prefix p q then None else tlookup t q.
Proof.
  unfold tremove_all. induction t as [|[k n] t IH]; cbn [filter tlookup fst].
  - destruct (is_prefix p q); reflexivity.
  - destruct (is_prefix p k) eqn:E; cbn [negb].
    + rewrite IH. destruct (path_eqb k q) eqn:E'; [|reflexivity].
      apply path_eqb_eq in E'. subst. rewrite E. reflexivity.
    + cbn [tlookup]. destruct (path_eqb k q) eqn:E'.
      * apply path_eqb_eq in E'. subst. rewrite E. reflexivity.
      * apply IH.
Qed.

Lemma prefixes_from_in done rest q :
  In q (prefixes_from done rest) <-> exists a b, rest = a ++ b /\ a <> [] /\ q = done ++ a.
Proof.
  revert done. induction rest as [|s rest IH]; intros done; cbn [prefixes_from In].
  - split; [tauto|]. intros (a & b & H & Hne & _). destruct a; [contradiction|discriminate].
  - rewrite IH. split.
    + intros [<-|(a & b & -> & Hne & ->)].
      * exists [s], rest. split; [reflexivity|split; [discriminate|reflexivity]].
      * exists (s :: a), b. split; [reflexivity|split; [discriminate|]]. rewrite <- app_assoc. reflexivity.
    + intros (a & b & H & Hne & ->). destruct a as [|x a]; [contradiction|].
      injection H as -> ->. destruct a as [|y a].
      * left. reflexivity.
      * right. exists (y :: a), b. split; [reflexivity|split; [discriminate|]]. rewrite <- app_assoc. reflexivity.
Qed.

Lemma ne_prefixes_in p q : In q (ne_prefixes p) <-> exists b, p = q ++ b /\ q <> [].
Proof.
  unfold ne_prefixes. rewrite prefixes_from_in. cbn [app]. split.
  - intros (a & b & -> & Hne & ->). exists b. split; [reflexivity|assumption].
  - intros (b & -> & Hne). exists q, b. split; [reflexivity|split; [assumption|reflexivity]].
Qed.

Lemma parent_snoc p s : parent (p ++ [s]) = p.
Proof. unfold parent. apply removelast_last. Qed.

Lemma path_snoc (p : path) : p <> [] -> exists s, p = parent p ++ [s].
Proof.
  intros H. destruct (exists_last H) as (l & s & ->). exists s. rewrite parent_snoc. reflexivity.
Qed.

Lemma proper_prefixes_in p q : In q (proper_prefixes p) <-> exists b, p = q ++ b /\ q <> [] /\ b <> [].
Proof.
  unfold proper_prefixes. rewrite ne_prefixes_in. destruct p as [|x p'] eqn:Ep.
  - cbn. split.
    + intros (b & H & Hne). symmetry in H. apply app_eq_nil in H. destruct H; contradiction.
    + intros (b & H & Hne & _). symmetry in H. apply app_eq_nil in H. destruct H; contradiction.
  - rewrite <- Ep. assert (Hp : p <> []) by (rewrite Ep; discriminate).
    destruct (path_snoc p Hp) as [s Hs]. split.
    + intros (b & H & Hne). exists (b ++ [s]). split; [|split; [assumption|destruct b; discriminate]].
      rewrite Hs at 1. rewrite H. rewrite app_assoc. reflexivity.
    + intros (b & H & Hne & Hb). destruct (exists_last Hb) as (b' & s' & ->).
      exists b'. split; [|assumption]. rewrite H. rewrite app_assoc. rewrite parent_snoc. reflexivity.
Qed.

Lemma parent_in_proper p : p <> [] -> parent p <> [] -> In (parent p) (proper_prefixes p).
Proof.
  intros Hp Hq. apply proper_prefixes_in. destruct (path_snoc p Hp) as [s Hs].
  exists [s]. split; [assumption|split; [assumption|discriminate]].
Qed.

Lemma ne_prefixes_split p : p <> [] -> forall q, In q (ne_prefixes p) <-> In q (proper_prefixes p) \/ q = p.
Proof.
  intros Hp q. rewrite ne_prefixes_in, proper_prefixes_in. split.
  - intros (b & H & Hne). destruct b as [|x b].
    + right. rewrite app_nil_r in H. symmetry. assumption.
    + left. exists (x :: b). split; [assumption|split; [assumption|discriminate]].
  - intros [(b & H & Hne & _)| ->]; [exists b; split; assumption|exists []; split; [rewrite app_nil_r; reflexivity|assumption]].
Qed.

(* ------------------------------------------------------------------ mkdir_all *)

Lemma prefixes_from_longer done rest q : In q (prefixes_from done rest) -> length done < length q.
Proof.
  rewrite prefixes_from_in. intros (a & b & _ & Hne & ->). rewrite app_length.
  destruct a; [contradiction|cbn; lia].
Qed.

Lemma mkdir_all_from_noop rest : forall t done,
  (forall q, In q (prefixes_from done rest) -> tlookup t q = Some Dir) ->
  mkdir_all_from t done rest = Ok t.
Proof.
  induction rest as [|s rest IH]; intros t done H; cbn [mkdir_all_from]; [reflexivity|].
  rewrite (H (done ++ [s])) by (left; reflexivity).
  apply IH. intros q Hq. apply H. right. assumption.
Qed.

Lemma mkdir_all_noop t p :
  (forall q, In q (ne_prefixes p) -> tlookup t q = Some Dir) -> mkdir_all t p = Ok t.
Proof. apply mkdir_all_from_noop. Qed.

Lemma mkdir_all_from_spec rest : forall t done,
  (forall q, In q (prefixes_from done rest) -> tlookup t q = Some Dir \/ tlookup t q = None) ->
  exists t', mkdir_all_from t done rest = Ok t' /\
    (forall q, In q (prefixes_from done rest) -> tlookup t' q = Some Dir) /\
    (forall q, ~ In q (prefixes_from done rest) -> tlookup t' q = tlookup t q).
Proof.
  induction rest as [|s rest IH]; intros t done H; cbn [mkdir_all_from prefixes_from].
  - exists t. split; [reflexivity|]. split; [intros q []|reflexivity].
  - set (cur := done ++ [s]) in *.
    assert (Hcur : ~ In cur (prefixes_from cur rest)) by (intros HI; apply prefixes_from_longer in HI; lia).
    destruct (H cur (or_introl eq_refl)) as [E|E]; rewrite E.
    + destruct (IH t cur) as (t' & Ht' & Hin & Hout); [intros q Hq; apply H; right; assumption|].
      exists t'. split; [assumption|]. split.
      * intros q [<-|Hq]; [rewrite Hout by assumption; assumption|apply Hin; assumption].
      * intros q Hq. apply Hout. intros HI. apply Hq. right. assumption.
    + destruct (IH (tset t cur Dir) cur) as (t' & Ht' & Hin & Hout).
      { intros q Hq. rewrite tlookup_tset_other; [apply H; right; assumption|].
        intros <-. contradiction. }
      exists t'. split; [assumption|]. split.
      * intros q [<-|Hq]; [rewrite Hout by assumption; apply tlookup_tset_same|apply Hin; assumption].
      * intros q Hq. rewrite Hout by (intros HI; apply Hq; right; assumption).
        apply tlookup_tset_other. intros <-. apply Hq. left. reflexivity.
Qed.

Lemma mkdir_all_spec t p :
  (forall q, In q (ne_prefixes p) -> tlookup t q = Some Dir \/ tlookup t q = None) ->
  exists t', mkdir_all t p = Ok t' /\
    (forall q, In q (ne_prefixes p) -> tlookup t' q = Some Dir) /\
    (forall q, ~ In q (ne_prefixes p) -> tlookup t' q = tlookup t q).
Proof. apply mkdir_all_from_spec. Qed.

(** [is_dir] of the parent of an entry of a tree in which all proper prefixes are directories *)
Lemma is_dir_parent t p :
  p <> [] -> (forall q, In q (proper_prefixes p) -> tlookup t q = Some Dir) -> is_dir t (parent p) = true.
Proof.
  intros Hp H. unfold is_dir. destruct (parent p) as [|x r] eqn:E; [reflexivity|].
  rewrite H; [reflexivity|]. rewrite <- E. apply parent_in_proper; [assumption|rewrite E; discriminate].
Qed.

Lemma NoDup_app_l {A} (a b : list A) : NoDup (a ++ b) -> NoDup a.
Proof.
  induction a as [|x a IH]; cbn [app]; intros H; [constructor|].
  inversion H as [|? ? Hn Hd]; subst. constructor; [intros HI; apply Hn; apply in_or_app; left; assumption|apply IH; assumption].
Qed.
Lemma NoDup_app_r {A} (a b : list A) : NoDup (a ++ b) -> NoDup b.
Proof.
  induction a as [|x a IH]; cbn [app]; intros H; [assumption|].
  inversion H; subst. apply IH. assumption.
Qed.

(* ------------------------------------------------------------------ fold_res *)

Lemma fold_res_app {A B} (f : A -> B -> res A) a l1 l2 :
  fold_res f a (l1 ++ l2) = bind (fold_res f a l1) (fun a' => fold_res f a' l2).
Proof.
  revert a. induction l1 as [|x l1 IH]; intros a; cbn [fold_res app bind]; [reflexivity|].
  destruct (f a x); cbn [bind]; [apply IH|reflexivity|reflexivity].
Qed.

(* ------------------------------------------------------------------ Prepare *)

Definition dtree (ds : list path) : tree := map (fun d => (d, Dir)) ds.
Definition ftree (fs : list (path * Z)) : tree := map (fun f => (fst f, File (zeros (Z.to_nat (snd f))))) fs.
Definition ltree (ls : list (path * list byte)) : tree := map (fun l => (fst l, Link (snd l))) ls.

Lemma ctree_eq c : ctree c = dtree (c_dirs c) ++ ftree (c_files c) ++ ltree (c_links c).
Proof. reflexivity. Qed.

Lemma dtree_keys ds : map fst (dtree ds) = ds.
Proof. unfold dtree. rewrite map_map. cbn [fst]. apply map_id. Qed.
Lemma ftree_keys fs : map fst (ftree fs) = map fst fs.
Proof. unfold ftree. rewrite map_map. reflexivity. Qed.
Lemma ltree_keys ls : map fst (ltree ls) = map fst ls.
Proof. unfold ltree. rewrite map_map. reflexivity. Qed.
Lemma ctree_keys c : map fst (ctree c) = c_paths c.
Proof. rewrite ctree_eq. unfold c_paths. rewrite !map_app, dtree_keys, ftree_keys, ltree_keys. reflexivity. Qed.

Lemma tlookup_dtree ds q : In q ds -> tlookup (dtree ds) q = Some Dir.
Proof.
  induction ds as [|d ds IH]; cbn [dtree map tlookup In]; [tauto|].
  intros [->|H]; [rewrite path_eqb_refl; reflexivity|].
  destruct (path_eqb d q); [reflexivity|apply IH; assumption].
Qed.
Lemma tlookup_dtree_cases ds q : tlookup (dtree ds) q = Some Dir \/ tlookup (dtree ds) q = None.
Proof.
  induction ds as [|d ds IH]; cbn [dtree map tlookup]; [right; reflexivity|].
  destruct (path_eqb d q); [left; reflexivity|exact IH].
Qed.

Lemma tlookup_snoc A p n q :
  tlookup (A ++ [(p, n)]) q = match tlookup A q with Some x => Some x | None => if path_eqb p q then Some n else None end.
Proof. rewrite tlookup_app. reflexivity. Qed.

Lemma tlookup_not_key t q : ~ In q (map fst t) -> tlookup t q = None.
Proof. apply tlookup_none. Qed.
Lemma tlookup_key t q n : tlookup t q = Some n -> In q (map fst t).
Proof. intros H. apply tlookup_in in H. apply (in_map fst) in H. exact H. Qed.

Section Prepare.
  Variable c : container.
  Hypothesis WF : wf_container c.

  Let ND : NoDup (c_paths c) := proj1 WF.
  Let NR : ~ In [] (c_paths c) := proj1 (proj2 WF).
  Let PC : forall p q, In p (c_paths c) -> In q (proper_prefixes p) -> In q (c_dirs c) := proj1 (proj2 (proj2 WF)).
  Let SZ : forall f, In f (c_files c) -> (0 <= snd f)%Z := proj2 (proj2 (proj2 WF)).

  Lemma dir_in_paths d : In d (c_dirs c) -> In d (c_paths c).
  Proof. intros H. unfold c_paths. apply in_or_app. left. assumption. Qed.
  Lemma file_in_paths f : In f (c_files c) -> In (fst f) (c_paths c).
  Proof. intros H. unfold c_paths. apply in_or_app. right. apply in_or_app. left. apply in_map. assumption. Qed.
  Lemma link_in_paths l : In l (c_links c) -> In (fst l) (c_paths c).
  Proof. intros H. unfold c_paths. apply in_or_app. right. apply in_or_app. right. apply in_map. assumption. Qed.

  Lemma ne_prefixes_of_dir d q : In d (c_dirs c) -> In q (ne_prefixes d) -> In q (c_dirs c).
  Proof.
    intros Hd Hq. assert (d <> []) by (intros ->; apply NR, dir_in_paths; assumption).
    apply ne_prefixes_split in Hq; [|assumption]. destruct Hq as [Hq| ->]; [|assumption].
    apply (PC d); [apply dir_in_paths|]; assumption.
  Qed.

  (** phase 1: the directories *)
  Lemma dirs_phase ds : forall t,
    (forall d, In d ds -> In d (c_dirs c)) ->
    (forall q, tlookup t q = Some Dir \/ tlookup t q = None) ->
    exists t', fold_res prepare_dir t ds = Ok t' /\
      (forall q, tlookup t' q = Some Dir \/ tlookup t' q = None) /\
      (forall q, tlookup t' q = Some Dir <-> tlookup t q = Some Dir \/ exists d, In d ds /\ In q (ne_prefixes d)).
  Proof.
    induction ds as [|d ds IH]; intros t Hds Ht; cbn [fold_res].
    - exists t. split; [reflexivity|]. split; [assumption|]. intros q. split; [tauto|intros [H|(d & [] & _)]; assumption].
    - unfold prepare_dir at 1.
      destruct (mkdir_all_spec t d) as (t1 & E1 & Hin & Hout); [intros q _; apply Ht|].
      rewrite E1. cbn [bind].
      assert (Ht1 : forall q, tlookup t1 q = Some Dir \/ tlookup t1 q = None).
      { intros q. destruct (in_dec path_eq_dec q (ne_prefixes d)) as [HI|HI]; [left; apply Hin; assumption|rewrite Hout by assumption; apply Ht]. }
      destruct (IH t1) as (t' & E' & Ht' & Hiff); [intros d' Hd'; apply Hds; right; assumption|assumption|].
      exists t'. split; [assumption|]. split; [assumption|].
      intros q. rewrite Hiff. split.
      + intros [H|(d' & Hd' & Hq)].
        * destruct (in_dec path_eq_dec q (ne_prefixes d)) as [HI|HI].
          -- right. exists d. split; [left; reflexivity|assumption].
          -- left. rewrite <- Hout by assumption. assumption.
        * right. exists d'. split; [right; assumption|assumption].
      + intros [H|(d' & [<-|Hd'] & Hq)].
        * left. destruct (in_dec path_eq_dec q (ne_prefixes d)) as [HI|HI]; [apply Hin; assumption|rewrite Hout; assumption].
        * left. apply Hin. assumption.
        * right. exists d'. split; assumption.
  Qed.

  Lemma dirs_done :
    exists t1, fold_res prepare_dir [] (c_dirs c) = Ok t1 /\ forall q, tlookup t1 q = tlookup (dtree (c_dirs c)) q.
  Proof.
    destruct (dirs_phase (c_dirs c) []) as (t1 & E & Hc & Hiff); [auto|intros q; right; reflexivity|].
    exists t1. split; [assumption|]. intros q.
    destruct (in_dec path_eq_dec q (c_dirs c)) as [HI|HI].
    - rewrite tlookup_dtree by assumption. apply Hiff. right. exists q. split; [assumption|].
      apply ne_prefixes_in. exists []. split; [rewrite app_nil_r; reflexivity|].
      intros ->. apply NR, dir_in_paths. assumption.
    - rewrite (tlookup_not_key (dtree _)) by (rewrite dtree_keys; assumption).
      destruct (Hc q) as [H|H]; [|assumption]. exfalso. apply HI.
      apply Hiff in H. destruct H as [H|(d & Hd & Hq)]; [discriminate|].
      apply (ne_prefixes_of_dir d); assumption.
  Qed.

  (** every proper prefix of an entry is a directory of any tree that agrees with the
      reference on the directories *)
  Lemma prefixes_are_dirs t R p :
    (forall q, tlookup t q = tlookup (dtree (c_dirs c) ++ R) q) ->
    In p (c_paths c) -> forall q, In q (proper_prefixes p) -> tlookup t q = Some Dir.
  Proof.
    intros Ht Hp q Hq. rewrite Ht, tlookup_app, tlookup_dtree; [reflexivity|]. apply (PC p); assumption.
  Qed.

  (** phase 2: the files *)
  Lemma files_phase todo : forall done t,
    c_files c = done ++ todo ->
    (forall q, tlookup t q = tlookup (dtree (c_dirs c) ++ ftree done) q) ->
    exists t', fold_res prepare_file t todo = Ok t' /\
      forall q, tlookup t' q = tlookup (dtree (c_dirs c) ++ ftree (c_files c)) q.
  Proof.
    induction todo as [|[p sz] todo IH]; intros done t Hsplit Ht; cbn [fold_res].
    - exists t. split; [reflexivity|]. rewrite Hsplit, app_nil_r. assumption.
    - assert (Hin : In (p, sz) (c_files c)) by (rewrite Hsplit; apply in_or_app; right; left; reflexivity).
      assert (Hpath : In p (c_paths c)) by (apply (file_in_paths (p, sz)); assumption).
      assert (Hp : p <> []) by (intros ->; contradiction).
      unfold prepare_file at 1.
      rewrite (is_dir_parent t p Hp (prefixes_are_dirs t _ p Ht Hpath)). cbn [negb].
      assert (Hsz : (sz <? 0)%Z = false) by (apply Z.ltb_ge; apply (SZ (p, sz)); assumption).
      rewrite Hsz. destruct p as [|x p']; [contradiction|]. set (p := x :: p') in *.
      assert (Hnone : tlookup t p = None).
      { rewrite Ht. apply tlookup_not_key. rewrite map_app, dtree_keys, ftree_keys.
        unfold c_paths in ND. rewrite Hsplit, map_app in ND. cbn [map fst] in ND.
        assert (ND2 : NoDup ((c_dirs c ++ map fst done) ++ p :: (map fst todo ++ map fst (c_links c)))).
        { rewrite <- !app_assoc. cbn [app]. rewrite <- !app_assoc in ND. exact ND. }
        apply NoDup_remove_2 in ND2. intros HI. apply ND2. apply in_or_app. left. exact HI. }
      rewrite Hnone. cbn [bind].
      apply (IH (done ++ [(x :: p', sz)])); [rewrite <- app_assoc; assumption|].
      intros q. unfold ftree. rewrite map_app. cbn [map fst snd]. rewrite app_assoc, tlookup_snoc.
      fold (ftree done). rewrite <- Ht, tlookup_tset. fold p.
      destruct (path_eqb p q) eqn:E.
      + apply path_eqb_eq in E. subst q. rewrite Hnone. reflexivity.
      + destruct (tlookup t q); reflexivity.
  Qed.

  (** phase 3: the symlinks *)
  Lemma links_phase todo : forall done t,
    c_links c = done ++ todo ->
    (forall q, tlookup t q = tlookup (dtree (c_dirs c) ++ ftree (c_files c) ++ ltree done) q) ->
    exists t', fold_res prepare_link t todo = Ok t' /\
      forall q, tlookup t' q = tlookup (ctree c) q.
  Proof.
    induction todo as [|[p dest] todo IH]; intros done t Hsplit Ht; cbn [fold_res].
    - exists t. split; [reflexivity|]. rewrite ctree_eq, Hsplit, app_nil_r. assumption.
    - assert (Hin : In (p, dest) (c_links c)) by (rewrite Hsplit; apply in_or_app; right; left; reflexivity).
      assert (Hpath : In p (c_paths c)) by (apply (link_in_paths (p, dest)); assumption).
      assert (Hp : p <> []) by (intros ->; contradiction).
      unfold prepare_link at 1. destruct p as [|x p']; [contradiction|]. set (p := x :: p') in *.
      (* nothing at or below p yet *)
      assert (Hnotdir : ~ In p (c_dirs c)).
      { unfold c_paths in ND. rewrite Hsplit, map_app in ND. cbn [map fst] in ND. fold p in ND.
        intros HI. rewrite !app_assoc in ND. apply NoDup_remove_2 in ND. apply ND.
        apply in_or_app. left. apply in_or_app. left. apply in_or_app. left. assumption. }
      assert (Hkeys : forall q n, tlookup t q = Some n -> In q (c_paths c) /\ q <> p).
      { intros q n Hq. rewrite Ht in Hq. apply tlookup_key in Hq.
        rewrite !map_app, dtree_keys, ftree_keys, ltree_keys in Hq.
        unfold c_paths in *. rewrite Hsplit, map_app in *. cbn [map fst] in *. fold p in ND |- *. split.
        - apply in_app_or in Hq. destruct Hq as [Hq|Hq]; [apply in_or_app; left; assumption|].
          apply in_app_or in Hq. destruct Hq as [Hq|Hq]; apply in_or_app; right; apply in_or_app; [left; assumption|].
          right. apply in_or_app. left. assumption.
        - intros ->. rewrite !app_assoc in ND. apply NoDup_remove_2 in ND. apply ND.
          apply in_or_app. left. rewrite <- !app_assoc. assumption. }
      assert (Hrm : forall q, tlookup (tremove_all t p) q = tlookup t q).
      { intros q. rewrite tlookup_tremove_all. destruct (is_prefix p q) eqn:E; [|reflexivity].
        apply is_prefix_spec in E. destruct E as [r ->].
        destruct (tlookup t (p ++ r)) as [n|] eqn:El; [|reflexivity]. exfalso.
        destruct (Hkeys _ _ El) as [Hk Hne].
        destruct r as [|y r]; [rewrite app_nil_r in Hne; contradiction|].
        apply Hnotdir. apply (PC (p ++ y :: r)); [assumption|].
        apply proper_prefixes_in. exists (y :: r). split; [reflexivity|split; discriminate]. }
      assert (Ht' : forall q, tlookup (tremove_all t p) q = tlookup (dtree (c_dirs c) ++ (ftree (c_files c) ++ ltree done)) q).
      { intros q. rewrite Hrm. rewrite Ht. reflexivity. }
      rewrite (is_dir_parent (tremove_all t p) p Hp (prefixes_are_dirs _ _ p Ht' Hpath)). cbn [negb].
      apply (IH (done ++ [(x :: p', dest)])); [rewrite <- app_assoc; assumption|].
      intros q. unfold ltree. rewrite map_app. cbn [map fst snd]. rewrite !app_assoc, tlookup_snoc.
      fold (ltree done). rewrite <- !app_assoc. rewrite <- Ht, tlookup_tset, Hrm. fold p.
      destruct (path_eqb p q) eqn:E.
      + apply path_eqb_eq in E. subst q. destruct (tlookup t p) eqn:El; [|reflexivity].
        exfalso. apply (Hkeys _ _ El). reflexivity.
      + destruct (tlookup t q); reflexivity.
  Qed.

  (** Prepare of a well-formed container into the empty directory lays out exactly [ctree] *)
  Theorem prepare_spec :
    exists t0, prepare c [] = Ok t0 /\ forall q, tlookup t0 q = tlookup (ctree c) q.
  Proof.
    unfold prepare.
    destruct dirs_done as (t1 & E1 & H1). rewrite E1. cbn [bind].
    destruct (files_phase (c_files c) [] t1) as (t2 & E2 & H2); [reflexivity|intros q; rewrite H1; cbn [ftree map]; rewrite app_nil_r; reflexivity|].
    rewrite E2. cbn [bind].
    destruct (links_phase (c_links c) [] t2) as (t3 & E3 & H3); [reflexivity|intros q; rewrite H2; cbn [ltree map]; rewrite app_nil_r; reflexivity|].
    exists t3. split; assumption.
  Qed.
End Prepare.

(* ------------------------------------------------------------------ lookups in [ctree] *)

Section Ctree.
  Variable c : container.
  Hypothesis WF : wf_container c.

  Lemma ctree_nodup : NoDup (map fst (ctree c)).
  Proof. rewrite ctree_keys. apply WF. Qed.

  Lemma ctree_dir q : In q (c_dirs c) -> tlookup (ctree c) q = Some Dir.
  Proof. intros H. rewrite ctree_eq, tlookup_app, tlookup_dtree by assumption. reflexivity. Qed.

  Lemma ctree_file p sz : In (p, sz) (c_files c) -> tlookup (ctree c) p = Some (File (zeros (Z.to_nat sz))).
  Proof.
    intros H. apply tlookup_nodup; [apply ctree_nodup|]. rewrite ctree_eq.
    apply in_or_app. right. apply in_or_app. left. unfold ftree.
    apply (in_map (fun f => (fst f, File (zeros (Z.to_nat (snd f)))))) in H. exact H.
  Qed.

  Lemma ctree_link p d : In (p, d) (c_links c) -> tlookup (ctree c) p = Some (Link d).
  Proof.
    intros H. apply tlookup_nodup; [apply ctree_nodup|]. rewrite ctree_eq.
    apply in_or_app. right. apply in_or_app. right. unfold ltree.
    apply (in_map (fun l => (fst l, Link (snd l)))) in H. exact H.
  Qed.

  Lemma ctree_none q : ~ In q (c_paths c) -> tlookup (ctree c) q = None.
  Proof. intros H. apply tlookup_not_key. rewrite ctree_keys. assumption. Qed.

  Lemma files_nodup : NoDup (map fst (c_files c)).
  Proof. destruct WF as (ND & _). unfold c_paths in ND. apply NoDup_app_r in ND. apply NoDup_app_l in ND. exact ND. Qed.
End Ctree.

(* ------------------------------------------------------------------ the boolean well-formedness test *)

Lemma nodup_paths_sound l : nodup_paths l = true -> NoDup l.
Proof.
  induction l as [|p l IH]; cbn [nodup_paths]; intros H; [constructor|].
  apply andb_prop in H. destruct H as [H1 H2]. constructor; [|apply IH; assumption].
  intros HI. apply Bool.negb_true_iff in H1.
  assert (E : existsb (path_eqb p) l = true) by (apply existsb_exists; exists p; split; [assumption|apply path_eqb_refl]).
  rewrite E in H1. discriminate.
Qed.

(** the executable test used on every generated build of the C01 correspondence implies the
    hypothesis of the theorem *)
Lemma wf_buildb_sound b : wf_buildb b = true -> wf_build b.
Proof.
  unfold wf_buildb. intros H. apply andb_prop in H. destruct H as [H H3]. apply andb_prop in H. destruct H as [H1 H2].
  split; [apply nodup_paths_sound; assumption|]. split.
  - intros HI. apply Bool.negb_true_iff in H2.
    assert (E : existsb (path_eqb []) (map fst b) = true) by (apply existsb_exists; exists []; split; [assumption|reflexivity]).
    rewrite E in H2. discriminate.
  - intros p n q Hin Hq. rewrite forallb_forall in H3. specialize (H3 (p, n) Hin). cbn [fst] in H3.
    rewrite forallb_forall in H3. specialize (H3 q Hq).
    destruct (tlookup b q) as [[d| |d]|] eqn:E; try discriminate. apply tlookup_in. assumption.
Qed.

Lemma wf_containerb_sound c : wf_containerb c = true -> wf_container c.
Proof.
  unfold wf_containerb. intros H. apply andb_prop in H. destruct H as [H H4]. apply andb_prop in H. destruct H as [H H3].
  apply andb_prop in H. destruct H as [H1 H2].
  split; [apply nodup_paths_sound; assumption|]. split; [|split].
  - intros HI. apply Bool.negb_true_iff in H2.
    assert (E : existsb (path_eqb []) (c_paths c) = true) by (apply existsb_exists; exists []; split; [assumption|reflexivity]).
    rewrite E in H2. discriminate.
  - intros p q Hp Hq. rewrite forallb_forall in H3. specialize (H3 p Hp).
    rewrite forallb_forall in H3. specialize (H3 q Hq). apply existsb_exists in H3. destruct H3 as (x & Hx & E).
    apply path_eqb_eq in E. subst. assumption.
  - intros f Hf. rewrite forallb_forall in H4. specialize (H4 f Hf). apply Z.leb_le in H4. assumption.
Qed.
