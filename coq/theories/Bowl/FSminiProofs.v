(** Lemmas about the private filesystem model [Bowl/FSmini.v]: decidable equality of paths,
    prefixes, [lookup] after each primitive, and the success cases of the operations that the
    commit proof needs. *)
From Wharf Require Import Base.Prelude Bowl.FSmini.
Local Open Scope N_scope.

(* ------------------------------------------------------------------ names and paths *)

Lemma comp_eqb_eq : forall a b, comp_eqb a b = true <-> a = b.
Proof.
  induction a as [x | c IH k]; destruct b as [y | d l]; cbn [comp_eqb]; split; intros H; try discriminate.
  - apply N.eqb_eq in H. now subst.
  - injection H as ->. apply N.eqb_refl.
  - apply andb_true_iff in H as [H1 H2]. apply IH in H1. apply N.eqb_eq in H2. now subst.
  - injection H as -> ->. apply andb_true_iff. split; [now apply IH | apply N.eqb_refl].
Qed.

Lemma path_eqb_eq : forall a b, path_eqb a b = true <-> a = b.
Proof.
  unfold path_eqb. induction a as [|x a IH]; destruct b as [|y b]; cbn [list_eqb]; split; intros H; try discriminate; try reflexivity.
  - apply andb_true_iff in H as [H1 H2]. apply comp_eqb_eq in H1. apply IH in H2. now subst.
  - injection H as -> ->. apply andb_true_iff. split; [now apply comp_eqb_eq | now apply IH].
Qed.

Lemma path_eqb_refl : forall a, path_eqb a a = true.
Proof. intros a. now apply path_eqb_eq. Qed.

Lemma path_eqb_neq : forall a b, path_eqb a b = false <-> a <> b.
Proof.
  intros a b. split.
  - intros H E. apply path_eqb_eq in E. congruence.
  - intros H. destruct (path_eqb a b) eqn:E; [apply path_eqb_eq in E; contradiction | reflexivity].
Qed.

Lemma path_eqb_sym : forall a b, path_eqb a b = path_eqb b a.
Proof.
  intros a b. destruct (path_eqb a b) eqn:E.
  - apply path_eqb_eq in E. subst. symmetry. apply path_eqb_refl.
  - symmetry. apply path_eqb_neq. apply path_eqb_neq in E. congruence.
Qed.

Lemma path_eq_dec : forall a b : path, {a = b} + {a <> b}.
Proof.
  intros a b. destruct (path_eqb a b) eqn:E; [left; now apply path_eqb_eq | right; now apply path_eqb_neq].
Qed.

Lemma is_prefix_spec : forall p q, is_prefix p q = true <-> exists r, q = p ++ r.
Proof.
  induction p as [|a p IH]; intros q; cbn [is_prefix].
  - split; [intros _; now exists q | reflexivity].
  - destruct q as [|b q].
    + split; [discriminate | intros [r H]; discriminate].
    + split.
      * intros H. apply andb_true_iff in H as [H1 H2]. apply comp_eqb_eq in H1. apply IH in H2 as [r ->].
        subst. now exists r.
      * intros [r H]. cbn in H. injection H as -> ->. apply andb_true_iff. split; [now apply comp_eqb_eq | apply IH; now exists r].
Qed.

Lemma is_prefix_refl : forall p, is_prefix p p = true.
Proof. intros p. apply is_prefix_spec. exists []. now rewrite app_nil_r. Qed.

Lemma is_prefix_app : forall p r, is_prefix p (p ++ r) = true.
Proof. intros p r. apply is_prefix_spec. now exists r. Qed.

Lemma is_proper_prefix_spec : forall p q, is_proper_prefix p q = true <-> exists r, q = p ++ r /\ r <> [].
Proof.
  intros p q. unfold is_proper_prefix. rewrite andb_true_iff, negb_true_iff, is_prefix_spec, path_eqb_neq. split.
  - intros [[r ->] H]. exists r. split; [reflexivity|]. intros ->. rewrite app_nil_r in H. congruence.
  - intros [r [-> H]]. split; [now exists r|]. intros E. apply H.
    rewrite <- (app_nil_r p) in E at 1. now apply app_inv_head in E.
Qed.

Lemma is_proper_prefix_false : forall p q, is_proper_prefix p q = false <-> ~ exists r, q = p ++ r /\ r <> [].
Proof.
  intros p q. rewrite <- is_proper_prefix_spec. destruct (is_proper_prefix p q); split; intros H; try congruence.
Qed.

(* ------------------------------------------------------------------ lookup *)

Lemma lookup_unset : forall t p q, lookup (unset t p) q = if path_eqb p q then None else lookup t q.
Proof.
  intros t p q. unfold unset. induction t as [|[k n] t IH]; cbn [filter lookup fst].
  - now destruct (path_eqb p q).
  - destruct (path_eqb k p) eqn:E1; cbn [negb].
    + apply path_eqb_eq in E1. subst k. rewrite IH. destruct (path_eqb p q); reflexivity.
    + cbn [lookup]. rewrite IH. destruct (path_eqb k q) eqn:E2; [|reflexivity].
      apply path_eqb_eq in E2. subst k. rewrite path_eqb_sym, E1. reflexivity.
Qed.

Lemma lookup_set : forall t p n q, lookup (set t p n) q = if path_eqb p q then Some n else lookup t q.
Proof.
  intros t p n q. unfold set. cbn [lookup]. rewrite lookup_unset. destruct (path_eqb p q); reflexivity.
Qed.

Lemma lookup_unset_tree : forall t p q, lookup (unset_tree t p) q = if is_prefix p q then None else lookup t q.
Proof.
  intros t p q. unfold unset_tree. induction t as [|[k n] t IH]; cbn [filter lookup fst].
  - now destruct (is_prefix p q).
  - destruct (is_prefix p k) eqn:E1; cbn [negb].
    + rewrite IH. destruct (is_prefix p q) eqn:E2; [reflexivity|].
      destruct (path_eqb k q) eqn:E3; [|reflexivity]. apply path_eqb_eq in E3. subst. congruence.
    + cbn [lookup]. rewrite IH. destruct (path_eqb k q) eqn:E3; [|reflexivity].
      apply path_eqb_eq in E3. subst. now rewrite E1.
Qed.

Lemma lookup_In : forall t p n, lookup t p = Some n -> In (p, n) t.
Proof.
  induction t as [|[k m] t IH]; intros p n H; cbn [lookup] in H; [discriminate|].
  destruct (path_eqb k p) eqn:E.
  - apply path_eqb_eq in E. injection H as ->. subst. now left.
  - right. now apply IH.
Qed.

Lemma In_lookup : forall t p n, In (p, n) t -> exists m, lookup t p = Some m.
Proof.
  induction t as [|[k m] t IH]; intros p n H; [destruct H|]. cbn [lookup].
  destruct (path_eqb k p) eqn:E; [now exists m|].
  destruct H as [H|H]; [injection H as -> ->; rewrite path_eqb_refl in E; discriminate|]. now apply IH in H.
Qed.

Lemma has_child_false : forall t p, (forall q, is_proper_prefix p q = true -> lookup t q = None) -> has_child t p = false.
Proof.
  intros t p H. unfold has_child. destruct (existsb _ t) eqn:E; [|reflexivity].
  apply existsb_exists in E as [[q n] [Hin Hp]]. cbn [fst] in Hp. apply In_lookup in Hin as [m Hm].
  rewrite (H q Hp) in Hm. discriminate.
Qed.

(* ------------------------------------------------------------------ path resolution *)

(** every proper, non-empty prefix of [p] is a directory in [t] *)
Definition dirs_above (t : fs) (p : path) : Prop :=
  forall q r, p = q ++ r -> q <> [] -> r <> [] -> lookup t q = Some Dir.

Lemma resolve_dirs_ok : forall t rest pre,
  (forall q r, rest = q ++ r -> q <> [] -> r <> [] -> lookup t (pre ++ q) = Some Dir) ->
  resolve_dirs t pre rest = Ok tt.
Proof.
  intros t. induction rest as [|c rest IH]; intros pre H; cbn [resolve_dirs]; [reflexivity|].
  destruct rest as [|c2 rest]; [reflexivity|].
  rewrite (H [c] (c2 :: rest)); [|reflexivity|discriminate|discriminate].
  apply IH. intros q r E Hq Hr. rewrite <- app_assoc. apply (H (c :: q) r); [cbn; now rewrite E | discriminate | assumption].
Qed.

Lemma parent_ok_ok : forall t p, dirs_above t p -> parent_ok t p = Ok tt.
Proof. intros t p H. unfold parent_ok. apply resolve_dirs_ok. intros q r E Hq Hr. cbn. now apply (H q r). Qed.

Lemma lstat_ok : forall t p, dirs_above t p -> lstat t p = match lookup t p with Some n => Ok n | None => Err ENOENT end.
Proof. intros t p H. unfold lstat. rewrite (parent_ok_ok t p H). cbn [bind]. reflexivity. Qed.

Lemma dirs_above_ext : forall t t' p, (forall q, lookup t q = Some Dir -> lookup t' q = Some Dir) -> dirs_above t p -> dirs_above t' p.
Proof. intros t t' p H D q r E Hq Hr. apply H. now apply (D q r). Qed.

Lemma dirs_above_nil : forall t, dirs_above t [].
Proof. intros t q r E Hq Hr. destruct q; [contradiction | discriminate]. Qed.

Lemma removelast_app1 : forall (p : path) c, removelast (p ++ [c]) = p.
Proof. intros p c. rewrite removelast_app; [|discriminate]. cbn. apply app_nil_r. Qed.

Lemma path_snoc : forall p : path, p <> [] -> exists q c, p = q ++ [c].
Proof. intros p H. destruct (exists_last H) as [q [c E]]. now exists q, c. Qed.

Lemma parent_snoc : forall p c, parent (p ++ [c]) = p.
Proof. intros p c. apply removelast_app1. Qed.

(** the parent of [p] is a directory (or the root) and so is everything above it *)
Lemma dirs_above_parent : forall t p, dirs_above t p -> dirs_above t (parent p).
Proof.
  intros t p H q r E Hq Hr. destruct (path_eq_dec p []) as [->|Hp]; [cbn in E; destruct q; [contradiction|discriminate]|].
  destruct (path_snoc p Hp) as [p' [c ->]]. rewrite parent_snoc in E. subst p'.
  apply (H q (r ++ [c])); [now rewrite app_assoc | assumption | destruct r; discriminate].
Qed.

Lemma parent_is_dir : forall t p, dirs_above t p -> parent p <> [] -> lookup t (parent p) = Some Dir.
Proof.
  intros t p H Hn. destruct (path_eq_dec p []) as [->|Hp]; [contradiction|].
  destruct (path_snoc p Hp) as [p' [c ->]]. rewrite parent_snoc in *. apply (H p' [c]); [reflexivity | assumption | discriminate].
Qed.

(* ------------------------------------------------------------------ mkdir_all *)

Lemma mkdir_from_noop : forall t rest pre,
  (forall q r, rest = q ++ r -> q <> [] -> lookup t (pre ++ q) = Some Dir) ->
  mkdir_from t pre rest = Ok t.
Proof.
  intros t. induction rest as [|c rest IH]; intros pre H; cbn [mkdir_from]; [reflexivity|].
  rewrite (H [c] rest); [|reflexivity|discriminate].
  apply IH. intros q r E Hq. rewrite <- app_assoc. apply (H (c :: q) r); [cbn; now rewrite E | discriminate].
Qed.

(** MkdirAll of a path that is a directory below directories does nothing *)
Lemma mkdir_all_noop : forall t p, dirs_above t p -> (p <> [] -> lookup t p = Some Dir) -> mkdir_all t p = Ok t.
Proof.
  intros t p H Hp. unfold mkdir_all. apply mkdir_from_noop. intros q r E Hq. cbn.
  destruct r as [|x r]; [rewrite app_nil_r in E; subst q; now apply Hp | apply (H q (x :: r)); [assumption|assumption|discriminate]].
Qed.

Lemma mkdir_from_last : forall t rest pre c,
  (forall q r, rest = q ++ r -> q <> [] -> lookup t (pre ++ q) = Some Dir) ->
  lookup t (pre ++ rest ++ [c]) = None ->
  mkdir_from t pre (rest ++ [c]) = Ok (set t (pre ++ rest ++ [c]) Dir).
Proof.
  intros t. induction rest as [|x rest IH]; intros pre c H Hn; cbn [mkdir_from app].
  - cbn in Hn. rewrite Hn. cbn [mkdir_from]. reflexivity.
  - rewrite (H [x] rest); [|reflexivity|discriminate].
    replace (pre ++ x :: rest ++ [c]) with ((pre ++ [x]) ++ rest ++ [c]) by (now rewrite <- app_assoc).
    apply IH.
    + intros q r E Hq. rewrite <- app_assoc. apply (H (x :: q) r); [cbn; now rewrite E | discriminate].
    + now rewrite <- app_assoc.
Qed.

(** MkdirAll of a missing path whose proper prefixes are directories creates just that path *)
Lemma mkdir_all_last : forall t p, dirs_above t p -> p <> [] -> lookup t p = None -> mkdir_all t p = Ok (set t p Dir).
Proof.
  intros t p H Hp Hn. destruct (path_snoc p Hp) as [q [c ->]]. unfold mkdir_all.
  rewrite (mkdir_from_last t q [] c); [reflexivity | | assumption].
  intros q' r E Hq. cbn. apply (H q' (r ++ [c])); [subst q; now rewrite app_assoc | assumption | destruct r; discriminate].
Qed.

(* ------------------------------------------------------------------ operations, success cases *)

Lemma remove_nondir : forall t p n, dirs_above t p -> lookup t p = Some n -> n <> Dir -> remove t p = Ok (unset t p).
Proof.
  intros t p n H Hl Hn. unfold remove. rewrite (lstat_ok t p H), Hl. cbn [bind]. destruct n; [reflexivity | contradiction | reflexivity].
Qed.

Lemma remove_missing : forall t p, dirs_above t p -> lookup t p = None -> remove t p = Err ENOENT.
Proof. intros t p H Hl. unfold remove. rewrite (lstat_ok t p H), Hl. reflexivity. Qed.

Lemma remove_empty_dir : forall t p, dirs_above t p -> lookup t p = Some Dir ->
  (forall q, is_proper_prefix p q = true -> lookup t q = None) -> remove t p = Ok (unset t p).
Proof.
  intros t p H Hl Hc. unfold remove. rewrite (lstat_ok t p H), Hl. cbn [bind]. now rewrite (has_child_false t p Hc).
Qed.

Lemma remove_all_present : forall t p n, dirs_above t p -> lookup t p = Some n -> remove_all t p = Ok (unset_tree t p).
Proof. intros t p n H Hl. unfold remove_all. now rewrite (lstat_ok t p H), Hl. Qed.

Lemma symlink_ok : forall t d p, dirs_above t p -> lookup t p = None -> symlink t d p = Ok (set t p (Link d)).
Proof. intros t d p H Hl. unfold symlink. rewrite (parent_ok_ok t p H). cbn [bind]. now rewrite Hl. Qed.

Lemma readlink_ok : forall t p, dirs_above t p ->
  readlink t p = match lookup t p with Some (Link d) => Ok d | Some _ => Err EINVAL | None => Err ENOENT end.
Proof. intros t p H. unfold readlink. rewrite (lstat_ok t p H). destruct (lookup t p) as [[c| |d]|]; reflexivity. Qed.

Lemma rename_file : forall t src dst c, dirs_above t src -> dirs_above t dst -> lookup t src = Some (File c) ->
  lookup t dst <> Some Dir -> src <> dst ->
  rename t src dst = Ok (set (unset t src) dst (File c)).
Proof.
  intros t src dst c Hs Hd Hl Hnd Hne. unfold rename. rewrite (lstat_ok t dst Hd).
  assert (E : (do n <- lstat t src;; do _ <- parent_ok t dst;;
               match n with
               | Dir => if is_prefix src dst then Err EINVAL
                        else match lookup t dst with Some _ => Err ENOTDIR | None => Ok (move_subtree t src dst) end
               | _ => if path_eqb src dst then Ok t else Ok (set (unset t src) dst n)
               end) = Ok (set (unset t src) dst (File c))).
  { rewrite (lstat_ok t src Hs), Hl. cbn [bind]. rewrite (parent_ok_ok t dst Hd). cbn [bind].
    apply path_eqb_neq in Hne. now rewrite Hne. }
  destruct (lookup t dst) as [[x| |x]|]; try exact E. contradiction.
Qed.

Lemma read_file_ok : forall t p c, dirs_above t p -> lookup t p = Some (File c) -> read_file t p = Ok c.
Proof. intros t p c H Hl. unfold read_file. now rewrite (lstat_ok t p H), Hl. Qed.

Lemma create_trunc_ok : forall t p c, dirs_above t p -> (lookup t p = None \/ exists c', lookup t p = Some (File c')) ->
  create_trunc t p c = Ok (set t p (File c)).
Proof.
  intros t p c H Hl. unfold create_trunc. rewrite (parent_ok_ok t p H). cbn [bind].
  destruct Hl as [-> | [c' ->]]; reflexivity.
Qed.
