(** applyTranspositions, bookkeeping part: grouping by old path, temporary names, the clash
    detection loop ([rename_clashes]) for an arbitrary iteration order. *)
From Coq Require Import Permutation FinFun.
From Wharf Require Import Base.Prelude Bowl.FSmini Bowl.FSminiProofs Bowl.OverlayCommit Bowl.CommitSpec Bowl.CommitBuildProofs.
Local Open Scope N_scope.

(* ------------------------------------------------------------------ temporary names *)

Lemma tmp_path_cons : forall x r n, r <> [] -> tmp_path (x :: r) n = x :: tmp_path r n.
Proof. intros x r n H. destruct r; [contradiction | reflexivity]. Qed.

Lemma tmp_path_snoc : forall q c n, tmp_path (q ++ [c]) n = q ++ [R c n].
Proof.
  induction q as [|x q IH]; intros c n; [reflexivity|].
  cbn [app]. rewrite tmp_path_cons; [now rewrite IH | destruct q; discriminate].
Qed.

Lemma snoc_inj : forall (A : Type) (q q' : list A) c c', q ++ [c] = q' ++ [c'] -> q = q' /\ c = c'.
Proof. intros A q q' c c' H. apply app_inj_tail in H. exact H. Qed.

Lemma tmp_path_inj : forall p p' n n', p <> [] -> p' <> [] -> tmp_path p n = tmp_path p' n' -> p = p' /\ n = n'.
Proof.
  intros p p' n n' Hp Hp' H.
  destruct (path_snoc p Hp) as [q [c ->]]. destruct (path_snoc p' Hp') as [q' [c' ->]].
  rewrite !tmp_path_snoc in H. apply snoc_inj in H as [-> H]. injection H as -> ->. now split.
Qed.

Lemma tmp_path_nonempty : forall p n, p <> [] -> tmp_path p n <> [].
Proof. intros p n Hp. destruct (path_snoc p Hp) as [q [c ->]]. rewrite tmp_path_snoc. destruct q; discriminate. Qed.

Lemma above_snoc : forall a q (c : comp), above a (q ++ [c]) <-> a <> [] /\ is_prefix a q = true.
Proof.
  intros a q c. split.
  - intros [r [E [Ha Hr]]]. split; [assumption|].
    destruct (path_snoc r Hr) as [r' [x ->]]. rewrite app_assoc in E. apply snoc_inj in E as [-> _]. apply is_prefix_app.
  - intros [Ha H]. apply is_prefix_spec in H as [r ->]. exists (r ++ [c]). split; [now rewrite app_assoc|].
    split; [assumption | destruct r; discriminate].
Qed.

Lemma above_tmp_path : forall a p n, p <> [] -> (above a (tmp_path p n) <-> above a p).
Proof.
  intros a p n Hp. destruct (path_snoc p Hp) as [q [c ->]]. rewrite tmp_path_snoc. now rewrite !above_snoc.
Qed.

(* ------------------------------------------------------------------ pick_seed *)

Lemma pick_seed_cases : forall taken p fuel seed,
  mem (tmp_path p (pick_seed taken p seed fuel)) taken = false \/
  (forall i, (i < fuel)%nat -> mem (tmp_path p (seed + 1 + N.of_nat i)) taken = true).
Proof.
  intros taken p. induction fuel as [|f IH]; intros seed; cbn [pick_seed].
  - right. intros i Hi. inversion Hi.
  - destruct (mem (tmp_path p (seed + 1)) taken) eqn:E.
    + destruct (IH (seed + 1)) as [H|H]; [now left|]. right. intros i Hi. destruct i as [|i].
      * cbn. now rewrite N.add_0_r.
      * replace (seed + 1 + N.of_nat (S i)) with (seed + 1 + 1 + N.of_nat i) by lia. apply H. lia.
    + now left.
Qed.

Lemma pick_seed_fresh : forall taken p seed, p <> [] ->
  mem (tmp_path p (pick_seed taken p seed (S (length taken)))) taken = false.
Proof.
  intros taken p seed Hp. destruct (pick_seed_cases taken p (S (length taken)) seed) as [H|H]; [assumption|].
  exfalso.
  set (names := map (fun i => tmp_path p (seed + 1 + N.of_nat i)) (seq 0 (S (length taken)))).
  assert (Hnd : NoDup names).
  { unfold names. apply FinFun.Injective_map_NoDup; [|apply seq_NoDup].
    intros i j E. apply tmp_path_inj in E as [_ E]; [lia | assumption | assumption]. }
  assert (Hincl : incl names taken).
  { intros x Hx. unfold names in Hx. apply in_map_iff in Hx as [i [<- Hi]]. apply in_seq in Hi. apply mem_In. apply H. lia. }
  pose proof (NoDup_incl_length Hnd Hincl) as Hlen. unfold names in Hlen. rewrite map_length, seq_length in Hlen. lia.
Qed.

(* ------------------------------------------------------------------ grouping *)

Definition dests_of (tr : list (path * path)) (k : path) : list path :=
  map fst (filter (fun e => path_eqb (snd e) k) tr).

Lemma dests_of_In : forall tr k p, In p (dests_of tr k) <-> In (p, k) tr.
Proof.
  intros tr k p. unfold dests_of. rewrite in_map_iff. split.
  - intros [[p' k'] [E H]]. cbn in E. subst p'. apply filter_In in H as [H E]. cbn in E. apply path_eqb_eq in E. now subst.
  - intros H. exists (p, k). split; [reflexivity|]. apply filter_In. split; [assumption | apply path_eqb_refl].
Qed.

Lemma dests_of_nodup : forall tr k, NoDup (map fst tr) -> NoDup (dests_of tr k).
Proof.
  induction tr as [|[p k'] tr IH]; intros k H; unfold dests_of; cbn [filter map snd]; [constructor|].
  cbn [map fst] in H. inversion H as [|? ? Hn Hd]; subst.
  destruct (path_eqb k' k); [|now apply IH]. cbn [map fst]. constructor; [|now apply IH].
  intros Hin. apply Hn. apply in_map_iff in Hin as [e [E Hf]]. apply filter_In in Hf as [Hf _].
  apply in_map_iff. now exists e.
Qed.

Lemma group_get_add : forall g k p k',
  group_get (group_add g k p) k' =
  if path_eqb k k' then Some (match group_get g k' with Some ps => ps ++ [p] | None => [p] end) else group_get g k'.
Proof.
  induction g as [|[k0 ps] g IH]; intros k p k'; cbn [group_add group_get].
  - destruct (path_eqb k k'); reflexivity.
  - destruct (path_eqb k0 k) eqn:E0; cbn [group_get].
    + apply path_eqb_eq in E0. subst k0. destruct (path_eqb k k'); reflexivity.
    + rewrite IH. destruct (path_eqb k0 k') eqn:E1; [|reflexivity].
      apply path_eqb_eq in E1. subst k0. rewrite (path_eqb_sym k k'), E0. reflexivity.
Qed.

Lemma keys_add : forall g k p, keys (group_add g k p) = if mem k (keys g) then keys g else keys g ++ [k].
Proof.
  induction g as [|[k0 ps] g IH]; intros k p; cbn [group_add keys map fst]; [reflexivity|].
  rewrite mem_cons, (path_eqb_sym k k0). destruct (path_eqb k0 k) eqn:E; cbn [keys map fst orb]; [reflexivity|].
  fold (keys (group_add g k p)) (keys g). rewrite IH. destruct (mem k (keys g)); reflexivity.
Qed.

Definition merge_group (o : option (list path)) (l : list path) : option (list path) :=
  match o, l with
  | None, [] => None
  | None, _ => Some l
  | Some ps, _ => Some (ps ++ l)
  end.

Lemma group_by_acc : forall tr g0 k,
  group_get (fold_left (fun g e => group_add g (snd e) (fst e)) tr g0) k = merge_group (group_get g0 k) (dests_of tr k).
Proof.
  induction tr as [|[p k'] tr IH]; intros g0 k; cbn [fold_left fst snd].
  - unfold dests_of. cbn [filter map]. destruct (group_get g0 k); cbn [merge_group]; [now rewrite app_nil_r | reflexivity].
  - rewrite IH, group_get_add. unfold dests_of. cbn [filter snd]. destruct (path_eqb k' k) eqn:E; cbn [map fst].
    + destruct (group_get g0 k); cbn [merge_group]; [now rewrite <- app_assoc | reflexivity].
    + reflexivity.
Qed.

Lemma group_by_get : forall tr k,
  group_get (group_by tr) k = match dests_of tr k with [] => None | l => Some l end.
Proof. intros tr k. unfold group_by. rewrite group_by_acc. cbn [group_get merge_group]. destruct (dests_of tr k); reflexivity. Qed.

Lemma keys_acc_nodup : forall tr g0, NoDup (keys g0) -> NoDup (keys (fold_left (fun g e => group_add g (snd e) (fst e)) tr g0)).
Proof.
  induction tr as [|[p k] tr IH]; intros g0 H; cbn [fold_left fst snd]; [assumption|].
  apply IH. rewrite keys_add. destruct (mem k (keys g0)) eqn:E; [assumption|].
  apply mem_false in E. apply NoDup_app_intro; [assumption | repeat constructor; intros [] |].
  intros x Hx [<-|[]]. contradiction.
Qed.

Lemma group_by_keys_nodup : forall tr, NoDup (keys (group_by tr)).
Proof. intros tr. apply keys_acc_nodup. constructor. Qed.

Lemma group_get_keys : forall g k, (exists ps, group_get g k = Some ps) <-> In k (keys g).
Proof.
  induction g as [|[k0 ps] g IH]; intros k; cbn [group_get keys map fst].
  - split; [intros [ps H]; discriminate | intros []].
  - destruct (path_eqb k0 k) eqn:E.
    + apply path_eqb_eq in E. subst. split; [now left | intros _; now exists ps].
    + rewrite IH. split; [now right | intros [H|H]; [subst; rewrite path_eqb_refl in E; discriminate | assumption]].
Qed.

Lemma group_by_keys : forall tr k, In k (keys (group_by tr)) <-> exists p, In (p, k) tr.
Proof.
  intros tr k. rewrite <- group_get_keys, group_by_get. split.
  - intros [ps H]. destruct (dests_of tr k) as [|p l] eqn:E; [discriminate|].
    exists p. apply dests_of_In. rewrite E. now left.
  - intros [p H]. apply dests_of_In in H. destruct (dests_of tr k) as [|p' l]; [destruct H | now exists (p' :: l)].
Qed.

Lemma group_by_get_some : forall tr k ds, group_get (group_by tr) k = Some ds -> ds = dests_of tr k /\ ds <> [].
Proof.
  intros tr k ds H. rewrite group_by_get in H. destruct (dests_of tr k) as [|p l]; [discriminate|].
  injection H as <-. split; [reflexivity | discriminate].
Qed.

(* ------------------------------------------------------------------ the clash loop *)

Section Rename.
  Variables (taken ks : list path).

  (** how a destination [p] of group [k] is renamed to [p'], with [cl] the cleanup list *)
  Definition ren1 (k : path) (cl : list (path * path)) (e : path * path) : Prop :=
    let '(p', p) := e in
    if path_eqb k p then p' = p
    else if mem p ks then (exists n, p' = tmp_path p n /\ ~ In p' taken) /\ In (p', p) cl
    else p' = p.

  Lemma ren1_mono : forall k cl cl' e, incl cl cl' -> ren1 k cl e -> ren1 k cl' e.
  Proof.
    intros k cl cl' [p' p] Hi H. unfold ren1 in *. destruct (path_eqb k p); [assumption|].
    destruct (mem p ks); [|assumption]. destruct H as [H1 H2]. split; [assumption | now apply Hi].
  Qed.

  Lemma rename_group_spec : forall k ds seed cl ds' s' cl',
    rename_group taken ks k ds seed cl = (ds', s', cl') ->
    (forall p, In p ds -> p <> []) ->
    length ds' = length ds /\
    exists added, cl' = cl ++ added /\
      Forall (ren1 k added) (combine ds' ds) /\
      (forall e, In e added -> In e (combine ds' ds) /\ snd e <> k /\ In (snd e) ks) /\
      (NoDup ds -> NoDup (map snd added)).
  Proof.
    intros k. induction ds as [|p ds IH]; intros seed cl ds' s' cl' H Hne; cbn [rename_group] in H.
    - injection H as <- <- <-. split; [reflexivity|]. exists []. rewrite app_nil_r.
      split; [reflexivity|]. split; [constructor | split; [intros e [] | intros _; constructor]].
    - assert (Hne' : forall q, In q ds -> q <> []) by (intros q Hq; apply Hne; now right).
      destruct (path_eqb k p) eqn:Ekp.
      + destruct (rename_group taken ks k ds seed cl) as [[r' s1] cl1] eqn:Er. injection H as <- <- <-.
        destruct (IH seed cl r' s1 cl1 Er Hne') as [Hlen [added [-> [Hf [Ha Hn]]]]].
        split; [cbn; now rewrite Hlen|]. exists added. split; [reflexivity|]. cbn [combine]. split; [|split].
        * constructor; [|assumption]. unfold ren1. now rewrite Ekp.
        * intros e He. destruct (Ha e He) as [H1 H2]. split; [now right | assumption].
        * intros Hnd. inversion Hnd; subst. now apply Hn.
      + destruct (mem p ks) eqn:Emp.
        * set (n := pick_seed taken p seed (S (length taken))) in *.
          destruct (rename_group taken ks k ds n (cl ++ [(tmp_path p n, p)])) as [[r' s1] cl1] eqn:Er. injection H as <- <- <-.
          destruct (IH n _ r' s1 cl1 Er Hne') as [Hlen [added [-> [Hf [Ha Hn]]]]].
          split; [cbn; now rewrite Hlen|]. exists ((tmp_path p n, p) :: added). split; [now rewrite <- app_assoc|].
          cbn [combine]. split; [|split].
          -- constructor.
             ++ unfold ren1. rewrite Ekp, Emp. split; [|now left]. exists n. split; [reflexivity|].
                apply mem_false. apply pick_seed_fresh. apply Hne. now left.
             ++ apply Forall_impl with (P := ren1 k added); [|assumption]. intros e. apply ren1_mono. intros x Hx. now right.
          -- intros e [<-|He].
             ++ split; [now left|]. cbn [snd]. split; [apply path_eqb_neq in Ekp; congruence | now apply mem_In].
             ++ destruct (Ha e He) as [H1 H2]. split; [now right | assumption].
          -- intros Hnd. inversion Hnd as [|? ? Hnp Hnd']; subst. cbn [map snd]. constructor; [|now apply Hn].
             intros Hin. apply in_map_iff in Hin as [e [Ee He]]. destruct (Ha e He) as [H1 _].
             destruct e as [a b]. apply in_combine_r in H1. cbn in Ee. subst b. contradiction.
        * destruct (rename_group taken ks k ds seed cl) as [[r' s1] cl1] eqn:Er. injection H as <- <- <-.
          destruct (IH seed cl r' s1 cl1 Er Hne') as [Hlen [added [-> [Hf [Ha Hn]]]]].
          split; [cbn; now rewrite Hlen|]. exists added. split; [reflexivity|]. cbn [combine]. split; [|split].
          -- constructor; [|assumption]. unfold ren1. now rewrite Ekp, Emp.
          -- intros e He. destruct (Ha e He) as [H1 H2]. split; [now right | assumption].
          -- intros Hnd. inversion Hnd; subst. now apply Hn.
  Qed.

  Variable g : groups.
  Hypothesis Hks : ks = keys g.
  Hypothesis Hgn : NoDup (keys g).

  (** distinct groups have disjoint, duplicate-free, non-empty-path destination lists *)
  Hypothesis Hdisj : forall k1 k2 ds1 ds2 p, group_get g k1 = Some ds1 -> group_get g k2 = Some ds2 -> In p ds1 -> In p ds2 -> k1 = k2.
  Hypothesis Hnd : forall k ds, group_get g k = Some ds -> NoDup ds.
  Hypothesis Hnonempty : forall k ds p, group_get g k = Some ds -> In p ds -> p <> [].

  Lemma rename_clashes_spec : forall order1 seed cl g' clf,
    rename_clashes taken g order1 seed cl = (g', clf) ->
    NoDup order1 -> (forall k, In k order1 -> In k ks) ->
    keys g' = order1 /\
    exists added, clf = cl ++ added /\
      (forall k, In k order1 -> exists ds ds', group_get g k = Some ds /\ group_get g' k = Some ds' /\
                                  length ds' = length ds /\ Forall (ren1 k added) (combine ds' ds)) /\
      (forall e, In e added -> exists k ds ds', In k order1 /\ group_get g k = Some ds /\ group_get g' k = Some ds' /\
                                  In e (combine ds' ds) /\ snd e <> k /\ In (snd e) ks) /\
      NoDup (map snd added).
  Proof.
    induction order1 as [|k order1 IH]; intros seed cl g' clf H Hnd1 Hin; cbn [rename_clashes] in H.
    - injection H as <- <-. split; [reflexivity|]. exists []. rewrite app_nil_r.
      split; [reflexivity|]. split; [intros k [] | split; [intros e [] | constructor]].
    - inversion Hnd1 as [|? ? Hnk Hnd1']; subst.
      assert (Hk : In k (keys g)) by (rewrite <- Hks; apply Hin; now left).
      apply group_get_keys in Hk as [ds Hds]. rewrite Hds in H. rewrite <- Hks in H.
      destruct (rename_group taken ks k ds seed cl) as [[ds' s1] cl1] eqn:Er.
      destruct (rename_clashes taken g order1 s1 cl1) as [gr clr] eqn:Ec. injection H as <- <-.
      destruct (rename_group_spec k ds seed cl ds' s1 cl1 Er (fun p Hp => Hnonempty k ds p Hds Hp))
        as [Hlen [add1 [-> [Hf1 [Ha1 Hn1]]]]].
      destruct (IH s1 (cl ++ add1) gr clr Ec Hnd1' (fun k' Hk' => Hin k' (or_intror Hk'))) as [Hkeys [add2 [-> [Hg2 [Ha2 Hn2]]]]].
      split; [cbn [keys map fst]; fold (keys gr); now rewrite Hkeys|].
      exists (add1 ++ add2). split; [now rewrite app_assoc|].
      assert (Hgetk : forall k', k' <> k -> group_get ((k, ds') :: gr) k' = group_get gr k').
      { intros k' Hne. cbn [group_get]. apply not_eq_sym, path_eqb_neq in Hne. now rewrite Hne. }
      split; [|split].
      + intros k' [<-|Hk'].
        * exists ds, ds'. cbn [group_get]. rewrite path_eqb_refl. repeat split; try assumption.
          apply Forall_impl with (P := ren1 k add1); [|assumption]. intros e. apply ren1_mono. intros x Hx. apply in_or_app. now left.
        * destruct (Hg2 k' Hk') as [ds2 [ds2' [G1 [G2 [G3 G4]]]]]. exists ds2, ds2'.
          rewrite Hgetk; [|intros ->; contradiction]. repeat split; try assumption.
          apply Forall_impl with (P := ren1 k' add2); [|assumption]. intros e. apply ren1_mono. intros x Hx. apply in_or_app. now right.
      + intros e He. apply in_app_or in He as [He|He].
        * destruct (Ha1 e He) as [H1 [H2 H3]]. exists k, ds, ds'. cbn [group_get]. rewrite path_eqb_refl.
          repeat split; try assumption; now left.
        * destruct (Ha2 e He) as [k' [ds2 [ds2' [G0 [G1 [G2 [G3 [G4 G5]]]]]]]]. exists k', ds2, ds2'.
          rewrite Hgetk; [|intros ->; contradiction]. repeat split; try assumption. now right.
      + rewrite map_app. apply NoDup_app_intro; [apply Hn1; now apply (Hnd k) | assumption |].
        intros p Hp1 Hp2. apply in_map_iff in Hp1 as [e1 [E1 He1]]. apply in_map_iff in Hp2 as [e2 [E2 He2]].
        destruct (Ha1 e1 He1) as [H1 _]. destruct e1 as [a1 b1]. apply in_combine_r in H1. cbn in E1. subst b1.
        destruct (Ha2 e2 He2) as [k' [ds2 [ds2' [G0 [G1 [_ [G3 _]]]]]]]. destruct e2 as [a2 b2]. apply in_combine_r in G3. cbn in E2. subst b2.
        pose proof (Hdisj k k' ds ds2 p Hds G1 H1 G3) as Ekk. subst k'. contradiction.
  Qed.
End Rename.
