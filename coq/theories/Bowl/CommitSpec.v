(** Vocabulary of the C02 theorems: builds, their trees, what a sound patch-phase result is,
    the kind hypothesis, admissible iteration orders.  Definitions only. *)
From Coq Require Import Permutation.
From Wharf Require Import Base.Prelude Bowl.FSmini Bowl.OverlayCommit.
Local Open Scope N_scope.

(** a build = a container plus the file contents *)
Record build := mkB { b_dirs : list path; b_links : list (path * N); b_files : list (path * list N) }.

Definition cont (b : build) : container := mkC (b_dirs b) (b_links b) (map fst (b_files b)).

Definition tree_of (b : build) : fs :=
  map (fun d => (d, Dir)) (b_dirs b) ++
  map (fun l => (fst l, Link (snd l))) (b_links b) ++
  map (fun f => (fst f, File (snd f))) (b_files b).

Definition bpaths (b : build) : list path := c_paths (cont b).

(** [q] is a proper, non-empty prefix of [p] *)
Definition above (q p : path) : Prop := exists r, p = q ++ r /\ q <> [] /\ r <> [].

(** well-formed build: paths are non-empty and pairwise distinct across kinds, everything
    above an entry is a directory of the build, and the directory list has parents first
    (the order of a tlc walk, which is what ensureDirsAndSymlinks iterates over) *)
Record wf_build (b : build) : Prop := {
  wf_nodup : NoDup (bpaths b);
  wf_nonempty : forall p, In p (bpaths b) -> p <> [];
  wf_closed : forall p q, In p (bpaths b) -> above q p -> In q (b_dirs b);
  wf_parent_first : forall ds1 d ds2 q, b_dirs b = ds1 ++ d :: ds2 -> above q d -> In q ds1
}.

(** the patch phase result describes the new build in terms of the old one: every new file is
    exactly one of: a whole old file (transposition, possibly of itself), an old file at the same
    path plus a correct overlay, a staged whole file at a path where the old build has no file *)
Record patch_sound (ob nb : build) (w : work) (st : stage) : Prop := {
  ps_trans_nodup : NoDup (map fst (w_trans w));
  ps_over_nodup : NoDup (w_over w);
  ps_moves_nodup : NoDup (w_moves w);
  ps_cover : forall p, In p (map fst (b_files nb)) <-> In p (map fst (w_trans w)) \/ In p (w_over w) \/ In p (w_moves w);
  ps_disj_to : forall p, In p (map fst (w_trans w)) -> ~ In p (w_over w) /\ ~ In p (w_moves w);
  ps_disj_om : forall p, In p (w_over w) -> ~ In p (w_moves w);
  ps_trans : forall p k, In (p, k) (w_trans w) -> exists c, In (p, c) (b_files nb) /\ In (k, c) (b_files ob);
  ps_over : forall p, In p (w_over w) -> exists ops c cn,
      stage_get st p = Some (SOverlay ops) /\ In (p, c) (b_files ob) /\ In (p, cn) (b_files nb) /\ apply_ops ops c = cn;
  ps_moves : forall p, In p (w_moves w) ->
      ~ In p (map fst (b_files ob)) /\ exists c, stage_get st p = Some (SWhole c) /\ In (p, c) (b_files nb)
}.

Definition new_kind_ok_for_source (nb : build) (k : path) : Prop :=
  (lookup (tree_of nb) k = None \/ exists c, lookup (tree_of nb) k = Some (File c)) /\
  (forall q, above q k -> lookup (tree_of nb) q = None \/ lookup (tree_of nb) q = Some Dir).

(** H_kinds: (1) an old file that is the source of a transposition is not a directory or a
    symlink in the new build and does not lie below a path that is a symlink or a regular file
    there; (2) where the new build has a regular file the old build has no directory.
    (Every other change of kind is allowed.) *)
Record H_kinds (ob nb : build) (w : work) : Prop := {
  hk_source : forall p k, In (p, k) (w_trans w) -> new_kind_ok_for_source nb k;
  hk_dir_to_file : forall p, In p (map fst (b_files nb)) -> lookup (tree_of ob) p <> Some Dir
}.

(** admissible ghost orders: all ghosts, each once, never a path before one of its extensions'
    ... i.e. an entry is visited before every proper prefix of it ([sort] by decreasing length) *)
Definition ghost_order_ok (nb ob : build) (go : list ghost) : Prop :=
  Permutation go (detect_ghosts (cont nb) (cont ob)) /\
  forall l1 g1 l2 g2 l3, go = l1 ++ g1 :: l2 ++ g2 :: l3 -> is_proper_prefix (snd g1) (snd g2) = false.

Definition trans_keys (w : work) : list path := keys (group_by (w_trans w)).
