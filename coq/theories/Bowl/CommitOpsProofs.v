(** [copy], [move] and the execution of one transposition group on a tree in which the source is
    a regular file and no destination is a directory. *)
From Coq Require Import Permutation.
From Wharf Require Import Base.Prelude Bowl.FSmini Bowl.FSminiProofs Bowl.OverlayCommit Bowl.CommitSpec Bowl.CommitBuildProofs.
Local Open Scope N_scope.

Lemma dirs_above_change : forall t t' p, (forall a, above a p -> lookup t' a = lookup t a) -> dirs_above t p -> dirs_above t' p.
Proof.
  intros t t' p H D. apply dirs_above_iff. intros a A. rewrite (H a A). now apply (proj1 (dirs_above_iff t p) D).
Qed.

Lemma not_above_nondir : forall t p a, dirs_above t p -> lookup t a <> Some Dir -> ~ above a p.
Proof. intros t p a D H A. apply H. now apply (proj1 (dirs_above_iff t p) D). Qed.

Lemma mkdir_parent_noop : forall t p, dirs_above t p -> mkdir_all t (parent p) = Ok t.
Proof.
  intros t p D. apply mkdir_all_noop; [now apply dirs_above_parent | intros H; now apply parent_is_dir].
Qed.

Definition not_dir (o : option node) : Prop := o <> Some Dir.

Lemma copy_spec : forall t src dst c mk,
  dirs_above t src -> lookup t src = Some (File c) ->
  dirs_above t dst -> lookup t dst <> Some Dir ->
  exists t', copy t src dst mk = Ok t' /\ forall q, lookup t' q = if path_eqb dst q then Some (File c) else lookup t q.
Proof.
  intros t src dst c mk Ds Ls Dd Ld. unfold copy.
  assert (E1 : (if mk then mkdir_all t (parent dst) else Ok t) = Ok t).
  { destruct mk; [now apply mkdir_parent_noop | reflexivity]. }
  rewrite E1. cbn [bind]. rewrite (read_file_ok t src c Ds Ls). cbn [bind].
  rewrite (lstat_ok t dst Dd).
  destruct (lookup t dst) as [[c'| |d']|] eqn:El; cbn [bind].
  - rewrite (create_trunc_ok t dst c Dd); [|right; now exists c'].
    eexists. split; [reflexivity|]. intros q. apply lookup_set.
  - contradiction.
  - rewrite (remove_nondir t dst (Link d') Dd El); [|discriminate]. cbn [bind].
    assert (Dd' : dirs_above (unset t dst) dst).
    { apply (dirs_above_change t); [|assumption]. intros a A. rewrite lookup_unset.
      pose proof (above_neq a dst A) as Hn. apply not_eq_sym, path_eqb_neq in Hn. now rewrite Hn. }
    rewrite (create_trunc_ok _ dst c Dd'); [|left; now rewrite lookup_unset, path_eqb_refl].
    eexists. split; [reflexivity|]. intros q. rewrite lookup_set, lookup_unset. destruct (path_eqb dst q); reflexivity.
  - rewrite (create_trunc_ok t dst c Dd); [|now left].
    eexists. split; [reflexivity|]. intros q. apply lookup_set.
Qed.

Lemma move_spec : forall t src dst c,
  dirs_above t src -> lookup t src = Some (File c) ->
  dirs_above t dst -> lookup t dst <> Some Dir -> src <> dst ->
  exists t', move t src dst = Ok t' /\
    forall q, lookup t' q = if path_eqb dst q then Some (File c) else if path_eqb src q then None else lookup t q.
Proof.
  intros t src dst c Ds Ls Dd Ld Hne. unfold move.
  assert (H1 : exists t1, match remove t dst with
                          | Ok t1 => Ok t1 | Err ENOENT => Ok t | Err e => Err e | Unmodelled => Unmodelled end = Ok t1 /\
                          forall q, lookup t1 q = if path_eqb dst q then None else lookup t q).
  { destruct (lookup t dst) as [n|] eqn:El.
    - rewrite (remove_nondir t dst n Dd El); [|intros ->; contradiction].
      eexists. split; [reflexivity|]. intros q. apply lookup_unset.
    - rewrite (remove_missing t dst Dd El). exists t. split; [reflexivity|].
      intros q. destruct (path_eqb dst q) eqn:E; [apply path_eqb_eq in E; now subst|reflexivity]. }
  destruct H1 as [t1 [-> L1]]. cbn [bind].
  assert (Nsd : ~ above dst src) by (apply (not_above_nondir t src dst Ds Ld)).
  assert (Nds : ~ above src dst) by (apply (not_above_nondir t dst src Dd); rewrite Ls; discriminate).
  assert (Ds1 : dirs_above t1 src).
  { apply (dirs_above_change t); [|assumption]. intros a A. rewrite L1.
    destruct (path_eqb dst a) eqn:E; [apply path_eqb_eq in E; subst; contradiction|reflexivity]. }
  assert (Dd1 : dirs_above t1 dst).
  { apply (dirs_above_change t); [|assumption]. intros a A. rewrite L1.
    pose proof (above_neq a dst A) as Hn. apply not_eq_sym, path_eqb_neq in Hn. now rewrite Hn. }
  rewrite (mkdir_parent_noop t1 dst Dd1). cbn [bind].
  assert (Ls1 : lookup t1 src = Some (File c)).
  { rewrite L1. apply not_eq_sym, path_eqb_neq in Hne. now rewrite Hne. }
  rewrite (rename_file t1 src dst c Ds1 Dd1 Ls1); [| rewrite L1, path_eqb_refl; discriminate | assumption].
  eexists. split; [reflexivity|]. intros q. rewrite lookup_set, lookup_unset, L1.
  destruct (path_eqb dst q) eqn:E1; [reflexivity|]. destruct (path_eqb src q); [reflexivity|]. reflexivity.
Qed.

(** the destinations of one group on a tree: not the source, below directories, not directories *)
Definition dests_ok (t : fs) (k : path) (ds : list path) : Prop :=
  forall d, In d ds -> d <> k -> dirs_above t d /\ lookup t d <> Some Dir.

Lemma copy_all_spec : forall ds t k c,
  dirs_above t k -> lookup t k = Some (File c) ->
  ~ In k ds -> dests_ok t k ds ->
  exists t', copy_all t k ds = Ok t' /\ forall q, lookup t' q = if mem q ds then Some (File c) else lookup t q.
Proof.
  induction ds as [|d ds IH]; intros t k c Dk Lk Hk Hok; cbn [copy_all].
  - exists t. split; [reflexivity|]. intros q. reflexivity.
  - assert (Hdk : d <> k) by (intros ->; apply Hk; now left).
    destruct (Hok d (or_introl eq_refl) Hdk) as [Dd Ld].
    destruct (copy_spec t k d c true Dk Lk Dd Ld) as [t1 [-> L1]]. cbn [bind].
    assert (Dk1 : dirs_above t1 k).
    { apply (dirs_above_change t); [|assumption]. intros a A. rewrite L1.
      destruct (path_eqb d a) eqn:E; [|reflexivity]. apply path_eqb_eq in E. subst a.
      exfalso. now apply (not_above_nondir t k d Dk Ld). }
    assert (Lk1 : lookup t1 k = Some (File c)).
    { rewrite L1. apply path_eqb_neq in Hdk. now rewrite Hdk. }
    destruct (IH t1 k c Dk1 Lk1) as [t' [H' L']].
    + intros H. apply Hk. now right.
    + intros d2 Hin Hne. destruct (Hok d2 (or_intror Hin) Hne) as [D2 L2]. split.
      * apply (dirs_above_change t); [|assumption]. intros a A. rewrite L1.
        destruct (path_eqb d a) eqn:E; [|reflexivity]. apply path_eqb_eq in E. subst a.
        exfalso. now apply (not_above_nondir t d2 d D2 Ld).
      * rewrite L1. destruct (path_eqb d d2); [discriminate | assumption].
    + exists t'. split; [assumption|]. intros q. rewrite L', mem_cons.
      rewrite L1, (path_eqb_sym q d). destruct (mem q ds); [now rewrite orb_true_r|]. rewrite orb_false_r. reflexivity.
Qed.

Lemma mem_remove_first : forall k ds q, NoDup ds -> mem q (remove_first k ds) = mem q ds && negb (path_eqb q k).
Proof.
  intros k. induction ds as [|d ds IH]; intros q Hnd; cbn [remove_first]; [reflexivity|].
  inversion Hnd as [|? ? Hn Hd]; subst.
  destruct (path_eqb k d) eqn:E.
  - apply path_eqb_eq in E. subst d. rewrite mem_cons.
    destruct (path_eqb q k) eqn:E2.
    + apply path_eqb_eq in E2. subst q. cbn. apply mem_false in Hn. now rewrite Hn.
    + cbn. now rewrite andb_true_r.
  - rewrite !mem_cons. rewrite (IH q Hd).
    destruct (path_eqb q d) eqn:E2; [|reflexivity]. apply path_eqb_eq in E2. subst q.
    rewrite (path_eqb_sym d k), E. cbn. reflexivity.
Qed.

Lemma In_remove_first : forall k ds d, In d (remove_first k ds) -> In d ds.
Proof.
  intros k. induction ds as [|x ds IH]; intros d H; cbn [remove_first] in H; [destruct H|].
  destruct (path_eqb k x); [now right|]. destruct H as [->|H]; [now left | right; now apply IH].
Qed.

Lemma notin_remove_first : forall k ds, NoDup ds -> ~ In k (remove_first k ds).
Proof.
  intros k ds Hnd H. assert (E : mem k (remove_first k ds) = true) by (now apply mem_In).
  rewrite (mem_remove_first k ds k Hnd), path_eqb_refl, andb_false_r in E. discriminate.
Qed.

(** one group: every destination other than the source receives the source's content; the
    source disappears exactly when it is not among the destinations and has no pending overlay *)
Lemma apply_group_spec : forall over t k ds c,
  dirs_above t k -> lookup t k = Some (File c) ->
  ds <> [] -> NoDup ds -> dests_ok t k ds ->
  exists t', apply_group over t (k, ds) = Ok t' /\
    forall q, lookup t' q =
      if mem q ds && negb (path_eqb q k) then Some (File c)
      else if path_eqb q k && negb (mem k ds) && negb (mem k over) then None
      else lookup t q.
Proof.
  intros over t k ds c Dk Lk Hne Hnd Hok.
  (* the final operation on the first destination *)
  assert (Hfinal : forall t0 d, dirs_above t0 k -> lookup t0 k = Some (File c) -> d <> k ->
            dirs_above t0 d -> lookup t0 d <> Some Dir ->
            exists t', copy_or_move (mem k over) t0 k d = Ok t' /\
              forall q, lookup t' q = if path_eqb d q then Some (File c)
                                      else if path_eqb k q && negb (mem k over) then None else lookup t0 q).
  { intros t0 d Dk0 Lk0 Hdk Dd0 Ld0. unfold copy_or_move. destruct (mem k over).
    - destruct (copy_spec t0 k d c false Dk0 Lk0 Dd0 Ld0) as [t' [-> L']]. exists t'. split; [reflexivity|].
      intros q. rewrite L'. now rewrite andb_false_r.
    - destruct (move_spec t0 k d c Dk0 Lk0 Dd0 Ld0 (not_eq_sym Hdk)) as [t' [-> L']]. exists t'. split; [reflexivity|].
      intros q. rewrite L'. now rewrite andb_true_r. }
  assert (Hmulti : exists t', apply_multiple (mem k over) t k ds = Ok t' /\
    forall q, lookup t' q =
      if mem q ds && negb (path_eqb q k) then Some (File c)
      else if path_eqb q k && negb (mem k ds) && negb (mem k over) then None
      else lookup t q).
  { unfold apply_multiple. destruct (mem k ds) eqn:Ek.
    - destruct (copy_all_spec (remove_first k ds) t k c Dk Lk) as [t' [-> L']].
      + now apply notin_remove_first.
      + intros d Hin Hdk. apply Hok; [now apply (In_remove_first k) | assumption].
      + exists t'. split; [reflexivity|]. intros q. rewrite L', (mem_remove_first k ds q Hnd).
        cbn [negb]. rewrite andb_false_r. reflexivity.
    - destruct ds as [|first others]; [contradiction|].
      inversion Hnd as [|? ? Hn Hd]; subst.
      assert (Hk : ~ In k (first :: others)) by (now apply mem_false).
      destruct (copy_all_spec others t k c Dk Lk) as [t1 [-> L1]].
      + intros H. apply Hk. now right.
      + intros d Hin Hdk. apply Hok; [now right | assumption].
      + cbn [bind].
        assert (Hfk : first <> k) by (intros ->; apply Hk; now left).
        destruct (Hok first (or_introl eq_refl) Hfk) as [Df Lf].
        assert (Hmf : mem first others = false) by (now apply mem_false).
        assert (Hmk : mem k others = false) by (apply mem_false; intros H; apply Hk; now right).
        destruct (Hfinal t1 first) as [t' [-> L']]; try assumption.
        * apply (dirs_above_change t); [|assumption]. intros a A. rewrite L1.
          destruct (mem a others) eqn:Ea; [|reflexivity]. apply mem_In in Ea. exfalso.
          assert (Hak : a <> k) by (intros ->; apply Hk; now right).
          destruct (Hok a (or_intror Ea) Hak) as [_ La]. now apply (not_above_nondir t k a Dk La).
        * now rewrite L1, Hmk.
        * apply (dirs_above_change t); [|assumption]. intros a A. rewrite L1.
          destruct (mem a others) eqn:Ea; [|reflexivity]. apply mem_In in Ea. exfalso.
          assert (Hak : a <> k) by (intros ->; apply Hk; now right).
          destruct (Hok a (or_intror Ea) Hak) as [_ La]. now apply (not_above_nondir t first a Df La).
        * now rewrite L1, Hmf.
        * exists t'. split; [reflexivity|]. intros q. rewrite L', L1.
          rewrite mem_cons, (path_eqb_sym first q), (path_eqb_sym k q).
          cbn [negb]. rewrite andb_true_r.
          destruct (path_eqb q first) eqn:E1.
          { apply path_eqb_eq in E1. subst q. apply path_eqb_neq in Hfk. now rewrite Hfk. }
          cbn [orb]. destruct (path_eqb q k) eqn:E2.
          { apply path_eqb_eq in E2. subst q. rewrite Hmk. cbn. reflexivity. }
          cbn. destruct (mem q others); reflexivity. }
  unfold apply_group.
  destruct ds as [|d [|d2 ds]]; [contradiction | | exact Hmulti].
  destruct (path_eqb k d) eqn:Ekd.
  - apply path_eqb_eq in Ekd. subst d. exists t. split; [reflexivity|]. intros q.
    rewrite !mem_cons, !mem_nil, !orb_false_r.
    destruct (path_eqb q k) eqn:E; cbn; [|reflexivity]. rewrite path_eqb_refl. cbn. reflexivity.
  - apply path_eqb_neq in Ekd.
    destruct (Hok d (or_introl eq_refl) (not_eq_sym Ekd)) as [Dd Ld].
    destruct (Hfinal t d Dk Lk (not_eq_sym Ekd) Dd Ld) as [t' [-> L']]. exists t'. split; [reflexivity|].
    intros q. rewrite L'. rewrite !mem_cons, !mem_nil, !orb_false_r, (path_eqb_sym d q), (path_eqb_sym k q).
    destruct (path_eqb q d) eqn:E1.
    + apply path_eqb_eq in E1. subst q. apply not_eq_sym, path_eqb_neq in Ekd. now rewrite Ekd.
    + cbn [andb]. apply path_eqb_neq in Ekd. rewrite Ekd. cbn [negb]. rewrite andb_true_r. reflexivity.
Qed.
