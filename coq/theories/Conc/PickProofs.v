(** C15 — proofs about the choice of the bsdiff target (Conc/Pick.v). *)
From Wharf Require Import Base.Prelude Conc.Pick.
From Coq Require Import Permutation.

(** * sorting is canonical for distinct indices *)
Inductive sorted : list cand -> Prop :=
| sorted_nil : sorted []
| sorted_one c : sorted [c]
| sorted_cons c d l : N.lt (cidx c) (cidx d) -> sorted (d :: l) -> sorted (c :: d :: l).

Lemma insert_perm c l : Permutation (insert_cand c l) (c :: l).
Proof.
  induction l as [|x l IH]; [apply Permutation_refl|]. cbn [insert_cand].
  destruct (N.leb (cidx c) (cidx x)); [apply Permutation_refl|].
  eapply Permutation_trans; [apply perm_skip; exact IH|apply perm_swap].
Qed.

Lemma sort_perm l : Permutation (sort_cands l) l.
Proof.
  induction l as [|x l IH]; [apply Permutation_refl|]. cbn [sort_cands fold_right]. fold (sort_cands l).
  eapply Permutation_trans; [apply insert_perm|apply perm_skip; exact IH].
Qed.

Lemma sorted_head_lt c l : sorted (c :: l) -> forall d, In d l -> N.lt (cidx c) (cidx d).
Proof.
  revert c. induction l as [|x l IH]; intros c H d Hd; [contradiction|].
  inversion H as [| |? ? ? Hlt Hs]; subst. destruct Hd as [->|Hd]; [assumption|].
  eapply N.lt_trans; [exact Hlt|]. apply (IH x Hs d Hd).
Qed.

Lemma insert_sorted c l : sorted l -> (forall d, In d l -> cidx d <> cidx c) -> sorted (insert_cand c l).
Proof.
  induction l as [|x l IH]; intros Hs Hne; [constructor|]. cbn [insert_cand].
  destruct (N.leb (cidx c) (cidx x)) eqn:E.
  - apply N.leb_le in E. constructor; [|assumption].
    assert (cidx x <> cidx c) by (apply Hne; left; reflexivity). lia.
  - apply N.leb_gt in E. assert (Hs' : sorted l) by (inversion Hs; [constructor|assumption]).
    specialize (IH Hs' (fun d Hd => Hne d (or_intror Hd))).
    destruct l as [|y l]; cbn [insert_cand] in *.
    + constructor; [assumption|constructor].
    + destruct (N.leb (cidx c) (cidx y)) eqn:E2.
      * constructor; assumption.
      * constructor; [inversion Hs; assumption|assumption].
Qed.

Lemma sort_sorted l : NoDup (map cidx l) -> sorted (sort_cands l).
Proof.
  induction l as [|x l IH]; intro Hn; [constructor|]. cbn [sort_cands fold_right]. fold (sort_cands l).
  cbn [map] in Hn. inversion Hn as [|? ? Hnot Hn']. subst. apply insert_sorted; [apply IH; assumption|].
  intros d Hd E. apply Hnot. rewrite <- E. apply in_map.
  eapply Permutation_in; [apply sort_perm|assumption].
Qed.

Lemma sorted_perm_eq l : forall l', sorted l -> sorted l' -> Permutation l l' -> l = l'.
Proof.
  induction l as [|c l IH]; intros l' Hs Hs' Hp.
  - apply Permutation_nil in Hp. subst. reflexivity.
  - destruct l' as [|c' l']; [apply Permutation_sym, Permutation_nil in Hp; discriminate|].
    assert (Hc : c = c').
    { assert (H1 : In c (c' :: l')) by (eapply Permutation_in; [exact Hp|left; reflexivity]).
      assert (H2 : In c' (c :: l)) by (eapply Permutation_in; [apply Permutation_sym; exact Hp|left; reflexivity]).
      destruct H1 as [->|H1]; [reflexivity|]. destruct H2 as [->|H2]; [reflexivity|].
      pose proof (sorted_head_lt c' l' Hs' c H1). pose proof (sorted_head_lt c l Hs c' H2). lia. }
    subst c'. f_equal. apply IH.
    + inversion Hs; [constructor|assumption].
    + inversion Hs'; [constructor|assumption].
    + eapply Permutation_cons_inv. exact Hp.
Qed.

(** whatever order the map hands the candidates out in, the repaired loop chooses the same *)
Theorem pick_sorted_deterministic l l' :
  NoDup (map cidx l) -> Permutation l l' -> pick_sorted l = pick_sorted l'.
Proof.
  intros Hn Hp. unfold pick_sorted. f_equal. apply sorted_perm_eq.
  - apply sort_sorted. assumption.
  - apply sort_sorted. eapply Permutation_NoDup; [apply Permutation_map; exact Hp|assumption].
  - eapply Permutation_trans; [apply sort_perm|]. eapply Permutation_trans; [exact Hp|apply Permutation_sym, sort_perm].
Qed.

(** ... the unchanged loop does not: two old files with equal claims and other names *)
Theorem pick_in_order_refuted :
  exists l l', NoDup (map cidx l) /\ Permutation l l' /\ pick_in_order l <> pick_in_order l'.
Proof.
  exists [mkCand 0 5 false; mkCand 1 5 false], [mkCand 1 5 false; mkCand 0 5 false].
  split; [repeat constructor; cbn; intuition discriminate|]. split; [apply perm_swap|]. cbn. discriminate.
Qed.
