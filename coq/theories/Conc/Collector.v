(** C15 — the scan pipeline of bsdiff/diff.go (DiffContext.Do) as a transition system: a
    dispatcher hands block indices 0,1,2,... to workers round robin, but only after taking
    the worker's hand-back token from its [consumed] channel (capacity 1, initially full);
    worker k pushes the matches of its block and then an end-of-chunk marker into its own
    [matches] channel (capacity [cap], 256 in Go); the collector drains the channel of worker
    (b mod nw) for b = 0,1,2,..., forwards the matches, and on the end-of-chunk marker puts
    the token back.  Threads interleave under an explicit schedule.  [ms b] is what scanning
    block b yields (a function of the two buffers only).  Definitions only; proofs in
    Conc/CollectorProofs.v. *)
From Wharf Require Import Base.Prelude Arch.Zip.

Section Collector.
  Variable A : Type.
  Variable ms : nat -> list A.       (* matches of each block *)
  Variable nb nw cap : nat.          (* blocks, workers, capacity of a worker's matches channel *)

  Inductive item := IMatch (a : A) | IEoc.

  Record cworker := mkCW {
    cwork : option nat;              (* the [work] channel (capacity 1) *)
    cemit : list item;               (* what the worker still has to push for its current block *)
    cbusy : bool;                    (* the worker is inside analyzeBlock *)
    cchan : list item;               (* the [matches] channel, oldest first *)
    ctoken : bool;                   (* the [consumed] channel holds the token *)
    cexit : bool                     (* [work] was closed and the worker returned *)
  }.

  Record cstate := mkCS {
    cws : list cworker;
    dnext : nat;                     (* next block to dispatch *)
    dhold : bool;                    (* the dispatcher has taken the token and is about to send *)
    dclosed : bool;                  (* all [work] channels closed *)
    cblock : nat;                    (* block the collector is draining *)
    cout : list A;                   (* matches forwarded so far *)
    cclosed : bool                   (* the collector has closed the output channel *)
  }.

  Inductive cthread := CDispatch | CWorker (k : nat) | CCollect.

  Definition items_of (b : nat) : list item := map IMatch (ms b) ++ [IEoc].

  Definition init_worker : cworker := mkCW None [] false [] true false.
  Definition init_collector : cstate := mkCS (repeat init_worker nw) 0 false false 0 [] false.

  Definition set_w (s : cstate) (k : nat) (w : cworker) : cstate :=
    mkCS (set_nth (cws s) k w) (dnext s) (dhold s) (dclosed s) (cblock s) (cout s) (cclosed s).

  Definition cstep (s : cstate) (th : cthread) : cstate :=
    match th with
    | CDispatch =>
        if dclosed s then s else
        if Nat.ltb (dnext s) nb then
          let k := Nat.modulo (dnext s) nw in
          match nth_error (cws s) k with
          | None => s
          | Some w =>
              if dhold s
              then match cwork w with
                   | None => mkCS (set_nth (cws s) k (mkCW (Some (dnext s)) (cemit w) (cbusy w) (cchan w) (ctoken w) (cexit w)))
                                  (S (dnext s)) false (dclosed s) (cblock s) (cout s) (cclosed s)
                   | Some _ => s                       (* work channel full: blocked *)
                   end
              else if ctoken w
                   then mkCS (set_nth (cws s) k (mkCW (cwork w) (cemit w) (cbusy w) (cchan w) false (cexit w)))
                             (dnext s) true (dclosed s) (cblock s) (cout s) (cclosed s)
                   else s                              (* no token: blocked *)
          end
        else mkCS (cws s) (dnext s) (dhold s) true (cblock s) (cout s) (cclosed s)
    | CWorker k =>
        match nth_error (cws s) k with
        | None => s
        | Some w =>
            if cexit w then s else
            if cbusy w then
              match cemit w with
              | [] => set_w s k (mkCW (cwork w) [] false (cchan w) (ctoken w) (cexit w))   (* analyzeBlock returns *)
              | x :: r =>
                  if Nat.ltb (length (cchan w)) cap
                  then set_w s k (mkCW (cwork w) r true (cchan w ++ [x]) (ctoken w) (cexit w))
                  else s                               (* matches channel full: blocked *)
              end
            else
              match cwork w with
              | Some b => set_w s k (mkCW None (items_of b) true (cchan w) (ctoken w) (cexit w))
              | None => if dclosed s then set_w s k (mkCW None (cemit w) false (cchan w) (ctoken w) true) else s
              end
        end
    | CCollect =>
        if cclosed s then s else
        if Nat.ltb (cblock s) nb then
          let k := Nat.modulo (cblock s) nw in
          match nth_error (cws s) k with
          | None => s
          | Some w =>
              match cchan w with
              | [] => s                                (* nothing to receive: blocked *)
              | IMatch a :: r =>
                  mkCS (set_nth (cws s) k (mkCW (cwork w) (cemit w) (cbusy w) r (ctoken w) (cexit w)))
                       (dnext s) (dhold s) (dclosed s) (cblock s) (cout s ++ [a]) (cclosed s)
              | IEoc :: r =>
                  if ctoken w then s                   (* consumed channel full: blocked *)
                  else mkCS (set_nth (cws s) k (mkCW (cwork w) (cemit w) (cbusy w) r true (cexit w)))
                            (dnext s) (dhold s) (dclosed s) (S (cblock s)) (cout s) (cclosed s)
              end
          end
        else mkCS (cws s) (dnext s) (dhold s) (dclosed s) (cblock s) (cout s) true
    end.

  Definition crun (sched : list cthread) (s : cstate) : cstate := fold_left cstep sched s.

  (** what the collector must have forwarded when it closes the output *)
  Definition all_matches : list A := flat_map ms (seq 0 nb).
End Collector.
