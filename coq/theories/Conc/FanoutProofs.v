(** C15 — proofs about the fan-out of Conc/Fanout.v: under every schedule, every upstream
    chunking and every pair of consumer buffer sizes each consumer receives exactly the
    upstream bytes, the end marker comes after both consumers, and no reachable state is stuck. *)
From Wharf Require Import Base.Prelude Conc.Fanout.

Lemma concat_snoc {A} (l : list (list A)) (x : list A) : concat (l ++ [x]) = concat l ++ x.
Proof. rewrite concat_app. cbn [concat]. rewrite app_nil_r. reflexivity. Qed.

Section FanoutProofs.
  Variable data : list N.

  Definition accounting (s : fstate) : Prop :=
    match fpc s with
    | PFetch => concat (fp1 s) = fsent s /\ concat (fp2 s) = fsent s /\ fsent s ++ concat (fup s) = data
    | PWrite false rest once =>
        concat (fp1 s) ++ rest = fsent s ++ fcur s /\ concat (fp2 s) = fsent s /\ fsent s ++ fcur s ++ concat (fup s) = data
    | PWrite true rest once =>
        concat (fp1 s) = fsent s ++ fcur s /\ concat (fp2 s) ++ rest = fsent s ++ fcur s /\ fsent s ++ fcur s ++ concat (fup s) = data
    | PClosed => concat (fp1 s) = data /\ concat (fp2 s) = data
    end.

  Record FInv (s : fstate) : Prop := mkFInv {
    fi_offer : match fpc s with PWrite _ rest once => offer_valid rest once = true | _ => True end;
    fi_done1 : fdone1 s = true -> fpc s = PClosed;
    fi_done2 : fdone2 s = true -> fpc s = PClosed;
    fi_marker : fmarker s = true -> fdone1 s = true /\ fdone2 s = true /\ fpc s = PClosed;
    fi_acc : accounting s }.

  Lemma finv_init chunks eofdata : concat chunks = data -> FInv (init_fanout_eof chunks eofdata).
  Proof.
    intro H. split; cbn; try discriminate; try exact I.
    repeat split; try reflexivity. assumption.
  Qed.


  Lemma finv_step s th : FInv s -> FInv (fstep s th).
  Proof.
    intro HI. pose proof HI as [Hoff Hd1 Hd2 Hmk Hacc]. unfold accounting in Hacc.
    destruct th as [|buf|buf|]; unfold fstep.
    - (* producer *)
      destruct (fpc s) as [|second rest once|] eqn:Epc; [|exact HI|exact HI].
      destruct Hacc as [A1 [A2 A3]].
      assert (N1 : fdone1 s = false) by (destruct (fdone1 s) eqn:E; [discriminate (Hd1 eq_refl)|reflexivity]).
      assert (N2 : fdone2 s = false) by (destruct (fdone2 s) eqn:E; [discriminate (Hd2 eq_refl)|reflexivity]).
      assert (N3 : fmarker s = false) by (destruct (fmarker s) eqn:E; [destruct (Hmk eq_refl) as [_ [_ X]]; discriminate X|reflexivity]).
      destruct (fup s) as [|c r] eqn:Eup.
      + cbn [concat] in A3. rewrite app_nil_r in A3. destruct (feof s) eqn:Ee.
        * constructor; unfold accounting; cbn; rewrite ?N1, ?N2, ?N3; try exact I; try reflexivity; try discriminate.
          rewrite A1, A2. split; assumption.
        * constructor; unfold accounting; cbn; rewrite ?N1, ?N2, ?N3; try exact I; try reflexivity; try discriminate.
          rewrite !app_nil_r. repeat split; assumption.
      + constructor; unfold accounting; cbn; rewrite ?N1, ?N2, ?N3; try exact I; try reflexivity; try discriminate.
        * cbn [concat] in A3. rewrite A1. repeat split; try reflexivity; assumption.
    - (* consumer 1 *)
      destruct (fdone1 s) eqn:E1; [exact HI|].
      destruct (fpc s) as [|second rest once|] eqn:Epc; [exact HI| |].
      + destruct second; [exact HI|].
        rewrite Hoff. destruct Hacc as [A1 [A2 A3]].
        assert (N2 : fdone2 s = false) by (destruct (fdone2 s) eqn:E; [discriminate (Hd2 eq_refl)|reflexivity]).
        assert (N3 : fmarker s = false) by (destruct (fmarker s) eqn:E; [destruct (Hmk eq_refl) as [_ [_ X]]; discriminate X|reflexivity]).
        pose proof (firstn_skipn (Nat.max buf 1) rest) as Hfs.
        destruct (skipn (Nat.max buf 1) rest) as [|x rest'] eqn:Esk.
        * rewrite app_nil_r in Hfs.
          constructor; unfold accounting; cbn; rewrite ?N2, ?N3; try exact I; try reflexivity; try discriminate; try assumption.
          rewrite concat_snoc, Hfs, A2. repeat split; [assumption|assumption].
        * constructor; unfold accounting; cbn; rewrite ?N2, ?N3; try exact I; try reflexivity; try discriminate; try assumption.
          rewrite concat_snoc, <- app_assoc, Hfs. repeat split; assumption.
      + assert (N3 : fmarker s = false) by (destruct (fmarker s) eqn:E; [destruct (Hmk eq_refl) as [X _]; discriminate X|reflexivity]).
        constructor; unfold accounting; cbn; rewrite ?N3; try exact I; try reflexivity; try discriminate; try assumption.
    - (* consumer 2 *)
      destruct (fdone2 s) eqn:E2; [exact HI|].
      destruct (fpc s) as [|second rest once|] eqn:Epc; [exact HI| |].
      + destruct second; [|exact HI].
        rewrite Hoff. destruct Hacc as [A1 [A2 A3]].
        assert (N1 : fdone1 s = false) by (destruct (fdone1 s) eqn:E; [discriminate (Hd1 eq_refl)|reflexivity]).
        assert (N3 : fmarker s = false) by (destruct (fmarker s) eqn:E; [destruct (Hmk eq_refl) as [_ [_ X]]; discriminate X|reflexivity]).
        pose proof (firstn_skipn (Nat.max buf 1) rest) as Hfs.
        destruct (skipn (Nat.max buf 1) rest) as [|x rest'] eqn:Esk.
        * rewrite app_nil_r in Hfs.
          constructor; unfold accounting; cbn; rewrite ?N1, ?N3; try exact I; try reflexivity; try discriminate; try assumption.
          rewrite concat_snoc, Hfs. repeat split; try assumption. rewrite <- app_assoc. assumption.
        * constructor; unfold accounting; cbn; rewrite ?N1, ?N3; try exact I; try reflexivity; try discriminate; try assumption.
          rewrite concat_snoc, <- app_assoc, Hfs. repeat split; assumption.
      + assert (N3 : fmarker s = false) by (destruct (fmarker s) eqn:E; [destruct (Hmk eq_refl) as [_ [X _]]; discriminate X|reflexivity]).
        constructor; unfold accounting; cbn; rewrite ?N3; try exact I; try reflexivity; try discriminate; try assumption.
    - (* the task group *)
      destruct (fpc s) as [|second rest once|] eqn:Epc; [exact HI|exact HI|].
      destruct (fdone1 s && fdone2 s) eqn:Ed; [|exact HI].
      apply andb_true_iff in Ed. destruct Ed as [D1 D2].
      constructor; unfold accounting; cbn; try exact I; try reflexivity; try assumption.
      intros _. repeat split; assumption.
  Qed.

  Lemma finv_run sched : forall s, FInv s -> FInv (frun sched s).
  Proof. induction sched as [|th sched IH]; intros s H; [assumption|]. cbn [frun fold_left]. apply IH. apply finv_step. assumption. Qed.

  Lemma finv_results s :
    FInv s ->
    (fdone1 s = true -> concat (fp1 s) = data) /\
    (fdone2 s = true -> concat (fp2 s) = data) /\
    (fmarker s = true -> fdone1 s = true /\ fdone2 s = true).
  Proof.
    intros [Hoff Hd1 Hd2 Hmk Hacc]. unfold accounting in Hacc. repeat split.
    - intro H. apply Hd1 in H. rewrite H in Hacc. apply Hacc.
    - intro H. apply Hd2 in H. rewrite H in Hacc. apply Hacc.
    - apply Hmk. assumption.
    - apply Hmk. assumption.
  Qed.

  (** some thread can always move, and every move of an enabled thread lowers the measure *)
  Lemma fanout_progress s :
    FInv s -> fmarker s = false -> exists th, fmeasure (fstep s th) < fmeasure s.
  Proof.
    intros [Hoff Hd1 Hd2 Hmk Hacc] Hm. destruct (fpc s) as [|second rest once|] eqn:Epc.
    - exists TProducer. unfold fstep, fmeasure. rewrite Epc.
      destruct (fup s) as [|c r] eqn:Eup.
      + destruct (feof s) eqn:Ee; cbn; rewrite ?Hm; cbn; lia.
      + destruct (feof s) eqn:Ee; cbn; unfold chunk_cost; lia.
    - destruct second.
      + assert (E2 : fdone2 s = false) by (destruct (fdone2 s) eqn:E; [discriminate (Hd2 eq_refl)|reflexivity]).
        exists (TCons2 1). unfold fstep, fmeasure. rewrite E2, Epc, Hoff.
        pose proof (firstn_skipn (Nat.max 1 1) rest) as Hfs.
        destruct (skipn (Nat.max 1 1) rest) as [|x rest'] eqn:Esk; cbn [fpc fmarker fdone1 fdone2 fup feof fcur].
        * unfold offer_valid in Hoff. destruct once; cbn [b2n]; [lia|]. destruct rest; [discriminate Hoff|cbn [length]; lia].
        * assert (length rest = length (firstn (Nat.max 1 1) rest) + length (x :: rest')) by (rewrite <- Hfs at 1; apply app_length).
          destruct rest as [|y rest]; [discriminate Esk|]. cbn [Nat.max firstn length] in *. destruct once; cbn [b2n]; lia.
      + assert (E1 : fdone1 s = false) by (destruct (fdone1 s) eqn:E; [discriminate (Hd1 eq_refl)|reflexivity]).
        exists (TCons1 1). unfold fstep, fmeasure. rewrite E1, Epc, Hoff.
        pose proof (firstn_skipn (Nat.max 1 1) rest) as Hfs.
        destruct (skipn (Nat.max 1 1) rest) as [|x rest'] eqn:Esk; cbn [fpc fmarker fdone1 fdone2 fup feof fcur].
        * unfold offer_valid in Hoff. destruct once; cbn [b2n]; [lia|]. destruct rest; [discriminate Hoff|cbn [length]; lia].
        * assert (length rest = length (firstn (Nat.max 1 1) rest) + length (x :: rest')) by (rewrite <- Hfs at 1; apply app_length).
          destruct rest as [|y rest]; [discriminate Esk|]. cbn [Nat.max firstn length] in *. destruct once; cbn [b2n]; lia.
    - destruct (fdone1 s) eqn:E1.
      + destruct (fdone2 s) eqn:E2.
        * exists TGroup. unfold fstep, fmeasure. rewrite Epc, E1, E2, Hm. cbn. lia.
        * exists (TCons2 1). unfold fstep, fmeasure. rewrite Epc, E2, Hm, E1. cbn. lia.
      + exists (TCons1 1). unfold fstep, fmeasure. rewrite Epc, E1, Hm. cbn. destruct (fdone2 s); cbn; lia.
  Qed.

  Lemma fanout_terminates_from : forall n s, fmeasure s <= n -> FInv s -> exists sched, fmarker (frun sched s) = true.
  Proof.
    induction n as [|n IH]; intros s Hn HI.
    - destruct (fmarker s) eqn:Hm; [exists []; assumption|].
      destruct (fanout_progress s HI Hm) as [th Hlt]. lia.
    - destruct (fmarker s) eqn:Hm; [exists []; assumption|].
      destruct (fanout_progress s HI Hm) as [th Hlt].
      destruct (IH (fstep s th)) as [sched Hs]; [lia|apply finv_step; assumption|].
      exists (th :: sched). assumption.
  Qed.
End FanoutProofs.

(** * The statements of Properties/C15.v *)
Theorem fanout_pieces_lemma :
  forall (chunks : list (list N)) (eofdata : bool) (sched : list fthread),
    let s := frun sched (init_fanout_eof chunks eofdata) in
    (fdone1 s = true -> concat (fp1 s) = concat chunks) /\
    (fdone2 s = true -> concat (fp2 s) = concat chunks) /\
    (fmarker s = true -> fdone1 s = true /\ fdone2 s = true) /\
    (exists more, fmarker (frun more s) = true).
Proof.
  intros chunks eofdata sched s.
  assert (HI : FInv (concat chunks) s) by (apply finv_run; apply finv_init; reflexivity).
  destruct (finv_results (concat chunks) s HI) as [H1 [H2 H3]].
  repeat split; try assumption; try (apply H3; assumption).
  apply (fanout_terminates_from (concat chunks) (fmeasure s)); [lia|assumption].
Qed.

(** consumers that are chunking-independent functions of what they receive *)
Theorem fanout_deterministic_lemma :
  forall (O1 O2 : Type) (out1 : list (list N) -> O1) (spec1 : list N -> O1)
         (out2 : list (list N) -> O2) (spec2 : list N -> O2),
    (forall pieces, out1 pieces = spec1 (concat pieces)) ->
    (forall pieces, out2 pieces = spec2 (concat pieces)) ->
    forall (chunks : list (list N)) (eofdata : bool) (sched : list fthread),
      let s := frun sched (init_fanout_eof chunks eofdata) in
      (fmarker s = true -> out1 (fp1 s) = spec1 (concat chunks) /\ out2 (fp2 s) = spec2 (concat chunks)) /\
      (exists more, fmarker (frun more s) = true).
Proof.
  intros O1 O2 out1 spec1 out2 spec2 Hc1 Hc2 chunks eofdata sched s.
  destruct (fanout_pieces_lemma chunks eofdata sched) as [H1 [H2 [H3 H4]]]. fold s in H1, H2, H3, H4.
  split; [|assumption]. intro Hm. destruct (H3 Hm) as [D1 D2].
  rewrite Hc1, Hc2, (H1 D1), (H2 D2). split; reflexivity.
Qed.

(** upstream chunking does not matter either: two chunkings of the same bytes *)
Theorem fanout_chunking_lemma :
  forall (O1 O2 : Type) (out1 : list (list N) -> O1) (spec1 : list N -> O1)
         (out2 : list (list N) -> O2) (spec2 : list N -> O2),
    (forall pieces, out1 pieces = spec1 (concat pieces)) ->
    (forall pieces, out2 pieces = spec2 (concat pieces)) ->
    forall (chunksA chunksB : list (list N)) (eofA eofB : bool) (schedA schedB : list fthread),
      concat chunksA = concat chunksB ->
      let sA := frun schedA (init_fanout_eof chunksA eofA) in
      let sB := frun schedB (init_fanout_eof chunksB eofB) in
      fmarker sA = true -> fmarker sB = true ->
      out1 (fp1 sA) = out1 (fp1 sB) /\ out2 (fp2 sA) = out2 (fp2 sB).
Proof.
  intros O1 O2 out1 spec1 out2 spec2 Hc1 Hc2 chunksA chunksB eofA eofB schedA schedB E sA sB HA HB.
  destruct (fanout_deterministic_lemma O1 O2 out1 spec1 out2 spec2 Hc1 Hc2 chunksA eofA schedA) as [XA _].
  destruct (fanout_deterministic_lemma O1 O2 out1 spec1 out2 spec2 Hc1 Hc2 chunksB eofB schedB) as [XB _].
  destruct (XA HA) as [A1 A2]. destruct (XB HB) as [B1 B2]. fold sA in A1, A2. fold sB in B1, B2.
  rewrite A1, A2, B1, B2, E. split; reflexivity.
Qed.

Example fanout_example :
  let s := frun [TProducer; TCons1 2; TCons1 2; TCons2 5; TProducer; TCons1 1; TCons2 1; TProducer; TCons1 4; TCons2 4; TProducer; TCons2 1; TCons1 1; TGroup]
                (init_fanout [[1;2;3]; []]%N) in
  fmarker s = true /\ fp1 s = [[1;2]; [3]; []; []]%N /\ fp2 s = [[1;2;3]; []; []]%N.
Proof. vm_compute. repeat split; reflexivity. Qed.

(** the same bytes from a source that hands out its last chunk together with io.EOF: no
    zero-length Write at the end, one piece less for each consumer *)
Example fanout_example_eofdata :
  let s := frun [TProducer; TCons1 2; TCons1 2; TCons2 5; TProducer; TCons1 1; TCons2 1; TGroup]
                (init_fanout_eof [[1;2;3]]%N true) in
  fmarker s = true /\ fp1 s = [[1;2]; [3]]%N /\ fp2 s = [[1;2;3]]%N.
Proof. vm_compute. repeat split; reflexivity. Qed.
