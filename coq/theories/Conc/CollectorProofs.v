(** C15 — proofs about the bsdiff scan pipeline of Conc/Collector.v: under every schedule
    the collector forwards the matches of block 0, then those of block 1, ... (each in the
    order its worker produced them), nothing lost, nothing twice. *)
From Wharf Require Import Base.Prelude Arch.Zip Arch.ZipProofs Conc.Fanout Conc.Collector.

Lemma mod_range_unique n a b b' :
  0 < n -> a <= b < a + n -> a <= b' < a + n -> b mod n = b' mod n -> b = b'.
Proof.
  intros Hn Hb Hb' E.
  pose proof (Nat.div_mod_eq b n) as D. pose proof (Nat.div_mod_eq b' n) as D'.
  rewrite E in D. set (r := b' mod n) in *. set (q := b / n) in *. set (q' := b' / n) in *. clearbody r q q'.
  destruct (Nat.lt_trichotomy q q') as [H|[H|H]]; [exfalso; nia|subst; lia|exfalso; nia].
Qed.

Section CollectorProofs.
  Variable A : Type.
  Variable ms : nat -> list A.
  Variable nb nw cap : nat.
  Hypothesis Hnw : 0 < nw.

  Local Notation cstate := (cstate A).
  Local Notation cworker := (cworker A).
  Local Notation cstep := (cstep A ms nb nw cap).
  Local Notation items_of := (items_of A ms).
  Local Notation IMatch := (IMatch A).
  Local Notation IEoc := (IEoc A).

  Definition done_upto (b : nat) : list A := flat_map ms (seq 0 b).

  Lemma done_S b : done_upto (S b) = done_upto b ++ ms b.
  Proof. unfold done_upto. rewrite seq_S, flat_map_app. cbn [flat_map]. rewrite app_nil_r. reflexivity. Qed.

  Lemma items_split pre rest l : map IMatch pre ++ IEoc :: rest = map IMatch l ++ [IEoc] -> pre = l /\ rest = [].
  Proof.
    revert l. induction pre as [|a pre IH]; intros [|b l] H; cbn [map app] in H.
    - injection H as H. split; [reflexivity|assumption].
    - discriminate H.
    - injection H as _ H. destruct pre; discriminate H.
    - injection H as -> H. destruct (IH l H) as [-> ->]. split; reflexivity.
  Qed.

  Definition free_range (s : cstate) (k : nat) : Prop := forall b, cblock _ s <= b < dnext _ s -> b mod nw <> k.

  (** worker k: nothing in flight / block b handed over but not yet taken / block b taken *)
  Definition wstatus (s : cstate) (k : nat) (w : cworker) : Prop :=
    (free_range s k /\ cwork _ w = None /\ cemit _ w = [] /\ cchan _ w = [] /\
     ctoken _ w = negb (dhold _ s && Nat.eqb (dnext _ s mod nw) k))
    \/ exists b, cblock _ s <= b < dnext _ s /\ b mod nw = k /\ ctoken _ w = false /\
         ((cwork _ w = Some b /\ cemit _ w = [] /\ cchan _ w = [] /\ (b = cblock _ s -> cout _ s = done_upto b))
          \/ (cwork _ w = None /\ exists pre, (b = cblock _ s -> cout _ s = done_upto b ++ pre) /\ (b <> cblock _ s -> pre = []) /\
                map IMatch pre ++ cchan _ w ++ cemit _ w = items_of b)).

  Record KInv (s : cstate) : Prop := mkKInv {
    ki_len : length (cws _ s) = nw;
    ki_le1 : cblock _ s <= dnext _ s;
    ki_le2 : dnext _ s <= nb;
    ki_le3 : dnext _ s <= cblock _ s + nw;
    ki_hold : dhold _ s = true -> dnext _ s < nb /\ free_range s (dnext _ s mod nw);
    ki_cclosed : cclosed _ s = true -> cblock _ s = nb;
    ki_idle : cblock _ s = dnext _ s -> cout _ s = done_upto (cblock _ s);
    ki_w : forall k w, nth_error (cws _ s) k = Some w -> wstatus s k w }.

  Lemma kinv_init : KInv (init_collector A nw).
  Proof.
    unfold init_collector. split; cbn.
    - apply repeat_length.
    - lia.
    - lia.
    - lia.
    - discriminate.
    - discriminate.
    - reflexivity.
    - intros k w H. apply nth_error_In in H. apply repeat_spec in H. subst w. left. split; [intros b Hb; cbn in Hb; lia|]. cbn. repeat split.
  Qed.

  (** the worker responsible for the block being drained holds exactly that block *)
  Lemma current_worker s w :
    KInv s -> cblock _ s < dnext _ s -> nth_error (cws _ s) (cblock _ s mod nw) = Some w ->
    exists b, b = cblock _ s /\ ctoken _ w = false /\
      ((cwork _ w = Some b /\ cemit _ w = [] /\ cchan _ w = [] /\ cout _ s = done_upto b)
       \/ (cwork _ w = None /\ exists pre, cout _ s = done_upto b ++ pre /\ map IMatch pre ++ cchan _ w ++ cemit _ w = items_of b)).
  Proof.
    intros HK Hlt Hn. destruct (ki_w s HK _ w Hn) as [[Hfree _]|[b [Hb [Hm [Ht Hrest]]]]].
    - exfalso. apply (Hfree (cblock _ s)); [lia|reflexivity].
    - assert (b = cblock _ s).
      { pose proof (ki_le3 s HK). apply (mod_range_unique nw (cblock _ s)); try assumption; lia. }
      subst b. exists (cblock _ s). split; [reflexivity|]. split; [assumption|].
      destruct Hrest as [[H1 [H2 [H3 H4]]]|[H1 [pre [H2 [H3 H4]]]]].
      + left. repeat split; try assumption. apply H4. reflexivity.
      + right. split; [assumption|]. exists pre. split; [apply H2; reflexivity|assumption].
  Qed.

  Lemma kinv_step s th : KInv s -> KInv (cstep s th).
  Proof.
    intro HK. pose proof HK as [Hlen H1 H2 H3 Hhold Hcc Hidle Hw].
    destruct th as [|k|]; unfold Collector.cstep.
    - (* dispatcher *)
      destruct (dclosed _ s); [exact HK|].
      destruct (Nat.ltb (dnext _ s) nb) eqn:Elt.
      + apply Nat.ltb_lt in Elt. set (k := dnext _ s mod nw).
        destruct (nth_error (cws _ s) k) as [w|] eqn:Hn; [|exact HK].
        destruct (dhold _ s) eqn:Eh.
        * (* send the block *)
          destruct (cwork _ w) as [x|] eqn:Ew; [exact HK|].
          destruct (Hhold eq_refl) as [_ Hfree].
          assert (Hstat : cemit _ w = [] /\ cchan _ w = [] /\ ctoken _ w = false).
          { destruct (Hw k w Hn) as [[_ [_ [E1 [E2 E3]]]]|[b [Hb [Hm _]]]].
            - rewrite Eh in E3. unfold k in E3. rewrite Nat.eqb_refl in E3. repeat split; assumption.
            - exfalso. apply (Hfree b Hb). assumption. }
          destruct Hstat as [E1 [E2 E3]].
          assert (Hlt3 : dnext _ s < cblock _ s + nw).
          { destruct (Nat.eq_dec (dnext _ s) (cblock _ s + nw)) as [E|E]; [|lia].
            exfalso. apply (Hfree (cblock _ s)); [lia|]. rewrite E.
            rewrite <- (Nat.mul_1_l nw) at 2. rewrite Nat.mod_add by lia. reflexivity. }
          split; cbn [cws dnext dhold dclosed cblock cout cclosed].
          -- rewrite length_set_nth. assumption.
          -- lia.
          -- lia.
          -- lia.
          -- discriminate.
          -- assumption.
          -- intro E. lia.
          -- intros k' w' Hn'. apply nth_error_set_nth in Hn'. destruct Hn' as [[<- ->]|[Hne Hn']].
             ++ right. exists (dnext _ s). cbn. split; [lia|]. split; [reflexivity|]. split; [assumption|]. left.
                repeat split; try assumption. intro E. rewrite E. apply Hidle. symmetry. assumption.
             ++ destruct (Hw k' w' Hn') as [[F1 [F2 [F3 [F4 F5]]]]|[b [Hb [Hm [Ht Hrest]]]]].
                ** left. unfold free_range. cbn. repeat split; try assumption.
                   --- intros b Hb. destruct (Nat.eq_dec b (dnext _ s)) as [->|Hnb]; [fold k; congruence|]. apply F1. lia.
                   --- rewrite F5, Eh. fold k. replace (Nat.eqb k k') with false by (symmetry; apply Nat.eqb_neq; assumption). reflexivity.
                ** right. exists b. cbn. split; [lia|]. split; [assumption|]. split; [assumption|]. assumption.
        * (* take the token *)
          destruct (ctoken _ w) eqn:Et; [|exact HK].
          assert (Hstat : free_range s k /\ cwork _ w = None /\ cemit _ w = [] /\ cchan _ w = []).
          { destruct (Hw k w Hn) as [[F1 [F2 [F3 [F4 _]]]]|[b [_ [_ [Ht _]]]]]; [repeat split; assumption|congruence]. }
          destruct Hstat as [F1 [F2 [F3 F4]]].
          split; cbn [cws dnext dhold dclosed cblock cout cclosed].
          -- rewrite length_set_nth. assumption.
          -- assumption.
          -- assumption.
          -- assumption.
          -- intros _. split; assumption.
          -- assumption.
          -- assumption.
          -- intros k' w' Hn'. apply nth_error_set_nth in Hn'. destruct Hn' as [[<- ->]|[Hne Hn']].
             ++ left. unfold free_range. cbn. repeat split; try assumption. fold k. rewrite Nat.eqb_refl. reflexivity.
             ++ destruct (Hw k' w' Hn') as [[G1 [G2 [G3 [G4 G5]]]]|[b [Hb [Hm [Ht Hrest]]]]].
                ** left. unfold free_range. cbn. repeat split; try assumption.
                   rewrite G5, Eh. fold k. replace (Nat.eqb k k') with false by (symmetry; apply Nat.eqb_neq; assumption). reflexivity.
                ** right. exists b. cbn. split; [assumption|]. split; [assumption|]. split; [assumption|]. assumption.
      + (* close the work channels *)
        split; cbn [cws dnext dhold dclosed cblock cout cclosed]; assumption.
    - (* worker k *)
      destruct (nth_error (cws _ s) k) as [w|] eqn:Hn; [|exact HK].
      destruct (cexit _ w); [exact HK|].
      assert (Hgen : forall w', (wstatus s k w -> wstatus (set_w A s k w') k w') -> KInv (set_w A s k w')).
      { intros w' Hw'. unfold set_w. split; cbn [cws dnext dhold dclosed cblock cout cclosed]; try assumption.
        - rewrite length_set_nth. assumption.
        - intros k' w2 Hn2. apply nth_error_set_nth in Hn2. destruct Hn2 as [[<- ->]|[Hne Hn2]].
          + apply Hw'. apply (Hw k w Hn).
          + destruct (Hw k' w2 Hn2) as [X|X]; [left|right]; exact X. }
      destruct (cbusy _ w).
      + destruct (cemit _ w) as [|x r] eqn:Ee.
        * apply Hgen. intros [[F1 [F2 [F3 [F4 F5]]]]|[b [Hb [Hm [Ht Hrest]]]]].
          -- left. unfold free_range, set_w. cbn. repeat split; assumption.
          -- right. exists b. unfold set_w. cbn. split; [assumption|]. split; [assumption|]. split; [assumption|].
             destruct Hrest as [[R1 [R2 [R3 R4]]]|[R1 [pre [R2 [R3 R4]]]]].
             ++ left. repeat split; assumption.
             ++ right. split; [assumption|]. exists pre. rewrite Ee in R4. repeat split; assumption.
        * destruct (Nat.ltb (length (cchan _ w)) cap); [|exact HK].
          apply Hgen. intros [[F1 [F2 [F3 [F4 F5]]]]|[b [Hb [Hm [Ht Hrest]]]]]; [congruence|].
          right. exists b. unfold set_w. cbn. split; [assumption|]. split; [assumption|]. split; [assumption|].
          destruct Hrest as [[R1 [R2 [R3 R4]]]|[R1 [pre [R2 [R3 R4]]]]]; [congruence|].
          right. split; [assumption|]. exists pre. repeat split; try assumption.
          rewrite Ee in R4. rewrite <- R4, <- !app_assoc. reflexivity.
      + destruct (cwork _ w) as [b0|] eqn:Ew.
        * apply Hgen. intros [[F1 [F2 _]]|[b [Hb [Hm [Ht Hrest]]]]]; [congruence|].
          right. exists b. unfold set_w. cbn. split; [assumption|]. split; [assumption|]. split; [assumption|].
          destruct Hrest as [[R1 [R2 [R3 R4]]]|[R1 _]]; [|congruence].
          assert (b0 = b) by congruence. subst b0.
          right. split; [reflexivity|]. exists []. rewrite R3. cbn [map app]. repeat split.
          -- intro E. rewrite app_nil_r. apply R4. assumption.
        * destruct (dclosed _ s); [|exact HK].
          apply Hgen. intros [[F1 [F2 [F3 [F4 F5]]]]|[b [Hb [Hm [Ht Hrest]]]]].
          -- left. unfold free_range, set_w. cbn. repeat split; assumption.
          -- right. exists b. unfold set_w. cbn. split; [assumption|]. split; [assumption|]. split; [assumption|].
             destruct Hrest as [[R1 _]|[R1 [pre [R2 [R3 R4]]]]]; [congruence|].
             right. split; [reflexivity|]. exists pre. repeat split; assumption.
    - (* collector *)
      destruct (cclosed _ s) eqn:Ecc; [exact HK|].
      destruct (Nat.ltb (cblock _ s) nb) eqn:Elt.
      + apply Nat.ltb_lt in Elt. set (k := cblock _ s mod nw).
        destruct (nth_error (cws _ s) k) as [w|] eqn:Hn; [|exact HK].
        destruct (cchan _ w) as [|it r] eqn:Ech; [exact HK|].
        (* the channel is not empty: its worker holds the current block and has taken it *)
        assert (Hcur : cblock _ s < dnext _ s).
        { destruct (Nat.eq_dec (cblock _ s) (dnext _ s)) as [E|E]; [|lia]. exfalso.
          destruct (Hw k w Hn) as [[_ [_ [_ [F4 _]]]]|[b [Hb _]]]; [congruence|lia]. }
        destruct (current_worker s w HK Hcur Hn) as [b [-> [Ht [[_ [_ [R3 _]]]|[R1 [pre [R2 R4]]]]]]]; [congruence|].
        rewrite Ech in R4.
        assert (Hothers : forall k' b', k' <> k -> b' mod nw = k' -> b' <> cblock _ s).
        { intros k' b' Hne Hm E. subst b'. apply Hne. symmetry. exact Hm. }
        destruct it as [a|].
        * (* a match is forwarded *)
          split; cbn [cws dnext dhold dclosed cblock cout cclosed]; try assumption.
          -- rewrite length_set_nth. assumption.
          -- intro E. lia.
          -- intros k' w' Hn'. apply nth_error_set_nth in Hn'. destruct Hn' as [[<- ->]|[Hne Hn']].
             ++ right. exists (cblock _ s). cbn. split; [lia|]. split; [reflexivity|]. split; [assumption|]. right.
                split; [assumption|]. exists (pre ++ [a]). repeat split.
                ** intros _. rewrite R2, app_assoc. reflexivity.
                ** intro E. exfalso. apply E. reflexivity.
                ** rewrite map_app. cbn [map]. rewrite <- R4, <- !app_assoc. reflexivity.
             ++ destruct (Hw k' w' Hn') as [[G1 [G2 [G3 [G4 G5]]]]|[b' [Hb [Hm [Ht' Hrest]]]]].
                ** left. unfold free_range. cbn. repeat split; assumption.
                ** right. exists b'. cbn. split; [assumption|]. split; [assumption|]. split; [assumption|].
                   assert (Hnb : b' <> cblock _ s) by (apply (Hothers k' b'); [congruence|assumption]).
                   destruct Hrest as [[Q1 [Q2 [Q3 Q4]]]|[Q1 [pre' [Q2 [Q3 Q4]]]]].
                   --- left. repeat split; try assumption. intro E. contradiction.
                   --- right. split; [assumption|]. exists pre'. repeat split; try assumption. intro E. contradiction.
        * (* end of chunk: the token goes back *)
          destruct (items_split pre (r ++ cemit _ w) (ms (cblock _ s)) R4) as [-> Hnil].
          apply app_eq_nil in Hnil. destruct Hnil as [-> Ee].
          rewrite Ht.
          assert (Hout : cout _ s = done_upto (S (cblock _ s))) by (rewrite done_S; exact R2).
          split; cbn [cws dnext dhold dclosed cblock cout cclosed]; try assumption.
          -- rewrite length_set_nth. assumption.
          -- lia.
          -- intro Hh. destruct (Hhold Hh) as [X1 X2]. split; [assumption|]. intros b Hb. cbn in Hb. apply X2. lia.
          -- intro H. discriminate H.
          -- intros _. exact Hout.
          -- intros k' w' Hn'. apply nth_error_set_nth in Hn'. destruct Hn' as [[<- ->]|[Hne Hn']].
             ++ left. split; [|cbn; repeat split; try assumption].
                ** intros b Hb Hm. cbn in Hb.
                   assert (b = cblock _ s) by (apply (mod_range_unique nw (cblock _ s)); [assumption|lia|lia|exact Hm]). lia.
                ** destruct (dhold _ s) eqn:Eh; [|reflexivity]. destruct (Hhold eq_refl) as [_ X2].
                   destruct (Nat.eqb (dnext _ s mod nw) k) eqn:Eq; [|reflexivity].
                   apply Nat.eqb_eq in Eq. exfalso. apply (X2 (cblock _ s)); [lia|]. symmetry. exact Eq.
             ++ destruct (Hw k' w' Hn') as [[G1 [G2 [G3 [G4 G5]]]]|[b' [Hb [Hm [Ht' Hrest]]]]].
                ** left. split; [|cbn; repeat split; assumption]. intros b Hb. cbn in Hb. apply G1. lia.
                ** assert (Hnb : b' <> cblock _ s) by (apply (Hothers k' b'); [congruence|assumption]).
                   right. exists b'. cbn. split; [lia|]. split; [assumption|]. split; [assumption|].
                   destruct Hrest as [[Q1 [Q2 [Q3 Q4]]]|[Q1 [pre' [Q2 [Q3 Q4]]]]].
                   --- left. repeat split; try assumption. intro E. subst b'. exact Hout.
                   --- right. split; [assumption|]. exists []. rewrite (Q3 Hnb) in Q4. repeat split; try assumption.
                       intro E. subst b'. rewrite app_nil_r. exact Hout.
      + split; cbn [cws dnext dhold dclosed cblock cout cclosed]; try assumption.
        intros _. apply Nat.ltb_ge in Elt. lia.
  Qed.

  Lemma kinv_run sched : forall s, KInv s -> KInv (crun A ms nb nw cap sched s).
  Proof. induction sched as [|th sched IH]; intros s H; [assumption|]. cbn [crun fold_left]. apply IH. apply kinv_step. assumption. Qed.

  Lemma kinv_result s : KInv s -> cclosed _ s = true -> cout _ s = all_matches A ms nb.
  Proof.
    intros HK Hc. pose proof (ki_cclosed s HK Hc) as E. pose proof (ki_le1 s HK). pose proof (ki_le2 s HK).
    unfold all_matches. rewrite <- E. apply (ki_idle s HK). lia.
  Qed.

  (** * No deadlock *)
  Hypothesis Hcap : 0 < cap.

  Record LInv (s : cstate) : Prop := mkLInv {
    li_dclosed : dclosed _ s = true -> dnext _ s = nb;
    li_w : forall k w, nth_error (cws _ s) k = Some w ->
             (cexit _ w = true -> dclosed _ s = true /\ cwork _ w = None /\ cbusy _ w = false) /\
             (cbusy _ w = false -> cemit _ w = []) }.

  Lemma linv_init : LInv (init_collector A nw).
  Proof.
    split; cbn; [discriminate|]. intros k w H. apply nth_error_In in H. apply repeat_spec in H. subst w. cbn. split; [discriminate|reflexivity].
  Qed.

  Lemma linv_step s th : KInv s -> LInv s -> LInv (cstep s th).
  Proof.
    intros HK HL. pose proof HL as [Ld Lw]. destruct th as [|k|]; unfold Collector.cstep.
    - destruct (dclosed _ s) eqn:Ed; [exact HL|].
      destruct (Nat.ltb (dnext _ s) nb) eqn:Elt.
      + destruct (nth_error (cws _ s) (dnext _ s mod nw)) as [w|] eqn:Hn; [|exact HL].
        destruct (Lw _ w Hn) as [X1 X2].
        destruct (dhold _ s).
        * destruct (cwork _ w) eqn:Ew; [exact HL|]. split; cbn [cws dnext dhold dclosed cblock cout cclosed]; [intro H; congruence|].
          intros k' w' Hn'. apply nth_error_set_nth in Hn'. destruct Hn' as [[<- ->]|[Hne Hn']]; [|apply (Lw k' w' Hn')].
          cbn. split; [|assumption]. intro H. destruct (X1 H) as [Y _]. congruence.
        * destruct (ctoken _ w); [|exact HL]. split; cbn [cws dnext dhold dclosed cblock cout cclosed]; [intro H; congruence|].
          intros k' w' Hn'. apply nth_error_set_nth in Hn'. destruct Hn' as [[<- ->]|[Hne Hn']]; [|apply (Lw k' w' Hn')].
          cbn. split; assumption.
      + split; cbn [cws dnext dhold dclosed cblock cout cclosed].
        * intros _. apply Nat.ltb_ge in Elt. pose proof (ki_le2 s HK). lia.
        * intros k w Hn. destruct (Lw k w Hn) as [X1 X2]. split; [|assumption]. intro H. destruct (X1 H) as [Y _]. congruence.
    - destruct (nth_error (cws _ s) k) as [w|] eqn:Hn; [|exact HL].
      destruct (Lw k w Hn) as [X1 X2].
      destruct (cexit _ w) eqn:Ee; [exact HL|].
      assert (Hgen : forall w', ((cexit _ w' = true -> dclosed _ s = true /\ cwork _ w' = None /\ cbusy _ w' = false) /\ (cbusy _ w' = false -> cemit _ w' = [])) ->
                                LInv (set_w A s k w')).
      { intros w' Hw'. unfold set_w. split; cbn [cws dnext dhold dclosed cblock cout cclosed]; [assumption|].
        intros k' w2 Hn2. apply nth_error_set_nth in Hn2. destruct Hn2 as [[<- ->]|[Hne Hn2]]; [assumption|apply (Lw k' w2 Hn2)]. }
      destruct (cbusy _ w) eqn:Eb.
      + destruct (cemit _ w) as [|x r] eqn:Eem.
        * apply Hgen. cbn. split; [discriminate|reflexivity].
        * destruct (Nat.ltb (length (cchan _ w)) cap); [|exact HL].
          apply Hgen. cbn. split; discriminate.
      + destruct (cwork _ w) as [b|] eqn:Ew.
        * apply Hgen. cbn. split; discriminate.
        * destruct (dclosed _ s) eqn:Ed; [|exact HL].
          apply Hgen. cbn. split; [intros _; repeat split; reflexivity|]. intros _. apply X2. reflexivity.
    - destruct (cclosed _ s); [exact HL|].
      destruct (Nat.ltb (cblock _ s) nb).
      + destruct (nth_error (cws _ s) (cblock _ s mod nw)) as [w|] eqn:Hn; [|exact HL].
        destruct (Lw _ w Hn) as [X1 X2].
        destruct (cchan _ w) as [|[a|] r]; [exact HL| |].
        * split; cbn [cws dnext dhold dclosed cblock cout cclosed]; [assumption|].
          intros k' w' Hn'. apply nth_error_set_nth in Hn'. destruct Hn' as [[<- ->]|[Hne Hn']]; [|apply (Lw k' w' Hn')]. cbn. split; assumption.
        * destruct (ctoken _ w); [exact HL|].
          split; cbn [cws dnext dhold dclosed cblock cout cclosed]; [assumption|].
          intros k' w' Hn'. apply nth_error_set_nth in Hn'. destruct Hn' as [[<- ->]|[Hne Hn']]; [|apply (Lw k' w' Hn')]. cbn. split; assumption.
      + split; cbn [cws dnext dhold dclosed cblock cout cclosed]; assumption.
  Qed.

  (** remaining effective steps *)
  Definition isz (b : nat) : nat := S (length (ms b)).
  Fixpoint future_blocks (b n : nat) : nat :=
    match n with O => 0 | S n' => 4 + 2 * isz b + future_blocks (S b) n' end.
  Definition wpot (w : cworker) : nat :=
    match cwork _ w with Some b => 2 + 2 * isz b | None => 0 end +
    b2n (cbusy _ w) + 2 * length (cemit _ w) + length (cchan _ w) + b2n (negb (cexit _ w)).
  Definition sumw (ws : list cworker) : nat := fold_right (fun w a => wpot w + a) 0 ws.
  Definition cpot (s : cstate) : nat :=
    future_blocks (dnext _ s) (nb - dnext _ s) + sumw (cws _ s) +
    b2n (negb (dclosed _ s)) + b2n (negb (cclosed _ s)) + 1 - b2n (dhold _ s).

  Lemma sumw_set_nth ws k w w' : nth_error ws k = Some w -> sumw (set_nth ws k w') + wpot w = sumw ws + wpot w'.
  Proof.
    revert k. induction ws as [|a ws IH]; intros k H; [destruct k; discriminate|].
    destruct k; cbn [set_nth nth_error sumw fold_right] in *.
    - injection H as ->. lia.
    - specialize (IH k H). unfold sumw in IH. lia.
  Qed.

  Lemma items_not_all_forwarded pre b : map IMatch pre <> items_of b.
  Proof.
    unfold Collector.items_of. revert pre. induction (ms b) as [|a l IH]; intros [|x pre] H; cbn [map app] in H; try discriminate H.
    injection H as _ H. apply (IH pre H).
  Qed.

  Lemma length_items b : length (items_of b) = isz b.
  Proof. unfold Collector.items_of, isz. rewrite app_length, map_length. cbn. lia. Qed.

  Theorem collector_progress s :
    KInv s -> LInv s -> cclosed _ s = false -> exists th, cpot (cstep s th) < cpot s.
  Proof.
    intros HK HL Hcc. pose proof HK as [Hlen H1 H2 H3 Hhold _ Hidle Hw]. pose proof HL as [Ld Lw].
    destruct (Nat.ltb (cblock _ s) nb) eqn:Elt.
    2:{ exists CCollect. unfold Collector.cstep, cpot. rewrite Hcc, Elt. cbn [cws dnext dhold dclosed cblock cout cclosed b2n negb].
        destruct (dhold _ s); cbn [b2n]; lia. }
    apply Nat.ltb_lt in Elt.
    destruct (Nat.eq_dec (cblock _ s) (dnext _ s)) as [E|E].
    - (* nothing in flight: the dispatcher can move *)
      exists CDispatch. unfold Collector.cstep.
      assert (Ed : dclosed _ s = false) by (destruct (dclosed _ s) eqn:X; [specialize (Ld eq_refl); lia|reflexivity]).
      rewrite Ed. assert (Hlt : Nat.ltb (dnext _ s) nb = true) by (apply Nat.ltb_lt; lia). rewrite Hlt.
      assert (Hk : dnext _ s mod nw < length (cws _ s)) by (rewrite Hlen; apply Nat.mod_upper_bound; lia).
      destruct (nth_error (cws _ s) (dnext _ s mod nw)) as [w|] eqn:Hn; [|apply nth_error_None in Hn; lia].
      assert (Hfree : cwork _ w = None /\ cemit _ w = [] /\ cchan _ w = [] /\ ctoken _ w = negb (dhold _ s)).
      { destruct (Hw _ w Hn) as [[_ [F2 [F3 [F4 F5]]]]|[b [Hb _]]]; [|lia]. rewrite Nat.eqb_refl, andb_true_r in F5. repeat split; assumption. }
      destruct Hfree as [F2 [F3 [F4 F5]]].
      destruct (dhold _ s) eqn:Eh; cbn [negb] in F5.
      + rewrite F2. unfold cpot. cbn [cws dnext dhold dclosed cblock cout cclosed].
        match goal with |- context [set_nth (cws _ s) (dnext _ s mod nw) ?W] => pose proof (sumw_set_nth (cws _ s) (dnext _ s mod nw) w W Hn) as X end.
        unfold wpot in X. cbn [cwork cemit cbusy cchan cexit app] in X. rewrite ?Eb, ?R1, ?R2, ?Ee, ?Ech, ?Eem, ?F2, ?length_items in X. rewrite ?Eb, ?R1, ?R2, ?Ee, ?Ech, ?Eem, ?F2, ?Hcc, ?length_items. cbn [b2n length negb app] in X. cbn [b2n length negb app].
        replace (nb - dnext _ s) with (S (nb - S (dnext _ s))) by lia. rewrite ?Ed, ?Eh. cbn [future_blocks b2n negb]. lia.
      + rewrite F5. unfold cpot. cbn [cws dnext dhold dclosed cblock cout cclosed].
        match goal with |- context [set_nth (cws _ s) (dnext _ s mod nw) ?W] => pose proof (sumw_set_nth (cws _ s) (dnext _ s mod nw) w W Hn) as X end.
        unfold wpot in X. cbn [cwork cemit cbusy cchan cexit app] in X. rewrite ?F2, ?Ed, ?Eh in *. cbn [b2n length negb] in *.
        replace (nb - dnext _ s) with (S (nb - S (dnext _ s))) in * by lia. cbn [future_blocks] in *. lia.
    - (* the worker of the current block holds it *)
      assert (Hcur : cblock _ s < dnext _ s) by lia.
      set (k := cblock _ s mod nw).
      assert (Hk : k < length (cws _ s)) by (rewrite Hlen; apply Nat.mod_upper_bound; lia).
      destruct (nth_error (cws _ s) k) as [w|] eqn:Hn; [|apply nth_error_None in Hn; lia].
      destruct (Lw k w Hn) as [X1 X2].
      destruct (current_worker s w HK Hcur Hn) as [b [-> [Ht [[R1 [R2 [R3 R4]]]|[R1 [pre [R2 R4]]]]]]].
      + (* queued: the worker finishes its previous call or takes the block *)
        exists (CWorker k). unfold Collector.cstep. rewrite Hn.
        assert (Ee : cexit _ w = false) by (destruct (cexit _ w) eqn:X; [destruct (X1 eq_refl) as [_ [Y _]]; congruence|reflexivity]).
        rewrite Ee. destruct (cbusy _ w) eqn:Eb.
        * rewrite R2. unfold cpot, set_w. cbn [cws dnext dhold dclosed cblock cout cclosed].
          match goal with |- context [set_nth (cws _ s) k ?W] => pose proof (sumw_set_nth (cws _ s) k w W Hn) as X end.
          unfold wpot in X. cbn [cwork cemit cbusy cchan cexit app] in X. rewrite ?Eb, ?R1, ?R2, ?Ee, ?Ech, ?Eem, ?F2, ?length_items in X. rewrite ?Eb, ?R1, ?R2, ?Ee, ?Ech, ?Eem, ?F2, ?Hcc, ?length_items. cbn [b2n length negb app] in X. cbn [b2n length negb app]. destruct (dhold _ s); cbn [b2n]; lia.
        * rewrite R1. unfold cpot, set_w. cbn [cws dnext dhold dclosed cblock cout cclosed].
          match goal with |- context [set_nth (cws _ s) k ?W] => pose proof (sumw_set_nth (cws _ s) k w W Hn) as X end.
          unfold wpot in X. cbn [cwork cemit cbusy cchan cexit app] in X. rewrite ?Eb, ?R1, ?R2, ?Ee, ?Ech, ?Eem, ?F2, ?length_items in X. rewrite ?Eb, ?R1, ?R2, ?Ee, ?Ech, ?Eem, ?F2, ?Hcc, ?length_items. cbn [b2n length negb app] in X. cbn [b2n length negb app].
          destruct (dhold _ s); cbn [b2n]; lia.
      + destruct (cchan _ w) as [|it r] eqn:Ech.
        * (* nothing in the channel: the worker still has something to push, and room *)
          cbn [app] in R4.
          destruct (cemit _ w) as [|x rest] eqn:Eem.
          { exfalso. rewrite app_nil_r in R4. apply (items_not_all_forwarded pre (cblock _ s)). assumption. }
          assert (Eb : cbusy _ w = true) by (destruct (cbusy _ w) eqn:X; [reflexivity|specialize (X2 eq_refl); discriminate X2]).
          assert (Ee : cexit _ w = false) by (destruct (cexit _ w) eqn:X; [destruct (X1 eq_refl) as [_ [_ Y]]; congruence|reflexivity]).
          exists (CWorker k). unfold Collector.cstep. rewrite Hn, Ee, Eb, Eem, Ech. cbn [length].
          assert (Hc : Nat.ltb 0 cap = true) by (apply Nat.ltb_lt; assumption). rewrite Hc.
          unfold cpot, set_w. cbn [cws dnext dhold dclosed cblock cout cclosed].
          match goal with |- context [set_nth (cws _ s) k ?W] => pose proof (sumw_set_nth (cws _ s) k w W Hn) as X end.
          unfold wpot in X. cbn [cwork cemit cbusy cchan cexit app] in X. rewrite ?Eb, ?R1, ?R2, ?Ee, ?Ech, ?Eem, ?F2, ?length_items in X. rewrite ?Eb, ?R1, ?R2, ?Ee, ?Ech, ?Eem, ?F2, ?Hcc, ?length_items. cbn [b2n length negb app] in X. cbn [b2n length negb app].
          destruct (dhold _ s); cbn [b2n]; lia.
        * (* the collector receives *)
          exists CCollect. unfold Collector.cstep. rewrite Hcc. assert (Hlt : Nat.ltb (cblock _ s) nb = true) by (apply Nat.ltb_lt; assumption).
          rewrite Hlt. fold k. rewrite Hn, Ech. destruct it as [a|].
          -- unfold cpot. cbn [cws dnext dhold dclosed cblock cout cclosed].
             match goal with |- context [set_nth (cws _ s) k ?W] => pose proof (sumw_set_nth (cws _ s) k w W Hn) as X end.
             unfold wpot in X. cbn [cwork cemit cbusy cchan cexit app] in X. rewrite ?Eb, ?R1, ?R2, ?Ee, ?Ech, ?Eem, ?F2, ?length_items in X. rewrite ?Eb, ?R1, ?R2, ?Ee, ?Ech, ?Eem, ?F2, ?Hcc, ?length_items. cbn [b2n length negb app] in X. cbn [b2n length negb app].
             destruct (dhold _ s); cbn [b2n]; lia.
          -- rewrite Ht. unfold cpot. cbn [cws dnext dhold dclosed cblock cout cclosed].
             match goal with |- context [set_nth (cws _ s) k ?W] => pose proof (sumw_set_nth (cws _ s) k w W Hn) as X end.
             unfold wpot in X. cbn [cwork cemit cbusy cchan cexit app] in X. rewrite ?Eb, ?R1, ?R2, ?Ee, ?Ech, ?Eem, ?F2, ?length_items in X. rewrite ?Eb, ?R1, ?R2, ?Ee, ?Ech, ?Eem, ?F2, ?Hcc, ?length_items. cbn [b2n length negb app] in X. cbn [b2n length negb app].
             destruct (dhold _ s); cbn [b2n]; lia.
  Qed.

  Lemma linv_run sched : forall s, KInv s -> LInv s -> LInv (crun A ms nb nw cap sched s).
  Proof.
    induction sched as [|th sched IH]; intros s HK HL; [assumption|]. cbn [crun fold_left]. apply IH; [apply kinv_step; assumption|apply linv_step; assumption].
  Qed.

  Theorem collector_terminates : forall n s,
    cpot s <= n -> KInv s -> LInv s -> exists sched, cclosed _ (crun A ms nb nw cap sched s) = true.
  Proof.
    induction n as [|n IH]; intros s Hn HK HL.
    - destruct (cclosed _ s) eqn:Hc; [exists []; assumption|].
      destruct (collector_progress s HK HL Hc) as [th Hlt]. lia.
    - destruct (cclosed _ s) eqn:Hc; [exists []; assumption|].
      destruct (collector_progress s HK HL Hc) as [th Hlt].
      destruct (IH (cstep s th)) as [sched Hs]; [lia|apply kinv_step; assumption|apply linv_step; assumption|].
      exists (th :: sched). assumption.
  Qed.
End CollectorProofs.

(** * The statement of Properties/C15.v *)
Theorem collector_ordered_lemma :
  forall (A : Type) (ms : nat -> list A) (nb nw cap : nat),
    0 < nw -> 0 < cap ->
    forall (sched : list (cthread)),
      let s := crun A ms nb nw cap sched (init_collector A nw) in
      (cclosed A s = true -> cout A s = all_matches A ms nb) /\
      (exists more, cclosed A (crun A ms nb nw cap more s) = true).
Proof.
  intros A ms nb nw cap Hnw Hcap sched s.
  assert (HK : KInv A ms nb nw s) by (apply (kinv_run A ms nb nw cap Hnw); apply (kinv_init A ms nb nw Hnw)).
  assert (HL : LInv A nb s) by (apply (linv_run A ms nb nw cap Hnw Hcap); [apply (kinv_init A ms nb nw Hnw)|apply linv_init]).
  split.
  - apply (kinv_result A ms nb nw Hnw s HK).
  - apply (collector_terminates A ms nb nw cap Hnw Hcap (cpot A ms nb s)); [lia|assumption|assumption].
Qed.

Example collector_example :
  let ms := fun b => match b with 0 => [10; 11; 12] | 1 => [] | 2 => [20] | _ => [30; 31] end in
  let s := crun nat ms 4 2 2 (concat (repeat [CWorker 1; CDispatch; CWorker 0; CCollect] 40)) (init_collector nat 2) in
  cclosed nat s = true /\ cout nat s = [10; 11; 12; 20; 30; 31].
Proof. vm_compute. split; reflexivity. Qed.
