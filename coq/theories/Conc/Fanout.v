(** C15 — the per-file fan-out of pwr/diff.go as a small-step transition system:
    multiread.Do copies what the source reader returns (read by read, ctxcopy.Do) to an
    io.MultiWriter over two io.Pipe writers; the differ and the signer each read their pipe
    with buffers of their own size; taskgroup.Do returns when the three tasks have returned,
    and only then is the per-file end marker written.

    io.Pipe is a rendezvous: a Write offers its bytes and returns when Reads have taken all
    of them (a zero-length Write is taken by exactly one Read, which gets nothing); after
    the source's EOF ctxcopy performs one last Write -- zero-length when the source reports
    EOF on a read of its own (0, io.EOF), the last bytes when it reports it together with them
    (n > 0, io.EOF: legal for an io.Reader) -- then the pipes are closed and each reader sees
    EOF.  Threads interleave under an explicit schedule.  A consumer is
    represented by the list of pieces it has received: whatever it computes is a function of
    that list.  Definitions only; proofs in Conc/FanoutProofs.v. *)
From Wharf Require Import Base.Prelude.

Inductive prodpc :=
| PFetch                                     (* about to call src.Read *)
| PWrite (second : bool) (rest : list N) (once : bool)
                                             (* inside mw.Write: offering [rest] on the first / second pipe *)
| PClosed.                                   (* Do has returned, both pipes closed *)

Record fstate := mkF {
  fup : list (list N);        (* what the source will still return, read by read *)
  feof : bool;                (* the source has reported EOF, or will report it together with
                                 its last chunk (ctxcopy: [eof = true], the loop ends after
                                 the Write of that chunk) *)
  fcur : list N;              (* the chunk being written to both pipes *)
  fsent : list N;             (* bytes of the chunks completely written *)
  fpc : prodpc;
  fp1 : list (list N);        (* pieces consumer 1 has received, oldest first *)
  fdone1 : bool;              (* consumer 1 has seen EOF and returned *)
  fp2 : list (list N);
  fdone2 : bool;
  fmarker : bool              (* taskgroup.Do has returned: the end marker is written *)
}.

Inductive fthread := TProducer | TCons1 (buf : nat) | TCons2 (buf : nat) | TGroup.

(** [eofdata]: the source returns its last chunk together with io.EOF instead of reporting EOF
    on one more read (a source without chunks can only do the latter) *)
Definition init_fanout_eof (chunks : list (list N)) (eofdata : bool) : fstate :=
  mkF chunks (eofdata && match chunks with [] => false | _ => true end) [] [] PFetch [] false [] false false.

Definition init_fanout (chunks : list (list N)) : fstate := init_fanout_eof chunks false.

Definition offer_valid (rest : list N) (once : bool) : bool :=
  once || match rest with [] => false | _ => true end.

Definition fstep (s : fstate) (th : fthread) : fstate :=
  match th with
  | TProducer =>
      match fpc s with
      | PFetch =>
          match fup s with
          | c :: r => mkF r (feof s) c (fsent s) (PWrite false c true) (fp1 s) (fdone1 s) (fp2 s) (fdone2 s) (fmarker s)
          | [] =>
              if feof s
              then mkF [] true [] (fsent s) PClosed (fp1 s) (fdone1 s) (fp2 s) (fdone2 s) (fmarker s)
              else mkF [] true [] (fsent s) (PWrite false [] true) (fp1 s) (fdone1 s) (fp2 s) (fdone2 s) (fmarker s)
          end
      | _ => s      (* blocked in Write, or finished *)
      end
  | TCons1 buf =>
      if fdone1 s then s else
      match fpc s with
      | PWrite false rest once =>
          if offer_valid rest once then
            let k := Nat.max buf 1 in
            let piece := firstn k rest in
            let rest' := skipn k rest in
            let pc' := match rest' with [] => PWrite true (fcur s) true | _ => PWrite false rest' false end in
            mkF (fup s) (feof s) (fcur s) (fsent s) pc' (fp1 s ++ [piece]) false (fp2 s) (fdone2 s) (fmarker s)
          else s
      | PClosed => mkF (fup s) (feof s) (fcur s) (fsent s) PClosed (fp1 s) true (fp2 s) (fdone2 s) (fmarker s)
      | _ => s
      end
  | TCons2 buf =>
      if fdone2 s then s else
      match fpc s with
      | PWrite true rest once =>
          if offer_valid rest once then
            let k := Nat.max buf 1 in
            let piece := firstn k rest in
            let rest' := skipn k rest in
            match rest' with
            | [] => mkF (fup s) (feof s) [] (fsent s ++ fcur s) PFetch (fp1 s) (fdone1 s) (fp2 s ++ [piece]) false (fmarker s)
            | _ => mkF (fup s) (feof s) (fcur s) (fsent s) (PWrite true rest' false) (fp1 s) (fdone1 s) (fp2 s ++ [piece]) false (fmarker s)
            end
          else s
      | PClosed => mkF (fup s) (feof s) (fcur s) (fsent s) PClosed (fp1 s) (fdone1 s) (fp2 s) true (fmarker s)
      | _ => s
      end
  | TGroup =>
      match fpc s with
      | PClosed => if fdone1 s && fdone2 s
                   then mkF (fup s) (feof s) (fcur s) (fsent s) PClosed (fp1 s) (fdone1 s) (fp2 s) (fdone2 s) true
                   else s
      | _ => s
      end
  end.

Definition frun (sched : list fthread) (s : fstate) : fstate := fold_left fstep sched s.

(** steps still to be taken: the measure that shows absence of deadlock *)
Definition b2n (b : bool) : nat := if b then 1 else 0.
Definition chunk_cost (c : list N) : nat := 1 + 2 * (length c + 1).
Definition fmeasure (s : fstate) : nat :=
  b2n (negb (fmarker s)) + b2n (negb (fdone1 s)) + b2n (negb (fdone2 s)) +
  fold_right (fun c a => chunk_cost c + a) 0 (fup s) +
  (if feof s then 0 else chunk_cost []) +
  match fpc s with
  | PFetch => 1
  | PWrite false rest once => 1 + (length rest + b2n once) + (length (fcur s) + 1)
  | PWrite true rest once => 1 + (length rest + b2n once)
  | PClosed => 0
  end.
