(** C15 — how pwr/rediff/rediff.go (analyzePatch) chooses the old file a new file is
    bsdiff'ed against: among the old files that contribute blocks, the one with the most
    reused bytes; with equal counts one with the same path wins over the current choice,
    otherwise the current choice stays.  The unchanged code visited the candidates in Go map
    iteration order (any permutation); the repaired code visits them by increasing file
    index.  Definitions only; proofs in Conc/PickProofs.v.  There is no separate
    correspondence for this transcription: its tie to the Go code is the optimizer determinism
    oracle of the harness (same input, same parameters, N runs, identical bytes). *)
From Wharf Require Import Base.Prelude.

(** a candidate: old file index, bytes reused from it, whether its path equals the new file's *)
Record cand := mkCand { cidx : N; cbytes : N; csame : bool }.

Definition better (cur : option cand) (c : cand) : bool :=
  match cur with
  | None => true
  | Some d => N.ltb (cbytes d) (cbytes c) || (N.eqb (cbytes c) (cbytes d) && csame c)
  end.

(** the loop of analyzePatch over the candidates in the order given *)
Definition pick_in_order (l : list cand) : option cand :=
  fold_left (fun cur c => if better cur c then Some c else cur) l None.

Fixpoint insert_cand (c : cand) (l : list cand) : list cand :=
  match l with
  | [] => [c]
  | x :: r => if N.leb (cidx c) (cidx x) then c :: l else x :: insert_cand c r
  end.
Definition sort_cands (l : list cand) : list cand := fold_right insert_cand [] l.

(** the repaired loop: candidates by increasing file index *)
Definition pick_sorted (l : list cand) : option cand := pick_in_order (sort_cands l).
