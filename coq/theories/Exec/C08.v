(** Executable side of the C08 correspondence: the accounting of pwr.makeOpsWriter at the real
    block size on arbitrary operation lists ("acct"); the small-block-size op lists reuse
    [mismatches_ops] of Exec/C11.v.  Nothing here is used by a theorem. *)
From Wharf Require Import Base.Prelude Wsync.Account Exec.C11.

Definition BlockSize : Z := 65536%Z.

Definition acct_case := (N * list Z * list aop * option (Z * Z))%type.

Definition zz_eqb (a b : option (Z * Z)) : bool :=
  match a, b with
  | Some (r, f), Some (r', f') => Z.eqb r r' && Z.eqb f f'
  | None, None => true
  | _, _ => false
  end.

Definition mismatches_acct (cs : list acct_case) : list N :=
  map (fun c => let '(id, _, _, _) := c in id)
      (filter (fun c => let '(_, sizes, ops, obs) := c in
                        negb (zz_eqb (account BlockSize sizes (0, 0)%Z ops) obs)) cs).
