(** Executable instantiation of the wire models (protobuf codec := identity on bodies) and
    the comparators used by the generated case files of C13.  Nothing here is used by a
    theorem. *)
From Wharf Require Import Base.Prelude Wire.Uvarint Wire.Frame Wire.Reader Wire.Rewind.
Local Open Scope N_scope.

Definition id_unmarshal (b : list byte) : option (list byte) := Some b.

Definition f2 (a b : N) : N * N := (a, b).

Definition ids {A} (f : A -> N) (keep : A -> bool) (cs : list A) : list N :=
  map f (filter (fun c => negb (keep c)) cs).

(* ---- uvarint ---- *)
Definition uv_case := (N * N * list N * list N * (N * N * N))%type.

Definition uv_obs (input : list N) : N * N * N :=
  match uvarint_read input with
  | UvOk v c _ => (0, v, c)
  | UvErr UvEOF c => (1, 0, c)
  | UvErr UvUnexpectedEOF c => (2, 0, c)
  | UvErr UvOverflow c => (3, 0, c)
  end.

Definition n3_eqb (a b : N * N * N) : bool :=
  let '(a1, a2, a3) := a in let '(b1, b2, b3) := b in (a1 =? b1) && (a2 =? b2) && (a3 =? b3).

Definition uv_ok (c : uv_case) : bool :=
  let '(_, v, enc, input, obs) := c in
  (match enc with [] => true | _ => nlist_eqb (uvarint_enc v) enc end) && n3_eqb (uv_obs input) obs.

Definition mk_uv (id v : N) (enc input : list N) (cls val consumed : N) : uv_case :=
  (id, v, enc, input, (cls, val, consumed)).

Definition mismatches_uv (cs : list uv_case) : list N :=
  ids (fun c => let '(id, _, _, _, _) := c in id) uv_ok cs.

(* ---- buffer growth ---- *)
Definition npo2_case := (N * N * N)%type.
Definition mk_npo2 (id v o : N) : npo2_case := (id, v, o).
Definition mismatches_npo2 (cs : list npo2_case) : list N :=
  ids (fun c => let '(id, _, _) := c in id) (fun c => let '(_, v, o) := c in npo2 v =? o) cs.

(* ---- framed streams and their truncations ---- *)
Definition err_class (e : rerr) : N :=
  match e with
  | EEOF => 1 | EUnexpectedEOF => 2 | EOverflow => 5 | EFormat => 4 | EUnmarshal => 5 | EPanic => 6 | EOutOfFuel => 7
  end.

Definition frame_case := (N * option (Z * Z) * list (list (N * N)) * list (N * N) * list (N * N * N))%type.

Definition read_cut (expect : option Z) (l : list N) : N * N :=
  let go l := let '(ms, e) := read_msgs id_unmarshal 32768 l in (N.of_nat (length ms), err_class e) in
  match expect with
  | None => go l
  | Some m => match expect_magic m l with inl r => go r | inr e => (0, err_class e) end
  end.

Definition frame_ok (c : frame_case) : bool :=
  let '(_, mg, bodies, stream, cuts) := c in
  match write_bodies (map expand bodies) with
  | WPanic => false
  | WOk s =>
    let full := match mg with Some (m, _) => magic_enc m ++ s | None => s end in
    nlist_eqb full (expand stream) &&
    forallb (fun cut => let '(p, n, cls) := cut in
                        let '(n', cls') := read_cut (option_map snd mg) (firstn (N.to_nat p) full) in
                        (n =? n') && (cls =? cls')) cuts
  end.

Definition mk_frame (id : N) (mg : option (Z * Z)) (bodies : list (list (N * N))) (stream : list (N * N))
           (cuts : list (N * N * N)) : frame_case := (id, mg, bodies, stream, cuts).
Definition cut (p n cls : N) : N * N * N := (p, n, cls).

Definition mismatches_frame (cs : list frame_case) : list N :=
  ids (fun c => let '(id, _, _, _, _) := c in id) frame_ok cs.

(* ---- reader with checkpoints, possibly resumed while in use (Wire/Rewind.v) ---- *)
Inductive ores := RMsg (fp : N * N) | RErr (cls : N).
Inductive oev := EWant | EPop (c : option (N * option N)) | ERead (r : ores) | ERes (ok : bool).

(* a case: id, initial capacity, bodies, operations, observed emissions of a decompressing source
   (index of the operation - a read, or a Resume that discards - during which the reader received a source checkpoint, the offset
   it describes, the offset at which a fresh source restarts from it; None = seek source, the
   model predicts the emissions), observed event + reader state after every operation,
   resumptions by fresh readers (index of the pop, fingerprints of the messages read, end) *)
Definition ckpt_case :=
  (N * N * list (list (N * N)) * list xop * option (list (N * N * N)) * list (oev * (N * N * N)) * list (N * list (N * N) * N))%type.

(* an observed emission is replayed only if it is within the contract of sources (beh_sound):
   restart <= described offset <= offset after the read; otherwise the model does not emit and
   the traces differ *)
Definition table_behs (tbl : list (N * N * N)) : nat -> behaviour :=
  fun i _ after =>
    match find (fun row => let '(j, _, _) := row in j =? N.of_nat i) tbl with
    | Some (_, o, rs) => if (rs <=? o) && (o <=? after) then Some (mk_sc o rs) else None
    | None => None
    end.

Definition fp (b : list N) : N * N := (N.of_nat (length b), fold_left N.add b 0).

Definition save_code (s : save_state) : N := match s with Idle => 0 | Waiting => 1 | HasSrc => 2 end.

Definition n2_eqb (a b : N * N) : bool := (fst a =? fst b) && (snd a =? snd b).

Definition oev_eqb (a b : oev) : bool :=
  match a, b with
  | EWant, EWant => true
  | EPop None, EPop None => true
  | EPop (Some (o1, s1)), EPop (Some (o2, s2)) =>
    (o1 =? o2) && match s1, s2 with Some x, Some y => x =? y | None, None => true | _, _ => false end
  | ERead (RMsg f1), ERead (RMsg f2) => n2_eqb f1 f2
  | ERead (RErr c1), ERead (RErr c2) => c1 =? c2
  | ERes a, ERes b => Bool.eqb a b
  | _, _ => false
  end.

Definition project (x : xev (M:=list N) * reader) : oev * (N * N * N) :=
  let '(e, r) := x in
  (match e with
   | XE (EvWant _) => EWant
   | XE (EvPop None) => EPop None
   | XE (EvPop (Some ck)) => EPop (Some (mc_off ck, option_map sc_off (mc_src ck)))
   | XE (EvRead (ReadOk m)) => ERead (RMsg (fp m))
   | XE (EvRead (ReadErr e)) => ERead (RErr (err_class e))
   | XRes _ ok => ERes ok
   end, (r_off r, r_cap r, save_code (r_save r))).

Definition obs_eqb (a b : oev * (N * N * N)) : bool := oev_eqb (fst a) (fst b) && n3_eqb (snd a) (snd b).

Definition ckpt_ok (c : ckpt_case) : bool :=
  let '(_, cap0, bodies, ops, tbl, obs, resumes) := c in
  match write_bodies (map expand bodies) with
  | WPanic => false
  | WOk data =>
    let behs := match tbl with None => fun _ => seek_beh | Some t => table_behs t end in
    let r0 := new_reader cap0 data in
    let tr := xrun id_unmarshal behs [] r0 ops in
    list_eqb obs_eqb (map project tr) obs &&
    forallb (fun rs =>
      let '(j, fps, cls) := rs in
      match popped_at tr (N.to_nat j) with
      | Some ck =>
        match resume r0 (Some ck) with
        | Some r => let '(ms, e) := read_all id_unmarshal seek_beh r in
                    list_eqb n2_eqb (map fp ms) fps && (err_class e =? cls)
        | None => match fps with [] => cls =? 5 | _ => false end
        end
      | None => false
      end) resumes
  end.

Definition mk_ckpt (id cap0 : N) (bodies : list (list (N * N))) (ops : list xop) (tbl : option (list (N * N * N)))
           (obs : list (oev * (N * N * N))) (resumes : list (N * list (N * N) * N)) : ckpt_case :=
  (id, cap0, bodies, ops, tbl, obs, resumes).
Definition XW : xop := XO OWant.
Definition XP : xop := XO OPop.
Definition XR : xop := XO ORead.
Definition xz (j : N) : xop := XZ (Some (N.to_nat j)).
Definition xz_nil : xop := XZ None.
Definition ob (e : oev) (off cap save : N) : oev * (N * N * N) := (e, (off, cap, save)).
Definition pop_some (off sc : N) : oev := EPop (Some (off, Some sc)).
Definition pop_nosrc (off : N) : oev := EPop (Some (off, None)).
Definition rd_msg (l s : N) : oev := ERead (RMsg (l, s)).
Definition rd_err (cls : N) : oev := ERead (RErr cls).
Definition row (i o rs : N) : N * N * N := (i, o, rs).
Definition rs (j : N) (fps : list (N * N)) (cls : N) : N * list (N * N) * N := (j, fps, cls).
Definition mismatches_ckpt (cs : list ckpt_case) : list N :=
  ids (fun c => let '(id, _, _, _, _, _, _) := c in id) ckpt_ok cs.
