(** Executable instantiation of the C19 model (repaired code: synchronised counters,
    contiguous watermark; io.Copy writes one element per call) and the comparators used by
    the generated case files.  Nothing here is used by a theorem. *)
From Wharf Require Import Base.Prelude Arch.Zip.

Definition chunk1 (d : list N) : list (list N) := map (fun x => [x]) d.

Definition entry_eqb (a b : entry) : bool :=
  match a, b with
  | EDir p, EDir q => path_eqb p q
  | EFile p x, EFile q y => path_eqb p q && nlist_eqb x y
  | ELink p x, ELink q y => path_eqb p q && nlist_eqb x y
  | _, _ => false
  end.

Definition tree_fs (tree : list entry) : fs := map (fun e => (epath e, enode e)) tree.

Definition opt_node_eqb (a : option node) (b : node) : bool :=
  match a with Some x => node_eqb x b | None => false end.

(** the directory holds exactly the tree *)
Definition fs_same (f : fs) (tree : list entry) : bool :=
  forallb (fun e => opt_node_eqb (lookup f (epath e)) (enode e)) tree &&
  forallb (fun x => existsb (fun e => path_eqb (epath e) (fst x)) tree) f.

Definition counts_eqb (a b : nat * nat * nat) : bool :=
  let '(a1, a2, a3) := a in let '(b1, b2, b3) := b in Nat.eqb a1 b1 && Nat.eqb a2 b2 && Nat.eqb a3 b3.

(** the given schedule, then round robin until nothing is left to do *)
Definition run_full (es : list entry) (sched : list nat) (s : state) : state :=
  let s1 := run es chunk1 false true sched s in
  let w := length (sworkers s1) in
  run es chunk1 false true (concat (repeat (seq 0 w) (S (remaining es chunk1 false s1)))) s1.

Definition non_dirs (es : list entry) : nat := length (filter (fun e => negb (is_kind KDir e)) es).

(** a pseudo-random schedule derived from a seed (the Go side cannot force a schedule; the
    theorems say the result does not depend on it, the cases exercise that) *)
Fixpoint lcg_sched (n : nat) (x : N) (w : N) : list nat :=
  match n with
  | O => []
  | S n' => let x' := ((x * 1103515245 + 12345) mod 2147483648)%N in
            N.to_nat ((x' / 65536) mod w)%N :: lcg_sched n' x' w
  end.
Definition sched_of (seed : N) (es : list entry) (w : nat) : list nat :=
  lcg_sched (4 * length es + 8) seed (N.of_nat (Nat.max w 1)).

Definition pick (tree : list entry) (perm : list nat) : list entry :=
  flat_map (fun i => match nth_error tree i with Some e => [e] | None => [] end) perm.

(** an observed tree: [None] = exactly the source tree *)
Definition obs_tree (src : list entry) (o : option (list entry)) : list entry :=
  match o with None => src | Some t => t end.

(** id, flavor, tree, workers, schedule seed,
    (archive order as indices into tree, ok, extracted tree, counts, callbacks) *)
Definition extract_case :=
  (N * flavor * list entry * nat * N * (list nat * bool * option (list entry) * (nat * nat * nat) * nat))%type.

Definition check_extract (c : extract_case) : bool :=
  let '(_, fl, tree, w, seed, obs) := c in
  let '(perm, ok, got, counts, done) := obs in
  let es := compress fl tree in
  let s := run_full es (sched_of seed es w) (init [] None w) in
  Nat.eqb (length perm) (length tree) && list_eqb entry_eqb es (pick tree perm) && ok && finished es s &&
  fs_same (sfs s) (obs_tree tree got) &&
  counts_eqb (scounts s) counts &&
  match fl with FTar => true | _ => Nat.eqb (sdone s) done end.

Definition mismatches_extract (cs : list extract_case) : list N :=
  map (fun c => let '(id, _, _, _, _, _) := c in id) (filter (fun c => negb (check_extract c)) cs).

(** every entry at or below the index in the resume file is on disk, complete *)
Fixpoint prefix_complete (f : fs) (es : list entry) (i : nat) (last : option nat) : bool :=
  match es with
  | [] => true
  | e :: r => (if skipped last i then opt_node_eqb (lookup f (epath e)) (enode e) else true) && prefix_complete f r (S i) last
  end.

(** the directory at the interruption: per archive entry 0 = absent, 1 = there and complete,
    anything else = listed in [extra] (as are paths that belong to no entry) *)
Fixpoint kill_fs (es : list entry) (status : list N) (extra : list entry) : fs :=
  match es, status with
  | e :: r, 1%N :: sr => (epath e, enode e) :: kill_fs r sr extra
  | _ :: r, _ :: sr => kill_fs r sr extra
  | _, _ => tree_fs extra
  end.

(** id, archive entries, workers, schedule seed, resume file at the interruption, directory at
    the interruption (status, extra), (ok, final tree, counts, callbacks) *)
Definition resume_case :=
  (N * list entry * nat * N * option nat * list N * list entry * (bool * option (list entry) * (nat * nat * nat) * nat))%type.

Definition check_resume (c : resume_case) : bool :=
  let '(_, es, w, seed, last, status, extra, obs) := c in
  let '(ok, got, counts, done) := obs in
  let f0 := kill_fs es status extra in
  let s := run_full es (sched_of seed es w) (init f0 last w) in
  Nat.eqb (length status) (length es) && prefix_complete f0 es 0 last && ok && finished es s &&
  fs_same (sfs s) (obs_tree es got) &&
  counts_eqb (scounts s) counts && Nat.eqb (sdone s) done.

Definition mismatches_resume (cs : list resume_case) : list N :=
  map (fun c => let '(id, _, _, _, _, _, _, _) := c in id) (filter (fun c => negb (check_resume c)) cs).
