(** Executable instantiation of the C14 model (real window size, threshold and wire encoding)
    and the comparator used by generated case files.  Nothing here is used by a theorem. *)
From Wharf Require Import Base.Prelude Overlay.Writer Overlay.Patch Overlay.Codec.
Local Open Scope N_scope.

(** schedule of one session as printed by the harness: [W size count] = [count] consecutive
    Write calls of [size] bytes of the new content, [F] = Flush *)
Inductive ev := W (size count : N) | F.

(** [count] writes of [size] bytes each taken from [data]; events most recent first *)
Definition writes_of (size count : N) (data : list byte) (acc : list event) : list event * list byte :=
  N.iter count (fun ad : list event * list byte =>
                  let '(pre, post) := split_acc (snd ad) size [] in
                  (EvWrite (rev_append pre []) :: fst ad, post)) (acc, data).

Fixpoint events_of (evs : list ev) (data : list byte) (acc : list event) : list event * list byte :=
  match evs with
  | [] => (acc, data)
  | F :: r => events_of r data (EvFlush :: acc)
  | W size count :: r =>
      let '(acc', data') := writes_of size count data acc in
      events_of r data' acc'
  end.

(** run-length decoding, tail-recursive ([= expand]) *)
Definition expandN (rle : list (N * N)) : list byte :=
  fold_left (fun acc vc => repeat_onto (fst vc) (snd vc) acc) (rev_append rle []) [].

Fixpoint sessions_of (ss : list (list ev * list (N * N))) (data : list byte) : list (list event * list byte) :=
  match ss with
  | [] => []
  | (evs, stale) :: r =>
      let '(acc, data') := events_of evs data [] in
      (rev_append acc [], expandN stale) :: sessions_of r data'
  end.

Definition BUF : N := 131072.
Definition THR : N := 8192.

Definition op_code (o : op) : N * N :=
  match o with Skip n => (0, n) | Fresh d => (1, len d) | EndMark => (2040, 0) end.

Definition pair_eqb (a b : N * N) : bool := (fst a =? fst b) && (snd a =? snd b).

(** (id, old, new, sessions with the stale bytes found after each saved offset,
     (decoded messages, offsets after every flush/save, patched and truncated file)) *)
Definition ovl_case :=
  (N * list (N * N) * list (N * N) * list (list ev * list (N * N)) * (list (N * N) * list (N * N) * list (N * N)))%type.

Definition run_model (bufSize thr : N) (old new : list byte) (ss : list (list ev * list (N * N)))
  : bool * option (list (N * N)) * list (N * N) * presult :=
  let all := sessions_of ss new in
  let '(file, oof, log) :=
    run_sessions bufSize thr enc magic old [] 0 0 (removelast all) (fst (last all ([], []))) in
  let ops := match expect_magic magic file with
             | Some s => option_map (map op_code) (decode_all dec (S (length_tr s)) s)
             | None => None
             end in
  (oof, ops, log, patch dec magic old file).

Definition case_ok (c : ovl_case) : bool :=
  let '(_, old, new, ss, (ops, offs, final)) := c in
  let '(oof, mops, mlog, res) := run_model BUF THR (expandN old) (expandN new) ss in
  negb oof
  && match mops with Some m => list_eqb pair_eqb m ops | None => false end
  && list_eqb pair_eqb mlog offs
  && match res with POk f => nlist_eqb f (expand final) | _ => false end.

Definition mismatches_ovl (cs : list ovl_case) : list N :=
  map (fun c : ovl_case => let '(id, _, _, _, _) := c in id) (filter (fun c => negb (case_ok c)) cs).

Definition mismatches_ow := mismatches_ovl.
Definition mismatches_bowl := mismatches_ovl.
