(** Executable instantiation of the C05 model and its comparator. *)
From Wharf Require Import Base.Prelude Val.Drip Val.VPool Val.FileVal.
Local Open Scope Z_scope.

Definition kind_rank (k : wkind) : Z := match k with WFile => 0 | WSymlink => 1 | WDir => 2 | WClosed => 3 end.

Definition wound_leb (a b : wound) : bool :=
  let ka := kind_rank (wk a) in let kb := kind_rank (wk b) in
  if ka <? kb then true else if kb <? ka then false else
  if widx a <? widx b then true else if widx b <? widx a then false else
  if wstart a <? wstart b then true else if wstart b <? wstart a then false else
  wend a <=? wend b.

Fixpoint insert_w (w : wound) (l : list wound) : list wound :=
  match l with
  | [] => [w]
  | x :: r => if wound_leb w x then w :: l else x :: insert_w w r
  end.
Definition sort_w (l : list wound) : list wound := fold_right insert_w [] l.

(** observations as printed by the harness: file contents arrive run-length encoded *)
Inductive xobs := XMissing | XNotDir | XDir | XLink (d : N) | XFile (rle : list (N * N)) | XErr.
Definition of_x (x : xobs) : obs :=
  match x with
  | XMissing => OMissing | XNotDir => ONotDir | XDir => ODir | XLink d => OLink d
  | XFile r => OFile (expand r) | XErr => OErr
  end.

Definition val_case := (N * list (list nat * xobs) * list (list nat * N * xobs) * list (list nat * list (N * N) * xobs) * (rcls * rcls * list wound))%type.

Definition run_val (ds : list (list nat * obs)) (ls : list (list nat * N * obs)) (fs : list (list nat * list N * obs)) : rcls * rcls * list wound :=
  let v := validate 65536 4194304 (fun b : list N => b) nlist_eqb ds ls fs in
  let ff := failfast 65536 4194304 (fun b : list N => b) nlist_eqb ds ls fs in
  match v with
  | None => (RErr, ff, [])
  | Some ws => (ROk, ff, sort_w (reported ws))
  end.

Definition mismatches_val (cs : list val_case) : list N :=
  map (fun c => let '(id, _, _, _, _) := c in id)
      (filter (fun c => let '(_, ds, ls, fs, obs) := c in
                        let '(wc, fc, ws) := obs in
                        let '(mwc, mfc, mws) := run_val (map (fun p => (fst p, of_x (snd p))) ds) (map (fun p => let '(a, w, o) := p in (a, w, of_x o)) ls) (map (fun p => let '(a, sg, o) := p in (a, expand sg, of_x o)) fs) in
                        negb (rcls_eqb wc mwc && rcls_eqb fc mfc && list_eqb wound_eqb ws mws)) cs).

(** pwr.AggregateWounds driven directly with synthetic marker sequences *)
Definition agg_case := (N * Z * list wound * list wound)%type.
Definition mismatches_agg (cs : list agg_case) : list N :=
  map (fun c => let '(id, _, _, _) := c in id)
      (filter (fun c => let '(_, m, i, o) := c in negb (list_eqb wound_eqb (aggregate m None i) o)) cs).
