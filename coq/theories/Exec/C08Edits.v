(** Executable side of the C08 edit bound: the statement of [Properties/C08.v edits_fresh_bound]
    (in its sharper form, [(2k+1) * (bs-1) + bs] instead of [(2k+2) * bs]) evaluated on the
    executable model for EVERY single edit (three kinds, every offset 0 .. n+1, every length
    0 .. 2*bs+1) of pseudo-random files, at tiny block sizes and [maxData] values that make the
    data-op splitting, the buffer wrap and the last run reachable.  This is how the statement was
    tested before it was proved; nothing here is used by a theorem. *)
From Wharf Require Import Base.Prelude Wsync.Weak Wsync.Diff Wsync.Spec Wsync.EditSpec Exec.C11.
Local Open Scope N_scope.

(** a linear congruential generator for "high-entropy" bytes *)
Fixpoint lcg (n : nat) (x : N) : list N :=
  match n with
  | O => []
  | S k => let x' := (x * 1103515245 + 12345) mod 2147483648 in (x' / 65536) mod 256 :: lcg k x'
  end.

(** hypothesis ([nwr_b]) -> conclusion, on the model with the block as its own strong hash *)
Definition bound_ok (bs maxData : N) (olds : list (list N)) (f : N) (es : list edit) (pref : option N) : bool :=
  let old := nth (N.to_nat f) olds [] in
  let '(src, intro) := apply_edits es old in
  if nwr_b bs src then
    match model_ops bs maxData olds src pref with
    | Some ops => fresh_of ops <=? intro + (2 * len es + 1) * (bs - 1) + bs
    | None => false
    end
  else true.

Definition all_edits (n bs seed : N) : list edit :=
  flat_map (fun a => let a := N.of_nat a in
    flat_map (fun l => let l' := N.of_nat l in
       [Overwrite a (lcg l (seed + a * 7 + l')); Insert a (lcg l (seed + 1000 + a * 7 + l')); Delete a l'])
       (seq 0 (N.to_nat (2 * bs + 2))))
    (seq 0 (N.to_nat (n + 2))).

(** the single edits of an [n]-byte file that violate the bound *)
Definition sweep1 (bs maxData : N) (n : nat) (seed : N) : list edit :=
  let old := lcg n seed in
  filter (fun e => negb (bound_ok bs maxData [lcg 5 (seed + 5); old] 1 [e] (Some 1))) (all_edits (N.of_nat n) bs seed).

Example tiny_edit_sweep :
  (sweep1 2 3 9 1, sweep1 3 1 11 2, sweep1 3 100 13 3, sweep1 4 2 17 4, sweep1 2 1 4 5, sweep1 4 5 3 6, sweep1 4 5 8 9)
  = ([], [], [], [], [], [], []).
Proof. vm_compute. reflexivity. Qed.
