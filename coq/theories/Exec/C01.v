(** Executable instantiation of the C01 models and the comparators used by generated case
    files.  Nothing here is used by a theorem. *)
From Wharf Require Import Base.Prelude Bowl.Fresh Patch.Reinterp Patch.Stream Patch.Patcher Exec.PatchExec.
Local Open Scope Z_scope.

(* ---- apply1: wsync.ApplySingleFull on an in-memory pool, any block size ---- *)
(** (id, block size, old files, (fileIndex, blockIndex, blockSpan), (class, bytes written)) *)
Definition apply1_case := (N * Z * list rle * (Z * Z * Z) * (Z * rle))%type.

Definition sizes_container (olds : list (list byte)) : container :=
  mkC (map (fun d => ([1%N], Z.of_nat (length d))) olds) [] [].

Definition run_apply1 (bs : Z) (olds : list (list byte)) (o : Z * Z * Z) : Z * list byte :=
  let '(f, i, s) := o in
  let p := [7%N] in
  let w := mkW (mkP [(p, File [])] []) p 0 in
  match apply_range bs (sizes_container olds) olds w f i s with
  | Ok w' => (0, match tlookup (p_tree (w_st w')) p with Some (File d) => d | _ => [] end)
  | Err => (1, [])
  | Panic => (2, [])
  end.

Definition mismatches_apply1 (cs : list apply1_case) : list N :=
  map (fun c => let '(id, _, _, _, _) := c in id)
      (filter (fun c => let '(_, bs, olds, o, obs) := c in
                        let '(cls, out) := run_apply1 bs (map xexpand olds) o in
                        negb ((cls =? fst obs) && ((negb (cls =? 0)) || nlist_eqb out (xexpand (snd obs))))) cs).

(* ---- fresh: diff then apply through the real pipeline ---- *)
Inductive rop := ROpRange (f i s : Z) | ROpData (d : rle).
Definition uop (o : rop) : op := match o with ROpRange f i s => OpRange f i s | ROpData d => OpData (xexpand d) end.

Inductive rframe := RFHeader (a q : Z) | RFContainer (c : container) | RFMsg (m : rmsg).
Definition uframe (f : rframe) : frame :=
  match f with RFHeader a q => FHeader a q | RFContainer c => FContainer c | RFMsg m => FMsg (unr m) end.

(** the differ as a table: the ops Go's differ produced for the new file with this preferred
    index and this content *)
Definition table_differ (tbl : list (Z * list byte * list op)) (pref : Z) (data : list byte) : list op :=
  match find (fun e => (fst (fst e) =? pref) && nlist_eqb (snd (fst e)) data) tbl with
  | Some e => snd e
  | None => []
  end.

(** (id, algo, quality, old build, new build, observed ops per new file, observed frames,
     observed apply class, observed output tree) *)
Definition fresh_case := (N * Z * Z * rbuild * rbuild * list (list rop) * list rframe * Z * rbuild)%type.

Definition check_fresh (c : fresh_case) : bool :=
  let '(_, algo, q, ro, rn, rops, rframes, cls, rout) := c in
  let old := ubuild ro in let new := ubuild rn in
  let oldC := container_of old in
  let tbl := map (fun fo => (preferred_index oldC (fst (fst fo)), snd (fst fo), map uop (snd fo)))
                 (combine (files_of new) rops) in
  let frames := map uframe rframes in
  let model_frames := write_patch (table_differ tbl) algo q old new in
  wf_buildb new &&                      (* the generated build meets the theorem's hypothesis *)
  list_eqb frame_eqb model_frames frames &&
  match apply_patch_fresh BS (contents_of old) None frames with
  | Ok (t, touched, _) =>
    (cls =? 0) && tree_eqb t (ubuild rout) && (touched =? Z.of_nat (length (files_of new)))
  | Err => cls =? 1
  | Panic => cls =? 2
  end.

Definition mismatches_fresh (cs : list fresh_case) : list N :=
  map (fun c => let '(id, _, _, _, _, _, _, _, _) := c in id) (filter (fun c => negb (check_fresh c)) cs).

(* ---- craft: hand-made message lists through the real patcher, full tree compared ---- *)
(** (id, old container, new container, old files, messages, class, output tree) *)
Definition craft_case := (N * container * container * list rle * list rmsg * Z * rbuild)%type.

Definition check_craft (c : craft_case) : bool :=
  let '(_, oldC, newC, olds, ms, cls, rout) := c in
  match apply_fresh BS oldC newC (map xexpand olds) None (map unr ms) with
  | Ok (t, _, _) => (cls =? 0) && tree_eqb t (ubuild rout)
  | Err => cls =? 1
  | Panic => cls =? 2
  end.

Definition mismatches_craft (cs : list craft_case) : list N :=
  map (fun c => let '(id, _, _, _, _, _, _) := c in id) (filter (fun c => negb (check_craft c)) cs).
