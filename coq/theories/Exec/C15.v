(** Executable instantiation of the C15 models and the comparators used by the generated
    case files.  Nothing here is used by a theorem. *)
From Wharf Require Import Base.Prelude Arch.Zip Conc.Fanout Conc.Collector.

Fixpoint lcg (n : nat) (x : N) (m : N) : list nat :=
  match n with
  | O => []
  | S n' => let x' := ((x * 1103515245 + 12345) mod 2147483648)%N in
            N.to_nat ((x' / 65536) mod m)%N :: lcg n' x' m
  end.

Fixpoint split_sizes (sizes : list nat) (data : list N) : list (list N) :=
  match sizes with
  | [] => []
  | n :: r => firstn n data :: split_sizes r (skipn n data)
  end.

(* ---- fan-out ---- *)
(** id, data, sizes of the upstream reads, whether the last of them comes together with io.EOF,
    buffer sizes of the two consumers, schedule seed,
    (ok, bytes consumer 1 received, bytes consumer 2 received) *)
Definition fanout_case := (N * list N * list nat * bool * nat * nat * N * (bool * list N * list N))%type.

Definition fthread_of (b1 b2 : nat) (t : nat) : fthread :=
  match t with 0 => TProducer | 1 => TCons1 b1 | 2 => TCons2 b2 | _ => TGroup end.

Definition run_fanout (data : list N) (sizes : list nat) (eofdata : bool) (b1 b2 : nat) (seed : N) : fstate :=
  let s0 := init_fanout_eof (split_sizes sizes data) eofdata in
  let s1 := frun (map (fthread_of b1 b2) (lcg (4 * (length data + length sizes + 4)) seed 4)) s0 in
  frun (concat (repeat [TProducer; TCons1 b1; TCons2 b2; TGroup] (S (fmeasure s1)))) s1.

Definition check_fanout (c : fanout_case) : bool :=
  let '(_, data, sizes, eofdata, b1, b2, seed, obs) := c in
  let '(ok, got1, got2) := obs in
  let s := run_fanout data sizes eofdata b1 b2 seed in
  ok && fmarker s && nlist_eqb (concat (fp1 s)) got1 && nlist_eqb (concat (fp2 s)) got2.

Definition mismatches_fanout (cs : list fanout_case) : list N :=
  map (fun c => let '(id, _, _, _, _, _, _, _) := c in id) (filter (fun c => negb (check_fanout c)) cs).

(* ---- bsdiff dispatcher / workers / collector ---- *)
(** id, workers, channel capacity, matches per block, schedule seed,
    forwarded matches as runs (block, first index, length) *)
Definition collector_case := (N * nat * nat * list nat * N * list (nat * nat * nat))%type.

Definition block_matches (counts : list nat) (b : nat) : list (nat * nat) :=
  map (fun i => (b, i)) (seq 0 (nth b counts 0)).

Definition expand_runs (runs : list (nat * nat * nat)) : list (nat * nat) :=
  flat_map (fun r => let '(b, st, len) := r in map (fun i => (b, i)) (seq st len)) runs.

Definition cthread_of (nw : nat) (t : nat) : cthread :=
  match t with 0 => CDispatch | 1 => CCollect | S (S k) => CWorker k end.

Definition run_collector (nw cap : nat) (counts : list nat) (seed : N) : cstate (nat * nat) :=
  let nb := length counts in
  let total := fold_right Nat.add 0 counts in
  let st := cstep (nat * nat) (block_matches counts) nb nw cap in
  let s0 := init_collector (nat * nat) nw in
  let s1 := fold_left st (map (cthread_of nw) (lcg (2 * (total + 4 * nb + 4)) seed (N.of_nat (nw + 2)))) s0 in
  fold_left st (concat (repeat (map (cthread_of nw) (seq 0 (nw + 2))) (2 * total + 6 * nb + 8))) s1.

Definition pair_eqb (a b : nat * nat) : bool := Nat.eqb (fst a) (fst b) && Nat.eqb (snd a) (snd b).

Definition check_collector (c : collector_case) : bool :=
  let '(_, nw, cap, counts, seed, runs) := c in
  let s := run_collector nw cap counts seed in
  cclosed _ s && list_eqb pair_eqb (cout _ s) (expand_runs runs).

Definition mismatches_collector (cs : list collector_case) : list N :=
  map (fun c => let '(id, _, _, _, _, _) := c in id) (filter (fun c => negb (check_collector c)) cs).
