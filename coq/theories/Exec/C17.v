(** Executable instantiation of the C17 models and the comparators used by generated case
    files.  Nothing here is used by a theorem. *)
From Wharf Require Import Base.Prelude Bowl.Fresh Patch.Reinterp Patch.Stream Patch.Patcher Exec.PatchExec.
Local Open Scope Z_scope.

(* ---- reinterp: a frame written as one type, read as each of the four ---- *)
Definition reinterp_case := (N * pmsg * (sync_header * sync_op * bsdiff_header * control))%type.

Definition check_reinterp (c : reinterp_case) : bool :=
  let '(_, m, (sh, so, bh, ct)) := c in
  sh_eqb (as_sh m) sh && so_eqb (as_so m) so && bh_eqb (as_bh m) bh && ct_eqb (as_ct m) ct.

Definition mismatches_reinterp (cs : list reinterp_case) : list N :=
  map (fun c => fst (fst c)) (filter (fun c => negb (check_reinterp c)) cs).

(* ---- wl: one patch applied under several whitelists ---- *)
(** observation of one run: class, touched files, recorded calls, content of every new file *)
Definition wl_obs := (Z * Z * list event * list rle)%type.
(** (id, claims, old container, new container, old files, messages, runs); [claims] = the
    harness states C17 on this patch (a real or well-formed hand-made one), so the new
    container must meet the theorem's hypothesis [wf_container] *)
Definition wl_case := (N * bool * container * container * list rle * list rmsg * list (option (list Z) * wl_obs))%type.

Definition file_at (t : tree) (f : path * Z) : list byte :=
  match tlookup t (fst f) with Some (File d) => d | _ => [] end.

Definition check_run (oldC newC : container) (olds : list (list byte)) (ms : list pmsg)
           (run : option (list Z) * wl_obs) : bool :=
  let '(wl, (cls, touched, trace, files)) := run in
  match apply_fresh BS oldC newC olds wl ms with
  | Ok (t, touched', trace') =>
    (cls =? 0) && (touched =? touched') && list_eqb event_eqb trace trace' &&
    list_eqb nlist_eqb (map (file_at t) (c_files newC)) (map xexpand files)
  | Err => cls =? 1
  | Panic => cls =? 2
  end.

Definition check_wl (c : wl_case) : bool :=
  let '(_, claims, oldC, newC, olds, ms, runs) := c in
  let olds' := map xexpand olds in
  let ms' := map unr ms in
  (negb claims || wf_containerb newC) && forallb (check_run oldC newC olds' ms') runs.

Definition mismatches_wl (cs : list wl_case) : list N :=
  map (fun c => let '(id, _, _, _, _, _, _) := c in id) (filter (fun c => negb (check_wl c)) cs).
