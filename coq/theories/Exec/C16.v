(** Executable instantiation of Heal/Protocol.v for the C16 correspondence: scenario classes as
    printed by the Go harness, a family of deterministic schedulers that explores the model's
    schedules (priority orders of the goroutines x preferred select branch x cancellation
    instant), the set of outcomes reached, and the comparator.  Nothing here is used by a
    theorem (the theorems quantify over all schedules). *)
From Coq Require Import List Arith Bool NArith.
Import ListNotations.
From Wharf Require Import Heal.Protocol.

(** consumer classes of the harness *)
Inductive ckind :=
| CKGuardian            (* FailFast *)
| CKGuardianUnfixed     (* FailFast on the unchanged tree (kept for replaying the refutation) *)
| CKQuiet               (* WoundsWriter to a writable path / WoundsPrinter *)
| CKFailOnBad           (* WoundsWriter whose file cannot be created *)
| CKFailAtBad (n : nat) (* WoundsWriter whose n-th wound cannot be written (file size limit); used on trees
                           whose first messages are all non-healthy, so that messages = wounds *)
| CKReturnsAfter (n : nat) (r : res)
| CKHealer (fail_at : option nat).

Definition consumer_of (k : ckind) : consumer :=
  match k with
  | CKGuardian => guardian
  | CKGuardianUnfixed => guardian_unfixed
  | CKQuiet => quiet
  | CKFailOnBad => fails_on_bad
  | CKFailAtBad n => mkcons None (fun k _ m => match m with Bad => if n <=? S k then Some RErr else None | Healthy => None end)
                            (fun _ => RNil) (fun _ => Some RNil)
  | CKReturnsAfter n r => returns_after n r
  | CKHealer f => healer f
  end.

Record scen := mkscen {
  sc_cap : nat; sc_pre : list pitem; sc_startfail : bool; sc_files : list file;
  sc_cons : ckind; sc_ctx0 : bool; sc_maycancel : bool }.

Definition params_of (c : scen) : params :=
  mkparams (sc_cap c) (sc_pre c) (sc_startfail c) (sc_files c) (consumer_of (sc_cons c)) (sc_ctx0 c) false.

(** file shapes the harness prints *)
Definition fdata (healthy : nat) (bad : bool) (mid : fmid) : file :=
  FData (repeat FHealthy healthy) mid (if bad then [FBad false false] else []).
Definition fwhole : file := FWhole.

(** ---- schedulers ---- *)
Definition first_enabled (p : params) (order : list action) (s : state) : option state :=
  fold_right (fun a acc => match step p a s with Some s' => Some s' | None => acc end) None order.

Inductive ending := EndRet (r : res) | EndStuck | EndFuel.

(** run with a fixed priority order; the context is cancelled when [cancel_at] steps are left *)
Fixpoint sched_run (p : params) (order : list action) (cancel_at : option nat) (fuel : nat) (s : state) : ending :=
  match fuel with
  | O => EndFuel
  | S f =>
      match s_main s with
      | MRet => EndRet (s_ret s)
      | _ =>
          let s1 := match cancel_at with
                    | Some k => if Nat.eqb k f then (match step p ACancel s with Some s' => s' | None => s end) else s
                    | None => s
                    end in
          match first_enabled p order s1 with
          | Some s' => sched_run p order cancel_at f s'
          | None => EndStuck
          end
      end
  end.

(** thread groups and their two internal branch orders *)
Definition g_main (v : bool) := if v then [AMainW; AMainC; AMainF; AMain] else [AMainF; AMainC; AMainW; AMain].
Definition g_wk (v : bool) := if v then [AWkCanc; AWk] else [AWk; AWkCanc].
Definition g_cons (v : bool) := if v then [AConsCtx; ACons] else [ACons; AConsCtx].
Definition g_pipe (v : bool) := if v then [ARW; ARel; AAR; AAgg; AWA] else [AWA; AAgg; AAR; ARel; ARW].

Fixpoint insert_all {A} (x : A) (l : list A) : list (list A) :=
  match l with
  | [] => [[x]]
  | y :: t => (x :: l) :: map (cons y) (insert_all x t)
  end.
Fixpoint perms {A} (l : list A) : list (list A) :=
  match l with
  | [] => [[]]
  | x :: t => flat_map (insert_all x) (perms t)
  end.

Definition orders : list (list action) :=
  flat_map (fun v => map (@concat action) (perms [g_main v; g_wk v; g_cons v; g_pipe v])) [true; false]
  ++ map (@concat action) (perms [g_main true; g_wk false; g_cons false; g_pipe true])
  ++ map (@concat action) (perms [g_main false; g_wk true; g_cons true; g_pipe false]).

Definition cancel_points (fuel : nat) : list nat :=
  filter (fun k => Nat.ltb k fuel) [0; 1; 2; 4; 7; 12; 20; 35; 60].

Record oset := mkoset { can_nil : bool; can_err : bool; can_stuck : bool }.
Definition oadd (o : oset) (e : ending) : oset :=
  match e with
  | EndRet RNil => mkoset true (can_err o) (can_stuck o)
  | EndRet RErr => mkoset (can_nil o) true (can_stuck o)
  | _ => mkoset (can_nil o) (can_err o) true
  end.

Definition explore (c : scen) : oset :=
  let p := params_of c in
  let fuel := S (measure (init p)) in
  let cps := None :: (if sc_maycancel c then map (fun k => Some (fuel - 1 - k)) (cancel_points fuel) else []) in
  fold_left (fun o ord => fold_left (fun o cp => oadd o (sched_run p ord cp fuel (init p))) cps o)
            orders (mkoset false false false).

(** ---- comparator ---- *)
Inductive obs := ONil | OErr | OPanic | OHang.
Definition proto_case := (N * scen * obs)%type.

Definition is_healer (k : ckind) : bool := match k with CKHealer _ => true | _ => false end.

(** the observed outcome must be reachable in the model and the model must never get stuck;
    for the healer (whose own failures are outside the protocol) any returned outcome is accepted *)
Definition agrees (c : scen) (o : obs) : bool :=
  let e := explore c in
  negb (can_stuck e) &&
  match o with
  | ONil => can_nil e || is_healer (sc_cons c)
  | OErr => can_err e || is_healer (sc_cons c)
  | OPanic | OHang => false
  end.

Definition res_eqb (a b : res) : bool := match a, b with RNil, RNil | RErr, RErr => true | _, _ => false end.
Definition obs_eqb (a b : obs) : bool :=
  match a, b with ONil, ONil | OErr, OErr | OPanic, OPanic | OHang, OHang => true | _, _ => false end.
Definition fmsg_eqb (a b : fmsg) : bool :=
  match a, b with
  | FHealthy, FHealthy => true
  | FBad c1 b1, FBad c2 b2 => Bool.eqb c1 c2 && Bool.eqb b1 b2
  | _, _ => false
  end.
Definition fmid_eqb (a b : fmid) : bool :=
  match a, b with FMNone, FMNone | FMShort, FMShort | FMErr, FMErr => true | _, _ => false end.
Fixpoint leqb {A} (e : A -> A -> bool) (a b : list A) : bool :=
  match a, b with
  | [], [] => true
  | x :: a', y :: b' => e x y && leqb e a' b'
  | _, _ => false
  end.
Definition file_eqb (a b : file) : bool :=
  match a, b with
  | FWhole, FWhole | FOpenErr, FOpenErr => true
  | FData w1 m1 v1, FData w2 m2 v2 => leqb fmsg_eqb w1 w2 && fmid_eqb m1 m2 && leqb fmsg_eqb v1 v2
  | _, _ => false
  end.
Definition pitem_eqb (a b : pitem) : bool := match a, b with PWound, PWound | PErr, PErr => true | _, _ => false end.
Definition onat_eqb (a b : option nat) : bool :=
  match a, b with None, None => true | Some x, Some y => Nat.eqb x y | _, _ => false end.
Definition ckind_eqb (a b : ckind) : bool :=
  match a, b with
  | CKGuardian, CKGuardian | CKGuardianUnfixed, CKGuardianUnfixed | CKQuiet, CKQuiet | CKFailOnBad, CKFailOnBad => true
  | CKFailAtBad n1, CKFailAtBad n2 => Nat.eqb n1 n2
  | CKReturnsAfter n1 r1, CKReturnsAfter n2 r2 => Nat.eqb n1 n2 && res_eqb r1 r2
  | CKHealer f1, CKHealer f2 => onat_eqb f1 f2
  | _, _ => false
  end.
Definition scen_eqb (a b : scen) : bool :=
  Nat.eqb (sc_cap a) (sc_cap b) && leqb pitem_eqb (sc_pre a) (sc_pre b) && Bool.eqb (sc_startfail a) (sc_startfail b)
  && leqb file_eqb (sc_files a) (sc_files b) && ckind_eqb (sc_cons a) (sc_cons b)
  && Bool.eqb (sc_ctx0 a) (sc_ctx0 b) && Bool.eqb (sc_maycancel a) (sc_maycancel b).

(** explore each distinct (scenario, observation) once *)
Fixpoint lookup (c : scen) (o : obs) (tbl : list (scen * obs * bool)) : option bool :=
  match tbl with
  | [] => None
  | (c', o', b) :: t => if scen_eqb c c' && obs_eqb o o' then Some b else lookup c o t
  end.

Definition mismatches_proto (cs : list proto_case) : list N :=
  let step_case (acc : list (scen * obs * bool) * list N) (x : proto_case) :=
      let '(tbl, bad) := acc in
      let '(id, c, o) := x in
      match lookup c o tbl with
      | Some b => (tbl, if b then bad else id :: bad)
      | None => let b := agrees c o in ((c, o, b) :: tbl, if b then bad else id :: bad)
      end in
  rev (snd (fold_left step_case cs ([], []))).
