(** Executable instantiation of the safekeeper model (Val/Safekeeper.v) and the comparator used
    by the generated case files of C09.  Strong hash := the block itself.  Nothing here is used
    by a theorem. *)
From Wharf Require Import Base.Prelude Val.Drip Val.VPool Val.Safekeeper.
Local Open Scope N_scope.

Definition C09_BS : N := 65536.
Definition C09_CHUNK : N := 32768.

(** (id, files as (signed, actual) run-length encoded, steps (file index, pattern),
     observed per step (completed without error, bytes served)) *)
Definition skread_case := (N * list (list (N * N) * list (N * N)) * list (N * pattern) * list (bool * N))%type.

Definition total_len (ps : list (list N)) : N := fold_left (fun a p => a + nlen p) ps 0.

Definition run_skread (bs c : N) (v : version) (files : list (list N * list N)) (steps : list (N * pattern)) : list (bool * N) :=
  let fs := map (fun sa => skfile_of bs (fun b : list N => b) (fst sa) (snd sa)) files in
  map (fun r => (match snd r with Done => true | _ => false end, total_len (fst r)))
      (run_steps bs c (fun b : list N => b) nlist_eqb v fs (pool_empty) steps).

Definition obs_eqb (a b : list (bool * N)) : bool :=
  list_eqb (fun x y => Bool.eqb (fst x) (fst y) && (snd x =? snd y)) a b.

Definition mismatches_skread (cs : list skread_case) : list N :=
  map (fun cse => let '(id, _, _, _) := cse in id)
      (filter (fun cse => let '(_, files, steps, obs) := cse in
                 negb (obs_eqb (run_skread C09_BS C09_CHUNK Fixed
                                  (map (fun sa => (expand (fst sa), expand (snd sa))) files) steps) obs)) cs).
