(** Executable instantiation of the C03 model for the correspondence with the Go harness:
    payloads are reduced to their lengths ([D := N]), working files carry no content, the
    entry writer is its offset, the source is the seek source ([emit] always true) and
    [ReadContext.Resume] restarts at the reader offset.  What is compared: the checkpoints the
    patcher offers (message index of the reader and of the source checkpoint, file index,
    kind, writer offset, bsdiff old offset and target index, the overlay bowl's work lists),
    the number of ShouldSave calls, and how the run ended.  Nothing here is used by a theorem. *)
From Wharf Require Import Base.Prelude Patch.Resume.

Definition BS03 : N := 65536%N.

Record offer := mkOffer {
  o_msg : N; o_src : N; o_file : N; o_bs : bool; o_written : N; o_old : Z; o_target : N;
  o_trans : list (N * N); o_ovl : list N; o_move : list N }.

Definition nth_n (l : list N) (i : N) : N := nth (N.to_nat i) l 0%N.

Section Inst.
  Variables (fresh : bool) (isov : list bool) (tsizes ssizes : list N).
  Variables (asked : list bool) (stopAt : nat).

  Definition x_range (f bi span : N) : N :=
    if N.eqb span 0 then 0%N else
    let size := nth_n tsizes f in
    let last := if (size <? BS03 * (bi + span))%N then (size mod BS03)%N else BS03 in
    ((span - 1) * BS03 + last)%N.

  Definition x_open (_ : N) (c : option (N * unit)) (_ : unit) : option (N * unit) :=
    Some (match c with Some (o, _) => o | None => 0%N end, tt).

  Definition x_isov (f : N) : bool := nth (N.to_nat f) isov false.
  Definition x_sched (i : nat) : bool := nth i asked false.
  Definition x_stop (j : nat) : bool := negb (Nat.eqb stopAt 0) && Nat.eqb j stopAt.
  Definition x_src_resume (off src : nat) : option nat := if Nat.leb src off then Some off else None.

  Definition x_result := result unit N unit.

  Definition x_start (ms : list (msg N)) : x_result :=
    run_fresh_start N unit N unit (fun d => d) BS03 (nth_n tsizes) (nth_n ssizes) (N.of_nat (length ssizes))
      x_range (fun _ _ a c => (a + c)%N)
      x_open (fun _ w _ d => ((w + d)%N, tt)) (fun _ w _ => ((w, tt), w, tt)) (fun _ _ _ => tt) (fun w => w)
      fresh x_isov (fun _ r => r) (fun _ => tt)
      (fun _ => true) x_sched x_stop (fun _ => tt) ms.

  Definition ck_of_offer (o : offer) : ckpt unit :=
    mkck unit (mkmc (N.to_nat (o_msg o)) (N.to_nat (o_src o))) (o_file o) (o_bs o)
         (mkbk (o_trans o) (o_ovl o) (o_move o)) (o_written o) tt (o_old o) (o_target o).

  Definition x_resumed (o : offer) (ms : list (msg N)) : x_result :=
    run_resumed N unit N unit (fun d => d) BS03 (nth_n tsizes) (nth_n ssizes) (N.of_nat (length ssizes))
      x_range (fun _ _ a c => (a + c)%N)
      x_open (fun _ w _ d => ((w + d)%N, tt)) (fun _ w _ => ((w, tt), w, tt)) (fun _ _ _ => tt) (fun w => w)
      fresh x_isov (fun _ r => r) (fun _ => tt)
      (fun _ => true) x_src_resume x_sched x_stop (ck_of_offer o) (fun _ => tt) ms.

  Definition offer_of_ck (c : ckpt unit) : offer :=
    mkOffer (N.of_nat (mc_off (ck_msg _ c))) (N.of_nat (mc_src (ck_msg _ c))) (ck_file _ c) (ck_bs _ c)
            (ck_woff _ c) (ck_old _ c) (ck_target _ c)
            (bk_trans (ck_bowl _ c)) (bk_ovl (ck_bowl _ c)) (bk_move (ck_bowl _ c)).
End Inst.

Definition pair_eqb (a b : N * N) : bool := (N.eqb (fst a) (fst b) && N.eqb (snd a) (snd b))%bool.

Definition offer_eqb (a b : offer) : bool :=
  (N.eqb (o_msg a) (o_msg b) && N.eqb (o_src a) (o_src b) && N.eqb (o_file a) (o_file b) &&
   Bool.eqb (o_bs a) (o_bs b) && N.eqb (o_written a) (o_written b) && Z.eqb (o_old a) (o_old b) &&
   N.eqb (o_target a) (o_target b) && list_eqb pair_eqb (o_trans a) (o_trans b) &&
   nlist_eqb (o_ovl a) (o_ovl b) && nlist_eqb (o_move a) (o_move b))%bool.

(** (id, fresh, is_overlay per source file, target sizes, source sizes, messages,
     checkpoint resumed from, ShouldSave answers, stop at the n-th Save (0 = never),
     status (0 = nil and committed, 1 = ErrStop), offered checkpoints) *)
Definition offers_case :=
  (N * bool * list bool * list N * list N * list (msg N) * option offer * list bool * nat * N * list offer)%type.

Definition model_obs (c : offers_case) : option (N * nat * list offer) :=
  let '(_, fresh, isov, ts, ss, ms, from, asked, stopAt, _, _) := c in
  let r := match from with
           | None => x_start fresh isov ts ss asked stopAt ms
           | Some o => x_resumed fresh isov ts ss asked stopAt o ms
           end in
  let proj s := (s_asked _ _ _ s, map (fun x => offer_of_ck (fst x)) (rev (s_offers _ _ _ s))) in
  match r with
  | Finished _ _ _ s => Some (0%N, fst (proj s), snd (proj s))
  | Stopped _ _ _ s => Some (1%N, fst (proj s), snd (proj s))
  | _ => None
  end.

Definition case_ok (c : offers_case) : bool :=
  let '(_, _, _, _, _, _, _, asked, _, status, offs) := c in
  match model_obs c with
  | Some (st, n, os) => (N.eqb st status && Nat.eqb n (length asked) && list_eqb offer_eqb os offs)%bool
  | None => false
  end.

Definition mismatches_offers (cs : list offers_case) : list N :=
  map (fun c => let '(id, _, _, _, _, _, _, _, _, _, _) := c in id) (filter (fun c => negb (case_ok c)) cs).
