(** Executable instantiation of the C04 models and the comparators used by generated case
    files.  Strong hash := the block itself (so two strong hashes are equal iff the blocks
    are), and the Go side reports, instead of MD5 values, for every hash the index of the first
    hash of the list with the same strong hash.  Nothing here is used by a theorem. *)
From Wharf Require Import Base.Prelude Val.Drip Val.VPool Sig.Scan Sig.Weak Sig.Sign Sig.Fanout Sig.SigFile Sig.HashInfo Sig.Validate.
Local Open Scope N_scope.

Definition MAXE : nat := 100.                  (* bufio maxConsecutiveEmptyReads *)
Definition BSn : N := 65536.                   (* pwr.BlockSize *)
Definition SLICE : N := 16384.                 (* ctxcopy buffer *)

Definition ll_eqb4 (a b : list (list N)) : bool := list_eqb nlist_eqb a b.

(* ---- scan: bufio.Scanner + splitfunc over a chunky reader ---- *)
Definition scan_case := (N * nat * nat * list (list N) * bool * (list (list N) * scan_end))%type.

Definition mismatches_scan (cs : list scan_case) : list N :=
  map (fun c => let '(id, _, _, _, _, _) := c in id)
      (filter (fun c => let '(_, cap, sb, chunks, eofl, (toks, e)) := c in
                        let '(toks', e') := scan cap MAXE (splitfunc sb) chunks eofl in
                        negb (ll_eqb4 toks' toks && scan_end_eqb e' e)) cs).

(* ---- projections of hash lists ---- *)
Definition hash5 := (N * N * N * N * N)%type.   (* file, block, weak, label, short *)
Definition hash5_eqb (a b : hash5) : bool :=
  let '(f1, b1, w1, l1, s1) := a in let '(f2, b2, w2, l2, s2) := b in
  (f1 =? f2) && (b1 =? b2) && (w1 =? w2) && (l1 =? l2) && (s1 =? s2).

Fixpoint find_first (x : list N) (l : list (list N)) (i : N) : N :=
  match l with
  | [] => i
  | y :: r => if nlist_eqb x y then i else find_first x r (i + 1)
  end.

Definition project (hs : list (blockhash (list N))) : list hash5 :=
  let ss := map bh_strong hs in
  map (fun h => (bh_file h, bh_block h, bh_weak h, find_first (bh_strong h) ss 0, bh_short h)) hs.

(* ---- csig: wsync.Context.CreateSignature ---- *)
Definition csig_case := (N * N * N * list (list (N * N)) * bool * (list hash5 * scan_end))%type.

Definition mismatches_csig (cs : list csig_case) : list N :=
  map (fun c => let '(id, _, _, _, _, _) := c in id)
      (filter (fun c => let '(_, bs, fi, chunks, eofl, (hs, e)) := c in
                        let '(hs', e') := create_signature bs beta_hash (fun b => b) MAXE fi (map expand chunks) eofl in
                        negb (list_eqb hash5_eqb (project hs') hs && scan_end_eqb e' e)) cs).

(* ---- fan: what a pipe reader of the multiread fan-out is handed ---- *)
Definition fan_case := (N * N * list N * bool * list N * list N)%type.

Definition run_fan (slice : N) (sizes : list N) (eofl : bool) (reqs : list N) : option (list N) :=
  let chunks := map (fun n => repeat 0 (N.to_nat n)) sizes in
  match fan_writes (N.to_nat slice) chunks eofl with
  | (ws, true) =>
    let rq := map N.to_nat reqs in
    Some (map N.of_nat (drain (length (concat ws) + length ws + 2 + length rq * (length (concat ws) + length ws + 2)) rq rq (mkrd ws false)))
  | _ => None
  end.

Definition mismatches_fan (cs : list fan_case) : list N :=
  map (fun c => let '(id, _, _, _, _, _) := c in id)
      (filter (fun c => let '(_, slice, sizes, eofl, reqs, obs) := c in
                        match run_fan slice sizes eofl reqs with
                        | Some r => negb (nlist_eqb r obs)
                        | None => true
                        end) cs).

(* ---- sig: a small build at the real block size ---- *)
Definition sig_case := (N * list (list (N * N)) * list hash5 * list (option (list (N * N))))%type.

Definition pair_eqb2 (a b : N * N) : bool := (fst a =? fst b) && (snd a =? snd b).
Definition ogroup_eqb (a b : option (list (N * N))) : bool :=
  match a, b with
  | None, None => true
  | Some x, Some y => list_eqb pair_eqb2 x y
  | _, _ => false
  end.

(** the whole path the diff-time signature takes: pool reader (whole file in one chunk, EOF on
    its own, as os.File behaves) -> fan-out in 16 KiB slices -> scanner with a 64 KiB buffer ->
    hashes -> stripped to (weak, strong) -> ReadSignature -> ComputeHashInfo.
    The weak hash is evaluated in its running-sum form [beta_prefix] (= [beta_hash], Sig/WeakProofs.v);
    the csig group evaluates [beta_hash] itself. *)
Definition run_sig (files : list (list N)) : option (list hash5 * list (option (list (N * N)))) :=
  let srcs := map (fun f => (match f with [] => [] | _ => [f] end, false)) files in
  let sizes := map (fun f => N.of_nat (length f)) files in
  match diff_time_signature BSn beta_prefix (fun b : list N => b) MAXE (N.to_nat SLICE) srcs with
  | Some st =>
    let hs := read_signature BSn sizes st in
    match compute_hash_info BSn sizes hs with
    | HiOk gs => Some (project hs, map (option_map (map (fun h => (bh_file h, bh_block h)))) gs)
    | _ => None
    end
  | None => None
  end.

Definition mismatches_sig (cs : list sig_case) : list N :=
  map (fun c => let '(id, _, _, _) := c in id)
      (filter (fun c => let '(_, files, hs, gs) := c in
                        let fl := map expand files in
                        match run_sig fl with
                        | Some (hs', gs') =>
                          negb (list_eqb hash5_eqb hs' hs && list_eqb ogroup_eqb gs' gs)
                        | None => true
                        end) cs).

(* ---- hinfo: pwr.ComputeHashInfo on ANY signature (too few, too many, exactly enough hashes) ----
   the container is given by its file sizes, the hashes are anonymous: hash number k is
   represented by k, a group by the numbers of its hashes.  [cls]: 0 = nil error, 1 = error
   returned, anything else (2 = panic, 3 = hang) never matches the model: ComputeHashInfo has no
   such outcome since repo commit 6a06397. *)
Definition hinfo_case := (N * list N * N * (N * list (option (list N))))%type.

Definition ogroup1_eqb (a b : option (list N)) : bool :=
  match a, b with
  | None, None => true
  | Some x, Some y => nlist_eqb x y
  | _, _ => false
  end.

Definition run_hinfo (sizes : list N) (nhashes : N) : N * list (option (list N)) :=
  match compute_hash_info BSn sizes (map N.of_nat (seq 0 (N.to_nat nhashes))) with
  | HiOk gs => (0, gs)
  | HiErr => (1, [])
  end.

Definition mismatches_hinfo (cs : list hinfo_case) : list N :=
  map (fun c => let '(id, _, _, _) := c in id)
      (filter (fun c => let '(_, sizes, nh, (cls, gs)) := c in
                        let '(cls', gs') := run_hinfo sizes nh in
                        negb ((cls' =? cls) && list_eqb ogroup1_eqb gs' gs)) cs).

(* ---- vfile: Validate of a tree of regular files against the signature of OTHER contents ----
   (files on disk shorter / longer than signed, damaged blocks, pristine): per file the signed
   content and the content on disk, and the wounds found in the wounds file, sorted.  The model:
   the signature of the signed contents, ComputeHashInfo, [doOne] per file with the content
   written in one Write (the slicing does not matter: Val/VPoolProofs.v [wound_mode_list]),
   WoundsWriter's filter, sorted the same way (the relay goroutines interleave). *)
Definition vfile_case := (N * list (list (N * N) * list (N * N)) * (N * list wound))%type.

Definition wkind_rank (k : wkind) : Z := match k with WFile => 0 | WSymlink => 1 | WDir => 2 | WClosed => 3 end%Z.
Definition wound_leb4 (a b : wound) : bool :=
  let ka := wkind_rank (wk a) in let kb := wkind_rank (wk b) in
  (if ka <? kb then true else if kb <? ka then false else
   if widx a <? widx b then true else if widx b <? widx a then false else
   if wstart a <? wstart b then true else if wstart b <? wstart a then false else
   wend a <=? wend b)%Z.
Fixpoint insert_w4 (w : wound) (l : list wound) : list wound :=
  match l with
  | [] => [w]
  | x :: r => if wound_leb4 w x then w :: l else x :: insert_w4 w r
  end.
Definition sort_w4 (l : list wound) : list wound := fold_right insert_w4 [] l.

Definition MAXWOUND : Z := 4194304.            (* pwr.MaxWoundSize *)

Definition run_vfile (signed ondisk : list (list N)) : N * list wound :=
  let sizes := map (fun f => N.of_nat (length f)) signed in
  let sig := read_signature BSn sizes (write_signature (sign_all BSn beta_prefix (fun b : list N => b) signed)) in
  match validate_tree BSn beta_prefix (fun b : list N => b) nlist_eqb MAXWOUND sizes sig (map (fun c => [c]) ondisk) with
  | Some wl => (0, sort_w4 (wounds_written wl))
  | None => (1, [])
  end.

Definition mismatches_vfile (cs : list vfile_case) : list N :=
  map (fun c => let '(id, _, _) := c in id)
      (filter (fun c => let '(_, files, (cls, ws)) := c in
                        let '(cls', ws') := run_vfile (map (fun p => expand (fst p)) files) (map (fun p => expand (snd p)) files) in
                        negb ((cls' =? cls) && list_eqb wound_eqb ws' ws)) cs).
