(** Executable side of C06: case types and comparators for the two correspondence groups.
    Nothing here is used by a theorem.

    "fsmodel": a random operation sequence on a scratch directory; results (errno class or
               value) of every operation and the final tree must equal the model's.
    "heal"   : signed build + damaged tree + the outcomes Go produced under GOMAXPROCS 1/2/16
               (error class, final tree); each must be among the outcomes of the model over a
               family of schedules (6 thread priorities x channel capacities 1, 2, 1024, with
               and without a pseudo-random schedule prefix). *)
From Wharf Require Import FS.Light FS.Tree FS.Ops Heal.Validator Heal.Healer.

(** trees in case files carry run-length encoded file contents *)
Inductive rnode := RFile (rle : list (N * N)) | RDir | RLink (dest : list comp).
Definition of_rnode (n : rnode) : node :=
  match n with RFile r => File (expand r) | RDir => Dir | RLink d => Link d end.
Definition of_rtree (t : list (path * rnode)) : tree := map (fun e => (fst e, of_rnode (snd e))) t.

(* monomorphic constructors for the generated case files: tuple notations make Coq infer the
   type arguments of every [pair], which dominated the run time of the correspondence *)
Definition R (v c : N) : N * N := (v, c).
Definition E (p : path) (n : rnode) : path * rnode := (p, n).
Definition LK (p : path) (dest : list comp) : path * list comp := (p, dest).
Definition FL (p : path) (rle : list (N * N)) : path * list (N * N) := (p, rle).

(* ---------------- fsmodel ---------------- *)

Inductive fsop :=
| OLstat (p : path) | OStat (p : path) | OReadlink (p : path) | ORead (p : path)
| OMkdir (p : path) | OMkdirAll (p : path) | ORemove (p : path) | ORemoveAll (p : path)
| OSymlink (dest : list comp) (p : path) | OWrite (p : path) (rle : list (N * N))
| ORename (src dst : path) | ORename2 (src dst : path)
| OWriteAt (p : path) (off : N) (rle : list (N * N)) | OTruncate (p : path) (len : N).

Inductive fsres :=
| RErr (e : errno)
| RUnit
| RKind (k : N)            (* 0 file, 1 dir, 2 link *)
| RDest (d : list comp)
| RData (rle : list (N * N)).

Definition kind_of (n : node) : N := match n with File _ => 0 | Dir => 1 | Link _ => 2 end.

Definition fsres_eqb (a b : fsres) : bool :=
  match a, b with
  | RErr x, RErr y => errno_eqb x y
  | RUnit, RUnit => true
  | RKind x, RKind y => N.eqb x y
  | RDest x, RDest y => dest_eqb x y
  | RData x, RData y => nlist_eqb (expand x) (expand y)
  | _, _ => false
  end.

Definition unit_res (t : tree) (r : res tree) : tree * fsres :=
  match r with Ok t' => (t', RUnit) | Err e => (t, RErr e) end.

Definition do_op (t : tree) (o : fsop) : tree * fsres :=
  match o with
  | OLstat p => (t, match lstat t p with Ok n => RKind (kind_of n) | Err e => RErr e end)
  | OStat p => (t, match stat t p with Ok n => RKind (kind_of n) | Err e => RErr e end)
  | OReadlink p => (t, match readlink t p with Ok d => RDest d | Err e => RErr e end)
  | ORead p => (t, match read_file t p with Ok d => RData (map (fun x => (x, 1%N)) d) | Err e => RErr e end)
  | OMkdir p => unit_res t (mkdir t p)
  | OMkdirAll p => unit_res t (mkdir_all t p)
  | ORemove p => unit_res t (remove t p)
  | ORemoveAll p => unit_res t (remove_all t p)
  | OSymlink d p => unit_res t (symlink t d p)
  | OWrite p r => match open_trunc t p with
                  | Ok (t', q) => (write_fd t' q (expand r), RUnit)
                  | Err e => (t, RErr e)
                  end
  | ORename a c => unit_res t (rename t a c)
  | ORename2 a c => unit_res t (rename2 t a c)
  | OWriteAt p off r => match open_nocreate t p with
                        | Ok q => (write_at_fd t q (N.to_nat off) (expand r), RUnit)
                        | Err e => (t, RErr e)
                        end
  | OTruncate p len => match open_nocreate t p with
                       | Ok q => (truncate_fd t q (N.to_nat len), RUnit)
                       | Err e => (t, RErr e)
                       end
  end.

Fixpoint do_ops (t : tree) (os : list fsop) : tree * list fsres :=
  match os with
  | [] => (t, [])
  | o :: r => let '(t1, x) := do_op t o in let '(t2, xs) := do_ops t1 r in (t2, x :: xs)
  end.

Definition fs_case := (N * list (path * rnode) * list fsop * list fsres * list (path * rnode))%type.

Definition FC (id : N) (init : list (path * rnode)) (os : list fsop) (rs : list fsres)
           (final : list (path * rnode)) : fs_case := (id, init, os, rs, final).

Definition run_fs (init : list (path * rnode)) (os : list fsop) : tree * list fsres := do_ops (of_rtree init) os.

Definition fs_agrees (c : fs_case) : bool :=
  let '(_, init, os, rs, final) := c in
  let '(t, xs) := run_fs init os in
  list_eqb fsres_eqb xs rs && tree_eqb t (of_rtree final) && wf_tree (of_rtree init).

Definition mismatches_fsmodel (cs : list fs_case) : list N :=
  map (fun c => let '(id, _, _, _, _) := c in id) (filter (fun c => negb (fs_agrees c)) cs).

(* ---------------- heal ---------------- *)

Definition rbuild := (list path * list (path * list comp) * list (path * list (N * N)))%type.
Definition of_rbuild (b : rbuild) : build :=
  let '(d, l, f) := b in mkBuild d l (map (fun e => (fst e, expand (snd e))) f).

Definition heal_case :=
  (N * path * rbuild * list (path * rnode) * list (N * list (path * rnode)))%type.

Definition RB (d : list path) (l : list (path * list comp)) (f : list (path * list (N * N))) : rbuild := (d, l, f).
Definition OUT (cls : N) (t : list (path * rnode)) : N * list (path * rnode) := (cls, t).
Definition HC (id : N) (T : path) (b : rbuild) (t0 : list (path * rnode))
           (outs : list (N * list (path * rnode))) : heal_case := (id, T, b, t0, outs).

Definition tid_of (n : N) : tid := match n with 0%N => TV | 1%N => TH | _ => TW end.

(* a pseudo-random schedule prefix derived from the case id *)
Fixpoint lcg_sched (n : nat) (x : N) : list tid :=
  match n with
  | O => []
  | S n' => let x' := ((x * 1103515245 + 12345) mod 2147483648)%N in
            tid_of ((x' / 65536) mod 3)%N :: lcg_sched n' x'
  end.

Definition prios : list (list tid) :=
  [[TV; TH; TW]; [TV; TW; TH]; [TH; TV; TW]; [TH; TW; TV]; [TW; TV; TH]; [TW; TH; TV]].

(* more than the number of effective steps of any execution (HealerProofs.mu) *)
Definition fuel_for (b : build) : nat :=
  8 * (length (b_dirs b) + length (b_links b) + length (b_files b)) + 20.

Definition outcome_of (s : state) : N * tree :=
  (match result s with Some (Ok _) => 0%N | Some (Err _) => 1%N | None => 9%N end, s_fs s).

(* the schedule family: (capacity, priority, length of the pseudo-random prefix) *)
Definition sched_family : list (nat * list tid * nat) :=
  flat_map (fun cap => map (fun prio => (cap, prio, 0)) prios) [1; 1024]
  ++ map (fun prio => (2, prio, 60)) prios
  ++ map (fun prio => (1, prio, 25)) prios.

Definition model_outcome (fx : fixes) (id : N) (T : path) (b : build) (t0 : tree) (sc : nat * list tid * nat) : N * tree :=
  let '(cap, prio, n) := sc in
  outcome_of (finish fx cap b T (fuel_for b) prio (run fx cap b T (lcg_sched n (id + N.of_nat cap)) (init b t0))).

Definition model_outcomes (fx : fixes) (id : N) (T : path) (b : build) (t0 : tree) : list (N * tree) :=
  map (model_outcome fx id T b t0) sched_family.

(* [existsb] that stops at the first hit also under call-by-value evaluation *)
Fixpoint lazy_existsb {A} (f : A -> bool) (l : list A) : bool :=
  match l with
  | [] => false
  | a :: r => if f a then true else lazy_existsb f r
  end.

(* Go's outcome must be the model's outcome under some schedule of the family *)
Definition outcome_in (fx : fixes) (id : N) (T : path) (b : build) (t0 : tree) (o : N * tree) : bool :=
  lazy_existsb (fun sc => let m := model_outcome fx id T b t0 sc in if N.eqb (fst m) (fst o) then tree_eqb (snd m) (snd o) else false) sched_family.

Definition heal_agrees (fx : fixes) (c : heal_case) : bool :=
  let '(id, T, rb, rt0, outs) := c in
  let b := of_rbuild rb in
  let t0 := of_rtree rt0 in
  wf_build b && wf_tree t0 &&
  forallb (fun o => outcome_in fx id T b t0 (fst o, of_rtree (snd o))) outs.

Definition mismatches_heal (cs : list heal_case) : list N :=
  map (fun c => let '(id, _, _, _, _) := c in id) (filter (fun c => negb (heal_agrees fixed c)) cs).
