(** Executable instantiation of the C02 model and the comparator used by generated case files.
    Nothing here is used by a theorem. *)
From Wharf Require Import Base.Prelude Bowl.FSmini Bowl.OverlayCommit.
Local Open Scope N_scope.

Inductive rnode := RF (r : list (N * N)) | RD | RL (d : N).
Inductive rop := RSkip (n : N) | RFresh (r : list (N * N)).

Definition node_of (n : rnode) : node :=
  match n with RF r => File (expand r) | RD => Dir | RL d => Link d end.
Definition tree_of_r (l : list (path * rnode)) : fs := map (fun e => (fst e, node_of (snd e))) l.
Definition op_of (o : rop) : ovop := match o with RSkip n => Skip n | RFresh r => Fresh (expand r) end.

(** ghost order of the executable model: deepest first (stable); Go sorts by decreasing string
    length; both visit a path before its proper prefixes, which is all the theorem needs *)
Fixpoint insert_ghost (g : ghost) (l : list ghost) : list ghost :=
  match l with
  | [] => [g]
  | h :: r => if Nat.ltb (length (snd h)) (length (snd g)) then g :: h :: r else h :: insert_ghost g r
  end.
Definition sort_ghosts (l : list ghost) : list ghost := fold_right insert_ghost [] l.

Definition commit_case :=
  (N * list (path * rnode) * (list path * list path * list path) * (list path * list (path * N) * list path)
   * list (path * path) * list (path * list rop) * list (path * list (N * N)) * (N * list (path * rnode)))%type.

Definition run_commit (c : commit_case) (rev1 rev2 : bool) : res fs :=
  let '(_, old, (odirs, olinks, ofiles), (ndirs, nlinks, nfiles), tr, ov, mv, _) := c in
  let oc := mkC odirs (map (fun p => (p, 0)) olinks) ofiles in
  let nc := mkC ndirs nlinks nfiles in
  let w := mkW tr (map fst ov) (map fst mv) in
  let st := map (fun e => (fst e, SOverlay (map op_of (snd e)))) ov ++ map (fun e => (fst e, SWhole (expand (snd e)))) mv in
  let ks := keys (group_by tr) in
  let o1 := if rev1 then rev ks else ks in
  let o2 := if rev2 then rev ks else ks in
  commit oc nc w st o1 o2 (sort_ghosts (detect_ghosts nc oc)) (tree_of_r old).

Definition agrees (cls : N) (final : fs) (r : res fs) : bool :=
  match r with
  | Ok t => N.eqb cls 0 && fs_eqb t final
  | Err _ => N.eqb cls 1
  | Unmodelled => true
  end.

(** nested [if]s: the virtual machine is call-by-value, later orders are evaluated only when the
    earlier ones disagree *)
Definition case_ok (c : commit_case) : bool :=
  let '(_, _, _, _, _, _, _, (cls, final)) := c in
  let f := tree_of_r final in
  if agrees cls f (run_commit c false false) then true
  else if agrees cls f (run_commit c true true) then true
  else if agrees cls f (run_commit c true false) then true
  else agrees cls f (run_commit c false true).

Definition mismatches_commit (cs : list commit_case) : list N :=
  map (fun c => let '(id, _, _, _, _, _, _, _) := c in id) (filter (fun c => negb (case_ok c)) cs).

(* ---- patch phase bookkeeping: the bowl calls of the patcher vs the work lists of Save() ---- *)
Inductive lstep := LT (p k : path) | LW (p : path).

Definition lists_case := (N * list path * list lstep * (list (path * path) * list path * list path))%type.

Definition run_lists (ofiles : list path) (steps : list lstep) : work :=
  wk (patch_phase (fun _ n => [Fresh n]) (mkC [] [] ofiles)
        (map (fun s => match s with LT p k => PTranspose p k | LW p => PWrite p (fun _ => []) end) steps)
        (mkWorld [] [] (mkW [] [] []))).

Definition pair_eqb (a b : path * path) : bool := path_eqb (fst a) (fst b) && path_eqb (snd a) (snd b).

Definition lists_ok (c : lists_case) : bool :=
  let '(_, ofiles, steps, (tr, ov, mv)) := c in
  let w := run_lists ofiles steps in
  list_eqb pair_eqb (w_trans w) tr && list_eqb path_eqb (w_over w) ov && list_eqb path_eqb (w_moves w) mv.

Definition mismatches_lists (cs : list lists_case) : list N :=
  map (fun c => let '(id, _, _, _) := c in id) (filter (fun c => negb (lists_ok c)) cs).

(* ---- the filesystem model against the real filesystem ---- *)
Inductive fsop :=
  | FLstat (p : path) | FReadlink (p : path) | FRemove (p : path) | FRemoveAll (p : path) | FMkdirAll (p : path)
  | FSymlink (d : N) (p : path) | FRename (p q : path) | FRead (p : path) | FCreate (p : path) (c : list N).

Inductive fsobs := ONone | OKind (k : N) | ODest (d : N) | OData (c : list N).

Definition fsobs_eqb (a b : fsobs) : bool :=
  match a, b with
  | ONone, ONone => true
  | OKind x, OKind y => N.eqb x y
  | ODest x, ODest y => N.eqb x y
  | OData x, OData y => nlist_eqb x y
  | _, _ => false
  end.

Definition errno_code (e : errno) : N :=
  match e with ENOENT => 1 | ENOTDIR => 2 | EISDIR => 3 | ENOTEMPTY => 4 | EEXIST => 5 | EINVAL => 6 end.

(** result of one operation: None = the model declines; otherwise (code, observation, new tree) *)
Definition fs_step (t : fs) (o : fsop) : option (N * fsobs * fs) :=
  let lift (r : res fs) := match r with Ok t' => Some (0, ONone, t') | Err e => Some (errno_code e, ONone, t) | Unmodelled => None end in
  match o with
  | FLstat p => match lstat t p with
                | Ok n => Some (0, OKind (match n with File _ => 0 | Dir => 1 | Link _ => 2 end), t)
                | Err e => Some (errno_code e, ONone, t) | Unmodelled => None end
  | FReadlink p => match readlink t p with
                   | Ok d => Some (0, ODest d, t) | Err e => Some (errno_code e, ONone, t) | Unmodelled => None end
  | FRemove p => lift (remove t p)
  | FRemoveAll p => lift (remove_all t p)
  | FMkdirAll p => lift (mkdir_all t p)
  | FSymlink d p => lift (symlink t d p)
  | FRename p q => match rename t p q with
                   | Ok t' => Some (0, ONone, t') | Err _ => Some (9, ONone, t) | Unmodelled => None end
  | FRead p => match read_file t p with
               | Ok c => Some (0, OData c, t) | Err e => Some (errno_code e, ONone, t) | Unmodelled => None end
  | FCreate p c => lift (create_trunc t p c)
  end.

Fixpoint fs_run (t : fs) (ops : list fsop) (obs : list (N * fsobs)) : option (bool * fs) :=
  match ops, obs with
  | [], [] => Some (true, t)
  | o :: ops', (code, ob) :: obs' =>
      match fs_step t o with
      | None => None
      | Some (c, b, t') => if N.eqb c code && fsobs_eqb b ob then fs_run t' ops' obs' else Some (false, t')
      end
  | _, _ => Some (false, t)
  end.

Definition fsops_case := (N * list (path * rnode) * list fsop * list (N * fsobs) * list (path * rnode))%type.

Definition fsops_ok (c : fsops_case) : bool :=
  let '(_, t0, ops, obs, final) := c in
  match fs_run (tree_of_r t0) ops obs with
  | None => true
  | Some (false, _) => false
  | Some (true, t) => fs_eqb t (tree_of_r final)
  end.

Definition mismatches_fsops (cs : list fsops_case) : list N :=
  map (fun c => let '(id, _, _, _, _) := c in id) (filter (fun c => negb (fsops_ok c)) cs).
