(** Exhaustive sweep of the C14 theorem statement in the model alone, at tiny parameters where
    every window-boundary case is reachable with a handful of bytes: for every new content
    over {0,1} of length <= n, every old content 0^m (m <= n+2; only the positions where old
    and new agree matter), every partition of the new content into Write calls, with and
    without a Flush after every write, and every split of the writes into two sessions with
    stale bytes (a well-formed end marker among them) after the saved overlay offset:
    patch + truncate gives the new content and no loop runs out of fuel.  Definitions only;
    evaluated in Overlay/SweepProofs.v. *)
From Wharf Require Import Base.Prelude Overlay.Writer Overlay.Patch Overlay.Codec.
Local Open Scope N_scope.

Fixpoint all_bits (n : nat) : list (list N) :=
  match n with
  | O => [[]]
  | S k => flat_map (fun l => [0 :: l; 1 :: l]) (all_bits k)
  end.

(** all ways of cutting [l] into consecutive non-empty pieces *)
Fixpoint compositions (l : list N) : list (list (list N)) :=
  match l with
  | [] => [[]]
  | x :: r =>
      flat_map (fun c => match c with
                         | [] => [[[x]]]
                         | h :: t => [(x :: h) :: t; [x] :: h :: t]
                         end) (compositions r)
  end.

Definition events_for (ws : list (list N)) (flush : bool) : list event :=
  flat_map (fun w => EvWrite w :: if flush then [EvFlush] else []) ws.

Definition result_is (r : presult) (want : list N) : bool :=
  match r with POk f => nlist_eqb f want | _ => false end.

Definition check_one (bs thr : N) (old : list N) (ws : list (list N)) (flush : bool) : bool :=
  let st := finalize bs thr enc (run_events bs thr enc (new_writer enc magic old 0 0) (events_for ws flush)) in
  negb (w_fail st) && result_is (patch dec magic old (write_at [] 0 (session_bytes st))) (concat ws).

(** end marker, a stray byte, an empty message *)
Definition stale_bytes : list N := [3; 8; 248; 15; 77; 0].

Definition check_split (bs thr : N) (old : list N) (ws : list (list N)) (k : nat) (flush : bool) : bool :=
  let '(f, fail, _) :=
    run_sessions bs thr enc magic old [] 0 0 [(events_for (firstn k ws) flush, stale_bytes)] (events_for (skipn k ws) flush) in
  negb fail && result_is (patch dec magic old f) (concat ws).

Definition check_new (bs thr : N) (n : nat) (new : list N) : bool :=
  forallb (fun m =>
    let old := repeat 0 m in
    forallb (fun ws =>
      check_one bs thr old ws false && check_one bs thr old ws true
      && forallb (fun k => check_split bs thr old ws k (Nat.even k)) (seq 0 (S (length ws))))
      (compositions new))
    (seq 0 (n + 3)).

Definition sweep (bs thr : N) (n : nat) : bool :=
  forallb (fun len => forallb (check_new bs thr len) (all_bits len)) (seq 0 (S n)).
