(** Executable instantiation of the C12 models and the comparators used by generated case
    files.  Search oracle := the naive partitioned suffix array of Bsdiff/Suffix.v (group bsd)
    or the tabulated answers shipped with the case (group bsdt); cache := simplelru as a
    recency list.  Nothing here is used by a theorem. *)
From Wharf Require Import Base.Prelude Bsdiff.Scan Bsdiff.Patch Bsdiff.Lru Bsdiff.Suffix.
Local Open Scope Z_scope.

Definition GO_BLOCK : Z := 131072.

Definition ctrl_eqb (a b : ctrl) : bool :=
  let '(a1, c1, s1, e1) := a in
  let '(a2, c2, s2, e2) := b in
  nlist_eqb a1 a2 && nlist_eqb c1 c2 && (s1 =? s2) && Bool.eqb e1 e2.

(** observed class: 0 ok, 1 panic, 2 error, 3 hang *)
Definition do_agrees (m : res (list ctrl)) (obs : N * list ctrl) : bool :=
  let '(code, cs) := obs in
  match m with
  | Ok l => (code =? 0)%N && list_eqb ctrl_eqb l cs
  | Panic _ => (code =? 1)%N
  | OutOfFuel => false
  end.

(** Case files are written for an open Z_scope with Z literals only, without pairs or scope
    delimiters (elaborating those dominates the cost of a case file): byte strings arrive as
    [list Z], records as applications of the monomorphic constructors below. *)
Definition bz (l : list Z) : list N := map Z.to_N l.
Inductive ctrlz := mkc (add copy : list Z) (seek : Z) (eof : bool).
Definition ctrl_of (c : ctrlz) : ctrl := let '(mkc a c s e) := c in (bz a, bz c, s, e).

(* ---- differ, in-Coq suffix array ---- *)
Inductive bsd_case := Bsd (id : N) (partitions : Z) (old new : list Z) (code : Z) (cs : list ctrlz).

Definition run_bsd (partitions : Z) (old new : list N) : res (list ctrl) :=
  let parts := new_psa (norm_partitions partitions (len old)) old in
  bsdiff_do GO_BLOCK (fun _ suf => psa_search parts suf) partitions old new.

Definition mismatches_bsd (cs : list bsd_case) : list N :=
  map (fun c => let '(Bsd id _ _ _ _ _) := c in id)
      (filter (fun c => let '(Bsd _ p o n code ct) := c in
                        negb (do_agrees (run_bsd p (bz o) (bz n)) (Z.to_N code, map ctrl_of ct))) cs).

(* ---- differ, tabulated search ---- *)
(** a row of the table = pos0; len0; pos1; len1; ... for the suffixes of one scan block *)
Inductive bsdt_case := Bsdt (id : N) (partitions : Z) (old new : list Z) (table : list (list Z)) (code : Z) (cs : list ctrlz).

Fixpoint unflatten (l : list Z) : list (Z * Z) :=
  match l with
  | a :: b :: r => (a, b) :: unflatten r
  | _ => []
  end.

Definition table_search (table : list (list (Z * Z))) (bi : N) (suf : list N) : Z * Z :=
  let row := nth (N.to_nat bi) table [] in
  nth (length row - length suf) row (0, 0).

Fixpoint row_in_range (oldlen : Z) (row : list (Z * Z)) : bool :=
  match row with
  | [] => true
  | (pos, n) :: r => (0 <=? pos) && (pos <=? oldlen) && (0 <=? n) && (n <=? len row) && row_in_range oldlen r
  end.

Definition run_bsdt (partitions : Z) (old new : list N) (table : list (list (Z * Z))) : res (list ctrl) :=
  bsdiff_do GO_BLOCK (table_search table) partitions old new.

Definition mismatches_bsdt (cs : list bsdt_case) : list N :=
  map (fun c => let '(Bsdt id _ _ _ _ _ _) := c in id)
      (filter (fun c => let '(Bsdt _ p o n t code ct) := c in
                        let t := map unflatten t in
                        negb (forallb (row_in_range (len o)) t
                              && do_agrees (run_bsdt p (bz o) (bz n) t) (Z.to_N code, map ctrl_of ct))) cs).

(* ---- patcher ---- *)
Inductive pat_case := Pat (id : N) (old : list Z) (cs : list ctrlz) (newSize k pcode : Z) (pout : list Z) (rcode saved : Z) (rout : list Z).

Definition pat_agrees (old : list N) (cs : list ctrl) (newSize : Z) (k : nat) (pc : Z) (pout : list N) (rc saved : Z) (rout : list N) : bool :=
  (match bspatch old cs newSize with
   | Some o => (pc =? 0) && nlist_eqb o pout
   | None => (pc =? 2)
   end) &&
  (match resume old k cs with
   | Some (_, sv, o2) => (rc =? 0) && (sv =? saved) && nlist_eqb o2 rout
   | None => (rc =? 2)
   end).

Definition mismatches_pat (cs : list pat_case) : list N :=
  map (fun c => let '(Pat id _ _ _ _ _ _ _ _ _) := c in id)
      (filter (fun c => let '(Pat _ o ct sz k pc po rc sv ro) := c in
                        negb (pat_agrees (bz o) (map ctrl_of ct) sz (Z.to_nat k) pc (bz po) rc sv (bz ro))) cs).

(* ---- lrufile ---- *)
Inductive zresult := ZRead (data : list Z) (st : Z) | ZSeek (pos st : Z).
Definition lresult_of (r : zresult) : lresult :=
  match r with
  | ZRead d st => RRead (bz d) (Z.to_N st)
  | ZSeek p st => RSeek p (Z.to_N st)
  end.
Inductive lru_case := Lru (id : N) (chunk entries : Z) (file : list Z) (ops : list lop) (code : Z) (rs : list zresult) (loads : list Z).

Definition lresult_eqb (a b : lresult) : bool :=
  match a, b with
  | RRead d1 s1, RRead d2 s2 => nlist_eqb d1 d2 && (s1 =? s2)%N
  | RSeek p1 s1, RSeek p2 s2 => (p1 =? p2) && (s1 =? s2)%N
  | _, _ => false
  end.

Definition lru_agrees (chunk : Z) (entries : nat) (file : list N) (ops : list lop) (code : Z) (rs : list lresult) (loads : list Z) : bool :=
  match run_lru chunk entries file ops with
  | Some (mrs, mloads) =>
      (code =? 0) && list_eqb lresult_eqb mrs rs && list_eqb Z.eqb mloads loads
      (* and the plain reader says the same: the theorem, observed *)
      && list_eqb lresult_eqb (run_plain file ops) rs
  | None => (code =? 1)
  end.

Definition mismatches_lru (cs : list lru_case) : list N :=
  map (fun c => let '(Lru id _ _ _ _ _ _ _) := c in id)
      (filter (fun c => let '(Lru _ ch en f ops code rs loads) := c in
                        negb (lru_agrees ch (Z.to_nat en) (bz f) ops code (map lresult_of rs) loads)) cs).
