(** Executable instantiation of the C10 model (block size 64 KiB, the tree after the fix:
    commits) and the comparators used by the generated case files.  Nothing here is used by a
    theorem. *)
From Wharf Require Import Base.Prelude Patch.Malformed.
Local Open Scope Z_scope.

Inductive cls := COk | CErr | CPanic | CHang.

Definition cls_of (r : res) : cls :=
  match r with Ok => COk | Err => CErr | Panic _ => CPanic | Hang => CHang end.
Definition cls_eqb (a b : cls) : bool :=
  match a, b with COk, COk | CErr, CErr | CPanic, CPanic | CHang, CHang => true | _, _ => false end.

(* typed constructors for the generated case files (a literal of nested pairs is much slower to
   elaborate than an application of a function with declared argument types) *)
Definition fv (n v : Z) : field := (n, V v).
Definition fl (n l : Z) : field := (n, L l).
Definition fx (n : Z) : field := (n, X).

Definition BS : Z := 65536.
Definition FX : bool := true.

(* patcher.New + Resume(nil): old sizes, new sizes, whitelist, seek limit of the file system, frames *)
Definition pat_case := (N * list Z * list Z * option (list Z) * Z * list frame * cls)%type.
Definition mkpat (id : N) (tgt src : list Z) (wl : option (list Z)) (maxoff : Z) (s : list frame) (o : cls) : pat_case :=
  (id, tgt, src, wl, maxoff, s, o).
Definition run_pat (tgt src : list Z) (wl : option (list Z)) (maxoff : Z) (s : stream) : cls :=
  cls_of (patcher (S (length s)) FX BS maxoff tgt src wl s).
Definition mismatches_pat (cs : list pat_case) : list N :=
  map (fun c => let '(id, _, _, _, _, _, _) := c in id)
      (filter (fun c => let '(_, tgt, src, wl, maxoff, s, o) := c in negb (cls_eqb (run_pat tgt src wl maxoff s) o)) cs).

(* rediff.NewContext + Optimize *)
Definition red_case := (N * list Z * list Z * list frame * cls)%type.
Definition mkred (id : N) (tgt src : list Z) (s : list frame) (o : cls) : red_case := (id, tgt, src, s, o).
Definition run_red (tgt src : list Z) (s : stream) : cls := cls_of (rediff (S (length s)) FX tgt src s).
Definition mismatches_red (cs : list red_case) : list N :=
  map (fun c => let '(id, _, _, _, _) := c in id)
      (filter (fun c => let '(_, tgt, src, s, o) := c in negb (cls_eqb (run_red tgt src s) o)) cs).

(* pwr.ReadSignature + ComputeHashInfo *)
Definition sig_case := (N * list Z * list frame * cls)%type.
Definition mksig (id : N) (sizes : list Z) (s : list frame) (o : cls) : sig_case := (id, sizes, s, o).
Definition run_sig (sizes : list Z) (s : stream) : cls := cls_of (signature FX BS (fun n => n) sizes s).
Definition mismatches_sig (cs : list sig_case) : list N :=
  map (fun c => let '(id, _, _, _) := c in id)
      (filter (fun c => let '(_, sizes, s, o) := c in negb (cls_eqb (run_sig sizes s) o)) cs).

(* overlay Patch on a file opened at offset 0 *)
Definition ovl_case := (N * Z * Z * list frame * cls)%type.
Definition mkovl (id : N) (seekmax writemax : Z) (s : list frame) (o : cls) : ovl_case := (id, seekmax, writemax, s, o).
Definition run_ovl (seekmax writemax : Z) (s : stream) : cls := cls_of (overlay_patch (S (length s)) seekmax writemax 0 s).
Definition mismatches_ovl (cs : list ovl_case) : list N :=
  map (fun c => let '(id, _, _, _, _) := c in id)
      (filter (fun c => let '(_, sm, wm, s, o) := c in negb (cls_eqb (run_ovl sm wm s) o)) cs).
