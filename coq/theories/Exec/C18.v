(** Executable instantiation of the C18 models and the comparators used by generated case
    files.  Strong hash := the block itself.  Nothing here is used by a theorem. *)
From Wharf Require Import Base.Prelude Val.Drip Val.VPool.

Fixpoint split_by (sizes : list N) (data : list N) : list (list N) :=
  match sizes with
  | [] => []
  | n :: r => firstn (N.to_nat n) data :: split_by r (skipn (N.to_nat n) data)
  end.

Definition ll_eqb (a b : list (list N)) : bool := list_eqb nlist_eqb a b.

(* ---- drip ---- *)
Definition drip_case := (N * nat * option nat * list (list N) * (outcome * nat * list (list N)))%type.

Definition drip_validate (failAt : option nat) (idx : nat) (_ : list N) : nat * bool :=
  (S idx, match failAt with Some f => negb (Nat.eqb idx f) | None => true end).

Definition run_drip (bs : nat) (failAt : option nat) (ws : list (list N)) : outcome * nat * list (list N) :=
  let '(w, o, k) := session bs (drip_validate failAt) O ws in (o, k, dsink w).

Definition obs3_eqb (a b : outcome * nat * list (list N)) : bool :=
  let '(o1, k1, s1) := a in let '(o2, k2, s2) := b in
  outcome_eqb o1 o2 && Nat.eqb k1 k2 && ll_eqb s1 s2.

Definition mismatches_drip (cs : list drip_case) : list N :=
  map (fun c => let '(id, _, _, _, _) := c in id)
      (filter (fun c => let '(_, bs, fa, ws, obs) := c in negb (obs3_eqb (run_drip bs fa ws) obs)) cs).

(* ---- validating pool ---- *)
Definition BS : Z := 65536%Z.

Definition group_of (signed : list N) : list (list N) :=
  match signed with [] => [] | _ => blocks (Z.to_nat BS) signed end.

Definition vperr_case := (N * list (N * N) * list (N * N) * list N * (outcome * nat * list (list (N * N))))%type.

Definition run_vperr (signed written : list N) (sizes : list N) :=
  vpool_error BS (fun b => b) nlist_eqb (group_of signed) (split_by sizes written).

Definition mismatches_vperr (cs : list vperr_case) : list N :=
  map (fun c => let '(id, _, _, _, _) := c in id)
      (filter (fun c => let '(_, s, w, sz, obs) := c in
                        let '(o, k, sk) := obs in
                        negb (obs3_eqb (run_vperr (expand s) (expand w) sz) (o, k, map expand sk))) cs).

Definition vpwnd_case := (N * Z * list (N * N) * list (N * N) * list N * option Z * list wound)%type.

Definition run_vpwnd (fileIndex : Z) (signed written : list N) (sizes : list N) (agg : option Z) : list wound :=
  let raw := vpool_wounds BS (fun b => b) nlist_eqb fileIndex (Z.of_nat (length signed)) (group_of signed) (split_by sizes written) in
  match agg with
  | None => raw
  | Some m => aggregate m None raw
  end.

Definition mismatches_vpwnd (cs : list vpwnd_case) : list N :=
  map (fun c => let '(id, _, _, _, _, _, _) := c in id)
      (filter (fun c => let '(_, fi, s, w, sz, agg, obs) := c in
                        negb (list_eqb wound_eqb (run_vpwnd fi (expand s) (expand w) sz agg) obs)) cs).
