(** Comparator for the generated case files of C07: the mapping rediff chose for every new
    file must be one the selection rule of the model allows (Patch/Rediff.v), and the optimized
    patch must carry a bsdiff series exactly for the mapped files.  Nothing here is used by a
    theorem. *)
From Wharf Require Import Base.Prelude Val.Drip Val.VPool Patch.Rediff.
Local Open Scope Z_scope.

Definition C07_BS : Z := 65536.

(** (id, old file sizes, new files (size, index of the old file of the same path, ops),
     ForceMapAll, size limit, observed mapping per new file (target, bytes), observed series
     kind per new file of the optimized patch (bsdiff target) when the optimizer returned) *)
Definition rediff_case :=
  (N * list Z * list (Z * option Z * list sop) * bool * Z * list (option (Z * Z)) * option (list (option Z)))%type.

Definition omap_eqb (a b : option (Z * Z)) : bool :=
  match a, b with
  | None, None => true
  | Some (i, x), Some (j, y) => (i =? j) && (x =? y)
  | _, _ => false
  end.

Definition oz_eqb (a b : option Z) : bool :=
  match a, b with None, None => true | Some x, Some y => x =? y | _, _ => false end.

Fixpoint mappings_ok (force : bool) (limit : Z) (tsizes : list Z) (srcs : list (Z * option Z * list sop)) (obs : list (option (Z * Z))) : bool :=
  match srcs, obs with
  | [], [] => true
  | (ssize, sp, ops) :: r, o :: ro =>
    match analyze_allowed C07_BS force limit tsizes ssize sp ops with
    | Some allowed => existsb (omap_eqb o) allowed && mappings_ok force limit tsizes r ro
    | None => false
    end
  | _, _ => false
  end.

Definition series_ok (obs : list (option (Z * Z))) (ser : option (list (option Z))) : bool :=
  match ser with
  | None => true
  | Some ks => list_eqb oz_eqb ks (map (option_map fst) obs)
  end.

Definition mismatches_rediff (cs : list rediff_case) : list N :=
  map (fun cse => let '(id, _, _, _, _, _, _) := cse in id)
      (filter (fun cse => let '(_, tsizes, srcs, force, limit, obs, ser) := cse in
                 negb (mappings_ok force limit tsizes srcs obs && series_ok obs ser)) cs).
