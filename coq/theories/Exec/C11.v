(** Executable instantiation of the wsync models for the C11 correspondence: strong hash := the
    block itself.  Comparators used by the generated case files.
    Nothing here is used by a theorem. *)
From Wharf Require Import Base.Prelude Wsync.Weak Wsync.Diff Wsync.Library Wsync.Sign Wsync.Apply Wsync.Spec.
Local Open Scope N_scope.

Definition MaxDataOp : N := 4194304.      (* wsync.MaxDataOp *)

(** operations as the Go harness prints them *)
Inductive xop := XR (f i sp : N) | XD (d : list N).

(** the function the C11 theorems are about ([Wsync/Spec.v]), with the block as its own hash *)
Definition model_ops (bs maxData : N) (olds : list (list N)) (src : list N) (pref : option N) : option (list op) :=
  diff_ops (fun b : list N => b) nlist_eqb bs maxData olds src pref.

Definition concretize (src : list N) (o : op) : xop :=
  match conc src o with
  | CRange f i sp => XR f i sp
  | CData d => XD d
  end.

Definition xop_eqb (a b : xop) : bool :=
  match a, b with
  | XR f i s, XR f' i' s' => (f =? f') && (i =? i') && (s =? s')
  | XD d, XD d' => nlist_eqb d d'
  | _, _ => false
  end.

Definition run_ops (bs : N) (olds : list (list N)) (src : list N) (pref : option N) : option (list xop) :=
  option_map (map (concretize src)) (model_ops bs MaxDataOp olds src pref).

Definition ops_case := (N * N * list (list N) * list N * option N * list xop)%type.

(** the fast instantiation (below) must agree on the small cases too *)
Definition xop_shape (o : xop) : N * N * N * N :=
  match o with XR f i sp => (0, f, i, sp) | XD d => (1, N.of_nat (length d), 0, 0) end.

(** ** a fast instantiation for the real constants: run-length encoded inputs, the source is
    read through a balanced tree over its runs, the strong hash of a block / window is its
    canonical run-length encoding (injective).  The same [compute_diff], [lookup_in], [sign_all]. *)
Inductive rtree := RLeaf | RNode (l : rtree) (start cnt v : N) (r : rtree).

Fixpoint with_starts (runs : list (N * N)) (at_ : N) : list (N * N * N) :=
  match runs with
  | [] => []
  | (v, c) :: r => (at_, c, v) :: with_starts r (at_ + c)
  end.

Fixpoint tbuild (fuel n : nat) (runs : list (N * N * N)) : rtree * list (N * N * N) :=
  match fuel with
  | O => (RLeaf, runs)
  | S f =>
      if Nat.eqb n 0 then (RLeaf, runs)
      else
        let nl := Nat.div2 n in
        let '(l, rest) := tbuild f nl runs in
        match rest with
        | [] => (l, [])
        | (s, c, v) :: rest' =>
            let '(r, rest'') := tbuild f (n - nl - 1) rest' in
            (RNode l s c v r, rest'')
        end
  end.

Fixpoint tget (t : rtree) (i : N) : N :=
  match t with
  | RLeaf => 0
  | RNode l s c v r => if i <? s then tget l i else if i <? s + c then v else tget r i
  end.

Definition rle_len (runs : list (N * N)) : N := fold_left (fun a vc => a + snd vc) runs 0.

Fixpoint rle_drop (runs : list (N * N)) (a : N) : list (N * N) :=
  match runs with
  | [] => []
  | (v, c) :: r => if a <? c then (v, c - a) :: r else rle_drop r (a - c)
  end.

Fixpoint rle_take (runs : list (N * N)) (l : N) : list (N * N) :=
  match runs with
  | [] => []
  | (v, c) :: r => if l =? 0 then [] else if l <=? c then [(v, l)] else (v, c) :: rle_take r (l - c)
  end.

(** canonical run-length encoding of a list *)
Fixpoint to_rle (l : list N) : list (N * N) :=
  match l with
  | [] => []
  | x :: r => match to_rle r with
              | (v, c) :: t => if x =? v then (v, c + 1) :: t else (x, 1) :: (v, c) :: t
              | [] => [(x, 1)]
              end
  end.

Definition rle_eqb (a b : list (N * N)) : bool :=
  list_eqb (fun x y => (fst x =? fst y) && (snd x =? snd y)) a b.

Definition fast_ops (bs maxData : N) (olds : list (list (N * N))) (src : list (N * N)) (pref : option N) : option (list op) :=
  let lib := sign_all to_rle bs 0 (map expand olds) in
  let runs := with_starts src 0 in
  let t := fst (tbuild (S (length runs)) (length runs) runs) in
  compute_diff bs maxData (tget t) (rle_len src)
    (lookup_in rle_eqb lib pref (fun a l => rle_take (rle_drop src a) l)).

(** observed operations of a real-constant case: data ops by their length *)
Inductive yop := YR (f i sp : N) | YD (len : N).

Definition yop_of (o : op) : yop := match o with OpRange f i sp => YR f i sp | OpData _ l => YD l end.

Definition yop_eqb (a b : yop) : bool :=
  match a, b with
  | YR f i s, YR f' i' s' => (f =? f') && (i =? i') && (s =? s')
  | YD l, YD l' => l =? l'
  | _, _ => false
  end.

Definition big_case := (N * N * list (list (N * N)) * list (N * N) * option N * list yop)%type.

Definition mismatches_big (cs : list big_case) : list N :=
  map (fun c => let '(id, _, _, _, _, _) := c in id)
      (filter (fun c => let '(_, bs, olds, src, pref, obs) := c in
                        match fast_ops bs MaxDataOp olds src pref with
                        | Some ops => negb (list_eqb yop_eqb (map yop_of ops) obs)
                        | None => true
                        end) cs).

Definition yop_shape (o : yop) : N * N * N * N :=
  match o with YR f i sp => (0, f, i, sp) | YD l => (1, l, 0, 0) end.

Definition shape_eqb (a b : N * N * N * N) : bool :=
  let '(a1, a2, a3, a4) := a in let '(b1, b2, b3, b4) := b in (a1 =? b1) && (a2 =? b2) && (a3 =? b3) && (a4 =? b4).

Definition mismatches_ops (cs : list ops_case) : list N :=
  map (fun c => let '(id, _, _, _, _, _) := c in id)
      (filter (fun c => let '(_, bs, olds, src, pref, obs) := c in
                        match run_ops bs olds src pref, fast_ops bs MaxDataOp (map to_rle olds) (to_rle src) pref with
                        | Some ops, Some fops =>
                            negb (list_eqb xop_eqb ops obs) ||
                            negb (list_eqb shape_eqb (map yop_shape (map yop_of fops)) (map xop_shape obs))
                        | _, _ => true
                        end) cs).

(** replay of arbitrary operation lists *)
Definition to_cop (o : xop) : cop := match o with XR f i sp => CRange f i sp | XD d => CData d end.

Definition apply_case := (N * N * list (list N) * list xop * option (list N))%type.

Definition opt_eqb (a b : option (list N)) : bool :=
  match a, b with
  | Some x, Some y => nlist_eqb x y
  | None, None => true
  | _, _ => false
  end.

Definition mismatches_apply (cs : list apply_case) : list N :=
  map (fun c => let '(id, _, _, _, _) := c in id)
      (filter (fun c => let '(_, bs, olds, ops, obs) := c in
                        negb (opt_eqb (apply_ops bs olds (map to_cop ops)) obs)) cs).

(** the model at tiny parameters: data-op splitting, buffer wrap and the split trailing data
    (the input that produced a 10-byte data op with [maxData = 8] before the repair) *)
Definition iota (n : nat) : list N := map N.of_nat (seq 1 n).

Example small_wrap :
  option_map (map (concretize (iota 23))) (model_ops 4 8 [] (iota 23) None)
  = Some [XD (iota 8); XD [9;10;11;12;13]; XD [14;15;16;17;18;19;20;21]; XD [22;23]].
Proof. vm_compute. reflexivity. Qed.
