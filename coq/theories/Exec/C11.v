(** Executable instantiation of the wsync models for the C11 correspondence: strong hash := the
    block itself.  Comparators used by the generated case files.
    Nothing here is used by a theorem. *)
From Wharf Require Import Base.Prelude Wsync.Weak Wsync.Diff Wsync.Library Wsync.Sign Wsync.Apply Wsync.Spec.
Local Open Scope N_scope.

Definition MaxDataOp : N := 4194304.      (* wsync.MaxDataOp *)

(** operations as the Go harness prints them *)
Inductive xop := XR (f i sp : N) | XD (d : list N).

(** the function the C11 theorems are about ([Wsync/Spec.v]), with the block as its own hash *)
Definition model_ops (bs maxData : N) (olds : list (list N)) (src : list N) (pref : option N) : option (list op) :=
  diff_ops (fun b : list N => b) nlist_eqb bs maxData olds src pref.

Definition concretize (src : list N) (o : op) : xop :=
  match conc src o with
  | CRange f i sp => XR f i sp
  | CData d => XD d
  end.

Definition xop_eqb (a b : xop) : bool :=
  match a, b with
  | XR f i s, XR f' i' s' => (f =? f') && (i =? i') && (s =? s')
  | XD d, XD d' => nlist_eqb d d'
  | _, _ => false
  end.

Definition run_ops (bs : N) (olds : list (list N)) (src : list N) (pref : option N) : option (list xop) :=
  option_map (map (concretize src)) (model_ops bs MaxDataOp olds src pref).

Definition ops_case := (N * N * list (list N) * list N * option N * list xop)%type.

Definition mismatches_ops (cs : list ops_case) : list N :=
  map (fun c => let '(id, _, _, _, _, _) := c in id)
      (filter (fun c => let '(_, bs, olds, src, pref, obs) := c in
                        match run_ops bs olds src pref with
                        | Some ops => negb (list_eqb xop_eqb ops obs)
                        | None => true
                        end) cs).

(** replay of arbitrary operation lists *)
Definition to_cop (o : xop) : cop := match o with XR f i sp => CRange f i sp | XD d => CData d end.

Definition apply_case := (N * N * list (list N) * list xop * option (list N))%type.

Definition opt_eqb (a b : option (list N)) : bool :=
  match a, b with
  | Some x, Some y => nlist_eqb x y
  | None, None => true
  | _, _ => false
  end.

Definition mismatches_apply (cs : list apply_case) : list N :=
  map (fun c => let '(id, _, _, _, _) := c in id)
      (filter (fun c => let '(_, bs, olds, ops, obs) := c in
                        negb (opt_eqb (apply_ops bs olds (map to_cop ops)) obs)) cs).

(** the model at tiny parameters: data-op splitting, buffer wrap and the split trailing data
    (the input that produced a 10-byte data op with [maxData = 8] before the repair) *)
Definition iota (n : nat) : list N := map N.of_nat (seq 1 n).

Example small_wrap :
  option_map (map (concretize (iota 23))) (model_ops 4 8 [] (iota 23) None)
  = Some [XD (iota 8); XD [9;10;11;12;13]; XD [14;15;16;17;18;19;20;21]; XD [22;23]].
Proof. vm_compute. reflexivity. Qed.
