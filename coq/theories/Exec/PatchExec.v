(** Executable helpers shared by Exec/C01.v and Exec/C17.v: run-length encoded messages,
    builds and trees as printed by the Go harness (harness/lib/patchcodec.go), and boolean
    comparators.  Nothing here is used by a theorem. *)
From Wharf Require Import Base.Prelude Bowl.Fresh Patch.Reinterp Patch.Stream Patch.Patcher.
Local Open Scope Z_scope.

Definition rle := list (N * N).

(** [Prelude.expand] without deep recursion (the VM gets slow when its stack is deep) *)
Definition xexpand (r : rle) : list N :=
  fold_right (fun vc acc => N.iter (snd vc) (cons (fst vc)) acc) [] r.

Inductive rmsg :=
| RSH (ty fi : Z)
| RSO (ty fi bi sp : Z) (d : rle)
| RBH (t : Z)
| RCT (add copy : rle) (seek : Z) (eof : bool).

Definition unr (m : rmsg) : pmsg :=
  match m with
  | RSH ty fi => MSH (mkSH ty fi)
  | RSO ty fi bi sp d => MSO (mkSO ty fi bi sp (xexpand d))
  | RBH t => MBH (mkBH t)
  | RCT a c s e => MCT (mkCT (xexpand a) (xexpand c) s e)
  end.

Inductive rnode := RFile (d : rle) | RDir | RLink (dest : list N).
Definition unode (n : rnode) : node :=
  match n with RFile d => File (xexpand d) | RDir => Dir | RLink d => Link d end.
Definition rbuild := list (path * rnode).
Definition ubuild (b : rbuild) : build := map (fun e => (fst e, unode (snd e))) b.

Definition node_eqb (a b : node) : bool :=
  match a, b with
  | File x, File y => nlist_eqb x y
  | Dir, Dir => true
  | Link x, Link y => nlist_eqb x y
  | _, _ => false
  end.
Definition onode_eqb (a b : option node) : bool :=
  match a, b with
  | Some x, Some y => node_eqb x y
  | None, None => true
  | _, _ => false
  end.

(** same key set, same nodes: every binding of either side is found on the other side *)
Definition tree_eqb (a b : tree) : bool :=
  forallb (fun e => onode_eqb (tlookup a (fst e)) (tlookup b (fst e))) a &&
  forallb (fun e => onode_eqb (tlookup a (fst e)) (tlookup b (fst e))) b.

Definition container_eqb (a b : container) : bool :=
  list_eqb (fun x y => path_eqb (fst x) (fst y) && (snd x =? snd y)) (c_files a) (c_files b) &&
  list_eqb path_eqb (c_dirs a) (c_dirs b) &&
  list_eqb (fun x y => path_eqb (fst x) (fst y) && nlist_eqb (snd x) (snd y)) (c_links a) (c_links b).

Definition frame_eqb (a b : frame) : bool :=
  match a, b with
  | FHeader x y, FHeader x' y' => (x =? x') && (y =? y')
  | FContainer c, FContainer c' => container_eqb c c'
  | FMsg m, FMsg m' => pmsg_eqb m m'
  | _, _ => false
  end.

Definition event_eqb (a b : event) : bool :=
  match a, b with
  | EvWriter i, EvWriter j => i =? j
  | EvTranspose s t, EvTranspose s' t' => (s =? s') && (t =? t')
  | EvSize i, EvSize j => i =? j
  | EvRead i, EvRead j => i =? j
  | _, _ => false
  end.

(** outcome classes as printed by the harness: 0 ok, 1 error, 2 panic *)
Definition class_of {A} (r : res A) : Z := match r with Ok _ => 0 | Err => 1 | Panic => 2 end.

Definition BS : Z := 65536.
