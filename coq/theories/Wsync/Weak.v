(** wsync/hashes.go [βhash] and the rolling update of wsync/algo.go [ComputeDiff], with the
    [uint32] arithmetic of the Go code spelled out ([mod 2^32] after every operation that can
    wrap, then [% _M] with [_M = 1 << 16]).  Model only; lemmas are in [WeakProofs.v]. *)
From Wharf Require Import Base.Prelude.
Local Open Scope N_scope.

Definition M16 : N := 65536.          (* _M *)
Definition W32 : N := 4294967296.     (* 2^32: uint32 wrap-around *)

(** [x mod 2^32] and [x mod 2^16], computed by masking ([N.land_ones]: [N.land a (N.ones n) = a mod 2^n];
    the masks are [N.ones 32] and [N.ones 16]) so that the model runs fast inside Coq *)
Definition u32 (x : N) : N := N.land x 4294967295.
Definition modM (x : N) : N := N.land x 65535.

(** [for i, val := range block { a += uint32(val); b += (uint32(len(block)-1) - uint32(i) + 1) * uint32(val) }]
    ([i < len] inside the loop, so the factor is [len - i] without wrap) *)
Fixpoint bhash_loop (len i : N) (block : list N) (a b : N) : N * N :=
  match block with
  | [] => (a, b)
  | v :: r => bhash_loop len (i + 1) r (u32 (a + v)) (u32 (b + u32 ((len - i) * v)))
  end.

(** [β = (a % _M) + (_M * (b % _M)); β1 = a % _M; β2 = b % _M] *)
Definition bhash (block : list N) : N * N * N :=
  let '(a, b) := bhash_loop (N.of_nat (length block)) 0 block 0 0 in
  (modM a + M16 * modM b, modM a, modM b).

Definition weak_of (block : list N) : N := let '(b, _, _) := bhash block in b.

(** the rolling update:
    [β1 = (β1 - αPop + αPush) % _M; β2 = (β2 - uint32(sum.head-sum.tail)*αPop + β1) % _M; β = β1 + _M*β2]
    all operands are [uint32]: subtraction wraps modulo 2^32 ([x - y] is [u32 (x + 2^32 - y)] for [y < 2^32]) *)
Definition roll (wlen aPop aPush b1 b2 : N) : N * N * N :=
  let b1' := modM (u32 (u32 (b1 + W32 - u32 aPop) + aPush)) in
  let t := u32 (u32 wlen * aPop) in
  let b2' := modM (u32 (u32 (b2 + W32 - t) + b1')) in
  (b1' + M16 * b2', b1', b2').

(** bytes of a source given by an accessor: [window get a n = [get a; ...; get (a+n-1)]] *)
Fixpoint window_aux (get : N -> N) (a : N) (n : nat) : list N :=
  match n with
  | O => []
  | S k => get a :: window_aux get (a + 1) k
  end.
Definition window (get : N -> N) (a len : N) : list N := window_aux get a (N.to_nat len).
