(** The C08 edit-bound statements about [diff_ops] and the FreshBytes counter, assembled from
    [SyncProofs] (loop), [PieceProofs] (pieces, library), [EditProofs] (edits) and [LibraryProofs]. *)
From Wharf Require Import Base.Prelude Wsync.Weak Wsync.Diff Wsync.Apply Wsync.Library Wsync.Sign Wsync.Account Wsync.Spec
     Wsync.EditSpec Wsync.ApplyProofs Wsync.DiffProofs Wsync.LibraryProofs Wsync.SyncProofs Wsync.PieceProofs Wsync.EditProofs.
From Coq Require Import ZifyBool ZifyNat ZifyN.
Local Open Scope N_scope.

(** FreshBytes is the sum of the data lengths *)
Lemma account_fresh_of bs sizes : forall ops r0 f0 r f,
  account bs sizes (r0, f0) (map aop_of ops) = Some (r, f) -> f = (f0 + Z.of_N (fresh_of ops))%Z.
Proof.
  induction ops as [|o rest IH]; intros r0 f0 r f Ha.
  - cbn in Ha. injection Ha as _ <-. cbn. lia.
  - destruct o as [fi i sp|s l]; cbn [map aop_of account account_op] in Ha.
    + destruct (nth_error sizes (N.to_nat fi)); [|discriminate].
      rewrite (IH _ _ _ _ Ha). cbn [fresh_of data_len]. lia.
    + rewrite (IH _ _ _ _ Ha). cbn [fresh_of data_len]. lia.
Qed.

(** the decision procedure for [no_weak_repeat] (used by the examples) is sound *)
Lemma nwr_b_sound bs src : nwr_b bs src = true -> no_weak_repeat bs src.
Proof.
  unfold nwr_b. rewrite forallb_forall. intros Hall p Hp Heq.
  assert (Hin : In (N.to_nat p) (seq 0 (length src))) by (apply in_seq; unfold len in Hp; lia).
  specialize (Hall _ Hin). cbv zeta in Hall. rewrite N2Nat.id in Hall.
  apply negb_true_iff, andb_false_iff in Hall. destruct Hall as [Hc|Hc].
  - apply N.leb_gt in Hc. lia.
  - apply N.eqb_neq in Hc. contradiction.
Qed.

Section C08Edit.
  Variable H : Type.
  Variable shash : list N -> H.
  Variable heqb : H -> H -> bool.
  Variables (bs maxData : N).
  Variable olds : list (list N).
  Variable src : list N.
  Variable pref : option N.
  Hypothesis bs_pos : 0 < bs.
  Hypothesis max_pos : 0 < maxData.
  Hypothesis bs_u32 : bs < W32.
  Hypothesis heqb_spec : forall x y, heqb x y = true <-> x = y.
  Hypothesis Hinj : strong_injective shash bs olds src.
  Hypothesis Hbytes : Forall (fun x => x < W32) src.

  Let lookup := lookup_in heqb (sign_all shash bs 0 olds) pref (fun a l => shash (sub src a l)).

  Lemma lookup_sound_here : lookup_sound bs olds src lookup.
  Proof. apply lookup_in_sound; [assumption| |assumption]. intros x y. apply heqb_spec. Qed.

  Lemma hash_invariant_all_along_lemma (n : N) :
    let s := N.iter n (step bs maxData (get_of src) (len src) lookup) init in
    lastRun s = false ->
    (rolling s = true ->
       1 <= base s + sumTail s /\
       (beta s, beta1 s, beta2 s) = bhash (window (get_of src) (base s + sumTail s - 1) bs) /\
       aPop s = get_of src (base s + sumTail s - 1)) /\
    (lastRun (refill bs maxData (len src) s) = false ->
       beta (step bs maxData (get_of src) (len src) lookup s) = weak_of (sub src (base s + sumTail s) bs)).
  Proof.
    intros s Hl. split.
    - exact (hash_inv_loop bs maxData olds src lookup bs_pos max_pos bs_u32 Hbytes lookup_sound_here n Hl).
    - exact (hash_after_iter bs maxData olds src lookup bs_pos max_pos bs_u32 Hbytes lookup_sound_here n Hl).
  Qed.

  Lemma no_missed_match_lemma (n : N) :
    let s := N.iter n (step bs maxData (get_of src) (len src) lookup) init in
    let p := base s + sumTail s in
    lastRun s = false -> lastRun (refill bs maxData (len src) s) = false ->
    old_block_at bs olds src p -> not_skipped bs src p ->
    exists f i e,
      em (step bs maxData (get_of src) (len src) lookup s) = enqueue e (OpRange f i 1) /\
      base (step bs maxData (get_of src) (len src) lookup s) + sumTail (step bs maxData (get_of src) (len src) lookup s) = p + bs /\
      exists old, nth_error olds (N.to_nat f) = Some old /\ bs * i + bs <= len old /\
                  sub old (bs * i) bs = sub src p bs.
  Proof.
    intros s p Hl Hlr Hob Hns.
    apply (no_missed_match_loop bs maxData olds src lookup bs_pos max_pos bs_u32 Hbytes lookup_sound_here n Hl Hlr Hns).
    unfold found, lookup. apply lookup_in_finds; [assumption| |exact Hob].
    intros x. apply heqb_spec. reflexivity.
  Qed.

  Lemma not_last_run_lemma (n : N) :
    let s := N.iter n (step bs maxData (get_of src) (len src) lookup) init in
    lastRun s = false -> base s + sumTail s + 2 * bs <= len src + 1 ->
    lastRun (refill bs maxData (len src) s) = false.
  Proof.
    exact (far_from_end_not_last bs maxData olds src lookup bs_pos max_pos bs_u32 Hbytes lookup_sound_here n).
  Qed.
End C08Edit.

(** the statements of [Properties/C08.v], with the FreshBytes counter of [account] *)
Lemma fresh_le_unsynced_Z :
  forall (H : Type) (shash : list N -> H) (heqb : H -> H -> bool) (bs maxData : N)
         (olds : list (list N)) (src : list N) (pref : option N) (qs : list N),
    0 < bs -> 0 < maxData -> bs < W32 -> (forall x y, heqb x y = true <-> x = y) ->
    strong_injective shash bs olds src -> Forall (fun x => x < W32) src ->
    sync_points bs olds src qs ->
    forall ops reused fresh, diff_ops shash heqb bs maxData olds src pref = Some ops ->
      account (Z.of_N bs) (sizes_of olds) (0, 0)%Z (map aop_of ops) = Some (reused, fresh) ->
      (fresh + Z.of_N bs * (Z.of_N (len qs) - 1) <= Z.of_N (len src))%Z.
Proof.
  intros H shash heqb bs maxData olds src pref qs Hbs Hmax Hu Hh Hinj Hb Hs ops reused fresh Hd Ha.
  pose proof (fresh_le_unsynced_lemma H shash heqb bs maxData olds pref Hbs Hmax Hu Hh src qs Hb Hinj Hs ops Hd) as Hf.
  rewrite (account_fresh_of _ _ _ _ _ _ _ Ha). nia.
Qed.

Lemma pieces_fresh_bound_Z :
  forall (H : Type) (shash : list N -> H) (heqb : H -> H -> bool) (bs maxData : N)
         (olds : list (list N)) (src : list N) (pref : option N) (pl : list piece),
    0 < bs -> 0 < maxData -> bs < W32 -> (forall x y, heqb x y = true <-> x = y) ->
    strong_injective shash bs olds src -> Forall (fun x => x < W32) src -> no_weak_repeat bs src ->
    Forall (piece_ok olds) pl -> src = flatten olds pl ->
    forall ops reused fresh, diff_ops shash heqb bs maxData olds src pref = Some ops ->
      account (Z.of_N bs) (sizes_of olds) (0, 0)%Z (map aop_of ops) = Some (reused, fresh) ->
      (fresh <= Z.of_N (pieces_fresh pl) + (Z.of_N (pieces_cuts bs pl) + 1) * Z.of_N bs)%Z.
Proof.
  intros H shash heqb bs maxData olds src pref pl Hbs Hmax Hu Hh Hinj Hb Hn Hok Hsrc ops reused fresh Hd Ha.
  pose proof (pieces_fresh_bound_lemma H shash heqb bs maxData olds pref Hbs Hmax Hu Hh pl src Hok Hsrc Hb Hinj Hn ops Hd) as Hf.
  rewrite (account_fresh_of _ _ _ _ _ _ _ Ha). nia.
Qed.

Lemma edits_fresh_bound_Z :
  forall (H : Type) (shash : list N -> H) (heqb : H -> H -> bool) (bs maxData : N)
         (olds : list (list N)) (src : list N) (pref : option N) (f : N) (old : list N) (es : list edit) (n : N),
    0 < bs -> 0 < maxData -> bs < W32 -> (forall x y, heqb x y = true <-> x = y) ->
    strong_injective shash bs olds src -> Forall (fun x => x < W32) src -> no_weak_repeat bs src ->
    nth_error olds (N.to_nat f) = Some old -> apply_edits es old = (src, n) ->
    forall ops reused fresh, diff_ops shash heqb bs maxData olds src pref = Some ops ->
      account (Z.of_N bs) (sizes_of olds) (0, 0)%Z (map aop_of ops) = Some (reused, fresh) ->
      (fresh <= Z.of_N n + (2 * Z.of_nat (length es) + 2) * Z.of_N bs)%Z.
Proof.
  intros H shash heqb bs maxData olds src pref f old es n Hbs Hmax Hu Hh Hinj Hb Hn Hf He ops reused fresh Hd Ha.
  pose proof (edits_fresh_bound_lemma H shash heqb bs maxData olds pref Hbs Hmax Hu Hh f old es src n Hf He Hb Hinj Hn ops Hd) as Hfr.
  rewrite (account_fresh_of _ _ _ _ _ _ _ Ha). unfold len in Hfr. nia.
Qed.

(** one edit: an overwrite, an insertion or a deletion, of any length at any offset *)
Lemma edits_fresh_bound_k1_Z :
  forall (H : Type) (shash : list N -> H) (heqb : H -> H -> bool) (bs maxData : N)
         (olds : list (list N)) (src : list N) (pref : option N) (f : N) (old : list N) (e : edit),
    0 < bs -> 0 < maxData -> bs < W32 -> (forall x y, heqb x y = true <-> x = y) ->
    strong_injective shash bs olds src -> Forall (fun x => x < W32) src -> no_weak_repeat bs src ->
    nth_error olds (N.to_nat f) = Some old -> src = apply_edit e old ->
    forall ops reused fresh, diff_ops shash heqb bs maxData olds src pref = Some ops ->
      account (Z.of_N bs) (sizes_of olds) (0, 0)%Z (map aop_of ops) = Some (reused, fresh) ->
      (fresh <= Z.of_N (introduced e old) + 4 * Z.of_N bs)%Z.
Proof.
  intros H shash heqb bs maxData olds src pref f old e Hbs Hmax Hu Hh Hinj Hb Hn Hf He ops reused fresh Hd Ha.
  assert (Hes : apply_edits [e] old = (src, introduced e old + 0)) by (cbn [apply_edits]; rewrite He; reflexivity).
  pose proof (edits_fresh_bound_Z H shash heqb bs maxData olds src pref f old [e] _ Hbs Hmax Hu Hh Hinj Hb Hn Hf Hes ops reused fresh Hd Ha) as Hfr.
  cbn [length] in Hfr. lia.
Qed.
