(** C08, the edit bound, part 2: a source that is a sequence of pieces (fresh bytes / stretches
    copied from old files).  Every complete block of an old file that lies inside a copied
    stretch is a sync point of the source; a stretch loses less than a block at each end that is
    off the block grid; [SyncProofs.fresh_le_unsynced_core] then bounds the fresh bytes.
    Also: the library finds every window that holds a complete old block ([lookup_in_finds],
    the generalisation of [LibraryProofs.lookup_in_complete] to arbitrary offsets and files). *)
From Wharf Require Import Base.Prelude Base.BlocksLemmas Wsync.Weak Wsync.Diff Wsync.Apply Wsync.Library Wsync.Sign Wsync.Account
     Wsync.Spec Wsync.EditSpec Wsync.ApplyProofs Wsync.DiffProofs Wsync.LibraryProofs Wsync.SyncProofs.
From Coq Require Import ZifyBool ZifyNat ZifyN.
Ltac Zify.zify_post_hook ::= Z.div_mod_to_equations.
Local Open Scope N_scope.

(** * slices *)

Lemma sub_len_min {A} (l : list A) a n : len (sub l a n) = N.min n (len l - a).
Proof. unfold sub, len. rewrite firstn_length, skipn_length. lia. Qed.

Lemma sub_app_skip {A} (pre l : list A) d m : sub (pre ++ l) (len pre + d) m = sub l d m.
Proof.
  unfold sub, len. f_equal.
  rewrite skipn_app, skipn_all2 by lia. cbn [app]. f_equal. lia.
Qed.

Lemma sub_app_within {A} (l post : list A) d m : d + m <= len l -> sub (l ++ post) d m = sub l d m.
Proof.
  unfold sub, len. intros Hin. rewrite skipn_app, firstn_app, skipn_length.
  replace (N.to_nat m - (length l - N.to_nat d))%nat with 0%nat by lia.
  rewrite firstn_O, app_nil_r. reflexivity.
Qed.

Lemma sub_sub {A} (l : list A) o n d m : d + m <= n -> sub (sub l o n) d m = sub l (o + d) m.
Proof.
  unfold sub. intros Hin. rewrite skipn_firstn_comm, firstn_firstn, skipn_skipn'.
  f_equal; [lia|]. f_equal. lia.
Qed.

Lemma len_app {A} (a b : list A) : len (a ++ b) = len a + len b.
Proof. unfold len. rewrite app_length. lia. Qed.

(** * the library finds every window that holds a complete block of an old file *)
Section LibraryFinds.
  Variable H : Type.
  Variable shash : list N -> H.
  Variable heqb : H -> H -> bool.
  Variable bs : N.
  Hypothesis bs_pos : 0 < bs.
  Hypothesis heqb_refl : forall x, heqb x x = true.
  Variable olds : list (list N).
  Variable src : list N.
  Variable pref : option N.

  Theorem lookup_in_finds a :
    old_block_at bs olds src a ->
    lookup_in heqb (sign_all shash bs 0 olds) pref (fun a l => shash (sub src a l))
              (weak_of (sub src a bs)) a bs 0 <> None.
  Proof.
    intros (Hin & f & i & old & Hf & Hfull & Heq).
    set (blk := sub old (bs * i) bs) in *.
    assert (Hfull' : bs * i + bs <= len old) by lia.
    assert (Hlen : len blk = bs) by (apply sub_len; assumption).
    assert (Hblk : nth_error (file_blocks bs old) (N.to_nat i) = Some blk).
    { assert (Hk : (N.to_nat i * N.to_nat bs < length old)%nat) by (unfold len in Hfull'; nia).
      pose proof (blocks_nth_inv (N.to_nat bs) ltac:(lia) _ _ Hk) as Hn.
      assert (Hb : firstn (N.to_nat bs) (skipn (N.to_nat i * N.to_nat bs) old) = blk).
      { unfold blk, sub. f_equal. f_equal. lia. }
      rewrite Hb in Hn. unfold file_blocks.
      destruct (blocks (N.to_nat bs) old); [destruct (N.to_nat i); discriminate|exact Hn]. }
    pose proof (sign_all_has H shash bs bs_pos olds 0 _ _ _ _ Hf Hblk) as He0.
    set (e0 := hash_block shash bs (0 + N.of_nat (N.to_nat f)) (N.of_nat (N.to_nat i)) blk) in He0.
    unfold lookup_in. rewrite <- Heq.
    assert (Hin0 : In e0 (hash_lookup (sign_all shash bs 0 olds) (weak_of blk))).
    { unfold hash_lookup. apply filter_In. split; [exact He0|]. unfold e0. cbn [hash_block eweak]. apply N.eqb_refl. }
    destruct (hash_lookup (sign_all shash bs 0 olds) (weak_of blk)) as [|h0 hr] eqn:Ehh; [contradiction|].
    assert (Hok : (eshort e0 =? 0) && heqb (estrong e0) (shash blk) = true).
    { unfold e0. cbn [hash_block eshort estrong]. fold (len blk). rewrite Hlen, N.ltb_irrefl, N.eqb_refl.
      rewrite heqb_refl. reflexivity. }
    unfold find_unique_hash. destruct (bs =? 0) eqn:Ew; [apply N.eqb_eq in Ew; lia|].
    match goal with |- context [match ?first with Some e => Some e | None => find ?ok (h0 :: hr) end] =>
      destruct first as [e1|]; [discriminate|];
      destruct (find ok (h0 :: hr)) as [e2|] eqn:Ef; [discriminate|] end.
    exfalso. pose proof (find_none _ _ Ef e0 Hin0) as Hfn. cbv beta in Hfn. rewrite Hok in Hfn. discriminate.
  Qed.
End LibraryFinds.

(** * sync points of a sequence of pieces *)

(** [c] windows from [q] on, one block apart *)
Fixpoint run_syncs (bs q : N) (c : nat) : list N :=
  match c with
  | O => []
  | S c' => q :: run_syncs bs (q + bs) c'
  end.

(** a stretch [old[o, o+n)] placed at offset [a] of the source: the blocks [i0 .. i1-1] of the old
    file lie inside it *)
Definition first_blk (bs o : N) : N := (o + bs - 1) / bs.
Definition end_blk (bs o n : N) : N := (o + n) / bs.

Definition copy_syncs (bs a o n : N) : list N :=
  run_syncs bs (a + (bs * first_blk bs o - o)) (N.to_nat (end_blk bs o n - first_blk bs o)).

Definition piece_len (p : piece) : N := match p with PFresh d => len d | PCopy _ _ n => n end.

Fixpoint pieces_len (pl : list piece) : N :=
  match pl with [] => 0 | p :: r => piece_len p + pieces_len r end.

Fixpoint piece_syncs (bs a : N) (pl : list piece) : list N :=
  match pl with
  | [] => []
  | PFresh d :: r => piece_syncs bs (a + len d) r
  | PCopy f o n :: r => copy_syncs bs a o n ++ piece_syncs bs (a + n) r
  end.

Lemma gapped_weaken bs qs : forall lo lo', lo' <= lo -> gapped bs lo qs -> gapped bs lo' qs.
Proof. destruct qs as [|q r]; intros lo lo' Hle Hg; [exact I|]. destruct Hg as [Hq Hg]. split; [lia|exact Hg]. Qed.

Lemma gapped_run bs rest : forall c lo q,
  lo <= q -> gapped bs (q + bs * N.of_nat c) rest -> gapped bs lo (run_syncs bs q c ++ rest).
Proof.
  induction c as [|c IH]; intros lo q Hlo Hg.
  - cbn [run_syncs app]. eapply gapped_weaken; [|exact Hg]. lia.
  - cbn [run_syncs app gapped]. split; [exact Hlo|]. apply IH; [lia|].
    replace (q + bs + bs * N.of_nat c) with (q + bs * N.of_nat (S c)) by lia. exact Hg.
Qed.

Lemma run_syncs_len bs : forall c q, len (run_syncs bs q c) = N.of_nat c.
Proof. induction c as [|c IH]; intros q; [reflexivity|]. unfold len in *. cbn [run_syncs length]. specialize (IH (q + bs)). lia. Qed.

Lemma run_syncs_in bs : forall c q x, In x (run_syncs bs q c) -> exists j, j < N.of_nat c /\ x = q + bs * j.
Proof.
  induction c as [|c IH]; intros q x Hi; [contradiction|].
  cbn [run_syncs] in Hi. destruct Hi as [<-|Hi].
  - exists 0. split; lia.
  - destruct (IH _ _ Hi) as (j & Hj & ->). exists (j + 1). split; lia.
Qed.

Section Pieces.
  Variable bs : N.
  Hypothesis bs_pos : 0 < bs.
  Variable olds : list (list N).

  Lemma misal_le x : misal bs x <= 1.
  Proof. unfold misal. destruct (x mod bs =? 0); lia. Qed.

  Lemma first_blk_eq o : first_blk bs o = o / bs + misal bs o.
  Proof.
    unfold first_blk, misal.
    pose proof (N.div_mod o bs ltac:(lia)) as Hdm. pose proof (N.mod_lt o bs ltac:(lia)) as Hlt.
    set (k := o / bs) in *. set (r := o mod bs) in *. clearbody k r.
    destruct (r =? 0) eqn:E.
    - apply N.eqb_eq in E. symmetry. apply (N.div_unique _ _ _ (bs - 1)); [lia|].
      rewrite N.add_0_r. lia.
    - apply N.eqb_neq in E. symmetry. apply (N.div_unique _ _ _ (r - 1)); [lia|].
      rewrite N.mul_add_distr_l. lia.
  Qed.

  (** the blocks inside a stretch, in bytes, against its length *)
  Lemma copy_count o n :
    n <= bs * (end_blk bs o n - first_blk bs o) + (bs - 1) * (misal bs o + misal bs (o + n)).
  Proof.
    rewrite first_blk_eq. unfold end_blk.
    pose proof (N.div_mod o bs ltac:(lia)) as Hd1. pose proof (N.mod_lt o bs ltac:(lia)) as Hl1.
    pose proof (N.div_mod (o + n) bs ltac:(lia)) as Hd2. pose proof (N.mod_lt (o + n) bs ltac:(lia)) as Hl2.
    assert (Hmono : o / bs <= (o + n) / bs) by (apply N.div_le_mono; lia).
    unfold misal in *.
    set (k1 := o / bs) in *. set (r1 := o mod bs) in *. set (k2 := (o + n) / bs) in *. set (r2 := (o + n) mod bs) in *.
    clearbody k1 r1 k2 r2.
    assert (Hm : bs * k1 <= bs * k2) by (apply N.mul_le_mono_l; exact Hmono).
    destruct (N.eqb_spec r1 0) as [E1|E1]; destruct (N.eqb_spec r2 0) as [E2|E2].
    - rewrite N.add_0_r, N.mul_sub_distr_l. lia.
    - rewrite N.add_0_r, N.mul_sub_distr_l. lia.
    - destruct (N.le_gt_cases (k1 + 1) k2) as [Hle|Hgt].
      + assert (Hm' : bs * (k1 + 1) <= bs * k2) by (apply N.mul_le_mono_l; exact Hle).
        rewrite N.mul_sub_distr_l. rewrite N.mul_add_distr_l in *. lia.
      + assert (k2 = k1) by lia. subst k2. lia.
    - destruct (N.le_gt_cases (k1 + 1) k2) as [Hle|Hgt].
      + assert (Hm' : bs * (k1 + 1) <= bs * k2) by (apply N.mul_le_mono_l; exact Hle).
        rewrite N.mul_sub_distr_l. rewrite N.mul_add_distr_l in *. lia.
      + assert (k2 = k1) by lia. subst k2. lia.
  Qed.

  (** where the blocks of a stretch sit *)
  Lemma copy_syncs_in a o n x :
    In x (copy_syncs bs a o n) ->
    exists i, o <= bs * i /\ bs * (i + 1) <= o + n /\ x = a + (bs * i - o).
  Proof.
    unfold copy_syncs. intros Hi. destruct (run_syncs_in _ _ _ _ Hi) as (j & Hj & ->).
    exists (first_blk bs o + j). unfold first_blk, end_blk in *. nia.
  Qed.

  Lemma first_blk_ge o : o <= bs * first_blk bs o.
  Proof.
    rewrite first_blk_eq. unfold misal.
    pose proof (N.div_mod o bs ltac:(lia)) as Hd1. pose proof (N.mod_lt o bs ltac:(lia)) as Hl1.
    set (k1 := o / bs) in *. set (r1 := o mod bs) in *. clearbody k1 r1.
    rewrite N.mul_add_distr_l. destruct (N.eqb_spec r1 0); lia.
  Qed.

  Lemma end_blk_le o n : bs * end_blk bs o n <= o + n.
  Proof. unfold end_blk. pose proof (N.div_mod (o + n) bs ltac:(lia)). lia. Qed.

  Lemma copy_syncs_gapped a o n rest :
    gapped bs (a + n) rest -> gapped bs a (copy_syncs bs a o n ++ rest).
  Proof.
    intros Hg. unfold copy_syncs.
    pose proof (first_blk_ge o) as H1. pose proof (end_blk_le o n) as H2.
    destruct (N.le_gt_cases (end_blk bs o n) (first_blk bs o)) as [Hle|Hgt].
    - replace (end_blk bs o n - first_blk bs o) with 0 by lia. cbn [N.to_nat run_syncs app].
      eapply gapped_weaken; [|exact Hg]. lia.
    - apply gapped_run; [lia|].
      eapply gapped_weaken; [|exact Hg]. rewrite N2Nat.id, N.mul_sub_distr_l.
      assert (bs * first_blk bs o <= bs * end_blk bs o n) by (apply N.mul_le_mono_l; lia). lia.
  Qed.

  Lemma piece_syncs_gapped : forall pl a, gapped bs a (piece_syncs bs a pl).
  Proof.
    induction pl as [|p r IH]; intros a; [exact I|]. destruct p as [d|f o n]; cbn [piece_syncs].
    - eapply gapped_weaken; [|apply IH]. lia.
    - apply copy_syncs_gapped. apply IH.
  Qed.

  Lemma piece_bytes_len p : piece_ok olds p -> len (piece_bytes olds p) = piece_len p.
  Proof.
    destruct p as [d|f o n]; cbn [piece_ok piece_bytes piece_len]; [reflexivity|].
    intros (old & Hf & Hin). rewrite (nth_error_nth _ _ _ Hf). apply sub_len. exact Hin.
  Qed.

  Lemma flatten_cons p r : flatten olds (p :: r) = piece_bytes olds p ++ flatten olds r.
  Proof. reflexivity. Qed.

  Lemma flatten_app a b : flatten olds (a ++ b) = flatten olds a ++ flatten olds b.
  Proof. unfold flatten. rewrite map_app, concat_app. reflexivity. Qed.

  Lemma flatten_len : forall pl, Forall (piece_ok olds) pl -> len (flatten olds pl) = pieces_len pl.
  Proof.
    induction pl as [|p r IH]; intros Hok; [reflexivity|]. inversion Hok as [|? ? Hp Hr]; subst.
    rewrite flatten_cons, len_app, (piece_bytes_len _ Hp), (IH Hr). reflexivity.
  Qed.

  (** every sync point of the pieces is a window of the source that holds a complete old block *)
  Lemma piece_syncs_blocks : forall pl pre,
    Forall (piece_ok olds) pl ->
    Forall (old_block_at bs olds (pre ++ flatten olds pl)) (piece_syncs bs (len pre) pl).
  Proof.
    induction pl as [|p r IH]; intros pre Hok; [constructor|]. inversion Hok as [|? ? Hp Hr]; subst.
    destruct p as [d|f o n]; cbn [piece_syncs].
    - rewrite flatten_cons. cbn [piece_bytes]. rewrite app_assoc, <- len_app. apply IH. exact Hr.
    - destruct Hp as (old & Hf & Hin).
      assert (Hbytes : piece_bytes olds (PCopy f o n) = sub old o n) by (cbn [piece_bytes]; rewrite (nth_error_nth _ _ _ Hf); reflexivity).
      assert (Hlen : len (sub old o n) = n) by (apply sub_len; exact Hin).
      rewrite flatten_cons, Hbytes. apply Forall_app. split.
      + rewrite Forall_forall. intros x Hx.
        destruct (copy_syncs_in _ _ _ _ Hx) as (i & Hi1 & Hi2 & ->).
        set (d := bs * i - o). assert (Hd : d + bs <= n) by (unfold d; lia).
        split.
        * rewrite !len_app, Hlen. lia.
        * exists f, i, old. split; [exact Hf|]. split; [lia|].
          rewrite sub_app_skip, sub_app_within by (rewrite Hlen; exact Hd).
          rewrite sub_sub by exact Hd. f_equal. unfold d. lia.
      + rewrite app_assoc. replace (len pre + n) with (len (pre ++ sub old o n)) by (rewrite len_app, Hlen; reflexivity).
        apply IH. exact Hr.
  Qed.

  (** counting: a piece sequence is covered by its fresh bytes, the blocks at its sync points and
      less than a block per end that is off the grid *)
  Lemma piece_syncs_count : forall pl a,
    pieces_len pl <= pieces_fresh pl + bs * len (piece_syncs bs a pl) + (bs - 1) * pieces_cuts bs pl.
  Proof.
    induction pl as [|p r IH]; intros a; [cbn; lia|]. destruct p as [d|f o n].
    - cbn [pieces_len piece_len pieces_fresh piece_fresh piece_syncs pieces_cuts piece_cuts].
      specialize (IH (a + len d)). lia.
    - cbn [pieces_len piece_len pieces_fresh piece_fresh piece_syncs pieces_cuts piece_cuts].
      specialize (IH (a + n)). rewrite len_app. unfold copy_syncs at 1. rewrite run_syncs_len, N2Nat.id.
      pose proof (copy_count o n). lia.
  Qed.
End Pieces.

(** * the bound for piece sequences *)
Section PieceBound.
  Variable H : Type.
  Variable shash : list N -> H.
  Variable heqb : H -> H -> bool.
  Variables (bs maxData : N).
  Variable olds : list (list N).
  Variable pref : option N.
  Hypothesis bs_pos : 0 < bs.
  Hypothesis max_pos : 0 < maxData.
  Hypothesis bs_u32 : bs < W32.
  Hypothesis heqb_spec : forall x y, heqb x y = true <-> x = y.

  Let lookup_of (src : list N) := lookup_in heqb (sign_all shash bs 0 olds) pref (fun a l => shash (sub src a l)).

  (** sync points in the sense of [EditSpec] are sync points of the loop *)
  Lemma sync_points_syncs src qs :
    sync_points bs olds src qs -> syncs bs src (lookup_of src) qs.
  Proof.
    intros [Hg Hall]. split; [exact Hg|].
    rewrite Forall_forall in *. intros q Hq. destruct (Hall _ Hq) as [Hb Hns].
    split; [apply Hb|]. split; [exact Hns|].
    unfold found, lookup_of. apply lookup_in_finds; [assumption| |exact Hb].
    intros x. apply heqb_spec. reflexivity.
  Qed.

  Theorem fresh_le_unsynced_lemma src qs :
    Forall (fun x => x < W32) src -> strong_injective shash bs olds src ->
    sync_points bs olds src qs ->
    forall ops, diff_ops shash heqb bs maxData olds src pref = Some ops ->
      fresh_of ops + bs * len qs <= len src + bs.
  Proof.
    intros Hbytes Hinj Hs ops Hd. unfold diff_ops in Hd.
    eapply (fresh_le_unsynced_core bs maxData olds src (lookup_of src) bs_pos max_pos bs_u32 Hbytes).
    - apply lookup_in_sound; [assumption| |assumption]. intros x y. apply heqb_spec.
    - apply sync_points_syncs. exact Hs.
    - exact Hd.
  Qed.

  Theorem pieces_fresh_bound_lemma pl src :
    Forall (piece_ok olds) pl -> src = flatten olds pl ->
    Forall (fun x => x < W32) src -> strong_injective shash bs olds src -> no_weak_repeat bs src ->
    forall ops, diff_ops shash heqb bs maxData olds src pref = Some ops ->
      fresh_of ops <= pieces_fresh pl + (bs - 1) * pieces_cuts bs pl + bs.
  Proof.
    intros Hok Hsrc Hbytes Hinj Hnwr ops Hd.
    set (qs := piece_syncs bs 0 pl).
    assert (Hs : sync_points bs olds src qs).
    { split; [apply piece_syncs_gapped; exact bs_pos|].
      pose proof (piece_syncs_blocks bs bs_pos olds pl [] Hok) as Hb. cbn [app] in Hb. rewrite <- Hsrc in Hb.
      change (len (@nil N)) with 0 in Hb. fold qs in Hb.
      rewrite Forall_forall in *. intros q Hq. split; [apply Hb; exact Hq|].
      destruct (N.eq_dec q 0) as [->|Hnz]; [left; reflexivity|right].
      destruct (Hb _ Hq) as [Hin _].
      specialize (Hnwr (q - 1) ltac:(lia)). replace (q - 1 + 1) with q in Hnwr by lia. exact Hnwr. }
    pose proof (fresh_le_unsynced_lemma src qs Hbytes Hinj Hs ops Hd) as Hf.
    pose proof (piece_syncs_count bs bs_pos pl 0) as Hc. fold qs in Hc.
    rewrite <- (flatten_len olds pl Hok), <- Hsrc in Hc. lia.
  Qed.
End PieceBound.
