(** Lemmas about slices and the replay of operations. *)
From Wharf Require Import Base.Prelude Wsync.Diff Wsync.Apply Wsync.Library Wsync.Sign Wsync.Spec.
From Coq Require Import ZifyBool ZifyNat ZifyN.
Ltac Zify.zify_post_hook ::= Z.div_mod_to_equations.
Local Open Scope N_scope.

Lemma sub_length {A} (l : list A) a n : a + n <= len l -> length (sub l a n) = N.to_nat n.
Proof.
  unfold sub, len. intros H. rewrite firstn_length, skipn_length. lia.
Qed.

Lemma sub_len {A} (l : list A) a n : a + n <= len l -> len (sub l a n) = n.
Proof. intros H. unfold len at 1. rewrite sub_length by assumption. lia. Qed.

Lemma sub_nil {A} (l : list A) a : sub l a 0 = [].
Proof. reflexivity. Qed.

Lemma skipn_skipn' {A} (l : list A) (a n : nat) : skipn n (skipn a l) = skipn (n + a) l.
Proof.
  revert l. induction a as [|a IH]; intros l.
  - rewrite Nat.add_0_r. reflexivity.
  - destruct l as [|x l]; [rewrite !skipn_nil; reflexivity|].
    rewrite Nat.add_succ_r. cbn [skipn]. apply IH.
Qed.

Lemma sub_app {A} (l : list A) a n m : sub l a (n + m) = sub l a n ++ sub l (a + n) m.
Proof.
  unfold sub.
  replace (N.to_nat (n + m)) with (N.to_nat n + N.to_nat m)%nat by lia.
  replace (N.to_nat (a + n)) with (N.to_nat n + N.to_nat a)%nat by lia.
  rewrite <- skipn_skipn'.
  generalize (skipn (N.to_nat a) l) as x. intros x.
  revert x. generalize (N.to_nat n) as k. induction k as [|k IH]; intros x; [reflexivity|].
  destruct x as [|y x]; cbn [Nat.add firstn skipn app].
  - rewrite firstn_nil. reflexivity.
  - f_equal. apply IH.
Qed.

Lemma sub_zero_all {A} (l : list A) n : len l <= n -> sub l 0 n = l.
Proof. unfold sub, len. intros H. cbn [N.to_nat skipn]. apply firstn_all2. lia. Qed.

Lemma firstn_sub0 {A} (l : list A) n : firstn (N.to_nat n) l = sub l 0 n.
Proof. reflexivity. Qed.

Lemma sub_beyond {A} (l : list A) a n m : len l <= a + n -> n <= m -> sub l a n = sub l a m.
Proof.
  unfold sub, len. intros H1 H2.
  rewrite !firstn_all2; [reflexivity| |]; rewrite skipn_length; lia.
Qed.

Lemma nth_skipn_cons {A} (d : A) (l : list A) (m : nat) :
  (m < length l)%nat -> nth m l d :: skipn (S m) l = skipn m l.
Proof.
  revert m. induction l as [|x r IH]; intros m Hm; [cbn in Hm; lia|].
  destruct m as [|m]; [reflexivity|].
  cbn [nth skipn]. cbn [length] in Hm. rewrite <- (IH m) by lia. reflexivity.
Qed.

Lemma window_aux_sub (src : list N) (k : nat) : forall a : N,
  (N.to_nat a + k <= length src)%nat ->
  Weak.window_aux (get_of src) a k = firstn k (skipn (N.to_nat a) src).
Proof.
  induction k as [|k IH]; intros a H; [reflexivity|].
  cbn [Weak.window_aux]. rewrite IH by lia.
  replace (N.to_nat (a + 1)) with (S (N.to_nat a)) by lia.
  unfold get_of. rewrite <- (nth_skipn_cons 0 src (N.to_nat a)) by lia. reflexivity.
Qed.

Lemma sub_get (src : list N) a n : a + n <= len src -> Weak.window (get_of src) a n = sub src a n.
Proof.
  unfold Weak.window, sub, len. intros H. apply window_aux_sub. lia.
Qed.

(** the denotation of an operation *)
Section Den.
  Variable bs : N.
  Variable olds : list (list N).
  Variable src : list N.

  Definition den_op (o : op) : list N :=
    match o with
    | OpData s l => sub src s l
    | OpRange f i sp => sub (nth (N.to_nat f) olds []) (bs * i) (bs * sp)
    end.

  Definition den (ops : list op) : list N := concat (map den_op ops).

  Definition data_ok (o : op) : Prop :=
    match o with OpData s l => s + l <= len src | OpRange _ _ _ => True end.

  Lemma den_app a b : den (a ++ b) = den a ++ den b.
  Proof. unfold den. rewrite map_app, concat_app. reflexivity. Qed.

  Hypothesis bs_pos : 0 < bs.

  (** the product form of "in bounds": the last addressed block starts inside the file *)
  Lemma num_blocks_spec (old : list N) i sp :
    1 <= sp -> (i + sp <= num_blocks bs old <-> bs * (i + sp - 1) < len old).
  Proof.
    unfold num_blocks. intros Hsp.
    assert (Hk : i + sp = (i + sp - 1) + 1) by lia.
    set (k := i + sp - 1) in *. rewrite Hk. clearbody k. clear Hk Hsp.
    assert (Hb : bs <> 0) by lia.
    assert (Hm : bs * (k + 1) = bs * k + bs) by ring.
    split; intros H.
    - destruct (N.lt_ge_cases (bs * k) (len old)) as [Hlt|Hge]; [assumption|exfalso].
      assert (Hd : (len old + bs - 1) / bs < k + 1) by (apply N.div_lt_upper_bound; [assumption|lia]).
      lia.
    - apply N.div_le_lower_bound; [assumption|lia].
  Qed.

  Lemma apply_range_den f i sp old :
    nth_error olds (N.to_nat f) = Some old -> 1 <= sp -> i + sp <= num_blocks bs old ->
    apply_op bs olds (CRange f i sp) = Some (den_op (OpRange f i sp)).
  Proof.
    intros Hf Hsp Hin. cbn [apply_op den_op]. rewrite Hf. f_equal.
    rewrite (nth_error_nth _ _ _ Hf).
    apply num_blocks_spec in Hin; [|assumption].
    unfold sub. unfold len in Hin.
    set (x := skipn (N.to_nat (bs * i)) old).
    assert (Hx : length x = (length old - N.to_nat (bs * i))%nat) by (unfold x; apply skipn_length).
    unfold op_size.
    assert (HA : Z.of_N (bs * i) = (Z.of_N bs * Z.of_N i)%Z) by lia.
    assert (HB : Z.of_N (bs * sp) = (Z.of_N bs * Z.of_N sp)%Z) by lia.
    assert (HC : Z.of_N (bs * (i + sp - 1)) = (Z.of_N bs * Z.of_N i + Z.of_N bs * Z.of_N sp - Z.of_N bs)%Z).
    { replace (i + sp - 1) with (i + (sp - 1)) by lia. rewrite N.mul_add_distr_l, N.mul_sub_distr_l.
      assert (bs * 1 <= bs * sp) by (apply N.mul_le_mono_l; assumption). lia. }
    replace (Z.of_N bs * (Z.of_N i + (Z.of_N sp - 1) + 1))%Z with (Z.of_N bs * Z.of_N i + Z.of_N bs * Z.of_N sp)%Z by ring.
    replace ((Z.of_N sp - 1) * Z.of_N bs)%Z with (Z.of_N bs * Z.of_N sp - Z.of_N bs)%Z by ring.
    destruct (Z.of_N bs * Z.of_N i + Z.of_N bs * Z.of_N sp >? Z.of_nat (length old))%Z eqn:E.
    - (* the last block is the short one: everything from the offset *)
      rewrite Z.rem_mod_nonneg by lia.
      assert (Hmod : (Z.of_nat (length old) mod Z.of_N bs
                      = Z.of_nat (length old) - (Z.of_N bs * Z.of_N i + Z.of_N bs * Z.of_N sp - Z.of_N bs))%Z).
      { symmetry. apply (Z.mod_unique_pos _ _ (Z.of_N i + Z.of_N sp - 1)); [lia|ring]. }
      rewrite Hmod.
      rewrite !firstn_all2; [reflexivity| |]; rewrite Hx; lia.
    - f_equal. lia.
  Qed.

  Lemma apply_ops_den (ops : list op) :
    Forall (range_ok bs olds) ops -> Forall data_ok ops ->
    apply_ops bs olds (map (conc src) ops) = Some (den ops).
  Proof.
    induction ops as [|o r IH]; intros Hr Hd; [reflexivity|].
    inversion Hr as [|? ? Ho Hr']; subst. inversion Hd as [|? ? Hdo Hd']; subst.
    cbn [map apply_ops]. rewrite (IH Hr' Hd').
    destruct o as [f i sp|s l].
    - destruct Ho as (old & Hf & Hsp & Hin).
      cbn [conc]. rewrite (apply_range_den _ _ _ _ Hf Hsp Hin). reflexivity.
    - reflexivity.
  Qed.
End Den.
