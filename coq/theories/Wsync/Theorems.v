(** The C11 statements about [diff_ops] (signature of the old files + library + differ),
    assembled from [DiffProofs.compute_diff_spec], [LibraryProofs.lookup_in_sound] and
    [ApplyProofs.apply_ops_den]. *)
From Wharf Require Import Base.Prelude Wsync.Weak Wsync.Diff Wsync.Apply Wsync.Library Wsync.Sign Wsync.Spec
     Wsync.ApplyProofs Wsync.DiffProofs Wsync.LibraryProofs.
From Coq Require Import ZifyBool ZifyNat ZifyN.
Local Open Scope N_scope.

Lemma nlist_eqb_sound (a b : list N) : nlist_eqb a b = true -> a = b.
Proof.
  revert b. induction a as [|x a IH]; intros [|y b] H; try discriminate; [reflexivity|].
  cbn in H. apply andb_true_iff in H. destruct H as [Hx Hr]. apply N.eqb_eq in Hx. subst. f_equal. apply IH. exact Hr.
Qed.

Lemma nlist_eqb_refl (a : list N) : nlist_eqb a a = true.
Proof. induction a as [|x a IH]; [reflexivity|]. cbn. rewrite N.eqb_refl. exact IH. Qed.

Lemma id_strong_injective bs olds src : strong_injective (fun b : list N => b) bs olds src.
Proof. intros f i blk a l _ _ E. exact E. Qed.

Section Final.
  Variable H : Type.
  Variable shash : list N -> H.
  Variable heqb : H -> H -> bool.
  Variables (bs maxData : N) (olds : list (list N)) (src : list N) (pref : option N).
  Hypothesis bs_pos : 0 < bs.
  Hypothesis max_pos : 0 < maxData.
  Hypothesis heqb_sound : forall x y, heqb x y = true -> x = y.
  Hypothesis Hinj : strong_injective shash bs olds src.

  Lemma diff_ops_spec :
    exists ops, diff_ops shash heqb bs maxData olds src pref = Some ops /\
      den bs olds src ops = src /\
      Forall (range_ok bs olds) ops /\ Forall (data_ok src) ops /\
      no_adjacent_mergeable ops /\ Forall (fun o => is_empty_data o = false) (tl ops) /\
      Forall (fun o => data_len o <= maxData) ops.
  Proof.
    unfold diff_ops.
    apply (compute_diff_spec bs maxData olds src _ bs_pos max_pos).
    apply lookup_in_sound; assumption.
  Qed.

  Lemma diff_reconstructs_lemma :
    exists ops, diff_ops shash heqb bs maxData olds src pref = Some ops /\
                apply_ops bs olds (map (conc src) ops) = Some src.
  Proof.
    destruct diff_ops_spec as (ops & Hd & Hden & Hr & Hdat & _).
    exists ops. split; [assumption|]. rewrite (apply_ops_den bs olds src bs_pos ops Hr Hdat). rewrite Hden. reflexivity.
  Qed.

  Lemma diff_total_lemma : diff_ops shash heqb bs maxData olds src pref <> None.
  Proof. destruct diff_ops_spec as (ops & Hd & _). rewrite Hd. discriminate. Qed.

  Lemma ranges_in_bounds_lemma ops :
    diff_ops shash heqb bs maxData olds src pref = Some ops -> Forall (range_ok bs olds) ops.
  Proof. destruct diff_ops_spec as (ops' & Hd & _ & Hr & _). rewrite Hd. intros [= <-]. exact Hr. Qed.

  Lemma data_in_bounds_lemma ops :
    diff_ops shash heqb bs maxData olds src pref = Some ops ->
    Forall (fun o => match o with OpData s l => s + l <= len src | OpRange _ _ _ => True end) ops.
  Proof. destruct diff_ops_spec as (ops' & Hd & _ & _ & Hr & _). rewrite Hd. intros [= <-]. exact Hr. Qed.

  Lemma ranges_merged_lemma ops :
    diff_ops shash heqb bs maxData olds src pref = Some ops -> no_adjacent_mergeable ops.
  Proof. destruct diff_ops_spec as (ops' & Hd & _ & _ & _ & Hm & _). rewrite Hd. intros [= <-]. exact Hm. Qed.

  Lemma empty_data_only_leading_lemma ops :
    diff_ops shash heqb bs maxData olds src pref = Some ops -> empty_only_leading ops.
  Proof.
    destruct diff_ops_spec as (ops' & Hd & _ & _ & _ & _ & He & _). rewrite Hd. intros [= <-].
    intros k o Hn Hemp. destruct k as [|k]; [reflexivity|exfalso].
    destruct ops' as [|a r]; [discriminate|]. cbn [tl nth_error] in *.
    apply nth_error_In in Hn. rewrite Forall_forall in He. specialize (He _ Hn). congruence.
  Qed.

  Lemma data_op_le_max_lemma ops :
    diff_ops shash heqb bs maxData olds src pref = Some ops -> Forall (fun o => data_len o <= maxData) ops.
  Proof. destruct diff_ops_spec as (ops' & Hd & _ & _ & _ & _ & _ & Hx). rewrite Hd. intros [= <-]. exact Hx. Qed.
End Final.
