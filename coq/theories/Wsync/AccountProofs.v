(** FreshBytes + ReusedBytes = size of the new file: the accounting of pwr's operation writer
    counts exactly the bytes the operations denote when the ranges are in bounds. *)
From Wharf Require Import Base.Prelude Wsync.Weak Wsync.Diff Wsync.Apply Wsync.Library Wsync.Sign Wsync.Account Wsync.Spec
     Wsync.ApplyProofs Wsync.Theorems.
From Coq Require Import ZifyBool ZifyNat ZifyN.
Local Open Scope N_scope.

Section AccountProofs.
  Variable bs : N.
  Variable olds : list (list N).
  Variable src : list N.
  Hypothesis bs_pos : 0 < bs.

  Lemma account_range_len f i sp old :
    nth_error olds (N.to_nat f) = Some old -> 1 <= sp -> i + sp <= num_blocks bs old ->
    (Z.of_N bs * (Z.of_N sp - 1) + compute_block_size (Z.of_N bs) (Z.of_nat (length old)) (Z.of_N i + Z.of_N sp - 1)
     = Z.of_nat (length (den_op bs olds src (OpRange f i sp))))%Z.
  Proof.
    intros Hf Hsp Hin. cbn [den_op]. rewrite (nth_error_nth _ _ _ Hf).
    apply (num_blocks_spec bs bs_pos) in Hin; [|assumption].
    unfold sub. rewrite firstn_length, skipn_length. unfold len in Hin.
    assert (HA : Z.of_N (bs * i) = (Z.of_N bs * Z.of_N i)%Z) by lia.
    assert (HB : Z.of_N (bs * sp) = (Z.of_N bs * Z.of_N sp)%Z) by lia.
    assert (HC : Z.of_N (bs * (i + sp - 1)) = (Z.of_N bs * Z.of_N i + Z.of_N bs * Z.of_N sp - Z.of_N bs)%Z).
    { replace (i + sp - 1) with (i + (sp - 1)) by lia. rewrite N.mul_add_distr_l, N.mul_sub_distr_l.
      assert (bs * 1 <= bs * sp) by (apply N.mul_le_mono_l; assumption). lia. }
    assert (HD : (Z.of_N bs <= Z.of_N bs * Z.of_N sp)%Z) by nia.
    unfold compute_block_size.
    replace (Z.of_N bs * (Z.of_N i + Z.of_N sp - 1 + 1))%Z with (Z.of_N bs * Z.of_N i + Z.of_N bs * Z.of_N sp)%Z by ring.
    replace (Z.of_N bs * (Z.of_N sp - 1))%Z with (Z.of_N bs * Z.of_N sp - Z.of_N bs)%Z by ring.
    destruct (Z.gtb_spec (Z.of_N bs * Z.of_N i + Z.of_N bs * Z.of_N sp) (Z.of_nat (length old))) as [E|E].
    - rewrite Z.rem_mod_nonneg by lia.
      assert (Hmod : (Z.of_nat (length old) mod Z.of_N bs
                      = Z.of_nat (length old) - (Z.of_N bs * Z.of_N i + Z.of_N bs * Z.of_N sp - Z.of_N bs))%Z).
      { symmetry. apply (Z.mod_unique_pos _ _ (Z.of_N i + Z.of_N sp - 1)); [lia|ring]. }
      rewrite Hmod. rewrite Nat.min_r by lia. lia.
    - rewrite Nat.min_l by lia. lia.
  Qed.

  Lemma account_den : forall ops r0 f0,
    Forall (range_ok bs olds) ops -> Forall (data_ok src) ops ->
    exists r f, account (Z.of_N bs) (sizes_of olds) (r0, f0) (map aop_of ops) = Some (r, f) /\
                (r + f = r0 + f0 + Z.of_nat (length (den bs olds src ops)))%Z.
  Proof.
    induction ops as [|o rest IH]; intros r0 f0 Hr Hd.
    - exists r0, f0. split; [reflexivity|]. cbn. lia.
    - inversion Hr as [|? ? Ho Hr']; subst. inversion Hd as [|? ? Hdo Hd']; subst.
      cbn [map account]. destruct o as [f i sp|s l].
      + destruct Ho as (old & Hf & Hsp & Hin).
        cbn [aop_of account_op]. unfold sizes_of. rewrite (map_nth_error _ _ _ Hf).
        rewrite (account_range_len _ _ _ _ Hf Hsp Hin).
        destruct (IH (r0 + Z.of_nat (length (den_op bs olds src (OpRange f i sp))))%Z f0 Hr' Hd') as (r & f' & Ha & He).
        exists r, f'. split; [exact Ha|].
        unfold den in *. cbn [map concat]. rewrite app_length. lia.
      + cbn [aop_of account_op].
        destruct (IH r0 (f0 + Z.of_N l)%Z Hr' Hd') as (r & f' & Ha & He).
        exists r, f'. split; [exact Ha|].
        unfold den in *. cbn [map concat den_op]. rewrite app_length.
        cbn [data_ok] in Hdo. rewrite (sub_length src s l Hdo). lia.
  Qed.
End AccountProofs.

(** the theorem about the differ's own operations *)
Lemma accounting_lemma :
  forall (H : Type) (shash : list N -> H) (heqb : H -> H -> bool) (bs maxData : N)
         (olds : list (list N)) (src : list N) (pref : option N),
    0 < bs -> 0 < maxData -> (forall x y, heqb x y = true -> x = y) -> strong_injective shash bs olds src ->
    forall ops, diff_ops shash heqb bs maxData olds src pref = Some ops ->
    exists reused fresh,
      account (Z.of_N bs) (sizes_of olds) (0, 0)%Z (map aop_of ops) = Some (reused, fresh) /\
      (reused + fresh = Z.of_N (len src))%Z.
Proof.
  intros H shash heqb bs maxData olds src pref Hbs Hmax Hh Hinj ops Hd.
  destruct (diff_ops_spec H shash heqb bs maxData olds src pref Hbs Hmax Hh Hinj) as (ops' & Hd' & Hden & Hr & Hdat & _).
  rewrite Hd in Hd'. injection Hd' as <-.
  destruct (account_den bs olds src Hbs ops 0%Z 0%Z Hr Hdat) as (r & f & Ha & He).
  exists r, f. split; [exact Ha|]. rewrite Hden in He. unfold len. lia.
Qed.
