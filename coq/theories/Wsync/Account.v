(** pwr/diff.go [makeOpsWriter]: the ReusedBytes / FreshBytes accounting of a patch, and
    [ComputeBlockSize].  Go computes in [int64]; the model uses [Z].  The block size
    ([pwr.BlockSize], 64 KiB) is a parameter.  Model only (proofs: [AccountProofs.v]). *)
From Wharf Require Import Base.Prelude.

(** an operation as the accounting sees it: a block range, or a data op of some length *)
Inductive aop :=
| AR (file idx span : N)
| AD (len : N).

Section Account.
  Variable bs : Z.
  Local Open Scope Z_scope.

  (** [if BlockSize*(blockIndex+1) > fileSize { return fileSize % BlockSize }; return BlockSize] *)
  Definition compute_block_size (fileSize blockIndex : Z) : Z :=
    if bs * (blockIndex + 1) >? fileSize then Z.rem fileSize bs else bs.

  (** one call of the operation writer on counters [(reused, fresh)];
      [None]: [files[op.FileIndex]] is out of range (Go panics) *)
  Definition account_op (sizes : list Z) (acc : Z * Z) (o : aop) : option (Z * Z) :=
    let '(reused, fresh) := acc in
    match o with
    | AR f i sp =>
        match nth_error sizes (N.to_nat f) with
        | None => None
        | Some fileSize =>
            let lastBlockIndex := Z.of_N i + Z.of_N sp - 1 in
            let tailSize := compute_block_size fileSize lastBlockIndex in
            Some (reused + (bs * (Z.of_N sp - 1) + tailSize), fresh)
        end
    | AD l => Some (reused, fresh + Z.of_N l)
    end.

  Fixpoint account (sizes : list Z) (acc : Z * Z) (ops : list aop) : option (Z * Z) :=
    match ops with
    | [] => Some acc
    | o :: r => match account_op sizes acc o with
                | Some acc' => account sizes acc' r
                | None => None
                end
    end.
End Account.
