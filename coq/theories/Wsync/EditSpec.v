(** Vocabulary of the C08 edit bound: the fresh bytes of an operation list, "no two consecutive
    windows share their weak hash" (the differ's [β == oldβ] shortcut never fires), sync points,
    localized edits (the three kinds of the C08 harness, [c08EditAt], applied one after the
    other, offsets and lengths clipped to the current file), and sources described as a
    sequence of pieces (fresh bytes / a stretch copied from an old file).  Definitions only
    (proofs: [SyncProofs.v], [PieceProofs.v], [EditProofs.v]). *)
From Wharf Require Import Base.Prelude Wsync.Weak Wsync.Diff Wsync.Apply Wsync.Library Wsync.Sign Wsync.Account Wsync.Spec.
Local Open Scope N_scope.

(** the data bytes an operation list carries (what [makeOpsWriter] adds up as FreshBytes) *)
Fixpoint fresh_of (ops : list op) : N :=
  match ops with
  | [] => 0
  | o :: r => data_len o + fresh_of r
  end.

(** the hypothesis on the content: no two consecutive full windows of the source have the same
    weak hash.  ([ComputeDiff] skips the library lookup of a window whose rolled hash equals the
    previous one; on high-entropy data this has probability about 2^-16 per position.) *)
Definition no_weak_repeat (bs : N) (src : list N) : Prop :=
  forall p, p + 1 + bs <= len src -> weak_of (sub src p bs) <> weak_of (sub src (p + 1) bs).

(** ... decided (for the examples and the executable sweeps; soundness: [C08EditTheorems.nwr_b_sound]) *)
Definition nwr_b (bs : N) (src : list N) : bool :=
  forallb (fun p => let p := N.of_nat p in
                    negb ((p + 1 + bs <=? len src) && (weak_of (sub src p bs) =? weak_of (sub src (p + 1) bs))))
          (seq 0 (length src)).

(** the same, only where it matters: the window at [q] is not skipped *)
Definition not_skipped (bs : N) (src : list N) (q : N) : Prop :=
  q = 0 \/ weak_of (sub src (q - 1) bs) <> weak_of (sub src q bs).

(** the full window of the source at [q] has the content of some complete block of an old file *)
Definition old_block_at (bs : N) (olds : list (list N)) (src : list N) (q : N) : Prop :=
  q + bs <= len src /\
  exists f i old, nth_error olds (N.to_nat f) = Some old /\ bs * (i + 1) <= len old /\
                  sub old (bs * i) bs = sub src q bs.

(** increasing positions, at least [bs] apart, none below [lo]: the windows do not overlap *)
Fixpoint gapped (bs lo : N) (qs : list N) : Prop :=
  match qs with
  | [] => True
  | q :: r => lo <= q /\ gapped bs (q + bs) r
  end.

(** sync points of [src] w.r.t. the old files: non-overlapping windows holding old blocks that the
    differ does not skip *)
Definition sync_points (bs : N) (olds : list (list N)) (src : list N) (qs : list N) : Prop :=
  gapped bs 0 qs /\ Forall (fun q => old_block_at bs olds src q /\ not_skipped bs src q) qs.

(** * localized edits *)

Inductive edit :=
| Overwrite (at_ : N) (data : list N)     (* in place: [data] replaces the bytes from [at_] on (clipped at the end of the file) *)
| Insert (at_ : N) (data : list N)        (* [data] is inserted before offset [at_]; everything behind it shifts *)
| Delete (at_ : N) (n : N).               (* [n] bytes from [at_] on are removed; everything behind shifts *)

(** bytes of [data] that fit when overwriting at [at_] in a file of length [n] *)
Definition ow_len (n at_ : N) (data : list N) : N := N.min (len data) (n - at_).

Definition apply_edit (e : edit) (l : list N) : list N :=
  match e with
  | Overwrite a d => let m := ow_len (len l) a d in sub l 0 a ++ sub d 0 m ++ sub l (a + m) (len l)
  | Insert a d => sub l 0 a ++ d ++ sub l a (len l)
  | Delete a n => sub l 0 a ++ sub l (a + n) (len l)
  end.

(** bytes the edit introduces *)
Definition introduced (e : edit) (l : list N) : N :=
  match e with
  | Overwrite a d => ow_len (len l) a d
  | Insert _ d => len d
  | Delete _ _ => 0
  end.

(** the edits one after the other, each on the result of the previous ones; total of introduced bytes *)
Fixpoint apply_edits (es : list edit) (l : list N) : list N * N :=
  match es with
  | [] => (l, 0)
  | e :: r => let '(l', n) := apply_edits r (apply_edit e l) in (l', introduced e l + n)
  end.

(** * sources as sequences of pieces *)

Inductive piece :=
| PFresh (data : list N)            (* bytes that are not claimed to be anywhere in the old build *)
| PCopy (f off n : N).              (* [olds[f][off, off+n)] *)

Definition piece_ok (olds : list (list N)) (p : piece) : Prop :=
  match p with
  | PFresh _ => True
  | PCopy f o n => exists old, nth_error olds (N.to_nat f) = Some old /\ o + n <= len old
  end.

Definition piece_bytes (olds : list (list N)) (p : piece) : list N :=
  match p with
  | PFresh d => d
  | PCopy f o n => sub (nth (N.to_nat f) olds []) o n
  end.

Definition flatten (olds : list (list N)) (pl : list piece) : list N := concat (map (piece_bytes olds) pl).

Definition piece_fresh (p : piece) : N := match p with PFresh d => len d | PCopy _ _ _ => 0 end.

Fixpoint pieces_fresh (pl : list piece) : N :=
  match pl with [] => 0 | p :: r => piece_fresh p + pieces_fresh r end.

(** 1 when [x] is off the block grid *)
Definition misal (bs x : N) : N := if x mod bs =? 0 then 0 else 1.

(** number of ends of copied stretches that are off the block grid of the old file *)
Definition piece_cuts (bs : N) (p : piece) : N :=
  match p with PFresh _ => 0 | PCopy _ o n => misal bs o + misal bs (o + n) end.

Fixpoint pieces_cuts (bs : N) (pl : list piece) : N :=
  match pl with [] => 0 | p :: r => piece_cuts bs p + pieces_cuts bs r end.
