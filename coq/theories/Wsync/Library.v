(** wsync/block_library.go [NewBlockLibrary] and wsync/hashes.go [findUniqueHash].
    The strong hash type [H] and its equality are parameters (MD5 + bytes.Equal in Go).
    Model only (proofs: [LibraryProofs.v]). *)
From Wharf Require Import Base.Prelude Wsync.Weak.
Local Open Scope N_scope.

Section Library.
  Variable H : Type.
  Variable heqb : H -> H -> bool.

  (** wsync.BlockHash *)
  Record ent := mkEnt {
    efile : N;      (* FileIndex *)
    eidx : N;       (* BlockIndex *)
    eweak : N;      (* WeakHash *)
    eshort : N;     (* ShortSize: 0 for a full block (and for the synthetic empty block) *)
    estrong : H     (* StrongHash *)
  }.

  (** [hashLookup[key]]: the hashes with that weak hash, in signature order
      ([NewBlockLibrary] appends to the bucket of [hash.WeakHash] in the order of [hashes]) *)
  Definition hash_lookup (lib : list ent) (weak : N) : list ent :=
    filter (fun e => eweak e =? weak) lib.

  (** [findUniqueHash(hh, data, shortSize, preferredFileIndex)]; [wlen = len(data)], [wh tt] is the
      strong hash of [data] (computed lazily in Go as well); [pref = None] is index -1 *)
  Definition find_unique_hash (hh : list ent) (wlen : N) (wh : unit -> H) (short : N) (pref : option N) : option ent :=
    if wlen =? 0 then None
    else
      let ok (e : ent) := (eshort e =? short) && heqb (estrong e) (wh tt) in
      let first := match pref with
                   | Some p => find (fun e => (efile e =? p) && ok e) hh
                   | None => None
                   end in
      match first with
      | Some e => Some e
      | None => find ok hh
      end.

  (** [if hh, ok := library.hashLookup[β]; ok { blockHash = ctx.findUniqueHash(...) }] *)
  Definition lookup_in (lib : list ent) (pref : option N) (swin : N -> N -> H)
             (weak a wlen short : N) : option (N * N) :=
    match hash_lookup lib weak with
    | [] => None
    | hh => match find_unique_hash hh wlen (fun _ => swin a wlen) short pref with
            | Some e => Some (efile e, eidx e)
            | None => None
            end
    end.
End Library.

Arguments mkEnt {H}.
Arguments efile {H}. Arguments eidx {H}. Arguments eweak {H}. Arguments eshort {H}. Arguments estrong {H}.
Arguments hash_lookup {H}.
Arguments find_unique_hash {H}.
Arguments lookup_in {H}.
