(** Vocabulary of the C11 / C08 statements: slices, block counts, the payload of an operation,
    what "in bounds", "merged", "only a leading empty data op" mean.  Definitions only. *)
From Wharf Require Import Base.Prelude Wsync.Diff Wsync.Apply Wsync.Library Wsync.Sign Wsync.Account.
Local Open Scope N_scope.

(** [n] elements of [l] from offset [a] (fewer when [l] ends before) *)
Definition sub {A} (l : list A) (a n : N) : list A := firstn (N.to_nat n) (skipn (N.to_nat a) l).

Definition len {A} (l : list A) : N := N.of_nat (length l).

(** number of blocks of a file: ceil(len / bs) *)
Definition num_blocks (bs : N) (old : list N) : N := (len old + bs - 1) / bs.

(** the operation with its payload: a data op carries [src[start, start+len)] *)
Definition conc (src : list N) (o : op) : cop :=
  match o with
  | OpRange f i sp => CRange f i sp
  | OpData s l => CData (sub src s l)
  end.

(** a block range addresses blocks that exist in the named old file *)
Definition range_ok (bs : N) (olds : list (list N)) (o : op) : Prop :=
  match o with
  | OpRange f i sp => exists old, nth_error olds (N.to_nat f) = Some old /\ 1 <= sp /\ i + sp <= num_blocks bs old
  | OpData _ _ => True
  end.

(** no two consecutive operations are ranges of the same file that continue each other *)
Definition mergeable (a b : op) : Prop :=
  match a, b with
  | OpRange f i sp, OpRange f' i' _ => f = f' /\ i + sp = i'
  | _, _ => False
  end.

Fixpoint no_adjacent_mergeable (ops : list op) : Prop :=
  match ops with
  | a :: ((b :: _) as r) => ~ mergeable a b /\ no_adjacent_mergeable r
  | _ => True
  end.

Definition data_len (o : op) : N := match o with OpData _ l => l | OpRange _ _ _ => 0 end.

(** an empty data operation can only be the first operation *)
Definition empty_only_leading (ops : list op) : Prop :=
  forall k o, nth_error ops k = Some o -> is_empty_data o = true -> k = 0%nat.

(** the blocks the signature of [olds] speaks about (an empty file has one empty block) *)
Definition signed_block (bs : N) (olds : list (list N)) (f i : N) (blk : list N) : Prop :=
  exists old, nth_error olds (N.to_nat f) = Some old /\ nth_error (file_blocks bs old) (N.to_nat i) = Some blk.

(** the strong hash separates every signed block from every window of the source it can be
    compared with ("MD5 injective on the blocks in play") *)
Definition strong_injective {H} (shash : list N -> H) (bs : N) (olds : list (list N)) (src : list N) : Prop :=
  forall f i blk a l, signed_block bs olds f i blk -> a + l <= len src ->
    shash blk = shash (sub src a l) -> blk = sub src a l.

(** source accessor and the whole pipeline: signature of the old files, library, differ *)
Definition get_of (src : list N) (i : N) : N := nth (N.to_nat i) src 0.

Definition diff_ops {H} (shash : list N -> H) (heqb : H -> H -> bool) (bs maxData : N)
           (olds : list (list N)) (src : list N) (pref : option N) : option (list op) :=
  compute_diff bs maxData (get_of src) (len src)
    (lookup_in heqb (sign_all shash bs 0 olds) pref (fun a l => shash (sub src a l))).

(** what pwr's operation writer sees of an operation, and the file sizes of the old container *)
Definition aop_of (o : op) : aop :=
  match o with
  | OpRange f i sp => AR f i sp
  | OpData _ l => AD l
  end.

Definition sizes_of (olds : list (list N)) : list Z := map (fun o => Z.of_nat (length o)) olds.

Definition is_range_op (o : op) : Prop := match o with OpRange _ _ _ => True | OpData _ _ => False end.
