(** The library built from the signature of the old files: what a reported match means. *)
From Wharf Require Import Base.Prelude Base.BlocksLemmas Wsync.Weak Wsync.Diff Wsync.Apply Wsync.Library Wsync.Sign Wsync.Spec
     Wsync.ApplyProofs Wsync.DiffProofs.
From Coq Require Import ZifyBool ZifyNat ZifyN.
Ltac Zify.zify_post_hook ::= Z.div_mod_to_equations.
Local Open Scope N_scope.

Lemma blocks_nth {A} (bs : nat) : (0 < bs)%nat -> forall (i : nat) (l : list A) (b : list A),
  nth_error (blocks bs l) i = Some b ->
  b = firstn bs (skipn (i * bs) l) /\ (i * bs < length l)%nat.
Proof.
  intros Hbs. induction i as [|i IH]; intros l b H.
  - destruct l as [|x l']; [rewrite blocks_nil in H; discriminate|].
    rewrite (blocks_cons bs Hbs) in H by congruence. cbn [nth_error] in H. injection H as <-.
    cbn [Nat.mul skipn length]. split; [reflexivity|lia].
  - destruct l as [|x l']; [rewrite blocks_nil in H; discriminate|].
    rewrite (blocks_cons bs Hbs) in H by congruence. cbn [nth_error] in H.
    destruct (IH _ _ H) as [Hb Hlt]. rewrite skipn_length in Hlt.
    split.
    + rewrite Hb. rewrite skipn_skipn'. f_equal. f_equal. lia.
    + lia.
Qed.

Lemma blocks_nth_inv {A} (bs : nat) : (0 < bs)%nat -> forall (i : nat) (l : list A),
  (i * bs < length l)%nat -> nth_error (blocks bs l) i = Some (firstn bs (skipn (i * bs) l)).
Proof.
  intros Hbs. induction i as [|i IH]; intros l H.
  - destruct l as [|x l']; [cbn in H; lia|].
    rewrite (blocks_cons bs Hbs) by congruence. reflexivity.
  - destruct l as [|x l']; [cbn in H; lia|].
    rewrite (blocks_cons bs Hbs) by congruence. cbn [nth_error].
    rewrite IH by (rewrite skipn_length; lia).
    rewrite skipn_skipn'. f_equal. f_equal. f_equal. lia.
Qed.

Section LibraryProofs.
  Variable H : Type.
  Variable shash : list N -> H.
  Variable heqb : H -> H -> bool.
  Variable bs : N.
  Hypothesis bs_pos : 0 < bs.
  Hypothesis heqb_sound : forall x y, heqb x y = true -> x = y.

  (** every entry of the signature is the hash of a signed block *)
  Lemma sign_blocks_in file : forall bl idx e,
    In e (sign_blocks shash bs file idx bl) ->
    efile e = file /\ idx <= eidx e /\
    exists blk, nth_error bl (N.to_nat (eidx e - idx)) = Some blk /\ e = hash_block shash bs file (eidx e) blk.
  Proof.
    induction bl as [|b r IH]; intros idx e Hin; [contradiction|].
    cbn [sign_blocks] in Hin. destruct Hin as [<-|Hin].
    - cbn [hash_block efile eidx]. split; [reflexivity|]. split; [lia|].
      exists b. replace (idx - idx) with 0 by lia. split; reflexivity.
    - destruct (IH _ _ Hin) as (Hf & Hi & blk & Hn & He).
      split; [assumption|]. split; [lia|]. exists blk. split; [|assumption].
      replace (N.to_nat (eidx e - idx)) with (S (N.to_nat (eidx e - (idx + 1)))) by lia. exact Hn.
  Qed.

  Lemma sign_all_in : forall olds base e,
    In e (sign_all shash bs base olds) ->
    base <= efile e /\
    exists old blk, nth_error olds (N.to_nat (efile e - base)) = Some old /\
                    nth_error (file_blocks bs old) (N.to_nat (eidx e)) = Some blk /\
                    e = hash_block shash bs (efile e) (eidx e) blk.
  Proof.
    induction olds as [|o r IH]; intros base e Hin; [contradiction|].
    cbn [sign_all] in Hin. apply in_app_or in Hin. destruct Hin as [Hin|Hin].
    - unfold sign_file in Hin. destruct (sign_blocks_in _ _ _ _ Hin) as (Hf & _ & blk & Hn & He).
      rewrite N.sub_0_r in Hn. split; [lia|]. exists o, blk.
      split; [replace (N.to_nat (efile e - base)) with 0%nat by lia; reflexivity|]. split; [assumption|]. rewrite Hf. exact He.
    - destruct (IH _ _ Hin) as (Hb & old & blk & Ho & Hn & He).
      split; [lia|]. exists old, blk. split; [|split; assumption].
      replace (N.to_nat (efile e - base)) with (S (N.to_nat (efile e - (base + 1)))) by lia. exact Ho.
  Qed.

  Lemma find_unique_hash_some hh wlen wh short pref e :
    find_unique_hash heqb hh wlen wh short pref = Some e ->
    wlen <> 0 /\ In e hh /\ eshort e = short /\ estrong e = wh tt.
  Proof.
    unfold find_unique_hash. destruct (wlen =? 0) eqn:Ew; [discriminate|]. apply N.eqb_neq in Ew.
    intros Hf.
    assert (Hok : exists p : ent H -> bool, (forall x, p x = true -> (eshort x =? short) && heqb (estrong x) (wh tt) = true) /\
                                            find p hh = Some e).
    { destruct pref as [p|].
      - destruct (find (fun e0 => (efile e0 =? p) && ((eshort e0 =? short) && heqb (estrong e0) (wh tt))) hh) eqn:E1.
        + injection Hf as <-. eexists. split; [|exact E1]. intros x Hx. apply andb_true_iff in Hx. tauto.
        + eexists. split; [|exact Hf]. auto.
      - eexists. split; [|exact Hf]. auto. }
    destruct Hok as (p & Hp & Hfind). apply find_some in Hfind. destruct Hfind as [Hin Hpe].
    specialize (Hp _ Hpe). apply andb_true_iff in Hp. destruct Hp as [Hs Hh]. apply N.eqb_eq in Hs.
    split; [assumption|]. split; [assumption|]. split; [assumption|]. apply heqb_sound. assumption.
  Qed.

  Variable olds : list (list N).
  Variable src : list N.
  Variable pref : option N.
  Hypothesis Hinj : strong_injective shash bs olds src.

  Theorem lookup_in_sound :
    lookup_sound bs olds src (lookup_in heqb (sign_all shash bs 0 olds) pref (fun a l => shash (sub src a l))).
  Proof.
    intros weak a wlen short f i Hl Hin Hwbs. unfold lookup_in in Hl.
    destruct (hash_lookup (sign_all shash bs 0 olds) weak) as [|h0 hr] eqn:Ehh; [discriminate|].
    destruct (find_unique_hash heqb (h0 :: hr) wlen _ short pref) as [e|] eqn:Ef; [|discriminate].
    injection Hl as <- <-.
    destruct (find_unique_hash_some _ _ _ _ _ _ Ef) as (Hw0 & Hine & Hshort & Hstrong).
    rewrite <- Ehh in Hine. unfold hash_lookup in Hine. apply filter_In in Hine. destruct Hine as [Hine _].
    destruct (sign_all_in _ _ _ Hine) as (_ & old & blk & Hold & Hblk & He).
    rewrite N.sub_0_r in Hold.
    assert (Hstr : estrong e = shash blk) by (rewrite He; reflexivity).
    assert (Hsh : eshort e = if len blk <? bs then len blk else 0) by (rewrite He; reflexivity).
    assert (Heq : blk = sub src a wlen).
    { apply (Hinj (efile e) (eidx e)); [exists old; split; assumption|assumption|]. rewrite <- Hstr. exact Hstrong. }
    assert (Hlen : len blk = wlen) by (rewrite Heq; apply sub_len; assumption).
    split; [lia|]. split; [rewrite <- Hshort, Hsh, Hlen; reflexivity|].
    exists old. split; [assumption|].
    (* a non-empty block is a real block of the file *)
    assert (Hreal : nth_error (blocks (N.to_nat bs) old) (N.to_nat (eidx e)) = Some blk).
    { unfold file_blocks in Hblk. destruct (blocks (N.to_nat bs) old) eqn:Eb; [|exact Hblk].
      destruct (N.to_nat (eidx e)) as [|k]; cbn in Hblk; [|destruct k; discriminate].
      injection Hblk as <-. unfold len in Hlen. cbn in Hlen. lia. }
    destruct (blocks_nth (N.to_nat bs) ltac:(lia) _ _ _ Hreal) as [Hb Hlt].
    assert (Hsub : blk = sub old (bs * eidx e) bs).
    { rewrite Hb. unfold sub. f_equal. f_equal. lia. }
    split.
    - rewrite <- Hlen. rewrite Hsub. unfold sub, len. rewrite firstn_length, skipn_length. lia.
    - rewrite <- Hsub. exact Heq.
  Qed.
End LibraryProofs.

(** completeness: a block of an old file is found at its own position *)
Section LibraryComplete.
  Variable H : Type.
  Variable shash : list N -> H.
  Variable heqb : H -> H -> bool.
  Variable bs : N.
  Hypothesis bs_pos : 0 < bs.
  Hypothesis heqb_refl : forall x, heqb x x = true.

  Lemma sign_blocks_has file : forall bl idx j blk,
    nth_error bl j = Some blk ->
    In (hash_block shash bs file (idx + N.of_nat j) blk) (sign_blocks shash bs file idx bl).
  Proof.
    induction bl as [|b r IH]; intros idx j blk Hn; [destruct j; discriminate|].
    destruct j as [|j]; cbn [nth_error] in Hn.
    - injection Hn as <-. cbn [sign_blocks]. left. f_equal. lia.
    - cbn [sign_blocks]. right. replace (idx + N.of_nat (S j)) with (idx + 1 + N.of_nat j) by lia. apply IH. exact Hn.
  Qed.

  Lemma sign_all_has : forall olds base f old i blk,
    nth_error olds f = Some old -> nth_error (file_blocks bs old) i = Some blk ->
    In (hash_block shash bs (base + N.of_nat f) (N.of_nat i) blk) (sign_all shash bs base olds).
  Proof.
    induction olds as [|o r IH]; intros base f old i blk Hf Hb; [destruct f; discriminate|].
    cbn [sign_all]. apply in_or_app. destruct f as [|f]; cbn [nth_error] in Hf.
    - injection Hf as <-. left. unfold sign_file. replace (base + N.of_nat 0) with base by lia.
      apply (sign_blocks_has base _ 0 i blk Hb).
    - right. replace (base + N.of_nat (S f)) with (base + 1 + N.of_nat f) by lia. eapply IH; eassumption.
  Qed.

  Variable olds : list (list N).
  Variable src : list N.
  Variable pref : option N.
  Variable f0 : N.
  Hypothesis Hsrc : nth_error olds (N.to_nat f0) = Some src.

  Theorem lookup_in_complete : forall k wlen,
    0 < wlen -> wlen <= bs -> bs * k + wlen <= len src -> (wlen < bs -> bs * k + wlen = len src) ->
    lookup_in heqb (sign_all shash bs 0 olds) pref (fun a l => shash (sub src a l))
              (weak_of (sub src (bs * k) wlen)) (bs * k) wlen (if wlen <? bs then wlen else 0) <> None.
  Proof.
    intros k wlen Hw0 Hwbs Hin Hshort.
    set (blk := sub src (bs * k) wlen).
    assert (Hlen : len blk = wlen) by (apply sub_len; assumption).
    (* blk is block k of src *)
    assert (Hblk : nth_error (file_blocks bs src) (N.to_nat k) = Some blk).
    { assert (Hk : (N.to_nat k * N.to_nat bs < length src)%nat) by (unfold len in Hin; nia).
      pose proof (blocks_nth_inv (N.to_nat bs) ltac:(lia) _ _ Hk) as Hn.
      assert (Hb : firstn (N.to_nat bs) (skipn (N.to_nat k * N.to_nat bs) src) = blk).
      { unfold blk. destruct (N.eq_dec wlen bs) as [->|Hne].
        - unfold sub. f_equal. f_equal. lia.
        - transitivity (sub src (bs * k) bs); [unfold sub; f_equal; f_equal; lia|].
          symmetry. apply sub_beyond; lia. }
      rewrite Hb in Hn. unfold file_blocks. destruct (blocks (N.to_nat bs) src); [destruct (N.to_nat k); discriminate|exact Hn]. }
    pose proof (sign_all_has olds 0 _ _ _ _ Hsrc Hblk) as He0.
    set (e0 := hash_block shash bs (0 + N.of_nat (N.to_nat f0)) (N.of_nat (N.to_nat k)) blk) in He0.
    unfold lookup_in.
    assert (Hin0 : In e0 (hash_lookup (sign_all shash bs 0 olds) (weak_of blk))).
    { unfold hash_lookup. apply filter_In. split; [exact He0|]. unfold e0. cbn [hash_block eweak]. apply N.eqb_refl. }
    destruct (hash_lookup (sign_all shash bs 0 olds) (weak_of blk)) as [|h0 hr] eqn:Ehh; [contradiction|].
    assert (Hok : (eshort e0 =? (if wlen <? bs then wlen else 0)) && heqb (estrong e0) (shash (sub src (bs * k) wlen)) = true).
    { unfold e0. cbn [hash_block eshort estrong]. fold (len blk). rewrite Hlen, N.eqb_refl. fold blk. rewrite heqb_refl. reflexivity. }
    unfold find_unique_hash. destruct (wlen =? 0) eqn:Ew; [apply N.eqb_eq in Ew; lia|].
    match goal with |- context [match ?first with Some e => Some e | None => find ?ok (h0 :: hr) end] =>
      destruct first as [e1|]; [discriminate|];
      destruct (find ok (h0 :: hr)) as [e2|] eqn:Ef; [discriminate|] end.
    exfalso. pose proof (find_none _ _ Ef e0 Hin0) as Hf. cbv beta in Hf. rewrite Hok in Hf. discriminate.
  Qed.
End LibraryComplete.
