(** The library built from the signature of the old files: what a reported match means. *)
From Wharf Require Import Base.Prelude Base.BlocksLemmas Wsync.Weak Wsync.Diff Wsync.Apply Wsync.Library Wsync.Sign Wsync.Spec
     Wsync.ApplyProofs Wsync.DiffProofs.
From Coq Require Import ZifyBool ZifyNat ZifyN.
Ltac Zify.zify_post_hook ::= Z.div_mod_to_equations.
Local Open Scope N_scope.

Lemma blocks_nth {A} (bs : nat) : (0 < bs)%nat -> forall (i : nat) (l : list A) (b : list A),
  nth_error (blocks bs l) i = Some b ->
  b = firstn bs (skipn (i * bs) l) /\ (i * bs < length l)%nat.
Proof.
  intros Hbs. induction i as [|i IH]; intros l b H.
  - destruct l as [|x l']; [rewrite blocks_nil in H; discriminate|].
    rewrite (blocks_cons bs Hbs) in H by congruence. cbn [nth_error] in H. injection H as <-.
    cbn [Nat.mul skipn length]. split; [reflexivity|lia].
  - destruct l as [|x l']; [rewrite blocks_nil in H; discriminate|].
    rewrite (blocks_cons bs Hbs) in H by congruence. cbn [nth_error] in H.
    destruct (IH _ _ H) as [Hb Hlt]. rewrite skipn_length in Hlt.
    split.
    + rewrite Hb. rewrite skipn_skipn'. f_equal. f_equal. lia.
    + lia.
Qed.

Lemma blocks_nth_inv {A} (bs : nat) : (0 < bs)%nat -> forall (i : nat) (l : list A),
  (i * bs < length l)%nat -> nth_error (blocks bs l) i = Some (firstn bs (skipn (i * bs) l)).
Proof.
  intros Hbs. induction i as [|i IH]; intros l H.
  - destruct l as [|x l']; [cbn in H; lia|].
    rewrite (blocks_cons bs Hbs) by congruence. reflexivity.
  - destruct l as [|x l']; [cbn in H; lia|].
    rewrite (blocks_cons bs Hbs) by congruence. cbn [nth_error].
    rewrite IH by (rewrite skipn_length; lia).
    rewrite skipn_skipn'. f_equal. f_equal. f_equal. lia.
Qed.

Section LibraryProofs.
  Variable H : Type.
  Variable shash : list N -> H.
  Variable heqb : H -> H -> bool.
  Variable bs : N.
  Hypothesis bs_pos : 0 < bs.
  Hypothesis heqb_sound : forall x y, heqb x y = true -> x = y.

  (** every entry of the signature is the hash of a signed block *)
  Lemma sign_blocks_in file : forall bl idx e,
    In e (sign_blocks shash bs file idx bl) ->
    efile e = file /\ idx <= eidx e /\
    exists blk, nth_error bl (N.to_nat (eidx e - idx)) = Some blk /\ e = hash_block shash bs file (eidx e) blk.
  Proof.
    induction bl as [|b r IH]; intros idx e Hin; [contradiction|].
    cbn [sign_blocks] in Hin. destruct Hin as [<-|Hin].
    - cbn [hash_block efile eidx]. split; [reflexivity|]. split; [lia|].
      exists b. replace (idx - idx) with 0 by lia. split; reflexivity.
    - destruct (IH _ _ Hin) as (Hf & Hi & blk & Hn & He).
      split; [assumption|]. split; [lia|]. exists blk. split; [|assumption].
      replace (N.to_nat (eidx e - idx)) with (S (N.to_nat (eidx e - (idx + 1)))) by lia. exact Hn.
  Qed.

  Lemma sign_all_in : forall olds base e,
    In e (sign_all shash bs base olds) ->
    base <= efile e /\
    exists old blk, nth_error olds (N.to_nat (efile e - base)) = Some old /\
                    nth_error (file_blocks bs old) (N.to_nat (eidx e)) = Some blk /\
                    e = hash_block shash bs (efile e) (eidx e) blk.
  Proof.
    induction olds as [|o r IH]; intros base e Hin; [contradiction|].
    cbn [sign_all] in Hin. apply in_app_or in Hin. destruct Hin as [Hin|Hin].
    - unfold sign_file in Hin. destruct (sign_blocks_in _ _ _ _ Hin) as (Hf & _ & blk & Hn & He).
      rewrite N.sub_0_r in Hn. split; [lia|]. exists o, blk.
      split; [replace (N.to_nat (efile e - base)) with 0%nat by lia; reflexivity|]. split; [assumption|]. rewrite Hf. exact He.
    - destruct (IH _ _ Hin) as (Hb & old & blk & Ho & Hn & He).
      split; [lia|]. exists old, blk. split; [|split; assumption].
      replace (N.to_nat (efile e - base)) with (S (N.to_nat (efile e - (base + 1)))) by lia. exact Ho.
  Qed.

  Lemma find_unique_hash_some hh wlen wh short pref e :
    find_unique_hash heqb hh wlen wh short pref = Some e ->
    wlen <> 0 /\ In e hh /\ eshort e = short /\ estrong e = wh tt.
  Proof.
    unfold find_unique_hash. destruct (wlen =? 0) eqn:Ew; [discriminate|]. apply N.eqb_neq in Ew.
    intros Hf.
    assert (Hok : exists p : ent H -> bool, (forall x, p x = true -> (eshort x =? short) && heqb (estrong x) (wh tt) = true) /\
                                            find p hh = Some e).
    { destruct pref as [p|].
      - destruct (find (fun e0 => (efile e0 =? p) && ((eshort e0 =? short) && heqb (estrong e0) (wh tt))) hh) eqn:E1.
        + injection Hf as <-. eexists. split; [|exact E1]. intros x Hx. apply andb_true_iff in Hx. tauto.
        + eexists. split; [|exact Hf]. auto.
      - eexists. split; [|exact Hf]. auto. }
    destruct Hok as (p & Hp & Hfind). apply find_some in Hfind. destruct Hfind as [Hin Hpe].
    specialize (Hp _ Hpe). apply andb_true_iff in Hp. destruct Hp as [Hs Hh]. apply N.eqb_eq in Hs.
    split; [assumption|]. split; [assumption|]. split; [assumption|]. apply heqb_sound. assumption.
  Qed.

  Variable olds : list (list N).
  Variable src : list N.
  Variable pref : option N.
  Hypothesis Hinj : strong_injective shash bs olds src.

  Theorem lookup_in_sound :
    lookup_sound bs olds src (lookup_in heqb (sign_all shash bs 0 olds) pref (fun a l => shash (sub src a l))).
  Proof.
    intros weak a wlen short f i Hl Hin Hwbs. unfold lookup_in in Hl.
    destruct (hash_lookup (sign_all shash bs 0 olds) weak) as [|h0 hr] eqn:Ehh; [discriminate|].
    destruct (find_unique_hash heqb (h0 :: hr) wlen _ short pref) as [e|] eqn:Ef; [|discriminate].
    injection Hl as <- <-.
    destruct (find_unique_hash_some _ _ _ _ _ _ Ef) as (Hw0 & Hine & Hshort & Hstrong).
    rewrite <- Ehh in Hine. unfold hash_lookup in Hine. apply filter_In in Hine. destruct Hine as [Hine _].
    destruct (sign_all_in _ _ _ Hine) as (_ & old & blk & Hold & Hblk & He).
    rewrite N.sub_0_r in Hold.
    assert (Hstr : estrong e = shash blk) by (rewrite He; reflexivity).
    assert (Hsh : eshort e = if len blk <? bs then len blk else 0) by (rewrite He; reflexivity).
    assert (Heq : blk = sub src a wlen).
    { apply (Hinj (efile e) (eidx e)); [exists old; split; assumption|assumption|]. rewrite <- Hstr. exact Hstrong. }
    assert (Hlen : len blk = wlen) by (rewrite Heq; apply sub_len; assumption).
    split; [lia|]. split; [rewrite <- Hshort, Hsh, Hlen; reflexivity|].
    exists old. split; [assumption|].
    (* a non-empty block is a real block of the file *)
    assert (Hreal : nth_error (blocks (N.to_nat bs) old) (N.to_nat (eidx e)) = Some blk).
    { unfold file_blocks in Hblk. destruct (blocks (N.to_nat bs) old) eqn:Eb; [|exact Hblk].
      destruct (N.to_nat (eidx e)) as [|k]; cbn in Hblk; [|destruct k; discriminate].
      injection Hblk as <-. unfold len in Hlen. cbn in Hlen. lia. }
    destruct (blocks_nth (N.to_nat bs) ltac:(lia) _ _ _ Hreal) as [Hb Hlt].
    assert (Hsub : blk = sub old (bs * eidx e) bs).
    { rewrite Hb. unfold sub. f_equal. f_equal. lia. }
    split.
    - rewrite <- Hlen. rewrite Hsub. unfold sub, len. rewrite firstn_length, skipn_length. lia.
    - rewrite <- Hsub. exact Heq.
  Qed.
End LibraryProofs.
