(** Proofs about the [ComputeDiff] model: one invariant over the loop states.
    Part 1: the emitter ([enqueue], [send], [flush_prev]).  Part 2: the four blocks of the loop
    body.  Part 3: the loop and the final theorems, for any [lookup] that is sound. *)
From Wharf Require Import Base.Prelude Wsync.Weak Wsync.Diff Wsync.Apply Wsync.Library Wsync.Sign Wsync.Spec Wsync.ApplyProofs.
From Coq Require Import ZifyBool ZifyNat ZifyN.
Ltac Zify.zify_post_hook ::= Z.div_mod_to_equations.
Local Open Scope N_scope.

(** * list-level facts *)

Definition lastop (l : list op) : option op := hd_error (rev l).

Lemma lastop_snoc l o : lastop (l ++ [o]) = Some o.
Proof. unfold lastop. rewrite rev_app_distr. reflexivity. Qed.

Lemma lastop_nil : lastop [] = None.
Proof. reflexivity. Qed.

Lemma mergeable_span_indep a f i sp sp' : mergeable a (OpRange f i sp) <-> mergeable a (OpRange f i sp').
Proof. destruct a; cbn; tauto. Qed.

Lemma nam_snoc (l : list op) (o : op) :
  no_adjacent_mergeable (l ++ [o]) <->
  no_adjacent_mergeable l /\ match lastop l with Some a => ~ mergeable a o | None => True end.
Proof.
  induction l as [|a l IH].
  - cbn. tauto.
  - destruct l as [|b l'].
    + cbn [app no_adjacent_mergeable]. unfold lastop. cbn. tauto.
    + change ((a :: b :: l') ++ [o]) with (a :: (b :: l') ++ [o]).
      assert (Hl : lastop (a :: b :: l') = lastop (b :: l')).
      { unfold lastop. cbn [rev]. destruct (rev l' ++ [b]) eqn:E.
        - destruct (rev l'); discriminate.
        - reflexivity. }
      rewrite Hl.
      change (no_adjacent_mergeable (a :: (b :: l') ++ [o]))
        with (~ mergeable a b /\ no_adjacent_mergeable ((b :: l') ++ [o])).
      change (no_adjacent_mergeable (a :: b :: l'))
        with (~ mergeable a b /\ no_adjacent_mergeable (b :: l')).
      rewrite IH. tauto.
Qed.

Lemma tl_snoc {A} (l : list A) (o : A) : l <> [] -> tl (l ++ [o]) = tl l ++ [o].
Proof. destruct l; [congruence|reflexivity]. Qed.

Section DiffProofs.
  Variables (bs maxData : N).
  Variable olds : list (list N).
  Variable src : list N.
  Variable lookup : N -> N -> N -> N -> option (N * N).
  Hypothesis bs_pos : 0 < bs.
  Hypothesis max_pos : 0 < maxData.

  Notation srcLen := (len src).
  Notation den := (den bs olds src).
  Notation den_op := (den_op bs olds src).

  (** what the differ needs from the library: a reported match is a signed block, of the
      short-size class of the window, with the content of the window *)
  Definition lookup_sound : Prop :=
    forall weak a wlen short f i,
      lookup weak a wlen short = Some (f, i) -> a + wlen <= srcLen -> wlen <= bs ->
      0 < wlen /\ short = (if wlen <? bs then wlen else 0) /\
      exists old, nth_error olds (N.to_nat f) = Some old /\ bs * i + wlen <= len old /\
                  sub old (bs * i) bs = sub src a wlen.

  (** * Part 1: the emitter *)

  Definition ops_of (e : emitter) : list op :=
    rev (out e) ++ match prev e with Some p => [p] | None => [] end.

  Definition is_range (o : op) : Prop := match o with OpRange _ _ _ => True | OpData _ _ => False end.

  (** a range all of whose blocks are complete blocks of the file *)
  Definition full_range (o : op) : Prop :=
    match o with
    | OpRange f i sp => exists old, nth_error olds (N.to_nat f) = Some old /\ 1 <= sp /\ bs * (i + sp) <= len old
    | OpData _ _ => False
    end.

  Definition nonempty (o : op) : Prop := is_empty_data o = false.

  (** what holds of the emitted operations at the end ([P]: how much of the source they cover) *)
  Record EFin (e : emitter) (P : N) : Prop := {
    ef_den : den (ops_of e) = sub src 0 P;
    ef_rng : Forall (range_ok bs olds) (ops_of e);
    ef_dat : Forall (data_ok src) (ops_of e);
    ef_mrg : no_adjacent_mergeable (ops_of e);
    ef_emp : Forall nonempty (tl (ops_of e));
    ef_max : Forall (fun o => data_len o <= maxData) (ops_of e);
    ef_sent : sent e = len (out e);
    ef_prev : match prev e with Some p => is_range p | None => True end
  }.

  (** ... and while the loop runs *)
  Record EInv (e : emitter) (P : N) : Prop := {
    ei_fin : EFin e P;
    ei_all : Forall nonempty (ops_of e);
    ei_prev : match prev e with
              | Some p => full_range p
              | None => match out e with OpRange _ _ _ :: _ => False | _ => True end
              end
  }.

  Lemma full_range_ok o : full_range o -> range_ok bs olds o.
  Proof.
    destruct o as [f i sp|]; cbn; [|tauto]. intros (old & Hf & Hsp & Hfull).
    exists old. split; [assumption|]. split; [assumption|].
    apply num_blocks_spec; [assumption|assumption|].
    assert (bs * (i + sp - 1) + bs = bs * (i + sp)) by (replace (i + sp) with ((i + sp - 1) + 1) at 2 by lia; ring).
    lia.
  Qed.

  Lemma EInv_init : EInv (mkEm None 0 []) 0.
  Proof.
    split; [split|..]; cbn; try constructor; try reflexivity; auto.
  Qed.

  (** [flush_prev] does not change the operation list *)
  Lemma flush_prev_ops e :
    sent e = len (out e) -> match prev e with Some p => is_range p | None => True end ->
    ops_of (flush_prev e) = ops_of e /\ prev (flush_prev e) = None /\
    sent (flush_prev e) = len (out (flush_prev e)) /\
    out (flush_prev e) = match prev e with Some p => p :: out e | None => out e end.
  Proof.
    intros Hs Hp. unfold flush_prev, ops_of. destruct (prev e) as [p|] eqn:E.
    - destruct p as [f i sp|]; [|contradiction].
      unfold send. cbn [is_empty_data]. rewrite andb_false_r. cbn [prev sent out rev].
      rewrite app_nil_r. repeat split; try reflexivity.
      rewrite Hs. unfold len. cbn [length]. lia.
    - rewrite E. repeat split; assumption || reflexivity.
  Qed.

  Lemma send_nonempty e o : nonempty o -> send e o = mkEm (prev e) (sent e + 1) (o :: out e).
  Proof. unfold nonempty, send. intros ->. rewrite andb_false_r. reflexivity. Qed.

  (** a non-empty data operation *)
  Lemma enqueue_data e P l :
    EInv e P -> 0 < l -> l <= maxData -> P + l <= srcLen ->
    EInv (enqueue e (OpData P l)) (P + l).
  Proof.
    intros [HF Hall Hprev] Hl Hmax Hin.
    destruct HF as [Hden Hrng Hdat Hmrg Hemp Hmx Hsent Hpr].
    destruct (flush_prev_ops e Hsent Hpr) as (Hops & Hnone & Hsent' & Hout).
    assert (Hne : nonempty (OpData P l)) by (unfold nonempty; cbn; apply N.eqb_neq; lia).
    cbn [enqueue]. rewrite (send_nonempty _ _ Hne).
    set (e' := mkEm (prev (flush_prev e)) (sent (flush_prev e) + 1) (OpData P l :: out (flush_prev e))).
    assert (Hops' : ops_of e' = ops_of e ++ [OpData P l]).
    { rewrite <- Hops. unfold ops_of, e'. cbn [prev out rev]. rewrite Hnone, !app_nil_r. reflexivity. }
    split; [split|..].
    - rewrite Hops', den_app, Hden. unfold ApplyProofs.den. cbn [map concat ApplyProofs.den_op]. rewrite app_nil_r.
      rewrite (sub_app src 0 P l). reflexivity.
    - rewrite Hops'. apply Forall_app. split; [assumption|]. constructor; [exact I|constructor].
    - rewrite Hops'. apply Forall_app. split; [assumption|]. constructor; [cbn; lia|constructor].
    - rewrite Hops'. apply nam_snoc. split; [assumption|]. destruct (lastop (ops_of e)) as [a|]; [|exact I].
      destruct a; cbn; tauto.
    - rewrite Hops'. destruct (ops_of e) as [|a r] eqn:E; [constructor|].
      rewrite tl_snoc by congruence. apply Forall_app. split; [assumption|]. constructor; [assumption|constructor].
    - rewrite Hops'. apply Forall_app. split; [assumption|]. constructor; [cbn; lia|constructor].
    - unfold e'. cbn [sent out]. rewrite Hsent'. unfold len. cbn [length]. lia.
    - unfold e'. cbn [prev]. rewrite Hnone. exact I.
    - rewrite Hops'. apply Forall_app. split; [assumption|]. constructor; [assumption|constructor].
    - unfold e'. cbn [prev out]. rewrite Hnone. exact I.
  Qed.

  (** the last data operation: possibly empty, then dropped unless it is the first operation *)
  Lemma enqueue_data_last e P l :
    EInv e P -> l <= maxData -> P + l <= srcLen ->
    EFin (enqueue e (OpData P l)) (P + l).
  Proof.
    intros HI Hmax Hin.
    destruct (N.eq_dec l 0) as [->|Hnz].
    2:{ apply ei_fin. apply enqueue_data; [assumption|lia|assumption|assumption]. }
    destruct HI as [HF Hall Hprev].
    destruct HF as [Hden Hrng Hdat Hmrg Hemp Hmx Hsent Hpr].
    destruct (flush_prev_ops e Hsent Hpr) as (Hops & Hnone & Hsent' & Hout).
    rewrite N.add_0_r. cbn [enqueue]. unfold send. cbn [is_empty_data]. rewrite N.eqb_refl, andb_true_r.
    destruct (0 <? sent (flush_prev e)) eqn:Es.
    - (* dropped *)
      split; try (rewrite Hops; assumption).
      + assumption.
      + rewrite Hnone. exact I.
    - (* nothing was sent before: it is the only operation *)
      apply N.ltb_ge in Es.
      assert (Hnil : out (flush_prev e) = []).
      { rewrite Hsent' in Es. unfold len in Es. destruct (out (flush_prev e)); [reflexivity|cbn [length] in Es; lia]. }
      assert (Hnil' : ops_of e = []).
      { rewrite <- Hops. unfold ops_of. rewrite Hnil, Hnone. reflexivity. }
      set (e' := mkEm _ _ _).
      assert (Hops' : ops_of e' = [OpData P 0]).
      { unfold ops_of, e'. cbn [prev out]. rewrite Hnone, Hnil. reflexivity. }
      rewrite Hnil' in Hden. cbn in Hden.
      split.
      + rewrite Hops'. unfold ApplyProofs.den. cbn [map concat ApplyProofs.den_op]. rewrite app_nil_r. rewrite sub_nil.
        exact Hden.
      + rewrite Hops'. constructor; [exact I|constructor].
      + rewrite Hops'. constructor; [cbn; lia|constructor].
      + rewrite Hops'. exact I.
      + rewrite Hops'. constructor.
      + rewrite Hops'. constructor; [cbn; lia|constructor].
      + unfold e'. cbn [sent out]. rewrite Hnil. unfold len. cbn [length]. lia.
      + unfold e'. cbn [prev]. rewrite Hnone. exact I.
  Qed.

  (** the operation list after enqueueing a one-block range *)
  Lemma enqueue_range_ops e P f i :
    EInv e P ->
    let e' := enqueue e (OpRange f i 1) in
    sent e' = len (out e') /\
    ((ops_of e' = ops_of e ++ [OpRange f i 1] /\ prev e' = Some (OpRange f i 1) /\
      match lastop (ops_of e) with Some a => ~ mergeable a (OpRange f i 1) | None => True end)
     \/
     (exists l sp, ops_of e = l ++ [OpRange f (i - sp) sp] /\ sp <= i /\ full_range (OpRange f (i - sp) sp) /\
                   ops_of e' = l ++ [OpRange f (i - sp) (sp + 1)] /\ prev e' = Some (OpRange f (i - sp) (sp + 1)))).
  Proof.
    intros [HF Hall Hprev] e'.
    destruct HF as [Hden Hrng Hdat Hmrg Hemp Hmx Hsent Hpr].
    unfold e'. cbn [enqueue].
    destruct (prev e) as [p|] eqn:Ep.
    - destruct p as [pf pi psp|]; [|contradiction].
      destruct ((pf =? f) && (pi + psp =? i)) eqn:Em.
      + (* merged *)
        apply andb_true_iff in Em. destruct Em as [Ef Ei]. apply N.eqb_eq in Ef, Ei. subst f i.
        cbn [set_prev sent out prev]. split; [assumption|]. right.
        exists (rev (out e)), psp. unfold ops_of. cbn [prev out]. rewrite Ep.
        replace (pi + psp - psp) with pi by lia.
        repeat split; try reflexivity; try lia. exact Hprev.
      + (* flushed, then kept back *)
        destruct (flush_prev_ops e Hsent) as (Hops & Hnone & Hsent' & Hout); [rewrite Ep; exact I|].
        rewrite Ep in Hout.
        cbn [set_prev sent out prev]. split; [assumption|]. left.
        unfold ops_of at 1. cbn [set_prev prev out]. rewrite Hout. cbn [rev].
        unfold ops_of. rewrite Ep. split; [reflexivity|]. split; [reflexivity|].
        rewrite lastop_snoc. cbn [mergeable]. intros [Hf Hi]. subst.
        rewrite N.eqb_refl in Em. cbn in Em. apply N.eqb_neq in Em. congruence.
    - cbn [set_prev sent out prev]. split; [assumption|]. left.
      unfold ops_of. cbn [prev out]. rewrite Ep, app_nil_r. repeat split; try reflexivity.
      unfold lastop. rewrite rev_involutive.
      destruct (out e) as [|a r]; [exact I|]. cbn [hd_error]. destruct a; [contradiction|cbn; tauto].
  Qed.

  (** a matched window: [wlen] bytes at [P] equal block [i] of file [f] *)
  Definition match_at (P wlen f i : N) : Prop :=
    0 < wlen /\ wlen <= bs /\
    exists old, nth_error olds (N.to_nat f) = Some old /\ bs * i + wlen <= len old /\
                sub old (bs * i) bs = sub src P wlen.

  Lemma den_range_ext f i sp old :
    nth_error olds (N.to_nat f) = Some old ->
    den_op (OpRange f i (sp + 1)) = den_op (OpRange f i sp) ++ sub old (bs * (i + sp)) bs.
  Proof.
    intros Hf. cbn [ApplyProofs.den_op]. rewrite (nth_error_nth _ _ _ Hf).
    replace (bs * (sp + 1)) with (bs * sp + bs) by ring.
    rewrite sub_app. f_equal. f_equal. ring.
  Qed.

  Lemma enqueue_range_fin e P wlen f i :
    EInv e P -> match_at P wlen f i -> P + wlen <= srcLen ->
    EFin (enqueue e (OpRange f i 1)) (P + wlen).
  Proof.
    intros HI (Hw0 & Hwbs & old & Hf & Hlen & Hblk) Hin.
    destruct (enqueue_range_ops e P f i HI) as (Hsent' & Hcase).
    destruct HI as [HF Hall Hprev].
    destruct HF as [Hden Hrng Hdat Hmrg Hemp Hmx Hsent Hpr].
    assert (Hone : den_op (OpRange f i 1) = sub src P wlen).
    { cbn [ApplyProofs.den_op]. rewrite (nth_error_nth _ _ _ Hf). rewrite N.mul_1_r. exact Hblk. }
    assert (Hrok : forall i0 sp, i0 + sp = i + 1 -> 1 <= sp -> range_ok bs olds (OpRange f i0 sp)).
    { intros i0 sp Hi Hsp. exists old. split; [assumption|]. split; [assumption|].
      apply num_blocks_spec; [assumption|assumption|]. rewrite Hi. replace (i + 1 - 1) with i by lia. lia. }
    destruct Hcase as [(Hops & Hp & Hlast)|(l & sp & Hl & Hspi & Hfull & Hops & Hp)].
    - split.
      + rewrite Hops, den_app, Hden. unfold ApplyProofs.den at 1. cbn [map concat]. rewrite app_nil_r.
        fold den_op. rewrite Hone. rewrite (sub_app src 0 P wlen). reflexivity.
      + rewrite Hops. apply Forall_app. split; [assumption|]. constructor; [|constructor]. apply Hrok; lia.
      + rewrite Hops. apply Forall_app. split; [assumption|]. constructor; [exact I|constructor].
      + rewrite Hops. apply nam_snoc. split; assumption.
      + rewrite Hops. destruct (ops_of e) as [|a r] eqn:E; [constructor|].
        rewrite tl_snoc by congruence. apply Forall_app. split; [assumption|]. constructor; [reflexivity|constructor].
      + rewrite Hops. apply Forall_app. split; [assumption|]. constructor; [cbn; lia|constructor].
      + assumption.
      + rewrite Hp. exact I.
    - rewrite Hl in *.
      destruct Hfull as (old' & Hf' & Hsp1 & Hfull). rewrite Hf in Hf'. injection Hf' as <-.
      rewrite den_app in Hden. unfold ApplyProofs.den at 2 in Hden. cbn [map concat] in Hden. rewrite app_nil_r in Hden.
      split.
      + rewrite Hops, den_app. unfold ApplyProofs.den at 2. cbn [map concat]. rewrite app_nil_r.
        fold den_op. rewrite (den_range_ext _ _ _ _ Hf). rewrite app_assoc. fold den_op in Hden. rewrite Hden.
        replace (i - sp + sp) with i by lia. rewrite Hblk.
        rewrite (sub_app src 0 P wlen). reflexivity.
      + rewrite Hops. apply Forall_app in Hrng. destruct Hrng as [Hr1 _].
        apply Forall_app. split; [assumption|]. constructor; [|constructor]. apply Hrok; lia.
      + rewrite Hops. apply Forall_app in Hdat. destruct Hdat as [Hd1 _].
        apply Forall_app. split; [assumption|]. constructor; [exact I|constructor].
      + rewrite Hops. apply nam_snoc in Hmrg. destruct Hmrg as [Hm1 Hm2]. apply nam_snoc. split; [assumption|].
        destruct (lastop l) as [a|]; [|exact I].
        intros Hm. apply Hm2. eapply mergeable_span_indep. exact Hm.
      + rewrite Hops. destruct l as [|a r]; [constructor|].
        rewrite tl_snoc in Hemp by congruence. rewrite tl_snoc by congruence.
        apply Forall_app in Hemp. destruct Hemp as [He1 _].
        apply Forall_app. split; [assumption|]. constructor; [reflexivity|constructor].
      + rewrite Hops. apply Forall_app in Hmx. destruct Hmx as [Hx1 _].
        apply Forall_app. split; [assumption|]. constructor; [cbn; lia|constructor].
      + assumption.
      + rewrite Hp. exact I.
  Qed.

  (** a full window matched while the loop goes on *)
  Lemma enqueue_range_full e P f i :
    EInv e P -> match_at P bs f i -> P + bs <= srcLen ->
    EInv (enqueue e (OpRange f i 1)) (P + bs).
  Proof.
    intros HI Hm Hin. split.
    - eapply enqueue_range_fin; eassumption.
    - destruct (enqueue_range_ops e P f i HI) as (_ & Hcase).
      destruct HI as [HF Hall Hprev].
      destruct Hcase as [(Hops & _)|(l & sp & Hl & _ & _ & Hops & _)].
      + rewrite Hops. apply Forall_app. split; [assumption|]. constructor; [reflexivity|constructor].
      + rewrite Hops. rewrite Hl in Hall. apply Forall_app in Hall. destruct Hall as [Ha _].
        apply Forall_app. split; [assumption|]. constructor; [reflexivity|constructor].
    - destruct Hm as (_ & _ & old & Hf & Hlen & _).
      destruct (enqueue_range_ops e P f i HI) as (_ & Hcase).
      destruct Hcase as [(_ & Hp & _)|(l & sp & _ & Hspi & Hfull & _ & Hp)]; rewrite Hp.
      + exists old. split; [assumption|]. split; [lia|]. replace (bs * (i + 1)) with (bs * i + bs) by ring. assumption.
      + destruct Hfull as (old' & Hf' & Hsp1 & Hfull). exists old. split; [assumption|]. split; [lia|].
        replace (i - sp + (sp + 1)) with (i + 1) by lia. replace (bs * (i + 1)) with (bs * i + bs) by ring. assumption.
  Qed.

  (** operation lists for the "identical file" argument (C08) *)
  Lemma enqueue_empty_ops e P s :
    EInv e P ->
    ops_of (enqueue e (OpData s 0)) = ops_of e \/
    (ops_of e = [] /\ ops_of (enqueue e (OpData s 0)) = [OpData s 0]).
  Proof.
    intros [HF Hall Hprev].
    destruct HF as [Hden Hrng Hdat Hmrg Hemp Hmx Hsent Hpr].
    destruct (flush_prev_ops e Hsent Hpr) as (Hops & Hnone & Hsent' & Hout).
    cbn [enqueue]. unfold send. cbn [is_empty_data]. rewrite N.eqb_refl, andb_true_r.
    destruct (0 <? sent (flush_prev e)) eqn:Es.
    - left. exact Hops.
    - right. apply N.ltb_ge in Es.
      assert (Hnil : out (flush_prev e) = []).
      { rewrite Hsent' in Es. unfold len in Es. destruct (out (flush_prev e)); [reflexivity|cbn [length] in Es; lia]. }
      split.
      + rewrite <- Hops. unfold ops_of. rewrite Hnil, Hnone. reflexivity.
      + unfold ops_of. cbn [prev out]. rewrite Hnone, Hnil. reflexivity.
  Qed.

  Lemma enqueue_range_isrange e P f i :
    EInv e P -> Forall is_range_op (ops_of e) -> Forall is_range_op (ops_of (enqueue e (OpRange f i 1))).
  Proof.
    intros HI Hr. destruct (enqueue_range_ops e P f i HI) as (_ & Hcase).
    destruct Hcase as [(Hops & _)|(l & sp & Hl & _ & _ & Hops & _)]; rewrite Hops.
    - apply Forall_app. split; [assumption|]. constructor; [exact I|constructor].
    - rewrite Hl in Hr. apply Forall_app in Hr. destruct Hr as [Hr _].
      apply Forall_app. split; [assumption|]. constructor; [exact I|constructor].
  Qed.

  (** * Part 2: the loop body *)

  Notation get := (get_of src).

  Ltac proj := cbn [base dataTail dataHead sumTail validTo aPop beta beta1 beta2 rolling lastRun shortSize oof em] in *.

  Lemma EInv_eq e P Q : EInv e P -> P = Q -> EInv e Q.
  Proof. intros H <-. exact H. Qed.

  Lemma EFin_eq e P Q : EFin e P -> P = Q -> EFin e Q.
  Proof. intros H <-. exact H. Qed.

  (** the invariant at the head of the loop *)
  Record Inv (s : st) : Prop := {
    i_em : EInv (em s) (base s + dataTail s);
    i_dt : dataTail s <= dataHead s;
    i_dh : dataHead s = sumTail s;
    i_st : sumTail s <= validTo s;
    i_len : base s + validTo s <= srcLen;
    i_max : dataHead s - dataTail s <= maxData;
    i_buf : validTo s <= L bs maxData;
    i_run : lastRun s = false;
    i_oof : oof s = false
  }.

  (** ... and once the loop has ended *)
  Definition FinalInv (s : st) : Prop :=
    lastRun s = true /\ oof s = false /\ exists P, srcLen <= P /\ EFin (em s) P.

  Lemma Inv_init : Inv init.
  Proof.
    split; cbn [init base dataTail dataHead sumTail validTo lastRun oof em]; try lia; try reflexivity;
      try exact EInv_init; unfold L; lia.
  Qed.

  (** after "determine if the buffer should be extended" *)
  Record Refilled (s s1 : st) : Prop := {
    r_em : EInv (em s1) (base s1 + dataTail s1);
    r_dt : dataTail s1 <= dataHead s1;
    r_dh : dataHead s1 = sumTail s1;
    r_st : sumTail s1 <= validTo s1;
    r_len : base s1 + validTo s1 <= srcLen;
    r_max : dataHead s1 - dataTail s1 <= maxData;
    r_buf : validTo s1 <= L bs maxData;
    r_oof : oof s1 = false;
    r_full : lastRun s1 = false -> sumTail s1 + bs <= validTo s1;
    r_last : lastRun s1 = true -> base s1 + validTo s1 = srcLen;
    r_short : lastRun s1 = true -> sumTail s1 + bs < validTo s1 -> shortSize s1 <> 0;
    r_pos : base s1 + sumTail s1 = base s + sumTail s
  }.

  Lemma refill_spec s : Inv s -> Refilled s (refill bs maxData srcLen s).
  Proof.
    intros [Hem Hdt Hdh Hst Hlen Hmax Hbuf Hrun Hoof].
    destruct s as [b dt dh stl vt ap be b1 b2 ro lr ss oo e]. proj. subst dh lr oo.
    unfold refill. proj.
    destruct (vt <? stl + bs) eqn:Eref.
    2:{ apply N.ltb_ge in Eref. split; proj; try assumption; try reflexivity; try lia; try discriminate. }
    apply N.ltb_lt in Eref.
    (* the state after the optional wrap *)
    set (s1 := if L bs maxData <? vt + bs then wrap (mkSt b dt stl stl vt ap be b1 b2 ro false ss false e)
               else mkSt b dt stl stl vt ap be b1 b2 ro false ss false e).
    assert (H1 : EInv (em s1) (base s1 + dataTail s1) /\ dataTail s1 <= dataHead s1 /\ dataHead s1 = sumTail s1 /\
                 sumTail s1 <= validTo s1 /\ base s1 + validTo s1 = b + vt /\ dataHead s1 - dataTail s1 <= maxData /\
                 oof s1 = false /\ lastRun s1 = false /\ validTo s1 < sumTail s1 + bs /\
                 base s1 + sumTail s1 = b + stl /\ validTo s1 + bs <= L bs maxData).
    { unfold s1. destruct (L bs maxData <? vt + bs) eqn:Ew.
      - unfold wrap. proj.
        assert (He : EInv (if dt <? stl then enqueue e (OpData (b + dt) (stl - dt)) else e) (b + stl + 0)).
        { destruct (dt <? stl) eqn:Ed.
          - apply N.ltb_lt in Ed. eapply EInv_eq; [apply enqueue_data; [exact Hem|lia|lia|lia]|lia].
          - apply N.ltb_ge in Ed. eapply EInv_eq; [exact Hem|lia]. }
        apply N.ltb_lt in Ew. unfold L in *. split; [exact He|]. lia.
      - apply N.ltb_ge in Ew. proj. unfold L in *. split; [exact Hem|]. lia. }
    destruct H1 as (He1 & Hdt1 & Hdh1 & Hst1 & Hlen1 & Hmax1 & Hoof1 & Hrun1 & Href1 & Hpos1 & Hbuf1).
    clearbody s1. destruct s1 as [b' dt' dh' stl' vt' ap' be' b1' b2' ro' lr' ss' oo' e']. proj. subst dh' lr' oo'.
    set (n := N.min bs (srcLen - (b' + vt'))).
    assert (Hn : n <= bs /\ b' + vt' + n <= srcLen /\ (n < bs -> b' + vt' + n = srcLen)) by (unfold n; lia).
    destruct Hn as (Hn1 & Hn2 & Hn3).
    destruct (n <? bs) eqn:En.
    - apply N.ltb_lt in En. split; proj; try assumption; try reflexivity; try lia; try discriminate.
    - apply N.ltb_ge in En. split; proj; try assumption; try reflexivity; try lia; try discriminate.
  Qed.

  Lemma hash_step_shape s :
    exists be b1 b2 ro skip,
      hash_step bs get s =
      (mkSt (base s) (dataTail s) (dataHead s) (sumTail s) (validTo s) (aPop s) be b1 b2 ro (lastRun s) (shortSize s) (oof s) (em s), skip).
  Proof.
    unfold hash_step.
    destruct (rolling s && (sumTail s <? sum_head bs s)).
    - destruct (roll _ _ _ _ _) as [[be b1] b2]. eauto 10.
    - destruct (bhash _) as [[be b1] b2]. eauto 10.
  Qed.

  (** the trailing data of the last run *)
  Lemma last_data_spec b vt : b + vt <= srcLen ->
    forall fuel e dt, EInv e (b + dt) -> dt <= vt -> (N.to_nat ((vt - dt) / maxData) < fuel)%nat ->
      exists e' dt', last_data maxData fuel e b dt vt = (e', dt', false) /\ EFin e' (b + vt).
  Proof.
    intros Hlen. induction fuel as [|k IH]; intros e dt He Hdt Hfuel; [exfalso; exact (Nat.nlt_0_r _ Hfuel)|].
    cbn [last_data]. destruct (maxData <? vt - dt) eqn:Ec.
    - apply N.ltb_lt in Ec.
      apply IH.
      + eapply EInv_eq; [apply enqueue_data; [exact He|lia|lia|lia]|lia].
      + lia.
      + assert (Hd : (vt - dt) / maxData = (vt - (dt + maxData)) / maxData + 1).
        { replace (vt - dt) with ((vt - (dt + maxData)) + 1 * maxData) by lia.
          rewrite N.div_add by lia. reflexivity. }
        lia.
    - apply N.ltb_ge in Ec. eexists _, _. split; [reflexivity|].
      eapply EFin_eq; [apply enqueue_data_last; [exact He|lia|lia]|lia].
  Qed.

  Hypothesis Hsound : lookup_sound.

  (** one iteration: the invariant again and progress, or the final state *)
  Lemma iter_inv s :
    Inv s ->
    let s' := iter bs maxData get srcLen lookup s in
    (Inv s' /\ base s + sumTail s < base s' + sumTail s') \/ FinalInv s'.
  Proof.
    intros HI s'. unfold s', iter.
    pose proof (refill_spec s HI) as R. set (s1 := refill bs maxData srcLen s) in *. clearbody s1.
    destruct R as [Hem Hdt Hdh Hst Hlen Hmax Hbuf Hoof Hfull Hlast Hshort Hpos].
    destruct (hash_step_shape s1) as (be & b1 & b2 & ro & skip & Hh). rewrite Hh. clear Hh.
    destruct s1 as [b dt dh stl vt ap be0 b10 b20 ro0 lr ss oo e]. proj. subst dh oo.
    unfold sum_head. proj.
    set (wlen := N.min (stl + bs) vt - stl).
    assert (Hw : wlen <= bs /\ b + stl + wlen <= srcLen /\ (lr = false -> wlen = bs) /\
                 (stl + bs < vt -> wlen = bs) /\ (vt <= stl + bs -> stl + wlen = vt)).
    { unfold wlen. repeat split; lia. }
    destruct Hw as (Hw1 & Hw2 & Hw3 & Hw4 & Hw5).
    set (hit := if skip then None else lookup be (b + stl) wlen ss).
    assert (Hhit : forall f i, hit = Some (f, i) -> match_at (b + stl) wlen f i /\ ss = (if wlen <? bs then wlen else 0)).
    { intros f i E. unfold hit in E. destruct skip; [discriminate|].
      destruct (Hsound _ _ _ _ _ _ E Hw2 Hw1) as (H0 & Hss & old & Hf & Hl & Hb).
      split; [|assumption]. split; [assumption|]. split; [assumption|]. exists old. auto. }
    clearbody hit.
    (* the data flush *)
    set (s3 := flush_data maxData _ _).
    assert (H3 : exists dt3 e3, s3 = mkSt b dt3 stl stl vt ap be b1 b2 ro lr ss false e3 /\
                 EInv e3 (b + dt3) /\ dt3 <= stl /\ stl - dt3 < maxData /\ (hit <> None -> dt3 = stl)).
    { unfold s3, flush_data. proj.
      destruct ((dt <? stl) && ((match hit with Some _ => true | None => false end) || (maxData <=? stl - dt))) eqn:Ef.
      - apply andb_true_iff in Ef. destruct Ef as [Ef1 _]. apply N.ltb_lt in Ef1.
        eexists _, _. split; [reflexivity|]. split; [|lia].
        eapply EInv_eq; [apply enqueue_data; [exact Hem|lia|lia|lia]|lia].
      - eexists _, _. split; [reflexivity|]. split; [exact Hem|]. split; [assumption|].
        apply andb_false_iff in Ef. destruct Ef as [Ef|Ef].
        + apply N.ltb_ge in Ef. split; [lia|]. intros _. lia.
        + apply orb_false_iff in Ef. destruct Ef as [Ef1 Ef2]. apply N.leb_gt in Ef2.
          split; [lia|]. intros Hne. destruct hit; [discriminate|congruence]. }
    destruct H3 as (dt3 & e3 & -> & He3 & Hdt3 & Hmax3 & Hflushed).
    unfold advance. proj.
    destruct hit as [[f i]|] eqn:Eh.
    - (* a match *)
      destruct (Hhit f i eq_refl) as (Hm & Hss).
      assert (dt3 = stl) by (apply Hflushed; discriminate). subst dt3.
      destruct lr eqn:Elr.
      + (* ... of the last window: the loop ends *)
        right. split; [reflexivity|]. split; [reflexivity|].
        exists (b + stl + wlen). split.
        * specialize (Hlast eq_refl).
          destruct (N.lt_ge_cases (stl + bs) vt) as [Hlt|Hge].
          -- exfalso. specialize (Hw4 Hlt). apply (Hshort eq_refl Hlt).
             rewrite Hss, Hw4. rewrite N.ltb_irrefl. reflexivity.
          -- specialize (Hw5 Hge). lia.
        * proj. eapply enqueue_range_fin; eassumption.
      + left. specialize (Hw3 eq_refl). specialize (Hfull eq_refl). rewrite Hw3 in *.
        split; [|proj; lia].
        split; proj; try reflexivity; try lia.
        eapply EInv_eq; [apply enqueue_range_full; [exact He3|exact Hm|lia]|lia].
    - destruct lr eqn:Elr.
      + (* the trailing data *)
        right. specialize (Hlast eq_refl).
        destruct (last_data_spec b vt ltac:(lia) (S (N.to_nat ((vt - dt3) / maxData))) e3 dt3 He3 ltac:(lia) ltac:(lia))
          as (e' & dt' & Hld & Hfin).
        rewrite Hld. split; [reflexivity|]. split; [reflexivity|]. proj.
        exists (b + vt). split; [lia|exact Hfin].
      + left. specialize (Hfull eq_refl).
        split; [|proj; lia].
        split; proj; try reflexivity; try lia. exact He3.
  Qed.

  (** * Part 3: the loop *)

  Notation Step := (step bs maxData get srcLen lookup).

  Lemma FinalInv_step s : FinalInv s -> Step s = s.
  Proof. intros (H & _). unfold step. rewrite H. reflexivity. Qed.

  Lemma loop_inv (k : N) :
    let s := N.iter k Step init in
    FinalInv s \/ (Inv s /\ k <= base s + sumTail s).
  Proof.
    induction k as [|k IH] using N.peano_ind.
    - right. split; [exact Inv_init|cbn; lia].
    - rewrite N.iter_succ. cbv zeta in IH. destruct IH as [HF|[HI Hk]].
      + left. rewrite FinalInv_step; assumption.
      + unfold step at 1. rewrite (i_run _ HI).
        destruct (iter_inv _ HI) as [[HI' Hprog]|HF].
        * right. split; [assumption|lia].
        * left. assumption.
  Qed.

  Lemma run_final : FinalInv (run bs maxData get srcLen lookup).
  Proof.
    unfold run. destruct (loop_inv (srcLen + 2)) as [HF|[HI Hk]]; [assumption|exfalso].
    pose proof (i_st _ HI). pose proof (i_len _ HI). lia.
  Qed.

  (** the operations of the differ, and everything the property says about them *)
  Theorem compute_diff_spec :
    exists ops, compute_diff bs maxData get srcLen lookup = Some ops /\
      den ops = src /\
      Forall (range_ok bs olds) ops /\ Forall (data_ok src) ops /\
      no_adjacent_mergeable ops /\ Forall nonempty (tl ops) /\
      Forall (fun o => data_len o <= maxData) ops.
  Proof.
    destruct run_final as (Hlr & Hoof & P & HP & HF).
    unfold compute_diff. rewrite Hlr, Hoof. cbn [andb negb].
    destruct HF as [Hden Hrng Hdat Hmrg Hemp Hmx Hsent Hpr].
    destruct (flush_prev_ops _ Hsent Hpr) as (Hops & Hnone & _ & _).
    assert (Hrev : rev (out (flush_prev (em (run bs maxData get srcLen lookup)))) = ops_of (em (run bs maxData get srcLen lookup))).
    { rewrite <- Hops. unfold ops_of. rewrite Hnone, app_nil_r. reflexivity. }
    eexists. split; [reflexivity|]. rewrite Hrev.
    repeat split; try assumption.
    rewrite Hden. apply sub_zero_all. assumption.
  Qed.
End DiffProofs.
