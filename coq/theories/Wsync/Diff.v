(** wsync/algo.go [ComputeDiff], line by line, with the block size [bs] and [MaxDataOp]
    ([maxData]) as parameters.  The source is read through an accessor [get] (absolute offsets),
    the buffer is *not* materialised: buffer index [i] holds source byte [base + i], and the
    buffer wrap ([copy(buffer[:l], buffer[sum.tail:validTo])] + index resets) becomes
    [base += sum.tail] with the same index resets as the Go code.  Data operations are recorded
    as absolute spans [OpData start len] of the source.  Model only (proofs: [DiffProofs.v]).

    The model follows the repaired code (repo commits "fix: split the trailing data operation ..."
    and "fix: ... hash an empty window from scratch"). *)
From Wharf Require Import Base.Prelude Wsync.Weak.
Local Open Scope N_scope.

Inductive op :=
| OpRange (file idx span : N)     (* OpBlockRange{FileIndex, BlockIndex, BlockSpan} *)
| OpData (start len : N).          (* OpData{Data: source[start : start+len]} *)

(** what sits between [enqueue] and the caller's OperationWriter *)
Record emitter := mkEm {
  prev : option op;     (* prevOp *)
  sent : N;             (* sendCount of makeOperationCleaner *)
  out : list op         (* operations handed to the caller, most recent first *)
}.

Definition is_empty_data (o : op) : bool :=
  match o with OpData _ l => l =? 0 | OpRange _ _ _ => false end.

(** makeOperationCleaner: [if sendCount > 0 && op.Type == OpData && len(op.Data) == 0 { return nil }; sendCount++; return ops(op)] *)
Definition send (e : emitter) (o : op) : emitter :=
  if (0 <? sent e) && is_empty_data o then e
  else mkEm (prev e) (sent e + 1) (o :: out e).

(** [err := ops(prevOp); prevOp = nil] (also the deferred flush at the end) *)
Definition flush_prev (e : emitter) : emitter :=
  match prev e with
  | Some p => let e' := send e p in mkEm None (sent e') (out e')
  | None => e
  end.

Definition set_prev (e : emitter) (p : option op) : emitter := mkEm p (sent e) (out e).

(** the [enqueue] closure *)
Definition enqueue (e : emitter) (o : op) : emitter :=
  match o with
  | OpRange f i sp =>
      match prev e with
      | Some (OpRange pf pi psp) =>
          if (pf =? f) && (pi + psp =? i)
          then set_prev e (Some (OpRange pf pi (psp + sp)))     (* prevOp.BlockSpan += op.BlockSpan *)
          else set_prev (flush_prev e) (Some o)
      | Some (OpData _ _) => set_prev (flush_prev e) (Some o)    (* prevOp is never a data op *)
      | None => set_prev e (Some o)
      end
  | OpData _ _ => send (flush_prev e) o
  end.

Record st := mkSt {
  base : N;          (* absolute source offset of buffer index 0 *)
  dataTail : N; dataHead : N;      (* data.tail, data.head *)
  sumTail : N;                     (* sum.tail (sum.head is recomputed every iteration) *)
  validTo : N;
  aPop : N; beta : N; beta1 : N; beta2 : N;
  rolling : bool; lastRun : bool;
  shortSize : N;
  oof : bool;        (* the fuel of the trailing-data loop ran out (excluded by the theorems) *)
  em : emitter
}.

Section Diff.
  Variables (bs maxData : N).
  Variable get : N -> N.            (* source byte at an absolute offset *)
  Variable srcLen : N.
  (** [library.hashLookup[β]] followed by [findUniqueHash(hh, buffer[sum.tail:sum.head], shortSize, preferredFileIndex)]:
      weak hash, absolute start and length of the window, shortSize -> (FileIndex, BlockIndex) *)
  Variable lookup : N -> N -> N -> N -> option (N * N).

  Definition L : N := 2 * bs + maxData.      (* minBufferSize = len(buffer) *)

  Definition with_em (s : st) (e : emitter) : st :=
    mkSt (base s) (dataTail s) (dataHead s) (sumTail s) (validTo s) (aPop s) (beta s) (beta1 s) (beta2 s)
         (rolling s) (lastRun s) (shortSize s) (oof s) e.

  (** "Wrap the buffer": trailing data sent off, [validTo = l; sum.tail = 0; data.head = 0; data.tail = 0] *)
  Definition wrap (s : st) : st :=
    let e := if dataTail s <? dataHead s
             then enqueue (em s) (OpData (base s + dataTail s) (dataHead s - dataTail s))
             else em s in
    let l := validTo s - sumTail s in
    mkSt (base s + sumTail s) 0 0 0 l (aPop s) (beta s) (beta1 s) (beta2 s) (rolling s) (lastRun s) (shortSize s) (oof s) e.

  (** "Determine if the buffer should be extended": [io.ReadAtLeast(source, buffer[validTo:validTo+bs], bs)]
      returns [n = min bs remaining], with an EOF error exactly when [n < bs] *)
  Definition refill (s : st) : st :=
    if validTo s <? sumTail s + bs then
      let s1 := if L <? validTo s + bs then wrap s else s in
      let n := N.min bs (srcLen - (base s1 + validTo s1)) in
      mkSt (base s1) (dataTail s1) (dataHead s1) (sumTail s1) (validTo s1 + n) (aPop s1) (beta s1) (beta1 s1) (beta2 s1)
           (rolling s1) (if n <? bs then true else lastRun s1) (if n <? bs then n else shortSize s1) (oof s1) (em s1)
    else s.

  Definition sum_head (s : st) : N := N.min (sumTail s + bs) (validTo s).

  (** "Compute the rolling hash": returns the new state and [skip] *)
  Definition hash_step (s : st) : st * bool :=
    let sh := sum_head s in
    let wlen := sh - sumTail s in
    if rolling s && (sumTail s <? sh) then
      let aPush := get (base s + sh - 1) in
      let '(be, b1, b2) := roll wlen (aPop s) aPush (beta1 s) (beta2 s) in
      (mkSt (base s) (dataTail s) (dataHead s) (sumTail s) (validTo s) (aPop s) be b1 b2 (rolling s) (lastRun s) (shortSize s) (oof s) (em s),
       be =? beta s)
    else
      let '(be, b1, b2) := bhash (window get (base s + sumTail s) wlen) in
      (mkSt (base s) (dataTail s) (dataHead s) (sumTail s) (validTo s) (aPop s) be b1 b2 true (lastRun s) (shortSize s) (oof s) (em s),
       false).

  (** "Send data off if there is data available and a hash is found ... or the data chunk size has reached it's maximum size" *)
  Definition flush_data (s : st) (hit : bool) : st :=
    if (dataTail s <? dataHead s) && (hit || (maxData <=? dataHead s - dataTail s)) then
      mkSt (base s) (dataHead s) (dataHead s) (sumTail s) (validTo s) (aPop s) (beta s) (beta1 s) (beta2 s)
           (rolling s) (lastRun s) (shortSize s) (oof s)
           (enqueue (em s) (OpData (base s + dataTail s) (dataHead s - dataTail s)))
    else s.

  (** the trailing data of the last run, in pieces of at most [maxData] bytes:
      [for validTo-data.tail > MaxDataOp { enqueue(buffer[data.tail:data.tail+MaxDataOp]); data.tail += MaxDataOp }; enqueue(buffer[data.tail:validTo])] *)
  Fixpoint last_data (fuel : nat) (e : emitter) (b dt vt : N) : emitter * N * bool :=
    match fuel with
    | O => (e, dt, true)
    | S k =>
        if maxData <? vt - dt
        then last_data k (enqueue e (OpData (b + dt) maxData)) b (dt + maxData) vt
        else (enqueue e (OpData (b + dt) (vt - dt)), dt, false)
    end.

  Definition advance (s : st) (hit : option (N * N)) : st :=
    match hit with
    | Some (f, i) =>
        let t := sumTail s + bs in
        mkSt (base s) t t t (validTo s) (aPop s) (beta s) (beta1 s) (beta2 s) false (lastRun s) (shortSize s) (oof s)
             (enqueue (em s) (OpRange f i 1))
    | None =>
        if lastRun s then
          let '(e, dt, o) := last_data (S (N.to_nat ((validTo s - dataTail s) / maxData))) (em s) (base s) (dataTail s) (validTo s) in
          mkSt (base s) dt (dataHead s) (sumTail s) (validTo s) (aPop s) (beta s) (beta1 s) (beta2 s) (rolling s) (lastRun s) (shortSize s)
               (oof s || o) e
        else
          mkSt (base s) (dataTail s) (sumTail s + 1) (sumTail s + 1) (validTo s)
               (if rolling s then get (base s + sumTail s) else aPop s)
               (beta s) (beta1 s) (beta2 s) (rolling s) (lastRun s) (shortSize s) (oof s) (em s)
    end.

  (** one iteration of [for !lastRun { ... }] *)
  Definition iter (s : st) : st :=
    let s1 := refill s in
    let '(s2, skip) := hash_step s1 in
    let hit := if skip then None
               else lookup (beta s2) (base s2 + sumTail s2) (sum_head s2 - sumTail s2) (shortSize s2) in
    let s3 := flush_data s2 (match hit with Some _ => true | None => false end) in
    advance s3 hit.

  Definition step (s : st) : st := if lastRun s then s else iter s.

  Definition init : st := mkSt 0 0 0 0 0 0 0 0 0 false false 0 false (mkEm None 0 []).

  (** every iteration that does not end the loop moves [sum.tail] forward by at least one byte
      and [sum.tail <= validTo <= srcLen]: [srcLen + 2] iterations always suffice *)
  Definition run : st := N.iter (srcLen + 2) step init.

  (** [None]: out of fuel (excluded by the theorems for [0 < bs], [0 < maxData]) *)
  Definition compute_diff : option (list op) :=
    let s := run in
    if lastRun s && negb (oof s)
    then Some (rev (out (flush_prev (em s))))       (* the deferred "send the last operation" *)
    else None.
End Diff.
