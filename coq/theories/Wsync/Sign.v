(** wsync/hashes.go [CreateSignature]: one BlockHash per [bs]-sized block (splitfunc), the last
    one possibly shorter ([ShortSize = len(block)] when [len(block) < bs]), and a synthetic
    empty block for an empty file.  Model only. *)
From Wharf Require Import Base.Prelude Wsync.Weak Wsync.Library.
Local Open Scope N_scope.

Section Sign.
  Variable H : Type.
  Variable shash : list N -> H.     (* ctx.uniqueHash *)
  Variable bs : N.

  Definition hash_block (file idx : N) (block : list N) : ent H :=
    let n := N.of_nat (length block) in
    mkEnt file idx (weak_of block) (if n <? bs then n else 0) (shash block).

  Fixpoint sign_blocks (file idx : N) (bl : list (list N)) : list (ent H) :=
    match bl with
    | [] => []
    | b :: r => hash_block file idx b :: sign_blocks file (idx + 1) r
    end.

  (** blocks of the file as the scanner yields them; "let empty files have a 0-length shortblock" *)
  Definition file_blocks (content : list N) : list (list N) :=
    match blocks (N.to_nat bs) content with
    | [] => [[]]
    | l => l
    end.

  Definition sign_file (file : N) (content : list N) : list (ent H) :=
    sign_blocks file 0 (file_blocks content).

  (** the signature of a container: files in index order *)
  Fixpoint sign_all (file : N) (olds : list (list N)) : list (ent H) :=
    match olds with
    | [] => []
    | o :: r => sign_file file o ++ sign_all (file + 1) r
    end.
End Sign.

Arguments hash_block {H}. Arguments sign_blocks {H}. Arguments sign_file {H}. Arguments sign_all {H}.
