(** One rolling step of [ComputeDiff]'s hash block is correct: if the state carries the weak hash
    of the window that starts one byte earlier, [hash_step] computes the weak hash of the current
    window (per-step preservation of "rolling => (beta, beta1, beta2) = bhash(window)"). *)
From Wharf Require Import Base.Prelude Wsync.Weak Wsync.Diff Wsync.WeakProofs.
From Coq Require Import ZifyBool ZifyNat ZifyN.
Local Open Scope N_scope.

Lemma window_aux_snoc get : forall k a,
  window_aux get a (S k) = window_aux get a k ++ [get (a + N.of_nat k)].
Proof.
  induction k as [|k IH]; intros a.
  - cbn [window_aux app]. rewrite N.add_0_r. reflexivity.
  - change (window_aux get a (S (S k))) with (get a :: window_aux get (a + 1) (S k)).
    rewrite IH. cbn [window_aux app]. do 3 f_equal. f_equal. lia.
Qed.

Lemma window_aux_length get : forall k a, length (window_aux get a k) = k.
Proof. induction k as [|k IH]; intros a; cbn [window_aux length]; [reflexivity|rewrite IH; reflexivity]. Qed.

Section Roll.
  Variable bs : N.
  Variable get : N -> N.
  Hypothesis bs_pos : 0 < bs.
  Hypothesis bs_u32 : bs < W32.
  Hypothesis bytes_u32 : forall i, get i < W32.

  Lemma hash_step_rolls_correctly (s : st) :
    rolling s = true -> 1 <= base s + sumTail s -> sumTail s + bs <= validTo s ->
    (beta s, beta1 s, beta2 s) = bhash (window get (base s + sumTail s - 1) bs) ->
    aPop s = get (base s + sumTail s - 1) ->
    let s' := fst (hash_step bs get s) in
    (beta s', beta1 s', beta2 s') = bhash (window get (base s + sumTail s) bs).
  Proof.
    intros Hro Hpos Hfull Hh Hpop s'. unfold s', hash_step.
    assert (Hsh : sum_head bs s = sumTail s + bs) by (unfold sum_head; lia).
    rewrite Hsh, Hro. replace (sumTail s <? sumTail s + bs) with true by (symmetry; apply N.ltb_lt; lia).
    cbn [andb]. replace (sumTail s + bs - sumTail s) with bs by lia.
    set (a := base s + sumTail s - 1) in *.
    (* the previous window is [get a :: m], the current one [m ++ [get (a + bs)]] *)
    destruct (N.to_nat bs) as [|k] eqn:Ek; [lia|].
    assert (Hprev : window get a bs = get a :: window_aux get (a + 1) k).
    { unfold window. rewrite Ek. reflexivity. }
    assert (Hcur : window get (base s + sumTail s) bs = window_aux get (a + 1) k ++ [get (a + bs)]).
    { unfold window. rewrite Ek. replace (base s + sumTail s) with (a + 1) by (unfold a; lia).
      rewrite window_aux_snoc. do 3 f_equal. lia. }
    pose proof (weak_rolling_eq_lemma (get a) (get (a + bs)) (window_aux get (a + 1) k)) as Hroll.
    cbv zeta in Hroll. cbn [length] in Hroll. rewrite window_aux_length in Hroll.
    replace (N.of_nat (S k)) with bs in Hroll by lia.
    specialize (Hroll bs_u32 (bytes_u32 a)).
    rewrite <- Hprev in Hroll. rewrite <- Hh in Hroll. rewrite <- Hcur in Hroll.
    replace (base s + (sumTail s + bs) - 1) with (a + bs) by (unfold a; lia).
    rewrite Hpop. rewrite Hroll.
    destruct (bhash (window get (base s + sumTail s) bs)) as [[be b1] b2]. reflexivity.
  Qed.
End Roll.
