(** C08: a source whose content equals an old file yields block ranges only (no data bytes).
    A second invariant over the same loop: no pending data, no rolling, window starts on block
    boundaries of the source. *)
From Wharf Require Import Base.Prelude Base.BlocksLemmas Wsync.Weak Wsync.Diff Wsync.Apply Wsync.Library Wsync.Sign Wsync.Account Wsync.Spec
     Wsync.ApplyProofs Wsync.DiffProofs Wsync.LibraryProofs Wsync.Theorems.
From Coq Require Import ZifyBool ZifyNat ZifyN.
Local Open Scope N_scope.

Section Identical.
  Variables (bs maxData : N).
  Variable olds : list (list N).
  Variable src : list N.
  Variable lookup : N -> N -> N -> N -> option (N * N).
  Hypothesis bs_pos : 0 < bs.
  Hypothesis max_pos : 0 < maxData.
  Hypothesis Hsound : lookup_sound bs olds src lookup.

  (** the library finds every block of the source at its own position (a full block, or the
      short last one) *)
  Hypothesis Hcomplete : forall k wlen,
    0 < wlen -> wlen <= bs -> bs * k + wlen <= len src -> (wlen < bs -> bs * k + wlen = len src) ->
    lookup (weak_of (sub src (bs * k) wlen)) (bs * k) wlen (if wlen <? bs then wlen else 0) <> None.

  Notation get := (get_of src).
  Notation srcLen := (len src).
  Notation Inv := (Inv bs maxData olds src).
  Notation EInv := (EInv bs maxData olds src).

  Ltac proj := cbn [base dataTail dataHead sumTail validTo aPop beta beta1 beta2 rolling lastRun shortSize oof em] in *.

  Record JX (s : st) : Prop := {
    j_dt : dataTail s = sumTail s;
    j_vt : validTo s = sumTail s;
    j_ro : rolling s = false;
    j_ss : shortSize s = 0;
    j_pos : exists k, base s + sumTail s = bs * k;
    j_rng : Forall is_range_op (ops_of (em s))
  }.

  Definition only_ranges (e : emitter) : Prop :=
    Forall is_range_op (ops_of e) \/ (srcLen = 0 /\ ops_of e = [OpData 0 0]).

  Lemma hash_step_scratch s :
    rolling s = false ->
    exists b1 b2,
      hash_step bs get s =
      (mkSt (base s) (dataTail s) (dataHead s) (sumTail s) (validTo s) (aPop s)
            (weak_of (window get (base s + sumTail s) (sum_head bs s - sumTail s))) b1 b2 true
            (lastRun s) (shortSize s) (oof s) (em s), false).
  Proof.
    intros Hro. unfold hash_step. rewrite Hro. cbn [andb]. unfold weak_of.
    destruct (bhash _) as [[be b1] b2]. eauto.
  Qed.

  Lemma iter_JX s :
    Inv s -> JX s ->
    let s' := iter bs maxData get srcLen lookup s in
    (lastRun s' = false -> JX s') /\ (lastRun s' = true -> only_ranges (em s')).
  Proof.
    intros [Hem Hdt Hdh Hst Hlen Hmax Hbuf Hrun Hoof] [Jdt Jvt Jro Jss (k & Jpos) Jrng] s'.
    destruct s as [b dt dh stl vt ap be b1 b2 ro lr ss oo e]. proj. subst dh lr oo dt vt ro ss.
    unfold s', iter, refill. proj.
    assert (Ht : (stl <? stl + bs) = true) by (apply N.ltb_lt; lia). rewrite Ht.
    (* the state after the optional wrap: nothing pending, so only the base moves *)
    assert (Hs1 : exists b' t',
               (if L bs maxData <? stl + bs then wrap (mkSt b stl stl stl stl ap be b1 b2 false false 0 false e)
                else mkSt b stl stl stl stl ap be b1 b2 false false 0 false e)
               = mkSt b' t' t' t' t' ap be b1 b2 false false 0 false e /\ b' + t' = b + stl).
    { destruct (L bs maxData <? stl + bs).
      - unfold wrap. proj. rewrite N.ltb_irrefl, N.sub_diag. exists (b + stl), 0. split; [reflexivity|lia].
      - exists b, stl. split; reflexivity. }
    destruct Hs1 as (b' & t' & -> & Hpos). proj.
    assert (Hem' : EInv e (b' + t')) by (rewrite Hpos; exact Hem).
    set (n := N.min bs (srcLen - (b' + t'))).
    assert (Hn : n <= bs /\ b' + t' + n <= srcLen /\ (n < bs -> b' + t' + n = srcLen)) by (unfold n; lia).
    destruct Hn as (Hn1 & Hn2 & Hn3).
    assert (Hwl : N.min (t' + bs) (t' + n) - t' = n) by lia.
    assert (Hak : b' + t' = bs * k) by lia.
    destruct (n <? bs) eqn:En.
    - (* the last run *)
      apply N.ltb_lt in En.
      match goal with |- context [hash_step bs get ?s1] => destruct (hash_step_scratch s1 eq_refl) as (c1 & c2 & Hh) end.
      rewrite Hh. clear Hh. unfold sum_head. proj. rewrite Hwl.
      destruct (N.eq_dec n 0) as [Hn0|Hn0].
      + (* nothing left: an empty window never matches, the trailing data is empty *)
        rewrite Hn0 in *.
        destruct (lookup (weak_of (window get (b' + t') 0)) (b' + t') 0 0) as [[f i]|] eqn:El.
        { exfalso. destruct (Hsound _ _ _ _ _ _ El) as (H0 & _); lia. }
        unfold flush_data. proj. rewrite N.ltb_irrefl. cbn [andb].
        unfold advance. proj.
        replace (t' + 0 - t') with 0 by lia. rewrite N.div_0_l by lia. cbn [N.to_nat last_data].
        replace (t' + 0 - t') with 0 by lia.
        assert (Hm0 : (maxData <? 0) = false) by (apply N.ltb_ge; lia). rewrite Hm0. proj.
        split; [discriminate|]. intros _.
        destruct (enqueue_empty_ops bs maxData olds src lookup bs_pos max_pos e (b' + t') (b' + t') Hem') as [Hops|[Hnil Hops]].
        * left. rewrite Hops. exact Jrng.
        * right. pose proof (ef_den _ _ _ _ _ _ (ei_fin _ _ _ _ _ _ Hem')) as Hden.
          rewrite Hnil in Hden. cbn in Hden.
          assert (Hz : b' + t' = 0).
          { destruct (N.eq_dec (b' + t') 0) as [E|E]; [assumption|exfalso].
            assert (Hl : len (sub src 0 (b' + t')) = b' + t') by (apply sub_len; lia).
            rewrite <- Hden in Hl. unfold len in Hl. cbn in Hl. lia. }
          rewrite Hz in *. split; [lia|exact Hops].
      + (* the short last block of the source *)
        assert (Hn0' : 0 < n) by lia.
        rewrite (sub_get src (b' + t') n) by lia. rewrite Hak.
        assert (Hc := Hcomplete k n Hn0' Hn1 ltac:(lia) ltac:(lia)).
        assert (Hcls : (if n <? bs then n else 0) = n) by (rewrite (proj2 (N.ltb_lt _ _) En); reflexivity).
        rewrite Hcls in Hc.
        destruct (lookup (weak_of (sub src (bs * k) n)) (bs * k) n n) as [[f i]|] eqn:El; [|congruence].
        unfold flush_data. proj. rewrite N.ltb_irrefl. cbn [andb].
        unfold advance. proj.
        split; [discriminate|]. intros _. left.
        exact (enqueue_range_isrange bs maxData olds src lookup bs_pos max_pos e (b' + t') f i Hem' Jrng).
    - (* a full block *)
      apply N.ltb_ge in En. assert (n = bs) by lia. 
      match goal with |- context [hash_step bs get ?s1] => destruct (hash_step_scratch s1 eq_refl) as (c1 & c2 & Hh) end.
      rewrite Hh. clear Hh. unfold sum_head. proj. rewrite Hwl. subst n. rewrite H in *.
      rewrite (sub_get src (b' + t') bs) by lia. rewrite Hak.
      assert (Hc := Hcomplete k bs bs_pos ltac:(lia) ltac:(lia) ltac:(lia)).
      rewrite N.ltb_irrefl in Hc.
      destruct (lookup (weak_of (sub src (bs * k) bs)) (bs * k) bs 0) as [[f i]|] eqn:El; [|congruence].
      unfold flush_data. proj. rewrite N.ltb_irrefl. cbn [andb].
      unfold advance. proj.
      split; [|discriminate]. intros _. split; proj; try reflexivity.
      + exists (k + 1). lia.
      + exact (enqueue_range_isrange bs maxData olds src lookup bs_pos max_pos e (b' + t') f i Hem' Jrng).
  Qed.

  Notation Step := (step bs maxData get srcLen lookup).

  Lemma loop_JX (k : N) :
    let s := N.iter k Step init in
    (lastRun s = true /\ only_ranges (em s)) \/ (Inv s /\ JX s).
  Proof.
    induction k as [|k IH] using N.peano_ind.
    - cbn [N.iter]. right. split; [apply Inv_init; assumption|].
      split; cbn [init base dataTail dataHead sumTail validTo rolling shortSize em]; try reflexivity.
      + exists 0. lia.
      + constructor.
    - rewrite N.iter_succ. cbv zeta in IH. cbv zeta. destruct IH as [[Hl Ho]|[HI HJ]].
      + left. assert (Hs : Step (N.iter k Step init) = N.iter k Step init) by (unfold step at 1; rewrite Hl; reflexivity).
        rewrite Hs. split; assumption.
      + assert (Hs : Step (N.iter k Step init) = iter bs maxData get srcLen lookup (N.iter k Step init))
          by (unfold step at 1; rewrite (i_run _ _ _ _ _ HI); reflexivity).
        rewrite Hs.
        destruct (iter_JX _ HI HJ) as [H1 H2].
        destruct (iter_inv bs maxData olds src lookup bs_pos max_pos Hsound _ HI) as [[HI' _]|(Hl & _)].
        * right. split; [assumption|]. apply H1. apply (i_run _ _ _ _ _ HI').
        * left. split; [assumption|]. apply H2. assumption.
  Qed.

  Theorem identical_ops :
    forall ops, compute_diff bs maxData get srcLen lookup = Some ops ->
      Forall is_range_op ops \/ (srcLen = 0 /\ ops = [OpData 0 0]).
  Proof.
    intros ops Hc.
    pose proof (run_final bs maxData olds src lookup bs_pos max_pos Hsound) as (Hlr & Hoof & P & HP & HF).
    unfold compute_diff in Hc. rewrite Hlr, Hoof in Hc. cbn [andb negb] in Hc. injection Hc as <-.
    destruct (flush_prev_ops bs maxData lookup bs_pos max_pos _ (ef_sent _ _ _ _ _ _ HF) (ef_prev _ _ _ _ _ _ HF)) as (Hops & Hnone & _ & _).
    assert (Hrev : rev (out (flush_prev (em (run bs maxData get srcLen lookup)))) = ops_of (em (run bs maxData get srcLen lookup))).
    { rewrite <- Hops. unfold ops_of. rewrite Hnone, app_nil_r. reflexivity. }
    rewrite Hrev.
    unfold run in *. destruct (loop_JX (srcLen + 2)) as [[_ Ho]|[HI _]].
    - exact Ho.
    - rewrite (i_run _ _ _ _ _ HI) in Hlr. discriminate.
  Qed.
End Identical.
