(** The C08 statements about [diff_ops], assembled from [IdenticalProofs], [LibraryProofs] and
    [AccountProofs]. *)
From Wharf Require Import Base.Prelude Wsync.Weak Wsync.Diff Wsync.Apply Wsync.Library Wsync.Sign Wsync.Account Wsync.Spec
     Wsync.ApplyProofs Wsync.DiffProofs Wsync.LibraryProofs Wsync.Theorems Wsync.AccountProofs Wsync.IdenticalProofs.
From Coq Require Import ZifyBool ZifyNat ZifyN.
Local Open Scope N_scope.

Lemma identical_file_no_fresh_lemma :
  forall (H : Type) (shash : list N -> H) (heqb : H -> H -> bool) (bs maxData : N)
         (olds : list (list N)) (src : list N) (pref : option N) (f : N),
    0 < bs -> 0 < maxData -> (forall x y, heqb x y = true <-> x = y) -> strong_injective shash bs olds src ->
    nth_error olds (N.to_nat f) = Some src ->
    forall ops, diff_ops shash heqb bs maxData olds src pref = Some ops ->
      Forall is_range_op ops \/ (src = [] /\ ops = [OpData 0 0]).
Proof.
  intros H shash heqb bs maxData olds src pref f Hbs Hmax Hh Hinj Hf ops Hd.
  unfold diff_ops in Hd.
  assert (Hsound : forall x y, heqb x y = true -> x = y) by (intros x y; apply Hh).
  assert (Hrefl : forall x, heqb x x = true) by (intros x; apply Hh; reflexivity).
  destruct (identical_ops bs maxData olds src _ Hbs Hmax
              (lookup_in_sound H shash heqb bs Hbs Hsound olds src pref Hinj)
              (lookup_in_complete H shash heqb bs Hbs Hrefl olds src pref f Hf) ops Hd) as [Hr|[Hl Ho]].
  - left. exact Hr.
  - right. split; [|exact Ho]. unfold len in Hl. destruct src; [reflexivity|cbn in Hl; lia].
Qed.

Lemma account_ranges_fresh bs sizes : forall ops r0 f0 r f,
  Forall is_range_op ops -> account bs sizes (r0, f0) (map aop_of ops) = Some (r, f) -> f = f0.
Proof.
  induction ops as [|o rest IH]; intros r0 f0 r f Hr Ha.
  - cbn in Ha. injection Ha as _ <-. reflexivity.
  - inversion Hr as [|? ? Ho Hr']; subst. destruct o as [fi i sp|]; [|contradiction].
    cbn [map aop_of account account_op] in Ha.
    destruct (nth_error sizes (N.to_nat fi)); [|discriminate].
    eapply IH; eassumption.
Qed.

(** a new file whose content equals an old file's content: ReusedBytes = its size, FreshBytes = 0 *)
Lemma identical_file_counters_lemma :
  forall (H : Type) (shash : list N -> H) (heqb : H -> H -> bool) (bs maxData : N)
         (olds : list (list N)) (src : list N) (pref : option N) (f : N),
    0 < bs -> 0 < maxData -> (forall x y, heqb x y = true <-> x = y) -> strong_injective shash bs olds src ->
    nth_error olds (N.to_nat f) = Some src ->
    forall ops, diff_ops shash heqb bs maxData olds src pref = Some ops ->
      account (Z.of_N bs) (sizes_of olds) (0, 0)%Z (map aop_of ops) = Some (Z.of_N (len src), 0%Z).
Proof.
  intros H shash heqb bs maxData olds src pref f Hbs Hmax Hh Hinj Hf ops Hd.
  assert (Hsound : forall x y, heqb x y = true -> x = y) by (intros x y; apply Hh).
  destruct (accounting_lemma H shash heqb bs maxData olds src pref Hbs Hmax Hsound Hinj ops Hd) as (r & fr & Ha & He).
  destruct (identical_file_no_fresh_lemma H shash heqb bs maxData olds src pref f Hbs Hmax Hh Hinj Hf ops Hd) as [Hr|[Hs Ho]].
  - pose proof (account_ranges_fresh _ _ _ _ _ _ _ Hr Ha) as ->. rewrite Ha. f_equal. f_equal. lia.
  - subst. cbn in Ha. injection Ha as <- <-. reflexivity.
Qed.

Lemma edits_fresh_bound_k0_lemma :
  forall (H : Type) (shash : list N -> H) (heqb : H -> H -> bool) (bs maxData : N)
         (olds : list (list N)) (src : list N) (pref : option N) (f : N),
    0 < bs -> 0 < maxData -> (forall x y, heqb x y = true <-> x = y) -> strong_injective shash bs olds src ->
    nth_error olds (N.to_nat f) = Some src ->
    forall ops reused fresh, diff_ops shash heqb bs maxData olds src pref = Some ops ->
      account (Z.of_N bs) (sizes_of olds) (0, 0)%Z (map aop_of ops) = Some (reused, fresh) ->
      (fresh <= 0 + (2 * 0 + 2) * Z.of_N bs)%Z.
Proof.
  intros H shash heqb bs maxData olds src pref f Hbs Hmax Hh Hinj Hf ops reused fresh Hd Ha.
  rewrite (identical_file_counters_lemma H shash heqb bs maxData olds src pref f Hbs Hmax Hh Hinj Hf ops Hd) in Ha.
  injection Ha as _ <-. lia.
Qed.
