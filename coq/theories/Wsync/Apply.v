(** wsync/algo.go [ApplySingleFull] (fail-fast path) and [ApplyPatch]: replaying operations
    against the old files.  Go computes in [int64]; the model uses [Z] (a span of 0 makes
    [fixedSize] negative).  Model only (proofs: [ApplyProofs.v]). *)
From Wharf Require Import Base.Prelude.

(** operations with their payload *)
Inductive cop :=
| CRange (file idx span : N)
| CData (data : list N).

Section Apply.
  Variable bs : N.
  Variable olds : list (list N).

  Local Open Scope Z_scope.

  (** [fileSize := pool.GetSize(op.FileIndex); fixedSize := (op.BlockSpan - 1) * blockSize;
       lastIndex := op.BlockIndex + (op.BlockSpan - 1); lastSize := blockSize;
       if blockSize*(lastIndex+1) > fileSize { lastSize = fileSize % blockSize }; opSize := fixedSize + lastSize] *)
  Definition op_size (fileSize : Z) (idx span : Z) : Z :=
    let blockSize := Z.of_N bs in
    let fixedSize := (span - 1) * blockSize in
    let lastIndex := idx + (span - 1) in
    let lastSize := if blockSize * (lastIndex + 1) >? fileSize then Z.rem fileSize blockSize else blockSize in
    fixedSize + lastSize.

  (** [target.Seek(blockSize*op.BlockIndex); io.CopyBuffer(output, io.LimitReader(target, opSize))]:
      at most [opSize] bytes from that offset (nothing when [opSize <= 0] or the offset is past the end).
      [None]: no such old file (the pool fails). *)
  Definition apply_op (o : cop) : option (list N) :=
    match o with
    | CData d => Some d
    | CRange f i sp =>
        match nth_error olds (N.to_nat f) with
        | None => None
        | Some old =>
            let sz := op_size (Z.of_nat (length old)) (Z.of_N i) (Z.of_N sp) in
            Some (firstn (Z.to_nat sz) (skipn (N.to_nat (bs * i)) old))
        end
    end.

  Fixpoint apply_ops (ops : list cop) : option (list N) :=
    match ops with
    | [] => Some []
    | o :: r =>
        match apply_op o, apply_ops r with
        | Some a, Some b => Some (a ++ b)
        | _, _ => None
        end
    end.
End Apply.
