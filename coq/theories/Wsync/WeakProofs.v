(** The rolling update of the weak hash equals the from-scratch hash of the shifted window
    (uint32 arithmetic, then modulo 2^16). *)
From Wharf Require Import Base.Prelude Wsync.Weak.
From Coq Require Import ZifyBool ZifyNat ZifyN.
Ltac Zify.zify_post_hook ::= Z.div_mod_to_equations.
Local Open Scope N_scope.

Lemma u32_mod x : u32 x = x mod W32.
Proof. unfold u32, W32. change 4294967295 with (N.ones 32). rewrite N.land_ones. reflexivity. Qed.

Lemma modM_mod x : modM x = x mod M16.
Proof. unfold modM, M16. change 65535 with (N.ones 16). rewrite N.land_ones. reflexivity. Qed.

(** plain sums: [asum l = sum of the bytes], [bsum k l = k*v0 + (k-1)*v1 + ...] *)
Fixpoint asum (l : list N) : N := match l with [] => 0 | v :: r => v + asum r end.
Fixpoint bsum (k : N) (l : list N) : N := match l with [] => 0 | v :: r => k * v + bsum (k - 1) r end.

(** the accumulators stay reduced, so the specification is stated up to the final reduction *)
Lemma bhash_loop_spec : forall block len i a b,
  i + N.of_nat (length block) <= len ->
  let '(a', b') := bhash_loop len i block a b in
  a' mod W32 = (a + asum block) mod W32 /\ b' mod W32 = (b + bsum (len - i) block) mod W32.
Proof.
  induction block as [|v r IH]; intros len i a b Hlen.
  - cbn [bhash_loop asum bsum]. rewrite !N.add_0_r. split; reflexivity.
  - cbn [bhash_loop asum bsum]. cbn [length] in Hlen.
    specialize (IH len (i + 1) (u32 (a + v)) (u32 (b + u32 ((len - i) * v))) ltac:(lia)).
    destruct (bhash_loop len (i + 1) r (u32 (a + v)) (u32 (b + u32 ((len - i) * v)))) as [a' b'].
    destruct IH as [Ha Hb]. rewrite !u32_mod in Ha, Hb.
    rewrite N.sub_add_distr in Hb.
    unfold W32 in *. split.
    + rewrite Ha. rewrite N.add_mod_idemp_l by discriminate. f_equal. ring.
    + rewrite Hb. rewrite N.add_mod_idemp_l by discriminate.
      rewrite u32_mod. unfold W32.
      replace (b + ((len - i) * v) mod 4294967296 + bsum (len - i - 1) r)
        with (((len - i) * v) mod 4294967296 + (b + bsum (len - i - 1) r)) by ring.
      rewrite N.add_mod_idemp_l by discriminate. f_equal. ring.
Qed.

Lemma mod_W_M x : (x mod W32) mod M16 = x mod M16.
Proof. unfold W32, M16. lia. Qed.

Lemma bhash_spec block :
  bhash block =
  ((asum block) mod M16 + M16 * ((bsum (N.of_nat (length block)) block) mod M16),
   (asum block) mod M16, (bsum (N.of_nat (length block)) block) mod M16).
Proof.
  unfold bhash.
  pose proof (bhash_loop_spec block (N.of_nat (length block)) 0 0 0 ltac:(lia)) as H.
  destruct (bhash_loop (N.of_nat (length block)) 0 block 0 0) as [a b].
  destruct H as [Ha Hb]. rewrite N.sub_0_r, !N.add_0_l in *.
  rewrite !modM_mod.
  assert (Ea : a mod M16 = asum block mod M16) by (rewrite <- (mod_W_M a), Ha; apply mod_W_M).
  assert (Eb : b mod M16 = bsum (N.of_nat (length block)) block mod M16) by (rewrite <- (mod_W_M b), Hb; apply mod_W_M).
  rewrite Ea, Eb. reflexivity.
Qed.

Lemma asum_snoc l y : asum (l ++ [y]) = asum l + y.
Proof. induction l as [|v r IH]; cbn [app asum]; [lia|rewrite IH; lia]. Qed.

Lemma bsum_snoc : forall l k y, N.of_nat (length l) < k -> bsum k (l ++ [y]) = bsum k l + (k - N.of_nat (length l)) * y.
Proof.
  induction l as [|v r IH]; intros k y Hk; cbn [app bsum length] in *.
  - rewrite N.sub_0_r. lia.
  - rewrite IH by lia. replace (k - 1 - N.of_nat (length r)) with (k - N.of_nat (S (length r))) by lia. lia.
Qed.

Lemma bsum_succ : forall l k, N.of_nat (length l) <= k -> bsum (k + 1) l = bsum k l + asum l.
Proof.
  induction l as [|v r IH]; intros k Hk; cbn [bsum asum length] in *; [lia|].
  replace (k + 1 - 1) with (k - 1 + 1) by lia. rewrite IH by lia. lia.
Qed.

(** congruences modulo 2^16, with explicit quotients so that [lia] sees linear facts only *)
Lemma cong1 c x y Am q :
  x + Am = 65536 * q + c -> x < 4294967296 ->
  (c + 4294967296 - x + y) mod 65536 = (Am + y) mod 65536.
Proof. intros H Hx. lia. Qed.

Lemma cong2 b2 t c' nx Bm Am y q1 q2 q3 :
  nx + Bm = 65536 * q1 + b2 -> nx = 4294967296 * q2 + t -> Am + y = 65536 * q3 + c' -> t < 4294967296 ->
  (b2 + 4294967296 - t + c') mod 65536 = (Bm + Am + y) mod 65536.
Proof. intros H1 H2 H3 Ht. lia. Qed.

(** [((a mod 2^32 + b) mod 2^32) mod 2^16 = (a + b) mod 2^16] *)
Lemma strip_u32 a b : (((a mod W32) + b) mod W32) mod M16 = (a + b) mod M16.
Proof.
  rewrite mod_W_M. rewrite <- N.add_mod_idemp_l by (unfold M16; discriminate).
  rewrite mod_W_M. rewrite N.add_mod_idemp_l by (unfold M16; discriminate). reflexivity.
Qed.

(** the weak hash rolled by one byte is the weak hash of the window moved by one byte *)
Theorem weak_rolling_eq_lemma (x y : N) (m : list N) :
  let n := N.of_nat (length (x :: m)) in
  n < W32 -> x < W32 ->
  let '(_, b1, b2) := bhash (x :: m) in
  roll n x y b1 b2 = bhash (m ++ [y]).
Proof.
  intros n Hn Hx. rewrite (bhash_spec (x :: m)), (bhash_spec (m ++ [y])).
  rewrite app_length. cbn [length Nat.add] in *. rewrite Nat.add_1_r. fold n.
  rewrite asum_snoc.
  assert (Hn' : n = N.of_nat (length m) + 1) by (unfold n; cbn [length]; lia).
  rewrite (bsum_snoc m n y) by lia.
  replace (n - N.of_nat (length m)) with 1 by lia.
  cbn [asum bsum]. replace (n - 1) with (N.of_nat (length m)) by lia.
  assert (Hb : bsum n m = bsum (N.of_nat (length m)) m + asum m) by (rewrite Hn'; apply bsum_succ; lia).
  rewrite !Hb. rewrite !N.mul_1_l.
  set (Am := asum m). set (Bm := bsum (N.of_nat (length m)) m). set (nx := n * x).
  clearbody Am Bm. 
  unfold roll. rewrite !u32_mod, !modM_mod.
  rewrite (N.mod_small x W32) by assumption. rewrite (N.mod_small n W32) by assumption. fold nx.
  clearbody nx. clear Hn' Hn.
  (* beta1 *)
  assert (E1 : (((x + Am) mod M16 + W32 - x) mod W32 + y) mod W32 mod M16 = (Am + y) mod M16).
  { rewrite strip_u32. unfold M16, W32 in *.
    apply (cong1 _ _ _ _ ((x + Am) / 65536)); [|assumption].
    apply N.div_mod. discriminate. }
  rewrite E1.
  (* beta2 *)
  assert (E2 : (((nx + Bm) mod M16 + W32 - nx mod W32) mod W32 + (Am + y) mod M16) mod W32 mod M16 = (Bm + Am + y) mod M16).
  { rewrite strip_u32. unfold M16, W32 in *.
    apply (cong2 _ _ _ nx _ _ _ ((nx + Bm) / 65536) (nx / 4294967296) ((Am + y) / 65536)).
    - apply N.div_mod. discriminate.
    - apply N.div_mod. discriminate.
    - apply N.div_mod. discriminate.
    - apply N.mod_lt. discriminate. }
  rewrite E2. reflexivity.
Qed.
