(** C08, the edit bound, part 3: localized edits.  A file obtained from an old file by [k] edits
    (applied one after the other) is a sequence of pieces with at most [2k + 1] stretch ends off
    the block grid (each edit cuts the sequence in at most two places; the old file itself ends
    off the grid at most once) and at most as many fresh bytes as the edits introduce.
    With [PieceProofs.pieces_fresh_bound_lemma]: fresh <= introduced + (2k+2) * bs. *)
From Wharf Require Import Base.Prelude Wsync.Weak Wsync.Diff Wsync.Apply Wsync.Library Wsync.Sign Wsync.Account
     Wsync.Spec Wsync.EditSpec Wsync.ApplyProofs Wsync.DiffProofs Wsync.SyncProofs Wsync.PieceProofs.
From Coq Require Import ZifyBool ZifyNat ZifyN.
Local Open Scope N_scope.

(** * cutting a sequence of pieces *)

Definition ptake (n : N) (p : piece) : piece :=
  match p with
  | PFresh d => PFresh (sub d 0 n)
  | PCopy f o _ => PCopy f o n
  end.

Definition pdrop (n : N) (p : piece) : piece :=
  match p with
  | PFresh d => PFresh (sub d n (len d))
  | PCopy f o m => PCopy f (o + n) (m - n)
  end.

(** the first [n] bytes *)
Fixpoint pl_take (n : N) (pl : list piece) : list piece :=
  match pl with
  | [] => []
  | p :: r => if n <=? piece_len p then [ptake n p] else p :: pl_take (n - piece_len p) r
  end.

(** everything from byte [n] on *)
Fixpoint pl_drop (n : N) (pl : list piece) : list piece :=
  match pl with
  | [] => []
  | p :: r => if n <? piece_len p then pdrop n p :: r else pl_drop (n - piece_len p) r
  end.

Definition edit_pieces (e : edit) (pl : list piece) : list piece :=
  match e with
  | Overwrite a d => let m := ow_len (pieces_len pl) a d in pl_take a pl ++ [PFresh (sub d 0 m)] ++ pl_drop (a + m) pl
  | Insert a d => pl_take a pl ++ [PFresh d] ++ pl_drop a pl
  | Delete a n => pl_take a pl ++ pl_drop (a + n) pl
  end.

Lemma sub_0_firstn {A} (l : list A) n : sub l 0 n = firstn (N.to_nat n) l.
Proof. reflexivity. Qed.

Lemma sub_tail_skipn {A} (l : list A) a : sub l a (len l) = skipn (N.to_nat a) l.
Proof. unfold sub, len. apply firstn_all2. rewrite skipn_length. lia. Qed.

Lemma sub_tail_more {A} (l : list A) a n : len l <= n -> sub l a n = skipn (N.to_nat a) l.
Proof. unfold sub, len. intros Hn. apply firstn_all2. rewrite skipn_length. lia. Qed.

Section Cut.
  Variable bs : N.
  Hypothesis bs_pos : 0 < bs.
  Variable olds : list (list N).

  Lemma ptake_ok n p : n <= piece_len p -> piece_ok olds p -> piece_ok olds (ptake n p).
  Proof.
    destruct p as [d|f o m]; cbn [piece_len piece_ok ptake]; [tauto|].
    intros Hn (old & Hf & Hin). exists old. split; [exact Hf|lia].
  Qed.

  Lemma pdrop_ok n p : n <= piece_len p -> piece_ok olds p -> piece_ok olds (pdrop n p).
  Proof.
    destruct p as [d|f o m]; cbn [piece_len piece_ok pdrop]; [tauto|].
    intros Hn (old & Hf & Hin). exists old. split; [exact Hf|lia].
  Qed.

  Lemma pl_take_ok : forall pl n, Forall (piece_ok olds) pl -> Forall (piece_ok olds) (pl_take n pl).
  Proof.
    induction pl as [|p r IH]; intros n Hok; [constructor|]. inversion Hok as [|? ? Hp Hr]; subst.
    cbn [pl_take]. destruct (n <=? piece_len p) eqn:E.
    - apply N.leb_le in E. constructor; [apply ptake_ok; assumption|constructor].
    - constructor; [assumption|apply IH; assumption].
  Qed.

  Lemma pl_drop_ok : forall pl n, Forall (piece_ok olds) pl -> Forall (piece_ok olds) (pl_drop n pl).
  Proof.
    induction pl as [|p r IH]; intros n Hok; [constructor|]. inversion Hok as [|? ? Hp Hr]; subst.
    cbn [pl_drop]. destruct (n <? piece_len p) eqn:E.
    - apply N.ltb_lt in E. constructor; [apply pdrop_ok; [lia|assumption]|assumption].
    - apply IH; assumption.
  Qed.

  Lemma ptake_bytes n p : n <= piece_len p -> piece_ok olds p ->
    piece_bytes olds (ptake n p) = firstn (N.to_nat n) (piece_bytes olds p).
  Proof.
    destruct p as [d|f o m]; cbn [piece_len piece_ok ptake piece_bytes]; [reflexivity|].
    intros Hn _. unfold sub. rewrite firstn_firstn. f_equal. lia.
  Qed.

  Lemma pdrop_bytes n p : n <= piece_len p -> piece_ok olds p ->
    piece_bytes olds (pdrop n p) = skipn (N.to_nat n) (piece_bytes olds p).
  Proof.
    destruct p as [d|f o m]; cbn [piece_len piece_ok pdrop piece_bytes].
    - intros _ _. apply sub_tail_skipn.
    - intros Hn _. unfold sub. rewrite skipn_firstn_comm, skipn_skipn'. f_equal; [lia|]. f_equal. lia.
  Qed.

  Lemma pl_take_flatten : forall pl n, Forall (piece_ok olds) pl ->
    flatten olds (pl_take n pl) = firstn (N.to_nat n) (flatten olds pl).
  Proof.
    induction pl as [|p r IH]; intros n Hok; [cbn; rewrite firstn_nil; reflexivity|].
    inversion Hok as [|? ? Hp Hr]; subst.
    pose proof (piece_bytes_len olds p Hp) as Hl. unfold len in Hl.
    cbn [pl_take]. rewrite (flatten_cons olds p r), firstn_app.
    destruct (n <=? piece_len p) eqn:E.
    - apply N.leb_le in E. rewrite flatten_cons. cbn [flatten map concat].
      rewrite (ptake_bytes n p E Hp).
      replace (N.to_nat n - length (piece_bytes olds p))%nat with 0%nat by lia. rewrite firstn_O. reflexivity.
    - apply N.leb_gt in E. rewrite flatten_cons, (IH _ Hr).
      rewrite (firstn_all2 (piece_bytes olds p)) by lia. f_equal. f_equal. lia.
  Qed.

  Lemma pl_drop_flatten : forall pl n, Forall (piece_ok olds) pl ->
    flatten olds (pl_drop n pl) = skipn (N.to_nat n) (flatten olds pl).
  Proof.
    induction pl as [|p r IH]; intros n Hok; [cbn; rewrite skipn_nil; reflexivity|].
    inversion Hok as [|? ? Hp Hr]; subst.
    pose proof (piece_bytes_len olds p Hp) as Hl. unfold len in Hl.
    cbn [pl_drop]. rewrite (flatten_cons olds p r), skipn_app.
    destruct (n <? piece_len p) eqn:E.
    - apply N.ltb_lt in E. rewrite flatten_cons, (pdrop_bytes n p ltac:(lia) Hp).
      replace (N.to_nat n - length (piece_bytes olds p))%nat with 0%nat by lia. reflexivity.
    - apply N.ltb_ge in E. rewrite (IH _ Hr). rewrite (skipn_all2 (piece_bytes olds p)) by lia. cbn [app]. f_equal. lia.
  Qed.

  (** fresh bytes never increase by cutting *)
  Lemma pl_drop_fresh : forall pl n, pieces_fresh (pl_drop n pl) <= pieces_fresh pl.
  Proof.
    induction pl as [|p r IH]; intros n; [cbn; lia|]. cbn [pl_drop]. destruct (n <? piece_len p) eqn:E.
    - cbn [pieces_fresh]. destruct p as [d|f o m]; cbn [pdrop piece_fresh]; [|lia]. rewrite sub_len_min. lia.
    - specialize (IH (n - piece_len p)). cbn [pieces_fresh]. lia.
  Qed.

  Lemma take_drop_fresh : forall pl a b, a <= b ->
    pieces_fresh (pl_take a pl) + pieces_fresh (pl_drop b pl) <= pieces_fresh pl.
  Proof.
    induction pl as [|p r IH]; intros a b Hab; [cbn; lia|]. cbn [pl_take pl_drop].
    destruct (a <=? piece_len p) eqn:Ea.
    - apply N.leb_le in Ea. destruct (b <? piece_len p) eqn:Eb.
      + apply N.ltb_lt in Eb. cbn [pieces_fresh]. destruct p as [d|f o m]; cbn [ptake pdrop piece_fresh piece_len] in *; [|lia].
        rewrite !sub_len_min. lia.
      + pose proof (pl_drop_fresh r (b - piece_len p)). cbn [pieces_fresh].
        destruct p as [d|f o m]; cbn [ptake piece_fresh piece_len] in *; [|lia]. rewrite sub_len_min. lia.
    - apply N.leb_gt in Ea. replace (b <? piece_len p) with false by (symmetry; apply N.ltb_ge; lia).
      specialize (IH (a - piece_len p) (b - piece_len p) ltac:(lia)). cbn [pieces_fresh]. lia.
  Qed.

  (** a cut adds at most one stretch end off the grid on each side *)
  Lemma pl_drop_cuts : forall pl n, pieces_cuts bs (pl_drop n pl) <= pieces_cuts bs pl + 1.
  Proof.
    induction pl as [|p r IH]; intros n; [cbn; lia|]. cbn [pl_drop]. destruct (n <? piece_len p) eqn:E.
    - apply N.ltb_lt in E. cbn [pieces_cuts]. destruct p as [d|f o m]; cbn [pdrop piece_cuts piece_len] in *; [lia|].
      replace (o + n + (m - n)) with (o + m) by lia.
      pose proof (misal_le bs bs_pos (o + n)). lia.
    - specialize (IH (n - piece_len p)). cbn [pieces_cuts]. lia.
  Qed.

  Lemma take_drop_cuts : forall pl a b, a <= b ->
    pieces_cuts bs (pl_take a pl) + pieces_cuts bs (pl_drop b pl) <= pieces_cuts bs pl + 2.
  Proof.
    induction pl as [|p r IH]; intros a b Hab; [cbn; lia|]. cbn [pl_take pl_drop].
    destruct (a <=? piece_len p) eqn:Ea.
    - apply N.leb_le in Ea. destruct (b <? piece_len p) eqn:Eb.
      + apply N.ltb_lt in Eb. cbn [pieces_cuts]. destruct p as [d|f o m]; cbn [ptake pdrop piece_cuts piece_len] in *; [lia|].
        replace (o + b + (m - b)) with (o + m) by lia.
        pose proof (misal_le bs bs_pos (o + a)). pose proof (misal_le bs bs_pos (o + b)). lia.
      + pose proof (pl_drop_cuts r (b - piece_len p)). cbn [pieces_cuts].
        destruct p as [d|f o m]; cbn [ptake piece_cuts piece_len] in *; [lia|].
        pose proof (misal_le bs bs_pos (o + a)). lia.
    - apply N.leb_gt in Ea. replace (b <? piece_len p) with false by (symmetry; apply N.ltb_ge; lia).
      specialize (IH (a - piece_len p) (b - piece_len p) ltac:(lia)). cbn [pieces_cuts]. lia.
  Qed.

  Lemma pieces_fresh_app a b : pieces_fresh (a ++ b) = pieces_fresh a + pieces_fresh b.
  Proof. induction a as [|p a IH]; cbn [app pieces_fresh]; [reflexivity|rewrite IH; lia]. Qed.

  Lemma pieces_cuts_app a b : pieces_cuts bs (a ++ b) = pieces_cuts bs a + pieces_cuts bs b.
  Proof. induction a as [|p a IH]; cbn [app pieces_cuts]; [reflexivity|rewrite IH; lia]. Qed.

  Lemma flatten_fresh1 d : flatten olds [PFresh d] = d.
  Proof. cbn. apply app_nil_r. Qed.

  (** * one edit on a sequence of pieces *)
  Lemma edit_pieces_spec e pl :
    Forall (piece_ok olds) pl ->
    Forall (piece_ok olds) (edit_pieces e pl) /\
    flatten olds (edit_pieces e pl) = apply_edit e (flatten olds pl) /\
    pieces_fresh (edit_pieces e pl) <= pieces_fresh pl + introduced e (flatten olds pl) /\
    pieces_cuts bs (edit_pieces e pl) <= pieces_cuts bs pl + 2.
  Proof.
    intros Hok. pose proof (flatten_len olds pl Hok) as Hlen.
    destruct e as [a d|a d|a n]; cbn [edit_pieces apply_edit introduced]; rewrite Hlen.
    - set (m := ow_len (pieces_len pl) a d).
      assert (Hm : len (sub d 0 m) = m) by (rewrite sub_len_min; unfold m, ow_len; lia).
      split; [|split; [|split]].
      + apply Forall_app. split; [apply pl_take_ok; exact Hok|]. constructor; [exact I|apply pl_drop_ok; exact Hok].
      + rewrite !flatten_app, pl_take_flatten, pl_drop_flatten by exact Hok.
        rewrite flatten_fresh1, !sub_0_firstn. rewrite <- Hlen, sub_tail_skipn. reflexivity.
      + rewrite !pieces_fresh_app. cbn [pieces_fresh piece_fresh]. rewrite Hm.
        pose proof (take_drop_fresh pl a (a + m) ltac:(lia)). lia.
      + rewrite !pieces_cuts_app. cbn [pieces_cuts piece_cuts].
        pose proof (take_drop_cuts pl a (a + m) ltac:(lia)). lia.
    - split; [|split; [|split]].
      + apply Forall_app. split; [apply pl_take_ok; exact Hok|]. constructor; [exact I|apply pl_drop_ok; exact Hok].
      + rewrite !flatten_app, pl_take_flatten, pl_drop_flatten by exact Hok.
        rewrite flatten_fresh1, sub_0_firstn. rewrite <- Hlen, sub_tail_skipn. reflexivity.
      + rewrite !pieces_fresh_app. cbn [pieces_fresh piece_fresh].
        pose proof (take_drop_fresh pl a a ltac:(lia)). lia.
      + rewrite !pieces_cuts_app. cbn [pieces_cuts piece_cuts].
        pose proof (take_drop_cuts pl a a ltac:(lia)). lia.
    - split; [|split; [|split]].
      + apply Forall_app. split; [apply pl_take_ok; exact Hok|apply pl_drop_ok; exact Hok].
      + rewrite !flatten_app, pl_take_flatten, pl_drop_flatten by exact Hok.
        rewrite sub_0_firstn. rewrite <- Hlen, sub_tail_skipn. reflexivity.
      + rewrite !pieces_fresh_app.
        pose proof (take_drop_fresh pl a (a + n) ltac:(lia)). lia.
      + rewrite !pieces_cuts_app.
        pose proof (take_drop_cuts pl a (a + n) ltac:(lia)). lia.
  Qed.

  (** * a list of edits *)
  Lemma edits_pieces : forall es pl,
    Forall (piece_ok olds) pl ->
    exists pl',
      Forall (piece_ok olds) pl' /\
      flatten olds pl' = fst (apply_edits es (flatten olds pl)) /\
      pieces_fresh pl' <= pieces_fresh pl + snd (apply_edits es (flatten olds pl)) /\
      pieces_cuts bs pl' <= pieces_cuts bs pl + 2 * len es.
  Proof.
    induction es as [|e es IH]; intros pl Hok.
    - exists pl. cbn [apply_edits fst snd]. repeat split; try assumption; unfold len; cbn [length]; lia.
    - destruct (edit_pieces_spec e pl Hok) as (Hok1 & Hfl1 & Hfr1 & Hc1).
      destruct (IH _ Hok1) as (pl' & Hok' & Hfl' & Hfr' & Hc').
      exists pl'. cbn [apply_edits]. rewrite Hfl1 in Hfl', Hfr'.
      destruct (apply_edits es (apply_edit e (flatten olds pl))) as [l' n']. cbn [fst snd] in *.
      split; [assumption|]. split; [assumption|]. split; [lia|].
      unfold len in *. cbn [length]. lia.
  Qed.

  (** the old file as one stretch: off the grid at most at its end *)
  Lemma whole_file_piece f old :
    nth_error olds (N.to_nat f) = Some old ->
    Forall (piece_ok olds) [PCopy f 0 (len old)] /\ flatten olds [PCopy f 0 (len old)] = old /\
    pieces_fresh [PCopy f 0 (len old)] = 0 /\ pieces_cuts bs [PCopy f 0 (len old)] <= 1.
  Proof.
    intros Hf. split; [|split; [|split]].
    - constructor; [|constructor]. exists old. split; [exact Hf|lia].
    - cbn. rewrite (nth_error_nth _ _ _ Hf), app_nil_r. apply sub_zero_all. lia.
    - reflexivity.
    - cbn [pieces_cuts piece_cuts]. unfold misal at 1. rewrite N.mod_0_l by lia. cbn [N.eqb].
      pose proof (misal_le bs bs_pos (0 + len old)). lia.
  Qed.
End Cut.

(** * the edit bound *)
Section EditBound.
  Variable H : Type.
  Variable shash : list N -> H.
  Variable heqb : H -> H -> bool.
  Variables (bs maxData : N).
  Variable olds : list (list N).
  Variable pref : option N.
  Hypothesis bs_pos : 0 < bs.
  Hypothesis max_pos : 0 < maxData.
  Hypothesis bs_u32 : bs < W32.
  Hypothesis heqb_spec : forall x y, heqb x y = true <-> x = y.

  Theorem edits_fresh_bound_lemma (f : N) (old : list N) (es : list edit) (src : list N) (n : N) :
    nth_error olds (N.to_nat f) = Some old ->
    apply_edits es old = (src, n) ->
    Forall (fun x => x < W32) src -> strong_injective shash bs olds src -> no_weak_repeat bs src ->
    forall ops, diff_ops shash heqb bs maxData olds src pref = Some ops ->
      fresh_of ops <= n + (2 * len es + 2) * bs.
  Proof.
    intros Hf He Hbytes Hinj Hnwr ops Hd.
    destruct (whole_file_piece bs bs_pos olds f old Hf) as (Hok0 & Hfl0 & Hfr0 & Hc0).
    destruct (edits_pieces bs bs_pos olds es _ Hok0) as (pl & Hok & Hfl & Hfr & Hc).
    rewrite Hfl0, He in Hfl, Hfr. cbn [fst snd] in Hfl, Hfr.
    pose proof (pieces_fresh_bound_lemma H shash heqb bs maxData olds pref bs_pos max_pos bs_u32 heqb_spec
                  pl src Hok (eq_sym Hfl) Hbytes Hinj Hnwr ops Hd) as Hb.
    assert (Hcuts : (bs - 1) * pieces_cuts bs pl <= (bs - 1) * (2 * len es + 1)) by (apply N.mul_le_mono_l; lia).
    nia.
  Qed.
End EditBound.
