(** C08, the edit bound, part 1: what the loop of [ComputeDiff] does at a window that holds an old
    block.  Three more invariants over the loop states of [DiffProofs]:
    - the state carries the weak hash of the window one byte earlier whenever it is rolling
      ([rolling_step_correct] threaded through the loop: [hash_invariant_all_along]);
    - reads end on multiples of the block size (so the last run starts less than two blocks
      before the end of the source);
    - counting: [fresh bytes so far + pending data + bs * (sync points passed) <= position].
    Consequences: [no_missed_match] and [fresh_le_unsynced] (for every list of non-overlapping
    sync points, fresh bytes + bs * (their number - 1) <= size of the source). *)
From Wharf Require Import Base.Prelude Base.BlocksLemmas Wsync.Weak Wsync.Diff Wsync.Apply Wsync.Library Wsync.Sign Wsync.Account
     Wsync.Spec Wsync.EditSpec Wsync.ApplyProofs Wsync.DiffProofs Wsync.WeakProofs Wsync.RollProofs.
From Coq Require Import ZifyBool ZifyNat ZifyN.
Local Open Scope N_scope.

(** * fresh bytes of operation lists *)

Lemma fresh_of_app a b : fresh_of (a ++ b) = fresh_of a + fresh_of b.
Proof. induction a as [|o a IH]; cbn [app fresh_of]; [reflexivity|rewrite IH; lia]. Qed.

(** * counting positions below [p] in a gapped list *)

Definition cnt (qs : list N) (p : N) : N := len (filter (fun q => q <? p) qs).

Lemma cnt_cons q qs p : cnt (q :: qs) p = (if q <? p then 1 else 0) + cnt qs p.
Proof. unfold cnt, len. cbn [filter]. destruct (q <? p); cbn [length]; lia. Qed.

Lemma cnt_succ qs p : ~ In p qs -> cnt qs (p + 1) = cnt qs p.
Proof.
  induction qs as [|q qs IH]; intros Hn; [reflexivity|].
  rewrite !cnt_cons. rewrite IH by (intros Hi; apply Hn; right; exact Hi).
  assert (q <> p) by (intros ->; apply Hn; left; reflexivity).
  destruct (q <? p + 1) eqn:E1, (q <? p) eqn:E2; lia.
Qed.

Lemma cnt_below bs qs : forall lo p, gapped bs lo qs -> p <= lo -> cnt qs p = 0.
Proof.
  induction qs as [|q qs IH]; intros lo p Hg Hp; [reflexivity|].
  destruct Hg as [Hq Hg]. rewrite cnt_cons. rewrite (IH _ _ Hg) by lia.
  destruct (q <? p) eqn:E; lia.
Qed.

Lemma cnt_jump bs qs : forall lo p, gapped bs lo qs -> cnt qs (p + bs) <= cnt qs p + 1.
Proof.
  induction qs as [|q qs IH]; intros lo p Hg; [cbn; lia|].
  destruct Hg as [Hq Hg]. rewrite !cnt_cons.
  destruct (q <? p) eqn:E2.
  - specialize (IH _ p Hg). destruct (q <? p + bs) eqn:E1; lia.
  - rewrite (cnt_below bs qs (q + bs) (p + bs) Hg) by lia.
    rewrite (cnt_below bs qs (q + bs) p Hg) by lia.
    destruct (q <? p + bs); lia.
Qed.

Lemma cnt_all qs p : (forall q, In q qs -> q < p) -> cnt qs p = len qs.
Proof.
  induction qs as [|q qs IH]; intros Hall; [reflexivity|].
  rewrite cnt_cons, IH by (intros q' Hi; apply Hall; right; exact Hi).
  assert (q < p) by (apply Hall; left; reflexivity).
  unfold len. cbn [length]. destruct (q <? p) eqn:E; lia.
Qed.

Lemma cnt_jump_mul bs qs lo p : gapped bs lo qs -> bs * cnt qs (p + bs) <= bs * cnt qs p + bs.
Proof. intros Hg. pose proof (cnt_jump bs qs lo p Hg). nia. Qed.

Lemma len_le_cnt_mul bs qs lo p :
  gapped bs lo qs -> (forall q, In q qs -> q < p + bs) -> bs * len qs <= bs * cnt qs p + bs.
Proof. intros Hg Hall. rewrite <- (cnt_all qs (p + bs) Hall). eapply cnt_jump_mul; eassumption. Qed.

Section Sync.
  Variables (bs maxData : N).
  Variable olds : list (list N).
  Variable src : list N.
  Variable lookup : N -> N -> N -> N -> option (N * N).
  Hypothesis bs_pos : 0 < bs.
  Hypothesis max_pos : 0 < maxData.
  Hypothesis bs_u32 : bs < W32.
  Hypothesis bytes_u32 : Forall (fun x => x < W32) src.
  Hypothesis Hsound : lookup_sound bs olds src lookup.

  Notation get := (get_of src).
  Notation srcLen := (len src).
  Notation Inv := (Inv bs maxData olds src).
  Notation EInv := (EInv bs maxData olds src).
  Notation EFin := (EFin bs maxData olds src).
  Notation Step := (step bs maxData get srcLen lookup).
  Notation Iter := (iter bs maxData get srcLen lookup).
  Notation Refill := (refill bs maxData srcLen).

  Ltac proj := cbn [base dataTail dataHead sumTail validTo aPop beta beta1 beta2 rolling lastRun shortSize oof em] in *.

  Lemma get_u32 i : get i < W32.
  Proof.
    unfold get_of. destruct (nth_in_or_default (N.to_nat i) src 0) as [Hin | ->]; [|reflexivity].
    rewrite Forall_forall in bytes_u32. apply bytes_u32. exact Hin.
  Qed.

  (** * the emitter: fresh bytes *)

  Lemma enqueue_data_fresh e P s l :
    EInv e P -> fresh_of (ops_of (enqueue e (OpData s l))) = fresh_of (ops_of e) + l.
  Proof.
    intros HI. destruct (N.eq_dec l 0) as [-> | Hnz].
    - destruct (enqueue_empty_ops bs maxData olds src lookup bs_pos max_pos e P s HI) as [-> | [-> ->]]; cbn; lia.
    - pose proof (ei_fin _ _ _ _ _ _ HI) as HF.
      destruct (flush_prev_ops bs maxData lookup bs_pos max_pos e (ef_sent _ _ _ _ _ _ HF) (ef_prev _ _ _ _ _ _ HF))
        as (Hops & Hnone & _ & _).
      assert (Hne : nonempty (OpData s l)) by (unfold nonempty; cbn; apply N.eqb_neq; lia).
      cbn [enqueue]. rewrite (send_nonempty _ _ Hne).
      rewrite <- Hops. unfold ops_of. cbn [prev out rev]. rewrite Hnone, !app_nil_r.
      rewrite fresh_of_app. cbn [fresh_of data_len]. lia.
  Qed.

  Lemma enqueue_range_fresh e P f i :
    EInv e P -> fresh_of (ops_of (enqueue e (OpRange f i 1))) = fresh_of (ops_of e).
  Proof.
    intros HI.
    destruct (enqueue_range_ops bs maxData olds src lookup bs_pos max_pos e P f i HI) as (_ & Hcase).
    destruct Hcase as [(Hops & _)|(l & sp & Hl & _ & _ & Hops & _)]; rewrite Hops.
    - rewrite fresh_of_app. cbn. lia.
    - rewrite Hl, !fresh_of_app. cbn. lia.
  Qed.

  Lemma last_data_fresh b vt : b + vt <= srcLen ->
    forall fuel e dt, EInv e (b + dt) -> dt <= vt -> (N.to_nat ((vt - dt) / maxData) < fuel)%nat ->
      fresh_of (ops_of (fst (fst (last_data maxData fuel e b dt vt)))) = fresh_of (ops_of e) + (vt - dt).
  Proof.
    intros Hlen. induction fuel as [|k IH]; intros e dt He Hdt Hfuel; [exfalso; exact (Nat.nlt_0_r _ Hfuel)|].
    cbn [last_data]. destruct (maxData <? vt - dt) eqn:Ec.
    - apply N.ltb_lt in Ec.
      rewrite IH.
      + rewrite (enqueue_data_fresh _ _ _ _ He). lia.
      + eapply EInv_eq; [apply enqueue_data; [exact lookup|assumption|assumption|exact He|lia|lia|lia]|lia].
      + lia.
      + assert (Hd : (vt - dt) / maxData = (vt - (dt + maxData)) / maxData + 1).
        { replace (vt - dt) with ((vt - (dt + maxData)) + 1 * maxData) by lia.
          rewrite N.div_add by lia. reflexivity. }
        lia.
    - cbn [fst]. apply (enqueue_data_fresh _ _ _ _ He).
  Qed.

  (** * the three extra invariants *)

  (** the state carries the weak hash of the full window one byte before the current one, and the
      byte that leaves *)
  Definition hash_ok (s : st) : Prop :=
    rolling s = true ->
    1 <= base s + sumTail s /\
    (beta s, beta1 s, beta2 s) = bhash (window get (base s + sumTail s - 1) bs) /\
    aPop s = get (base s + sumTail s - 1).

  (** everything read so far: a whole number of blocks *)
  Definition aligned (s : st) : Prop := exists r, base s + validTo s = bs * r.

  (** data bytes emitted so far plus the pending ones *)
  Definition tot (s : st) : N := fresh_of (ops_of (em s)) + (dataHead s - dataTail s).

  Definition counted (qs : list N) (s : st) : Prop :=
    tot s + bs * cnt qs (base s + sumTail s) <= base s + sumTail s.

  Record KInv (qs : list N) (s : st) : Prop := {
    k_hash : hash_ok s;
    k_algn : aligned s;
    k_ss : shortSize s = 0;
    k_cnt : counted qs s
  }.

  (** * "determine if the buffer should be extended": what [Refilled] does not say *)
  Lemma refill_more s :
    Inv s -> aligned s ->
    let s1 := Refill s in
    aPop s1 = aPop s /\ beta s1 = beta s /\ beta1 s1 = beta1 s /\ beta2 s1 = beta2 s /\ rolling s1 = rolling s /\
    tot s1 = tot s /\
    (lastRun s1 = false -> aligned s1 /\ shortSize s1 = shortSize s) /\
    (lastRun s1 = true -> srcLen + 2 <= base s + sumTail s + 2 * bs).
  Proof.
    intros [Hem Hdt Hdh Hst Hlen Hmax Hbuf Hrun Hoof] (r & Hr).
    destruct s as [b dt dh stl vt ap be b1 b2 ro lr ss oo e]. proj. subst dh lr oo.
    unfold refill. proj.
    destruct (vt <? stl + bs) eqn:Eref.
    2:{ proj. repeat split; try reflexivity; try discriminate. exists r. exact Hr. }
    apply N.ltb_lt in Eref.
    set (s1 := if L bs maxData <? vt + bs then wrap (mkSt b dt stl stl vt ap be b1 b2 ro false ss false e)
               else mkSt b dt stl stl vt ap be b1 b2 ro false ss false e).
    assert (H1 : aPop s1 = ap /\ beta s1 = be /\ beta1 s1 = b1 /\ beta2 s1 = b2 /\ rolling s1 = ro /\
                 tot s1 = fresh_of (ops_of e) + (stl - dt) /\
                 base s1 + validTo s1 = b + vt /\ lastRun s1 = false /\ shortSize s1 = ss).
    { unfold s1. destruct (L bs maxData <? vt + bs) eqn:Ew.
      - unfold wrap, tot. proj. repeat split; try reflexivity; try lia.
        destruct (dt <? stl) eqn:Ed.
        + rewrite (enqueue_data_fresh _ _ _ _ Hem). lia.
        + apply N.ltb_ge in Ed. lia.
      - unfold tot. proj. repeat split; reflexivity. }
    destruct H1 as (Hap & Hbe & Hb1 & Hb2 & Hro & Htot & Hbv & Hlr & Hss).
    clearbody s1. destruct s1 as [b' dt' dh' stl' vt' ap' be' b1' b2' ro' lr' ss' oo' e']. proj. subst.
    unfold tot in *. proj.
    set (n := N.min bs (srcLen - (b' + vt'))).
    destruct (n <? bs) eqn:En; proj.
    - apply N.ltb_lt in En. repeat split; try reflexivity; try assumption; try discriminate.
      intros _. unfold n in En. lia.
    - apply N.ltb_ge in En. repeat split; try reflexivity; try assumption; try discriminate.
      exists (r + 1). proj. assert (n = bs) by (unfold n in *; lia). lia.
  Qed.

  (** * "compute the rolling hash" on a full window: both branches yield the weak hash of the
        window, and the lookup is skipped exactly when rolling and the hash did not change *)
  Lemma hash_step_full s :
    hash_ok s -> sumTail s + bs <= validTo s -> base s + sumTail s + bs <= srcLen ->
    let p := base s + sumTail s in
    let w := weak_of (sub src p bs) in
    exists b1 b2,
      (w, b1, b2) = bhash (window get p bs) /\
      hash_step bs get s =
      (mkSt (base s) (dataTail s) (dataHead s) (sumTail s) (validTo s) (aPop s) w b1 b2 true
            (lastRun s) (shortSize s) (oof s) (em s), rolling s && (w =? beta s)).
  Proof.
    intros Hh Hfull Hin p w.
    assert (Hw : w = weak_of (window get p bs)) by (unfold w; rewrite sub_get by lia; reflexivity).
    assert (Hsh : sum_head bs s = sumTail s + bs) by (unfold sum_head; lia).
    destruct (rolling s) eqn:Hro.
    - destruct (Hh Hro) as (Hp1 & Hb & Hpop).
      pose proof (hash_step_rolls_correctly bs get bs_pos bs_u32 get_u32 s Hro Hp1 Hfull Hb Hpop) as Hr.
      cbv zeta in Hr. unfold hash_step in *. rewrite Hsh, Hro in *.
      replace (sumTail s <? sumTail s + bs) with true in * by (symmetry; apply N.ltb_lt; lia).
      cbn [andb] in *.
      destruct (roll (sumTail s + bs - sumTail s) (aPop s) (get (base s + (sumTail s + bs) - 1)) (beta1 s) (beta2 s))
        as [[be c1] c2].
      cbn [fst] in Hr. proj. fold p in Hr.
      assert (be = w) by (rewrite Hw; unfold weak_of; rewrite <- Hr; reflexivity). subst be.
      exists c1, c2. split; [exact Hr|reflexivity].
    - unfold hash_step. rewrite Hsh, Hro. cbn [andb].
      replace (sumTail s + bs - sumTail s) with bs by lia. fold p.
      destruct (bhash (window get p bs)) as [[be c1] c2] eqn:Eb.
      assert (be = w) by (rewrite Hw; unfold weak_of; rewrite Eb; reflexivity). subst be.
      exists c1, c2. split; reflexivity.
  Qed.
  (** * one iteration that is not the last run, symbolically: the window is full, its weak hash is
        [w], the lookup is skipped iff rolling and [w] equals the previous hash; on a hit the
        pending data goes out and a one-block range is enqueued, otherwise one byte more is pending *)
  Lemma iter_nonlast s :
    Inv s -> hash_ok s -> aligned s -> shortSize s = 0 ->
    lastRun (Refill s) = false ->
    let p := base s + sumTail s in
    let w := weak_of (sub src p bs) in
    let hit := if rolling s && (w =? beta s) then None else lookup w p bs 0 in
    p + bs <= srcLen /\
    exists b' t' vt' dt3 e3 c1 c2,
      b' + t' = p /\ (exists r, b' + vt' = bs * r) /\ dt3 <= t' /\ EInv e3 (b' + dt3) /\
      fresh_of (ops_of e3) + (t' - dt3) = tot s /\
      (w, c1, c2) = bhash (window get p bs) /\
      (hit <> None -> dt3 = t') /\
      Iter s = match hit with
               | Some (f, i) =>
                   mkSt b' (t' + bs) (t' + bs) (t' + bs) vt' (aPop s) w c1 c2 false false 0 false
                        (enqueue e3 (OpRange f i 1))
               | None => mkSt b' dt3 (t' + 1) (t' + 1) vt' (get p) w c1 c2 true false 0 false e3
               end.
  Proof.
    intros HI Hh Hal Hss Hlr p w hit.
    pose proof (refill_spec bs maxData olds src lookup bs_pos max_pos s HI) as R.
    pose proof (refill_more s HI Hal) as M. cbv zeta in M.
    unfold iter. set (s1 := Refill s) in *.
    destruct R as [Hem Hdt Hdh Hst Hlen Hmax Hbuf Hoof Hfull _ _ Hpos].
    destruct M as (Map & Mbe & Mb1 & Mb2 & Mro & Mtot & Mnl & _). destruct (Mnl Hlr) as (Hal1 & Hss1).
    specialize (Hfull Hlr).
    assert (Hh1 : hash_ok s1).
    { unfold hash_ok. rewrite Mro, Mbe, Mb1, Mb2, Map, Hpos. exact Hh. }
    assert (Hin : base s1 + sumTail s1 + bs <= srcLen) by lia.
    destruct (hash_step_full s1 Hh1 Hfull Hin) as (c1 & c2 & Hb & Hhs). rewrite Hhs. clear Hhs.
    rewrite Hpos in Hb. fold p in Hb. fold w in Hb. rewrite Hpos. fold p. fold w.
    rewrite Mro, Mbe, Map. rewrite Hss in Hss1.
    split; [lia|].
    clearbody s1. destruct s1 as [b dt dh stl vt ap be0 b10 b20 ro0 lr ss oo e]. proj. subst dh oo lr ss.
    unfold sum_head. proj.
    replace (N.min (stl + bs) vt - stl) with bs by lia. rewrite Hpos. fold p. fold hit.
    (* the data flush *)
    set (s3 := flush_data maxData _ _).
    assert (H3 : exists dt3 e3, s3 = mkSt b dt3 stl stl vt (aPop s) w c1 c2 true false 0 false e3 /\
                 EInv e3 (b + dt3) /\ dt3 <= stl /\ fresh_of (ops_of e3) + (stl - dt3) = tot s /\
                 (hit <> None -> dt3 = stl)).
    { unfold s3, flush_data. proj. rewrite <- Mtot. unfold tot. proj.
      destruct ((dt <? stl) && ((match hit with Some _ => true | None => false end) || (maxData <=? stl - dt))) eqn:Ef.
      - apply andb_true_iff in Ef. destruct Ef as [Ef1 _]. apply N.ltb_lt in Ef1.
        eexists _, _. split; [reflexivity|]. split; [|split; [lia|split; [|reflexivity]]].
        + eapply EInv_eq; [apply enqueue_data; [exact lookup|assumption|assumption|exact Hem|lia|lia|lia]|lia].
        + rewrite (enqueue_data_fresh _ _ _ _ Hem). lia.
      - eexists _, _. split; [reflexivity|]. split; [exact Hem|]. split; [assumption|]. split; [reflexivity|].
        apply andb_false_iff in Ef. destruct Ef as [Ef|Ef].
        + apply N.ltb_ge in Ef. intros _. lia.
        + apply orb_false_iff in Ef. destruct Ef as [Ef1 Ef2].
          intros Hne. destruct hit; [discriminate|congruence]. }
    destruct H3 as (dt3 & e3 & -> & He3 & Hdt3 & Hfr3 & Hflushed).
    exists b, stl, vt, dt3, e3, c1, c2.
    split; [exact Hpos|]. split; [exact Hal1|]. split; [exact Hdt3|]. split; [exact He3|].
    split; [exact Hfr3|]. split; [exact Hb|]. split; [exact Hflushed|].
    unfold advance. proj. destruct hit as [[f i]|]; [reflexivity|].
    rewrite Hpos. reflexivity.
  Qed.
  (** * the last run: whatever it does, at most everything from the pending data to the end of the
        source becomes data; and it starts less than two blocks before the end *)
  Lemma iter_last s :
    Inv s -> aligned s -> lastRun (Refill s) = true ->
    fresh_of (ops_of (em (Iter s))) + (base s + sumTail s) <= tot s + srcLen /\
    srcLen + 2 <= base s + sumTail s + 2 * bs.
  Proof.
    intros HI Hal Hlr.
    pose proof (refill_spec bs maxData olds src lookup bs_pos max_pos s HI) as R.
    pose proof (refill_more s HI Hal) as M. cbv zeta in M.
    unfold iter. set (s1 := Refill s) in *.
    destruct R as [Hem Hdt Hdh Hst Hlen Hmax Hbuf Hoof _ Hlast _ Hpos].
    destruct M as (_ & _ & _ & _ & _ & Mtot & _ & Mlast).
    specialize (Hlast Hlr). split; [|exact (Mlast Hlr)].
    rewrite <- Mtot, <- Hpos. unfold tot. clear Mtot Mlast Hpos.
    destruct (hash_step_shape bs src s1) as (be & b1 & b2 & ro & skip & Hh). rewrite Hh. clear Hh.
    clearbody s1. destruct s1 as [b dt dh stl vt ap be0 b10 b20 ro0 lr ss oo e]. proj. subst dh oo lr.
    unfold sum_head. proj.
    set (hit := if skip then None else lookup be (b + stl) (N.min (stl + bs) vt - stl) ss). clearbody hit.
    set (s3 := flush_data maxData _ _).
    assert (H3 : exists dt3 e3, s3 = mkSt b dt3 stl stl vt ap be b1 b2 ro true ss false e3 /\
                 EInv e3 (b + dt3) /\ dt3 <= stl /\ fresh_of (ops_of e3) + (stl - dt3) = fresh_of (ops_of e) + (stl - dt)).
    { unfold s3, flush_data. proj.
      destruct ((dt <? stl) && ((match hit with Some _ => true | None => false end) || (maxData <=? stl - dt))) eqn:Ef.
      - apply andb_true_iff in Ef. destruct Ef as [Ef1 _]. apply N.ltb_lt in Ef1.
        eexists _, _. split; [reflexivity|]. split; [|split; [lia|]].
        + eapply EInv_eq; [apply enqueue_data; [exact lookup|assumption|assumption|exact Hem|lia|lia|lia]|lia].
        + rewrite (enqueue_data_fresh _ _ _ _ Hem). lia.
      - eexists _, _. split; [reflexivity|]. split; [exact Hem|]. split; [assumption|]. reflexivity. }
    destruct H3 as (dt3 & e3 & -> & He3 & Hdt3 & Hfr3).
    unfold advance. proj. destruct hit as [[f i]|].
    - proj. rewrite (enqueue_range_fresh _ _ _ _ He3). lia.
    - pose proof (last_data_fresh b vt ltac:(lia) (S (N.to_nat ((vt - dt3) / maxData))) e3 dt3 He3 ltac:(lia) ltac:(lia)) as Hld.
      destruct (last_data maxData (S (N.to_nat ((vt - dt3) / maxData))) e3 b dt3 vt) as [[e' dt'] o].
      cbn [fst] in Hld. proj. rewrite Hld. lia.
  Qed.
  Lemma iter_lastRun s : lastRun (Iter s) = lastRun (Refill s).
  Proof.
    unfold iter. set (s1 := Refill s). clearbody s1.
    destruct (hash_step_shape bs src s1) as (be & b1 & b2 & ro & skip & Hh). rewrite Hh. clear Hh.
    destruct s1 as [b dt dh stl vt ap be0 b10 b20 ro0 lr ss oo e]. proj.
    set (hit := if skip then None else _). clearbody hit.
    unfold flush_data. proj.
    destruct ((dt <? dh) && _); unfold advance; proj.
    - destruct hit as [[f i]|]; [reflexivity|]. destruct lr; [|reflexivity].
      destruct (last_data _ _ _ _ _ _) as [[e' dt'] o]. reflexivity.
    - destruct hit as [[f i]|]; [reflexivity|]. destruct lr; [|reflexivity].
      destruct (last_data _ _ _ _ _ _) as [[e' dt'] o]. reflexivity.
  Qed.

  (** * sync points, as the loop sees them: non-overlapping full windows that are not skipped and
        that the library finds *)
  Definition found (q : N) : Prop := lookup (weak_of (sub src q bs)) q bs 0 <> None.

  Definition syncs (qs : list N) : Prop :=
    gapped bs 0 qs /\ Forall (fun q => q + bs <= srcLen /\ not_skipped bs src q /\ found q) qs.

  (** the shortcut [β == oldβ] does not fire at a window that is not skipped *)
  Lemma hit_at_sync s q :
    hash_ok s -> base s + sumTail s = q -> q + bs <= srcLen -> not_skipped bs src q -> found q ->
    (if rolling s && (weak_of (sub src q bs) =? beta s) then None
     else lookup (weak_of (sub src q bs)) q bs 0) <> None.
  Proof.
    intros Hh Hq Hin Hns Hf. destruct (rolling s) eqn:Hro; cbn [andb]; [|exact Hf].
    destruct (Hh Hro) as (Hp1 & Hb & _). rewrite Hq in *.
    destruct Hns as [->|Hne]; [lia|].
    assert (Hbeta : beta s = weak_of (sub src (q - 1) bs)).
    { rewrite <- sub_get by lia. unfold weak_of. rewrite <- Hb. reflexivity. }
    rewrite Hbeta. replace (weak_of (sub src q bs) =? weak_of (sub src (q - 1) bs)) with false; [exact Hf|].
    symmetry. apply N.eqb_neq. congruence.
  Qed.

  Lemma cnt_0 qs : cnt qs 0 = 0.
  Proof. induction qs as [|q qs IH]; [reflexivity|]. rewrite cnt_cons, IH. destruct (q <? 0) eqn:E; lia. Qed.

  Lemma KInv_init qs : KInv qs init.
  Proof.
    split.
    - intros H. discriminate.
    - exists 0. cbn. lia.
    - reflexivity.
    - unfold counted, tot. cbn [init base sumTail dataHead dataTail em ops_of out prev rev app fresh_of].
      rewrite cnt_0. lia.
  Qed.

  (** * one iteration and the counting *)
  Lemma iter_K qs s :
    syncs qs -> Inv s -> KInv qs s ->
    (lastRun (Refill s) = false -> KInv qs (Iter s)) /\
    (lastRun (Refill s) = true -> fresh_of (ops_of (em (Iter s))) + bs * len qs <= srcLen + bs).
  Proof.
    intros [Hg Hqs] HI [Hh Hal Hss Hc]. unfold counted in Hc. split; intros Hlr.
    - destruct (iter_nonlast s HI Hh Hal Hss Hlr) as (Hin & b' & t' & vt' & dt3 & e3 & c1 & c2 & Hp & Hr & Hdt3 & He3 & Hfr & Hb & Hfl & Hit).
      cbv zeta in *. set (p := base s + sumTail s) in *. set (w := weak_of (sub src p bs)) in *.
      rewrite Hit. clear Hit.
      destruct (if rolling s && (w =? beta s) then None else lookup w p bs 0) as [[f i]|] eqn:Ehit.
      + (* a range goes out; at most one sync point lies in the window *)
        assert (dt3 = t') by (apply Hfl; discriminate). subst dt3.
        split; proj.
        * intros H. discriminate.
        * exact Hr.
        * reflexivity.
        * unfold counted, tot. proj. rewrite (enqueue_range_fresh _ _ _ _ He3).
          replace (b' + (t' + bs)) with (p + bs) by lia.
          pose proof (cnt_jump_mul bs qs 0 p Hg). lia.
      + (* no range: the window is not at a sync point *)
        assert (Hnin : ~ In p qs).
        { intros Hi. rewrite Forall_forall in Hqs. destruct (Hqs _ Hi) as (Hq1 & Hq2 & Hq3).
          exact (hit_at_sync s p Hh eq_refl Hq1 Hq2 Hq3 Ehit). }
        split; proj.
        * unfold hash_ok. proj. intros _. replace (b' + (t' + 1) - 1) with p by lia. split; [lia|]. split; [|reflexivity].
          rewrite <- Hb. reflexivity.
        * exact Hr.
        * reflexivity.
        * unfold counted, tot. proj. replace (b' + (t' + 1)) with (p + 1) by lia.
          rewrite (cnt_succ qs p Hnin). lia.
    - destruct (iter_last s HI Hal Hlr) as [Hf Hend].
      assert (Hall : forall q, In q qs -> q < base s + sumTail s + bs).
      { intros q Hi. rewrite Forall_forall in Hqs. destruct (Hqs _ Hi) as (Hq1 & _). lia. }
      pose proof (len_le_cnt_mul bs qs 0 _ Hg Hall). lia.
  Qed.

  (** * the loop *)
  Lemma loop_K qs (k : N) :
    syncs qs ->
    let s := N.iter k Step init in
    (lastRun s = true /\ fresh_of (ops_of (em s)) + bs * len qs <= srcLen + bs) \/ (Inv s /\ KInv qs s).
  Proof.
    intros Hs. induction k as [|k IH] using N.peano_ind.
    - cbn [N.iter]. right. split; [apply Inv_init; assumption|apply KInv_init].
    - rewrite N.iter_succ. cbv zeta in IH. cbv zeta. destruct IH as [[Hl Ho]|[HI HK]].
      + left. assert (Hst : Step (N.iter k Step init) = N.iter k Step init) by (unfold step at 1; rewrite Hl; reflexivity).
        rewrite Hst. split; assumption.
      + assert (Hst : Step (N.iter k Step init) = Iter (N.iter k Step init))
          by (unfold step at 1; rewrite (i_run _ _ _ _ _ HI); reflexivity).
        rewrite Hst.
        destruct (iter_K qs _ Hs HI HK) as [H1 H2].
        pose proof (iter_lastRun (N.iter k Step init)) as Hlr.
        destruct (iter_inv bs maxData olds src lookup bs_pos max_pos Hsound _ HI) as [[HI' _]|(Hl & _)].
        * right. split; [assumption|]. apply H1. rewrite <- Hlr. apply (i_run _ _ _ _ _ HI').
        * left. split; [assumption|]. apply H2. rewrite <- Hlr. assumption.
  Qed.

  (** [rolling_step_correct] all along the loop: at the head of every iteration, a state that is
      rolling carries the weak hash of the window one byte before the current one *)
  Theorem hash_inv_loop (k : N) :
    let s := N.iter k Step init in lastRun s = false -> hash_ok s.
  Proof.
    intros s Hl. destruct (loop_K [] k) as [[Hl' _]|[_ HK]].
    - split; constructor.
    - fold s in Hl'. congruence.
    - apply (k_hash _ _ HK).
  Qed.

  Lemma compute_diff_ops ops :
    compute_diff bs maxData get srcLen lookup = Some ops -> ops = ops_of (em (run bs maxData get srcLen lookup)).
  Proof.
    intros Hc.
    pose proof (run_final bs maxData olds src lookup bs_pos max_pos Hsound) as (Hlr & Hoof & P & HP & HF).
    unfold compute_diff in Hc. rewrite Hlr, Hoof in Hc. cbn [andb negb] in Hc. injection Hc as <-.
    destruct (flush_prev_ops bs maxData lookup bs_pos max_pos _ (ef_sent _ _ _ _ _ _ HF) (ef_prev _ _ _ _ _ _ HF)) as (Hops & Hnone & _ & _).
    rewrite <- Hops. unfold ops_of. rewrite Hnone, app_nil_r. reflexivity.
  Qed.

  (** every list of sync points but one is worth a block: fresh bytes + bs * (number of sync points - 1) <= size *)
  Theorem fresh_le_unsynced_core qs :
    syncs qs ->
    forall ops, compute_diff bs maxData get srcLen lookup = Some ops ->
      fresh_of ops + bs * len qs <= srcLen + bs.
  Proof.
    intros Hs ops Hc. rewrite (compute_diff_ops ops Hc).
    pose proof (run_final bs maxData olds src lookup bs_pos max_pos Hsound) as (Hlr & _).
    unfold run in *. destruct (loop_K qs (srcLen + 2) Hs) as [[_ Ho]|[HI _]].
    - exact Ho.
    - rewrite (i_run _ _ _ _ _ HI) in Hlr. discriminate.
  Qed.
  (** a window that holds an old block, in an iteration that is not the last run and does not
      skip it: the iteration enqueues a one-block range with that content and moves on by a block *)
  Theorem no_missed_match_loop (k : N) :
    let s := N.iter k Step init in
    let p := base s + sumTail s in
    lastRun s = false -> lastRun (Refill s) = false ->
    not_skipped bs src p -> found p ->
    exists f i e,
      em (Step s) = enqueue e (OpRange f i 1) /\
      base (Step s) + sumTail (Step s) = p + bs /\
      exists old, nth_error olds (N.to_nat f) = Some old /\ bs * i + bs <= len old /\
                  sub old (bs * i) bs = sub src p bs.
  Proof.
    intros s p Hl Hlr Hns Hf.
    destruct (loop_K [] k) as [[Hl' _]|[HI HK]]; [split; constructor|fold s in Hl'; congruence|].
    fold s in HI, HK. destruct HK as [Hh Hal Hss _].
    unfold step. rewrite Hl.
    destruct (iter_nonlast s HI Hh Hal Hss Hlr) as (Hin & b' & t' & vt' & dt3 & e3 & c1 & c2 & Hp & Hr & Hdt3 & He3 & Hfr & Hb & Hfl & Hit).
    cbv zeta in *. fold p in Hin, Hp, Hb, Hfl, Hit. rewrite Hit. clear Hit.
    pose proof (hit_at_sync s p Hh eq_refl Hin Hns Hf) as Hhit.
    destruct (rolling s && (weak_of (sub src p bs) =? beta s)); [congruence|].
    destruct (lookup (weak_of (sub src p bs)) p bs 0) as [[f i]|] eqn:El; [|congruence].
    exists f, i, e3. proj. split; [reflexivity|]. split; [lia|].
    destruct (Hsound _ _ _ _ _ _ El ltac:(lia) ltac:(lia)) as (_ & _ & old & Ho & Hlen & Heq).
    exists old. auto.
  Qed.
  (** after an iteration that is not the last run the state carries the weak hash of the window
      that iteration looked at *)
  Theorem hash_after_iter (k : N) :
    let s := N.iter k Step init in
    lastRun s = false -> lastRun (Refill s) = false ->
    beta (Step s) = weak_of (sub src (base s + sumTail s) bs).
  Proof.
    intros s Hl Hlr.
    destruct (loop_K [] k) as [[Hl' _]|[HI HK]]; [split; constructor|fold s in Hl'; congruence|].
    fold s in HI, HK. destruct HK as [Hh Hal Hss _].
    unfold step. rewrite Hl.
    destruct (iter_nonlast s HI Hh Hal Hss Hlr) as (_ & b' & t' & vt' & dt3 & e3 & c1 & c2 & _ & _ & _ & _ & _ & _ & _ & Hit).
    cbv zeta in Hit. rewrite Hit.
    destruct (if rolling s && _ then None else _) as [[f i]|]; reflexivity.
  Qed.

  (** an iteration whose window starts two blocks (less a byte) before the end is not the last run *)
  Theorem far_from_end_not_last (k : N) :
    let s := N.iter k Step init in
    lastRun s = false -> base s + sumTail s + 2 * bs <= srcLen + 1 -> lastRun (Refill s) = false.
  Proof.
    intros s Hl Hfar.
    destruct (loop_K [] k) as [[Hl' _]|[HI HK]]; [split; constructor|fold s in Hl'; congruence|].
    fold s in HI, HK. destruct HK as [_ Hal _ _].
    destruct (refill_more s HI Hal) as (_ & _ & _ & _ & _ & _ & _ & Hlast).
    destruct (lastRun (Refill s)); [|reflexivity]. specialize (Hlast eq_refl). lia.
  Qed.
End Sync.
