(** C19 — lemmas about paths and the file-system model of Arch/Zip.v: every operation is
    characterised by what [lookup] returns afterwards. *)
From Wharf Require Import Base.Prelude Arch.Zip.

Lemma path_eqb_eq p q : path_eqb p q = true <-> p = q.
Proof.
  unfold path_eqb. revert q. induction p as [|a p IH]; intros [|b q]; cbn [list_eqb]; split; intro H;
    try reflexivity; try discriminate.
  - apply andb_true_iff in H. destruct H as [H1 H2]. apply N.eqb_eq in H1. apply IH in H2. subst. reflexivity.
  - injection H as -> ->. apply andb_true_iff. split; [apply N.eqb_refl|apply IH; reflexivity].
Qed.

Lemma path_eqb_refl p : path_eqb p p = true.
Proof. apply path_eqb_eq. reflexivity. Qed.

Lemma path_eqb_neq p q : path_eqb p q = false <-> p <> q.
Proof.
  split.
  - intros H E. apply path_eqb_eq in E. congruence.
  - intro H. destruct (path_eqb p q) eqn:E; [apply path_eqb_eq in E; contradiction|reflexivity].
Qed.

Lemma path_eqb_sym p q : path_eqb p q = path_eqb q p.
Proof.
  destruct (path_eqb p q) eqn:E.
  - apply path_eqb_eq in E. subst. symmetry. apply path_eqb_refl.
  - symmetry. apply path_eqb_neq. apply path_eqb_neq in E. congruence.
Qed.

Lemma path_eq_dec (p q : path) : {p = q} + {p <> q}.
Proof. destruct (path_eqb p q) eqn:E; [left; apply path_eqb_eq; assumption|right; apply path_eqb_neq; assumption]. Qed.

Lemma is_prefix_spec p q : is_prefix p q = true <-> exists r, q = p ++ r.
Proof.
  revert q. induction p as [|a p IH]; intros q; cbn [is_prefix].
  - split; [intros _; exists q; reflexivity|reflexivity].
  - destruct q as [|b q].
    + split; [discriminate|intros [r H]; discriminate].
    + split.
      * intro H. apply andb_true_iff in H. destruct H as [H1 H2]. apply N.eqb_eq in H1. apply IH in H2.
        destruct H2 as [r ->]. subst. exists r. reflexivity.
      * intros [r H]. cbn [app] in H. injection H as -> ->. apply andb_true_iff. split; [apply N.eqb_refl|].
        apply IH. exists r. reflexivity.
Qed.

Lemma is_prefix_refl p : is_prefix p p = true.
Proof. apply is_prefix_spec. exists []. symmetry. apply app_nil_r. Qed.

Lemma is_prefix_trans p q r : is_prefix p q = true -> is_prefix q r = true -> is_prefix p r = true.
Proof.
  intros H1 H2. apply is_prefix_spec in H1. apply is_prefix_spec in H2. destruct H1 as [a ->]. destruct H2 as [b ->].
  apply is_prefix_spec. exists (a ++ b). symmetry. apply app_assoc.
Qed.

Lemma is_prefix_antisym p q : is_prefix p q = true -> is_prefix q p = true -> p = q.
Proof.
  intros H1 H2. apply is_prefix_spec in H1. apply is_prefix_spec in H2. destruct H1 as [a ->]. destruct H2 as [b H].
  rewrite <- app_assoc in H. assert (E : p ++ [] = p ++ a ++ b) by (rewrite app_nil_r; exact H).
  apply app_inv_head in E. symmetry in E. apply app_eq_nil in E. destruct E as [-> _]. symmetry. apply app_nil_r.
Qed.

Lemma is_prefix_nil_r p : is_prefix p [] = true -> p = [].
Proof. destruct p; [reflexivity|discriminate]. Qed.

(** two prefixes of the same path are comparable *)
Lemma is_prefix_comparable p q r :
  is_prefix p r = true -> is_prefix q r = true -> is_prefix p q = true \/ is_prefix q p = true.
Proof.
  revert q r. induction p as [|a p IH]; intros q r H1 H2; [left; reflexivity|].
  destruct q as [|b q]; [right; reflexivity|].
  destruct r as [|c r]; [discriminate|].
  cbn [is_prefix] in *. apply andb_true_iff in H1. apply andb_true_iff in H2.
  destruct H1 as [E1 H1]. destruct H2 as [E2 H2]. apply N.eqb_eq in E1. apply N.eqb_eq in E2. subst.
  rewrite N.eqb_refl. cbn [andb]. eapply IH; eassumption.
Qed.

Lemma in_prefixes q p : In q (prefixes p) <-> q <> [] /\ is_prefix q p = true.
Proof.
  revert q. induction p as [|a p IH]; intros q; cbn [prefixes].
  - split; [contradiction|]. intros [H1 H2]. apply is_prefix_nil_r in H2. contradiction.
  - split.
    + intros [H|H].
      * subst. split; [discriminate|]. cbn [is_prefix]. rewrite N.eqb_refl. reflexivity.
      * apply in_map_iff in H. destruct H as [q' [<- H]]. apply IH in H. destruct H as [_ H].
        split; [discriminate|]. cbn [is_prefix]. rewrite N.eqb_refl. assumption.
    + intros [H1 H2]. destruct q as [|b q]; [contradiction|]. cbn [is_prefix] in H2.
      apply andb_true_iff in H2. destruct H2 as [E H2]. apply N.eqb_eq in E. subst.
      destruct q as [|c q]; [left; reflexivity|right].
      apply in_map. apply IH. split; [discriminate|assumption].
Qed.

Lemma parent_app p a : parent (p ++ [a]) = p.
Proof. unfold parent. apply removelast_last. Qed.

Lemma parent_snoc p : p <> [] -> exists a, p = parent p ++ [a].
Proof. intro H. unfold parent. exists (last p 0%N). apply app_removelast_last. assumption. Qed.

(** the non-empty proper prefixes of p are the non-empty prefixes of its parent *)
Lemma strict_prefix_parent q p :
  p <> [] -> (is_prefix q p = true /\ q <> p <-> is_prefix q (parent p) = true).
Proof.
  intro Hp. destruct (parent_snoc p Hp) as [a E]. set (pp := parent p) in *. clearbody pp. subst p. split.
  - intros [H1 H2]. apply is_prefix_spec in H1. destruct H1 as [r H1].
    assert (Hr : r <> []) by (intro; subst r; rewrite app_nil_r in H1; congruence).
    destruct (exists_last Hr) as [r' [b ->]].
    rewrite app_assoc in H1. apply app_inj_tail in H1. destruct H1 as [-> _]. apply is_prefix_spec. exists r'. reflexivity.
  - intro H. apply is_prefix_spec in H. destruct H as [r ->]. split.
    + apply is_prefix_spec. exists (r ++ [a]). symmetry. apply app_assoc.
    + intro E. rewrite <- app_assoc in E. rewrite <- (app_nil_r q) in E at 1. apply app_inv_head in E.
      destruct r; discriminate.
Qed.

(** * lookup after each operation *)
Lemma lookup_del f p q : lookup (del f p) q = if path_eqb q p then None else lookup f q.
Proof.
  induction f as [|[k n] f IH]; cbn [del filter lookup fst negb].
  - destruct (path_eqb q p); reflexivity.
  - destruct (path_eqb k p) eqn:E1; cbn [negb].
    + fold (del f p). rewrite IH. apply path_eqb_eq in E1. subst k.
      rewrite (path_eqb_sym p q). destruct (path_eqb q p); reflexivity.
    + fold (del f p). cbn [lookup]. rewrite IH. destruct (path_eqb k q) eqn:E2; [|reflexivity].
      apply path_eqb_eq in E2. subst k. rewrite E1. reflexivity.
Qed.

Lemma lookup_upd f p n q : lookup (upd f p n) q = if path_eqb q p then Some n else lookup f q.
Proof.
  unfold upd. cbn [lookup]. rewrite lookup_del. rewrite (path_eqb_sym p q). destruct (path_eqb q p); reflexivity.
Qed.

Lemma lookup_remove_all f p q :
  lookup (filter (fun x => negb (is_prefix p (fst x))) f) q = if is_prefix p q then None else lookup f q.
Proof.
  induction f as [|[k n] f IH]; cbn [filter lookup fst].
  - destruct (is_prefix p q); reflexivity.
  - destruct (is_prefix p k) eqn:E1; cbn [negb].
    + rewrite IH. destruct (path_eqb k q) eqn:E2; [|reflexivity]. apply path_eqb_eq in E2. subst k. rewrite E1. reflexivity.
    + cbn [lookup]. rewrite IH. destruct (path_eqb k q) eqn:E2; [|reflexivity]. apply path_eqb_eq in E2. subst k. rewrite E1. reflexivity.
Qed.

Definition add_dir (g : fs) (q : path) : fs := match lookup g q with None => (q, Dir) :: g | Some _ => g end.

Lemma lookup_add_dirs l : forall f q,
  lookup (fold_left add_dir l f) q =
  match lookup f q with
  | None => if existsb (path_eqb q) l then Some Dir else None
  | x => x
  end.
Proof.
  induction l as [|k l IH]; intros f q; cbn [fold_left existsb].
  - destruct (lookup f q); reflexivity.
  - rewrite IH. unfold add_dir. destruct (lookup f k) eqn:Ek.
    + destruct (lookup f q) eqn:Eq; [reflexivity|]. destruct (path_eqb q k) eqn:E; [|reflexivity].
      apply path_eqb_eq in E. subst. congruence.
    + cbn [lookup]. rewrite (path_eqb_sym k q). destruct (path_eqb q k) eqn:E.
      * apply path_eqb_eq in E. subst. rewrite Ek. reflexivity.
      * cbn [orb]. reflexivity.
Qed.

Lemma existsb_prefixes q p : existsb (path_eqb q) (prefixes p) = negb (path_eqb q []) && is_prefix q p.
Proof.
  destruct (existsb (path_eqb q) (prefixes p)) eqn:E.
  - apply existsb_exists in E. destruct E as [x [H1 H2]]. apply path_eqb_eq in H2. subst x.
    apply in_prefixes in H1. destruct H1 as [H1 H2]. rewrite H2. apply path_eqb_neq in H1. rewrite H1. reflexivity.
  - destruct (path_eqb q []) eqn:E1; [reflexivity|]. destruct (is_prefix q p) eqn:E2; [|reflexivity].
    exfalso. apply path_eqb_neq in E1. assert (H : In q (prefixes p)) by (apply in_prefixes; split; assumption).
    assert (X : existsb (path_eqb q) (prefixes p) = true) by (apply existsb_exists; exists q; split; [assumption|apply path_eqb_refl]).
    congruence.
Qed.

(** os.MkdirAll *)
Lemma mkdir_all_spec p f :
  (forall q, q <> [] -> is_prefix q p = true -> dir_or_none (lookup f q) = true) ->
  exists f', fs_mkdir_all p f = Some f' /\
    forall q, lookup f' q = match lookup f q with
                            | None => if negb (path_eqb q []) && is_prefix q p then Some Dir else None
                            | x => x
                            end.
Proof.
  intro H. unfold fs_mkdir_all.
  assert (E : forallb (fun q => dir_or_none (lookup f q)) (prefixes p) = true).
  { apply forallb_forall. intros q Hq. apply in_prefixes in Hq. destruct Hq. apply H; assumption. }
  rewrite E. eexists. split; [reflexivity|]. intro q.
  change (fun g q0 => match lookup g q0 with None => (q0, Dir) :: g | Some _ => g end) with add_dir.
  rewrite lookup_add_dirs. rewrite existsb_prefixes. reflexivity.
Qed.

Lemma parent_ok_spec p f : parent_ok p f = true <-> (parent p = [] \/ lookup f (parent p) = Some Dir).
Proof.
  unfold parent_ok. destruct (parent p) as [|a r] eqn:E.
  - split; [left; reflexivity|reflexivity].
  - split.
    + destruct (lookup f (a :: r)) as [[]|]; try discriminate. right. reflexivity.
    + intros [H|H]; [discriminate|]. rewrite H. reflexivity.
Qed.
