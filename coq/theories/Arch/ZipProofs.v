(** C19 — proofs about the extraction worker pool of Arch/Zip.v.

    The central object is the invariant [Inv] of a running extraction over a well-formed entry
    list: the directory has the right shape (only paths the archive covers, directories where
    directories are expected, closed under parents), every busy worker is at a known stage of
    its entry's job, busy workers hold distinct entries, every entry whose file-system work is
    over is on disk, complete, and every index at or below the resume file is such an entry.
    It holds initially (on the empty directory, or on whatever a previous interrupted run left
    behind), is preserved by every step of every worker under every schedule, and implies the
    results of Properties/C19.v. *)
From Wharf Require Import Base.Prelude Arch.Zip Arch.ZipFsLemmas.

Lemma nodup_map_inj {A B} (f : A -> B) (l : list A) x y :
  NoDup (map f l) -> In x l -> In y l -> f x = f y -> x = y.
Proof.
  induction l as [|a l IH]; intros Hn Hx Hy E; [contradiction|].
  cbn [map] in Hn. inversion Hn as [|? ? Hnot Hn']. subst.
  destruct Hx as [->|Hx]; destruct Hy as [->|Hy].
  - reflexivity.
  - exfalso. apply Hnot. rewrite E. apply in_map. assumption.
  - exfalso. apply Hnot. rewrite <- E. apply in_map. assumption.
  - apply IH; assumption.
Qed.

Lemma nth_error_set_nth_eq {A} (l : list A) t x : t < length l -> nth_error (set_nth l t x) t = Some x.
Proof.
  revert t. induction l as [|a l IH]; intros t H; [simpl in H; lia|].
  destruct t; cbn [set_nth nth_error]; [reflexivity|]. apply IH. simpl in H. lia.
Qed.

Lemma nth_error_set_nth_neq {A} (l : list A) t t' x : t <> t' -> nth_error (set_nth l t x) t' = nth_error l t'.
Proof.
  revert t t'. induction l as [|a l IH]; intros t t' H; [reflexivity|].
  destruct t; destruct t'; cbn [set_nth nth_error]; try reflexivity; try congruence.
  apply IH. congruence.
Qed.

Lemma length_set_nth {A} (l : list A) t x : length (set_nth l t x) = length l.
Proof. revert t. induction l as [|a l IH]; intros t; [reflexivity|]. destruct t; cbn [set_nth length]; [reflexivity|]. rewrite IH. reflexivity. Qed.

Lemma nth_error_set_nth {A} (l : list A) t t' x y :
  nth_error (set_nth l t x) t' = Some y -> (t = t' /\ y = x) \/ (t <> t' /\ nth_error l t' = Some y).
Proof.
  intro H. destruct (Nat.eq_dec t t') as [->|Hne].
  - left. split; [reflexivity|]. assert (Hl : t' < length l).
    { rewrite <- (length_set_nth l t' x). apply nth_error_Some. congruence. }
    rewrite nth_error_set_nth_eq in H by assumption. congruence.
  - right. split; [assumption|]. rewrite nth_error_set_nth_neq in H by assumption. assumption.
Qed.

Section Shape.
  Variable es : list entry.
  Hypothesis Hwf : wf_entries es.

  Definition covered (q : path) : Prop := q <> [] /\ exists e, In e es /\ is_prefix q (epath e) = true.

  (** a path that has to be a directory if it exists: a proper prefix of an entry's path, or
      the path of a directory entry *)
  Definition dirlike (q : path) : Prop :=
    q <> [] /\ exists e, In e es /\ is_prefix q (epath e) = true /\ (q <> epath e \/ ekind e = KDir).

  Definition closed (f : fs) : Prop :=
    forall q r, lookup f q <> None -> r <> [] -> is_prefix r q = true -> r <> q -> lookup f r = Some Dir.

  Record shape (f : fs) : Prop := mkShape {
    sh_cov : forall q, lookup f q <> None -> covered q;
    sh_dir : forall q, dirlike q -> dir_or_none (lookup f q) = true;
    sh_closed : closed f }.

  Lemma entry_unique e e' : In e es -> In e' es -> epath e = epath e' -> e = e'.
  Proof. destruct Hwf as [Hn _]. intros. eapply nodup_map_inj; eassumption. Qed.

  Lemma entry_path_nonnil e : In e es -> epath e <> [].
  Proof. destruct Hwf as [_ [H _]]. apply H. Qed.

  Lemma dirlike_covered q : dirlike q -> covered q.
  Proof. intros [H1 [e [H2 [H3 _]]]]. split; [assumption|]. exists e. split; assumption. Qed.

  Lemma entry_covered e : In e es -> covered (epath e).
  Proof. intro H. split; [apply entry_path_nonnil; assumption|]. exists e. split; [assumption|apply is_prefix_refl]. Qed.

  Lemma nondir_not_dirlike e : In e es -> ekind e <> KDir -> ~ dirlike (epath e).
  Proof.
    intros He Hk [_ [e' [He' [Hp Hor]]]]. destruct Hwf as [_ [_ H3]].
    destruct (path_eq_dec (epath e) (epath e')) as [E|E].
    - assert (e = e') by (apply entry_unique; assumption). subst e'. destruct Hor as [Hor|Hor]; [congruence|contradiction].
    - apply Hk. eapply H3; eassumption.
  Qed.

  Lemma nondir_no_desc e q : In e es -> ekind e <> KDir -> is_prefix (epath e) q = true -> q <> epath e -> ~ covered q.
  Proof.
    intros He Hk Hp Hne [_ [e' [He' Hp']]]. destruct Hwf as [_ [_ H3]].
    apply Hk. apply (H3 e e' He He').
    - eapply is_prefix_trans; eassumption.
    - intro E. apply Hne. apply is_prefix_antisym; [rewrite E; assumption|assumption].
  Qed.

  Lemma strict_prefix_dirlike e r : In e es -> r <> [] -> is_prefix r (epath e) = true -> r <> epath e -> dirlike r.
  Proof. intros He Hr Hp Hne. split; [assumption|]. exists e. repeat split; try assumption. left. assumption. Qed.

  Lemma dir_entry_dirlike e : In e es -> ekind e = KDir -> dirlike (epath e).
  Proof.
    intros He Hk. split; [apply entry_path_nonnil; assumption|]. exists e. repeat split; try assumption.
    - apply is_prefix_refl.
    - right. assumption.
  Qed.

  Lemma prefix_of_dirlike q r : dirlike q -> r <> [] -> is_prefix r q = true -> dirlike r.
  Proof.
    intros [_ [e [He [Hp Hor]]]] Hr Hrq. split; [assumption|]. exists e. split; [assumption|]. split.
    - eapply is_prefix_trans; eassumption.
    - destruct (path_eq_dec r (epath e)) as [E|E]; [|left; assumption].
      right. destruct Hor as [Hor|Hor]; [|assumption]. exfalso. apply Hor.
      apply is_prefix_antisym; [assumption|]. rewrite <- E. assumption.
  Qed.

  (** the proper non-empty prefixes of an entry's path, seen from its parent *)
  Lemma parent_prefix_dirlike e r : In e es -> r <> [] -> is_prefix r (parent (epath e)) = true -> dirlike r.
  Proof.
    intros He Hr Hp. apply (strict_prefix_parent r (epath e) (entry_path_nonnil e He)) in Hp. destruct Hp as [H1 H2].
    eapply strict_prefix_dirlike; eassumption.
  Qed.

  Lemma shape_empty : shape [].
  Proof.
    split.
    - intros q H. exfalso. apply H. reflexivity.
    - intros q _. reflexivity.
    - intros q r H. exfalso. apply H. reflexivity.
  Qed.

  (** os.RemoveAll on the path of a file or symlink entry: only that cell changes *)
  Lemma shape_remove_all f e :
    shape f -> In e es -> ekind e <> KDir ->
    exists f', fs_remove_all (epath e) f = Some f' /\
      (forall q, lookup f' q = if path_eqb q (epath e) then None else lookup f q) /\ shape f'.
  Proof.
    intros Hs He Hk. unfold fs_remove_all. eexists. split; [reflexivity|].
    assert (L : forall q, lookup (filter (fun x => negb (is_prefix (epath e) (fst x))) f) q = if path_eqb q (epath e) then None else lookup f q).
    { intro q. rewrite lookup_remove_all. destruct (path_eqb q (epath e)) eqn:E.
      - apply path_eqb_eq in E. subst q. rewrite is_prefix_refl. reflexivity.
      - destruct (is_prefix (epath e) q) eqn:E2; [|reflexivity].
        destruct (lookup f q) eqn:El; [|reflexivity]. exfalso.
        apply path_eqb_neq in E. eapply nondir_no_desc; try eassumption.
        apply (sh_cov f Hs). congruence. }
    split; [exact L|]. split.
    - intros q H. rewrite L in H. destruct (path_eqb q (epath e)); [congruence|]. apply (sh_cov f Hs). assumption.
    - intros q H. rewrite L. destruct (path_eqb q (epath e)); [reflexivity|]. apply (sh_dir f Hs). assumption.
    - intros q r H Hr Hp Hne. rewrite L in H. rewrite L. destruct (path_eqb q (epath e)) eqn:E; [congruence|].
      destruct (path_eqb r (epath e)) eqn:E2.
      + exfalso. apply path_eqb_eq in E2. subst r. eapply nondir_no_desc; try eassumption.
        * congruence.
        * apply (sh_cov f Hs). assumption.
      + apply (sh_closed f Hs q r); assumption.
  Qed.

  (** os.MkdirAll on a path all of whose prefixes have to be directories *)
  Lemma shape_mkdir_all f p :
    shape f -> (forall q, q <> [] -> is_prefix q p = true -> dirlike q) ->
    exists f', fs_mkdir_all p f = Some f' /\
      (forall q, lookup f' q = match lookup f q with
                               | None => if negb (path_eqb q []) && is_prefix q p then Some Dir else None
                               | x => x
                               end) /\ shape f'.
  Proof.
    intros Hs Hd. destruct (mkdir_all_spec p f) as [f' [E L]].
    { intros q H1 H2. apply (sh_dir f Hs). apply Hd; assumption. }
    exists f'. split; [assumption|]. split; [assumption|]. split.
    - intros q H. rewrite L in H. destruct (lookup f q) eqn:El.
      + apply (sh_cov f Hs). congruence.
      + destruct (path_eqb q []) eqn:E1; cbn [negb andb] in H; [congruence|].
        destruct (is_prefix q p) eqn:E2; [|congruence]. apply dirlike_covered. apply Hd; [apply path_eqb_neq; assumption|assumption].
    - intros q H. rewrite L. pose proof (sh_dir f Hs q H) as X. destruct (lookup f q) as [n|]; [assumption|].
      destruct (negb (path_eqb q []) && is_prefix q p); reflexivity.
    - intros q r H Hr Hp Hne. rewrite L in H. rewrite L.
      assert (Hrd : lookup f r = Some Dir \/ (lookup f r = None /\ is_prefix r p = true)).
      { destruct (lookup f q) eqn:El.
        - left. apply (sh_closed f Hs q r); try assumption. congruence.
        - destruct (path_eqb q []) eqn:E1; cbn [negb andb] in H; [congruence|].
          destruct (is_prefix q p) eqn:E2; [|congruence].
          assert (Hrp : is_prefix r p = true) by (eapply is_prefix_trans; eassumption).
          pose proof (sh_dir f Hs r (Hd r Hr Hrp)) as X.
          destruct (lookup f r) as [[]|]; try discriminate; [left; reflexivity|right; split; [reflexivity|assumption]]. }
      destruct Hrd as [-> | [-> Hrp]]; [reflexivity|].
      apply path_eqb_neq in Hr. rewrite Hr, Hrp. reflexivity.
  Qed.

  (** writing the cell of a file or symlink entry whose parent is there *)
  Lemma shape_upd f e n :
    shape f -> In e es -> ekind e <> KDir ->
    (lookup f (epath e) <> None \/ parent_ok (epath e) f = true) ->
    shape (upd f (epath e) n).
  Proof.
    intros Hs He Hk Hpar. split.
    - intros q H. rewrite lookup_upd in H. destruct (path_eqb q (epath e)) eqn:E.
      + apply path_eqb_eq in E. subst q. apply entry_covered. assumption.
      + apply (sh_cov f Hs). assumption.
    - intros q H. rewrite lookup_upd. destruct (path_eqb q (epath e)) eqn:E.
      + apply path_eqb_eq in E. subst q. exfalso. eapply nondir_not_dirlike; eassumption.
      + apply (sh_dir f Hs). assumption.
    - intros q r H Hr Hp Hne. rewrite lookup_upd in H. rewrite lookup_upd.
      destruct (path_eqb r (epath e)) eqn:E2.
      + exfalso. apply path_eqb_eq in E2. subst r.
        destruct (path_eqb q (epath e)) eqn:E; [apply path_eqb_eq in E; congruence|].
        eapply nondir_no_desc; try eassumption; [congruence|]. apply (sh_cov f Hs). assumption.
      + destruct (path_eqb q (epath e)) eqn:E.
        * apply path_eqb_eq in E. subst q.
          destruct Hpar as [Hex|Hpar]; [apply (sh_closed f Hs (epath e) r); assumption|].
          apply parent_ok_spec in Hpar.
          assert (Hrp : is_prefix r (parent (epath e)) = true).
          { apply (strict_prefix_parent r (epath e) (entry_path_nonnil e He)). split; assumption. }
          destruct Hpar as [Hpar|Hpar].
          -- rewrite Hpar in Hrp. apply is_prefix_nil_r in Hrp. contradiction.
          -- destruct (path_eq_dec r (parent (epath e))) as [->|Hne2]; [assumption|].
             apply (sh_closed f Hs (parent (epath e)) r); try assumption. congruence.
        * apply (sh_closed f Hs q r); assumption.
  Qed.
End Shape.

Section PoolProofs.
  Variable es : list entry.
  Variable chunk : list N -> list (list N).
  Variable racy wmark : bool.
  Hypothesis Hwf : wf_entries es.
  Hypothesis Hchunk : forall d, concat (chunk d) = d.

  Local Notation job := (job chunk racy).
  Local Notation step := (step es chunk racy wmark).
  Local Notation exec := (exec wmark).
  Local Notation shape := (shape es).
  Local Notation dirlike := (dirlike es).

  Definition is_count (op : mop) : bool :=
    match op with MCount _ | MCountLoad _ | MCountStore _ => true | _ => false end.
  Definition is_sync (op : mop) : bool :=
    match op with MProgress _ | MEntryDone _ => true | _ => false end.
  (** the operations of a job without the counter accesses *)
  Definition fsops (ops : list mop) : list mop := filter (fun op => negb (is_count op)) ops.
  (** nothing left that touches the directory *)
  Definition no_fs (ops : list mop) : bool := forallb (fun op => is_count op || is_sync op) ops.

  Lemma fsops_cons op rest : fsops (op :: rest) = if is_count op then fsops rest else op :: fsops rest.
  Proof. unfold fsops. cbn [filter]. destruct (is_count op); reflexivity. Qed.

  Lemma fsops_app a b : fsops (a ++ b) = fsops a ++ fsops b.
  Proof. unfold fsops. apply filter_app. Qed.

  Lemma no_fs_fsops l : no_fs (fsops l) = no_fs l.
  Proof.
    induction l as [|op l IH]; [reflexivity|]. rewrite fsops_cons. unfold no_fs in *. cbn [forallb].
    destruct (is_count op) eqn:E; cbn [orb andb]; [assumption|]. cbn [forallb]. rewrite E. cbn [orb]. rewrite IH. reflexivity.
  Qed.

  Lemma fsops_count_ops k : fsops (count_ops racy k) = [].
  Proof. unfold count_ops. destruct racy; reflexivity. Qed.

  Lemma fsops_appends p cs : fsops (map (MAppend p) cs) = map (MAppend p) cs.
  Proof. induction cs as [|c cs IH]; [reflexivity|]. cbn [map]. rewrite fsops_cons. cbn [is_count]. rewrite IH. reflexivity. Qed.

  (** where worker is in the job of its entry, and what is already true of the directory *)
  Inductive stage (i : nat) (seen : option node) (f : fs) : entry -> list mop -> Prop :=
  | SD0 p : stage i seen f (EDir p) [MLstat p; MMkRemove p; MMkMkdir p; MProgress i]
  | SD1 p : seen = None \/ (seen = Some Dir /\ lookup f p = Some Dir) ->
            stage i seen f (EDir p) [MMkRemove p; MMkMkdir p; MProgress i]
  | SD2 p : seen = None \/ (seen = Some Dir /\ lookup f p = Some Dir) ->
            stage i seen f (EDir p) [MMkMkdir p; MProgress i]
  | SD3 p : lookup f p = Some Dir -> stage i seen f (EDir p) [MProgress i]
  | SL0 p d : stage i seen f (ELink p d) [MRemoveAll p; MMkdirAll (parent p); MSymlink p d; MProgress i; MEntryDone i]
  | SL1 p d : lookup f p = None ->
              stage i seen f (ELink p d) [MMkdirAll (parent p); MSymlink p d; MProgress i; MEntryDone i]
  | SL2 p d : lookup f p = None -> parent_ok p f = true ->
              stage i seen f (ELink p d) [MSymlink p d; MProgress i; MEntryDone i]
  | SL3 p d : lookup f p = Some (Link d) -> stage i seen f (ELink p d) [MProgress i; MEntryDone i]
  | SF0 p d : stage i seen f (EFile p d)
                (MRemoveAll p :: MMkdirAll (parent p) :: MCreate p :: map (MAppend p) (chunk d) ++ [MProgress i; MEntryDone i])
  | SF1 p d : lookup f p = None ->
              stage i seen f (EFile p d)
                (MMkdirAll (parent p) :: MCreate p :: map (MAppend p) (chunk d) ++ [MProgress i; MEntryDone i])
  | SF2 p d : lookup f p = None -> parent_ok p f = true ->
              stage i seen f (EFile p d) (MCreate p :: map (MAppend p) (chunk d) ++ [MProgress i; MEntryDone i])
  | SF3 p d c1 c2 : chunk d = c1 ++ c2 -> lookup f p = Some (File (concat c1)) ->
              stage i seen f (EFile p d) (map (MAppend p) c2 ++ [MProgress i; MEntryDone i])
  | SDone e : lookup f (epath e) = Some (enode e) -> stage i seen f e [MEntryDone i]
  | SEnd e : lookup f (epath e) = Some (enode e) -> stage i seen f e [].

  Lemma stage_job i seen f e : stage i seen f e (fsops (job i e)).
  Proof.
    destruct e as [p|p d|p d]; unfold Zip.job.
    - rewrite !fsops_app, fsops_count_ops. apply SD0.
    - rewrite !fsops_app, fsops_count_ops, fsops_appends. apply SF0.
    - rewrite !fsops_app, fsops_count_ops. apply SL0.
  Qed.

  Lemma no_fs_job i e : no_fs (job i e) = false.
  Proof.
    unfold Zip.job, count_ops. destruct e; destruct racy; reflexivity.
  Qed.

  Lemma stage_nofs_good i seen f e ops : stage i seen f e ops -> no_fs ops = true -> lookup f (epath e) = Some (enode e).
  Proof.
    intros H Hn. destruct H; try discriminate Hn; try assumption.
    destruct c2 as [|c c2]; [|discriminate Hn]. rewrite app_nil_r in H. rewrite <- H, Hchunk in H0. exact H0.
  Qed.

  Definition busy (w : worker) : Prop := wops w <> [].

  Definition wvalid (s : state) (w : worker) : Prop :=
    busy w ->
    widx w < snext s /\ exists e, nth_error es (widx w) = Some e /\
      (if skipped (slast0 s) (widx w) then wops w = [MEntryDone (widx w)]
       else stage (widx w) (wseen w) (sfs s) e (fsops (wops w))).

  (** the file-system work for entry i is over (or was never needed) *)
  Definition fsdone (s : state) (i : nat) : Prop :=
    skipped (slast0 s) i = true \/
    (i < snext s /\ forall t w, nth_error (sworkers s) t = Some w -> busy w -> widx w = i -> no_fs (wops w) = true).

  Record Inv (s : state) : Prop := mkInv {
    inv_err : serr s = false;
    inv_shape : shape (sfs s);
    inv_next : snext s <= length es;
    inv_w : forall t w, nth_error (sworkers s) t = Some w -> wvalid s w;
    inv_uniq : forall t1 t2 w1 w2, nth_error (sworkers s) t1 = Some w1 -> nth_error (sworkers s) t2 = Some w2 ->
                 busy w1 -> busy w2 -> widx w1 = widx w2 -> t1 = t2;
    inv_done : forall i e, nth_error es i = Some e -> fsdone s i -> lookup (sfs s) (epath e) = Some (enode e) }.

  (** what a step of the worker holding the entry at [pj] may do to the directory: leave a
      cell alone, create a directory that had to be one, or rewrite its own (non-directory) cell *)
  Definition frame (pj : path) (f f' : fs) : Prop :=
    forall q, lookup f' q = lookup f q \/ (dirlike q /\ lookup f q = None /\ lookup f' q = Some Dir) \/ (q = pj /\ ~ dirlike pj).

  Lemma frame_refl pj f : frame pj f f.
  Proof. intro q. left. reflexivity. Qed.

  Lemma frame_dir pj f f' q : frame pj f f' -> dirlike q -> lookup f q = Some Dir -> lookup f' q = Some Dir.
  Proof.
    intros H Hd Hl. destruct (H q) as [E|[[_ [E _]]|[E1 E2]]]; [congruence|congruence|]. subst. contradiction.
  Qed.

  Lemma frame_other pj f f' q : frame pj f f' -> ~ dirlike q -> q <> pj -> lookup f' q = lookup f q.
  Proof. intros H Hd Hne. destruct (H q) as [E|[[E _]|[E1 E2]]]; [assumption|contradiction|contradiction]. Qed.

  Lemma frame_entry pj f f' e :
    frame pj f f' -> In e es -> epath e <> pj -> lookup f (epath e) = Some (enode e) -> lookup f' (epath e) = Some (enode e).
  Proof.
    intros H He Hne Hl. destruct (ekind e) eqn:Ek.
    - assert (enode e = Dir) as En by (destruct e; try discriminate; reflexivity). rewrite En in *.
      eapply frame_dir; try eassumption. apply dir_entry_dirlike; assumption.
    - rewrite (frame_other pj f f'); try assumption. apply nondir_not_dirlike; [assumption|assumption|congruence].
    - rewrite (frame_other pj f f'); try assumption. apply nondir_not_dirlike; [assumption|assumption|congruence].
  Qed.

  Lemma frame_parent_ok pj f f' e :
    frame pj f f' -> In e es -> parent_ok (epath e) f = true -> parent_ok (epath e) f' = true.
  Proof.
    intros H He Hp. apply parent_ok_spec in Hp. apply parent_ok_spec.
    destruct (path_eq_dec (parent (epath e)) []) as [E|E]; [left; assumption|right].
    destruct Hp as [Hp|Hp]; [contradiction|].
    eapply frame_dir; try eassumption.
    eapply parent_prefix_dirlike; try eassumption. apply is_prefix_refl.
  Qed.

  (** the stage of a worker on another entry survives *)
  Lemma stage_frame pj f f' i seen e ops :
    frame pj f f' -> In e es -> epath e <> pj -> stage i seen f e ops -> stage i seen f' e ops.
  Proof.
    intros Hf He Hne Hst.
    assert (Hnd : ekind e <> KDir -> forall v, lookup f (epath e) = v -> lookup f' (epath e) = v).
    { intros Hk v Hv. rewrite (frame_other pj f f'); try assumption. apply nondir_not_dirlike; assumption. }
    assert (Hdd : ekind e = KDir -> lookup f (epath e) = Some Dir -> lookup f' (epath e) = Some Dir).
    { intros Hk Hv. eapply frame_dir; try eassumption. apply dir_entry_dirlike; assumption. }
    destruct Hst; cbn [epath ekind] in *.
    - apply SD0.
    - apply SD1. destruct H as [H|[H1 H2]]; [left; assumption|right; split; [assumption|apply Hdd; [reflexivity|assumption]]].
    - apply SD2. destruct H as [H|[H1 H2]]; [left; assumption|right; split; [assumption|apply Hdd; [reflexivity|assumption]]].
    - apply SD3. apply Hdd; [reflexivity|assumption].
    - apply SL0.
    - apply SL1. apply Hnd; [discriminate|assumption].
    - apply SL2; [apply Hnd; [discriminate|assumption]|]. apply (frame_parent_ok pj f f' (ELink p d)); assumption.
    - apply SL3. apply Hnd; [discriminate|assumption].
    - apply SF0.
    - apply SF1. apply Hnd; [discriminate|assumption].
    - apply SF2; [apply Hnd; [discriminate|assumption]|]. apply (frame_parent_ok pj f f' (EFile p d)); assumption.
    - eapply SF3; [eassumption|]. apply Hnd; [discriminate|assumption].
    - apply SDone. eapply frame_entry; eassumption.
    - apply SEnd. eapply frame_entry; eassumption.
  Qed.
  (** the effect of one operation of a busy worker on an entry that is not skipped *)
  Definition local_step (s : state) (t : nat) (w : worker) (e : entry) (s' : state) : Prop :=
    exists w', sworkers s' = set_nth (sworkers s) t w' /\ wops w' = tl (wops w) /\ widx w' = widx w /\
      snext s' = snext s /\ slast0 s' = slast0 s /\ serr s' = false /\
      shape (sfs s') /\ frame (epath e) (sfs s) (sfs s') /\
      stage (widx w) (wseen w') (sfs s') e (fsops (tl (wops w))) /\
      (no_fs (wops w) = true -> sfs s' = sfs s).

  Lemma is_prefix_parent_self p : p <> [] -> is_prefix p (parent p) = false.
  Proof.
    intro H. destruct (is_prefix p (parent p)) eqn:E; [|reflexivity].
    apply (strict_prefix_parent p p H) in E. destruct E as [_ E]. congruence.
  Qed.

  Ltac fin W := exists W; cbn [tl wops widx wseen wreg set_worker with_fs with_counts sworkers snext slast0 serr sfs];
                refine (conj eq_refl (conj eq_refl (conj eq_refl (conj eq_refl (conj eq_refl (conj _ (conj _ (conj _ (conj _ _)))))))));
                [assumption|assumption| | | ].

  Lemma progress_fields s i :
    sfs (progress wmark s i) = sfs s /\ snext (progress wmark s i) = snext s /\ sworkers (progress wmark s i) = sworkers s /\
    slast0 (progress wmark s i) = slast0 s /\ serr (progress wmark s i) = serr s /\ scounts (progress wmark s i) = scounts s /\
    sdone (progress wmark s i) = sdone s.
  Proof. unfold progress. destruct wmark; [destruct (existsb _ _)|]; cbn; repeat split; reflexivity. Qed.

  Lemma exec_mkremove_nop s t w p rest :
    wseen w = None \/ wseen w = Some Dir ->
    exec s t w (MMkRemove p) rest = set_worker s t (mkW rest (widx w) (wseen w) (wreg w)).
  Proof. intros [H|H]; cbn [Zip.exec]; rewrite H; reflexivity. Qed.

  Lemma exec_mkmkdir_nop s t w p rest :
    wseen w = Some Dir ->
    exec s t w (MMkMkdir p) rest = set_worker s t (mkW rest (widx w) (wseen w) (wreg w)).
  Proof. intros H; cbn [Zip.exec]; rewrite H; reflexivity. Qed.

  Lemma exec_mkmkdir_none s t w p rest :
    wseen w = None ->
    exec s t w (MMkMkdir p) rest = set_worker (with_fs s (fs_mkdir_all p (sfs s))) t (mkW rest (widx w) (wseen w) (wreg w)).
  Proof. intros H; cbn [Zip.exec]; rewrite H; reflexivity. Qed.

  Lemma exec_local s t w e op rest :
    serr s = false -> shape (sfs s) -> In e es -> wops w = op :: rest ->
    stage (widx w) (wseen w) (sfs s) e (fsops (op :: rest)) ->
    local_step s t w e (exec s t w op rest).
  Proof.
    intros Herr Hsh He Hops Hst. unfold local_step. rewrite Hops. cbn [tl].
    rewrite fsops_cons in Hst. destruct (is_count op) eqn:Ec.
    - destruct op; try discriminate Ec; cbn [Zip.exec].
      + fin (mkW rest (widx w) (wseen w) (wreg w)); [apply frame_refl|assumption|intros _; reflexivity].
      + fin (mkW rest (widx w) (wseen w) (get_count k (scounts s))); [apply frame_refl|assumption|intros _; reflexivity].
      + fin (mkW rest (widx w) (wseen w) (wreg w)); [apply frame_refl|assumption|intros _; reflexivity].
    - inversion Hst; subst; clear Hst; cbn [epath] in *.
      + (* SD0: lstat *)
        cbn [Zip.exec].
        assert (Hd : dirlike p) by (apply (dir_entry_dirlike es Hwf (EDir p)); [assumption|reflexivity]).
        pose proof (sh_dir es _ Hsh p Hd) as X.
        fin (mkW rest (widx w) (lookup (sfs s) p) (wreg w)).
        * apply frame_refl.
        * apply SD1. destruct (lookup (sfs s) p) as [[]|]; try discriminate X; [right; split; reflexivity|left; reflexivity].
        * intros _. reflexivity.
      + (* SD1: remove only when lstat saw a non-directory *)
        match goal with H : _ \/ _ |- _ => rename H into Hor end.
        rewrite exec_mkremove_nop by (destruct Hor as [H0|[H0 _]]; [left|right]; assumption).
        fin (mkW rest (widx w) (wseen w) (wreg w)); [apply frame_refl| |intros _; reflexivity]. apply SD2. assumption.
      + (* SD2: MkdirAll unless lstat saw a directory *)
        match goal with H : _ \/ _ |- _ => destruct H as [H0|[H0 H0']] end.
        * rewrite exec_mkmkdir_none by assumption.
          assert (Hd : dirlike p) by (apply (dir_entry_dirlike es Hwf (EDir p)); [assumption|reflexivity]).
          destruct (shape_mkdir_all es (sfs s) p Hsh) as [f' [E [L Hsh']]].
          { intros q Hq Hp. eapply prefix_of_dirlike; eassumption. }
          rewrite E. fin (mkW rest (widx w) (wseen w) (wreg w)).
          -- intro q. rewrite L. destruct (lookup (sfs s) q) eqn:El; [left; reflexivity|].
             destruct (path_eqb q []) eqn:E1; cbn [negb andb]; [left; reflexivity|].
             destruct (is_prefix q p) eqn:E2; [|left; reflexivity].
             right. left. split; [|split; reflexivity]. eapply prefix_of_dirlike; try eassumption. apply path_eqb_neq. assumption.
          -- apply SD3. rewrite L. pose proof (sh_dir es _ Hsh p Hd) as X.
             destruct (lookup (sfs s) p) as [[]|]; try discriminate X; [reflexivity|].
             destruct Hd as [Hd _]. apply path_eqb_neq in Hd. rewrite Hd, is_prefix_refl. reflexivity.
          -- intro Hn. discriminate Hn.
        * rewrite exec_mkmkdir_nop by assumption.
          fin (mkW rest (widx w) (wseen w) (wreg w)); [apply frame_refl| |intros _; reflexivity]. apply SD3. assumption.
      + (* SD3: progress *)
        cbn [Zip.exec].
        destruct (progress_fields s (widx w)) as [P1 [P2 [P3 [P4 [P5 _]]]]].
        exists (mkW rest (widx w) (wseen w) (wreg w)). unfold set_worker. cbn [sworkers snext slast0 serr sfs wops widx wseen].
        rewrite P1, P2, P3, P4, P5.
        refine (conj eq_refl (conj eq_refl (conj eq_refl (conj eq_refl (conj eq_refl (conj _ (conj _ (conj _ (conj _ _)))))))));
          [assumption|assumption|apply frame_refl| |intros _; reflexivity].
        apply (SEnd (widx w) (wseen w) (sfs s) (EDir p)). assumption.
      + (* SL0: RemoveAll *)
        cbn [Zip.exec].
        destruct (shape_remove_all es Hwf (sfs s) (ELink p d) Hsh He) as [f' [E [L Hsh']]]; [discriminate|].
        cbn [epath] in *. rewrite E. fin (mkW rest (widx w) (wseen w) (wreg w)).
        * intro q. rewrite L. destruct (path_eqb q p) eqn:E1; [|left; reflexivity].
          apply path_eqb_eq in E1. subst q. right. right. split; [reflexivity|].
          apply (nondir_not_dirlike es Hwf (ELink p d)); [assumption|discriminate].
        * apply SL1. rewrite L, path_eqb_refl. reflexivity.
        * intro Hn. discriminate Hn.
      + (* SL1: MkdirAll parent *)
        cbn [Zip.exec].
        destruct (shape_mkdir_all es (sfs s) (parent p) Hsh) as [f' [E [L Hsh']]].
        { intros q Hq Hp. apply (parent_prefix_dirlike es Hwf (ELink p d)); assumption. }
        assert (Hp : p <> []) by (apply (entry_path_nonnil es Hwf (ELink p d)); assumption).
        rewrite E. fin (mkW rest (widx w) (wseen w) (wreg w)).
        * intro q. rewrite L. destruct (lookup (sfs s) q) eqn:El; [left; reflexivity|].
          destruct (path_eqb q []) eqn:E1; cbn [negb andb]; [left; reflexivity|].
          destruct (is_prefix q (parent p)) eqn:E2; [|left; reflexivity].
          right. left. split; [|split; reflexivity]. apply (parent_prefix_dirlike es Hwf (ELink p d)); try assumption. apply path_eqb_neq. assumption.
        * match goal with H : lookup (sfs s) p = None |- _ => rename H into Hnone end.
          apply SL2.
          -- rewrite L, Hnone, (is_prefix_parent_self p Hp). rewrite andb_false_r. reflexivity.
          -- apply parent_ok_spec. destruct (path_eq_dec (parent p) []) as [En|En]; [left; assumption|right].
             rewrite L. assert (Hd : dirlike (parent p)) by (apply (parent_prefix_dirlike es Hwf (ELink p d)); [assumption|assumption|apply is_prefix_refl]).
             pose proof (sh_dir es _ Hsh _ Hd) as X. destruct (lookup (sfs s) (parent p)) as [[]|]; try discriminate X; [reflexivity|].
             apply path_eqb_neq in En. rewrite En, is_prefix_refl. reflexivity.
        * intro Hn. discriminate Hn.
      + (* SL2: symlink *)
        cbn [Zip.exec].
        match goal with H : lookup (sfs s) p = None |- _ => rename H into Hnone end.
        match goal with H : parent_ok p (sfs s) = true |- _ => rename H into Hpar end.
        unfold fs_symlink. rewrite Hpar, Hnone.
        assert (Hsh' : shape (upd (sfs s) p (Link d))).
        { apply (shape_upd es Hwf (sfs s) (ELink p d)); [assumption|assumption|discriminate|right; assumption]. }
        fin (mkW rest (widx w) (wseen w) (wreg w)).
        * intro q. rewrite lookup_upd. destruct (path_eqb q p) eqn:E1; [|left; reflexivity].
          apply path_eqb_eq in E1. subst q. right. right. split; [reflexivity|].
          apply (nondir_not_dirlike es Hwf (ELink p d)); [assumption|discriminate].
        * apply SL3. rewrite lookup_upd, path_eqb_refl. reflexivity.
        * intro Hn. discriminate Hn.
      + (* SL3: progress *)
        cbn [Zip.exec].
        destruct (progress_fields s (widx w)) as [P1 [P2 [P3 [P4 [P5 _]]]]].
        exists (mkW rest (widx w) (wseen w) (wreg w)). unfold set_worker. cbn [sworkers snext slast0 serr sfs wops widx wseen].
        rewrite P1, P2, P3, P4, P5.
        refine (conj eq_refl (conj eq_refl (conj eq_refl (conj eq_refl (conj eq_refl (conj _ (conj _ (conj _ (conj _ _)))))))));
          [assumption|assumption|apply frame_refl| |intros _; reflexivity].
        apply (SDone (widx w) (wseen w) (sfs s) (ELink p d)). assumption.
      + (* SF0: RemoveAll *)
        cbn [Zip.exec].
        destruct (shape_remove_all es Hwf (sfs s) (EFile p d) Hsh He) as [f' [E [L Hsh']]]; [discriminate|].
        cbn [epath] in *. rewrite E. fin (mkW rest (widx w) (wseen w) (wreg w)).
        * intro q. rewrite L. destruct (path_eqb q p) eqn:E1; [|left; reflexivity].
          apply path_eqb_eq in E1. subst q. right. right. split; [reflexivity|].
          apply (nondir_not_dirlike es Hwf (EFile p d)); [assumption|discriminate].
        * apply SF1. rewrite L, path_eqb_refl. reflexivity.
        * intro Hn. discriminate Hn.
      + (* SF1: MkdirAll parent *)
        cbn [Zip.exec].
        destruct (shape_mkdir_all es (sfs s) (parent p) Hsh) as [f' [E [L Hsh']]].
        { intros q Hq Hp. apply (parent_prefix_dirlike es Hwf (EFile p d)); assumption. }
        assert (Hp : p <> []) by (apply (entry_path_nonnil es Hwf (EFile p d)); assumption).
        rewrite E. fin (mkW rest (widx w) (wseen w) (wreg w)).
        * intro q. rewrite L. destruct (lookup (sfs s) q) eqn:El; [left; reflexivity|].
          destruct (path_eqb q []) eqn:E1; cbn [negb andb]; [left; reflexivity|].
          destruct (is_prefix q (parent p)) eqn:E2; [|left; reflexivity].
          right. left. split; [|split; reflexivity]. apply (parent_prefix_dirlike es Hwf (EFile p d)); try assumption. apply path_eqb_neq. assumption.
        * match goal with H : lookup (sfs s) p = None |- _ => rename H into Hnone end.
          apply SF2.
          -- rewrite L, Hnone, (is_prefix_parent_self p Hp). rewrite andb_false_r. reflexivity.
          -- apply parent_ok_spec. destruct (path_eq_dec (parent p) []) as [En|En]; [left; assumption|right].
             rewrite L. assert (Hd : dirlike (parent p)) by (apply (parent_prefix_dirlike es Hwf (EFile p d)); [assumption|assumption|apply is_prefix_refl]).
             pose proof (sh_dir es _ Hsh _ Hd) as X. destruct (lookup (sfs s) (parent p)) as [[]|]; try discriminate X; [reflexivity|].
             apply path_eqb_neq in En. rewrite En, is_prefix_refl. reflexivity.
        * intro Hn. discriminate Hn.
      + (* SF2: create *)
        cbn [Zip.exec].
        match goal with H : lookup (sfs s) p = None |- _ => rename H into Hnone end.
        match goal with H : parent_ok p (sfs s) = true |- _ => rename H into Hpar end.
        unfold fs_create. rewrite Hpar, Hnone.
        assert (Hsh' : shape (upd (sfs s) p (File []))).
        { apply (shape_upd es Hwf (sfs s) (EFile p d)); [assumption|assumption|discriminate|right; assumption]. }
        fin (mkW rest (widx w) (wseen w) (wreg w)).
        * intro q. rewrite lookup_upd. destruct (path_eqb q p) eqn:E1; [|left; reflexivity].
          apply path_eqb_eq in E1. subst q. right. right. split; [reflexivity|].
          apply (nondir_not_dirlike es Hwf (EFile p d)); [assumption|discriminate].
        * apply (SF3 (widx w) (wseen w) _ p d [] (chunk d)); [reflexivity|]. rewrite lookup_upd, path_eqb_refl. reflexivity.
        * intro Hn. discriminate Hn.
      + (* SF3: a write, or progress once everything is written *)
        match goal with H : chunk d = _ |- _ => rename H into Hck end.
        match goal with H : lookup (sfs s) p = Some _ |- _ => rename H into Hcur end.
        match goal with H : _ = op :: fsops rest |- _ => rename H into Heq end.
        destruct c2 as [|c c2]; cbn [map app] in Heq.
        * injection Heq as <- Hr.
          destruct (progress_fields s (widx w)) as [P1 [P2 [P3 [P4 [P5 _]]]]].
          cbn [Zip.exec].
          exists (mkW rest (widx w) (wseen w) (wreg w)). unfold set_worker. cbn [sworkers snext slast0 serr sfs wops widx wseen].
          rewrite P1, P2, P3, P4, P5.
          refine (conj eq_refl (conj eq_refl (conj eq_refl (conj eq_refl (conj eq_refl (conj _ (conj _ (conj _ (conj _ _)))))))));
            [assumption|assumption|apply frame_refl| |intros _; reflexivity].
          rewrite <- Hr. apply (SDone (widx w) (wseen w) (sfs s) (EFile p d)). cbn [epath enode].
          rewrite app_nil_r in Hck. rewrite <- Hck, Hchunk in Hcur. assumption.
        * injection Heq as <- Hr. cbn [Zip.exec]. unfold fs_append. rewrite Hcur.
          assert (Hsh' : shape (upd (sfs s) p (File (concat c1 ++ c)))).
          { apply (shape_upd es Hwf (sfs s) (EFile p d)); [assumption|assumption|discriminate|left; cbn [epath]; congruence]. }
          fin (mkW rest (widx w) (wseen w) (wreg w)).
          -- intro q. rewrite lookup_upd. destruct (path_eqb q p) eqn:E1; [|left; reflexivity].
             apply path_eqb_eq in E1. subst q. right. right. split; [reflexivity|].
             apply (nondir_not_dirlike es Hwf (EFile p d)); [assumption|discriminate].
          -- rewrite <- Hr. apply (SF3 (widx w) (wseen w) _ p d (c1 ++ [c]) c2).
             ++ rewrite Hck, <- app_assoc. reflexivity.
             ++ rewrite lookup_upd, path_eqb_refl, concat_app. cbn [concat]. rewrite app_nil_r. reflexivity.
          -- intro Hn. discriminate Hn.
      + (* SDone: the callback *)
        cbn [Zip.exec].
        fin (mkW rest (widx w) (wseen w) (wreg w)); [apply frame_refl| |intros _; reflexivity]. apply SEnd. assumption.
  Qed.
  Lemma path_index_inj i j e e' :
    nth_error es i = Some e -> nth_error es j = Some e' -> epath e = epath e' -> i = j.
  Proof.
    intros Hi Hj E. destruct Hwf as [Hn _]. rewrite NoDup_nth_error in Hn. apply Hn.
    - rewrite map_length. apply nth_error_Some. congruence.
    - rewrite !nth_error_map, Hi, Hj. cbn. congruence.
  Qed.

  Lemma busy_tl w w' : wops w' = tl (wops w) -> busy w' -> busy w.
  Proof. unfold busy. intros H Hb E. rewrite E in H. cbn in H. contradiction. Qed.

  (** rebuilding the invariant after an operation on an entry that is not skipped *)
  Lemma inv_local s t w e s' :
    Inv s -> nth_error (sworkers s) t = Some w -> busy w -> nth_error es (widx w) = Some e ->
    skipped (slast0 s) (widx w) = false -> local_step s t w e s' -> Inv s'.
  Proof.
    intros HI Hn Hb Hne Hskip [w' [Hws [Hops' [Hidx [Hnx [Hl0 [Herr [Hsh [Hfr [Hst Hnf]]]]]]]]]].
    assert (He : In e es) by (eapply nth_error_In; eassumption).
    assert (Ht : t < length (sworkers s)) by (apply nth_error_Some; congruence).
    destruct (inv_w s HI t w Hn Hb) as [Hlt _].
    assert (Hother : forall k ek, nth_error es k = Some ek -> k <> widx w ->
               lookup (sfs s) (epath ek) = Some (enode ek) -> lookup (sfs s') (epath ek) = Some (enode ek)).
    { intros k ek Hk Hne2 Hl. eapply frame_entry; try eassumption.
      - eapply nth_error_In; eassumption.
      - intro E. apply Hne2. eapply path_index_inj; eassumption. }
    split.
    - assumption.
    - assumption.
    - rewrite Hnx. apply (inv_next s HI).
    - intros t' w2 Hn2. rewrite Hws in Hn2. apply nth_error_set_nth in Hn2. destruct Hn2 as [[<- ->]|[Hne2 Hn2]].
      + intro Hb'. split; [rewrite Hidx, Hnx; assumption|]. exists e. split; [rewrite Hidx; assumption|].
        rewrite Hl0, Hidx, Hskip, Hops'. assumption.
      + intro Hb2. destruct (inv_w s HI t' w2 Hn2 Hb2) as [V1 [e2 [V2 V3]]]. split; [rewrite Hnx; assumption|].
        exists e2. split; [assumption|]. rewrite Hl0. destruct (skipped (slast0 s) (widx w2)); [assumption|].
        eapply stage_frame; try eassumption.
        * eapply nth_error_In; eassumption.
        * intro E. apply Hne2. apply (inv_uniq s HI t t' w w2); try assumption.
          symmetry. eapply path_index_inj; eassumption.
    - intros t1 t2 w1 w2 H1 H2 B1 B2 E. rewrite Hws in H1, H2.
      apply nth_error_set_nth in H1. apply nth_error_set_nth in H2.
      destruct H1 as [[<- ->]|[N1 H1]]; destruct H2 as [[<- ->]|[N2 H2]].
      + reflexivity.
      + apply (inv_uniq s HI t t2 w w2); try assumption. congruence.
      + symmetry. apply (inv_uniq s HI t t1 w w1); try assumption. congruence.
      + apply (inv_uniq s HI t1 t2 w1 w2); assumption.
    - intros k ek Hk [Hsk|[Hlt2 Hall]].
      + rewrite Hl0 in Hsk. apply (Hother k ek Hk); [intro E; subst k; congruence|].
        apply (inv_done s HI k ek Hk). left. assumption.
      + destruct (Nat.eq_dec k (widx w)) as [->|Hne2].
        * assert (ek = e) by congruence. subst ek. apply (stage_nofs_good _ _ _ _ _ Hst). rewrite no_fs_fsops.
          rewrite <- Hops'. destruct (wops w') as [|o r] eqn:Et; [reflexivity|]. rewrite <- Et.
          apply (Hall t w').
          -- rewrite Hws. apply nth_error_set_nth_eq. assumption.
          -- unfold busy. rewrite Et. discriminate.
          -- assumption.
        * apply (Hother k ek Hk Hne2). apply (inv_done s HI k ek Hk). right. split; [rewrite <- Hnx; assumption|].
          intros t2 w2 Hn2 Hb2 Hi2. apply (Hall t2 w2); try assumption.
          rewrite Hws. rewrite nth_error_set_nth_neq; [assumption|]. intro E. subst t2. congruence.
  Qed.

  Lemma inv_dispatch s t w e :
    Inv s -> nth_error (sworkers s) t = Some w -> wops w = [] -> nth_error es (snext s) = Some e ->
    Inv (mkS (sfs s) (S (snext s))
             (set_nth (sworkers s) t (mkW (if skipped (slast0 s) (snext s) then skip_job (snext s) e else job (snext s) e)
                                          (snext s) (wseen w) (wreg w)))
             (scounts s) (sresume s) (sahead s) (swm s) (sdone s) (slast0 s) (serr s)).
  Proof.
    intros HI Hn Hidle Hne.
    assert (Ht : t < length (sworkers s)) by (apply nth_error_Some; congruence).
    split; cbn [serr sfs snext sworkers slast0].
    - apply (inv_err s HI).
    - apply (inv_shape s HI).
    - apply Nat.le_succ_l. apply nth_error_Some. congruence.
    - intros t' w2 Hn2. apply nth_error_set_nth in Hn2. destruct Hn2 as [[<- ->]|[Hne2 Hn2]]; unfold wvalid; cbn [serr sfs snext sworkers slast0 wops widx wseen].
      + intro Hb. split; [lia|]. exists e. split; [assumption|]. unfold busy in Hb. cbn [wops] in Hb.
        destruct (skipped (slast0 s) (snext s)).
        * destruct e; cbn [skip_job] in *; [contradiction|reflexivity|reflexivity].
        * apply stage_job.
      + intro Hb. destruct (inv_w s HI t' w2 Hn2 Hb) as [V1 V2]. split; [lia|assumption].
    - intros t1 t2 w1 w2 H1 H2 B1 B2 E.
      apply nth_error_set_nth in H1. apply nth_error_set_nth in H2.
      destruct H1 as [[<- ->]|[N1 H1]]; destruct H2 as [[<- ->]|[N2 H2]]; cbn [widx] in E.
      + reflexivity.
      + destruct (inv_w s HI t2 w2 H2 B2) as [V _]. lia.
      + destruct (inv_w s HI t1 w1 H1 B1) as [V _]. lia.
      + apply (inv_uniq s HI t1 t2 w1 w2); assumption.
    - intros k ek Hk [Hsk|[Hlt Hall]]; cbn [serr sfs snext sworkers slast0] in *.
      + apply (inv_done s HI k ek Hk). left. assumption.
      + destruct (Nat.eq_dec k (snext s)) as [->|Hne2].
        * destruct (skipped (slast0 s) (snext s)) eqn:Esk; [apply (inv_done s HI _ ek Hk); left; assumption|].
          exfalso. assert (ek = e) by congruence. subst ek.
          assert (X : no_fs (job (snext s) e) = true).
          { apply (Hall t (mkW (job (snext s) e) (snext s) (wseen w) (wreg w))).
            - apply nth_error_set_nth_eq. assumption.
            - unfold busy. cbn [wops]. intro E. pose proof (no_fs_job (snext s) e) as Y. rewrite E in Y. discriminate Y.
            - reflexivity. }
          rewrite no_fs_job in X. discriminate X.
        * apply (inv_done s HI k ek Hk). right. split; [lia|].
          intros t2 w2 Hn2 Hb2 Hi2. apply (Hall t2 w2); try assumption.
          rewrite nth_error_set_nth_neq; [assumption|]. intro E. subst t2. unfold busy in Hb2. congruence.
  Qed.

  (** the OnEntryDone callback of an entry that was skipped *)
  Lemma inv_skipdone s t w i :
    Inv s -> nth_error (sworkers s) t = Some w -> wops w = [MEntryDone i] ->
    Inv (exec s t w (MEntryDone i) []).
  Proof.
    intros HI Hn Hops. cbn [Zip.exec]. unfold set_worker. cbn [serr sfs snext sworkers slast0 sresume sahead swm scounts sdone].
    assert (Ht : t < length (sworkers s)) by (apply nth_error_Some; congruence).
    split; cbn [serr sfs snext sworkers slast0].
    - apply (inv_err s HI).
    - apply (inv_shape s HI).
    - apply (inv_next s HI).
    - intros t' w2 Hn2. apply nth_error_set_nth in Hn2. destruct Hn2 as [[<- ->]|[Hne2 Hn2]].
      + intro Hb. unfold busy in Hb. cbn [wops] in Hb. contradiction.
      + apply (inv_w s HI t' w2 Hn2).
    - intros t1 t2 w1 w2 H1 H2 B1 B2 E.
      apply nth_error_set_nth in H1. apply nth_error_set_nth in H2.
      destruct H1 as [[<- ->]|[N1 H1]]; destruct H2 as [[<- ->]|[N2 H2]]; try (unfold busy in *; cbn [wops] in *; contradiction).
      apply (inv_uniq s HI t1 t2 w1 w2); assumption.
    - intros k ek Hk Hfd. apply (inv_done s HI k ek Hk). destruct Hfd as [Hsk|[Hlt Hall]]; [left; assumption|right].
      cbn [serr sfs snext sworkers slast0] in *. split; [assumption|].
      intros t2 w2 Hn2 Hb2 Hi2. destruct (Nat.eq_dec t2 t) as [->|Hne2].
      + assert (w2 = w) by congruence. subst w2. rewrite Hops. reflexivity.
      + apply (Hall t2 w2); try assumption. rewrite nth_error_set_nth_neq; [assumption|]. congruence.
  Qed.

  Theorem inv_step s t : Inv s -> Inv (step s t).
  Proof.
    intro HI. unfold Zip.step.
    replace (if serr s then s else _) with
      (match nth_error (sworkers s) t with
       | Some w => match wops w with
                   | [] => match nth_error es (snext s) with
                           | Some e => let i := snext s in
                                       let ops := if skipped (slast0 s) i then skip_job i e else job i e in
                                       mkS (sfs s) (S i) (set_nth (sworkers s) t (mkW ops i (wseen w) (wreg w)))
                                           (scounts s) (sresume s) (sahead s) (swm s) (sdone s) (slast0 s) (serr s)
                           | None => s
                           end
                   | op :: rest => exec s t w op rest
                   end
       | None => s
       end) by (destruct (serr s) eqn:E; [pose proof (inv_err s HI); congruence|reflexivity]).
    destruct (nth_error (sworkers s) t) as [w|] eqn:Hn; [|assumption].
    destruct (wops w) as [|op rest] eqn:Hops.
    - destruct (nth_error es (snext s)) as [e|] eqn:Hne; [|assumption].
      apply inv_dispatch; assumption.
    - assert (Hb : busy w) by (unfold busy; rewrite Hops; discriminate).
      destruct (inv_w s HI t w Hn Hb) as [Hlt [e [Hne Hv]]].
      destruct (skipped (slast0 s) (widx w)) eqn:Hsk.
      + rewrite Hops in Hv. injection Hv as -> ->. apply inv_skipdone; assumption.
      + apply (inv_local s t w e); try assumption.
        apply exec_local; try assumption.
        * apply (inv_err s HI).
        * apply (inv_shape s HI).
        * eapply nth_error_In; eassumption.
        * rewrite <- Hops. assumption.
  Qed.

  Theorem inv_run sched : forall s, Inv s -> Inv (run es chunk racy wmark sched s).
  Proof.
    induction sched as [|t sched IH]; intros s HI; [assumption|]. cbn [run fold_left]. apply IH. apply inv_step. assumption.
  Qed.
  (** * Start and end *)

  (** a directory from which an extraction can be (re)started with the resume file holding
      [last]: well-shaped, and every entry at or below [last] complete *)
  Definition resumable (f : fs) (last : option nat) : Prop :=
    shape f /\ forall i e, nth_error es i = Some e -> skipped last i = true -> lookup f (epath e) = Some (enode e).

  Lemma nth_error_repeat {A} (x y : A) n t : nth_error (repeat x n) t = Some y -> y = x.
  Proof. intro H. apply nth_error_In in H. apply repeat_spec in H. assumption. Qed.

  Theorem init_inv f last workers : resumable f last -> Inv (init f last workers).
  Proof.
    intros [Hsh Hdone]. unfold init. split; cbn [serr sfs snext sworkers slast0].
    - reflexivity.
    - assumption.
    - lia.
    - intros t w Hn Hb. apply nth_error_repeat in Hn. subst w. unfold busy in Hb. cbn in Hb. contradiction.
    - intros t1 t2 w1 w2 H1 _ B1. apply nth_error_repeat in H1. subst w1. unfold busy in B1. cbn in B1. contradiction.
    - intros i e Hi [Hsk|[Hlt _]]; cbn [serr sfs snext sworkers slast0] in *; [|lia]. apply (Hdone i e); assumption.
  Qed.

  Lemma resumable_empty : resumable [] None.
  Proof. split; [apply shape_empty|]. intros i e _ H. discriminate H. Qed.

  Lemma all_idle_spec s : all_idle s = true -> forall t w, nth_error (sworkers s) t = Some w -> wops w = [].
  Proof.
    unfold all_idle. intros H t w Hn. rewrite forallb_forall in H. apply nth_error_In in Hn. apply H in Hn.
    destruct (wops w); [reflexivity|discriminate].
  Qed.

  Theorem finished_spec s : Inv s -> finished es s = true -> forall q, lookup (sfs s) q = spec_fs es q.
  Proof.
    intros HI Hfin q. unfold finished in Hfin. apply andb_true_iff in Hfin. destruct Hfin as [Hfin Hidle].
    apply andb_true_iff in Hfin. destruct Hfin as [_ Hnext]. apply Nat.eqb_eq in Hnext.
    pose proof (all_idle_spec s Hidle) as Hid.
    assert (Hall : forall e, In e es -> lookup (sfs s) (epath e) = Some (enode e)).
    { intros e He. apply In_nth_error in He. destruct He as [i Hi]. apply (inv_done s HI i e Hi). right. split.
      - rewrite Hnext. apply nth_error_Some. congruence.
      - intros t w Hn Hb. exfalso. apply Hb. apply (Hid t w Hn). }
    unfold spec_fs, entry_at. destruct (find (fun e => path_eqb (epath e) q) es) as [e|] eqn:Ef.
    - apply find_some in Ef. destruct Ef as [He Hq]. apply path_eqb_eq in Hq. subst q. apply Hall. assumption.
    - destruct (inner_dir es q) eqn:Ei.
      + unfold inner_dir in Ei. destruct q as [|a q]; [discriminate|].
        apply existsb_exists in Ei. destruct Ei as [e [He Hp]]. apply andb_true_iff in Hp. destruct Hp as [Hp Hne].
        apply negb_true_iff in Hne. apply path_eqb_neq in Hne.
        apply (sh_closed es _ (inv_shape s HI) (epath e) (a :: q)); try assumption; [|discriminate].
        rewrite (Hall e He). discriminate.
      + destruct (lookup (sfs s) q) as [n|] eqn:El; [|reflexivity]. exfalso.
        assert (Hc : covered es q) by (apply (sh_cov es _ (inv_shape s HI)); congruence).
        destruct Hc as [Hq [e [He Hp]]].
        destruct (path_eq_dec q (epath e)) as [E|E].
        * pose proof (find_none _ _ Ef e He) as X. cbn in X. rewrite <- E, path_eqb_refl in X. discriminate X.
        * unfold inner_dir in Ei. destruct q as [|a q]; [contradiction|].
          assert (X : existsb (fun e0 => is_prefix (a :: q) (epath e0) && negb (path_eqb (a :: q) (epath e0))) es = true).
          { apply existsb_exists. exists e. split; [assumption|]. rewrite Hp. apply path_eqb_neq in E. rewrite E. reflexivity. }
          congruence.
  Qed.

  (** * The resume file *)
  Definition le_opt (i : nat) (o : option nat) : Prop := match o with None => False | Some l => i <= l end.

  Lemma le_opt_skipped i o : le_opt i o <-> skipped o i = true.
  Proof. destruct o as [l|]; cbn [le_opt skipped]; [symmetry; apply Nat.leb_le|split; [contradiction|discriminate]]. Qed.

  Record RInv (s : state) : Prop := mkRInv {
    rinv_res : forall i, le_opt i (sresume s) -> fsdone s i;
    rinv_wm : wmark = true ->
              swm s = sresume s /\
              (forall i, le_opt i (swm s) -> skipped (slast0 s) i = true \/ In i (sahead s)) /\
              (forall i, In i (sahead s) -> fsdone s i) }.

  Lemma advance_spec (P : nat -> Prop) ahead : forall fuel wm,
    (forall i, le_opt i wm -> P i) -> (forall i, In i ahead -> P i) ->
    forall i, le_opt i (advance fuel wm ahead) -> P i.
  Proof.
    induction fuel as [|fuel IH]; intros wm H1 H2 i Hi; cbn [advance] in Hi; [apply H1; assumption|].
    destruct (existsb (Nat.eqb (next_of wm)) ahead) eqn:E; [|apply H1; assumption].
    apply (IH (Some (next_of wm))); try assumption.
    intros j Hj. cbn [le_opt] in Hj.
    apply existsb_exists in E. destruct E as [x [Hx Ex]]. apply Nat.eqb_eq in Ex. subst x.
    destruct wm as [k|]; cbn [next_of] in *.
    - destruct (Nat.eq_dec j (S k)) as [->|Hne]; [apply H2; assumption|]. apply H1. cbn [le_opt]. lia.
    - assert (j = 0) by lia. subst j. apply H2. assumption.
  Qed.

  (** what any step does to the workers, the dispatcher position and the resume state *)
  Lemma exec_fields s t w op rest :
    exists w', sworkers (exec s t w op rest) = set_nth (sworkers s) t w' /\ wops w' = rest /\ widx w' = widx w /\
      snext (exec s t w op rest) = snext s /\ slast0 (exec s t w op rest) = slast0 s /\
      ((forall j, op <> MProgress j) ->
         sresume (exec s t w op rest) = sresume s /\ swm (exec s t w op rest) = swm s /\ sahead (exec s t w op rest) = sahead s).
  Proof.
    destruct op; cbn [Zip.exec]; unfold set_worker, with_fs, with_counts;
      repeat match goal with
             | |- context [match wseen w with _ => _ end] => destruct (wseen w) as [[]|]
             | |- context [match ?r with Some _ => _ | None => _ end] => destruct r
             end;
      cbn [sworkers snext slast0 sresume swm sahead];
      try (eexists; repeat split; reflexivity).
    destruct (progress_fields s i) as [P1 [P2 [P3 [P4 _]]]].
    exists (mkW rest (widx w) (wseen w) (wreg w)). rewrite P2, P3, P4. cbn [wops widx].
    refine (conj eq_refl (conj eq_refl (conj eq_refl (conj eq_refl (conj eq_refl _))))).
    intro H. exfalso. apply (H i). reflexivity.
  Qed.

  Lemma no_fs_tl ops : no_fs ops = true -> no_fs (tl ops) = true.
  Proof. destruct ops as [|o r]; [reflexivity|]. unfold no_fs. cbn [forallb tl]. intro H. apply andb_true_iff in H. apply H. Qed.

  Lemma fsdone_step s t i : fsdone s i -> fsdone (step s t) i.
  Proof.
    intros [Hsk|[Hlt Hall]]; unfold Zip.step.
    - destruct (serr s); [left; assumption|].
      destruct (nth_error (sworkers s) t) as [w|]; [|left; assumption].
      destruct (wops w) as [|op rest].
      + destruct (nth_error es (snext s)); left; assumption.
      + destruct (exec_fields s t w op rest) as [w' [_ [_ [_ [_ [E _]]]]]]. left. rewrite E. assumption.
    - destruct (serr s); [right; split; assumption|].
      destruct (nth_error (sworkers s) t) as [w|] eqn:Hn; [|right; split; assumption].
      destruct (wops w) as [|op rest] eqn:Hops.
      + destruct (nth_error es (snext s)); [|right; split; assumption].
        right. cbn [snext sworkers]. split; [lia|]. intros t2 w2 Hn2 Hb2 Hi2.
        apply nth_error_set_nth in Hn2. destruct Hn2 as [[<- ->]|[Hne Hn2]]; [cbn [widx] in Hi2; lia|].
        apply (Hall t2 w2); assumption.
      + destruct (exec_fields s t w op rest) as [w' [E1 [E2 [E3 [E4 _]]]]]. right. rewrite E4. split; [assumption|].
        intros t2 w2 Hn2 Hb2 Hi2. rewrite E1 in Hn2.
        apply nth_error_set_nth in Hn2. destruct Hn2 as [[<- ->]|[Hne Hn2]]; [|apply (Hall t2 w2); assumption].
        rewrite E2. change rest with (tl (op :: rest)). rewrite <- Hops. apply no_fs_tl. apply (Hall t w); try assumption; [|congruence].
        unfold busy. rewrite Hops. discriminate.
  Qed.

  (** the operation that writes the resume file comes after the entry's file-system work *)
  Lemma progress_op s t w j rest :
    Inv s -> nth_error (sworkers s) t = Some w -> wops w = MProgress j :: rest ->
    j = widx w /\ widx w < snext s /\ skipped (slast0 s) j = false /\ no_fs rest = true.
  Proof.
    intros HI Hn Hops. assert (Hb : busy w) by (unfold busy; rewrite Hops; discriminate).
    destruct (inv_w s HI t w Hn Hb) as [Hlt [e [Hne Hv]]].
    destruct (skipped (slast0 s) (widx w)) eqn:Hsk; [rewrite Hops in Hv; discriminate Hv|].
    rewrite Hops, fsops_cons in Hv. cbn [is_count] in Hv. rewrite <- no_fs_fsops.
    inversion Hv; subst; try (repeat split; try assumption; reflexivity).
    destruct c2 as [|c c2]; cbn [map app] in *; [|discriminate].
    match goal with H : _ = MProgress j :: fsops rest |- _ => injection H as Hj Hr end. subst j.
    repeat split; try assumption. rewrite <- Hr. reflexivity.
  Qed.

  Lemma progress_true s i :
    wmark = true ->
    sahead (progress wmark s i) = i :: sahead s /\
    ((swm (progress wmark s i) = advance (S (length (i :: sahead s))) (swm s) (i :: sahead s) /\
      sresume (progress wmark s i) = swm (progress wmark s i))
     \/ (swm (progress wmark s i) = swm s /\ sresume (progress wmark s i) = sresume s)).
  Proof.
    intro H. unfold progress. rewrite H. destruct (existsb (Nat.eqb (next_of (swm s))) (i :: sahead s)); cbn [sahead swm sresume].
    - split; [reflexivity|]. left. split; reflexivity.
    - split; [reflexivity|]. right. split; reflexivity.
  Qed.

  Lemma progress_false s i :
    wmark = false -> sresume (progress wmark s i) = Some i /\ swm (progress wmark s i) = swm s /\ sahead (progress wmark s i) = sahead s.
  Proof. intro H. unfold progress. rewrite H. cbn. repeat split; reflexivity. Qed.

  Theorem rinv_step s t :
    Inv s -> RInv s -> (wmark = true \/ length (sworkers s) <= 1) -> RInv (step s t).
  Proof.
    intros HI HR Hmode.
    assert (Hsame : sresume (step s t) = sresume s -> swm (step s t) = swm s -> sahead (step s t) = sahead s ->
                    slast0 (step s t) = slast0 s -> RInv (step s t)).
    { intros E1 E2 E3 E4. split.
      - intros i Hi. rewrite E1 in Hi. apply fsdone_step. apply (rinv_res s HR). assumption.
      - intro Hw. destruct (rinv_wm s HR Hw) as [R1 [R2 R3]]. rewrite E1, E2, E3, E4. split; [assumption|]. split; [assumption|].
        intros i Hi. apply fsdone_step. apply R3. assumption. }
    pose proof (fun i => fsdone_step s t i) as Hmono.
    unfold Zip.step in *. destruct (serr s); [apply Hsame; reflexivity|].
    destruct (nth_error (sworkers s) t) as [w|] eqn:Hn; [|apply Hsame; reflexivity].
    destruct (wops w) as [|op rest] eqn:Hops.
    - destruct (nth_error es (snext s)); apply Hsame; reflexivity.
    - destruct (exec_fields s t w op rest) as [w' [E1 [E2 [E3 [E4 [E5 E6]]]]]].
      assert (Hprog : (forall j, op <> MProgress j) \/ exists j, op = MProgress j).
      { destruct op; try (left; intros j; discriminate). right. eexists. reflexivity. }
      destruct Hprog as [Hnp|[j ->]].
      + destruct (E6 Hnp) as [F1 [F2 F3]]. apply Hsame; assumption.
      + destruct (progress_op s t w j rest HI Hn Hops) as [-> [Hlt [Hsk Hnf]]]. clear E6 Hsame.
        assert (S1 : sresume (exec s t w (MProgress (widx w)) rest) = sresume (progress wmark s (widx w))) by reflexivity.
        assert (S2 : swm (exec s t w (MProgress (widx w)) rest) = swm (progress wmark s (widx w))) by reflexivity.
        assert (S3 : sahead (exec s t w (MProgress (widx w)) rest) = sahead (progress wmark s (widx w))) by reflexivity.
        set (s' := exec s t w (MProgress (widx w)) rest) in *. clearbody s'.
        assert (Ht : t < length (sworkers s)) by (apply nth_error_Some; congruence).
        (* the entry just finished is done *)
        assert (Hdj : fsdone s' (widx w)).
        { right. rewrite E4. split; [assumption|]. intros t2 w2 Hn2 Hb2 Hi2.
          destruct (Nat.eq_dec t2 t) as [->|Hne].
          - rewrite E1, nth_error_set_nth_eq in Hn2 by assumption. injection Hn2 as <-. rewrite E2. assumption.
          - exfalso. apply Hne. rewrite E1 in Hn2. rewrite nth_error_set_nth_neq in Hn2 by congruence.
            symmetry. apply (inv_uniq s HI t t2 w w2); try assumption; [|congruence].
            unfold busy. rewrite Hops. discriminate. }
        split.
        * (* the resume file *)
          intros i Hi. rewrite S1 in Hi. destruct (Bool.bool_dec wmark true) as [Ew|Ew].
          -- destruct (rinv_wm s HR Ew) as [R1 [R2 R3]].
             destruct (progress_true s (widx w) Ew) as [A1 [[A2 A3]|[A2 A3]]].
             ++ rewrite A3, A2 in Hi.
                assert (X : skipped (slast0 s) i = true \/ In i (widx w :: sahead s)).
                { revert Hi. apply (advance_spec (fun k => skipped (slast0 s) k = true \/ In k (widx w :: sahead s))).
                  - intros k Hk. destruct (R2 k Hk) as [Y|Y]; [left; assumption|right; right; assumption].
                  - intros k Hk. right. assumption. }
                destruct X as [X|[<-|X]].
                ** left. rewrite E5. assumption.
                ** assumption.
                ** apply Hmono. apply R3. assumption.
             ++ rewrite A3 in Hi. apply Hmono. apply (rinv_res s HR). assumption.
          -- apply Bool.not_true_is_false in Ew. destruct (progress_false s (widx w) Ew) as [A1 _]. rewrite A1 in Hi. cbn [le_opt] in Hi.
             destruct Hmode as [Hm|Hm]; [congruence|].
             destruct (Nat.eq_dec i (widx w)) as [->|Hne]; [assumption|].
             right. rewrite E4. split; [lia|]. intros t2 w2 Hn2 Hb2 Hi2. exfalso.
             assert (t2 = t).
             { assert (t2 < length (sworkers s')) by (apply nth_error_Some; congruence).
               rewrite E1, length_set_nth in H. lia. }
             subst t2. rewrite E1, nth_error_set_nth_eq in Hn2 by assumption. injection Hn2 as <-. lia.
        * (* the watermark *)
          intro Hw. destruct (rinv_wm s HR Hw) as [R1 [R2 R3]].
          destruct (progress_true s (widx w) Hw) as [A1 [[A2 A3]|[A2 A3]]]; rewrite S2, S1, S3, A1, E5.
          -- split; [symmetry; assumption|]. split.
             ++ rewrite A2. apply (advance_spec (fun k => skipped (slast0 s) k = true \/ In k (widx w :: sahead s))).
                ** intros k Hk. destruct (R2 k Hk) as [Y|Y]; [left; assumption|right; right; assumption].
                ** intros k Hk. right. assumption.
             ++ intros i [<-|Hi]; [assumption|]. apply Hmono. apply R3. assumption.
          -- split; [rewrite A2, A3; assumption|]. split.
             ++ rewrite A2. intros k Hk. destruct (R2 k Hk) as [Y|Y]; [left; assumption|right; right; assumption].
             ++ intros i [<-|Hi]; [assumption|]. apply Hmono. apply R3. assumption.
  Qed.
  Lemma step_workers_length s t : length (sworkers (step s t)) = length (sworkers s).
  Proof.
    unfold Zip.step. destruct (serr s); [reflexivity|].
    destruct (nth_error (sworkers s) t) as [w|]; [|reflexivity].
    destruct (wops w) as [|op rest].
    - destruct (nth_error es (snext s)); [|reflexivity]. cbn [sworkers]. apply length_set_nth.
    - destruct (exec_fields s t w op rest) as [w' [E _]]. rewrite E. apply length_set_nth.
  Qed.

  Theorem rinv_init f last workers : RInv (init f last workers).
  Proof.
    unfold init. split; cbn [sresume swm sahead slast0].
    - intros i Hi. left. cbn [slast0]. apply le_opt_skipped. assumption.
    - intros _. split; [reflexivity|]. split; [|intros i []]. intros i Hi. left. apply le_opt_skipped. assumption.
  Qed.

  Theorem rinv_run sched : forall s,
    Inv s -> RInv s -> (wmark = true \/ length (sworkers s) <= 1) ->
    RInv (run es chunk racy wmark sched s).
  Proof.
    induction sched as [|t sched IH]; intros s HI HR Hm; [assumption|]. cbn [run fold_left]. apply IH.
    - apply inv_step. assumption.
    - apply rinv_step; assumption.
    - rewrite step_workers_length. assumption.
  Qed.

  (** whatever is on disk, with whatever the resume file says, when the process dies can be
      restarted from *)
  Theorem crash_state_resumable s : Inv s -> RInv s -> resumable (sfs s) (sresume s).
  Proof.
    intros HI HR. split; [apply (inv_shape s HI)|]. intros i e Hi Hsk.
    apply (inv_done s HI i e Hi). apply (rinv_res s HR). apply le_opt_skipped. assumption.
  Qed.

  (** * No deadlock: every step of a worker that can move lowers [remaining] *)
  Local Notation remaining := (remaining es chunk racy).

  Definition pendingw (ws : list worker) : nat := fold_right (fun w a => length (wops w) + a) 0 ws.

  Lemma pendingw_set_nth ws t w w' :
    nth_error ws t = Some w -> pendingw (set_nth ws t w') + length (wops w) = pendingw ws + length (wops w').
  Proof.
    revert t. induction ws as [|a ws IH]; intros t H; [destruct t; discriminate|].
    destruct t; cbn [set_nth nth_error pendingw fold_right] in *.
    - injection H as ->. lia.
    - specialize (IH t H). unfold pendingw in IH. lia.
  Qed.

  Lemma skipn_nth_error {A} (l : list A) n x : nth_error l n = Some x -> skipn n l = x :: skipn (S n) l.
  Proof.
    revert n. induction l as [|a l IH]; intros n H; [destruct n; discriminate|].
    destruct n; cbn [nth_error skipn] in *; [congruence|]. apply IH. assumption.
  Qed.

  Lemma length_skip_job i e : length (skip_job i e) <= length (job i e).
  Proof. destruct e; cbn [skip_job Zip.job]; rewrite ?app_length; cbn [length]; lia. Qed.

  Lemma step_busy_decreases s t w :
    serr s = false -> nth_error (sworkers s) t = Some w -> wops w <> [] -> remaining (step s t) < remaining s.
  Proof.
    intros Herr Hn Hb. unfold Zip.step. rewrite Herr, Hn. destruct (wops w) as [|op rest] eqn:Hops; [contradiction|].
    destruct (exec_fields s t w op rest) as [w' [E1 [E2 [E3 [E4 _]]]]].
    unfold Zip.remaining, pending. rewrite E4, E1. fold (pendingw (set_nth (sworkers s) t w')). fold (pendingw (sworkers s)).
    pose proof (pendingw_set_nth (sworkers s) t w w' Hn) as X. rewrite E2, Hops in X. cbn [length] in X. lia.
  Qed.

  Lemma step_dispatch_decreases s t w :
    serr s = false -> nth_error (sworkers s) t = Some w -> wops w = [] -> snext s < length es ->
    remaining (step s t) < remaining s.
  Proof.
    intros Herr Hn Hidle Hlt. unfold Zip.step. rewrite Herr, Hn, Hidle.
    destruct (nth_error es (snext s)) as [e|] eqn:Hne; [|apply nth_error_None in Hne; lia].
    unfold Zip.remaining, pending. cbn [snext sworkers].
    rewrite (skipn_nth_error es (snext s) e Hne). cbn [future].
    match goal with |- context [set_nth (sworkers s) t ?W] => pose proof (pendingw_set_nth (sworkers s) t w W Hn) as X end.
    unfold pendingw in X. cbn [wops] in X. rewrite Hidle in X. cbn [length] in X.
    pose proof (length_skip_job (snext s) e). destruct (skipped (slast0 s) (snext s)); lia.
  Qed.

  Theorem no_deadlock s :
    Inv s -> sworkers s <> [] -> finished es s = false ->
    exists t, t < length (sworkers s) /\ remaining (step s t) < remaining s.
  Proof.
    intros HI Hw Hfin. unfold finished in Hfin. rewrite (inv_err s HI) in Hfin. cbn [negb andb] in Hfin.
    destruct (all_idle s) eqn:Hidle.
    - rewrite andb_true_r in Hfin. apply Nat.eqb_neq in Hfin. pose proof (inv_next s HI).
      destruct (sworkers s) as [|w ws] eqn:Ews; [contradiction|]. exists 0. split; [cbn; lia|].
      apply (step_dispatch_decreases s 0 w).
      + apply (inv_err s HI).
      + rewrite Ews. reflexivity.
      + apply (all_idle_spec s Hidle 0 w). rewrite Ews. reflexivity.
      + lia.
    - unfold all_idle in Hidle.
      assert (X : exists w, In w (sworkers s) /\ wops w <> []).
      { clear -Hidle. induction (sworkers s) as [|a l IH]; [discriminate|]. cbn [forallb] in Hidle.
        destruct (wops a) eqn:E.
        - destruct IH as [w [H1 H2]]; [assumption|]. exists w. split; [right; assumption|assumption].
        - exists a. split; [left; reflexivity|congruence]. }
      destruct X as [w [Hin Hb]]. apply In_nth_error in Hin. destruct Hin as [t Hn].
      exists t. split; [apply nth_error_Some; congruence|].
      apply (step_busy_decreases s t w); [apply (inv_err s HI)|assumption|assumption].
  Qed.

  Theorem terminates : forall n s,
    remaining s <= n -> Inv s -> sworkers s <> [] ->
    exists sched, finished es (run es chunk racy wmark sched s) = true.
  Proof.
    induction n as [|n IH]; intros s Hn HI Hw.
    - destruct (finished es s) eqn:Hfin; [exists []; assumption|].
      destruct (no_deadlock s HI Hw Hfin) as [t [_ Hlt]]. lia.
    - destruct (finished es s) eqn:Hfin; [exists []; assumption|].
      destruct (no_deadlock s HI Hw Hfin) as [t [_ Hlt]].
      destruct (IH (step s t)) as [sched Hs].
      + lia.
      + apply inv_step. assumption.
      + intro E. apply Hw. apply length_zero_iff_nil. rewrite <- (step_workers_length s t), E. reflexivity.
      + exists (t :: sched). assumption.
  Qed.
  (** * Counters (repaired code: synchronised increments) *)
  Hypothesis Hracy : racy = false.

  Definition is_mcount (k : kind) (op : mop) : bool :=
    match op with MCount k' => is_kind k (match k' with KDir => EDir [] | KFile => EFile [] [] | KLink => ELink [] [] end) | _ => false end.
  Definition cnt (k : kind) (ops : list mop) : nat := length (filter (is_mcount k) ops).
  Definition pendc (k : kind) (ws : list worker) : nat := fold_right (fun w a => cnt k (wops w) + a) 0 ws.
  Fixpoint futc (last0 : option nat) (k : kind) (i : nat) (l : list entry) : nat :=
    match l with
    | [] => 0
    | e :: r => (if skipped last0 i then 0 else if is_kind k e then 1 else 0) + futc last0 k (S i) r
    end.
  Definition plain_op (op : mop) : bool := match op with MCountLoad _ | MCountStore _ => false | _ => true end.

  Record CInv (s : state) : Prop := mkCInv {
    cinv_sum : forall k, get_count k (scounts s) + pendc k (sworkers s) + futc (slast0 s) k (snext s) (skipn (snext s) es)
                         = futc (slast0 s) k 0 es;
    cinv_ops : forall t w, nth_error (sworkers s) t = Some w -> forallb plain_op (wops w) = true }.

  Lemma pendc_set_nth k ws t w w' :
    nth_error ws t = Some w -> pendc k (set_nth ws t w') + cnt k (wops w) = pendc k ws + cnt k (wops w').
  Proof.
    revert t. induction ws as [|a ws IH]; intros t H; [destruct t; discriminate|].
    destruct t; cbn [set_nth nth_error pendc fold_right] in *.
    - injection H as ->. lia.
    - specialize (IH t H). unfold pendc in IH. lia.
  Qed.

  Lemma cnt_job k i e : cnt k (job i e) = if is_kind k e then 1 else 0.
  Proof.
    unfold Zip.job, count_ops. rewrite Hracy. unfold cnt.
    destruct e; cbn [app]; rewrite ?filter_app; cbn [filter is_mcount is_kind ekind].
    - destruct k; reflexivity.
    - assert (X : filter (is_mcount k) (map (MAppend p) (chunk d)) = []).
      { induction (chunk d) as [|c l IH]; [reflexivity|]. cbn [map filter is_mcount]. assumption. }
      destruct k; cbn [filter app length]; rewrite ?filter_app, X; reflexivity.
    - destruct k; reflexivity.
  Qed.

  Lemma cnt_skip_job k i e : cnt k (skip_job i e) = 0.
  Proof. destruct e; reflexivity. Qed.

  Lemma plain_job i e : forallb plain_op (job i e) = true.
  Proof.
    unfold Zip.job, count_ops. rewrite Hracy. destruct e; cbn [app]; rewrite ?forallb_app; cbn [forallb plain_op andb]; try reflexivity.
    assert (X : forallb plain_op (map (MAppend p) (chunk d)) = true).
    { induction (chunk d) as [|c l IH]; [reflexivity|]. cbn [map forallb plain_op andb]. assumption. }
    rewrite forallb_app, X. reflexivity.
  Qed.

  Lemma plain_skip_job i e : forallb plain_op (skip_job i e) = true.
  Proof. destruct e; reflexivity. Qed.

  Lemma get_set_count k k' v c :
    get_count k (set_count k' v c) = if is_kind k (match k' with KDir => EDir [] | KFile => EFile [] [] | KLink => ELink [] [] end) then v else get_count k c.
  Proof. destruct c as [[a b] d]. destruct k; destruct k'; reflexivity. Qed.

  Lemma exec_counts s t w op rest :
    plain_op op = true ->
    forall k, get_count k (scounts (exec s t w op rest)) = get_count k (scounts s) + (if is_mcount k op then 1 else 0).
  Proof.
    intros Hp k. destruct op; try discriminate Hp; cbn [Zip.exec is_mcount]; unfold set_worker, with_fs, with_counts;
      repeat match goal with
             | |- context [match wseen w with _ => _ end] => destruct (wseen w) as [[]|]
             | |- context [match ?r with Some _ => _ | None => _ end] => destruct r
             end;
      cbn [scounts]; try lia.
    - destruct (scounts s) as [[a b] c]. destruct k, k0; cbn; lia.
    - destruct (progress_fields s i) as [_ [_ [_ [_ [_ [P6 _]]]]]]. rewrite P6. lia.
  Qed.

  Theorem cinv_step s t : CInv s -> CInv (step s t).
  Proof.
    intro HC. unfold Zip.step. destruct (serr s); [assumption|].
    destruct (nth_error (sworkers s) t) as [w|] eqn:Hn; [|assumption].
    destruct (wops w) as [|op rest] eqn:Hops.
    - destruct (nth_error es (snext s)) as [e|] eqn:Hne; [|assumption]. split; cbn [scounts sworkers slast0 snext].
      + intro k. pose proof (cinv_sum s HC k) as X. rewrite (skipn_nth_error es (snext s) e Hne) in X. cbn [futc] in X.
        match goal with |- context [set_nth (sworkers s) t ?W] => pose proof (pendc_set_nth k (sworkers s) t w W Hn) as Y end.
        cbn [wops] in Y. rewrite Hops in Y. unfold cnt at 1 in Y. cbn [filter length] in Y.
        destruct (skipped (slast0 s) (snext s)); [rewrite cnt_skip_job in Y|rewrite cnt_job in Y]; lia.
      + intros t2 w2 Hn2. apply nth_error_set_nth in Hn2. destruct Hn2 as [[<- ->]|[_ Hn2]]; [|apply (cinv_ops s HC t2 w2 Hn2)].
        cbn [wops]. destruct (skipped (slast0 s) (snext s)); [apply plain_skip_job|apply plain_job].
    - pose proof (cinv_ops s HC t w Hn) as Hpl. rewrite Hops in Hpl. cbn [forallb] in Hpl. apply andb_true_iff in Hpl. destruct Hpl as [Hp Hpr].
      destruct (exec_fields s t w op rest) as [w' [E1 [E2 [E3 [E4 [E5 _]]]]]]. split.
      + intro k. rewrite (exec_counts s t w op rest Hp k), E1, E4, E5.
        pose proof (cinv_sum s HC k) as X. pose proof (pendc_set_nth k (sworkers s) t w w' Hn) as Y.
        rewrite E2, Hops in Y. unfold cnt in Y. cbn [filter] in Y.
        destruct (is_mcount k op); cbn [length] in Y; lia.
      + intros t2 w2 Hn2. rewrite E1 in Hn2. apply nth_error_set_nth in Hn2. destruct Hn2 as [[<- ->]|[_ Hn2]]; [|apply (cinv_ops s HC t2 w2 Hn2)].
        rewrite E2. assumption.
  Qed.

  Theorem cinv_init f last workers : CInv (init f last workers).
  Proof.
    unfold init. split; cbn [scounts sworkers slast0 snext].
    - intro k. cbn [skipn get_count]. assert (X : pendc k (repeat idle_worker workers) = 0).
      { induction workers as [|n IH]; [reflexivity|]. cbn [repeat pendc fold_right]. unfold pendc in IH. rewrite IH. reflexivity. }
      rewrite X. destruct k; reflexivity.
    - intros t w Hn. apply nth_error_repeat in Hn. subst w. reflexivity.
  Qed.

  Theorem cinv_run sched : forall s, CInv s -> CInv (run es chunk racy wmark sched s).
  Proof. induction sched as [|t sched IH]; intros s HC; [assumption|]. cbn [run fold_left]. apply IH. apply cinv_step. assumption. Qed.

  (** the entries a run extracts: those above the index found in the resume file *)
  Definition entries_above (last : option nat) (l : list entry) : list entry :=
    match last with None => l | Some k => skipn (S k) l end.

  Lemma futc_none k l : forall i, futc None k i l = length (filter (is_kind k) l).
  Proof. induction l as [|e l IH]; intro i; [reflexivity|]. cbn [futc skipped filter]. rewrite IH. destruct (is_kind k e); reflexivity. Qed.

  Lemma futc_some n k l : forall i, futc (Some n) k i l = length (filter (is_kind k) (skipn (S n - i) l)).
  Proof.
    induction l as [|e l IH]; intro i; [rewrite skipn_nil; reflexivity|]. cbn [futc skipped]. rewrite IH.
    destruct (Nat.leb i n) eqn:E.
    - apply Nat.leb_le in E. replace (S n - i) with (S (n - i)) by lia. cbn [skipn]. replace (S n - S i) with (n - i) by lia. reflexivity.
    - apply Nat.leb_gt in E. replace (S n - i) with 0 by lia. replace (S n - S i) with 0 by lia. cbn [skipn filter].
      destruct (is_kind k e); reflexivity.
  Qed.

  Theorem counts_finished s :
    CInv s -> finished es s = true -> scounts s = kind_counts (entries_above (slast0 s) es).
  Proof.
    intros HC Hfin. unfold finished in Hfin. apply andb_true_iff in Hfin. destruct Hfin as [Hfin Hidle].
    apply andb_true_iff in Hfin. destruct Hfin as [_ Hnext]. apply Nat.eqb_eq in Hnext.
    assert (P0 : forall k, pendc k (sworkers s) = 0).
    { intro k. unfold all_idle in Hidle. induction (sworkers s) as [|w ws IH]; [reflexivity|].
      cbn [forallb] in Hidle. apply andb_true_iff in Hidle. destruct Hidle as [H1 H2].
      cbn [pendc fold_right]. fold (pendc k ws). rewrite (IH H2). destruct (wops w); [reflexivity|discriminate]. }
    assert (X : forall k, get_count k (scounts s) = length (filter (is_kind k) (entries_above (slast0 s) es))).
    { intro k. pose proof (cinv_sum s HC k) as Y. rewrite P0, Hnext, skipn_all in Y. cbn [futc] in Y.
      unfold entries_above. destruct (slast0 s) as [n|].
      - rewrite futc_some in Y. rewrite Nat.sub_0_r in Y. lia.
      - rewrite futc_none in Y. lia. }
    unfold kind_counts. rewrite <- (X KDir), <- (X KFile), <- (X KLink). destruct (scounts s) as [[a b] c]. reflexivity.
  Qed.
End PoolProofs.

(** * The statements of Properties/C19.v *)

Lemma run_workers_length es chunk racy wmark sched : forall s,
  length (sworkers (run es chunk racy wmark sched s)) = length (sworkers s).
Proof.
  induction sched as [|t sched IH]; intro s; [reflexivity|]. cbn [run fold_left].
  fold (run es chunk racy wmark sched (step es chunk racy wmark s t)). rewrite IH. apply step_workers_length.
Qed.

Lemma init_workers_length f last w : length (sworkers (init f last w)) = w.
Proof. unfold init. cbn [sworkers]. apply repeat_length. Qed.

(** extraction into a directory left by an earlier interrupted extraction (or an empty one):
    no helper fails, whatever the schedule; when it returns the directory is the archive's
    tree; and it can always return (no deadlock) *)
Theorem restart_lemma :
  forall (es : list entry) (chunk : list N -> list (list N)) (racy wmark : bool),
    wf_entries es -> (forall d, concat (chunk d) = d) ->
    forall (f : fs) (last : option nat), resumable es f last ->
    forall (workers : nat) (sched : list nat),
      let s := run es chunk racy wmark sched (init f last workers) in
      serr s = false /\
      (finished es s = true -> forall q, lookup (sfs s) q = spec_fs es q) /\
      (0 < workers -> exists more, finished es (run es chunk racy wmark more s) = true).
Proof.
  intros es chunk racy wmark Hwf Hchunk f last Hres workers sched s.
  assert (HI : Inv es chunk s) by (apply (inv_run es chunk racy wmark Hwf Hchunk); apply init_inv; assumption).
  split; [apply (inv_err es chunk s HI)|]. split.
  - apply (finished_spec es chunk); assumption.
  - intro Hw. apply (terminates es chunk racy wmark Hwf Hchunk (remaining es chunk racy s)); [lia|assumption|].
    intro E. assert (X : length (sworkers s) = workers) by (unfold s; rewrite run_workers_length; apply init_workers_length).
    rewrite E in X. cbn in X. lia.
Qed.

Theorem extract_roundtrip_lemma :
  forall (es : list entry) (chunk : list N -> list (list N)) (racy wmark : bool),
    wf_entries es -> (forall d, concat (chunk d) = d) ->
    forall (workers : nat) (sched : list nat),
      let s := run es chunk racy wmark sched (init [] None workers) in
      serr s = false /\
      (finished es s = true -> forall q, lookup (sfs s) q = spec_fs es q) /\
      (0 < workers -> exists more, finished es (run es chunk racy wmark more s) = true).
Proof.
  intros es chunk racy wmark Hwf Hchunk. apply restart_lemma; try assumption. apply resumable_empty.
Qed.

(** the state an interrupted extraction leaves behind can be restarted from: with the
    contiguous watermark for any number of workers, with the original resume file for one *)
Theorem interrupted_resumable_lemma :
  forall (es : list entry) (chunk : list N -> list (list N)) (racy wmark : bool),
    wf_entries es -> (forall d, concat (chunk d) = d) ->
    forall (f : fs) (last : option nat), resumable es f last ->
    forall (workers : nat), wmark = true \/ workers <= 1 ->
    forall (sched : list nat),
      let s := run es chunk racy wmark sched (init f last workers) in
      resumable es (sfs s) (sresume s).
Proof.
  intros es chunk racy wmark Hwf Hchunk f last Hres workers Hmode sched s.
  apply (crash_state_resumable es chunk wmark).
  - apply (inv_run es chunk racy wmark Hwf Hchunk). apply init_inv. assumption.
  - apply (rinv_run es chunk racy wmark Hwf Hchunk).
    + apply init_inv. assumption.
    + apply rinv_init.
    + rewrite init_workers_length. assumption.
Qed.

Theorem resume_complete_lemma :
  forall (es : list entry) (chunk : list N -> list (list N)) (racy wmark : bool),
    wf_entries es -> (forall d, concat (chunk d) = d) ->
    forall (w1 : nat), wmark = true \/ w1 <= 1 ->
    forall (sched1 : list nat) (w2 : nat) (sched2 : list nat),
      let s1 := run es chunk racy wmark sched1 (init [] None w1) in
      let s2 := run es chunk racy wmark sched2 (init (sfs s1) (sresume s1) w2) in
      serr s2 = false /\
      (finished es s2 = true -> forall q, lookup (sfs s2) q = spec_fs es q) /\
      (0 < w2 -> exists more, finished es (run es chunk racy wmark more s2) = true).
Proof.
  intros es chunk racy wmark Hwf Hchunk w1 Hmode sched1 w2 sched2 s1 s2.
  apply restart_lemma; try assumption.
  apply interrupted_resumable_lemma; try assumption. apply resumable_empty.
Qed.

Lemma run_slast0 es chunk racy wmark sched : forall s, slast0 (run es chunk racy wmark sched s) = slast0 s.
Proof.
  induction sched as [|t sched IH]; intro s; [reflexivity|]. cbn [run fold_left].
  fold (run es chunk racy wmark sched (step es chunk racy wmark s t)). rewrite IH.
  unfold step. destruct (serr s); [reflexivity|]. destruct (nth_error (sworkers s) t) as [w|]; [|reflexivity].
  destruct (wops w) as [|op rest]; [destruct (nth_error es (snext s)); reflexivity|].
  destruct (exec_fields wmark s t w op rest) as [w' [_ [_ [_ [_ [E _]]]]]]. assumption.
Qed.

Theorem counts_exact_lemma :
  forall (es : list entry) (chunk : list N -> list (list N)) (wmark : bool)
         (f : fs) (last : option nat) (workers : nat) (sched : list nat),
    let s := run es chunk false wmark sched (init f last workers) in
    finished es s = true -> scounts s = kind_counts (entries_above last es).
Proof.
  intros es chunk wmark f last workers sched s Hfin.
  assert (HC : CInv es s) by (apply (cinv_run es chunk false wmark eq_refl); apply cinv_init).
  assert (E : slast0 s = last) by (unfold s; rewrite run_slast0; reflexivity).
  rewrite <- E. apply (counts_finished es s HC Hfin).
Qed.

(** * A decidable check of well-formedness, for the witnesses *)
Fixpoint nodupb (l : list path) : bool :=
  match l with [] => true | x :: r => negb (existsb (path_eqb x) r) && nodupb r end.

Definition wf_entriesb (es : list entry) : bool :=
  nodupb (map epath es) &&
  forallb (fun e => negb (path_eqb (epath e) [])) es &&
  forallb (fun e => forallb (fun e' => implb (is_prefix (epath e) (epath e') && negb (path_eqb (epath e) (epath e'))) (is_kind KDir e)) es) es.

Lemma nodupb_sound l : nodupb l = true -> NoDup l.
Proof.
  induction l as [|x l IH]; intro H; [constructor|]. cbn [nodupb] in H. apply andb_true_iff in H. destruct H as [H1 H2].
  constructor; [|apply IH; assumption]. intro Hin. apply negb_true_iff in H1.
  assert (X : existsb (path_eqb x) l = true) by (apply existsb_exists; exists x; split; [assumption|apply path_eqb_refl]). congruence.
Qed.

Lemma wf_entriesb_sound es : wf_entriesb es = true -> wf_entries es.
Proof.
  unfold wf_entriesb. intro H. apply andb_true_iff in H. destruct H as [H H3]. apply andb_true_iff in H. destruct H as [H1 H2].
  split; [apply nodupb_sound; assumption|]. split.
  - intros e He. rewrite forallb_forall in H2. apply H2 in He. apply negb_true_iff in He. apply path_eqb_neq. assumption.
  - intros e e' He He' Hp Hne. rewrite forallb_forall in H3. specialize (H3 e He). rewrite forallb_forall in H3. specialize (H3 e' He').
    rewrite Hp in H3. apply path_eqb_neq in Hne. rewrite Hne in H3. cbn [negb andb implb] in H3.
    destruct e; try discriminate H3; reflexivity.
Qed.

(** * What the unchanged code does *)
Definition chunk_each (d : list N) : list (list N) := map (fun x => [x]) d.

Lemma chunk_each_ok d : concat (chunk_each d) = d.
Proof. induction d as [|x d IH]; [reflexivity|]. unfold chunk_each in *. cbn [map concat app]. rewrite IH. reflexivity. Qed.

(** unsynchronised counters, two workers: both load 0, both store 1 *)
Theorem counts_refuted_lemma :
  exists (es : list entry) (sched : list nat),
    wf_entries es /\
    let s := run es chunk_each true true sched (init [] None 2) in
    finished es s = true /\ scounts s <> kind_counts es.
Proof.
  exists [EFile [1%N] []; EFile [2%N] []], [0;1;0;1;0;1;0;0;0;0;0;1;1;1;1;1].
  split; [apply wf_entriesb_sound; vm_compute; reflexivity|]. vm_compute. split; [reflexivity|discriminate].
Qed.

(** resume file = index finished last by any worker, two workers: worker 0 is still writing
    entry 0 when worker 1 finishes entry 1 and writes "1"; the process dies; the restarted
    extraction skips both entries and returns with entry 0 truncated *)
Theorem resume_refuted_lemma :
  exists (es : list entry) (sched1 sched2 : list nat),
    wf_entries es /\
    let s1 := run es chunk_each false false sched1 (init [] None 2) in
    let s2 := run es chunk_each false false sched2 (init (sfs s1) (sresume s1) 1) in
    finished es s2 = true /\ lookup (sfs s2) [1%N] <> spec_fs es [1%N].
Proof.
  exists [EFile [1%N] [7%N; 8%N]; EFile [2%N] []], [0;1;0;0;0;0;0;1;1;1;1;1], [0;0;0;0].
  split; [apply wf_entriesb_sound; vm_compute; reflexivity|]. vm_compute. split; [reflexivity|discriminate].
Qed.

(** non-vacuity: a tree with a nested directory, an empty directory, an empty file, a file
    and a dangling symlink is well formed, and three workers extract it *)
Example extract_example :
  let es := [EDir [1%N]; EFile [1%N; 2%N] [5%N; 6%N]; EDir [3%N]; EFile [4%N] []; ELink [1%N; 5%N] [9%N]] in
  wf_entries es /\
  let s := run es chunk_each false true (concat (repeat [2; 0; 1] 20)) (init [] None 3) in
  finished es s = true /\ scounts s = (2, 2, 1) /\ sresume s = Some 4.
Proof. split; [apply wf_entriesb_sound; vm_compute; reflexivity|]. vm_compute. repeat split; reflexivity. Qed.

(** * Archive order: compressing only permutes the entries *)
From Coq Require Import Permutation.

Lemma insert_entry_perm e l : Permutation (insert_entry e l) (e :: l).
Proof.
  induction l as [|x l IH]; [apply Permutation_refl|]. cbn [insert_entry].
  destruct (path_leb (epath e) (epath x)); [apply Permutation_refl|].
  eapply Permutation_trans; [apply perm_skip; exact IH|apply perm_swap].
Qed.

Lemma sort_entries_perm l : Permutation (sort_entries l) l.
Proof.
  induction l as [|x l IH]; [apply Permutation_refl|]. cbn [sort_entries fold_right]. fold (sort_entries l).
  eapply Permutation_trans; [apply insert_entry_perm|apply perm_skip; exact IH].
Qed.

Lemma kinds_partition l :
  Permutation (filter (is_kind KDir) l ++ filter (is_kind KFile) l ++ filter (is_kind KLink) l) l.
Proof.
  induction l as [|e l IH]; [apply Permutation_refl|]. destruct e; simpl.
  - apply perm_skip. exact IH.
  - apply Permutation_sym. apply Permutation_cons_app. apply Permutation_sym. exact IH.
  - rewrite app_assoc. apply Permutation_sym. apply Permutation_cons_app. apply Permutation_sym.
    rewrite <- app_assoc. exact IH.
Qed.

Lemma compress_perm fl tree : Permutation (compress fl tree) tree.
Proof.
  destruct fl; cbn [compress]; try apply sort_entries_perm.
  eapply Permutation_trans; [|apply kinds_partition].
  repeat apply Permutation_app; apply sort_entries_perm.
Qed.

Lemma wf_entries_perm l l' : Permutation l l' -> wf_entries l -> wf_entries l'.
Proof.
  intros Hp [H1 [H2 H3]]. split; [|split].
  - eapply Permutation_NoDup; [apply Permutation_map; exact Hp|assumption].
  - intros e He. apply H2. eapply Permutation_in; [apply Permutation_sym; exact Hp|assumption].
  - intros e e' He He'. apply H3; (eapply Permutation_in; [apply Permutation_sym; exact Hp|assumption]).
Qed.

Lemma entry_at_spec es q e : wf_entries es -> (entry_at es q = Some e <-> In e es /\ epath e = q).
Proof.
  intro Hwf. unfold entry_at. split.
  - intro H. apply find_some in H. destruct H as [H1 H2]. apply path_eqb_eq in H2. split; assumption.
  - intros [H1 H2]. destruct (find (fun e0 => path_eqb (epath e0) q) es) as [e'|] eqn:E.
    + apply find_some in E. destruct E as [E1 E2]. apply path_eqb_eq in E2. f_equal.
      apply (entry_unique es Hwf); [assumption|assumption|congruence].
    + pose proof (find_none _ _ E e H1) as X. cbn in X. rewrite H2, path_eqb_refl in X. discriminate X.
Qed.

Lemma spec_fs_perm l l' q : Permutation l l' -> wf_entries l -> spec_fs l q = spec_fs l' q.
Proof.
  intros Hp Hwf. pose proof (wf_entries_perm l l' Hp Hwf) as Hwf'. unfold spec_fs.
  assert (E1 : entry_at l q = entry_at l' q).
  { destruct (entry_at l q) as [e|] eqn:E.
    - symmetry. apply (entry_at_spec l' q e Hwf'). apply (entry_at_spec l q e Hwf) in E. destruct E as [E1 E2].
      split; [eapply Permutation_in; eassumption|assumption].
    - destruct (entry_at l' q) as [e|] eqn:E'; [|reflexivity].
      apply (entry_at_spec l' q e Hwf') in E'. destruct E' as [E1 E2].
      assert (X : entry_at l q = Some e).
      { apply (entry_at_spec l q e Hwf). split; [eapply Permutation_in; [apply Permutation_sym; eassumption|assumption]|assumption]. }
      congruence. }
  rewrite E1. destruct (entry_at l' q); [reflexivity|].
  assert (E2 : inner_dir l q = inner_dir l' q).
  { unfold inner_dir. destruct q as [|a q]; [reflexivity|].
    destruct (existsb _ l) eqn:X; symmetry.
    - apply existsb_exists in X. destruct X as [e [He Hx]]. apply existsb_exists. exists e. split; [eapply Permutation_in; eassumption|assumption].
    - destruct (existsb (fun e => is_prefix (a :: q) (epath e) && negb (path_eqb (a :: q) (epath e))) l') eqn:Y; [|reflexivity].
      apply existsb_exists in Y. destruct Y as [e [He Hx]].
      assert (Z : existsb (fun e => is_prefix (a :: q) (epath e) && negb (path_eqb (a :: q) (epath e))) l = true).
      { apply existsb_exists. exists e. split; [eapply Permutation_in; [apply Permutation_sym; eassumption|assumption]|assumption]. }
      congruence. }
  rewrite E2. reflexivity.
Qed.

Theorem compress_lemma :
  forall (fl : flavor) (tree : list entry),
    wf_entries tree -> wf_entries (compress fl tree) /\ forall q, spec_fs (compress fl tree) q = spec_fs tree q.
Proof.
  intros fl tree Hwf. pose proof (compress_perm fl tree) as Hp. split.
  - eapply wf_entries_perm; [apply Permutation_sym; exact Hp|assumption].
  - intro q. symmetry. apply spec_fs_perm; [apply Permutation_sym; exact Hp|assumption].
Qed.

(** archive then extract, end to end *)
Theorem archive_extract_lemma :
  forall (fl : flavor) (tree : list entry) (chunk : list N -> list (list N)) (racy wmark : bool),
    wf_entries tree -> (forall d, concat (chunk d) = d) ->
    forall (workers : nat) (sched : list nat),
      let es := compress fl tree in
      let s := run es chunk racy wmark sched (init [] None workers) in
      serr s = false /\
      (finished es s = true -> forall q, lookup (sfs s) q = spec_fs tree q) /\
      (0 < workers -> exists more, finished es (run es chunk racy wmark more s) = true).
Proof.
  intros fl tree chunk racy wmark Hwf Hchunk workers sched es s.
  destruct (compress_lemma fl tree Hwf) as [Hwf' Hspec].
  destruct (extract_roundtrip_lemma es chunk racy wmark Hwf' Hchunk workers sched) as [H1 [H2 H3]].
  split; [exact H1|]. split; [|exact H3].
  intros Hfin q. rewrite <- Hspec. apply H2. exact Hfin.
Qed.
