(** C19 — model of archiver/zip.go (ExtractZip: worker pool, resume file), of the helpers
    Mkdir / Symlink / CopyFile of archiver/archiver.go over a small private file-system
    model, and of the entry order produced by CompressZip / CompressTar (walk order) and
    containerarchiver.CompressZip (dirs, files, symlinks).  Definitions only; the proofs are
    in Arch/ZipProofs.v.

    Granularity: one micro-step = one system call of a helper (RemoveAll, MkdirAll, open,
    one write, symlink, lstat, remove), one counter access, the write of the resume file, or
    the OnEntryDone callback.  Workers interleave at that granularity under an explicit
    schedule (a list of worker ids); a crash is the end of the schedule.  Not modelled: file
    modes, progress reporting, DryRun, Windows. *)
From Wharf Require Import Base.Prelude.

Definition name := N.
Definition path := list name.

Inductive node := Dir | File (d : list N) | Link (dest : list N).
Inductive entry := EDir (p : path) | EFile (p : path) (d : list N) | ELink (p : path) (dest : list N).
Inductive kind := KDir | KFile | KLink.

Definition epath (e : entry) : path := match e with EDir p | EFile p _ | ELink p _ => p end.
Definition enode (e : entry) : node := match e with EDir _ => Dir | EFile _ d => File d | ELink _ d => Link d end.
Definition ekind (e : entry) : kind := match e with EDir _ => KDir | EFile _ _ => KFile | ELink _ _ => KLink end.

Definition path_eqb : path -> path -> bool := list_eqb N.eqb.

(** [is_prefix p q]: p is a (not necessarily proper) prefix of q *)
Fixpoint is_prefix (p q : path) : bool :=
  match p, q with
  | [], _ => true
  | a :: p', b :: q' => N.eqb a b && is_prefix p' q'
  | _ :: _, [] => false
  end.

Definition parent (p : path) : path := removelast p.

(** non-empty prefixes of p, shortest first, p itself last *)
Fixpoint prefixes (p : path) : list path :=
  match p with
  | [] => []
  | a :: r => [a] :: map (cons a) (prefixes r)
  end.

Definition node_eqb (a b : node) : bool :=
  match a, b with
  | Dir, Dir => true
  | File x, File y => nlist_eqb x y
  | Link x, Link y => nlist_eqb x y
  | _, _ => false
  end.

(** * File system: the directory being extracted into; the root (path []) always exists *)
Definition fs := list (path * node).

Fixpoint lookup (f : fs) (q : path) : option node :=
  match f with
  | [] => None
  | (p, n) :: r => if path_eqb p q then Some n else lookup r q
  end.

Definition del (f : fs) (p : path) : fs := filter (fun x => negb (path_eqb (fst x) p)) f.
Definition upd (f : fs) (p : path) (n : node) : fs := (p, n) :: del f p.

Definition dir_or_none (o : option node) : bool := match o with None | Some Dir => true | _ => false end.

Definition parent_ok (p : path) (f : fs) : bool :=
  match parent p with
  | [] => true
  | pp => match lookup f pp with Some Dir => true | _ => false end
  end.

(** os.RemoveAll: the path and everything below it; no error when absent *)
Definition fs_remove_all (p : path) (f : fs) : option fs :=
  Some (filter (fun x => negb (is_prefix p (fst x))) f).

(** os.Remove of a file or symlink (ENOENT / directory: error — archiver.Mkdir only calls it
    on something lstat has shown not to be a directory) *)
Definition fs_remove (p : path) (f : fs) : option fs :=
  match lookup f p with
  | Some (File _) | Some (Link _) => Some (del f p)
  | _ => None
  end.

(** os.MkdirAll: creates the missing components; ENOTDIR when a component is a file.  A
    component that is a symlink is an error here (the real call would follow it; no entry of
    an archive made from a tree lies below a symlink). *)
Definition fs_mkdir_all (p : path) (f : fs) : option fs :=
  if forallb (fun q => dir_or_none (lookup f q)) (prefixes p)
  then Some (fold_left (fun g q => match lookup g q with None => (q, Dir) :: g | Some _ => g end) (prefixes p) f)
  else None.

(** os.OpenFile(O_CREATE|O_TRUNC|O_WRONLY) *)
Definition fs_create (p : path) (f : fs) : option fs :=
  if parent_ok p f
  then match lookup f p with
       | None | Some (File _) => Some (upd f p (File []))
       | _ => None
       end
  else None.

(** one Write call of io.Copy on the open file *)
Definition fs_append (p : path) (c : list N) (f : fs) : option fs :=
  match lookup f p with
  | Some (File d) => Some (upd f p (File (d ++ c)))
  | _ => None
  end.

(** os.Symlink: EEXIST when something is there *)
Definition fs_symlink (p : path) (dest : list N) (f : fs) : option fs :=
  if parent_ok p f
  then match lookup f p with
       | None => Some (upd f p (Link dest))
       | _ => None
       end
  else None.

(** * Workers *)
Inductive mop :=
| MLstat (p : path)                  (* archiver.Mkdir: os.Lstat *)
| MMkRemove (p : path)               (* archiver.Mkdir: os.Remove when lstat saw a non-directory *)
| MMkMkdir (p : path)                (* archiver.Mkdir: os.MkdirAll unless lstat saw a directory *)
| MRemoveAll (p : path)
| MMkdirAll (p : path)
| MCreate (p : path)
| MAppend (p : path) (c : list N)
| MSymlink (p : path) (dest : list N)
| MCount (k : kind)                  (* synchronised increment *)
| MCountLoad (k : kind)              (* the two halves of an unsynchronised [x++] *)
| MCountStore (k : kind)
| MProgress (i : nat)                (* writeProgress(fileIndex) *)
| MEntryDone (i : nat).              (* settings.OnEntryDone *)

Record worker := mkW { wops : list mop; widx : nat; wseen : option node; wreg : nat }.

Definition idle_worker : worker := mkW [] 0 None 0.

Record state := mkS {
  sfs : fs;
  snext : nat;                       (* next index the dispatcher hands out *)
  sworkers : list worker;
  scounts : nat * nat * nat;         (* dirCount, regCount, symlinkCount *)
  sresume : option nat;              (* content of the resume file; None: absent / -1 *)
  sahead : list nat;                 (* repaired code: indices finished in this run *)
  swm : option nat;                  (* repaired code: resumeIndex, the contiguous watermark *)
  sdone : nat;                       (* number of OnEntryDone callbacks *)
  slast0 : option nat;               (* lastDoneIndex read from the resume file at start *)
  serr : bool                        (* a helper failed: the extraction returns an error *)
}.

Definition get_count (k : kind) (c : nat * nat * nat) : nat :=
  let '(d, f, l) := c in match k with KDir => d | KFile => f | KLink => l end.
Definition set_count (k : kind) (v : nat) (c : nat * nat * nat) : nat * nat * nat :=
  let '(d, f, l) := c in match k with KDir => (v, f, l) | KFile => (d, v, l) | KLink => (d, f, v) end.

Definition next_of (w : option nat) : nat := match w with None => 0 | Some k => S k end.

(** the watermark moves over every finished index directly above it *)
Fixpoint advance (fuel : nat) (wm : option nat) (ahead : list nat) : option nat :=
  match fuel with
  | O => wm
  | S f => if existsb (Nat.eqb (next_of wm)) ahead then advance f (Some (next_of wm)) ahead else wm
  end.

Definition skipped (last0 : option nat) (i : nat) : bool :=
  match last0 with None => false | Some l => Nat.leb i l end.

Fixpoint set_nth {A} (l : list A) (n : nat) (x : A) : list A :=
  match l, n with
  | [], _ => []
  | _ :: r, O => x :: r
  | a :: r, S n' => a :: set_nth r n' x
  end.

Section Pool.
  Variable entries : list entry.
  (** how io.Copy slices a file's content into Write calls: any function will do *)
  Variable chunk : list N -> list (list N).
  (** [racy = true]: the counters of the unchanged code (x++ from several goroutines);
      [false]: the repaired code (increment under a mutex) *)
  Variable racy : bool.
  (** [wmark = false]: the resume file of the unchanged code (index finished last by any
      worker); [true]: the repaired code (contiguous watermark) *)
  Variable wmark : bool.

  Definition count_ops (k : kind) : list mop :=
    if racy then [MCountLoad k; MCountStore k] else [MCount k].

  (** what a worker does for entry i (zip.go, the closure inside the worker loop) *)
  Definition job (i : nat) (e : entry) : list mop :=
    match e with
    | EDir p => [MLstat p; MMkRemove p; MMkMkdir p] ++ count_ops KDir ++ [MProgress i]
    | ELink p d => [MRemoveAll p; MMkdirAll (parent p); MSymlink p d] ++ count_ops KLink ++ [MProgress i; MEntryDone i]
    | EFile p d => count_ops KFile ++ [MRemoveAll p; MMkdirAll (parent p); MCreate p]
                   ++ map (MAppend p) (chunk d) ++ [MProgress i; MEntryDone i]
    end.

  (** an entry at or below lastDoneIndex: only done(file) is called *)
  Definition skip_job (i : nat) (e : entry) : list mop :=
    match e with EDir _ => [] | _ => [MEntryDone i] end.

  Definition set_worker (s : state) (t : nat) (w : worker) : state :=
    mkS (sfs s) (snext s) (set_nth (sworkers s) t w) (scounts s) (sresume s) (sahead s) (swm s) (sdone s) (slast0 s) (serr s).

  Definition with_fs (s : state) (r : option fs) : state :=
    match r with
    | Some f => mkS f (snext s) (sworkers s) (scounts s) (sresume s) (sahead s) (swm s) (sdone s) (slast0 s) (serr s)
    | None => mkS (sfs s) (snext s) (sworkers s) (scounts s) (sresume s) (sahead s) (swm s) (sdone s) (slast0 s) true
    end.

  Definition with_counts (s : state) (c : nat * nat * nat) : state :=
    mkS (sfs s) (snext s) (sworkers s) c (sresume s) (sahead s) (swm s) (sdone s) (slast0 s) (serr s).

  Definition progress (s : state) (i : nat) : state :=
    if wmark
    then let ahead := i :: sahead s in
         let wm := advance (S (length ahead)) (swm s) ahead in
         if existsb (Nat.eqb (next_of (swm s))) ahead
         then mkS (sfs s) (snext s) (sworkers s) (scounts s) wm ahead wm (sdone s) (slast0 s) (serr s)
         else mkS (sfs s) (snext s) (sworkers s) (scounts s) (sresume s) ahead (swm s) (sdone s) (slast0 s) (serr s)
    else mkS (sfs s) (snext s) (sworkers s) (scounts s) (Some i) (sahead s) (swm s) (sdone s) (slast0 s) (serr s).

  (** worker [t] (holding [w], whose next operation is [op]) performs [op] *)
  Definition exec (s : state) (t : nat) (w : worker) (op : mop) (rest : list mop) : state :=
    let w' := mkW rest (widx w) (wseen w) (wreg w) in
    match op with
    | MLstat p => set_worker s t (mkW rest (widx w) (lookup (sfs s) p) (wreg w))
    | MMkRemove p =>
        match wseen w with
        | None | Some Dir => set_worker s t w'
        | Some _ => set_worker (with_fs s (fs_remove p (sfs s))) t w'
        end
    | MMkMkdir p =>
        match wseen w with
        | Some Dir => set_worker s t w'
        | _ => set_worker (with_fs s (fs_mkdir_all p (sfs s))) t w'
        end
    | MRemoveAll p => set_worker (with_fs s (fs_remove_all p (sfs s))) t w'
    | MMkdirAll p => set_worker (with_fs s (fs_mkdir_all p (sfs s))) t w'
    | MCreate p => set_worker (with_fs s (fs_create p (sfs s))) t w'
    | MAppend p c => set_worker (with_fs s (fs_append p c (sfs s))) t w'
    | MSymlink p d => set_worker (with_fs s (fs_symlink p d (sfs s))) t w'
    | MCount k => set_worker (with_counts s (set_count k (S (get_count k (scounts s))) (scounts s))) t w'
    | MCountLoad k => set_worker s t (mkW rest (widx w) (wseen w) (get_count k (scounts s)))
    | MCountStore k => set_worker (with_counts s (set_count k (S (wreg w)) (scounts s))) t w'
    | MProgress i => set_worker (progress s i) t w'
    | MEntryDone i =>
        set_worker (mkS (sfs s) (snext s) (sworkers s) (scounts s) (sresume s) (sahead s) (swm s) (S (sdone s)) (slast0 s) (serr s)) t w'
    end.

  (** one step of worker [t]: an idle worker receives the next index from the dispatcher
      (when there is one); a busy worker performs its next operation.  After a failure
      nothing moves any more (the extraction returns the error). *)
  Definition step (s : state) (t : nat) : state :=
    if serr s then s else
    match nth_error (sworkers s) t with
    | None => s
    | Some w =>
        match wops w with
        | [] =>
            match nth_error entries (snext s) with
            | None => s
            | Some e =>
                let i := snext s in
                let ops := if skipped (slast0 s) i then skip_job i e else job i e in
                mkS (sfs s) (S i) (set_nth (sworkers s) t (mkW ops i (wseen w) (wreg w)))
                    (scounts s) (sresume s) (sahead s) (swm s) (sdone s) (slast0 s) (serr s)
            end
        | op :: rest => exec s t w op rest
        end
    end.

  Definition run (sched : list nat) (s : state) : state := fold_left step sched s.

  (** extraction starts on directory content [f] with the resume file holding [last] *)
  Definition init (f : fs) (last : option nat) (workers : nat) : state :=
    mkS f 0 (repeat idle_worker workers) (0, 0, 0) last [] last 0 last false.

  Definition all_idle (s : state) : bool := forallb (fun w => match wops w with [] => true | _ => false end) (sworkers s).

  (** ExtractZip has returned without error *)
  Definition finished (s : state) : bool :=
    negb (serr s) && Nat.eqb (snext s) (length entries) && all_idle s.

  (** remaining micro-steps (dispatch included): the measure that shows absence of deadlock *)
  Definition pending (s : state) : nat :=
    fold_right (fun w a => length (wops w) + a) 0 (sworkers s).
  Fixpoint future (i : nat) (es : list entry) : nat :=
    match es with
    | [] => 0
    | e :: r => S (length (job i e)) + future (S i) r
    end.
  Definition remaining (s : state) : nat := pending s + future (snext s) (skipn (snext s) entries).
End Pool.

(** * What the archive must extract to *)
Definition entry_at (es : list entry) (q : path) : option entry :=
  find (fun e => path_eqb (epath e) q) es.

(** q is a proper, non-empty prefix of the path of some entry *)
Definition inner_dir (es : list entry) (q : path) : bool :=
  match q with
  | [] => false
  | _ => existsb (fun e => is_prefix q (epath e) && negb (path_eqb q (epath e))) es
  end.

Definition spec_fs (es : list entry) (q : path) : option node :=
  match entry_at es q with
  | Some e => Some (enode e)
  | None => if inner_dir es q then Some Dir else None
  end.

(** well-formed entry lists (what compressing a directory tree yields): non-empty pairwise
    distinct paths, and nothing below a file or a symlink *)
Definition wf_entries (es : list entry) : Prop :=
  NoDup (map epath es) /\
  (forall e, In e es -> epath e <> []) /\
  (forall e e', In e es -> In e' es -> is_prefix (epath e) (epath e') = true -> epath e <> epath e' -> ekind e = KDir).

(** * Archive order *)
Inductive flavor := FWalk | FContainer | FTar.

(** component-wise lexicographic order, a prefix first: the pre-order of a walk that visits
    the children of every directory by increasing name *)
Fixpoint path_leb (p q : path) : bool :=
  match p, q with
  | [], _ => true
  | _ :: _, [] => false
  | a :: p', b :: q' => if N.ltb a b then true else if N.eqb a b then path_leb p' q' else false
  end.

Fixpoint insert_entry (e : entry) (l : list entry) : list entry :=
  match l with
  | [] => [e]
  | x :: r => if path_leb (epath e) (epath x) then e :: l else x :: insert_entry e r
  end.
Definition sort_entries (l : list entry) : list entry := fold_right insert_entry [] l.

Definition is_kind (k : kind) (e : entry) : bool :=
  match k, ekind e with KDir, KDir | KFile, KFile | KLink, KLink => true | _, _ => false end.

(** CompressZip / CompressTar (FWalk / FTar): filepath.Walk order; containerarchiver.CompressZip: the
    container's dirs, then files, then symlinks, each in walk order *)
Definition compress (fl : flavor) (tree : list entry) : list entry :=
  match fl with
  | FWalk | FTar => sort_entries tree
  | FContainer => sort_entries (filter (is_kind KDir) tree) ++ sort_entries (filter (is_kind KFile) tree)
                  ++ sort_entries (filter (is_kind KLink) tree)
  end.

Definition kind_counts (es : list entry) : nat * nat * nat :=
  (length (filter (is_kind KDir) es), length (filter (is_kind KFile) es), length (filter (is_kind KLink) es)).
