(** Filesystem model, part 1: trees (DESIGN 5.3).

    A tree is a finite map from paths to nodes, represented as an association list in which
    the first binding of a key is the live one ([set] shadows, [del]/[del_tree] remove every
    binding).  The root [[]] always exists and is a directory.  A path component is a number
    (the harness maps names to numbers); a symlink destination is a list of components that may
    contain [Up] ("..").  Definitions only; lemmas are in [FS/TreeProofs.v]. *)
From Wharf Require Import FS.Light.

Definition name := N.
Definition path := list name.

Inductive comp := Up | Nm (n : name).

Inductive node :=
| File (data : list N)
| Dir
| Link (dest : list comp).

Definition tree := list (path * node).

Definition path_eqb (p q : path) : bool := list_eqb N.eqb p q.

Definition comp_eqb (a b : comp) : bool :=
  match a, b with
  | Up, Up => true
  | Nm x, Nm y => N.eqb x y
  | _, _ => false
  end.

Definition dest_eqb (a b : list comp) : bool := list_eqb comp_eqb a b.

Definition node_eqb (a b : node) : bool :=
  match a, b with
  | File x, File y => nlist_eqb x y
  | Dir, Dir => true
  | Link x, Link y => dest_eqb x y
  | _, _ => false
  end.

(** [is_prefix p q]: [p] is a (not necessarily proper) prefix of [q] *)
Fixpoint is_prefix (p q : path) : bool :=
  match p, q with
  | [], _ => true
  | x :: p', y :: q' => N.eqb x y && is_prefix p' q'
  | _ :: _, [] => false
  end.

Fixpoint lookup (t : tree) (p : path) : option node :=
  match t with
  | [] => None
  | (q, n) :: r => if path_eqb q p then Some n else lookup r p
  end.

(** what is at a resolved path: the root is always a directory *)
Definition node_at (t : tree) (p : path) : option node :=
  match p with
  | [] => Some Dir
  | _ => lookup t p
  end.

Definition set (t : tree) (p : path) (n : node) : tree := (p, n) :: t.

Definition del (t : tree) (p : path) : tree :=
  filter (fun e => negb (path_eqb (fst e) p)) t.

(** remove [p] and everything below it *)
Definition del_tree (t : tree) (p : path) : tree :=
  filter (fun e => negb (is_prefix p (fst e))) t.

(** is there a binding strictly below [p]? *)
Definition has_child (t : tree) (p : path) : bool :=
  existsb (fun e => is_prefix p (fst e) && negb (path_eqb p (fst e))) t.

(** re-root the bindings at or below [src] to [dst] *)
Definition move_tree (t : tree) (src dst : path) : tree :=
  map (fun e => if is_prefix src (fst e) then (dst ++ skipn (length src) (fst e), snd e) else e) t.

(** the live bindings, each key once (first binding wins), for comparisons *)
Fixpoint canon_aux (seen : list path) (t : tree) : tree :=
  match t with
  | [] => []
  | (p, n) :: r => if existsb (path_eqb p) seen then canon_aux seen r else (p, n) :: canon_aux (p :: seen) r
  end.
Definition canon (t : tree) : tree := canon_aux [] t.

(** [tree_sub a b]: every live binding of [a] is a live binding of [b] *)
Definition tree_sub (a b : tree) : bool :=
  forallb (fun e => match lookup b (fst e) with Some n => node_eqb n (snd e) | None => false end) (canon a).

Definition tree_eqb (a b : tree) : bool := tree_sub a b && tree_sub b a.

(** well-formed: every binding's proper non-empty prefixes are directories (not needed by the
    operations; the harness' trees have it and [Exec] checks it on the trees it is given) *)
Fixpoint prefixes (p : path) : list path :=
  match p with
  | [] => []
  | x :: r => [] :: map (cons x) (prefixes r)
  end.
(* [prefixes p] = all proper prefixes of [p], the empty one included *)

Definition wf_tree (t : tree) : bool :=
  forallb (fun e => forallb (fun a => match node_at t a with Some Dir => true | _ => false end) (prefixes (fst e))
                    && negb (path_eqb (fst e) [])) (canon t).
