(** Filesystem model, part 2: the operations used by the validator, the healer and the bowls,
    with Linux errno classes (DESIGN 5.3).  Every operation takes a clean path of names
    (Go callers pass [filepath.Join]ed paths); intermediate components that are symlinks are
    followed, the last one only by the operations that follow it on Linux ([stat], [read_file],
    [open_trunc]), at most [link_fuel] = 40 links per resolution (ELOOP beyond).

    [os.MkdirAll], [os.Remove] and [os.RemoveAll] are modelled after Go's implementation on
    Linux (what they stat, in which order, which error they return).
    Definitions only; lemmas are in [FS/OpsProofs.v].  Validated against the kernel by the
    "fsmodel" correspondence group of C06. *)
From Wharf Require Import FS.Light FS.Tree.

Inductive errno := ENOENT | ENOTDIR | EISDIR | ENOTEMPTY | EEXIST | EINVAL | ELOOP | EBUSY.

Definition errno_eqb (a b : errno) : bool :=
  match a, b with
  | ENOENT, ENOENT | ENOTDIR, ENOTDIR | EISDIR, EISDIR | ENOTEMPTY, ENOTEMPTY
  | EEXIST, EEXIST | EINVAL, EINVAL | ELOOP, ELOOP | EBUSY, EBUSY => true
  | _, _ => false
  end.

Inductive res (A : Type) := Ok (a : A) | Err (e : errno).
Arguments Ok {A} a.
Arguments Err {A} e.

(** ---- path resolution ----

    [walk_go k t fl cur cs]: [cur] is an already resolved directory, [cs] the components
    still to be walked.  The result is the resolved location of the last component (whose
    parent is a real directory; the location itself may be absent).  [fl]: follow a symlink in
    last position.  [k] continues after a symlink has been expanded (one unit of link fuel). *)
Fixpoint walk_go (k : path -> list comp -> res path) (t : tree) (fl : bool)
         (cur : path) (cs : list comp) {struct cs} : res path :=
  match cs with
  | [] => Ok cur
  | Up :: rest => walk_go k t fl (removelast cur) rest
  | Nm n :: rest =>
      let p := cur ++ [n] in
      match rest with
      | [] =>
          if fl then
            match lookup t p with
            | Some (Link d) => k cur d
            | _ => Ok p
            end
          else Ok p
      | _ :: _ =>
          match lookup t p with
          | None => Err ENOENT
          | Some Dir => walk_go k t fl p rest
          | Some (File _) => Err ENOTDIR
          | Some (Link d) => k cur (d ++ rest)
          end
      end
  end.

Fixpoint walk (lf : nat) (t : tree) (fl : bool) (cur : path) (cs : list comp) : res path :=
  match lf with
  | O => walk_go (fun _ _ => Err ELOOP) t fl cur cs
  | S lf' => walk_go (walk lf' t fl) t fl cur cs
  end.

Definition link_fuel : nat := 40.

Definition resolve (t : tree) (fl : bool) (p : path) : res path :=
  walk link_fuel t fl [] (map Nm p).

(** ---- reading operations ---- *)

Definition lstat (t : tree) (p : path) : res node :=
  match resolve t false p with
  | Err e => Err e
  | Ok q => match node_at t q with Some n => Ok n | None => Err ENOENT end
  end.

Definition stat (t : tree) (p : path) : res node :=
  match resolve t true p with
  | Err e => Err e
  | Ok q => match node_at t q with Some n => Ok n | None => Err ENOENT end
  end.

Definition readlink (t : tree) (p : path) : res (list comp) :=
  match lstat t p with
  | Err e => Err e
  | Ok (Link d) => Ok d
  | Ok _ => Err EINVAL
  end.

(** open for reading + read everything *)
Definition read_file (t : tree) (p : path) : res (list N) :=
  match stat t p with
  | Err e => Err e
  | Ok (File d) => Ok d
  | Ok Dir => Err EISDIR
  | Ok (Link _) => Err ELOOP
  end.

(** ---- writing operations ---- *)

Definition mkdir (t : tree) (p : path) : res tree :=
  match resolve t false p with
  | Err e => Err e
  | Ok q => match node_at t q with
            | Some _ => Err EEXIST
            | None => Ok (set t q Dir)
            end
  end.

(** [os.MkdirAll]: Stat (following); a directory: done; something else: ENOTDIR; any error:
    MkdirAll(parent), then Mkdir, and if that fails Lstat once more (someone else may have made
    it).  [rp] is the path reversed. *)
Fixpoint mkdir_all_rev (t : tree) (rp : list name) : res tree :=
  match stat t (rev rp) with
  | Ok Dir => Ok t
  | Ok _ => Err ENOTDIR
  | Err _ =>
      match rp with
      | [] => Err ENOENT
      | _ :: rp' =>
          match mkdir_all_rev t rp' with
          | Err e => Err e
          | Ok t1 =>
              match mkdir t1 (rev rp) with
              | Ok t2 => Ok t2
              | Err e => match lstat t1 (rev rp) with Ok Dir => Ok t1 | _ => Err e end
              end
          end
      end
  end.

Definition mkdir_all (t : tree) (p : path) : res tree := mkdir_all_rev t (rev p).

(** [os.Remove]: unlink, else rmdir *)
Definition remove (t : tree) (p : path) : res tree :=
  match resolve t false p with
  | Err e => Err e
  | Ok [] => Err EBUSY
  | Ok q => match lookup t q with
            | None => Err ENOENT
            | Some Dir => if has_child t q then Err ENOTEMPTY else Ok (del t q)
            | Some _ => Ok (del t q)
            end
  end.

(** [os.RemoveAll]: nothing there (ENOENT anywhere on the way) is fine; a non-directory on the
    way is an error; symlinks below are not followed *)
Definition remove_all (t : tree) (p : path) : res tree :=
  match resolve t false p with
  | Err ENOENT => Ok t
  | Err e => Err e
  | Ok [] => Err EINVAL
  | Ok q => Ok (del_tree t q)
  end.

Definition symlink (t : tree) (dest : list comp) (p : path) : res tree :=
  match resolve t false p with
  | Err e => Err e
  | Ok q => match node_at t q with
            | Some _ => Err EEXIST
            | None => Ok (set t q (Link dest))
            end
  end.

(** open(O_WRONLY|O_CREAT|O_TRUNC): follows a symlink in last position (a dangling one: the
    file is created where it points); returns the tree and the resolved location, which
    stands for the file descriptor *)
Definition open_trunc (t : tree) (p : path) : res (tree * path) :=
  match resolve t true p with
  | Err e => Err e
  | Ok q => match node_at t q with
            | Some Dir => Err EISDIR
            | Some (Link _) => Err ELOOP
            | Some (File _) | None => Ok (set t q (File []), q)
            end
  end.

(** open(O_WRONLY) without O_CREAT, no truncation *)
Definition open_nocreate (t : tree) (p : path) : res path :=
  match resolve t true p with
  | Err e => Err e
  | Ok q => match node_at t q with
            | Some Dir => Err EISDIR
            | Some (Link _) => Err ELOOP
            | Some (File _) => Ok q
            | None => Err ENOENT
            end
  end.

(** write the whole content through a descriptor obtained at location [q]: when the file has
    been unlinked or replaced meanwhile the data goes to the orphaned inode, i.e. nowhere *)
Definition write_fd (t : tree) (q : path) (data : list N) : tree :=
  match node_at t q with
  | Some (File _) => set t q (File data)
  | _ => t
  end.

(* pwrite: a hole before [off] reads as zeros; writing nothing changes nothing *)
Definition write_at_data (old : list N) (off : nat) (data : list N) : list N :=
  match data with
  | [] => old
  | _ => firstn off old ++ repeat 0%N (off - length old) ++ data ++ skipn (off + length data) old
  end.

Definition write_at_fd (t : tree) (q : path) (off : nat) (data : list N) : tree :=
  match node_at t q with
  | Some (File old) => set t q (File (write_at_data old off data))
  | _ => t
  end.

Definition truncate_fd (t : tree) (q : path) (len : nat) : tree :=
  match node_at t q with
  | Some (File old) => set t q (File (firstn len old ++ repeat 0%N (len - length old)))
  | _ => t
  end.

(** rename(2) *)
Definition rename2 (t : tree) (src dst : path) : res tree :=
  match resolve t false src, resolve t false dst with
  | Err e, _ => Err e
  | _, Err e => Err e
  | Ok qs, Ok qd =>
      match node_at t qs with
      | None => Err ENOENT
      | Some ns =>
          match qs, qd with
          | [], _ | _, [] => Err EBUSY
          | _, _ =>
              if path_eqb qs qd then Ok t else
              if is_prefix qs qd then Err EINVAL else          (* into its own subtree *)
              if is_prefix qd qs then Err ENOTEMPTY else       (* onto one of its ancestors *)
              match ns with
              | Dir =>
                  match node_at t qd with
                  | None => Ok (move_tree t qs qd)
                  | Some Dir => if has_child t qd then Err ENOTEMPTY else Ok (move_tree (del t qd) qs qd)
                  | Some _ => Err ENOTDIR
                  end
              | _ =>
                  match node_at t qd with
                  | Some Dir => Err EISDIR
                  | _ => Ok (move_tree (del t qd) qs qd)
                  end
              end
          end
      end
  end.

(** [os.Rename]: refuses an existing directory as destination (EEXIST) unless source and
    destination are the same file under two different names; an error about the source comes first *)
Definition rename (t : tree) (src dst : path) : res tree :=
  match lstat t dst with
  | Ok Dir =>
      match lstat t src with
      | Err e => Err e
      | Ok _ =>
          match resolve t false src, resolve t false dst with
          | Ok qs, Ok qd => if path_eqb qs qd && negb (path_eqb src dst) then rename2 t src dst else Err EEXIST
          | _, _ => Err EEXIST
          end
      end
  | _ => rename2 t src dst
  end.
