(** Lemmas about the tree representation of [FS/Tree.v]. *)
From Coq Require Import Arith Lia.
From Wharf Require Import FS.Light FS.Tree.

Lemma path_eqb_eq : forall p q, path_eqb p q = true <-> p = q.
Proof.
  unfold path_eqb. induction p as [|x p IH]; destruct q as [|y q]; cbn; split; intro H; try congruence; try reflexivity.
  - apply andb_true_iff in H as [H1 H2]. apply N.eqb_eq in H1. apply IH in H2. congruence.
  - inversion H; subst. apply andb_true_iff. split; [apply N.eqb_refl | apply IH; reflexivity].
Qed.

Lemma path_eqb_refl : forall p, path_eqb p p = true.
Proof. intro p. apply path_eqb_eq. reflexivity. Qed.

Lemma path_eqb_neq : forall p q, path_eqb p q = false <-> p <> q.
Proof.
  intros p q. split; intro H.
  - intro E. apply path_eqb_eq in E. congruence.
  - destruct (path_eqb p q) eqn:E; [apply path_eqb_eq in E; contradiction | reflexivity].
Qed.

Lemma path_eqb_sym : forall p q, path_eqb p q = path_eqb q p.
Proof.
  intros p q. destruct (path_eqb p q) eqn:E.
  - apply path_eqb_eq in E. subst. symmetry. apply path_eqb_refl.
  - symmetry. apply path_eqb_neq. apply path_eqb_neq in E. congruence.
Qed.

Lemma path_eq_dec : forall p q : path, {p = q} + {p <> q}.
Proof. intros p q. destruct (path_eqb p q) eqn:E; [left; apply path_eqb_eq; exact E | right; apply path_eqb_neq; exact E]. Qed.

Lemma is_prefix_spec : forall p q, is_prefix p q = true <-> exists r, q = p ++ r.
Proof.
  induction p as [|x p IH]; intros q; cbn.
  - split; [intros _; exists q; reflexivity | reflexivity].
  - destruct q as [|y q].
    + split; [discriminate | intros [r H]; discriminate].
    + split.
      * intro H. apply andb_true_iff in H as [H1 H2]. apply N.eqb_eq in H1. apply IH in H2 as [r H2].
        exists r. subst. reflexivity.
      * intros [r H]. inversion H; subst. apply andb_true_iff. split; [apply N.eqb_refl | apply IH; exists r; reflexivity].
Qed.

Lemma is_prefix_app : forall p r, is_prefix p (p ++ r) = true.
Proof. intros. apply is_prefix_spec. exists r. reflexivity. Qed.

Lemma is_prefix_refl : forall p, is_prefix p p = true.
Proof. intros. apply is_prefix_spec. exists []. rewrite app_nil_r. reflexivity. Qed.

Lemma is_prefix_false : forall p q, is_prefix p q = false <-> ~ exists r, q = p ++ r.
Proof.
  intros p q. split; intro H.
  - intro E. apply is_prefix_spec in E. congruence.
  - destruct (is_prefix p q) eqn:E; [apply is_prefix_spec in E; contradiction | reflexivity].
Qed.

(** [In a (prefixes p)] iff [a] is a proper prefix of [p] *)
Lemma prefixes_spec : forall p a, In a (prefixes p) <-> exists r, r <> [] /\ p = a ++ r.
Proof.
  induction p as [|x p IH]; intros a; cbn.
  - split; [contradiction | intros [r [Hr H]]]. destruct a; destruct r; cbn in H; congruence.
  - split.
    + intros [H | H].
      * subst. exists (x :: p). split; [discriminate | reflexivity].
      * apply in_map_iff in H as [a' [Ha Hin]]. apply IH in Hin as [r [Hr Hp]]. subst.
        exists r. split; [exact Hr | reflexivity].
    + intros [r [Hr H]]. destruct a as [|y a].
      * left. reflexivity.
      * right. cbn in H. inversion H; subst. apply in_map_iff. exists a. split; [reflexivity|].
        apply IH. exists r. split; [exact Hr | reflexivity].
Qed.

Lemma prefixes_app : forall p q a, In a (prefixes (p ++ q)) <->
  In a (prefixes p) \/ exists a', a = p ++ a' /\ In a' (prefixes q).
Proof.
  intros p q a. rewrite prefixes_spec. split.
  - intros [r [Hr H]].
    (* a ++ r = p ++ q *)
    revert a H. induction p as [|x p IH]; intros a H; cbn in *.
    + right. exists a. split; [reflexivity|]. apply prefixes_spec. exists r. split; [exact Hr | exact H].
    + destruct a as [|y a]; cbn in H.
      * left. left. reflexivity.
      * inversion H; subst. destruct (IH a H2) as [Hl | [a' [Ha Hin]]].
        -- left. right. apply in_map_iff. exists a. split; [reflexivity | exact Hl].
        -- right. exists a'. split; [subst; reflexivity | exact Hin].
  - intros [H | [a' [Ha H]]].
    + apply prefixes_spec in H as [r [Hr H]]. subst. exists (r ++ q). split.
      * destruct r; [congruence | discriminate].
      * rewrite app_assoc. reflexivity.
    + apply prefixes_spec in H as [r [Hr H]]. subst. exists r. split; [exact Hr | rewrite app_assoc; reflexivity].
Qed.

Lemma lookup_set : forall t p n q, lookup (set t p n) q = if path_eqb p q then Some n else lookup t q.
Proof. reflexivity. Qed.

Lemma lookup_del : forall t p q, lookup (del t p) q = if path_eqb p q then None else lookup t q.
Proof.
  unfold del. induction t as [|[k n] t IH]; intros p q; cbn [filter lookup fst].
  - destruct (path_eqb p q); reflexivity.
  - destruct (path_eqb k p) eqn:E; cbn [negb lookup].
    + apply path_eqb_eq in E. subst. rewrite IH. destruct (path_eqb p q); reflexivity.
    + rewrite IH. destruct (path_eqb k q) eqn:E2.
      * apply path_eqb_eq in E2. subst. rewrite path_eqb_sym, E. reflexivity.
      * reflexivity.
Qed.

Lemma lookup_del_tree : forall t p q, lookup (del_tree t p) q = if is_prefix p q then None else lookup t q.
Proof.
  unfold del_tree. induction t as [|[k n] t IH]; intros p q; cbn [filter lookup fst].
  - destruct (is_prefix p q); reflexivity.
  - destruct (is_prefix p k) eqn:E; cbn [negb lookup].
    + rewrite IH. destruct (path_eqb k q) eqn:E2.
      * apply path_eqb_eq in E2. subst. rewrite E. reflexivity.
      * reflexivity.
    + rewrite IH. destruct (path_eqb k q) eqn:E2.
      * apply path_eqb_eq in E2. subst. rewrite E. reflexivity.
      * reflexivity.
Qed.

Lemma node_at_nonempty : forall t p, p <> [] -> node_at t p = lookup t p.
Proof. intros t [|x p] H; [congruence | reflexivity]. Qed.

Lemma app_nonempty : forall (T p : path), p <> [] -> T ++ p <> [].
Proof. intros T p H E. apply app_eq_nil in E as [_ E]. contradiction. Qed.
