(** Lemmas about [FS/Ops.v]: a path all of whose proper prefixes are real directories resolves
    to itself ("literally"), and what every operation does on such a path. *)
From Coq Require Import Arith Lia.
From Wharf Require Import FS.Light FS.Tree FS.TreeProofs FS.Ops.

(** every proper prefix of [p] is a directory *)
Definition lit (t : tree) (p : path) : Prop :=
  forall a, In a (prefixes p) -> node_at t a = Some Dir.

Lemma lit_nil : forall t, lit t [].
Proof. intros t a H. destruct H. Qed.

Lemma lit_prefix : forall t p r, lit t (p ++ r) -> lit t p.
Proof.
  intros t p r H a Ha. apply H. apply prefixes_app. left. exact Ha.
Qed.

Lemma lit_parent_dir : forall t p r, r <> [] -> lit t (p ++ r) -> node_at t p = Some Dir.
Proof.
  intros t p r Hr H. apply H. apply prefixes_spec. exists r. split; [exact Hr | reflexivity].
Qed.

Lemma lit_app : forall t p q, lit t p -> node_at t p = Some Dir ->
  (forall a, In a (prefixes q) -> a <> [] -> node_at t (p ++ a) = Some Dir) -> lit t (p ++ q).
Proof.
  intros t p q Hp Hd Hq a Ha. apply prefixes_app in Ha as [Ha | [a' [E Ha]]].
  - apply Hp. exact Ha.
  - subst. destruct a' as [|x a'].
    + rewrite app_nil_r. exact Hd.
    + apply Hq; [exact Ha | discriminate].
Qed.

Lemma walk_go_cons2 : forall k t fl cur n c rest,
  walk_go k t fl cur (Nm n :: c :: rest) =
  match lookup t (cur ++ [n]) with
  | None => Err ENOENT
  | Some Dir => walk_go k t fl (cur ++ [n]) (c :: rest)
  | Some (File _) => Err ENOTDIR
  | Some (Link d) => k cur (d ++ c :: rest)
  end.
Proof. reflexivity. Qed.

Lemma walk_go_lit : forall k t fl ns cur,
  (forall a, In a (prefixes ns) -> a <> [] -> lookup t (cur ++ a) = Some Dir) ->
  ns <> [] ->
  (fl = true -> forall d, lookup t (cur ++ ns) <> Some (Link d)) ->
  walk_go k t fl cur (map Nm ns) = Ok (cur ++ ns).
Proof.
  intros k t fl ns. induction ns as [|n ns IH]; intros cur Hd Hne Hl; [congruence|].
  destruct ns as [|m ns'].
  - cbn. destruct fl; [|reflexivity].
    pose proof (Hl eq_refl) as Hl'.
    destruct (lookup t (cur ++ [n])) as [[| |d]|]; try reflexivity.
    exfalso. apply (Hl' d). reflexivity.
  - cbn [map]. rewrite walk_go_cons2.
    assert (E : lookup t (cur ++ [n]) = Some Dir).
    { apply Hd; [|discriminate]. apply prefixes_spec. exists (m :: ns'). split; [discriminate | reflexivity]. }
    rewrite E.
    change (Nm m :: map Nm ns') with (map Nm (m :: ns')).
    rewrite IH.
    + rewrite <- app_assoc. reflexivity.
    + intros a Ha Hn. rewrite <- app_assoc. apply Hd; [|discriminate].
      cbn [app]. change (n :: a) with ([n] ++ a).
      apply prefixes_spec in Ha as [r [Hr Hp]]. apply prefixes_spec. exists r. split; [exact Hr|].
      cbn. rewrite Hp. reflexivity.
    + discriminate.
    + intros Hf d. rewrite <- app_assoc. apply Hl. exact Hf.
Qed.

Lemma walk_unfold : forall lf t fl cur cs, exists k, walk lf t fl cur cs = walk_go k t fl cur cs.
Proof. intros [|lf] t fl cur cs; cbn [walk]; eexists; reflexivity. Qed.

Lemma resolve_lit : forall t fl p,
  lit t p -> (fl = true -> forall d, node_at t p <> Some (Link d)) -> resolve t fl p = Ok p.
Proof.
  intros t fl p Hl Hf. unfold resolve. destruct (walk_unfold link_fuel t fl [] (map Nm p)) as [k ->].
  destruct p as [|x p]; [reflexivity|].
  apply (walk_go_lit k t fl (x :: p) []).
  - intros a Ha Hn. cbn [app]. rewrite <- (node_at_nonempty t a Hn). apply Hl. exact Ha.
  - discriminate.
  - intros E d. cbn [app]. apply (Hf E d).
Qed.

Lemma lstat_lit : forall t p, lit t p ->
  lstat t p = match node_at t p with Some n => Ok n | None => Err ENOENT end.
Proof.
  intros t p H. unfold lstat. rewrite resolve_lit; [reflexivity | exact H | discriminate].
Qed.

Lemma stat_lit : forall t p, lit t p -> (forall d, node_at t p <> Some (Link d)) ->
  stat t p = match node_at t p with Some n => Ok n | None => Err ENOENT end.
Proof.
  intros t p H Hn. unfold stat. rewrite resolve_lit; [reflexivity | exact H | intros _; exact Hn].
Qed.

Lemma readlink_lit : forall t p, lit t p ->
  readlink t p = match node_at t p with Some (Link d) => Ok d | Some _ => Err EINVAL | None => Err ENOENT end.
Proof.
  intros t p H. unfold readlink. rewrite lstat_lit by exact H.
  destruct (node_at t p) as [[| |]|]; reflexivity.
Qed.

Lemma read_file_lit : forall t p, lit t p -> (forall d, node_at t p <> Some (Link d)) ->
  read_file t p = match node_at t p with Some (File d) => Ok d | Some Dir => Err EISDIR | Some (Link _) => Err ELOOP | None => Err ENOENT end.
Proof.
  intros t p H Hn. unfold read_file. rewrite stat_lit by assumption.
  destruct (node_at t p) as [[| |]|]; reflexivity.
Qed.

Lemma mkdir_all_rev_unfold : forall t rp,
  mkdir_all_rev t rp =
  match stat t (rev rp) with
  | Ok Dir => Ok t
  | Ok _ => Err ENOTDIR
  | Err _ =>
      match rp with
      | [] => Err ENOENT
      | _ :: rp' =>
          match mkdir_all_rev t rp' with
          | Err e => Err e
          | Ok t1 =>
              match mkdir t1 (rev rp) with
              | Ok t2 => Ok t2
              | Err e => match lstat t1 (rev rp) with Ok Dir => Ok t1 | _ => Err e end
              end
          end
      end
  end.
Proof. intros t [|x rp]; reflexivity. Qed.

Lemma mkdir_all_dir : forall t p, lit t p -> node_at t p = Some Dir -> mkdir_all t p = Ok t.
Proof.
  intros t p Hl Hd. unfold mkdir_all. rewrite mkdir_all_rev_unfold, rev_involutive.
  rewrite stat_lit; [rewrite Hd; reflexivity | exact Hl | intros d; congruence].
Qed.

Lemma mkdir_lit : forall t p, lit t p -> node_at t p = None -> mkdir t p = Ok (set t p Dir).
Proof.
  intros t p Hl Hn. unfold mkdir. rewrite resolve_lit; [rewrite Hn; reflexivity | exact Hl | discriminate].
Qed.

Lemma mkdir_all_new : forall t p, lit t p -> node_at t p = None -> mkdir_all t p = Ok (set t p Dir).
Proof.
  intros t p Hl Hn.
  destruct p as [|x p'] using rev_ind; [cbn in Hn; discriminate|]. clear IHp'.
  unfold mkdir_all. rewrite mkdir_all_rev_unfold, rev_involutive.
  rewrite stat_lit; [| exact Hl | intros d; congruence]. rewrite Hn.
  rewrite rev_app_distr. cbn [rev app].
  change (mkdir_all_rev t (rev p')) with (mkdir_all t p').
  rewrite mkdir_all_dir.
  - rewrite mkdir_lit by assumption. reflexivity.
  - eapply lit_prefix. exact Hl.
  - eapply lit_parent_dir; [|exact Hl]. discriminate.
Qed.

Lemma remove_lit : forall t p, lit t p -> p <> [] ->
  (exists n, lookup t p = Some n /\ n <> Dir) -> remove t p = Ok (del t p).
Proof.
  intros t p Hl Hne [n [Hn Hd]]. unfold remove. rewrite resolve_lit; [| exact Hl | discriminate].
  destruct p as [|x p]; [congruence|]. rewrite Hn. destruct n; [reflexivity | congruence | reflexivity].
Qed.

Lemma remove_all_lit : forall t p, lit t p -> p <> [] -> remove_all t p = Ok (del_tree t p).
Proof.
  intros t p Hl Hne. unfold remove_all. rewrite resolve_lit; [| exact Hl | discriminate].
  destruct p; [congruence | reflexivity].
Qed.

Lemma symlink_lit : forall t d p, lit t p -> node_at t p = None -> symlink t d p = Ok (set t p (Link d)).
Proof.
  intros t d p Hl Hn. unfold symlink. rewrite resolve_lit; [rewrite Hn; reflexivity | exact Hl | discriminate].
Qed.

Lemma open_trunc_lit : forall t p, lit t p ->
  (node_at t p = None \/ exists d, node_at t p = Some (File d)) ->
  open_trunc t p = Ok (set t p (File []), p).
Proof.
  intros t p Hl H. unfold open_trunc. rewrite resolve_lit; [| exact Hl |].
  - destruct H as [H | [d H]]; rewrite H; reflexivity.
  - intros _ d E. destruct H as [H | [d' H]]; congruence.
Qed.

(** [node_at] after the tree updates, on non-empty keys *)
Lemma node_at_set : forall t p n q, p <> [] ->
  node_at (set t p n) q = if path_eqb p q then Some n else node_at t q.
Proof.
  intros t p n q Hp. destruct q as [|y q].
  - cbn [node_at]. destruct (path_eqb p []) eqn:E; [apply path_eqb_eq in E; congruence | reflexivity].
  - cbn [node_at]. apply lookup_set.
Qed.

Lemma node_at_del : forall t p q, p <> [] ->
  node_at (del t p) q = if path_eqb p q then None else node_at t q.
Proof.
  intros t p q Hp. destruct q as [|y q].
  - cbn [node_at]. destruct (path_eqb p []) eqn:E; [apply path_eqb_eq in E; congruence | reflexivity].
  - cbn [node_at]. apply lookup_del.
Qed.

Lemma node_at_del_tree : forall t p q, p <> [] ->
  node_at (del_tree t p) q = if is_prefix p q then None else node_at t q.
Proof.
  intros t p q Hp. destruct q as [|y q].
  - cbn [node_at]. destruct p; [congruence | reflexivity].
  - cbn [node_at]. apply lookup_del_tree.
Qed.
