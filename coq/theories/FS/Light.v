(** The few shared definitions the filesystem / heal models need, without the heavy imports
    of Base/Prelude.v (ZArith, Lia): generated case files load the model in every shard, and
    loading Prelude costs several seconds each time.  [list_eqb], [nlist_eqb] and [expand] are
    the same definitions as in Base/Prelude.v. *)
From Coq Require Export List NArith Bool.
Export ListNotations.

Fixpoint expand (rle : list (N * N)) : list N :=
  match rle with
  | [] => []
  | (v, c) :: r => repeat v (N.to_nat c) ++ expand r
  end.

Fixpoint list_eqb {A} (eqb : A -> A -> bool) (a b : list A) : bool :=
  match a, b with
  | [], [] => true
  | x :: a', y :: b' => eqb x y && list_eqb eqb a' b'
  | _, _ => false
  end.

Definition nlist_eqb := list_eqb N.eqb.
