(** Model of pwr/hashinfo.go [ComputeHashInfo]: consecutive slices of the flat hash list, one
    per file in container order; a file of size 0 consumes one hash and gets no group; at the end
    the number of hashes consumed must equal the number of hashes present.

    Before slicing [sigInfo.Hashes[hashIndex : hashIndex+numBlocks]] the code checks
    [hashIndex+numBlocks > len(sigInfo.Hashes)] and returns an error (repo commit 6a06397 "fix:
    ComputeHashInfo checks the number of hashes before slicing them"; before it the slice
    expression panicked when the bound exceeded the capacity): a signature with fewer hashes
    than the container needs is [HiErr], like one with too many.  There is no panic outcome.
    [pathToFileIndex] maps a path to the last index carrying it: with distinct paths (any walked
    container) it is the position of the file, which is what the model uses.
    Definitions only; proofs in Sig/HashInfoProofs.v. *)
From Wharf Require Import Base.Prelude Sig.Sign Sig.SigFile.
Local Open Scope N_scope.

Inductive hi_result (X : Type) := HiOk (groups : list (option (list X))) | HiErr.
Arguments HiOk {X}.
Arguments HiErr {X}.

Section HashInfo.
  Context {X : Type}.
  Variable bs : N.

  (** the loop over the files: [None] = the error return inside the loop ("expected to have at
      least %d hashes in signature"); otherwise the groups by file position ([None] for a file
      of size 0: no map entry) and the final hashIndex *)
  Fixpoint hi_loop (sizes : list N) (hashes : list X) (hashIndex : N) : option (list (option (list X)) * N) :=
    match sizes with
    | [] => Some ([], hashIndex)
    | size :: r =>
      if size =? 0 then
        match hi_loop r hashes (hashIndex + 1) with
        | Some (gs, ix) => Some (None :: gs, ix)
        | None => None
        end
      else
        let nb := num_blocks bs size in
        if N.of_nat (length hashes) <? hashIndex + nb then None      (* hashIndex+numBlocks > len(sigInfo.Hashes) *)
        else
          match hi_loop r hashes (hashIndex + nb) with
          | Some (gs, ix) => Some (Some (firstn (N.to_nat nb) (skipn (N.to_nat hashIndex) hashes)) :: gs, ix)
          | None => None
          end
    end.

  Definition compute_hash_info (sizes : list N) (hashes : list X) : hi_result X :=
    match hi_loop sizes hashes 0 with
    | None => HiErr
    | Some (gs, ix) => if ix =? N.of_nat (length hashes) then HiOk gs else HiErr
    end.
End HashInfo.
