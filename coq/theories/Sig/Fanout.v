(** Model of the read fan-out used by pwr/diff.go [WritePatch]: multiread/multiread.go [Do]
    copies the upstream reader with ctxcopy.Do (a buffer of [slice] = 16384 bytes) into an
    io.MultiWriter over one io.Pipe per consumer.

    ctxcopy.DoBuffer: [for !eof { n, err := src.Read(buf); if err == io.EOF { eof = true };
    dst.Write(buf[:n]) }] - one Write per upstream Read, *including an empty Write* for a
    (0, io.EOF) or (0, nil) read.  io.Pipe: a Write of [b] blocks until the reader has taken all
    of [b]; each Read(p) returns min(len p, what is left of the current Write), and an empty
    Write is delivered as one (0, nil) Read; after the writer is closed, Read returns
    (0, io.EOF).  io.MultiWriter writes to the pipes one after the other.

    Hence every consumer sees the same sequence of Writes, and what it reads is determined by
    that sequence and its own request sizes only (a Kahn network: no scheduling can change the
    value of a stream; freedom from deadlock/races is C15's subject, not modelled here):
    a consumer's reader is exactly [mkrd writes false] of Sig/Scan.v.  Definitions only. *)
From Wharf Require Import Base.Prelude Sig.Scan.

Section Fanout.
  Context {A : Type}.
  Variable slice : nat.               (* len(buf) in ctxcopy.Do: 16384 *)

  (** the slices passed to dst.Write; [false] = out of fuel.  A non-EOF upstream error ends
      the copy before the Write (the chunking readers never produce one). *)
  Fixpoint copy_writes (fuel : nat) (rd : reader A) : list (list A) * bool :=
    match fuel with
    | O => ([], false)
    | S f =>
      let '(d, e, rd') := rd_read slice rd in
      match e with
      | Some REof => ([d], true)
      | Some (RErr _) => ([], true)
      | None => let '(ws, ok) := copy_writes f rd' in (d :: ws, ok)
      end
    end.

  Definition fan_fuel (chunks : list (list A)) : nat := length (concat chunks) + length chunks + 2.

  (** the chunking every pipe reader is served *)
  Definition fan_writes (chunks : list (list A)) (eofWithLast : bool) : list (list A) * bool :=
    copy_writes (fan_fuel chunks) (mkrd chunks eofWithLast).

  (** a consumer issuing Reads with the request sizes [reqs] (cycled) until io.EOF: the byte
      counts returned, in order (a pipe never returns data together with io.EOF) *)
  Fixpoint drain (fuel : nat) (reqs cur : list nat) (rd : reader A) : list nat :=
    match fuel with
    | O => []
    | S f =>
      match cur with
      | [] => match reqs with [] => [] | _ => drain f reqs reqs rd end
      | q :: cur' =>
        let '(d, e, rd') := rd_read q rd in
        match e with
        | Some _ => match d with [] => [] | _ => [length d] end
        | None => length d :: drain f reqs cur' rd'
        end
      end
    end.
End Fanout.
