(** Model of wsync/hashes.go [CreateSignature] (one file: bufio.Scanner with splitfunc over the
    file's reader, [hashBlock] per token, the synthetic hash of an empty file) and of
    pwr/sign.go [ComputeSignatureToWriter] (all files of a container, in order), together with
    the reference definition [sign_all] the property is stated against: per file the hashes of
    its blocks, the last one possibly short, one hash with ShortSize 0 for an empty file.
    The block size, the two hash functions (weak: [beta_hash] of Sig/Weak.v, strong: MD5) and the
    scanner's tolerance for empty reads are parameters.
    Definitions only; proofs in Sig/SignProofs.v. *)
From Wharf Require Import Base.Prelude Sig.Scan.
Local Open Scope N_scope.

(** wsync.BlockHash *)
Record blockhash (H : Type) := mkbh { bh_file : N; bh_block : N; bh_weak : N; bh_strong : H; bh_short : N }.
Arguments mkbh {H}.
Arguments bh_file {H}.
Arguments bh_block {H}.
Arguments bh_weak {H}.
Arguments bh_strong {H}.
Arguments bh_short {H}.

Section Sign.
  Context {H : Type}.
  Variable bs : N.                    (* ctx.blockSize (pwr.BlockSize = 64 KiB) *)
  Variable weak : list N -> N.        (* βhash: [beta_hash] of Sig/Weak.v *)
  Variable strong : list N -> H.      (* ctx.uniqueHash: MD5 *)

  (** [hashBlock]: ShortSize = len(block) when len(block) < blockSize, else 0 *)
  Definition hash_block (fileIndex blockIndex : N) (block : list N) : blockhash H :=
    mkbh fileIndex blockIndex (weak block) (strong block)
         (if N.of_nat (length block) <? bs then N.of_nat (length block) else 0).

  (** hashBlock applied to successive tokens, blockIndex++ *)
  Fixpoint hash_blocks (fileIndex blockIndex : N) (toks : list (list N)) : list (blockhash H) :=
    match toks with
    | [] => []
    | t :: r => hash_block fileIndex blockIndex t :: hash_blocks fileIndex (blockIndex + 1) r
    end.

  (** ---- the code: CreateSignature over a reader ---- *)
  Variable maxE : nat.                (* bufio's maxConsecutiveEmptyReads *)

  (** returns the hashes handed to [writeHash] and how the call ended ([SEof] = nil error).
      [s.Buffer(make([]byte, blockSize), 0)]; [s.Split(splitfunc.New(blockSize))];
      on a scanner error the hashes of the tokens seen so far have already been written;
      "let empty files have a 0-length shortblock": [if blockIndex == 0 { hashBlock([]byte{}) }] *)
  Definition create_signature (fileIndex : N) (chunks : list (list N)) (eofWithLast : bool)
    : list (blockhash H) * scan_end :=
    let '(toks, e) := scan (N.to_nat bs) maxE (splitfunc (N.to_nat bs)) chunks eofWithLast in
    let hs := hash_blocks fileIndex 0 toks in
    match e with
    | SEof => (match toks with [] => [hash_block fileIndex 0 []] | _ => hs end, SEof)
    | _ => (hs, e)
    end.

  (** ComputeSignatureToWriter: [for fileIndex, f := range container.Files]; a source is the
      chunking its pool reader delivers; stops at the first error *)
  Fixpoint compute_signature_from (fileIndex : N) (srcs : list (list (list N) * bool))
    : list (blockhash H) * scan_end :=
    match srcs with
    | [] => ([], SEof)
    | (chunks, eofl) :: r =>
      match create_signature fileIndex chunks eofl with
      | (hs, SEof) => let '(hs', e) := compute_signature_from (fileIndex + 1) r in (hs ++ hs', e)
      | (hs, e) => (hs, e)
      end
    end.
  Definition compute_signature := compute_signature_from 0.

  (** ---- the reference: what the property says a signature is ---- *)
  Definition sign_file (fileIndex : N) (content : list N) : list (blockhash H) :=
    match content with
    | [] => [hash_block fileIndex 0 []]
    | _ => hash_blocks fileIndex 0 (blocks (N.to_nat bs) content)
    end.

  Fixpoint sign_all_from (fileIndex : N) (files : list (list N)) : list (blockhash H) :=
    match files with
    | [] => []
    | f :: r => sign_file fileIndex f ++ sign_all_from (fileIndex + 1) r
    end.
  Definition sign_all := sign_all_from 0.
End Sign.
