(** Proofs about the signature file: reading back what was written from the reference signature
    gives the reference signature, including the re-derived file index, block index and
    ShortSize. *)
From Wharf Require Import Base.Prelude Base.BlocksLemmas Sig.Scan Sig.Sign Sig.Fanout Sig.SigFile.
Local Open Scope N_scope.

Section SigFileProofs.
  Context {H : Type}.
  Variable bs : N.
  Hypothesis bs_pos : 0 < bs.
  Variable weak : list N -> N.
  Variable strong : list N -> H.

  Let bsn := N.to_nat bs.
  Lemma bsn_pos' : (0 < bsn)%nat.
  Proof. unfold bsn. lia. Qed.

  (** ---- pwr.ComputeNumBlocks ---- *)
  Lemma num_blocks_0 : num_blocks bs 0 = 0.
  Proof. unfold num_blocks. apply N.div_small. lia. Qed.

  Lemma num_blocks_small n : 0 < n <= bs -> num_blocks bs n = 1.
  Proof.
    intros Hn. unfold num_blocks. symmetry. apply N.div_unique with (r := n - 1); lia.
  Qed.

  Lemma num_blocks_step n : bs <= n -> num_blocks bs n = 1 + num_blocks bs (n - bs).
  Proof.
    intros Hn. unfold num_blocks.
    replace (n + bs - 1) with ((n - bs + bs - 1) + 1 * bs) by lia.
    rewrite N.div_add by lia. lia.
  Qed.

  Lemma num_blocks_pos n : 0 < n -> 0 < num_blocks bs n.
  Proof.
    intros Hn. destruct (N.le_gt_cases bs n) as [Hl|Hl].
    - rewrite num_blocks_step by assumption. lia.
    - rewrite num_blocks_small by lia. lia.
  Qed.

  (** one hash per block: the number of blocks of a file is ComputeNumBlocks of its size *)
  Lemma blocks_length (l : list N) :
    length (blocks bsn l) = N.to_nat (num_blocks bs (N.of_nat (length l))).
  Proof.
    remember (length l) as n eqn:En. revert l En.
    induction n as [n IH] using lt_wf_ind. intros l En.
    destruct l as [|x l'].
    - cbn [length] in En. subst n. cbn [N.of_nat]. rewrite num_blocks_0. reflexivity.
    - rewrite (blocks_cons bsn bsn_pos') by discriminate. cbn [length].
      destruct (Nat.lt_ge_cases (length (x :: l')) bsn) as [Hs|Hl].
      + rewrite skipn_all2 by lia. cbn [blocks blocks_aux length].
        rewrite num_blocks_small; [reflexivity|]. subst n. unfold bsn in Hs. cbn [length] in *. lia.
      + rewrite (IH (length (skipn bsn (x :: l')))); [| rewrite skipn_length; subst n; pose proof bsn_pos'; lia | reflexivity].
        rewrite skipn_length. subst n.
        rewrite (num_blocks_step (N.of_nat (length (x :: l')))) by (unfold bsn in Hl; lia).
        replace (N.of_nat (length (x :: l') - bsn)) with (N.of_nat (length (x :: l')) - bs) by (unfold bsn; lia).
        lia.
  Qed.

  (** ---- the block loop of ReadSignature on the hashes of a file's blocks ---- *)
  Lemma read_blocks_spec (t : list N) : forall fileIndex size j rest,
    size = j * bs + N.of_nat (length t) ->
    read_blocks bs fileIndex size (length (blocks bsn t)) j
                (write_signature (hash_blocks bs weak strong fileIndex j (blocks bsn t)) ++ rest) =
    (hash_blocks bs weak strong fileIndex j (blocks bsn t), rest).
  Proof.
    remember (length t) as n eqn:En. revert t En.
    induction n as [n IH] using lt_wf_ind. intros t En fileIndex size j rest Hsize.
    destruct t as [|x t'].
    - reflexivity.
    - rewrite (blocks_cons bsn bsn_pos') by discriminate.
      set (t := x :: t') in *.
      cbn [length hash_blocks write_signature map app read_blocks].
      change (map (fun h : blockhash H => (bh_weak h, bh_strong h))) with (@write_signature H).
      destruct (Nat.lt_ge_cases (length t) bsn) as [Hs|Hl].
      + (* the short last block *)
        rewrite skipn_all2 by lia. cbn [blocks blocks_aux length hash_blocks write_signature map app read_blocks].
        unfold hash_block. cbn [bh_weak bh_strong]. rewrite firstn_all2 by lia.
        assert (E1 : (size <? (j + 1) * bs) = true) by (apply N.ltb_lt; unfold bsn in Hs; lia).
        assert (E2 : (N.of_nat (length t) <? bs) = true) by (apply N.ltb_lt; unfold bsn in Hs; lia).
        rewrite E1, E2.
        assert (E3 : size mod bs = N.of_nat (length t)).
        { symmetry. apply N.mod_unique with (q := j); [unfold bsn in Hs; lia|lia]. }
        rewrite E3. reflexivity.
      + (* a full block, more to come *)
        rewrite (IH (length (skipn bsn t))) with (size := size);
          [| rewrite skipn_length; subst n; pose proof bsn_pos'; lia | reflexivity
           | rewrite skipn_length; unfold bsn in *; lia ].
        unfold hash_block at 2. cbn [bh_weak bh_strong].
        assert (Hfl : length (firstn bsn t) = bsn) by (rewrite firstn_length; lia).
        unfold hash_block. rewrite Hfl.
        assert (E1 : (size <? (j + 1) * bs) = false) by (apply N.ltb_ge; unfold bsn in Hl; lia).
        assert (E2 : (N.of_nat bsn <? bs) = false) by (apply N.ltb_ge; unfold bsn; lia).
        rewrite E1, E2. reflexivity.
  Qed.

  Lemma write_signature_app (a b : list (blockhash H)) :
    write_signature (a ++ b) = write_signature a ++ write_signature b.
  Proof. apply map_app. Qed.

  Lemma read_files_spec files : forall fileIndex rest_sizes,
    rest_sizes = map (fun f : list N => N.of_nat (length f)) files ->
    read_files bs fileIndex rest_sizes (write_signature (sign_all_from bs weak strong fileIndex files)) =
    sign_all_from bs weak strong fileIndex files.
  Proof.
    induction files as [|f r IH]; intros fileIndex sizes Hs; subst sizes; [reflexivity|].
    cbn [map read_files sign_all_from]. rewrite write_signature_app.
    destruct f as [|x f'].
    - cbn [length N.of_nat]. rewrite num_blocks_0. cbn [N.eqb].
      cbn [sign_file write_signature map app]. unfold hash_block at 1. cbn [bh_weak bh_strong].
      rewrite (IH (fileIndex + 1) _ eq_refl).
      unfold hash_block. cbn [length N.of_nat]. destruct (0 <? bs); reflexivity.
    - set (f := x :: f') in *.
      pose proof (num_blocks_pos (N.of_nat (length f)) ltac:(unfold f; cbn [length]; lia)) as Hp.
      assert (E : (num_blocks bs (N.of_nat (length f)) =? 0) = false) by (apply N.eqb_neq; lia).
      rewrite E. unfold sign_file. fold bsn. change (match f with [] => _ | _ :: _ => ?b end) with b.
      rewrite <- blocks_length.
      rewrite (read_blocks_spec f fileIndex (N.of_nat (length f)) 0) by lia.
      rewrite (IH (fileIndex + 1) _ eq_refl). reflexivity.
  Qed.

  (** what ReadSignature returns for the file written from the reference signature *)
  Theorem read_write_signature_lemma files :
    read_signature bs (map (fun f : list N => N.of_nat (length f)) files)
                   (write_signature (sign_all bs weak strong files)) =
    sign_all bs weak strong files.
  Proof. apply read_files_spec. reflexivity. Qed.
End SigFileProofs.
