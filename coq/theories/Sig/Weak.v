(** wsync/hashes.go [βhash]: the weak hash of a whole block, with Go's [uint32] arithmetic:
    every intermediate result wraps at 2^32 ([u32] = keep the low 32 bits), [_M = 1 << 16] and
    [x % _M] keeps the low 16 bits.  Sig/WeakProofs.v shows [u32 x = x mod 2^32],
    [low16 x = x mod 2^16].  Self-contained on purpose (no dependency on the Wsync/ models). *)
From Wharf Require Import Base.Prelude.
Local Open Scope N_scope.

Definition u32 (x : N) : N := N.land x 4294967295.
Definition low16 (x : N) : N := N.land x 65535.
Definition M16 : N := 65536.

(** the [for i, val := range block] loop; [len] = len(block), [i] the index of the head of [block]:
    [a += uint32(val)]; [b += (uint32(len(block)-1) - uint32(i) + 1) * uint32(val)].
    ([i <= len-1] inside the loop, so the unsigned subtraction does not wrap.) *)
Fixpoint beta_loop (len i a b : N) (block : list N) : N * N :=
  match block with
  | [] => (a, b)
  | v :: r =>
    beta_loop len (i + 1)
              (u32 (a + u32 v))
              (u32 (b + u32 (u32 (u32 (u32 (len - 1) - u32 i) + 1) * u32 v)))
              r
  end.

(** β = (a % _M) + (_M * (b % _M)) *)
Definition beta_hash (block : list N) : N :=
  let '(a, b) := beta_loop (N.of_nat (length block)) 0 0 0 block in
  u32 (low16 a + u32 (M16 * low16 b)).

(** the same sums without any wrap-around (unbounded arithmetic), reduced only at the end;
    [beta_hash_plain] (Sig/WeakProofs.v) shows it equals [beta_hash].  Cheaper to evaluate on
    64 KiB blocks. *)
Fixpoint plain_loop (len i a b : N) (block : list N) : N * N :=
  match block with
  | [] => (a, b)
  | v :: r => plain_loop len (i + 1) (a + v) (b + (len - i) * v) r
  end.

Definition beta_plain (block : list N) : N :=
  let '(a, b) := plain_loop (N.of_nat (length block)) 0 0 0 block in
  low16 a + M16 * low16 b.

(** ... and as running sums: b = sum over k of (v_0 + ... + v_k); [beta_plain_prefix]
    (Sig/WeakProofs.v) shows [beta_prefix = beta_plain].  Two additions per byte: this is the
    form the 64 KiB correspondence cases evaluate. *)
Fixpoint prefix_loop (a c : N) (block : list N) : N * N :=
  match block with
  | [] => (a, c)
  | v :: r => prefix_loop (a + v) (c + (a + v)) r
  end.

Definition beta_prefix (block : list N) : N :=
  let '(a, c) := prefix_loop 0 0 block in
  low16 a + M16 * low16 c.
