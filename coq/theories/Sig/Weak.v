(** wsync/hashes.go [βhash]: the weak hash of a whole block, with Go's [uint32] arithmetic:
    every intermediate result wraps at 2^32 ([u32] = keep the low 32 bits), [_M = 1 << 16] and
    [x % _M] keeps the low 16 bits.  Sig/WeakProofs.v shows [u32 x = x mod 2^32],
    [low16 x = x mod 2^16], [sub32 (u32 x) (u32 y) = (x - y) mod 2^32] for [y <= x].  No bound on
    the length of the block is assumed anywhere (the arithmetic is Go's for every length).
    Self-contained on purpose (no dependency on the Wsync/ models). *)
From Wharf Require Import Base.Prelude.
Local Open Scope N_scope.

Definition u32 (x : N) : N := N.land x 4294967295.
Definition low16 (x : N) : N := N.land x 65535.
Definition M16 : N := 65536.

(** Go's [uint32] subtraction [x - y] for [x, y < 2^32]: it wraps around modulo 2^32 *)
Definition sub32 (x y : N) : N := u32 (x + 4294967296 - y).

(** the [for i, val := range block] loop; [len] = len(block), [i] the index of the head of [block]:
    [a += uint32(val)]; [b += (uint32(len(block)-1) - uint32(i) + 1) * uint32(val)].
    [len(block) - 1] is [int] arithmetic ([len >= 1] inside the loop); the conversions to
    [uint32] keep the low 32 bits and the [uint32] subtraction wraps ([sub32]) - which it does as
    soon as the block is longer than 2^32 bytes and [uint32(len-1) < uint32(i)]: the factor is
    [(len - i) mod 2^32] for every length (Sig/WeakProofs.v [beta_factor]). *)
Fixpoint beta_loop (len i a b : N) (block : list N) : N * N :=
  match block with
  | [] => (a, b)
  | v :: r =>
    beta_loop len (i + 1)
              (u32 (a + u32 v))
              (u32 (b + u32 (u32 (sub32 (u32 (len - 1)) (u32 i) + 1) * u32 v)))
              r
  end.

(** β = (a % _M) + (_M * (b % _M)) *)
Definition beta_hash (block : list N) : N :=
  let '(a, b) := beta_loop (N.of_nat (length block)) 0 0 0 block in
  u32 (low16 a + u32 (M16 * low16 b)).

(** the same sums without any wrap-around (unbounded arithmetic), reduced only at the end;
    [beta_hash_plain] (Sig/WeakProofs.v) shows it equals [beta_hash].  Cheaper to evaluate on
    64 KiB blocks. *)
Fixpoint plain_loop (len i a b : N) (block : list N) : N * N :=
  match block with
  | [] => (a, b)
  | v :: r => plain_loop len (i + 1) (a + v) (b + (len - i) * v) r
  end.

Definition beta_plain (block : list N) : N :=
  let '(a, b) := plain_loop (N.of_nat (length block)) 0 0 0 block in
  low16 a + M16 * low16 b.

(** ... and as running sums: b = sum over k of (v_0 + ... + v_k); [beta_plain_prefix]
    (Sig/WeakProofs.v) shows [beta_prefix = beta_plain].  Two additions per byte: this is the
    form the 64 KiB correspondence cases evaluate. *)
Fixpoint prefix_loop (a c : N) (block : list N) : N * N :=
  match block with
  | [] => (a, c)
  | v :: r => prefix_loop (a + v) (c + (a + v)) r
  end.

Definition beta_prefix (block : list N) : N :=
  let '(a, c) := prefix_loop 0 0 block in
  low16 a + M16 * low16 c.
