(** Model of Go's [bufio.Scanner] (go1.24 bufio/scan.go, [Scan], [advance], [setErr], [Err]) as
    wsync.CreateSignature configures it - [s.Buffer(make([]byte, cap), 0)]: a caller-supplied
    buffer of [cap] bytes and a maximum token size of 0, so the buffer is never enlarged and a
    full buffer without a token is [ErrTooLong] - driven by an arbitrary split function, and of
    splitfunc.New (splitfunc/splitfunc.go).

    The input is a *chunking*: the reader hands out the chunks front to back, a [Read] never
    crosses a chunk border, a chunk larger than the space offered is delivered in pieces, an
    empty chunk is a [(0, nil)] read, and the read delivering the last byte also returns
    [io.EOF] when [reof] is set (both behaviours are allowed by io.Reader).

    The scanner state keeps [start] and the window [buf[start:end]]; [end = start + length win].
    Bytes of the buffer outside the window are never looked at by the code.  Definitions only;
    proofs are in Sig/ScanProofs.v. *)
From Wharf Require Import Base.Prelude.

Inductive serr := ErrTooLong | ErrAdvanceTooFar | ErrNoProgress | ErrOther.
(** a non-nil error value: [io.EOF] or something else *)
Inductive rerr := REof | RErr (e : serr).
(** how a scan ended: [s.Err() == nil], an error, the "too many empty tokens" panic, or the
    model's fuel ran out (a split function that never advances loops forever in Go as well) *)
Inductive scan_end := SEof | SErr (e : serr) | SPanic | SOutOfFuel.

Definition serr_eqb (a b : serr) : bool :=
  match a, b with
  | ErrTooLong, ErrTooLong | ErrAdvanceTooFar, ErrAdvanceTooFar | ErrNoProgress, ErrNoProgress | ErrOther, ErrOther => true
  | _, _ => false
  end.
Definition scan_end_eqb (a b : scan_end) : bool :=
  match a, b with
  | SEof, SEof | SPanic, SPanic | SOutOfFuel, SOutOfFuel => true
  | SErr x, SErr y => serr_eqb x y
  | _, _ => false
  end.

Definition is_some {X} (o : option X) : bool := match o with Some _ => true | None => false end.
Definition nonemptyb {X} (l : list X) : bool := match l with [] => false | _ => true end.

Section Scan.
  Context {A : Type}.

  (** ---- the reader ---- *)
  Record reader := mkrd { rchunks : list (list A); reof : bool }.

  (** one [Read(p)] with [len(p) = space]: (bytes delivered, error, reader afterwards) *)
  Definition rd_read (space : nat) (rd : reader) : list A * option rerr * reader :=
    match rchunks rd with
    | [] => ([], Some REof, rd)
    | c :: r =>
      match c with
      | [] => ([], None, mkrd r (reof rd))
      | _ :: _ =>
        let n := Nat.min space (length c) in
        match skipn n c with
        | [] => match r with
                | [] => (firstn n c, if reof rd then Some REof else None, mkrd [] (reof rd))
                | _ :: _ => (firstn n c, None, mkrd r (reof rd))
                end
        | rest => (firstn n c, None, mkrd (rest :: r) (reof rd))
        end
      end
    end.

  (** ---- splitfunc.New(blockSize) ---- *)
  Definition split_fn := list A -> bool -> nat * option (list A) * option rerr.

  Definition splitfunc (blockSize : nat) : split_fn := fun data atEOF =>
    if blockSize <=? length data then (blockSize, Some (firstn blockSize data), None)
    else if atEOF then
      match data with
      | _ :: _ => (length data, Some data, None)
      | [] => (0, None, Some REof)
      end
    else (0, None, None).

  (** ---- the scanner ---- *)
  Variable cap : nat.          (* len(s.buf); maxTokenSize = 0 *)
  Variable maxE : nat.         (* maxConsecutiveEmptyReads = 100 *)
  Variable split : split_fn.

  Record sc := mksc { sstart : nat; swin : list A; serror : option rerr; sempties : nat }.

  (** setErr: records the first error, io.EOF can be overwritten *)
  Definition set_err (cur : option rerr) (e : rerr) : option rerr :=
    match cur with
    | None | Some REof => Some e
    | Some (RErr _) => cur
    end.

  Inductive step :=
  | Tok (t : list A) (s : sc) (rd : reader)     (* Scan returned true with this token *)
  | Cont (s : sc) (rd : reader)                 (* next iteration of the for loop inside Scan *)
  | Stop (s : sc)                               (* Scan returned false *)
  | Panicked.

  (** the inner [for loop := 0; ; ] around [s.r.Read]; [k] = empty reads still tolerated *)
  Fixpoint read_loop (k : nat) (space : nat) (rd : reader) {struct k} : list A * option rerr * reader :=
    let '(d, e, rd') := rd_read space rd in
    match e with
    | Some e' => (d, Some e', rd')
    | None =>
      match d with
      | _ :: _ => (d, None, rd')
      | [] => match k with
              | O => ([], Some (RErr ErrNoProgress), rd')
              | S k' => read_loop k' space rd'
              end
      end
    end.

  (** first half of the loop body: offer the window to the split function
      ([ErrFinalToken] and a negative advance are not modelled: [split] returns a [nat] and
      splitfunc never returns ErrFinalToken) *)
  Inductive offered := OTok (t : list A) (s : sc) | OStop (s : sc) | OPanic | OFall (s : sc).

  Definition offer (s : sc) : offered :=
    if (0 <? length (swin s)) || is_some (serror s) then
      let '(adv, tok, e) := split (swin s) (is_some (serror s)) in
      match e with
      | Some e' => OStop (mksc (sstart s) (swin s) (set_err (serror s) e') (sempties s))
      | None =>
        if length (swin s) <? adv
        then OStop (mksc (sstart s) (swin s) (set_err (serror s) (RErr ErrAdvanceTooFar)) (sempties s))
        else
          match tok with
          | None => OFall (mksc (sstart s + adv) (skipn adv (swin s)) (serror s) (sempties s))
          | Some t =>
            if negb (is_some (serror s)) || (0 <? adv)
            then OTok t (mksc (sstart s + adv) (skipn adv (swin s)) (serror s) 0)
            else if maxE <? S (sempties s) then OPanic
            else OTok t (mksc (sstart s + adv) (skipn adv (swin s)) (serror s) (S (sempties s)))
          end
      end
    else OFall s.

  (** second half: no token could be produced from the window *)
  Definition refill (s : sc) (rd : reader) : step :=
    if is_some (serror s) then Stop (mksc 0 [] (serror s) (sempties s))
    else
      (* shift data to the beginning of the buffer if there is lots of empty space or space is needed *)
      let s2 := if (0 <? sstart s) && ((sstart s + length (swin s) =? cap) || (cap / 2 <? sstart s))
                then mksc 0 (swin s) (serror s) (sempties s) else s in
      (* buffer full: len(s.buf) >= s.maxTokenSize = 0, never resized *)
      if sstart s2 + length (swin s2) =? cap
      then Stop (mksc (sstart s2) (swin s2) (set_err (serror s2) (RErr ErrTooLong)) (sempties s2))
      else
        let '(d, e, rd') := read_loop maxE (cap - (sstart s2 + length (swin s2))) rd in
        Cont (mksc (sstart s2) (swin s2 ++ d)
                   (match e with Some e' => set_err (serror s2) e' | None => serror s2 end)
                   (match e, d with None, _ :: _ => 0 | _, _ => sempties s2 end)) rd'.

  Definition scan_iter (s : sc) (rd : reader) : step :=
    match offer s with
    | OTok t s' => Tok t s' rd
    | OStop s' => Stop s'
    | OPanic => Panicked
    | OFall s' => refill s' rd
    end.

  (** [s.Err()] *)
  Definition end_of (e : option rerr) : scan_end :=
    match e with
    | None | Some REof => SEof
    | Some (RErr x) => SErr x
    end.

  (** [for s.Scan() { tokens = append(tokens, s.Bytes()) }; s.Err()] *)
  Fixpoint scan_all (fuel : nat) (s : sc) (rd : reader) : list (list A) * scan_end :=
    match fuel with
    | O => ([], SOutOfFuel)
    | S f =>
      match scan_iter s rd with
      | Tok t s' rd' => let '(ts, e) := scan_all f s' rd' in (t :: ts, e)
      | Cont s' rd' => scan_all f s' rd'
      | Stop s' => ([], end_of (serror s'))
      | Panicked => ([], SPanic)
      end
    end.

  Definition scan_fuel (chunks : list (list A)) : nat := 3 * length (concat chunks) + 2 * length chunks + 8.

  Definition scan (chunks : list (list A)) (eofWithLast : bool) : list (list A) * scan_end :=
    scan_all (scan_fuel chunks) (mksc 0 [] None 0) (mkrd chunks eofWithLast).
End Scan.

Arguments reader : clear implicits.
Arguments sc : clear implicits.
Arguments step : clear implicits.
Arguments offered : clear implicits.
Arguments split_fn : clear implicits.
