(** Statements of C04 assembled from the per-component results: the two producers agree, and
    the shape of a signature (count, indices, short sizes). *)
From Wharf Require Import Base.Prelude Base.BlocksLemmas.
From Wharf Require Import Sig.Scan Sig.ScanProofs Sig.Sign Sig.Fanout Sig.SigFile Sig.SignProofs Sig.SigFileProofs Sig.HashInfo Sig.HashInfoProofs.
Local Open Scope N_scope.

Section C04Proofs.
  Context {H : Type}.
  Variable bs : N.
  Hypothesis bs_pos : 0 < bs.
  Variable weak : list N -> N.
  Variable strong : list N -> H.
  Variable maxE : nat.
  Hypothesis maxE_pos : (1 <= maxE)%nat.
  Variable slice : nat.
  Hypothesis slice_pos : (0 < slice)%nat.

  (** The signature written while diffing (source read once through the fan-out, by a pool whose
      readers deliver the chunkings [srcs], with runs of at most maxE - 1 empty reads) and read back with ReadSignature equals what the
      stand-alone signer computes from the same file contents delivered in any other chunkings
      [srcs'] (which may contain empty reads): both are the reference signature. *)
  Theorem both_producers_agree_lemma srcs srcs' :
    Forall (src_fan_ok maxE) srcs -> Forall (src_ok maxE) srcs' ->
    map src_content srcs = map src_content srcs' ->
    exists stream,
      diff_time_signature bs weak strong maxE slice srcs = Some stream /\
      (read_signature bs (map (fun s => N.of_nat (length (src_content s))) srcs) stream, SEof) =
      compute_signature bs weak strong maxE srcs' /\
      read_signature bs (map (fun s => N.of_nat (length (src_content s))) srcs) stream =
      sign_all bs weak strong (map src_content srcs).
  Proof.
    intros Hd Hs Hc.
    exists (write_signature (sign_all bs weak strong (map src_content srcs))).
    split; [apply (diff_time_signature_spec bs bs_pos weak strong maxE slice slice_pos maxE_pos); exact Hd|].
    rewrite (compute_signature_spec bs bs_pos weak strong maxE srcs' Hs), <- Hc.
    rewrite <- (map_map src_content (fun f : list N => N.of_nat (length f))).
    rewrite (read_write_signature_lemma bs bs_pos). split; reflexivity.
  Qed.

End C04Proofs.

(** ---- shape of the reference signature ---- *)
Section Shape.
  Context {H : Type}.
  Variable bs : N.
  Hypothesis bs_pos : 0 < bs.
  Variable weak : list N -> N.
  Variable strong : list N -> H.

  Lemma hash_blocks_nth fi (toks : list (list N)) : forall j k b,
    nth_error toks k = Some b ->
    nth_error (hash_blocks bs weak strong fi j toks) k = Some (hash_block bs weak strong fi (j + N.of_nat k) b).
  Proof.
    induction toks as [|t r IH]; intros j k b Hn; [destruct k; discriminate|].
    destruct k as [|k]; cbn [nth_error hash_blocks] in *.
    - inversion Hn; subst. rewrite N.add_0_r. reflexivity.
    - rewrite (IH (j + 1) k b Hn). replace (j + 1 + N.of_nat k) with (j + N.of_nat (S k)) by lia. reflexivity.
  Qed.

  (** every block but the last is a full block *)
  Lemma inner_blocks_full (l : list N) k b :
    nth_error (blocks (N.to_nat bs) l) k = Some b -> (S k < length (blocks (N.to_nat bs) l))%nat ->
    length b = N.to_nat bs.
  Proof.
    assert (Hp : (0 < N.to_nat bs)%nat) by lia.
    rewrite (blocks_full (N.to_nat bs) Hp l). intros Hn Hk.
    pose proof (full_blocks_len (N.to_nat bs) Hp l) as Hf.
    rewrite app_length in Hk.
    assert (Hkl : (k < length (fst (full (N.to_nat bs) l)))%nat).
    { destruct (snd (full (N.to_nat bs) l)); cbn [length] in Hk; lia. }
    rewrite nth_error_app1 in Hn by exact Hkl.
    rewrite Forall_forall in Hf. apply Hf. eapply nth_error_In. exact Hn.
  Qed.

  (** file [fi] with content [f]: hash number [k] describes block [k] of [f]; its ShortSize is
      the block's length if that is below the block size (only possible for the last block),
      else 0; an empty file has exactly one hash, of the empty block, with ShortSize 0 *)
  Theorem sign_file_shape fi (f : list N) :
    match f with
    | [] => sign_file bs weak strong fi f = [mkbh fi 0 (weak []) (strong []) 0]
    | _ =>
      length (sign_file bs weak strong fi f) = N.to_nat (num_blocks bs (N.of_nat (length f))) /\
      forall k b, nth_error (blocks (N.to_nat bs) f) k = Some b ->
        nth_error (sign_file bs weak strong fi f) k =
          Some (mkbh fi (N.of_nat k) (weak b) (strong b) (if N.of_nat (length b) <? bs then N.of_nat (length b) else 0)) /\
        ((S k < length (blocks (N.to_nat bs) f))%nat -> N.of_nat (length b) = bs) /\
        0 < N.of_nat (length b) <= bs
    end.
  Proof.
    destruct f as [|x f'].
    - unfold sign_file, hash_block. cbn [length N.of_nat]. destruct (0 <? bs); reflexivity.
    - set (f := x :: f'). split.
      + unfold sign_file. change (match f with [] => _ | _ :: _ => ?b end) with b.
        rewrite (hash_blocks_length bs weak strong), (blocks_length bs bs_pos). reflexivity.
      + intros k b Hn. split; [|split].
        * unfold sign_file. change (match f with [] => _ | _ :: _ => ?b end) with b.
          rewrite (hash_blocks_nth fi _ 0 k b Hn). reflexivity.
        * intros Hk. rewrite (inner_blocks_full f k b Hn Hk). lia.
        * assert (Hp : (0 < N.to_nat bs)%nat) by lia.
          pose proof (nth_error_In _ _ Hn) as Hin.
          rewrite (blocks_full (N.to_nat bs) Hp f) in Hin. apply in_app_or in Hin. destruct Hin as [Hin|Hin].
          -- pose proof (full_blocks_len (N.to_nat bs) Hp f) as Hf. rewrite Forall_forall in Hf.
             rewrite (Hf b Hin). lia.
          -- pose proof (full_rem_short (N.to_nat bs) Hp f) as Hr.
             destruct (snd (full (N.to_nat bs) f)) as [|y t] eqn:Es; [destruct Hin|].
             destruct Hin as [Hb|[]]. subst b. cbn [length] in *. lia.
  Qed.

  (** number of hashes of a build: one per block, one for an empty file *)
  Theorem sign_all_count files : forall fi,
    N.of_nat (length (sign_all_from bs weak strong fi files)) =
    fold_right (fun f acc => N.max 1 (num_blocks bs (N.of_nat (length f))) + acc) 0 files.
  Proof.
    induction files as [|f r IH]; intros fi; [reflexivity|].
    cbn [sign_all_from fold_right]. rewrite app_length, Nat2N.inj_add, IH. f_equal.
    destruct f as [|x f'].
    - cbn [sign_file length N.of_nat]. rewrite (num_blocks_0 bs bs_pos). reflexivity.
    - rewrite (sign_file_length bs bs_pos weak strong) by discriminate.
      pose proof (num_blocks_pos bs bs_pos (N.of_nat (length (x :: f'))) ltac:(cbn [length]; lia)). lia.
  Qed.
End Shape.
