(** Model of what pwr/validator.go does with the regular files of a tree whose entries all exist
    with the right kind (the case C04 is about: an undamaged copy): [doOne] copies the file
    through the writer of a ValidatingPool in wound mode (Val/VPool.v: drip writer of
    [BlockSize] bytes, blockValidator.ValidateAsWound against [hashInfo.Groups[fileIndex]],
    filtered by AggregateWounds with MaxWoundSize), then compares the byte count with the size in
    the container and, when they differ, sends a FILE wound over the range between the two
    (smaller bound first, whichever file is longer); the consumers (WoundsGuardian for
    fail-fast / AssertValid, WoundsWriter) ignore healthy markers (kind CLOSED_FILE) and react to
    everything else.  The content written may be anything (C04's theorems are about the signed
    content; for other contents [validate_file] is proved equal to C05's [file_wounds],
    Compose/ModelsAgreeValidateProofs.v, and compared with Go by the group "vfile").
    The hash of a block is the pair (weak hash, strong hash).  Definitions only;
    proofs in Sig/ValidateProofs.v. *)
From Wharf Require Import Base.Prelude Val.Drip Val.VPool Sig.Sign Sig.SigFile Sig.HashInfo.
Local Open Scope N_scope.

Section Validate.
  Context {H : Type}.
  Variable bs : N.
  Variable weak : list N -> N.               (* wsync HashBlock: βhash *)
  Variable strong : list N -> H.
  Variable seqb : H -> H -> bool.            (* bytes.Equal on strong hashes *)
  Variable maxWound : Z.                     (* pwr.MaxWoundSize *)

  Definition block_hash (b : list N) : N * H := (weak b, strong b).
  (** [bh.WeakHash != weakHash] then [!bytes.Equal(bh.StrongHash, strongHash)] *)
  Definition pair_eqb (a b : N * H) : bool := (fst a =? fst b) && seqb (snd a) (snd b).

  (** hashInfo.Groups[fileIndex] as (weak, strong) pairs; a missing key is the nil slice *)
  Definition group_of (groups : list (option (list (blockhash H)))) (fileIndex : nat) : list (N * H) :=
    match nth_error groups fileIndex with
    | Some (Some g) => map (fun h => (bh_weak h, bh_strong h)) g
    | _ => []
    end.

  (** [doOne] for file [fileIndex] of [size] bytes whose content reaches the pool in the
      Write calls [ws] (io.Copy's slicing): the wounds sent to [vctx.Wounds] *)
  Definition validate_file (groups : list (option (list (blockhash H)))) (fileIndex : nat) (size : N)
             (ws : list (list N)) : list wound :=
    let raw := vpool_wounds (Z.of_N bs) block_hash pair_eqb (Z.of_nat fileIndex) (Z.of_N size)
                            (group_of groups fileIndex) ws in
    let written := N.of_nat (length (concat ws)) in
    aggregate maxWound None raw ++
    (if written =? size then []
     else
       (* woundStart, woundEnd := writtenBytes, file.Size; if woundStart > woundEnd { swap }
          (repo commit ccb6315: the file on disk may be longer than the signed one) *)
       let '(woundStart, woundEnd) := if size <? written then (size, written) else (written, size) in
       [mkwound WFile (Z.of_nat fileIndex) (Z.of_N woundStart) (Z.of_N woundEnd)]).

  (** all files, in container order *)
  Fixpoint validate_files_from (groups : list (option (list (blockhash H)))) (fileIndex : nat)
           (sizes : list N) (slicings : list (list (list N))) : list wound :=
    match sizes, slicings with
    | size :: r, ws :: r' => validate_file groups fileIndex size ws ++ validate_files_from groups (S fileIndex) r r'
    | _, _ => []
    end.

  (** Wound.Healthy *)
  Definition healthy (w : wound) : bool := wkind_eqb (wk w) WClosed.

  (** WoundsGuardian.Do: [true] = nil (no error), [false] = ErrHasWound *)
  Definition guardian (ws : list wound) : bool := forallb healthy ws.
  (** WoundsWriter.Do: the wounds written to the wounds file *)
  Definition wounds_written (ws : list wound) : list wound := filter (fun w => negb (healthy w)) ws.

  (** validation of a tree against a signature [(sizes, hashes)] as ReadSignature returned it:
      [None] when ComputeHashInfo fails (GetWriter returns its error) *)
  Definition validate_tree (sizes : list N) (hashes : list (blockhash H)) (slicings : list (list (list N)))
    : option (list wound) :=
    match compute_hash_info bs sizes hashes with
    | HiOk groups => Some (validate_files_from groups 0 sizes slicings)
    | _ => None
    end.
End Validate.
