(** Proofs about validating an undamaged copy against the build's own signature: every block
    of every file produces a healthy marker and nothing else, whatever the slicing of the
    writes; in error mode every write passes.  Built on the validating-pool results of C18
    (Val/VPoolProofs.v: [wound_mode_list], [equal_passes_lemma]). *)
From Wharf Require Import Base.Prelude Base.BlocksLemmas Val.Drip Val.VPool Val.VPoolProofs.
From Wharf Require Import Sig.Scan Sig.Sign Sig.Fanout Sig.SigFile Sig.SigFileProofs Sig.HashInfo Sig.HashInfoProofs Sig.Validate.
Local Open Scope N_scope.

Section ValidateProofs.
  Context {H : Type}.
  Variable bs : N.
  Hypothesis bs_pos : 0 < bs.
  Variable weak : list N -> N.
  Variable strong : list N -> H.
  Variable seqb : H -> H -> bool.
  Hypothesis seqb_refl : forall h, seqb h h = true.     (* bytes.Equal(x, x) *)
  Variable maxWound : Z.

  Notation bhash := (block_hash weak strong).
  Notation peqb := (pair_eqb seqb).
  Notation healthy_all := (Forall (fun w => healthy w = true)).

  Lemma to_nat_of_N (n : N) : Z.to_nat (Z.of_N n) = N.to_nat n.
  Proof. lia. Qed.

  Lemma peqb_refl p : peqb p p = true.
  Proof. unfold pair_eqb. rewrite N.eqb_refl, seqb_refl. reflexivity. Qed.

  (** the stored (weak, strong) pairs of a file's hashes are the block hashes of its blocks *)
  Lemma pairs_of_hash_blocks fi j (toks : list (list N)) :
    map (fun h : blockhash H => (bh_weak h, bh_strong h)) (hash_blocks bs weak strong fi j toks) = map bhash toks.
  Proof. revert j. induction toks as [|t r IH]; intros j; cbn [hash_blocks map]; [reflexivity|]. rewrite IH. reflexivity. Qed.

  (** blocks checked against their own hashes: healthy markers only *)
  Lemma wounds_from_own fi size (bl : list (list N)) : forall (pre : list (list N)),
    healthy_all (wounds_from (Z.of_N bs) bhash peqb fi size (map bhash (pre ++ bl)) (length pre) bl).
  Proof.
    induction bl as [|b r IH]; intros pre; cbn [wounds_from]; constructor.
    - unfold validate_as_wound.
      assert (E : nth_error (map bhash (pre ++ b :: r)) (length pre) = Some (bhash b)).
      { rewrite nth_error_map, nth_error_app2, Nat.sub_diag by lia. reflexivity. }
      rewrite E, peqb_refl. reflexivity.
    - replace (pre ++ b :: r) with ((pre ++ [b]) ++ r) by (rewrite <- app_assoc; reflexivity).
      replace (S (length pre)) with (length (pre ++ [b])) by (rewrite app_length; cbn [length]; lia).
      apply IH.
  Qed.

  Lemma wounds_from_own_length fi size g i (bl : list (list N)) :
    length (wounds_from (Z.of_N bs) bhash peqb fi size g i bl) = length bl.
  Proof. apply wounds_from_length. Qed.

  (** AggregateWounds passes healthy markers through untouched *)
  Lemma aggregate_healthy (ws : list wound) : healthy_all ws -> aggregate maxWound None ws = ws.
  Proof.
    induction 1 as [|w r Hw _ IH]; [reflexivity|]. cbn [aggregate].
    unfold healthy in Hw. destruct (wk w); try discriminate. rewrite IH. reflexivity.
  Qed.

  Notation groups_of files := (groups_from bs weak strong 0 files).

  Lemma group_of_file files i f : nth_error files i = Some f ->
    group_of (groups_of files) i = map bhash (blocks (N.to_nat bs) f).
  Proof.
    intros Hn. unfold group_of. rewrite (groups_from_nth bs weak strong files 0 i f Hn).
    destruct f as [|x f']; [reflexivity|].
    unfold sign_file. apply pairs_of_hash_blocks.
  Qed.

  (** one file of the undamaged copy: its blocks' healthy markers, no size wound *)
  Theorem validate_file_pristine files i f (ws : list (list N)) :
    nth_error files i = Some f -> concat ws = f ->
    let wl := validate_file bs weak strong seqb maxWound (groups_of files) i (N.of_nat (length f)) ws in
    healthy_all wl /\ length wl = length (blocks (N.to_nat bs) f).
  Proof.
    intros Hn Hc. cbn zeta. unfold validate_file.
    rewrite (wound_mode_list (Z.of_N bs) ltac:(lia)).
    rewrite to_nat_of_N, Hc, (group_of_file files i f Hn), N.eqb_refl, app_nil_r.
    pose proof (wounds_from_own (Z.of_nat i) (Z.of_N (N.of_nat (length f))) (blocks (N.to_nat bs) f) []) as Hh.
    cbn [app length] in Hh.
    rewrite (aggregate_healthy _ Hh). split; [exact Hh|apply wounds_from_length].
  Qed.

  (** the slicing of each file's content into Write calls (io.Copy's reads) is arbitrary *)
  Definition slicings_of (files : list (list N)) (slicings : list (list (list N))) : Prop :=
    Forall2 (fun f ws => concat ws = f) files slicings.

  Lemma validate_files_pristine all_files : forall files slicings fi,
    (forall i f, nth_error files i = Some f -> nth_error all_files (fi + i) = Some f) ->
    slicings_of files slicings ->
    healthy_all (validate_files_from bs weak strong seqb maxWound (groups_of all_files) fi
                                     (map (fun f : list N => N.of_nat (length f)) files) slicings).
  Proof.
    induction files as [|f r IH]; intros slicings fi Hnth Hs; inversion Hs as [|? ws ? sl Hc Hr]; subst;
      cbn [map validate_files_from]; [constructor|].
    apply Forall_app. split.
    - pose proof (Hnth 0%nat _ eq_refl) as H0. rewrite Nat.add_0_r in H0.
      apply (validate_file_pristine all_files fi _ ws H0 eq_refl).
    - apply IH; [|exact Hr]. intros i g Hg. replace (S fi + i)%nat with (fi + S i)%nat by lia. apply Hnth. exact Hg.
  Qed.

  (** validating an undamaged copy against the signature read back from the build's own
      signature file: ComputeHashInfo succeeds, every marker is healthy, so the fail-fast
      guardian returns no error and the wounds writer writes nothing *)
  Theorem pristine_valid_lemma files slicings :
    slicings_of files slicings ->
    let sizes := map (fun f : list N => N.of_nat (length f)) files in
    let sig := read_signature bs sizes (write_signature (sign_all bs weak strong files)) in
    exists wl, validate_tree bs weak strong seqb maxWound sizes sig slicings = Some wl /\
               healthy_all wl /\ guardian wl = true /\ wounds_written wl = [].
  Proof.
    intros Hs. cbn zeta. rewrite (read_write_signature_lemma bs bs_pos).
    unfold validate_tree. rewrite (hashinfo_groups_lemma bs bs_pos).
    eexists. split; [reflexivity|].
    assert (Hh : healthy_all (validate_files_from bs weak strong seqb maxWound (groups_of files) 0
                                (map (fun f : list N => N.of_nat (length f)) files) slicings)).
    { apply (validate_files_pristine files files slicings 0%nat); [intros i f Hi; exact Hi|exact Hs]. }
    split; [exact Hh|]. split.
    - unfold guardian. apply forallb_forall. intros w Hw. rewrite Forall_forall in Hh. apply Hh. exact Hw.
    - unfold wounds_written. induction Hh as [|w r Hw _ IH]; [reflexivity|]. cbn [filter]. rewrite Hw. exact IH.
  Qed.

  (** error mode (a validating pool without wound channel, as the patcher uses it): writing the
      signed content of file [i] in any slicing passes unchanged *)
  Theorem pristine_passes_error_mode files i f (ws : list (list N)) :
    nth_error files i = Some f -> concat ws = f ->
    vpool_error (Z.of_N bs) bhash peqb (group_of (groups_of files) i) ws =
    (Done, length ws, blocks (N.to_nat bs) f).
  Proof.
    intros Hn Hc. rewrite (group_of_file files i f Hn).
    rewrite (equal_passes_lemma (Z.of_N bs) ltac:(lia)); rewrite to_nat_of_N, Hc; [reflexivity|].
    intros k b Hk. unfold validate_as_error. rewrite nth_error_map, Hk. cbn [option_map]. apply peqb_refl.
  Qed.
End ValidateProofs.
