(** Model of the signature file: what the two producers write and what pwr/sign.go
    [ReadSignature] makes of it.

    Writing (pwr/diff.go [makeSigWriter], and the stand-alone signer's callback): after the
    container, one pwr.BlockHash message per hash carrying *only* WeakHash and StrongHash.
    Framing, protobuf and compression of the stream are the subject of C13 and are abstracted:
    a signature file is [(file sizes of the container, list of (weak, strong))].

    Reading ([ReadSignature]): for every file of the container the number of blocks is computed
    from its size; file index, block index and ShortSize are re-derived; a file of size 0
    ([numBlocks == 0]) consumes one hash.  A stream that ends early is not an error there:
    [io.EOF] inside the block loop leaves that loop only, inside the [numBlocks == 0] branch it
    leaves the loop over the files.  Definitions only; proofs in Sig/SigFileProofs.v. *)
From Wharf Require Import Base.Prelude Sig.Scan Sig.Sign Sig.Fanout.
Local Open Scope N_scope.

Section SigFile.
  Context {H : Type}.
  Variable bs : N.                                   (* pwr.BlockSize *)

  Definition write_signature (hs : list (blockhash H)) : list (N * H) :=
    map (fun h => (bh_weak h, bh_strong h)) hs.

  (** pwr.ComputeNumBlocks *)
  Definition num_blocks (size : N) : N := (size + bs - 1) / bs.

  (** the [for blockIndex := int64(0); blockIndex < numBlocks; blockIndex++] loop;
      [todo] = numBlocks - blockIndex.  Returns the hashes and the rest of the stream. *)
  Fixpoint read_blocks (fileIndex size : N) (todo : nat) (blockIndex : N) (stream : list (N * H))
    : list (blockhash H) * list (N * H) :=
    match todo with
    | O => ([], stream)
    | S todo' =>
      match stream with
      | [] => ([], [])                                             (* io.EOF: break *)
      | (w, s) :: rest =>
        (* full blocks have a shortSize of 0 *)
        let short := if size <? (blockIndex + 1) * bs then size mod bs else 0 in
        let '(hs, st) := read_blocks fileIndex size todo' (blockIndex + 1) rest in
        (mkbh fileIndex blockIndex w s short :: hs, st)
      end
    end.

  Fixpoint read_files (fileIndex : N) (sizes : list N) (stream : list (N * H)) : list (blockhash H) :=
    match sizes with
    | [] => []
    | size :: r =>
      if num_blocks size =? 0 then
        match stream with
        | [] => []                                                 (* io.EOF: break (the file loop) *)
        | (w, s) :: rest => mkbh fileIndex 0 w s 0 :: read_files (fileIndex + 1) r rest
        end
      else
        let '(hs, st) := read_blocks fileIndex size (N.to_nat (num_blocks size)) 0 stream in
        hs ++ read_files (fileIndex + 1) r st
    end.

  (** [ReadSignature]: container (its file sizes) and the hash messages that follow it *)
  Definition read_signature (sizes : list N) (stream : list (N * H)) : list (blockhash H) :=
    read_files 0 sizes stream.

  (** ---- the diff-time producer ([WritePatch]) ---- *)
  Variable weak : list N -> N.
  Variable strong : list N -> H.
  Variable maxE : nat.
  Variable slice : nat.

  (** per source file: the pool reader's chunking goes through the fan-out; the signer scans
      the pipe (closed after the last Write: io.EOF comes alone) and [makeSigWriter] strips
      the hashes.  [None] = some CreateSignature call failed (or the model ran out of fuel). *)
  Fixpoint diff_time_from (fileIndex : N) (srcs : list (list (list N) * bool)) : option (list (N * H)) :=
    match srcs with
    | [] => Some []
    | (chunks, eofl) :: r =>
      match fan_writes slice chunks eofl with
      | (ws, true) =>
        match create_signature bs weak strong maxE fileIndex ws false with
        | (hs, SEof) =>
          match diff_time_from (fileIndex + 1) r with
          | Some st => Some (write_signature hs ++ st)
          | None => None
          end
        | _ => None
        end
      | _ => None
      end
    end.
  Definition diff_time_signature := diff_time_from 0.
End SigFile.
