(** The three formulations of the weak hash agree: [beta_hash] (Go's uint32 arithmetic, the
    model of wsync.βhash), [beta_plain] (the same sums without wrap-around) and [beta_prefix]
    (running sums) - for blocks of any length: Go's wrapping [uint32] subtraction makes the factor
    [(len - i) mod 2^32] also when [uint32(len-1) < uint32(i)]. *)
From Coq Require Import ZifyBool ZifyNat ZifyN.
From Wharf Require Import Base.Prelude Sig.Weak.
Local Open Scope N_scope.

Definition M32 : N := 4294967296.

Lemma u32_mod x : u32 x = x mod M32.
Proof. unfold u32. change 4294967295 with (N.ones 32). rewrite N.land_ones. reflexivity. Qed.

Lemma low16_mod x : low16 x = x mod M16.
Proof. unfold low16. change 65535 with (N.ones 16). rewrite N.land_ones. reflexivity. Qed.

Lemma mod32_mod16 x : (x mod M32) mod M16 = x mod M16.
Proof.
  change M32 with (M16 * M16). rewrite N.mod_mul_r by discriminate.
  rewrite N.mul_comm, N.mod_add by discriminate. apply N.mod_mod. discriminate.
Qed.

(** Go's [uint32] subtraction is subtraction modulo 2^32 (stated with the operands of the loop:
    [x], [y] arbitrary naturals reduced by the conversions, [y <= x]) *)
Lemma sub32_mod x y : y <= x -> sub32 (u32 x) (u32 y) = (x - y) mod M32.
Proof.
  intros Hle. unfold sub32. rewrite !u32_mod. unfold M32.
  pose proof (N.mod_lt x 4294967296 ltac:(discriminate)) as Hx.
  pose proof (N.mod_lt y 4294967296 ltac:(discriminate)) as Hy.
  pose proof (N.div_mod x 4294967296 ltac:(discriminate)) as Ex.
  pose proof (N.div_mod y 4294967296 ltac:(discriminate)) as Ey.
  set (qx := x / 4294967296) in *. set (rx := x mod 4294967296) in *.
  set (qy := y / 4294967296) in *. set (ry := y mod 4294967296) in *.
  clearbody qx rx qy ry. assert (Hq : qy <= qx) by lia.
  destruct (N.ltb_spec rx ry) as [Hlt|Hge].
  - replace (x - y) with (rx + 4294967296 - ry + (qx - qy - 1) * 4294967296) by lia.
    rewrite N.mod_add by discriminate. reflexivity.
  - replace (x - y) with (rx - ry + (qx - qy) * 4294967296) by lia.
    replace (rx + 4294967296 - ry) with (rx - ry + 1 * 4294967296) by lia.
    rewrite !N.mod_add by discriminate. reflexivity.
Qed.

(** the factor [uint32(len(block)-1) - uint32(i) + 1] is [(len - i) mod 2^32] whenever
    [i < len], however long the block *)
Lemma beta_factor len i : i < len -> u32 (sub32 (u32 (len - 1)) (u32 i) + 1) = (len - i) mod M32.
Proof.
  intros Hi. rewrite sub32_mod by lia. rewrite u32_mod.
  rewrite N.add_mod_idemp_l by discriminate. f_equal. lia.
Qed.

Lemma beta_loop_plain (l : list N) : forall len i a b a' b',
  i + N.of_nat (length l) = len ->
  a = a' mod M32 -> b = b' mod M32 ->
  fst (beta_loop len i a b l) = fst (plain_loop len i a' b' l) mod M32 /\
  snd (beta_loop len i a b l) = snd (plain_loop len i a' b' l) mod M32.
Proof.
  induction l as [|v r IH]; intros len i a b a' b' Hi Ha Hb; cbn [beta_loop plain_loop fst snd].
  - split; assumption.
  - cbn [length] in Hi. apply IH; [lia| |].
    + rewrite !u32_mod, Ha. rewrite <- N.add_mod by discriminate. reflexivity.
    + rewrite beta_factor by lia. rewrite !u32_mod, Hb.
      rewrite <- N.mul_mod by discriminate.
      rewrite <- N.add_mod by discriminate. reflexivity.
Qed.

(** Go's wrapping arithmetic computes the plain sums - no bound on the length of the block *)
Theorem beta_hash_plain (block : list N) : beta_hash block = beta_plain block.
Proof.
  unfold beta_hash, beta_plain.
  pose proof (beta_loop_plain block (N.of_nat (length block)) 0 0 0 0 0 ltac:(lia) eq_refl eq_refl) as [Ha Hb].
  destruct (beta_loop (N.of_nat (length block)) 0 0 0 block) as [a b].
  destruct (plain_loop (N.of_nat (length block)) 0 0 0 block) as [a' b']. cbn [fst snd] in Ha, Hb. subst a b.
  rewrite !low16_mod, !mod32_mod16, !u32_mod.
  assert (H1 : a' mod M16 < M16) by (apply N.mod_lt; discriminate).
  assert (H2 : b' mod M16 < M16) by (apply N.mod_lt; discriminate).
  assert (H3 : M16 * (b' mod M16) < M32) by (unfold M32, M16 in *; lia).
  rewrite (N.mod_small (M16 * (b' mod M16))) by assumption.
  apply N.mod_small. unfold M32, M16 in *. lia.
Qed.

Lemma plain_loop_prefix (l : list N) : forall len i a b c,
  len = i + N.of_nat (length l) ->
  fst (plain_loop len i a b l) = fst (prefix_loop a c l) /\
  snd (plain_loop len i a b l) + N.of_nat (length l) * a + c = snd (prefix_loop a c l) + b.
Proof.
  induction l as [|v r IH]; intros len i a b c Hlen; cbn [plain_loop prefix_loop fst snd length].
  - split; [reflexivity|lia].
  - cbn [length] in Hlen.
    destruct (IH len (i + 1) (a + v) (b + (len - i) * v) (c + (a + v)) ltac:(lia)) as [Hf Hs].
    split; [exact Hf|].
    set (P := snd (plain_loop len (i + 1) (a + v) (b + (len - i) * v) r)) in *.
    set (Q := snd (prefix_loop (a + v) (c + (a + v)) r)) in *.
    replace (len - i) with (N.of_nat (length r) + 1) in Hs by lia.
    replace (N.of_nat (S (length r))) with (N.of_nat (length r) + 1) by lia.
    rewrite N.mul_add_distr_l, N.mul_add_distr_r in Hs. rewrite N.mul_add_distr_r.
    lia.
Qed.

Theorem beta_plain_prefix (block : list N) : beta_plain block = beta_prefix block.
Proof.
  unfold beta_plain, beta_prefix.
  pose proof (plain_loop_prefix block (N.of_nat (length block)) 0 0 0 0 ltac:(lia)) as [Ha Hb].
  destruct (plain_loop (N.of_nat (length block)) 0 0 0 block) as [a b].
  destruct (prefix_loop 0 0 block) as [a' c]. cbn [fst snd] in Ha, Hb.
  replace c with b by lia. subst a'. reflexivity.
Qed.

Corollary beta_hash_prefix (block : list N) : beta_hash block = beta_prefix block.
Proof. rewrite beta_hash_plain. apply beta_plain_prefix. Qed.
